/-
  Preced7 — one block of `allocate_tasks` (shipped algorithms): every task of the
  new local schedule, and every task handed to a new allocation process, was in the
  old local schedule or is ready (all the tasks of its predecessor list are reported
  finished by the cluster).
-/
import TopsimProofs.Preced6

namespace Topsim
namespace Sys

theorem QuietB.st {s X : Sys} (hq : QuietB s X) (h : ST s) : ST X :=
  h.quiet hq.task.toS hq.plan hq.newIng hq.fin

theorem QuietB.rdy {s X : Sys} (hq : QuietB s X) {t : Tid} (h : Rdy s t) : Rdy X t :=
  h.mono hq.task.toS (FinMono.of_eq hq.fin)

theorem mem_planPreds {pl : Plan} {q t : Tid} (h : (q, t) ∈ pl.edges) : q ∈ pl.preds t := by
  unfold Plan.preds
  exact List.mem_map.mpr ⟨(q, t), List.mem_filter.mpr ⟨h, by simp⟩, rfl⟩

theorem planPreds_mem {pl : Plan} {q t : Tid} (h : q ∈ pl.preds t) : (q, t) ∈ pl.edges := by
  unfold Plan.preds at h
  obtain ⟨⟨a, b⟩, hx, rfl⟩ := List.mem_map.mp h
  obtain ⟨h1, h2⟩ := List.mem_filter.mp hx
  have : b = t := by simpa using h2
  subst this
  exact h1

/-- a ready task of observation `oid` -/
def NewRdy (X : Sys) (oid : Oid) (t : Tid) : Prop := Rdy X t ∧ ∃ c n, t = Tid.wf oid c n

/-- what a shipped algorithm newly proposes is ready -/
theorem proposals_ready {a1 : Sys} (hst : ST a1) (ha : a1.alg ≠ .oracle) (orc : Oracle) (oid : Oid) (plan : Plan)
    (hplan : a1.plan? oid = some plan) (sc : List (Tid × Mid)) (po : List Tid) (out : AlgOut)
    (hrun : a1.runAlgorithm orc plan sc po = .ok out) :
    ∀ t ∈ dictKeys out.schedule, t ∈ dictKeys sc ∨ NewRdy a1 oid t := by
  intro t ht
  by_cases hin : t ∈ dictKeys sc
  · exact Or.inl hin
  · right
    obtain ⟨hplm, _⟩ := plan?_mem hplan
    have htp : t ∈ plan.tasks := by
      rcases runAlgorithm_keys a1 orc plan sc po out ha hrun t ht with h1 | h1
      · exact absurd h1 hin
      · exact h1
    obtain ⟨m, hm⟩ := exists_pair_of_key ht
    have hns : (t, m) ∉ sc := fun h => hin (key_of_pair h)
    obtain ⟨r, hr⟩ := hst.planRecs plan hplm t htp
    have hobs : ∃ c n, t = Tid.wf oid c n := by
      obtain ⟨c, n, e⟩ := hst.planWf plan hplm t htp
      exact ⟨c, n, by rw [e, (plan?_mem hplan).2]⟩
    refine ⟨⟨r, hr, fun q hq => ⟨hst.predsWf t r hr q hq, ?_⟩⟩, hobs⟩
    rcases runAlgorithm_ready a1 orc plan sc po out ha hrun (t, m) hm hns with h1 | h1
    · exact (finT_iff a1 q).mpr (h1 q (mem_planPreds (hst.recEdge plan hplm t htp r hr q hq)))
    · have hv : (a1.taskView t).predIds = r.preds := by
        unfold taskView; rw [hr]
      have h2 := h1 q (by rw [hv]; exact hq)
      unfold dictHas at h2
      unfold FinT
      cases hd : dictGet a1.cl.finished q with
      | none => rw [hd] at h2; simp at h2
      | some b =>
        cases b with
        | true => rfl
        | false =>
          have := hst.finFalse q hd
          rw [isWf_not_ingest (hst.predsWf t r hr q hq)] at this
          exact absurd this (by simp)

/-- the loop body of `_process_current_schedule`, with the cross-machine list it hands over -/
theorem processOne_cases2 (now : Time) (oid : Oid) (st : PcsSt) (t : Tid) :
    (∃ s1, UA st.s t s1 ∧ (processOne now oid st t).s = s1 ∧
      (processOne now oid st t).schedule = st.schedule) ∨
    (∃ s1 m r, UA st.s t s1 ∧ dictGet st.schedule t = some m ∧ st.s.task? t = some r ∧
      r.status = .unscheduled ∧
      (processOne now oid st t).s = (s1.spawn (.allocTask t m (crossPreds (dictSet st.pairs t m) r.preds m)
        (some oid) false 0) now).1.updTask t (fun r => { r with status := .scheduled }) ∧
      (processOne now oid st t).schedule = dictErase st.schedule t) := by
  unfold processOne
  cases hok : st.err with
  | some e => exact Or.inl ⟨st.s, Or.inl rfl, rfl, rfl⟩
  | none =>
    simp only
    cases hm : dictGet st.schedule t with
    | none => exact Or.inl ⟨st.s, Or.inl rfl, rfl, rfl⟩
    | some m =>
      cases hr : st.s.task? t with
      | none => exact Or.inl ⟨st.s, Or.inl rfl, rfl, rfl⟩
      | some r =>
        simp only []
        cases hmm : st.s.machine? m with
        | none => exact Or.inl ⟨st.s, Or.inl rfl, rfl, rfl⟩
        | some mm =>
          simp only []
          by_cases hz : ((r.allocObj || r.planned != some m) = true ∧ (mm.cpu = 0 ∨ mm.bw = 0))
          · rw [if_pos hz]; exact Or.inl ⟨st.s, Or.inl rfl, rfl, rfl⟩
          · simp only [hz, if_false]
            generalize hs1 : (if (r.allocObj || r.planned != some m) = true then
              st.s.updTask t (fun r => updateAllocation r mm) else st.s) = s1
            have hua : UA st.s t s1 := by
              subst hs1; split
              · exact Or.inr ⟨mm, rfl⟩
              · exact Or.inl rfl
            by_cases hocc : (st.curr.contains m = true ∨ s1.cl.isOccupied m = true)
            · rw [if_pos hocc]; exact Or.inl ⟨s1, hua, rfl, rfl⟩
            · rw [if_neg hocc]
              by_cases hmiss : (r.preds.any fun p => !dictHas (dictSet st.pairs t m) p) = true
              · rw [if_pos hmiss]; exact Or.inl ⟨s1, hua, rfl, rfl⟩
              · rw [if_neg hmiss]
                by_cases hst : r.status ≠ TStatus.unscheduled
                · rw [if_pos hst]; exact Or.inl ⟨s1, hua, rfl, rfl⟩
                · rw [if_neg hst]
                  exact Or.inr ⟨s1, m, r, hua, rfl, rfl, by simpa using hst, rfl, rfl⟩
/-- what `_process_current_schedule` has done so far -/
structure PCQ (a : Sys) (sched0 : List (Tid × Mid)) (oid : Oid) (st : PcsSt) : Prop where
  procs : ∀ q ∈ st.s.procs, q ∈ a.procs ∨
    ∃ t m cross, q.k = .allocTask t m cross (some oid) false 0 ∧ t ∈ dictKeys sched0 ∧
      ∃ r, st.s.task? t = some r ∧ ∀ x ∈ cross, x ∈ r.preds
  keys : ∀ t ∈ dictKeys st.schedule, t ∈ dictKeys sched0

theorem PCQ.step {a : Sys} {sched0 : List (Tid × Mid)} {oid : Oid} {st : PcsSt} (h : PCQ a sched0 oid st)
    (now : Time) (t : Tid) : PCQ a sched0 oid (processOne now oid st t) := by
  have hq := quietB_processOne now oid st t
  have hold : ∀ q ∈ st.s.procs, q ∈ a.procs ∨
      ∃ t' m cross, q.k = .allocTask t' m cross (some oid) false 0 ∧ t' ∈ dictKeys sched0 ∧
        ∃ r, (processOne now oid st t).s.task? t' = some r ∧ ∀ x ∈ cross, x ∈ r.preds := by
    intro q hq'
    rcases h.procs q hq' with h1 | ⟨t', m, cross, hk, ht', r, hr, hc⟩
    · exact Or.inl h1
    · obtain ⟨r', hr', hk'⟩ := hq.task.fwd t' r hr
      exact Or.inr ⟨t', m, cross, hk, ht', r', hr', by rw [hk'.shape.preds]; exact hc⟩
  rcases processOne_cases2 now oid st t with ⟨s1, hua, hs, hsc⟩ | ⟨s1, m, r, hua, hm, hr, _, hs, hsc⟩
  · refine ⟨?_, by rw [hsc]; exact h.keys⟩
    intro q hq'
    rw [hs, hua.procs.1] at hq'
    exact hold q hq'
  · have htk : t ∈ dictKeys st.schedule := mem_dictKeys_of_get hm
    refine ⟨?_, ?_⟩
    · intro q hq'
      have hq'' : q ∈ s1.procs ++ [({ pid := s1.nextPid, wake := now,
                                       k := .allocTask t m (crossPreds (dictSet st.pairs t m) r.preds m)
                                         (some oid) false 0 } : Proc)] := by
        rw [hs] at hq'; exact hq'
      rcases List.mem_append.mp hq'' with h1 | h1
      · rw [hua.procs.1] at h1; exact hold q h1
      · simp only [List.mem_singleton] at h1
        subst h1
        obtain ⟨r', hr', hk'⟩ := hq.task.fwd t r hr
        refine Or.inr ⟨t, m, _, rfl, h.keys t htk, r', hr', ?_⟩
        intro x hx
        rw [hk'.shape.preds]
        exact (List.mem_filter.mp hx).1
    · rw [hsc]
      exact fun t' ht' => h.keys t' ((dictKeys_dictErase_sublist st.schedule t).subset ht')

theorem processCurrentSchedule_pcq (a : Sys) (now : Time) (oid : Oid) (sched0 pairs : List (Tid × Mid)) :
    PCQ a sched0 oid (processCurrentSchedule a now oid sched0 pairs) := by
  unfold processCurrentSchedule
  simp only
  generalize ((dictKeys sched0).mergeSort _) = l
  have : ∀ (l : List Tid) (st : PcsSt), PCQ a sched0 oid st → PCQ a sched0 oid (l.foldl (processOne now oid) st) := by
    intro l
    induction l with
    | nil => intro st h; exact h
    | cons x r ih => intro st h; exact ih _ (h.step now x)
  exact this l _ ⟨fun q hq => Or.inl hq, fun t ht => ht⟩

/-- one iteration -/
theorem allocTasksIter_sum {a : Sys} (hst : ST a) (ha : a.alg ≠ .oracle) (now : Time) (orc : Oracle)
    (oid : Oid) (sc pa : List (Tid × Mid)) (po : List Tid) :
    ∃ sc' pa' po' fn', (a.allocTasksIter now orc oid sc pa po).2.1 = .allocTasks oid sc' pa' po' fn' ∧
      (∀ t ∈ dictKeys sc', t ∈ dictKeys sc ∨ NewRdy (a.allocTasksIter now orc oid sc pa po).1 oid t) ∧
      ∀ q ∈ (a.allocTasksIter now orc oid sc pa po).1.procs, q ∈ a.procs ∨
        ∃ t m cross, q.k = .allocTask t m cross (some oid) false 0 ∧
          (t ∈ dictKeys sc ∨ NewRdy (a.allocTasksIter now orc oid sc pa po).1 oid t) ∧
          ∃ r, (a.allocTasksIter now orc oid sc pa po).1.task? t = some r ∧ ∀ x ∈ cross, x ∈ r.preds := by
  have h1 := quietB_updateCurrentPlan a oid
  have hst1 := h1.st hst
  have ha1 : (a.updateCurrentPlan oid).alg ≠ .oracle := by rw [updateCurrentPlan_alg]; exact ha
  have hp1 : (a.updateCurrentPlan oid).procs = a.procs := updateCurrentPlan_procs a oid
  have hout := allocTasksIter_out a now orc oid sc pa po
  generalize a.allocTasksIter now orc oid sc pa po = r at hout ⊢
  have hnil : ∀ (sch : List (Tid × Mid)) (X : Sys), sch.isEmpty = true →
      ∀ t ∈ dictKeys sch, t ∈ dictKeys sc ∨ NewRdy X oid t := by
    intro sch X he t ht
    have : sch = [] := by simpa using he
    rw [this] at ht; simp [dictKeys] at ht
  cases hout with
  | noPlan _ =>
    exact ⟨sc, pa, po, false, rfl, fun t ht => Or.inl ht, fun q hq => Or.inl (by rw [← hp1]; exact hq)⟩
  | algErr _ _ _ _ =>
    exact ⟨sc, pa, po, false, rfl, fun t ht => Or.inl ht, fun q hq => Or.inl (by rw [← hp1]; exact hq)⟩
  | finish plan out _ _ hemp _ _ _ =>
    refine ⟨out.schedule, pa, out.pool, true, rfl, hnil _ _ hemp, fun q hq => Or.inl ?_⟩
    have : q ∈ (atS3 (a.updateCurrentPlan oid) out oid).procs := hq
    rw [atS3_procs, hp1] at this; exact this
  | finishBad plan out _ _ hemp _ _ _ =>
    refine ⟨out.schedule, pa, out.pool, false, rfl, hnil _ _ hemp, fun q hq => Or.inl ?_⟩
    have : q ∈ (atS3 (a.updateCurrentPlan oid) out oid).procs := hq
    rw [atS3_procs, hp1] at this; exact this
  | finishWait plan out _ _ hemp _ _ =>
    refine ⟨out.schedule, pa, out.pool, false, rfl, hnil _ _ hemp, fun q hq => Or.inl ?_⟩
    have : q ∈ (atS3 (a.updateCurrentPlan oid) out oid).procs := hq
    rw [atS3_procs, hp1] at this; exact this
  | idle plan out _ _ hemp _ =>
    refine ⟨out.schedule, pa, out.pool, false, rfl, hnil _ _ hemp, fun q hq => Or.inl ?_⟩
    rw [atS3_procs, hp1] at hq; exact hq
  | alloc plan out y hplan hrun _ _ =>
    have hprop := proposals_ready hst1 ha1 orc oid plan hplan sc po out hrun
    have hq3 := quietB_atS3 (a.updateCurrentPlan oid) out oid
      (runAlgorithm_finished_eq _ orc plan sc po out ha1 hrun)
    have hqp := quietB_processCurrentSchedule (atS3 (a.updateCurrentPlan oid) out oid) now oid out.schedule pa
    have hpcq := processCurrentSchedule_pcq (atS3 (a.updateCurrentPlan oid) out oid) now oid out.schedule pa
    have hrd : ∀ t ∈ dictKeys out.schedule, t ∈ dictKeys sc ∨
        NewRdy (processCurrentSchedule (atS3 (a.updateCurrentPlan oid) out oid) now oid out.schedule pa).s oid t := by
      intro t ht
      rcases hprop t ht with h2 | h2
      · exact Or.inl h2
      · exact Or.inr ⟨hqp.rdy (hq3.rdy h2.1), h2.2⟩
    refine ⟨_, _, out.pool, false, rfl, fun t ht => hrd t (hpcq.keys t ht), fun q hq => ?_⟩
    rcases hpcq.procs q hq with h2 | ⟨t, m, cross, hk, ht, hrc⟩
    · rw [atS3_procs, hp1] at h2; exact Or.inl h2
    · exact Or.inr ⟨t, m, cross, hk, hrd t ht, hrc⟩

/-- one block -/
theorem allocTasksBlock_sum {s : Sys} (hst : ST s) (ha : s.alg ≠ .oracle) (now : Time) (orc : Oracle) (pc : Nat)
    (oid : Oid) (sc pa : List (Tid × Mid)) (po : List Tid) (fn : Bool) :
    ∃ sc' pa' po' fn', (s.allocTasksBlock now orc pc oid sc pa po fn).2.1 = .allocTasks oid sc' pa' po' fn' ∧
      (∀ t ∈ dictKeys sc', t ∈ dictKeys sc ∨ NewRdy (s.allocTasksBlock now orc pc oid sc pa po fn).1 oid t) ∧
      ∀ q ∈ (s.allocTasksBlock now orc pc oid sc pa po fn).1.procs, q ∈ s.procs ∨
        ∃ t m cross, q.k = .allocTask t m cross (some oid) false 0 ∧
          (t ∈ dictKeys sc ∨ NewRdy (s.allocTasksBlock now orc pc oid sc pa po fn).1 oid t) ∧
          ∃ r, (s.allocTasksBlock now orc pc oid sc pa po fn).1.task? t = some r ∧ ∀ x ∈ cross, x ∈ r.preds := by
  cases fn with
  | true =>
    rw [allocTasksBlock_fin]
    exact ⟨sc, pa, po, true, rfl, fun t ht => Or.inl ht, fun q hq => Or.inl hq⟩
  | false =>
    rw [allocTasksBlock_eq]
    have h0 := quietB_atStart s now pc oid
    obtain ⟨sc', pa', po', fn', g1, g2, g3⟩ := allocTasksIter_sum (h0.st hst)
      (by rw [atStart_alg]; exact ha) now orc oid sc pa po
    refine ⟨sc', pa', po', fn', g1, g2, fun q hq => ?_⟩
    rcases g3 q hq with h1 | h1
    · rw [atStart_procs] at h1; exact Or.inl h1
    · exact Or.inr h1

end Sys
end Topsim
