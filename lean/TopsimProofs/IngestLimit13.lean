/-
  IngestLimit13 — the blocks that touch nothing the ingest timing invariant
  reads (`ILTQ`): observation records, the ghost lists of allocation processes
  and the work / planned duration of ingest task records are left alone, and
  the processes they create are no telescope, ingest supervisor, provisioning
  process or ingest allocation process.
-/
import TopsimProofs.IngestLimit12

namespace Topsim

/-- the kinds the ingest timing invariant talks about (besides task bodies) -/
def PK.ilRel : PK → Bool
  | .telescope => true
  | .allocIngest .. => true
  | .provIngest .. => true
  | .allocTask _ _ _ _ ing _ => ing
  | _ => false

namespace Sys

open Cluster

/-! ### task records: work and planned duration of ingest tasks are kept -/

/-- every record of `ts'` with the id of an ingest task stands for a record of `ts` with the same
id, the same work, the same recorded finish (F13), and — when it carries no work — the same planned
duration -/
def IlTaskK (ts ts' : List TaskRec) : Prop :=
  ∀ r' ∈ ts', r'.id.isIngest = true →
    ∃ r ∈ ts, r'.id = r.id ∧ r'.flops = r.flops ∧ r'.data = r.data ∧
      (r.flops = 0 → r.data = 0 → r'.duration = r.duration) ∧ r'.aft = r.aft

theorem IlTaskK.refl (ts : List TaskRec) : IlTaskK ts ts :=
  fun r hr _ => ⟨r, hr, rfl, rfl, rfl, fun _ _ => rfl, rfl⟩

theorem IlTaskK.trans {a b c : List TaskRec} (h1 : IlTaskK a b) (h2 : IlTaskK b c) : IlTaskK a c := by
  intro r'' hr'' hi
  obtain ⟨r', hr', e1, e2, e3, e4, e5⟩ := h2 r'' hr'' hi
  obtain ⟨r, hr, f1, f2, f3, f4, f5⟩ := h1 r' hr' (e1 ▸ hi)
  refine ⟨r, hr, e1.trans f1, e2.trans f2, e3.trans f3, fun h0 h0' => ?_, e5.trans f5⟩
  rw [e4 (f2 ▸ h0) (f3 ▸ h0'), f4 h0 h0']

theorem IlTaskK.of_eq {a b : List TaskRec} (h : b = a) : IlTaskK a b := by subst h; exact IlTaskK.refl _

/-- a record update that keeps id and work, and the planned duration of a record without work -/
def IlKeepT (f : TaskRec → TaskRec) : Prop :=
  ∀ r, (f r).id = r.id ∧ (f r).flops = r.flops ∧ (f r).data = r.data ∧
    (r.flops = 0 → r.data = 0 → (f r).duration = r.duration) ∧ (f r).aft = r.aft

theorem IlTaskK.updTask (s : Sys) (t : Tid) (f : TaskRec → TaskRec) (hf : IlKeepT f) :
    IlTaskK s.tasks (s.updTask t f).tasks := by
  intro r' hr' _
  simp only [Sys.updTask, List.mem_map] at hr'
  obtain ⟨r, hr, rfl⟩ := hr'
  refine ⟨r, hr, ?_⟩
  split
  · exact hf r
  · exact ⟨rfl, rfl, rfl, fun _ _ => rfl, rfl⟩

theorem IlTaskK.append (ts recs : List TaskRec) (h : ∀ r ∈ recs, r.id.isIngest = false) :
    IlTaskK ts (ts ++ recs) := by
  intro r' hr' hi
  rcases List.mem_append.mp hr' with hr' | hr'
  · exact ⟨r', hr', rfl, rfl, rfl, fun _ _ => rfl, rfl⟩
  · rw [h r' hr'] at hi; exact absurd hi (by simp)

theorem il_keepT_updateAllocation (mm : Machine) : IlKeepT (fun r => updateAllocation r mm) := by
  intro r
  unfold updateAllocation
  simp only
  split
  · rename_i hgt
    refine ⟨rfl, rfl, rfl, fun h0 h0' => ?_, rfl⟩
    exfalso
    rw [h0, h0'] at hgt
    simp at hgt
  · exact ⟨rfl, rfl, rfl, fun _ _ => rfl, rfl⟩

/-! ### steps the timing invariant does not see -/

structure ILTQ (s s1 : Sys) : Prop where
  obs : s1.obs = s.obs
  pend : s1.cl.pending = s.cl.pending
  runOn : s1.cl.runOn = s.cl.runOn
  tasks : IlTaskK s.tasks s1.tasks
  newp : ∃ new, s1.procs = s.procs ++ new ∧ ∀ q ∈ new, q.k.ilRel = false

theorem ILTQ.refl (s : Sys) : ILTQ s s := ⟨rfl, rfl, rfl, IlTaskK.refl _, [], by simp, by simp⟩

theorem ILTQ.trans {a b c : Sys} (h1 : ILTQ a b) (h2 : ILTQ b c) : ILTQ a c := by
  obtain ⟨n1, e1, f1⟩ := h1.newp
  obtain ⟨n2, e2, f2⟩ := h2.newp
  refine ⟨h2.obs.trans h1.obs, h2.pend.trans h1.pend, h2.runOn.trans h1.runOn, h1.tasks.trans h2.tasks,
    n1 ++ n2, by rw [e2, e1, List.append_assoc], ?_⟩
  intro q hq
  rcases List.mem_append.mp hq with hq | hq
  · exact f1 q hq
  · exact f2 q hq

theorem ILTQ.same {s s1 : Sys} (h1 : s1.obs = s.obs) (h2 : s1.cl.pending = s.cl.pending)
    (h3 : s1.cl.runOn = s.cl.runOn) (h4 : s1.tasks = s.tasks) (h5 : s1.procs = s.procs) : ILTQ s s1 :=
  ⟨h1, h2, h3, IlTaskK.of_eq h4, [], by simp [h5], by simp⟩

theorem ILTQ.ofQuiet {s s1 : Sys} (hcl : ClQuiet s.cl s1.cl) (h1 : s1.obs = s.obs)
    (h4 : s1.tasks = s.tasks) (h5 : s1.procs = s.procs) : ILTQ s s1 :=
  ILTQ.same h1 hcl.pending hcl.runOn h4 h5

theorem ILTQ.spawn (s : Sys) (k : PK) (now : Time) (h : k.ilRel = false) : ILTQ s (s.spawn k now).1 :=
  ⟨rfl, rfl, rfl, IlTaskK.refl _, _, spawn_procs s k now, by simp [h]⟩

theorem ILTQ.updTask (s : Sys) (t : Tid) (f : TaskRec → TaskRec) (hf : IlKeepT f) : ILTQ s (s.updTask t f) :=
  ⟨rfl, rfl, rfl, IlTaskK.updTask s t f hf, [], by simp, by simp⟩

syntax "tq_core" : tactic
macro_rules
  | `(tactic| tq_core) =>
    `(tactic| first
      | exact ILTQ.same rfl rfl rfl rfl rfl
      | (split <;> tq_core))

/-! ### the neutral blocks -/

theorem monitorBlock_iltq (s : Sys) (now : Time) : ILTQ s (s.monitorBlock now).1 := by
  unfold monitorBlock; tq_core

theorem clusterLoop_iltq (s : Sys) : ILTQ s { s with cl := s.cl.loopTick } :=
  ILTQ.ofQuiet (clQuiet_tick _) rfl rfl rfl

theorem ingestStreamIter_iltq (s : Sys) (now : Time) (oid : Oid) (tl : Int) :
    ILTQ s (s.ingestStreamIter now oid tl).1 := by
  unfold ingestStreamIter; tq_core

theorem ingestStreamBlock_iltq (s : Sys) (now : Time) (pc : Nat) (oid : Oid) (tl : Int) :
    ILTQ s (s.ingestStreamBlock now pc oid tl).1 := by
  unfold ingestStreamBlock
  split
  · split
    · tq_core
    · split
      · tq_core
      · exact (ILTQ.same rfl rfl rfl rfl rfl : ILTQ s (s.addBuf _)).trans
          (ingestStreamIter_iltq _ _ _ _)
  · exact ingestStreamIter_iltq _ _ _ _

theorem hot2coldIter_iltq (s : Sys) (now : Time) (o : Oid) (left : Int) :
    ILTQ s (s.hot2coldIter now o left).1 := by
  unfold hot2coldIter; tq_core

theorem hot2coldBlock_iltq (s : Sys) (now : Time) (cur : Option (Oid × Int)) :
    ILTQ s (s.hot2coldBlock now cur).1 := by
  unfold hot2coldBlock
  split
  · exact hot2coldIter_iltq _ _ _ _
  · split
    · tq_core
    · tq_core
    · rename_i b1 o left _
      exact (ILTQ.same rfl rfl rfl rfl rfl :
        ILTQ s (({ s with buf := b1 }).addBuf ⟨natNow now, o, .transferStarted⟩)).trans
          (hot2coldIter_iltq _ _ _ _)

theorem cold2hotIter_iltq (s : Sys) (now : Time) (o : Oid) (left : Int) :
    ILTQ s (s.cold2hotIter now o left).1 := by
  unfold cold2hotIter; tq_core

theorem cold2hotBlock_iltq (s : Sys) (now : Time) (cur : Option (Oid × Int)) :
    ILTQ s (s.cold2hotBlock now cur).1 := by
  unfold cold2hotBlock
  split
  · exact cold2hotIter_iltq _ _ _ _
  · split
    · tq_core
    · tq_core
    · rename_i b1 o left _
      exact (ILTQ.same rfl rfl rfl rfl rfl :
        ILTQ s (({ s with buf := b1 }).addBuf ⟨natNow now, o, .transferStarted⟩)).trans
          (cold2hotIter_iltq _ _ _ _)

theorem bufferLoopBlock_iltq (s : Sys) (now : Time) : ILTQ s (s.bufferLoopBlock now).1 := by
  unfold bufferLoopBlock
  split
  · exact ILTQ.refl _
  · rename_i d _
    simp only
    have h1 : ILTQ s (if d.startHot2Cold = true then (s.spawn (.hot2cold none) now).1 else s) := by
      split
      · exact ILTQ.spawn _ _ _ rfl
      · exact ILTQ.refl _
    refine h1.trans ?_
    generalize (if d.startHot2Cold = true then (s.spawn (.hot2cold none) now).1 else s) = s1
    split
    · exact ILTQ.spawn _ _ _ rfl
    · exact ILTQ.refl _

theorem schedLoopBlock_iltq (s : Sys) (now : Time) (orc : Oracle) :
    ILTQ s (s.schedLoopBlock now orc).1 := by
  unfold schedLoopBlock
  simp only
  split
  · split
    · tq_core
    · rename_i b1 oid _
      split
      · tq_core
      · rename_i o _
        generalize hrp : (if s.staticPlan = true then staticPlanOf o (natNow now) orc.plan
          else batchPlan o (natNow now)) = rp
        have hing : ∀ r ∈ rp.1, r.id.isIngest = false := by
          subst hrp
          split
          · intro r hr
            simp only [staticPlanOf, List.mem_map] at hr
            obtain ⟨⟨n, mid, est, eft⟩, _, rfl⟩ := hr
            rfl
          · intro r hr
            simp only [batchPlan, List.mem_map] at hr
            obtain ⟨n, _, rfl⟩ := hr
            rfl
        obtain ⟨recs, plan⟩ := rp
        simp only at hing ⊢
        have h1 : ILTQ s { s with schEvents := [], buf := b1, tasks := s.tasks ++ recs, plans := (s.plans.filter (·.obs ≠ oid)) ++ [plan] } :=
          ⟨rfl, rfl, rfl, IlTaskK.append _ _ hing, [], by simp, by simp⟩
        split
        · exact h1
        · refine h1.trans ?_
          refine ILTQ.trans (b := { s with schEvents := [], buf := b1, tasks := s.tasks ++ recs, plans := (s.plans.filter (·.obs ≠ oid)) ++ [plan], queue := s.queue ++ [oid] }) (ILTQ.same rfl rfl rfl rfl rfl) ?_
          refine (ILTQ.spawn _ (.allocTasks oid [] [] [] false) now rfl).trans ?_
          exact ILTQ.same rfl rfl rfl rfl rfl
  · tq_core

/-! ### `allocate_tasks` -/

theorem foldl_iltq {α} (f : Sys → α → Sys) (hf : ∀ s x, ILTQ s (f s x)) (l : List α) (s : Sys) :
    ILTQ s (l.foldl f s) := by
  induction l generalizing s with
  | nil => exact ILTQ.refl _
  | cons x r ih => exact (hf s x).trans (ih _)

theorem updateCurrentPlan_iltq (s : Sys) (oid : Oid) : ILTQ s (s.updateCurrentPlan oid) := by
  unfold updateCurrentPlan
  split
  · exact ILTQ.refl _
  · simp only
    refine ILTQ.trans (foldl_iltq _ ?_ _ s) (ILTQ.same rfl rfl rfl rfl rfl)
    intro s x
    split
    · split
      · exact ILTQ.same rfl rfl rfl rfl rfl
      · exact ILTQ.refl _
    · exact ILTQ.refl _

theorem processOne_iltq (now : Time) (oid : Oid) (st : PcsSt) (t : Tid) :
    ILTQ st.s (processOne now oid st t).s := by
  unfold processOne
  cases hok : st.err with
  | some e => exact ILTQ.refl _
  | none =>
    simp only
    cases hm : dictGet st.schedule t with
    | none => exact ILTQ.refl _
    | some m =>
      cases hr : st.s.task? t with
      | none => exact ILTQ.refl _
      | some r =>
        simp only []
        cases hmm : st.s.machine? m with
        | none => exact ILTQ.refl _
        | some mm =>
          simp only []
          by_cases hz : ((r.allocObj || r.planned != some m) = true ∧ (mm.cpu = 0 ∨ mm.bw = 0))
          · simp only [hz, if_true]; exact ILTQ.refl _
          · simp only [hz, if_false]
            generalize hs1 : (if (r.allocObj || r.planned != some m) = true then
              st.s.updTask t (fun r => updateAllocation r mm) else st.s) = s1
            have h1 : ILTQ st.s s1 := by
              subst hs1; split
              · exact ILTQ.updTask _ _ _ (il_keepT_updateAllocation mm)
              · exact ILTQ.refl _
            by_cases hocc : (st.curr.contains m = true ∨ s1.cl.isOccupied m = true)
            · simp only [hocc, if_true]; exact h1
            · simp only [hocc, if_false]
              by_cases hmiss : (r.preds.any fun p => !dictHas (dictSet st.pairs t m) p) = true
              · simp only [hmiss, if_true]; exact h1
              · simp only [hmiss]
                by_cases hst : r.status ≠ TStatus.unscheduled
                · rw [if_pos hst]; exact h1
                · rw [if_neg hst]
                  refine h1.trans ((ILTQ.spawn s1 (.allocTask t m
                    (crossPreds (dictSet st.pairs t m) r.preds m) (some oid) false 0) now rfl).trans ?_)
                  exact ILTQ.updTask _ _ _ (fun r => ⟨rfl, rfl, rfl, fun _ _ => rfl, rfl⟩)

theorem processCurrentSchedule_iltq (s : Sys) (now : Time) (oid : Oid)
    (schedule pairs : List (Tid × Mid)) : ILTQ s (processCurrentSchedule s now oid schedule pairs).s := by
  unfold processCurrentSchedule
  simp only
  generalize ((dictKeys schedule).mergeSort _) = l
  have : ∀ (l : List Tid) (st : PcsSt), ILTQ st.s (l.foldl (processOne now oid) st).s := by
    intro l
    induction l with
    | nil => intro st; exact ILTQ.refl _
    | cons x r ih => intro st; exact (processOne_iltq now oid st x).trans (ih _)
  exact this l { s := s, schedule := schedule, pairs := pairs, curr := [] }

theorem allocTasksIter_iltq (s : Sys) (now : Time) (orc : Oracle) (hpre : s.alg = .oracle → orc.preOk)
    (oid : Oid) (schedule pairs : List (Tid × Mid)) (pool : List Tid) :
    ILTQ s (s.allocTasksIter now orc oid schedule pairs pool).1 := by
  unfold allocTasksIter
  simp only
  have h1 : ILTQ s (s.updateCurrentPlan oid) := updateCurrentPlan_iltq s oid
  have hpre1 : (s.updateCurrentPlan oid).alg = .oracle → orc.preOk := by
    rw [updateCurrentPlan_alg]; exact hpre
  generalize s.updateCurrentPlan oid = s1 at h1 hpre1
  split
  · exact h1
  · rename_i plan _
    split
    · exact h1
    · rename_i out hout
      have hq := runAlgorithm_quiet s1 orc plan schedule pool out hpre1 hout
      have h2 : ILTQ s1 (({ s1 with cl := out.cl }).updPlan oid (fun p => { p with status := out.status })) :=
        ILTQ.ofQuiet hq rfl rfl rfl
      generalize (({ s1 with cl := out.cl }).updPlan oid (fun p => { p with status := out.status })) = s2 at h2
      have h3 : ILTQ s2 (if out.status = .delayed then { s2 with schedDelayed := true } else s2) := by
        split
        · exact ILTQ.same rfl rfl rfl rfl rfl
        · exact ILTQ.refl _
      generalize (if out.status = .delayed then { s2 with schedDelayed := true } else s2) = s3 at h3
      have h13 := h1.trans (h2.trans h3)
      split
      · have h4 : ILTQ s3 ((s3.addSch ⟨natNow now, oid, .allocStopped⟩).addBuf ⟨natNow now, oid, .bufRemoved⟩) :=
          ILTQ.same rfl rfl rfl rfl rfl
        generalize ((s3.addSch ⟨natNow now, oid, .allocStopped⟩).addBuf ⟨natNow now, oid, .bufRemoved⟩) = s4 at h4
        have h14 := h13.trans h4
        split
        · rename_i b1 _
          have h5 : ILTQ s4 { s4 with buf := b1, cl := s4.cl.releaseBatch oid } :=
            ILTQ.ofQuiet (clQuiet_releaseBatch _ _) rfl rfl rfl
          split
          · exact h14.trans (h5.trans (ILTQ.same rfl rfl rfl rfl rfl))
          · exact h14.trans h5
        · exact h14.trans (ILTQ.same rfl rfl rfl rfl rfl)
      · split
        · exact h13
        · have h4 := processCurrentSchedule_iltq s3 now oid out.schedule pairs
          split <;> exact h13.trans h4

theorem allocTasksBlock_iltq (s : Sys) (now : Time) (orc : Oracle) (hpre : s.alg = .oracle → orc.preOk)
    (pc : Nat) (oid : Oid) (schedule pairs : List (Tid × Mid)) (pool : List Tid) (fin : Bool) :
    ILTQ s (s.allocTasksBlock now orc pc oid schedule pairs pool fin).1 := by
  unfold allocTasksBlock
  split
  · exact ILTQ.refl _
  · split
    · simp only
      have h1 : ILTQ s (s.updPlan oid (fun p => { p with ast := some (natNow now) })) :=
        ILTQ.same rfl rfl rfl rfl rfl
      have halg1 : (s.updPlan oid (fun p => { p with ast := some (natNow now) })).alg = s.alg := rfl
      generalize (s.updPlan oid (fun p => { p with ast := some (natNow now) })) = s1 at h1 halg1
      refine ILTQ.trans ?_ (allocTasksIter_iltq _ now orc ?_ oid schedule pairs pool)
      · have hadd : ∀ (a b : Sys) (e : Event), ILTQ a b → ILTQ a (b.addSch e) :=
          fun a b e h => h.trans (ILTQ.same rfl rfl rfl rfl rfl)
        apply hadd
        refine h1.trans ?_
        apply foldl_iltq
        intro s t
        exact ILTQ.updTask _ _ _ (fun r => ⟨rfl, rfl, rfl, fun _ _ => rfl, rfl⟩)
      · intro ho
        apply hpre
        rw [← halg1, ← ho]
        symm
        show (List.foldl _ s1 _).alg = s1.alg
        apply foldl_alg
        intro s t
        rfl
    · exact allocTasksIter_iltq _ now orc hpre oid schedule pairs pool

end Sys
end Topsim
