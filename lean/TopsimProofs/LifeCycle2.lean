/-
  LifeCycle2 — what each block appends to the pending event lists, block by block
  (`Ev3`), with the guard under which it does.
-/
import TopsimProofs.LifeCycle1

namespace Topsim
namespace Sys

theorem Ev3.congr_left {a a' b : Sys} {t c u : List Event} (h : Ev3 a b t c u)
    (h1 : a'.telEvents = a.telEvents) (h2 : a'.schEvents = a.schEvents) (h3 : a'.bufEvents = a.bufEvents) :
    Ev3 a' b t c u := ⟨by rw [h1]; exact h.tel, by rw [h2]; exact h.sch, by rw [h3]; exact h.buf⟩

theorem ev3_addTel (a : Sys) (e : Event) : Ev3 a (a.addTel e) [e] [] [] := ⟨by simp, by simp, by simp⟩
theorem ev3_addSch (a : Sys) (e : Event) : Ev3 a (a.addSch e) [] [e] [] := ⟨by simp, by simp, by simp⟩
theorem ev3_addBuf (a : Sys) (e : Event) : Ev3 a (a.addBuf e) [] [] [e] := ⟨by simp, by simp, by simp⟩

/-! ### blocks that emit nothing -/

theorem allocIngestIter_ev3 (s : Sys) (now : Time) (oid : Oid) (tl : Int) :
    Ev3 s (s.allocIngestIter now oid tl).1 [] [] [] := by
  unfold allocIngestIter; simp only; ev3_same

theorem allocIngestBlock_ev3 (s : Sys) (now : Time) (pc : Nat) (oid : Oid) (tl : Int) :
    Ev3 s (s.allocIngestBlock now pc oid tl).1 [] [] [] := by
  unfold allocIngestBlock
  split
  · simp only
    exact Ev3.trans_nil (b := s.updObs oid (fun r => { r with ast := some (natNow now) }))
      (Ev3.of_eq rfl rfl rfl) (allocIngestIter_ev3 _ _ _ _)
  · exact allocIngestIter_ev3 _ _ _ _

theorem provIngestBlock_ev3 (s : Sys) (now : Time) (pc : Nat) (oid : Oid) (d : Nat) :
    Ev3 s (s.provIngestBlock now pc oid d).1 [] [] [] := by
  unfold provIngestBlock
  split
  · simp only
    split
    · exact Ev3.of_eq rfl rfl rfl
    · refine Ev3.trans_nil ?_ (Ev3.foldl _ ?_ _ _)
      · exact Ev3.of_eq rfl rfl rfl
      · intro s x; exact Ev3.of_eq rfl rfl rfl
  · exact Ev3.refl _

theorem allocTaskBlock_ev3 (s : Sys) (now : Time) (t : Tid) (m : Mid) (preds : List Tid)
    (obs : Option Oid) (ing : Bool) (ret : Nat) :
    Ev3 s (s.allocTaskBlock now t m preds obs ing ret).1 [] [] [] := by
  unfold allocTaskBlock; simp only; ev3_same

theorem doWorkBlock_ev3 (s : Sys) (now : Time) (orc : Oracle) (t : Tid) (m : Mid) (preds : List Tid)
    (ph tot : Nat) : Ev3 s (s.doWorkBlock now orc t m preds ph tot).1 [] [] [] := by
  unfold doWorkBlock; simp only; ev3_same

theorem bufferLoopBlock_ev3 (s : Sys) (now : Time) : Ev3 s (s.bufferLoopBlock now).1 [] [] [] := by
  unfold bufferLoopBlock; ev3_same

/-! ### ingest stream: `bufAdded`, in the first block, for an observation that has left WAITING -/

theorem ingestStreamIter_ev3 (s : Sys) (now : Time) (oid : Oid) (tl : Int) :
    Ev3 s (s.ingestStreamIter now oid tl).1 [] [] [] := by
  unfold ingestStreamIter; ev3_same

theorem ingestStreamBlock_ev3 (s : Sys) (now : Time) (pc : Nat) (oid : Oid) (tl : Int) :
    Ev3 s (s.ingestStreamBlock now pc oid tl).1 [] [] [] ∨
    (pc = 0 ∧ ∃ ob, s.obs? oid = some ob ∧ ob.status ≠ .waiting ∧
      Ev3 s (s.ingestStreamBlock now pc oid tl).1 [] [] [⟨natNow now, oid, .bufAdded⟩]) := by
  unfold ingestStreamBlock
  split
  · rename_i hpc
    cases hob : s.obs? oid with
    | none => exact Or.inl (Ev3.refl _)
    | some o =>
      simp only
      split
      · exact Or.inl (Ev3.refl _)
      · rename_i hw
        refine Or.inr ⟨hpc, o, rfl, hw, ?_⟩
        have h1 : Ev3 s (s.addBuf ⟨natNow now, oid, .bufAdded⟩) [] [] [⟨natNow now, oid, .bufAdded⟩] :=
          ⟨by simp, by simp, by simp⟩
        exact h1.nil_trans (ingestStreamIter_ev3 _ _ _ _)
  · exact Or.inl (ingestStreamIter_ev3 _ _ _ _)

/-! ### tier moves: transfer events only -/

def isTransfer (e : Event) : Prop := e.kind = .transferStarted ∨ e.kind = .transferStopped

theorem hot2coldIter_ev3 (s : Sys) (now : Time) (o : Oid) (left : Int) :
    ∃ u, Ev3 s (s.hot2coldIter now o left).1 [] [] u ∧ ∀ e ∈ u, isTransfer e := by
  unfold hot2coldIter
  split
  · exact ⟨[⟨natNow now, o, .transferStopped⟩], ⟨by simp, by simp, by simp⟩, by simp [isTransfer]⟩
  · split
    · exact ⟨[], Ev3.of_eq rfl rfl rfl, by simp⟩
    · exact ⟨[], Ev3.of_eq rfl rfl rfl, by simp⟩

theorem hot2coldBlock_ev3 (s : Sys) (now : Time) (cur : Option (Oid × Int)) :
    ∃ u, Ev3 s (s.hot2coldBlock now cur).1 [] [] u ∧ ∀ e ∈ u, isTransfer e := by
  unfold hot2coldBlock
  split
  · exact hot2coldIter_ev3 _ _ _ _
  · split
    · exact ⟨[], Ev3.of_eq rfl rfl rfl, by simp⟩
    · exact ⟨[], Ev3.of_eq rfl rfl rfl, by simp⟩
    · rename_i b1 o left _
      obtain ⟨u, hu, pu⟩ := hot2coldIter_ev3
        (({ s with buf := b1 }).addBuf ⟨natNow now, o, .transferStarted⟩) now o left
      have h1 : Ev3 s (({ s with buf := b1 }).addBuf ⟨natNow now, o, .transferStarted⟩) [] [] [⟨natNow now, o, .transferStarted⟩] :=
        ⟨by simp, by simp, by simp⟩
      refine ⟨[⟨natNow now, o, .transferStarted⟩] ++ u, by simpa using h1.trans hu, ?_⟩
      intro e he
      rcases List.mem_append.mp he with he | he
      · simp at he; subst he; exact Or.inl rfl
      · exact pu e he

theorem cold2hotIter_ev3 (s : Sys) (now : Time) (o : Oid) (left : Int) :
    ∃ u, Ev3 s (s.cold2hotIter now o left).1 [] [] u ∧ ∀ e ∈ u, isTransfer e := by
  unfold cold2hotIter
  split
  · exact ⟨[⟨natNow now, o, .transferStopped⟩], ⟨by simp, by simp, by simp⟩, by simp [isTransfer]⟩
  · split
    · exact ⟨[], Ev3.of_eq rfl rfl rfl, by simp⟩
    · exact ⟨[], Ev3.of_eq rfl rfl rfl, by simp⟩

theorem cold2hotBlock_ev3 (s : Sys) (now : Time) (cur : Option (Oid × Int)) :
    ∃ u, Ev3 s (s.cold2hotBlock now cur).1 [] [] u ∧ ∀ e ∈ u, isTransfer e := by
  unfold cold2hotBlock
  split
  · exact cold2hotIter_ev3 _ _ _ _
  · split
    · exact ⟨[], Ev3.of_eq rfl rfl rfl, by simp⟩
    · exact ⟨[], Ev3.of_eq rfl rfl rfl, by simp⟩
    · rename_i b1 o left _
      obtain ⟨u, hu, pu⟩ := cold2hotIter_ev3
        (({ s with buf := b1 }).addBuf ⟨natNow now, o, .transferStarted⟩) now o left
      have h1 : Ev3 s (({ s with buf := b1 }).addBuf ⟨natNow now, o, .transferStarted⟩) [] [] [⟨natNow now, o, .transferStarted⟩] :=
        ⟨by simp, by simp, by simp⟩
      refine ⟨[⟨natNow now, o, .transferStarted⟩] ++ u, by simpa using h1.trans hu, ?_⟩
      intro e he
      rcases List.mem_append.mp he with he | he
      · simp at he; subst he; exact Or.inl rfl
      · exact pu e he

/-! ### scheduler loop: `queueAdded`, when the observation popped from the hot buffer is not
queued yet -/

theorem schedLoopBlock_ev3 (s : Sys) (now : Time) (orc : Oracle) :
    (Ev3 { s with schEvents := [] } (s.schedLoopBlock now orc).1 [] [] [] ∧
      (s.schedLoopBlock now orc).1.procs = s.procs ∧ (s.schedLoopBlock now orc).1.queue = s.queue) ∨
    (∃ oid ob, Ev3 { s with schEvents := [] } (s.schedLoopBlock now orc).1 [] [⟨natNow now, oid, .queueAdded⟩] [] ∧
      s.buf.nextForProcessing.2 = some oid ∧ s.obs? oid = some ob ∧ oid ∉ s.queue ∧
      (s.schedLoopBlock now orc).1.queue = s.queue ++ [oid] ∧
      (s.schedLoopBlock now orc).1.procs = s.procs ++
        [{ pid := s.nextPid, k := .allocTasks oid [] [] [] false, wake := now }]) := by
  unfold schedLoopBlock
  simp only
  split
  · generalize hnx : s.buf.nextForProcessing = r
    obtain ⟨b1, res⟩ := r
    cases res with
    | none => exact Or.inl ⟨Ev3.refl _, rfl, rfl⟩
    | some oid =>
      simp only
      cases hob : s.obs? oid with
      | none =>
        have : ({ s with schEvents := [] } : Sys).obs? oid = none := hob
        simp only [this]
        refine Or.inl ⟨?_, ?_, ?_⟩ <;> first | exact Ev3.refl _ | trivial | rfl
      | some o =>
        have : ({ s with schEvents := [] } : Sys).obs? oid = some o := hob
        simp only [this]
        generalize (if s.staticPlan = true then staticPlanOf o (natNow now) orc.plan
          else batchPlan o (natNow now)) = rp
        obtain ⟨recs, plan⟩ := rp
        simp only
        by_cases hq : oid ∈ s.queue
        · simp only [hq, if_true]
          refine Or.inl ⟨?_, ?_, ?_⟩ <;> first | exact Ev3.of_eq rfl rfl rfl | trivial | rfl
        · simp only [hq, if_false]
          refine Or.inr ⟨oid, o, ⟨by simp, by simp [spawn], by simp⟩, ?_, ?_, ?_, ?_, ?_⟩ <;>
            first | exact hq | exact hob | trivial | rfl
  · exact Or.inl ⟨Ev3.refl _, rfl, rfl⟩

/-! ### `allocate_tasks` -/

theorem updateCurrentPlan_ev3 (s : Sys) (oid : Oid) : Ev3 s (s.updateCurrentPlan oid) [] [] [] := by
  unfold updateCurrentPlan
  split
  · exact Ev3.refl _
  · simp only
    refine Ev3.trans_nil (Ev3.foldl _ ?_ _ _) (Ev3.of_eq rfl rfl rfl)
    intro s a
    ev3_same

theorem processOne_ev3 (now : Time) (oid : Oid) (st : PcsSt) (t : Tid) :
    Ev3 st.s (processOne now oid st t).s [] [] [] := by
  unfold processOne; simp only; ev3_same

theorem processCurrentSchedule_ev3 (s : Sys) (now : Time) (oid : Oid) (schedule pairs : List (Tid × Mid)) :
    Ev3 s (processCurrentSchedule s now oid schedule pairs).s [] [] [] := by
  unfold processCurrentSchedule
  have : ∀ (l : List Tid) (st : PcsSt), Ev3 st.s (l.foldl (processOne now oid) st).s [] [] [] := by
    intro l
    induction l with
    | nil => intro st; exact Ev3.refl _
    | cons a r ih => intro st; exact (processOne_ev3 now oid st a).trans_nil (ih _)
  simp only
  exact this _ { s := s, schedule := schedule, pairs := pairs, curr := [] }

theorem atS3_ev3 (s1 : Sys) (out : AlgOut) (oid : Oid) : Ev3 s1 (atS3 s1 out oid) [] [] [] := by
  unfold atS3; split <;> exact Ev3.of_eq rfl rfl rfl

theorem atStart_ev3 (s : Sys) (now : Time) (pc : Nat) (oid : Oid) :
    Ev3 s (atStart s now pc oid) [] (if pc = 0 then [⟨natNow now, oid, .allocStarted⟩] else []) [] := by
  unfold atStart
  split
  · have h1 : Ev3 s (s.updPlan oid (fun p => { p with ast := some (natNow now) })) [] [] [] :=
      Ev3.of_eq rfl rfl rfl
    generalize (s.updPlan oid (fun p => { p with ast := some (natNow now) })) = s1 at h1
    have h2 : ∀ (l : List Tid) (a : Sys), Ev3 a (l.foldl (fun (s : Sys) t =>
        s.updTask t (fun r => { r with offset := natNow now })) a) [] [] [] :=
      fun l a => Ev3.foldl (fun (s : Sys) t => s.updTask t (fun r => { r with offset := natNow now }))
        (fun _ _ => Ev3.of_eq rfl rfl rfl) l a
    have h3 := h1.trans_nil (h2 (match s1.plan? oid with | some p => p.tasks | none => []) s1)
    exact h3.trans_nil (ev3_addSch _ _)
  · exact Ev3.refl _

theorem remove_true_iff (b : Buffer) (o : Oid) : (b.remove o).2 = true ↔ o ∈ b.hot.scheduled := by
  unfold Buffer.remove; split <;> simp_all

theorem remove_false_eq (b : Buffer) (o : Oid) (h : (b.remove o).2 = false) : (b.remove o).1 = b := by
  unfold Buffer.remove at h ⊢; split <;> simp_all

/-- the outcomes of one iteration of `allocate_tasks`, as far as the event lists, the hot
buffer's lists and the queue go -/
inductive ATEv (s1 : Sys) (n : Nat) (oid : Oid) : Sys × PK × Yield → List Event → List Event → Prop
  | quiet (X : Sys) (k : PK) (y : Yield) (sc pa po) : Ev3 s1 X [] [] [] → X.buf = s1.buf → X.queue = s1.queue →
      k = .allocTasks oid sc pa po false → ATEv s1 n oid (X, k, y) [] []
  | finish (X : Sys) (sc pa po) : Ev3 s1 X [] [⟨n, oid, .allocStopped⟩, ⟨n, oid, .queueRemoved⟩] [⟨n, oid, .bufRemoved⟩] →
      oid ∈ s1.buf.hot.scheduled → X.buf = (s1.buf.remove oid).1 → oid ∈ s1.queue → X.queue = s1.queue.erase oid →
      ATEv s1 n oid (X, .allocTasks oid sc pa po true, .timeout 1)
        [⟨n, oid, .allocStopped⟩, ⟨n, oid, .queueRemoved⟩] [⟨n, oid, .bufRemoved⟩]
  | finishBad (X : Sys) (sc pa po) (e : Err) : Ev3 s1 X [] [⟨n, oid, .allocStopped⟩] [⟨n, oid, .bufRemoved⟩] →
      oid ∈ s1.buf.hot.scheduled → X.buf = (s1.buf.remove oid).1 → oid ∉ s1.queue → X.queue = s1.queue →
      ATEv s1 n oid (X, .allocTasks oid sc pa po false, .raised e) [⟨n, oid, .allocStopped⟩] [⟨n, oid, .bufRemoved⟩]
  | finishWait (X : Sys) (sc pa po) : Ev3 s1 X [] [⟨n, oid, .allocStopped⟩] [⟨n, oid, .bufRemoved⟩] →
      oid ∉ s1.buf.hot.scheduled → X.buf = s1.buf → X.queue = s1.queue →
      ATEv s1 n oid (X, .allocTasks oid sc pa po false, .timeout 1) [⟨n, oid, .allocStopped⟩] [⟨n, oid, .bufRemoved⟩]

theorem allocTasksIter_atev (s : Sys) (now : Time) (orc : Oracle) (oid : Oid)
    (schedule pairs : List (Tid × Mid)) (pool : List Tid) :
    ∃ c u, ATEv s (natNow now) oid (s.allocTasksIter now orc oid schedule pairs pool) c u := by
  have h1 := updateCurrentPlan_ev3 s oid
  have hb1 := updateCurrentPlan_buf s oid
  have hq1 := updateCurrentPlan_queue s oid
  have hout := allocTasksIter_out s now orc oid schedule pairs pool
  generalize s.allocTasksIter now orc oid schedule pairs pool = r at hout ⊢
  cases hout with
  | noPlan _ => exact ⟨_, _, ATEv.quiet _ _ _ _ _ _ h1 hb1 hq1 rfl⟩
  | algErr _ _ _ _ => exact ⟨_, _, ATEv.quiet _ _ _ _ _ _ h1 hb1 hq1 rfl⟩
  | finish plan out _ _ _ _ hrem hq =>
    have h3 := h1.trans_nil (atS3_ev3 (s.updateCurrentPlan oid) out oid)
    have hb3 : (atS3 (s.updateCurrentPlan oid) out oid).buf = s.buf := by rw [atS3_buf, hb1]
    have hq3 : (atS3 (s.updateCurrentPlan oid) out oid).queue = s.queue := by rw [atS3_queue, hq1]
    have hrem' : (s.buf.remove oid).2 = true := by
      have : (atS4 (atS3 (s.updateCurrentPlan oid) out oid) (natNow now) oid).buf = s.buf := hb3
      rw [this] at hrem; exact hrem
    refine ⟨_, _, ATEv.finish _ _ _ _ ?_ ((remove_true_iff _ _).mp hrem') ?_ (by rw [← hq3]; exact hq) ?_⟩
    · exact ⟨by simpa [atS4] using h3.tel, by simp [atS4, h3.sch], by simp [atS4, h3.buf]⟩
    · show ((atS4 (atS3 (s.updateCurrentPlan oid) out oid) (natNow now) oid).buf.remove oid).1 = _
      have : (atS4 (atS3 (s.updateCurrentPlan oid) out oid) (natNow now) oid).buf = s.buf := hb3
      rw [this]
    · show (atS4 (atS3 (s.updateCurrentPlan oid) out oid) (natNow now) oid).queue.erase oid = _
      have : (atS4 (atS3 (s.updateCurrentPlan oid) out oid) (natNow now) oid).queue = s.queue := hq3
      rw [this]
  | finishBad plan out _ _ _ _ hrem hq =>
    have h3 := h1.trans_nil (atS3_ev3 (s.updateCurrentPlan oid) out oid)
    have hb3 : (atS3 (s.updateCurrentPlan oid) out oid).buf = s.buf := by rw [atS3_buf, hb1]
    have hq3 : (atS3 (s.updateCurrentPlan oid) out oid).queue = s.queue := by rw [atS3_queue, hq1]
    have hrem' : (s.buf.remove oid).2 = true := by
      have : (atS4 (atS3 (s.updateCurrentPlan oid) out oid) (natNow now) oid).buf = s.buf := hb3
      rw [this] at hrem; exact hrem
    refine ⟨_, _, ATEv.finishBad _ _ _ _ _ ?_ ((remove_true_iff _ _).mp hrem') ?_ (by rw [← hq3]; exact hq) ?_⟩
    · exact ⟨by simpa [atS4] using h3.tel, by simp [atS4, h3.sch], by simp [atS4, h3.buf]⟩
    · show ((atS4 (atS3 (s.updateCurrentPlan oid) out oid) (natNow now) oid).buf.remove oid).1 = _
      have : (atS4 (atS3 (s.updateCurrentPlan oid) out oid) (natNow now) oid).buf = s.buf := hb3
      rw [this]
    · exact hq3
  | finishWait plan out _ _ _ _ hrem =>
    have h3 := h1.trans_nil (atS3_ev3 (s.updateCurrentPlan oid) out oid)
    have hb3 : (atS3 (s.updateCurrentPlan oid) out oid).buf = s.buf := by rw [atS3_buf, hb1]
    have hq3 : (atS3 (s.updateCurrentPlan oid) out oid).queue = s.queue := by rw [atS3_queue, hq1]
    have hrem' : (s.buf.remove oid).2 = false := by
      have : (atS4 (atS3 (s.updateCurrentPlan oid) out oid) (natNow now) oid).buf = s.buf := hb3
      rw [this] at hrem; exact hrem
    refine ⟨_, _, ATEv.finishWait _ _ _ _ ?_ ?_ ?_ hq3⟩
    · exact ⟨by simpa [atS4] using h3.tel, by simp [atS4, h3.sch], by simp [atS4, h3.buf]⟩
    · intro hin
      rw [(remove_true_iff _ _).mpr hin] at hrem'; exact absurd hrem' (by simp)
    · show ((atS4 (atS3 (s.updateCurrentPlan oid) out oid) (natNow now) oid).buf.remove oid).1 = _
      have : (atS4 (atS3 (s.updateCurrentPlan oid) out oid) (natNow now) oid).buf = s.buf := hb3
      rw [this]; exact remove_false_eq _ _ hrem'
  | idle plan out _ _ _ _ =>
    exact ⟨_, _, ATEv.quiet _ _ _ _ _ _ (h1.trans_nil (atS3_ev3 _ out oid)) (by rw [atS3_buf, hb1])
      (by rw [atS3_queue, hq1]) rfl⟩
  | alloc plan out y _ _ _ _ =>
    refine ⟨_, _, ATEv.quiet _ _ _ _ _ _
      ((h1.trans_nil (atS3_ev3 _ out oid)).trans_nil (processCurrentSchedule_ev3 _ _ _ _ _)) ?_ ?_ rfl⟩
    · rw [processCurrentSchedule_buf, atS3_buf, hb1]
    · rw [processCurrentSchedule_queue, atS3_queue, hq1]

end Sys
end Topsim
