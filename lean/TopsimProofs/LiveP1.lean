/-
  LiveP1 — liveness for the two plan-following algorithms (DynamicSchedulingFromPlan,
  GreedySchedulingFromPlan) with static plans: the hypotheses and the invariant of the static plans.

  * `PlanAlg a`: `a` is `.dynamic` or `.greedy`.
  * `PlanOk env s0`: the static plan of every observation names exactly the nodes of its workflow,
    and only machines of the cluster.
  * `LivePCfg env s0` / `NcPCfg env s0` / `L7PLib s0 s`: the counterparts of `LiveCfg` / `NcCfg` /
    `L7Lib` (Live5, Live14, Live7) for these configurations.
  * `PlanI s0 s`: every plan in the state is the plan of a configured observation; its tasks are
    nodes of the workflow; every node of the workflow has a record.
-/
import TopsimProofs.Live20

namespace Topsim

open KState Sys

/-- one of the two plan-following algorithms -/
def PlanAlg (a : AlgKind) : Prop := a = .dynamic ∨ a = .greedy

theorem PlanAlg.noBatch {a : AlgKind} (h : PlanAlg a) : Sys.NoBatch a := by
  rcases h with h | h
  · exact Or.inr (Or.inl h)
  · exact Or.inr (Or.inr h)

theorem PlanAlg.noOracle {a : AlgKind} (h : PlanAlg a) : a ≠ .oracle := by
  rcases h with h | h <;> rw [h] <;> simp

/-- the rows `(node, machine, est, eft)` of the static plan of observation `o` -/
def SimEnv.rowsOf (env : SimEnv) (o : Oid) : List (Nat × Mid × Nat × Nat) :=
  (dictGet env.staticPlans o).getD []

theorem SimEnv.oracle_plan (env : SimEnv) (s : Sys) {o : Oid} (h : s.buf.nextForProcessing.2 = some o) :
    (env.oracle s).plan = env.rowsOf o := by
  unfold SimEnv.oracle SimEnv.rowsOf
  simp only [h]

/-- the static plans fit the configuration: the plan of an observation names every node of its
workflow (`cover`), only nodes of its workflow (`nodes`), and only machines of the cluster (`mach`) -/
structure PlanOk (env : SimEnv) (s0 : Sys) : Prop where
  cover : ∀ o ∈ s0.obs, ∀ n ∈ o.wf.topo, n ∈ (env.rowsOf o.id).map (·.1)
  nodes : ∀ o ∈ s0.obs, ∀ x ∈ env.rowsOf o.id, x.1 ∈ o.wf.topo
  mach : ∀ o ∈ s0.obs, ∀ x ∈ env.rowsOf o.id, ∃ mm ∈ s0.machines, mm.id = x.2.1

structure LivePCfg (env : SimEnv) (s0 : Sys) : Prop where
  hw : Sys.WFConfig s0
  feas : Sys.Feasible s0
  hb0 : s0.buf.hot.stored = [] ∧ s0.buf.hot.scheduled = [] ∧ s0.buf.hot.finished = [] ∧
      s0.buf.cold.stored = []
  hfull : s0.buf.size = [] ∧ s0.buf.hot.cur = s0.buf.hot.total ∧ s0.buf.cold.cur = s0.buf.cold.total
  hct : s0.buf.cold.transfer = none
  h1 : Sys.NoTierCfg s0
  alg : PlanAlg s0.alg
  stat : s0.staticPlan = true
  topo : ∀ o ∈ s0.obs, IsTopo o.wf
  plan : PlanOk env s0
  nr : NoRaise env s0

structure NcPCfg (env : SimEnv) (s0 : Sys) : Prop where
  hw : Sys.WFConfig s0
  feas : Sys.Feasible s0
  hb0 : s0.buf.hot.stored = [] ∧ s0.buf.hot.scheduled = [] ∧ s0.buf.hot.finished = [] ∧
      s0.buf.cold.stored = []
  hfull : s0.buf.size = [] ∧ s0.buf.hot.cur = s0.buf.hot.total ∧ s0.buf.cold.cur = s0.buf.cold.total
  hct : s0.buf.cold.transfer = none
  h1 : Sys.NoTierCfg s0
  alg : PlanAlg s0.alg
  stat : s0.staticPlan = true
  topo : ∀ o ∈ s0.obs, IsTopo o.wf
  plan : PlanOk env s0
  hh0 : s0.halted = false

theorem NcPCfg.toLive {env : SimEnv} {s0 : Sys} (N : NcPCfg env s0) (hnr : NoRaise env s0) : LivePCfg env s0 :=
  ⟨N.hw, N.feas, N.hb0, N.hfull, N.hct, N.h1, N.alg, N.stat, N.topo, N.plan, hnr⟩

section
variable {env : SimEnv} {s0 : Sys}

/-- `live_step` (Live5) for the plan-following configurations -/
theorem live_step_P (C : LivePCfg env s0) (K : LiveKernel env s0) (n : Nat) :
    ∃ e p, (simAt env s0 n).peek = some e ∧ (simAt env s0 n).st.proc? e.pid = some p ∧
      p.alive = true ∧ e.time = p.wake ∧ (simAt env s0 n).st.enabled e.pid ∧
      (simAt env s0 n).step (simHandler env) = some (simAt env s0 (n + 1)) ∧
      (simAt env s0 (n + 1)).st =
        ((simAt env s0 n).st.resume e.pid (env.oracle (simAt env s0 n).st)).1 := by
  obtain ⟨_, _, k1, hs⟩ := K.run n
  have h1 : simAt env s0 (n + 1) = k1 := simAt_succ_of_step hs
  obtain ⟨e, hpk, hc⟩ := ot_step_cases C.hw (K.reach n) hs
  rcases hc with ⟨hc, _⟩ | ⟨p, hpp, ha, het, hen, hc⟩
  · exfalso
    have := (K.run (n + 1)).2.1
    rw [h1, hc] at this
    simp at this
  · exact ⟨e, p, hpk, hpp, ha, het, hen, by rw [h1]; exact hs, by rw [h1]; exact hc⟩

theorem LivePCfg.crashed (C : LivePCfg env s0) (n : Nat) : (simAt env s0 n).st.crashed = none := C.nr n

theorem live_keep0_P (C : LivePCfg env s0) (n : Nat) :
    (simAt env s0 n).st.obs.map Obs.stat = s0.obs.map Obs.stat :=
  (simAt_reach env s0 n).keep0 C.hw

end

/-- the library invariants of a state of a run that has not raised (plan-following algorithm,
static planning): `L7Lib` of Live7 with the algorithm and planning fields changed -/
structure L7PLib (s0 s : Sys) : Prop where
  ok : ReachOk s0 s
  nc : s.crashed = none
  sinv : SInv s
  wi : WI s
  gi : GI s0 s
  st : ST s
  pr : PR s
  px : PX s
  su : SU s
  ati : LcATI s
  bufi : BufI s
  alg : PlanAlg s.alg
  stat : s.staticPlan = true

theorem L7PLib.noOracle {s0 s : Sys} (L : L7PLib s0 s) : s.alg ≠ .oracle := L.alg.noOracle

/-! ### the static plans along the run -/

namespace Sys

/-- every plan in the state is the plan of a configured observation, made at one clock; its tasks
are nodes of the workflow; every node of the workflow has a record -/
def PlanI (s0 s : Sys) : Prop :=
  ∀ pl ∈ s.plans, ∃ o ∈ s0.obs, ∃ c, pl.obs = o.id ∧
    pl.edges = o.wf.edges.map (fun e => (Tid.wf o.id c e.1, Tid.wf o.id c e.2.1)) ∧
    (∀ t ∈ pl.tasks, ∃ n ∈ o.wf.topo, t = Tid.wf o.id c n) ∧
    (∀ n ∈ o.wf.topo, ∃ r ∈ s.tasks, r.id = Tid.wf o.id c n)

theorem planI_start (s0 : Sys) (hw : WFConfig s0) : PlanI s0 s0.start := by
  obtain ⟨_, _, _, hplans, _⟩ := hw.fresh
  have hpl : s0.start.plans = [] := by rw [← hplans]; simp [start, spawn]
  intro pl h
  rw [hpl] at h
  simp at h

/-- one block, with the rows of the simulator's oracle -/
theorem planI_step {env : SimEnv} {s0 s : Sys} (hP : PlanOk env s0) (hobs : ObsSame s0.obs s.obs)
    (hstat : s.staticPlan = true) (hpw : PW s) (h : PlanI s0 s) (pid : Nat) :
    PlanI s0 (s.resume pid (env.oracle s)).1 := by
  have old : ∀ (X : Sys), PlanMap (fun t => tstat s t = .finished) s X →
      (∀ r ∈ s.tasks, ∃ r' ∈ X.tasks, r'.id = r.id) → PlanI s0 X := by
    intro X hPm hfw pl' hpl'
    obtain ⟨pl, hpl, hr⟩ := hPm.back hpl'
    obtain ⟨o, ho, c, g1, ge, g2, g3⟩ := h pl hpl
    refine ⟨o, ho, c, hr.obs.trans g1, hr.edges.trans ge, fun t ht => g2 t (hr.sub.subset ht), fun n hn => ?_⟩
    obtain ⟨r, hr0, e⟩ := g3 n hn
    obtain ⟨r', hr', e'⟩ := hfw r hr0
    exact ⟨r', hr', e'.trans e⟩
  rcases resume_shape s hpw pid (env.oracle s) with ⟨hPm, hM⟩ | ⟨hPm, p, o, d, recs, _, _, _, _, ht, _, hid⟩ |
      ⟨p, _, _, _, oid, o, recs, plan, hnx, hob, hrp, ht, hpl⟩
  · apply old _ hPm
    intro r hr
    obtain ⟨r', hr', k⟩ := hM.fwd hr
    exact ⟨r', hr', k.id⟩
  · apply old _ hPm
    intro r hr
    exact ⟨r, by rw [ht]; exact List.mem_append_left _ hr, rfl⟩
  · obtain ⟨hom, hoid⟩ := obs_mem_of_obs? hob
    obtain ⟨o0, ho0, e0, ew⟩ := hobs.back hom
    obtain ⟨a1, a2, a3, _, a5, _⟩ := planOf_attrs o (natNow p.wake) s.staticPlan (env.oracle s).plan recs plan hrp
    have hrows : (env.oracle s).plan = env.rowsOf o0.id := by
      rw [env.oracle_plan s hnx, e0, hoid]
    intro pl' hpl'
    rw [hpl] at hpl'
    rcases List.mem_append.mp hpl' with h1 | h1
    · obtain ⟨o', ho', c', g1, ge, g2, g3⟩ := h pl' (List.mem_filter.mp h1).1
      refine ⟨o', ho', c', g1, ge, g2, fun n hn => ?_⟩
      obtain ⟨r, hr0, e⟩ := g3 n hn
      exact ⟨r, by rw [ht]; exact List.mem_append_left _ hr0, e⟩
    · simp only [List.mem_singleton] at h1
      subst h1
      refine ⟨o0, ho0, natNow p.wake, by rw [a1, e0], by rw [a2, e0, ew], ?_, ?_⟩
      · intro t ht'
        rw [a5 hstat, hrows] at ht'
        obtain ⟨x, hx, rfl⟩ := List.mem_map.mp ht'
        exact ⟨x.1, hP.nodes o0 ho0 x hx, by rw [e0]⟩
      · intro n hn
        have hmem : n ∈ (env.rowsOf o0.id).map (·.1) := hP.cover o0 ho0 n hn
        obtain ⟨x, hx, rfl⟩ := List.mem_map.mp hmem
        have hin : Tid.wf o.id (natNow p.wake) x.1 ∈ pl'.tasks := by
          rw [a5 hstat, hrows]
          exact List.mem_map.mpr ⟨x, hx, rfl⟩
        rw [a3] at hin
        obtain ⟨r, hr, e⟩ := List.mem_map.mp hin
        exact ⟨r, by rw [ht]; exact List.mem_append_right _ hr, by rw [e0]; exact e⟩

end Sys

section
variable {env : SimEnv} {s0 : Sys}

/-- the static-plan invariant at every index of a run that does not raise -/
theorem live_planI_P (C : LivePCfg env s0) (K : LiveKernel env s0) (n : Nat) :
    Sys.PlanI s0 (simAt env s0 n).st := by
  induction n with
  | zero => exact Sys.planI_start s0 C.hw
  | succ n ih =>
    obtain ⟨e, p, _, _, _, _, _, _, hst⟩ := live_step_P C K n
    have hok : ReachOk s0 (simAt env s0 n).st := simRun_reachOk C.hw (K.run n).1 (K.run n).2.1
    rw [hst]
    exact Sys.planI_step C.plan (reach_obsSame hok.toReach)
      ((reach_stat hok.toReach).trans C.stat) (reach_inv s0 _ C.hw hok).pw ih e.pid

end

end Topsim
