/-
  BoundD6 — C05, the numeric clause under a delay model: the assembly (Bound9 / Bound10 with the
  delayed weight).  From `BoundDParts` the invariant
      clock < latest  ∨  clock + debt ≤ latest + V_delayed
  at every index before the run is at `is_finished()` (`boundDebt`, `BoundIdleDone` as in Bound9); the
  parts: whole-instant wakes (Bound3), timed liveness of the workers with delayed durations (BoundD3 /
  BoundD5), idle states and persistence of enabled pollers (Bound7 / Bound8, transferred: the two
  weights change at the same steps, `boundD_v_lt_of_lt` / `boundD_v_eq_of_eq`); and the bound on the
  clock of the first `is_finished()` state for ANY delay environment.
-/
import TopsimProofs.BoundD5

namespace Topsim

open KState Sys

section
variable {env : SimEnv} {s0 : Sys}

def BoundDInv (env : SimEnv) (s0 : Sys) (n : Nat) : Prop :=
  boundTau env s0 n < ((boundLatest s0 : Nat) : Time) ∨
    boundTau env s0 n + boundDebt env s0 n ≤ boundDLV env s0 n

theorem BoundDInv.le (h : BoundDInv env s0 n) : boundTau env s0 n ≤ boundDLV env s0 n := by
  rcases h with h | h
  · have := boundD_latest_le_lv (env := env) (s0 := s0) n
    grind
  · have := boundDebt_nonneg (env := env) (s0 := s0) n
    grind

/-- **The step of the invariant.** -/
theorem boundD_inv_step (C : LiveCfg env s0) (K : LiveKernel env s0) (P : BoundDParts env s0) (n : Nat)
    (ih : ∀ j, j ≤ n → BoundDInv env s0 j)
    (hnf : (simAt env s0 (n + 1)).st.isFinished = false) : BoundDInv env s0 (n + 1) := by
  obtain ⟨e, p, hpk, hpp, ha, hpm, hpid, htau, hmin, hkeep, huniq⟩ := bound_step_facts C K n
  obtain ⟨e1, p1, _, _, ha1, hpm1, _, htau1, hmin1, _, _⟩ := bound_step_facts C K (n + 1)
  have hmono := bound_wk_mono C K n
  have hH : ∀ j, j < n + 1 → boundTau env s0 j ≤ boundDLV env s0 j :=
    fun j hj => (ih j (by omega)).le
  have hvm := P.v_mono n
  have hlvm : boundDLV env s0 n ≤ boundDLV env s0 (n + 1) := by
    unfold boundDLV
    have : boundLatest s0 + boundDV env s0 (simAt env s0 n).st ≤
        boundLatest s0 + boundDV env s0 (simAt env s0 (n + 1)).st := Nat.add_le_add_left hvm _
    exact_mod_cast this
  have hlvflip : boundDV env s0 (simAt env s0 n).st < boundDV env s0 (simAt env s0 (n + 1)).st →
      boundDLV env s0 n + 1 ≤ boundDLV env s0 (n + 1) := by
    intro hf
    unfold boundDLV
    have : boundLatest s0 + boundDV env s0 (simAt env s0 n).st + 1 ≤
        boundLatest s0 + boundDV env s0 (simAt env s0 (n + 1)).st := by omega
    exact_mod_cast this
  have hlveq : ¬ boundDV env s0 (simAt env s0 n).st < boundDV env s0 (simAt env s0 (n + 1)).st →
      boundDV env s0 (simAt env s0 (n + 1)).st = boundDV env s0 (simAt env s0 n).st := by
    intro hf; omega
  have hdeb1 := boundDebt_le_one (env := env) (s0 := s0) (n + 1)
  have hdeb0 := boundDebt_nonneg (env := env) (s0 := s0) n
  by_cases hlt : boundTau env s0 (n + 1) < ((boundLatest s0 : Nat) : Time)
  · exact Or.inl hlt
  right
  have hge : ((boundLatest s0 : Nat) : Time) ≤ boundTau env s0 (n + 1) := Rat.not_lt.mp hlt
  -- the common sub-argument: in a state at index `n` that is not "idle-done", with no stage happening
  -- in the step, either the fired process was the last worker (then `tau + 1 ≤ LV`) or an enabled
  -- poller due now was not fired and survives
  have hkey : ((boundLatest s0 : Nat) : Time) ≤ boundTau env s0 n →
      ¬ boundDV env s0 (simAt env s0 n).st < boundDV env s0 (simAt env s0 (n + 1)).st →
      ¬ BoundIdleDone env s0 n → (simAt env s0 (n + 1)).st.NoWorker →
      boundTau env s0 n + 1 ≤ boundDLV env s0 n ∨
      ∃ p' ∈ (simAt env s0 n).st.procs, p'.pid ≠ e.pid ∧ (simAt env s0 n).st.BoundEn p' ∧
        p'.wake ≤ boundTau env s0 n := by
    intro hgen hnoflip hnd hw1
    by_cases hw : (simAt env s0 n).st.NoWorker
    · -- idle with an enabled poller due now
      have : ∃ p' ∈ (simAt env s0 n).st.procs, (simAt env s0 n).st.BoundEn p' ∧
          ¬ boundTau env s0 n < p'.wake := by
        apply Classical.byContradiction
        intro hno
        apply hnd
        refine ⟨hw, fun p' hp' hen' => ?_⟩
        apply Classical.byContradiction
        intro hnl
        exact hno ⟨p', hp', hen', hnl⟩
      obtain ⟨p', hp', hen', hnl⟩ := this
      have hle : p'.wake ≤ boundTau env s0 n := Rat.not_lt.mp hnl
      by_cases hpe : p'.pid = e.pid
      · exfalso
        have : p' = p := huniq p' hp' hpe
        subst this
        apply hnoflip
        exact P.enabled_fires n e p' hpk hpp hen' hw (by rw [← htau]; exact hgen)
      · exact Or.inr ⟨p', hp', hpe, hen', hle⟩
    · -- the fired process was the last worker
      left
      obtain ⟨q, hq, hqa, hqw⟩ := bound_not_noWorker hw
      have hqe : q.pid = e.pid := by
        apply Classical.byContradiction
        intro hne
        exact bound_noWorker_not hw1 (hkeep q hq hne) hqa hqw
      have : q = p := huniq q hq hqe
      subst this
      have := P.tl n (fun j hj => hH j (by omega)) q hq hqa hqw
      rw [htau]
      exact this
  by_cases hw1 : (simAt env s0 (n + 1)).st.NoWorker
  · -- idle at `n + 1`
    by_cases hadv : boundTau env s0 n < boundTau env s0 (n + 1)
    · -- the clock advanced: an enabled poller is due now, the debt is 0
      obtain ⟨p', hp', hen'⟩ := P.idle_enabled (n + 1) hw1 hnf
      have hp'nd : p'.k.tag ≠ "doWork" := (hw1 p' hp' hen'.1).2.2.2.2
      have hp1nd : p1.k.tag ≠ "doWork" := (hw1 p1 hpm1 ha1).2.2.2.2
      obtain ⟨m, hm, hmle⟩ := P.wake_nat n p' hp' hen'.1 hp'nd
      obtain ⟨m1, hm1, hm1le⟩ := P.wake_nat n p1 hpm1 ha1 hp1nd
      have hmm : m ≤ m1 := by
        have h1 : ((m : Nat) : Time) < ((m1 + 1 : Nat) : Time) := by
          push_cast
          rw [htau1, hm1] at hadv
          grind
        have : m < m1 + 1 := by exact_mod_cast h1
        omega
      have hp'le : p'.wake ≤ boundTau env s0 (n + 1) := by
        rw [htau1, hm, hm1]
        exact_mod_cast hmm
      have hnd1 : ¬ BoundIdleDone env s0 (n + 1) := by
        rintro ⟨_, h2⟩
        exact absurd (h2 p' hp' hen') (Rat.not_lt.mpr hp'le)
      have hd0 : boundDebt env s0 (n + 1) = 0 := by unfold boundDebt; rw [if_neg hnd1]
      rw [hd0]
      have hle1 : boundTau env s0 (n + 1) ≤ boundTau env s0 n + 1 := by
        rw [htau1, hm1]; exact hm1le
      by_cases hearly : boundTau env s0 n < ((boundLatest s0 : Nat) : Time)
      · -- the clock crosses `latest`: it is exactly at a whole instant ≤ latest
        have hm1L : m1 ≤ boundLatest s0 := by
          have h1 : ((m1 : Nat) : Time) < ((boundLatest s0 + 1 : Nat) : Time) := by
            push_cast
            grind
          have : m1 < boundLatest s0 + 1 := by exact_mod_cast h1
          omega
        have h2 : boundTau env s0 (n + 1) ≤ ((boundLatest s0 : Nat) : Time) := by
          rw [htau1, hm1]; exact_mod_cast hm1L
        have := boundD_latest_le_lv (env := env) (s0 := s0) (n + 1)
        grind
      · have hgen : ((boundLatest s0 : Nat) : Time) ≤ boundTau env s0 n := Rat.not_lt.mp hearly
        have hin : boundTau env s0 n + boundDebt env s0 n ≤ boundDLV env s0 n := by
          rcases ih n (Nat.le_refl n) with h | h
          · exact absurd h hearly
          · exact h
        by_cases hflip : boundDV env s0 (simAt env s0 n).st < boundDV env s0 (simAt env s0 (n + 1)).st
        · have := hlvflip hflip
          grind
        · by_cases hdone : BoundIdleDone env s0 n
          · have hd1 : boundDebt env s0 n = 1 := by unfold boundDebt; rw [if_pos hdone]
            rw [hd1] at hin
            grind
          · rcases hkey hgen hflip hdone hw1 with h | ⟨p2, hp2, hp2e, hen2, hle2⟩
            · grind
            · -- an enabled poller due at the old instant was not fired: the clock cannot advance
              exfalso
              have hin2 := hkeep p2 hp2 hp2e
              have := hmin1 p2 hin2 hen2.1
              grind
    · -- no advance
      have heq : boundTau env s0 (n + 1) = boundTau env s0 n := by
        have := Rat.not_lt.mp hadv
        exact Rat.le_antisymm this hmono
      have hgen : ((boundLatest s0 : Nat) : Time) ≤ boundTau env s0 n := by rw [← heq]; exact hge
      have hin : boundTau env s0 n + boundDebt env s0 n ≤ boundDLV env s0 n := by
        rcases ih n (Nat.le_refl n) with h | h
        · exact absurd h (Rat.not_lt.mpr hgen)
        · exact h
      rw [heq]
      by_cases hflip : boundDV env s0 (simAt env s0 n).st < boundDV env s0 (simAt env s0 (n + 1)).st
      · have := hlvflip hflip
        grind
      · by_cases hdone1 : BoundIdleDone env s0 (n + 1)
        · have hd1 : boundDebt env s0 (n + 1) = 1 := by unfold boundDebt; rw [if_pos hdone1]
          rw [hd1]
          by_cases hdone : BoundIdleDone env s0 n
          · have hd : boundDebt env s0 n = 1 := by unfold boundDebt; rw [if_pos hdone]
            rw [hd] at hin
            grind
          · rcases hkey hgen hflip hdone hw1 with h | ⟨p2, hp2, hp2e, hen2, hle2⟩
            · grind
            · exfalso
              obtain ⟨hin2, hen3⟩ := P.enabled_persists n e p2 hpk hp2 hp2e hen2 (hlveq hflip)
              have := hdone1.2 p2 hin2 hen3
              rw [heq] at this
              grind
        · have hd0 : boundDebt env s0 (n + 1) = 0 := by unfold boundDebt; rw [if_neg hdone1]
          rw [hd0]
          grind
  · -- a worker is alive at `n + 1`: its whole life is pre-paid
    obtain ⟨q, hq, hqa, hqw⟩ := bound_not_noWorker hw1
    have hnd1 : ¬ BoundIdleDone env s0 (n + 1) := fun h => hw1 h.1
    have hd0 : boundDebt env s0 (n + 1) = 0 := by unfold boundDebt; rw [if_neg hnd1]
    rw [hd0]
    have h1 := hmin1 q hq hqa
    have h2 := P.tl (n + 1) hH q hq hqa hqw
    grind

/-- the invariant at index 0 -/
theorem boundD_inv_zero (C : LiveCfg env s0) (K : LiveKernel env s0) (P : BoundDParts env s0)
    (hnf : (simAt env s0 0).st.isFinished = false) : BoundDInv env s0 0 := by
  obtain ⟨e, p, hpk, hpp, ha, hpm, hpid, htau, hmin, _, _⟩ := bound_step_facts C K 0
  have hw0 : ∀ q ∈ (simAt env s0 0).st.procs, q.wake = 0 := bound_wk_start_procs C
  have ht0 : boundTau env s0 0 = 0 := by rw [htau]; exact hw0 p hpm
  by_cases hL : 0 < boundLatest s0
  · left
    rw [ht0]
    exact_mod_cast hL
  · right
    by_cases hw : (simAt env s0 0).st.NoWorker
    · obtain ⟨p', hp', hen'⟩ := P.idle_enabled 0 hw hnf
      have hnd : ¬ BoundIdleDone env s0 0 := by
        rintro ⟨_, h2⟩
        have := h2 p' hp' hen'
        rw [ht0, hw0 p' hp'] at this
        exact absurd this (by decide)
      have hd0 : boundDebt env s0 0 = 0 := by unfold boundDebt; rw [if_neg hnd]
      rw [hd0, ht0]
      have := boundD_latest_le_lv (env := env) (s0 := s0) 0
      have h0 : (0 : Time) ≤ ((boundLatest s0 : Nat) : Time) := by exact_mod_cast Nat.zero_le _
      grind
    · have hnd : ¬ BoundIdleDone env s0 0 := fun h => hw h.1
      have hd0 : boundDebt env s0 0 = 0 := by unfold boundDebt; rw [if_neg hnd]
      rw [hd0, ht0]
      have := boundD_latest_le_lv (env := env) (s0 := s0) 0
      have h0 : (0 : Time) ≤ ((boundLatest s0 : Nat) : Time) := by exact_mod_cast Nat.zero_le _
      grind

/-- **The invariant** at every index up to which the run is not at `is_finished()`. -/
theorem boundD_inv_all (C : LiveCfg env s0) (K : LiveKernel env s0) (P : BoundDParts env s0) (n : Nat)
    (hnf : ∀ j, j ≤ n → (simAt env s0 j).st.isFinished = false) : BoundDInv env s0 n := by
  induction n using Nat.strongRecOn with
  | _ n ih =>
    cases n with
    | zero => exact boundD_inv_zero C K P (hnf 0 (Nat.le_refl 0))
    | succ n =>
      apply boundD_inv_step C K P n
      · intro j hj
        exact ih j (by omega) (fun i hi => hnf i (by omega))
      · exact hnf (n + 1) (Nat.le_refl _)

/-- **The bound from the parts**, for any number `B` that dominates `latest + V` along the run: the
first index at which the run is at `is_finished()` has its clock within `B`. -/
theorem boundD_of_parts_gen (C : LiveCfg env s0) (K : LiveKernel env s0) (P : BoundDParts env s0)
    (hex : ∃ n, (simAt env s0 n).st.isFinished = true) (B : Nat)
    (hB : ∀ n, boundLatest s0 + boundDV env s0 (simAt env s0 n).st ≤ B) :
    ∃ n, (simAt env s0 n).st.isFinished = true ∧ boundClock env s0 n ≤ ((B : Nat) : Time) := by
  obtain ⟨n, hfin, hmin'⟩ := bound_least _ hex
  have hmin : ∀ j, j < n → (simAt env s0 j).st.isFinished = false := by
    intro j hj
    cases h : (simAt env s0 j).st.isFinished with
    | false => rfl
    | true => exact absurd h (hmin' j hj)
  refine ⟨n, hfin, ?_⟩
  cases n with
  | zero =>
    show (0 : Time) ≤ _
    exact_mod_cast Nat.zero_le _
  | succ m =>
    show boundTau env s0 m ≤ _
    have hinv := boundD_inv_all C K P m (fun j hj => hmin j (by omega))
    have h1 := hinv.le
    have h2 : boundDLV env s0 m ≤ ((B : Nat) : Time) := by
      unfold boundDLV
      exact_mod_cast hB m
    exact Rat.le_trans h1 h2


/-- all the parts, for any delay environment -/
theorem boundDParts (C : LiveCfg env s0) (K : LiveKernel env s0) : BoundDParts env s0 where
  wake_nat := fun n => bound_wake_nat C K n
  tl := by
    intro n hprev q hq ha hw
    rcases bound_worker_split hw with h | h
    · exact boundD_tl_ingest C K n hprev q hq ha h
    · exact boundD_tl_wf C K n hprev q hq ha h
  idle_enabled := fun n hq hnf => bound_idle_enabled C K n hq hnf
  enabled_fires := fun n _ _ hpk hpp hen hq hdue =>
    boundD_v_lt_of_lt (bound_run_mono C K (Nat.le_succ n)) (bound_enabled_fires C K n hpk hpp hen hq hdue)
  enabled_persists := fun n _ _ hpk hp hne hen hV =>
    bound_enabled_persists C K n hpk hp hne hen (boundD_v_eq_of_eq (bound_run_mono C K (Nat.le_succ n)) hV)
  v_mono := fun n => boundD_v_mono C K (Nat.le_succ n)

/-- **The delayed serial bound, run level**: for any delay environment the first index at which the
run is at `is_finished()` has its clock (the time of the last event popped) within `Sys.serialBoundD`. -/
theorem boundD_queue_clock (N : NcCfg env s0) :
    ∃ n, (simAt env s0 n).st.isFinished = true ∧ (simAt env s0 n).st.crashed = none ∧
      SimRun env s0 (simAt env s0 n) ∧
      boundClock env s0 n ≤ ((Sys.serialBoundD env s0 : Nat) : Time) := by
  have C : LiveCfg env s0 := N.toLive (live_noRaise N)
  have K := liveKernel C N.hh0
  obtain ⟨n0, h0, _⟩ := live_terminates_noRaise C N.hh0
  obtain ⟨n, hfin, hclk⟩ := boundD_of_parts_gen C K (boundDParts C K) ⟨n0, h0⟩
    (Sys.serialBoundD env s0)
    (fun n => Nat.le_trans (Nat.add_le_add_left (boundD_v_le_total env s0 (simAt env s0 n).st) _)
      (boundD_total_le_serial env s0 C.topo))
  exact ⟨n, hfin, C.nr n, (K.run n).1, hclk⟩

/-- the same with the sharper number `latest + boundDVTotal`: per observation its duration + 3, per
workflow node the largest delayed occupancy on any machine + its largest transfer wait (rounded up)
+ 1 -/
theorem boundD_queue_clock_sharp (N : NcCfg env s0) :
    ∃ n, (simAt env s0 n).st.isFinished = true ∧ (simAt env s0 n).st.crashed = none ∧
      SimRun env s0 (simAt env s0 n) ∧
      boundClock env s0 n ≤ ((boundLatest s0 + boundDVTotal env s0 : Nat) : Time) := by
  have C : LiveCfg env s0 := N.toLive (live_noRaise N)
  have K := liveKernel C N.hh0
  obtain ⟨n0, h0, _⟩ := live_terminates_noRaise C N.hh0
  obtain ⟨n, hfin, hclk⟩ := boundD_of_parts_gen C K (boundDParts C K) ⟨n0, h0⟩
    (boundLatest s0 + boundDVTotal env s0)
    (fun n => Nat.add_le_add_left (boundD_v_le_total env s0 (simAt env s0 n).st) _)
  exact ⟨n, hfin, C.nr n, (K.run n).1, hclk⟩

end

end Topsim
