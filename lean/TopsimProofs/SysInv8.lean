/-
  SysInv8 — the four outcomes of an allocation process's block and the cluster
  group `CI`.
-/
import TopsimProofs.SysInv7

namespace Topsim
namespace Sys

open Cluster

theorem CI.pc_zero {s : Sys} {U} (h : CI s U) {p : Proc} (hp : p ∈ s.procs) (ha : p.alive = true)
    {t m preds obs ing ret} (hk : p.k = .allocTask t m preds obs ing ret) (hnr : t ∉ s.cl.running) :
    p.pc = 0 := by
  by_cases h0 : p.pc = 0
  · exact h0
  · exfalso
    have := h.runOn p hp ha t m preds obs ing ret hk (by omega)
    apply hnr
    rw [← h.inv.runOnTasks]
    exact List.mem_map_of_mem (f := (·.task)) this

theorem CI.pc_pos {s : Sys} {U} (h : CI s U) {p : Proc} (hp : p ∈ s.procs) (ha : p.alive = true)
    {t m preds obs ing ret} (hk : p.k = .allocTask t m preds obs ing ret) (hr : t ∈ s.cl.running) :
    1 ≤ p.pc := by
  by_cases h0 : p.pc = 0
  · exfalso
    cases ing with
    | true =>
      have := h.pend p hp ha t m preds obs ret hk h0
      exact (h.inv.pendFresh _ this).1 hr
    | false =>
      exact (h.newT p hp ha t m preds obs ret hk h0).1 (h.inv.usedRun t hr)
  · omega

/-- the process dies (its first block was refused) -/
theorem CI.atKill {s : Sys} {U} (h : CI s U) (hpw : PW s) {p : Proc} (hp : p ∈ s.procs)
    {t m preds obs ing ret} (hk : p.k = .allocTask t m preds obs ing ret) (g : Proc → Proc)
    (hgp : (g p).pid = p.pid) (hgk : (g p).k = p.k) (hga : (g p).alive = false) :
    CI ({ s with cl := s.cl }.updProc p.pid g) U := by
  have hpw' : PW { s with cl := s.cl } := ⟨hpw.nodup, hpw.lt⟩
  have hmem := fun q => mem_updProc_iff hpw' (p := p) hp g q
  refine h.replaceAT hpw hp hk g hgp ret (hgk.trans hk) (fun h' => by rw [hga] at h'; exact absurd h' (by simp))
    s.cl U h.inv ?_ ?_ ?_ h.usedRec (fun _ _ h => h)
  · intro q hq hqa
    rcases (hmem q).mp hq with rfl | ⟨hq, _⟩
    · rw [hga] at hqa; exact absurd hqa (by simp)
    · exact h.runOn q hq hqa
  · intro q hq hqa
    rcases (hmem q).mp hq with rfl | ⟨hq, _⟩
    · rw [hga] at hqa; exact absurd hqa (by simp)
    · exact h.pend q hq hqa
  · intro q hq hqa
    rcases (hmem q).mp hq with rfl | ⟨hq, _⟩
    · rw [hga] at hqa; exact absurd hqa (by simp)
    · exact h.newT q hq hqa

/-- the process polls again -/
theorem CI.atPoll {s : Sys} {U} (h : CI s U) (hpw : PW s) {p : Proc} (hp : p ∈ s.procs)
    (ha : p.alive = true) {t m preds obs ing ret} (hk : p.k = .allocTask t m preds obs ing ret)
    (hpc : 1 ≤ p.pc) (g : Proc → Proc) (hgp : (g p).pid = p.pid) (hgk : (g p).k = p.k)
    (hgc : (g p).pc = p.pc + 1) : CI ({ s with cl := s.cl }.updProc p.pid g) U := by
  have hpw' : PW { s with cl := s.cl } := ⟨hpw.nodup, hpw.lt⟩
  have hmem := fun q => mem_updProc_iff hpw' (p := p) hp g q
  refine h.replaceAT hpw hp hk g hgp ret (hgk.trans hk) (fun _ => ha)
    s.cl U h.inv ?_ ?_ ?_ h.usedRec (fun _ _ h => h)
  · intro q hq hqa
    rcases (hmem q).mp hq with rfl | ⟨hq, _⟩
    · intro t1 m1 preds1 obs1 ing1 ret1 hk1 _
      rw [hgk] at hk1
      exact h.runOn p hp ha t1 m1 preds1 obs1 ing1 ret1 hk1 hpc
    · exact h.runOn q hq hqa
  · intro q hq hqa
    rcases (hmem q).mp hq with rfl | ⟨hq, _⟩
    · intro t1 m1 preds1 obs1 ret1 _ hpc1
      rw [hgc] at hpc1; omega
    · exact h.pend q hq hqa
  · intro q hq hqa
    rcases (hmem q).mp hq with rfl | ⟨hq, _⟩
    · intro t1 m1 preds1 obs1 ret1 _ hpc1
      rw [hgc] at hpc1; omega
    · exact h.newT q hq hqa

/-- the first block succeeds -/
theorem CI.atBegin {s : Sys} {U} (h : CI s U) (hpw : PW s) {p : Proc} (hp : p ∈ s.procs)
    (ha : p.alive = true) {t m preds obs ing ret} (hk : p.k = .allocTask t m preds obs ing ret)
    (hnr : t ∉ s.cl.running) (hok : (s.cl.allocBegin t m obs ing).2 = none) (g : Proc → Proc)
    (hgp : (g p).pid = p.pid) (ret' : Nat) (hgk : (g p).k = .allocTask t m preds obs ing ret')
    (hgc : (g p).pc = p.pc + 1) :
    ∃ U', CI ({ s with cl := (s.cl.allocBegin t m obs ing).1 }.updProc p.pid g) U' := by
  have hpc0 := h.pc_zero hp ha hk hnr
  obtain ⟨f1, f2, f3, _⟩ := allocBegin_fields s.cl t m obs ing hok
  have hpw' : PW { s with cl := (s.cl.allocBegin t m obs ing).1 } := ⟨hpw.nodup, hpw.lt⟩
  have hmem := fun q => mem_updProc_iff hpw' (p := p) hp g q
  -- the other live allocation processes carry other tasks
  have hother : ∀ q ∈ s.procs, q.pid ≠ p.pid → q.alive = true → ∀ t1 m1 preds1 obs1 ing1 ret1,
      q.k = .allocTask t1 m1 preds1 obs1 ing1 ret1 → t1 ≠ t := by
    intro q hq hne hqa t1 m1 preds1 obs1 ing1 ret1 hk1 e
    subst e
    exact hne (h.uniq q hq p hp hqa ha _ _ _ _ _ _ _ _ _ _ _ hk1 hk)
  -- the new freshness set
  obtain ⟨U', hinv, hsub, hU'⟩ : ∃ U', Inv (s.cl.allocBegin t m obs ing).1 U' ∧ (∀ x ∈ U, x ∈ U') ∧
      (∀ x ∈ U', x ∈ U ∨ (x = t ∧ ing = false ∧ t.isIngest = false)) := by
    cases ing with
    | true =>
      have he := h.pend p hp ha t m preds obs ret hk hpc0
      exact ⟨U, (ingestBegin_ok h.inv ⟨t, m, obs, true⟩ he).1, fun _ hx => hx, fun _ hx => Or.inl hx⟩
    | false =>
      have hn := h.newT p hp ha t m preds obs ret hk hpc0
      refine ⟨t :: U, (allocBegin_task_ok h.inv t m obs hn.1 hn.2).1, fun _ hx => List.mem_cons_of_mem _ hx, ?_⟩
      intro x hx
      rcases List.mem_cons.mp hx with rfl | hx
      · exact Or.inr ⟨rfl, rfl, hn.2⟩
      · exact Or.inl hx
  refine ⟨U', h.replaceAT hpw hp hk g hgp ret' hgk (fun _ => ha) _ U' hinv ?_ ?_ ?_ ?_ ?_⟩
  · intro q hq hqa t1 m1 preds1 obs1 ing1 ret1 hk1 hpc1
    show _ ∈ (s.cl.allocBegin t m obs ing).1.runOn
    rw [f1]
    rcases (hmem q).mp hq with rfl | ⟨hq, _⟩
    · rw [hgk] at hk1
      injection hk1 with e1 e2 e3 e4 e5 e6
      subst e1 e2 e4 e5
      simp
    · exact List.mem_append_left _ (h.runOn q hq hqa t1 m1 preds1 obs1 ing1 ret1 hk1 hpc1)
  · intro q hq hqa t1 m1 preds1 obs1 ret1 hk1 hpc1
    show _ ∈ (s.cl.allocBegin t m obs ing).1.pending
    rw [f2]
    rcases (hmem q).mp hq with rfl | ⟨hq, hne⟩
    · rw [hgc] at hpc1; omega
    · have h1 := h.pend q hq hqa t1 m1 preds1 obs1 ret1 hk1 hpc1
      have h2 := hother q hq hne hqa _ _ _ _ _ _ hk1
      split
      · refine (List.mem_erase_of_ne ?_).mpr h1
        intro e; injection e with e1; exact h2 e1
      · exact h1
  · intro q hq hqa t1 m1 preds1 obs1 ret1 hk1 hpc1
    rcases (hmem q).mp hq with rfl | ⟨hq, hne⟩
    · rw [hgc] at hpc1; omega
    · have h1 := h.newT q hq hqa t1 m1 preds1 obs1 ret1 hk1 hpc1
      have h2 := hother q hq hne hqa _ _ _ _ _ _ hk1
      refine ⟨fun hx => ?_, h1.2⟩
      rcases hU' t1 hx with hx | ⟨hx, _⟩
      · exact h1.1 hx
      · exact h2 hx
  · intro x hx
    rcases hU' x hx with hx | ⟨rfl, _⟩
    · exact h.usedRec x hx
    · exact h.hasRec p hp _ _ _ _ _ _ hk
  · intro o i hoi
    rcases hU' _ hoi with hx | ⟨rfl, _, hx⟩
    · exact hx
    · simp [Tid.isIngest] at hx

/-- the task has finished: the completion block -/
theorem CI.atEnd {s : Sys} {U} (h : CI s U) (hpw : PW s) {p : Proc} (hp : p ∈ s.procs)
    (ha : p.alive = true) {t m preds obs ing ret} (hk : p.k = .allocTask t m preds obs ing ret)
    (hr : t ∈ s.cl.running) (g : Proc → Proc) (hgp : (g p).pid = p.pid) (hgk : (g p).k = p.k)
    (hga : (g p).alive = false) :
    (s.cl.allocEnd t m obs ing).2 = none ∧
    CI ({ s with cl := (s.cl.allocEnd t m obs ing).1 }.updProc p.pid g) U := by
  have hpc := h.pc_pos hp ha hk hr
  have he := h.runOn p hp ha t m preds obs ing ret hk hpc
  obtain ⟨hok, hinv, _⟩ := allocEnd_ok h.inv ⟨t, m, obs, ing⟩ he
  simp only at hok hinv
  refine ⟨hok, ?_⟩
  obtain ⟨f1, f2, _, _⟩ := allocEnd_fields s.cl t m obs ing hok
  have hpw' : PW { s with cl := (s.cl.allocEnd t m obs ing).1 } := ⟨hpw.nodup, hpw.lt⟩
  have hmem := fun q => mem_updProc_iff hpw' (p := p) hp g q
  have hother : ∀ q ∈ s.procs, q.pid ≠ p.pid → q.alive = true → ∀ t1 m1 preds1 obs1 ing1 ret1,
      q.k = .allocTask t1 m1 preds1 obs1 ing1 ret1 → t1 ≠ t := by
    intro q hq hne hqa t1 m1 preds1 obs1 ing1 ret1 hk1 e
    subst e
    exact hne (h.uniq q hq p hp hqa ha _ _ _ _ _ _ _ _ _ _ _ hk1 hk)
  refine h.replaceAT hpw hp hk g hgp ret (hgk.trans hk)
    (fun h' => by rw [hga] at h'; exact absurd h' (by simp)) _ U hinv ?_ ?_ ?_ h.usedRec (fun _ _ h => h)
  · intro q hq hqa t1 m1 preds1 obs1 ing1 ret1 hk1 hpc1
    show _ ∈ (s.cl.allocEnd t m obs ing).1.runOn
    rw [f1]
    rcases (hmem q).mp hq with rfl | ⟨hq, hne⟩
    · rw [hga] at hqa; exact absurd hqa (by simp)
    · have h1 := h.runOn q hq hqa t1 m1 preds1 obs1 ing1 ret1 hk1 hpc1
      have h2 := hother q hq hne hqa _ _ _ _ _ _ hk1
      refine (List.mem_erase_of_ne ?_).mpr h1
      intro e; injection e with e1; exact h2 e1
  · intro q hq hqa t1 m1 preds1 obs1 ret1 hk1 hpc1
    show _ ∈ (s.cl.allocEnd t m obs ing).1.pending
    rw [f2]
    rcases (hmem q).mp hq with rfl | ⟨hq, _⟩
    · rw [hga] at hqa; exact absurd hqa (by simp)
    · exact h.pend q hq hqa t1 m1 preds1 obs1 ret1 hk1 hpc1
  · intro q hq hqa
    rcases (hmem q).mp hq with rfl | ⟨hq, _⟩
    · rw [hga] at hqa; exact absurd hqa (by simp)
    · exact h.newT q hq hqa

end Sys
end Topsim
