/-
  LifeCycle17 — the telescope's bookkeeping holds along every run.
-/
import TopsimProofs.LifeCycle16

namespace Topsim
namespace Sys

/-- a step that maps the records without changing what they contribute, and leaves the fields the
telescope writes alone -/
theorem TelAcct.of_map {s X : Sys} (h : TelAcct s) (g : Obs → Obs) (hobs : X.obs = s.obs.map g)
    (hts : TelSame s X)
    (hg : ∀ r ∈ s.obs, (g r).id = r.id ∧ (g r).demand = r.demand ∧
      ((g r).status = .finished ↔ r.status = .finished) ∧
      ((g r).ast ≠ none → r.ast ≠ none ∨ r.id ∈ s.admitted))
    (hai : ∀ q ∈ X.procs, ∀ o tl, q.k = .allocIngest o tl → o ∈ s.admitted) : TelAcct X := by
  have hc : ∀ r ∈ s.obs, useC s.admitted (g r) = useC s.admitted r := by
    intro r hr
    obtain ⟨g1, g2, g3, _⟩ := hg r hr
    unfold useC
    rw [g1, g2]
    by_cases hf : r.status = .finished
    · simp [hf, g3.mpr hf]
    · have : (g r).status ≠ .finished := fun e => hf (g3.mp e)
      simp [hf, this]
  constructor
  · rw [hobs, List.map_map]
    have : s.obs.map ((fun x => x.id) ∘ g) = s.obs.map (·.id) := by
      apply List.map_congr_left
      intro r hr; exact (hg r hr).1
    rw [this]; exact h.nodup
  · rw [hts.telUse, hts.admitted, hobs, useL_map_congr s.admitted s.admitted s.obs g hc]; exact h.use
  · intro ob' hob' hadm hnf
    rw [hobs] at hob'
    obtain ⟨r, hr, rfl⟩ := List.mem_map.mp hob'
    obtain ⟨g1, _, g3, _⟩ := hg r hr
    rw [hts.telStatus]
    exact h.stat r hr (by rw [← g1, ← hts.admitted]; exact hadm) (fun e => hnf (g3.mpr e))
  · intro ob' hob'
    rw [hobs] at hob'
    obtain ⟨r, hr, rfl⟩ := List.mem_map.mp hob'
    rw [(hg r hr).2.1]; exact h.dem r hr
  · intro ob' hob' hast
    rw [hobs] at hob'
    obtain ⟨r, hr, rfl⟩ := List.mem_map.mp hob'
    obtain ⟨g1, _, _, g4⟩ := hg r hr
    rw [hts.admitted, g1]
    rcases g4 hast with h1 | h1
    · exact h.astAdm r hr h1
    · exact h1
  · intro q hq o tl hk
    rw [hts.admitted]; exact hai q hq o tl hk

theorem start_telAcct (s0 : Sys) (hw : WFConfig s0) : TelAcct s0.start := by
  obtain ⟨_, _, _, _, _, _, _, hadm, hu, hs, _⟩ := hw.fresh
  have ho : s0.start.obs = s0.obs := start_obs s0
  have ha : s0.start.admitted = s0.admitted := by simp [start, spawn]
  have htu : s0.start.telUse = s0.telUse := by simp [start, spawn]
  constructor
  · rw [ho]; exact hw.obsNodup
  · rw [htu, hu, ha, hadm, ho]
    have : ∀ l : List Obs, useL [] l = 0 := by
      intro l
      induction l with
      | nil => rfl
      | cons r rest ih => simp [useL, useC, ih]
    rw [this]
  · intro ob _ hin; rw [ha, hadm] at hin; simp at hin
  · intro ob hob; rw [ho] at hob; exact (hw.obsWaiting ob hob).2.2.1
  · intro ob hob hast; rw [ho] at hob; exact absurd (hw.obsWaiting ob hob).2.1 hast
  · intro q hq o tl hk
    rw [start_procs s0 hw] at hq; simp only [List.mem_cons, List.not_mem_nil, or_false] at hq
    rcases hq with rfl | rfl | rfl | rfl | rfl <;> simp at hk

theorem telAcct_step {s0 s : Sys} (hw : WFConfig s0) (hr : Reach s0 s) (h : TelAcct s) {pid : Nat}
    (hen : s.enabled pid) (orc : Oracle) : TelAcct (s.resume pid orc).1 := by
  have hi := reach_einv s0 s hw hr
  have hndA := reach_admitted_nodup s0 _ hw (Reach.step s pid orc hr hen)
  obtain ⟨p, hp, ha, hmin⟩ := hen
  obtain ⟨hpm, hpid⟩ := proc?_some hp
  obtain ⟨new, hnew, hnewp⟩ := block_newp s p orc
  have hm := resume_memSpec hi hp ha hmin orc hnew
  have hobsEq : (s.resume pid orc).1.obs = (s.block p orc).1.obs := (resume_alive s pid orc p hp ha).2.2.2.2.2.1
  have hrts := resume_telSame s pid orc p hp ha
  have hclsAI := allocIngest_class s hi.pw p orc
  by_cases hk : p.k = .telescope
  · -- the telescope's block
    have hb : TelAcct (s.block p orc).1 := by
      rcases blockEvents_telescope (s := s) orc hk with ⟨_, hb, _⟩ | ⟨s0', e0, g1, g2, g3, _, g5, g6, _, hrun, _⟩
      · rw [hb]
        exact ⟨h.nodup, h.use, h.stat, h.dem, h.astAdm, h.aiAdm⟩
      · have h0 : TelAcct s0' :=
          ⟨by rw [g2]; exact h.nodup, by rw [g5, g1, g2]; exact h.use, by rw [g2, g1, g6]; exact h.stat,
           by rw [g2]; exact h.dem, by rw [g2, g1]; exact h.astAdm, by rw [g3, g1]; exact h.aiAdm⟩
        exact TelAcct.telRun hrun h0 (by rw [← hrts.admitted]; exact hndA)
    refine ⟨by rw [hobsEq]; exact hb.nodup, by rw [hrts.telUse, hrts.admitted, hobsEq]; exact hb.use,
      by rw [hobsEq, hrts.admitted, hrts.telStatus]; exact hb.stat, by rw [hobsEq]; exact hb.dem,
      by rw [hobsEq, hrts.admitted]; exact hb.astAdm, ?_⟩
    intro q hq o tl hqk
    rw [hrts.admitted]
    rcases (hm q).mp hq with rfl | ⟨hq0, _⟩ | hqn
    · simp only [fin_k] at hqk
      rw [block_telescope orc hk] at hqk; simp at hqk
    · exact hb.aiAdm q (by rw [hnew]; exact List.mem_append_left _ hq0) o tl hqk
    · exact hb.aiAdm q (by rw [hnew]; exact List.mem_append_right _ hqn) o tl hqk
  · have hts : TelSame s (s.resume pid orc).1 := (block_telSame s p orc hk).trans hrts
    -- processes of the new table that are ingest supervisors
    have hai : ∀ q ∈ (s.resume pid orc).1.procs, ∀ o tl, q.k = .allocIngest o tl → o ∈ s.admitted := by
      intro q hq o tl hqk
      rcases (hm q).mp hq with rfl | ⟨hq0, _⟩ | hqn
      · simp only [fin_k] at hqk
        obtain ⟨tl0, hk0⟩ := (hclsAI o).mp ⟨tl, hqk⟩
        exact h.aiAdm p hpm o tl0 hk0
      · exact h.aiAdm q hq0 o tl hqk
      · have := (hnewp q hqn).2.2.2
        rw [hqk] at this
        cases hpk : p.k <;> rw [hpk] at this <;> simp [NewKind] at this
        exact absurd hpk hk
    by_cases hk2 : ∃ oid tl, p.k = .allocIngest oid tl
    · obtain ⟨oid, tl, hk2⟩ := hk2
      obtain ⟨F, hF, hFp⟩ := allocIngestBlock_obsMap s h.nodup p.wake p.pc oid tl
      rw [← block_allocIngest orc hk2] at hF
      refine h.of_map (fun r => if r.id = oid then F r else r) (by rw [hobsEq]; exact hF) hts ?_ hai
      intro r hr
      by_cases e : r.id = oid
      · simp only [e, if_true]
        obtain ⟨f1, f2, _, f4, _⟩ := hFp r
        refine ⟨f1.trans e, f2, ?_, fun _ => Or.inr (h.aiAdm p hpm oid tl hk2)⟩
        rcases f4 with f | ⟨f, f'⟩
        · rw [f]
        · rw [f, f']; simp
      · refine ⟨by simp [e], by simp [e], by simp [e], ?_⟩
        intro hh; left; simpa [e] using hh
    · have h1 : p.k.tag ≠ "telescope" := by
        intro e; apply hk; cases hpk : p.k <;> rw [hpk] at e <;> simp [PK.tag] at e <;> rfl
      have h2 : p.k.tag ≠ "allocIngest" := by
        intro e; apply hk2; cases hpk : p.k <;> rw [hpk] at e <;> simp [PK.tag] at e
        exact ⟨_, _, rfl⟩
      refine h.of_map id (by rw [hobsEq, block_obs s p orc h1 h2]; simp) hts ?_ hai
      intro r _
      exact ⟨rfl, rfl, Iff.rfl, fun hh => Or.inl hh⟩

theorem reach_telAcct {s0 s : Sys} (hw : WFConfig s0) (h : Reach s0 s) : TelAcct s := by
  induction h with
  | start => exact start_telAcct s0 hw
  | step s pid orc hr hen ih => exact telAcct_step hw hr ih hen orc

end Sys
end Topsim
