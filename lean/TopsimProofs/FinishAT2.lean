/-
  FinishAT2 — frames of the pieces of `allocate_tasks`.
-/
import TopsimProofs.FinishAT1

namespace Topsim
namespace Sys

theorem updateCurrentPlan_buf (s : Sys) (oid : Oid) : (s.updateCurrentPlan oid).buf = s.buf := by
  unfold updateCurrentPlan
  split
  · rfl
  · simp only
    show (List.foldl _ s _).buf = s.buf
    apply foldl_buf
    intro s x
    split
    · split <;> rfl
    · rfl


theorem updateCurrentPlan_queue (s : Sys) (oid : Oid) : (s.updateCurrentPlan oid).queue = s.queue := by
  unfold updateCurrentPlan
  split
  · rfl
  · simp only
    show (List.foldl _ s _).queue = s.queue
    apply foldl_queue
    intro s x
    split
    · split <;> rfl
    · rfl


theorem processOne_buf (now : Time) (oid : Oid) (st : PcsSt) (t : Tid) :
    (processOne now oid st t).s.buf = st.s.buf := by
  unfold processOne
  cases hok : st.err with
  | some e => rfl
  | none =>
    simp only
    cases hm : dictGet st.schedule t with
    | none => rfl
    | some m =>
      cases hr : st.s.task? t with
      | none => rfl
      | some r =>
        simp only []
        cases hmm : st.s.machine? m with
        | none => rfl
        | some mm =>
          simp only []
          by_cases hz : ((r.allocObj || r.planned != some m) = true ∧ (mm.cpu = 0 ∨ mm.bw = 0))
          · rw [if_pos hz]
          · simp only [hz, if_false]
            generalize hs1 : (if (r.allocObj || r.planned != some m) = true then
              st.s.updTask t (fun r => updateAllocation r mm) else st.s) = s1
            have h1 : s1.buf = st.s.buf := by subst hs1; split <;> rfl
            by_cases hocc : (st.curr.contains m = true ∨ s1.cl.isOccupied m = true)
            · simp only [hocc, if_true]; exact h1
            · simp only [hocc, if_false]
              by_cases hmiss : (r.preds.any fun p => !dictHas (dictSet st.pairs t m) p) = true
              · simp only [hmiss, if_true]; exact h1
              · simp only [hmiss]
                by_cases hst : r.status ≠ TStatus.unscheduled
                · rw [if_pos hst]; exact h1
                · rw [if_neg hst]; exact h1

theorem processCurrentSchedule_buf (s : Sys) (now : Time) (oid : Oid)
    (schedule pairs : List (Tid × Mid)) : (processCurrentSchedule s now oid schedule pairs).s.buf = s.buf := by
  unfold processCurrentSchedule
  simp only
  generalize ((dictKeys schedule).mergeSort _) = l
  have : ∀ (l : List Tid) (st : PcsSt), (l.foldl (processOne now oid) st).s.buf = st.s.buf := by
    intro l
    induction l with
    | nil => intro st; rfl
    | cons x r ih => intro st; exact (ih _).trans (processOne_buf now oid st x)
  exact this l { s := s, schedule := schedule, pairs := pairs, curr := [] }


theorem processOne_queue (now : Time) (oid : Oid) (st : PcsSt) (t : Tid) :
    (processOne now oid st t).s.queue = st.s.queue := by
  unfold processOne
  cases hok : st.err with
  | some e => rfl
  | none =>
    simp only
    cases hm : dictGet st.schedule t with
    | none => rfl
    | some m =>
      cases hr : st.s.task? t with
      | none => rfl
      | some r =>
        simp only []
        cases hmm : st.s.machine? m with
        | none => rfl
        | some mm =>
          simp only []
          by_cases hz : ((r.allocObj || r.planned != some m) = true ∧ (mm.cpu = 0 ∨ mm.bw = 0))
          · rw [if_pos hz]
          · simp only [hz, if_false]
            generalize hs1 : (if (r.allocObj || r.planned != some m) = true then
              st.s.updTask t (fun r => updateAllocation r mm) else st.s) = s1
            have h1 : s1.queue = st.s.queue := by subst hs1; split <;> rfl
            by_cases hocc : (st.curr.contains m = true ∨ s1.cl.isOccupied m = true)
            · simp only [hocc, if_true]; exact h1
            · simp only [hocc, if_false]
              by_cases hmiss : (r.preds.any fun p => !dictHas (dictSet st.pairs t m) p) = true
              · simp only [hmiss, if_true]; exact h1
              · simp only [hmiss]
                by_cases hst : r.status ≠ TStatus.unscheduled
                · rw [if_pos hst]; exact h1
                · rw [if_neg hst]; exact h1

theorem processCurrentSchedule_queue (s : Sys) (now : Time) (oid : Oid)
    (schedule pairs : List (Tid × Mid)) : (processCurrentSchedule s now oid schedule pairs).s.queue = s.queue := by
  unfold processCurrentSchedule
  simp only
  generalize ((dictKeys schedule).mergeSort _) = l
  have : ∀ (l : List Tid) (st : PcsSt), (l.foldl (processOne now oid) st).s.queue = st.s.queue := by
    intro l
    induction l with
    | nil => intro st; rfl
    | cons x r ih => intro st; exact (ih _).trans (processOne_queue now oid st x)
  exact this l { s := s, schedule := schedule, pairs := pairs, curr := [] }


theorem processOne_plans (now : Time) (oid : Oid) (st : PcsSt) (t : Tid) :
    (processOne now oid st t).s.plans = st.s.plans := by
  unfold processOne
  cases hok : st.err with
  | some e => rfl
  | none =>
    simp only
    cases hm : dictGet st.schedule t with
    | none => rfl
    | some m =>
      cases hr : st.s.task? t with
      | none => rfl
      | some r =>
        simp only []
        cases hmm : st.s.machine? m with
        | none => rfl
        | some mm =>
          simp only []
          by_cases hz : ((r.allocObj || r.planned != some m) = true ∧ (mm.cpu = 0 ∨ mm.bw = 0))
          · rw [if_pos hz]
          · simp only [hz, if_false]
            generalize hs1 : (if (r.allocObj || r.planned != some m) = true then
              st.s.updTask t (fun r => updateAllocation r mm) else st.s) = s1
            have h1 : s1.plans = st.s.plans := by subst hs1; split <;> rfl
            by_cases hocc : (st.curr.contains m = true ∨ s1.cl.isOccupied m = true)
            · simp only [hocc, if_true]; exact h1
            · simp only [hocc, if_false]
              by_cases hmiss : (r.preds.any fun p => !dictHas (dictSet st.pairs t m) p) = true
              · simp only [hmiss, if_true]; exact h1
              · simp only [hmiss]
                by_cases hst : r.status ≠ TStatus.unscheduled
                · rw [if_pos hst]; exact h1
                · rw [if_neg hst]; exact h1

theorem processCurrentSchedule_plans (s : Sys) (now : Time) (oid : Oid)
    (schedule pairs : List (Tid × Mid)) : (processCurrentSchedule s now oid schedule pairs).s.plans = s.plans := by
  unfold processCurrentSchedule
  simp only
  generalize ((dictKeys schedule).mergeSort _) = l
  have : ∀ (l : List Tid) (st : PcsSt), (l.foldl (processOne now oid) st).s.plans = st.s.plans := by
    intro l
    induction l with
    | nil => intro st; rfl
    | cons x r ih => intro st; exact (ih _).trans (processOne_plans now oid st x)
  exact this l { s := s, schedule := schedule, pairs := pairs, curr := [] }


theorem atStart_buf (s : Sys) (now : Time) (pc : Nat) (oid : Oid) : (atStart s now pc oid).buf = s.buf := by
  unfold atStart; split
  · refine Eq.trans (foldl_buf _ ?_ _ _) rfl
    intro _ _; rfl
  · rfl

theorem atStart_queue (s : Sys) (now : Time) (pc : Nat) (oid : Oid) : (atStart s now pc oid).queue = s.queue := by
  unfold atStart; split
  · refine Eq.trans (foldl_queue _ ?_ _ _) rfl
    intro _ _; rfl
  · rfl

theorem atStart_cl (s : Sys) (now : Time) (pc : Nat) (oid : Oid) : (atStart s now pc oid).cl = s.cl := by
  unfold atStart; split
  · refine Eq.trans (foldl_cl _ ?_ _ _) rfl
    intro _ _; rfl
  · rfl

theorem atStart_alg (s : Sys) (now : Time) (pc : Nat) (oid : Oid) : (atStart s now pc oid).alg = s.alg := by
  unfold atStart; split
  · refine Eq.trans (foldl_alg _ ?_ _ _) rfl
    intro _ _; rfl
  · rfl

theorem atStart_plans (s : Sys) (now : Time) (pc : Nat) (oid : Oid) :
    (atStart s now pc oid).plans = s.plans ∨
    (atStart s now pc oid).plans = (s.updPlan oid (fun p => { p with ast := some (natNow now) })).plans := by
  unfold atStart; split
  · right
    refine Eq.trans (foldl_plans _ ?_ _ _) rfl
    intro _ _; rfl
  · exact Or.inl rfl

end Sys
end Topsim
