/-
  TopsimProofs.ConfigLemmas — lemmas about the timestep-unit scaling cited by
  TopsimProps.C16.
-/
import TopsimModel.Config

namespace Topsim

/-- rounding an integer-valued rational gives that integer -/
theorem roundHalfEven_intCast (n : Int) : roundHalfEven (n : Rat) = n := by
  unfold roundHalfEven
  simp only [Rat.floor_intCast]
  have h0 : ((n : Rat) - (n : Rat)) = 0 := Rat.sub_self
  rw [h0]
  have hlt : (0 : Rat) < 1/2 := by decide +kernel
  rw [if_pos hlt]

theorem round_int_mul (a m : Int) : roundHalfEven ((a : Rat) * (m : Rat)) = a * m := by
  rw [← Rat.intCast_mul]
  exact roundHalfEven_intCast (a * m)

theorem volume_invariant (u : TimeUnit) (rate k : Int) (hm : multiplier u ≠ 0) :
    let m := multiplier u
    let r := scale u 0 ((k * m : Int) : Rat) rate 0 0 0 0 0
    (r.dataRate : Rat) * r.duration = (rate : Rat) * ((k * m : Int) : Rat) := by
  intro m r
  have hm' : ((multiplier u : Int) : Rat) ≠ 0 := by
    intro h
    exact hm (Rat.intCast_eq_zero_iff.mp h)
  have h1 : r.dataRate = rate * multiplier u := round_int_mul rate (multiplier u)
  have h2 : r.duration = ((k * multiplier u : Int) : Rat) / ((multiplier u : Int) : Rat) := rfl
  rw [h1, h2, Rat.intCast_mul, Rat.intCast_mul, Rat.mul_div_cancel hm']
  show (rate : Rat) * ((multiplier u : Int) : Rat) * (k : Rat)
      = (rate : Rat) * ((k : Rat) * ((multiplier u : Int) : Rat))
  grind

theorem rate_limit_invariant (u : TimeUnit) (rate hot : Rat) (hm : 0 < multiplier u) :
    (rate * (multiplier u : Rat) ≤ hot * (multiplier u : Rat)) ↔ rate ≤ hot := by
  have hm' : (0 : Rat) < ((multiplier u : Int) : Rat) := Rat.intCast_pos.mpr hm
  constructor
  · intro h
    exact Rat.le_of_mul_le_mul_right h hm'
  · intro h
    exact Rat.mul_le_mul_of_nonneg_right h (Rat.le_of_lt hm')

theorem runtime_invariant (work speed m : Nat) (hm : 0 < m) (hs : 0 < speed)
    (hdiv : (speed * m) ∣ work) : m * (work / (speed * m)) = work / speed := by
  obtain ⟨q, rfl⟩ := hdiv
  have hsm : 0 < speed * m := Nat.mul_pos hs hm
  rw [Nat.mul_div_cancel_left q hsm, Nat.mul_assoc speed m q, Nat.mul_div_cancel_left (m * q) hs]

end Topsim
