/-
  IngestLimit8 — the ledger invariant along every run, and the statements cited
  by `TopsimProps/C08Traj.lean`.
-/
import TopsimProofs.IngestLimit7

namespace Topsim
namespace Sys

open Cluster

/-! ### the started simulation -/

theorem il_start (s0 : Sys) (hw : WFConfig s0) : ILInv s0.start ∧ s0.start.ilLoadS = 0 := by
  obtain ⟨hprocs, hnp, _, _, _, _, _, hadm, _, _, hprov, _⟩ := hw.fresh
  have hp : s0.start.procs = [] ++
      [{ pid := s0.nextPid, k := .monitor, wake := 0 }, { pid := s0.nextPid + 1, k := .telescope, wake := 0 },
       { pid := s0.nextPid + 2, k := .clusterLoop, wake := 0 }, { pid := s0.nextPid + 3, k := .schedLoop, wake := 0 },
       { pid := s0.nextPid + 4, k := .bufferLoop, wake := 0 }] := by
    simp [start, spawn, hprocs]
  have hcl : s0.start.cl = s0.cl := by simp [start, spawn]
  have hE : s0.start.cl.ilEntries = [] := by
    rw [hcl, hw.clInit]; rfl
  have h0 : ILC [] s0.start.ilDemand [] 0 s0.maxIngest [] :=
    ⟨by simp [ilLiveAI], by omega, by simp [ilLiveAI], by simp, by simp, by simp, by simp⟩
  have hn : ∀ q ∈ ([{ pid := s0.nextPid, k := .monitor, wake := 0 }, { pid := s0.nextPid + 1, k := .telescope, wake := 0 },
       { pid := s0.nextPid + 2, k := .clusterLoop, wake := 0 }, { pid := s0.nextPid + 3, k := .schedLoop, wake := 0 },
       { pid := s0.nextPid + 4, k := .bufferLoop, wake := 0 }] : List Proc),
      q.k.aiObs = none ∧ q.k.piObs = none := by
    intro q hq
    simp only [List.mem_cons, List.not_mem_nil, or_false] at hq
    rcases hq with rfl | rfl | rfl | rfl | rfl <;> exact ⟨rfl, rfl⟩
  have h1 := h0.append_neutral _ hn
  have h2 := ILInv.of_ilc (s' := s0.start) h1 hp (fun _ => rfl) (by rw [hE]; intro Q; simp)
    (by simp [start, spawn, hprov]) (by simp [start, spawn]) (by simp [start, spawn, hadm])
  refine ⟨h2.1, ?_⟩
  have := h2.2
  rw [ilPromised_append_neutral _ _ _ hn] at this
  simp [ilPromised, ilLiveAI] at this
  exact this

/-! ### every run -/

/-- along every run: the ledger invariant, and the unconditional bound -/
theorem reach_il (s0 s : Sys) (hw : WFConfig s0) (h : ReachOk s0 s) : ILInv s ∧ ilW s := by
  induction h with
  | start =>
    obtain ⟨h1, h2⟩ := il_start s0 hw
    exact ⟨h1, by unfold ilW; omega⟩
  | step s pid orc hr hen hpre ih =>
    obtain ⟨k1, _, k3, _⟩ := il_step (reach_inv s0 s hw hr) ih.1 hen orc hpre
    exact ⟨k1, k3 ih.2⟩

/-- the limit is the configured one throughout -/
theorem reach_maxIngest (s0 s : Sys) (hw : WFConfig s0) (h : ReachOk s0 s) :
    s.maxIngest = s0.maxIngest := by
  induction h with
  | start => simp [start, spawn]
  | step s pid orc hr hen hpre ih =>
    obtain ⟨_, k2, _, _⟩ := il_step (reach_inv s0 s hw hr) (reach_il s0 s hw hr).1 hen orc hpre
    exact k2.trans ih

/-- `ReachOk`, with one more side condition on the order of the blocks inside an instant: the
telescope takes its admission decisions only in states where no ingest machine is still held for
an observation whose ingest supervisor has already ended (in SimPy's order the telescope is
resumed before the ingest supervisors and allocation processes of the instant) -/
inductive ReachTelFirst (s0 : Sys) : Sys → Prop
  | start : ReachTelFirst s0 s0.start
  | step (s : Sys) (pid : Nat) (orc : Oracle) :
      ReachTelFirst s0 s → s.enabled pid → (s.alg = .oracle → orc.preOk) →
      ((∃ p, s.proc? pid = some p ∧ p.k = .telescope) → s.ingestStale = 0) →
      ReachTelFirst s0 (s.resume pid orc).1

theorem ReachTelFirst.toOk {s0 s : Sys} (h : ReachTelFirst s0 s) : ReachOk s0 s := by
  induction h with
  | start => exact ReachOk.start
  | step s pid orc _ hen hpre _ ih => exact ReachOk.step s pid orc ih hen hpre

theorem reach_il_telFirst (s0 s : Sys) (hw : WFConfig s0) (h : ReachTelFirst s0 s) : ilT s := by
  induction h with
  | start =>
    obtain ⟨_, h2⟩ := il_start s0 hw
    unfold ilT; omega
  | step s pid orc hr hen hpre htel ih =>
    obtain ⟨_, _, _, k4⟩ := il_step (reach_inv s0 s hw hr.toOk) (reach_il s0 s hw hr.toOk).1 hen orc hpre
    exact k4 htel ih

/-! ### in terms of the ingest pool -/

theorem reach_ingest_accounting (s0 s : Sys) (hw : WFConfig s0) (h : ReachOk s0 s) :
    ((s.cl.ingest.length + s.ingestPromised : Nat) : Int) ≤ s.provIngest + (s.ingestStale : Nat) ∧
    0 ≤ s.provIngest ∧ s.provIngest ≤ (s.maxIngest : Int) := by
  obtain ⟨U, hU⟩ := (reach_inv s0 s hw h).ci
  have hil : ILC s.procs s.ilDemand s.cl.ilEntries s.provIngest s.maxIngest s.admitted := (reach_il s0 s hw h).1
  have h1 := hil.accounting
  have h2 := il_ingest_length hU.inv
  have h3 := hil.owed
  refine ⟨?_, by omega, hil.cap⟩
  unfold ingestPromised ingestStale
  omega

theorem reach_ingest_any_order (s0 s : Sys) (hw : WFConfig s0) (h : ReachOk s0 s) :
    s.cl.ingest.length + s.ingestPromised ≤ 2 * s.maxIngest - 1 := by
  obtain ⟨U, hU⟩ := (reach_inv s0 s hw h).ci
  have h1 := (reach_il s0 s hw h).2
  have h2 := il_ingest_length hU.inv
  unfold ilW ilLoadS at h1
  omega

theorem reach_ingest_telFirst (s0 s : Sys) (hw : WFConfig s0) (h : ReachTelFirst s0 s) :
    s.cl.ingest.length + s.ingestPromised ≤ s.maxIngest := by
  obtain ⟨U, hU⟩ := (reach_inv s0 s hw h.toOk).ci
  have h1 := reach_il_telFirst s0 s hw h
  have h2 := il_ingest_length hU.inv
  unfold ilT ilLoadS at h1
  omega

end Sys
end Topsim
