/-
  OnTime8 — the bodies of the ingest tasks of an observation (`OtBody`), along
  the runs in which no exception has been raised: a body that has ended had
  started; a body that has started at the observation's recorded start `a` is due
  (or ran its last block) at `a + duration - 1`, and its task is in `starts`;
  the recorded start of an ingest task is the observation's recorded start.
-/
import TopsimProofs.OnTime7

namespace Topsim

open KState Sys

namespace Sys

/-- The body of an ingest task, seen from its allocation process: it was created at the
observation's recorded start with no predecessor, it is before its first block or past it, and the
records of its task carry no work and the observation's duration. -/
theorem ot_body_start {s : Sys} (hs : SInv s) (hti : ILTI s) {p : Proc} (hpm : p ∈ s.procs)
    (ha : p.alive = true) {o : Oid} {i : Nat} {m : Mid} {preds : List Tid} {ph tot : Nat}
    (hk : p.k = .doWork (.ingest o i) m preds ph tot) :
    preds = [] ∧ (ph = 0 ∨ 2 ≤ ph) ∧ ∃ ob a, s.obs? o = some ob ∧ ob.ast = some a ∧
      (ph = 0 → p.wake = ((a : Nat) : Time)) ∧
      ∀ rec, s.task? (.ingest o i) = some rec → rec.flops = 0 ∧ rec.data = 0 ∧ rec.duration = ob.duration := by
  obtain ⟨U, hU⟩ := hs.ci
  obtain ⟨q, hq, hqa, hqc, preds', obs, ing, hqk⟩ := hs.dg.dwAlloc p hpm ha _ _ _ _ _ hk
  have hent := hU.runOn q hq hqa _ _ _ _ _ _ hqk hqc
  have hing : ing = true := by
    have := hU.inv.ingRun _ hent
    simpa [Tid.isIngest] using this
  subst hing
  obtain ⟨o', ho', q', hq', hq'a, hq'c, preds'', ret'', hq'k⟩ := hti.entRun _ hent rfl
  simp only at ho' hq'k
  subst ho'
  have hqq : q = q' := hs.pw.eq_of_pid hq hq'
    (hU.uniq q hq q' hq' hqa hq'a _ _ _ _ _ _ _ _ _ _ _ hqk hq'k)
  subst hqq
  rw [hqk] at hq'k
  injection hq'k with _ _ e3 _ _ e6
  subst e3 e6
  obtain ⟨⟨i', hti'⟩, r, hr, hrp, _, phr, totr, hrk, hph, ob, a, b, hob, hast, hrw, hb0, _⟩ :=
    hti.atRun q hq hqa hqc _ _ _ _ _ hqk
  injection hti' with e1 e2
  subst e1 e2
  have hrp' : r = p := hs.pw.eq_of_pid hr hpm hrp
  subst hrp'
  rw [hk] at hrk
  injection hrk with _ _ e3 e4 e5
  subst e3 e4 e5
  refine ⟨rfl, hph ha, ob, a, hob, hast, ?_, ?_⟩
  · intro h0
    rw [hrw, hb0 ha h0]
  · intro rec hrec
    obtain ⟨hrm, hrid⟩ := il_task?_mem hrec
    obtain ⟨k1, k2, ob2, hob2, k3⟩ := hti.taskR rec hrm o i hrid
    rw [hob] at hob2; cases hob2
    exact ⟨k1, k2, k3⟩

/-- the block of the body of an ingest task: it raises; or it is the first block, which stamps the
start and waits `duration - 1`; or it is the last block, which stamps the finish and ends -/
theorem ot_ingest_body_block (s : Sys) (now : Time) (orc : Oracle) (htot : orc.total = none) (o : Oid)
    (i : Nat) (m : Mid) (ph tot D : Nat)
    (hR : ∀ rec, s.task? (.ingest o i) = some rec → rec.flops = 0 ∧ rec.data = 0 ∧ rec.duration = D)
    (hph : ph = 0 ∨ 2 ≤ ph) :
    (∃ e, (s.doWorkBlock now orc (.ingest o i) m [] ph tot).2.2 = .raised e) ∨
    (ph = 0 ∧ (s.doWorkBlock now orc (.ingest o i) m [] ph tot).2.1 = .doWork (.ingest o i) m [] 2 D ∧
      (s.doWorkBlock now orc (.ingest o i) m [] ph tot).2.2 = .timeout ((bodyWait D : Nat) : Time) ∧
      ∃ rec0 dur, s.task? (.ingest o i) = some rec0 ∧
        (s.doWorkBlock now orc (.ingest o i) m [] ph tot).1.tasks
          = (s.updTask (.ingest o i) (dwStartF now dur)).tasks) ∨
    (2 ≤ ph ∧ (s.doWorkBlock now orc (.ingest o i) m [] ph tot).2.1 = .doWork (.ingest o i) m [] 3 tot ∧
      (s.doWorkBlock now orc (.ingest o i) m [] ph tot).2.2 = .done ∧
      (s.doWorkBlock now orc (.ingest o i) m [] ph tot).1.tasks
        = (s.updTask (.ingest o i) (dwEndF now tot)).tasks) := by
  obtain ⟨d0, d2⟩ := il_doWorkBlock_ingest s now orc htot o i m ph tot D hR
  have hsh := doWorkBlock_shape2 s now orc (.ingest o i) m [] ph tot
  generalize hRr : s.doWorkBlock now orc (.ingest o i) m [] ph tot = R at hsh d0 d2 ⊢
  cases hsh with
  | raised ph' e _ => exact Or.inl ⟨e, rfl⟩
  | wait w =>
    exfalso
    rcases hph with h0 | h2
    · rcases d0 h0 with ⟨e, he⟩ | ⟨dk, _⟩
      · cases he
      · simp only at dk
        injection dk with _ _ _ e4 _
        omega
    · have := d2 h2; cases this
  | start r mm dur hr hmm hd =>
    rcases hph with h0 | h2
    · rcases d0 h0 with ⟨e, he⟩ | ⟨dk, dy⟩
      · cases he
      · exact Or.inr (Or.inl ⟨h0, dk, dy, r, dur, hr, rfl⟩)
    · have := d2 h2; cases this
  | finish h2 => exact Or.inr (Or.inr ⟨h2, rfl, rfl, rfl⟩)

/-- what the block of a task body does to the task table -/
theorem ot_doWork_tasks (s : Sys) (now : Time) (orc : Oracle) (t : Tid) (m : Mid) (preds : List Tid)
    (ph tot : Nat) :
    (s.doWorkBlock now orc t m preds ph tot).1.tasks = s.tasks ∨
    ∃ F : TaskRec → TaskRec, (∀ r, (F r).id = r.id) ∧
      (s.doWorkBlock now orc t m preds ph tot).1.tasks = (s.updTask t F).tasks := by
  have hsh := doWorkBlock_shape2 s now orc t m preds ph tot
  generalize s.doWorkBlock now orc t m preds ph tot = R at hsh ⊢
  cases hsh with
  | raised ph' e _ => exact Or.inl rfl
  | wait w => exact Or.inl rfl
  | start r mm dur hr hmm hd => exact Or.inr ⟨dwStartF now dur, fun _ => rfl, rfl⟩
  | finish h2 => exact Or.inr ⟨dwEndF now tot, fun r => (dwEndF_spec now tot r).1, rfl⟩

/-! ### the invariant -/

structure OtBody (s : Sys) : Prop where
  /-- the body of an ingest task that has ended had started -/
  deadPh : ∀ r ∈ s.procs, ∀ o i m c ph tot, r.k = .doWork (.ingest o i) m c ph tot → r.alive = false → 2 ≤ ph
  /-- a body that has started: due (or ended) at `ast + duration - 1`; its task's record carries the
  observation's recorded start -/
  started : ∀ r ∈ s.procs, ∀ o i m c ph tot, r.k = .doWork (.ingest o i) m c ph tot → 2 ≤ ph →
    ∃ ob a rec, s.obs? o = some ob ∧ ob.ast = some a ∧
      r.wake = ((a + (ob.duration - 1) : Nat) : Time) ∧
      s.task? (.ingest o i) = some rec ∧ rec.ast = some ((a : Nat) : Time)
  /-- the recorded start of an ingest task is the recorded start of its observation -/
  recAst : ∀ o i rec x, s.task? (.ingest o i) = some rec → rec.ast = some x →
    ∃ ob a, s.obs? o = some ob ∧ ob.ast = some a ∧ x = ((a : Nat) : Time)
  /-- F13: a body that has ended stamped the finish of its task: the time of its last block + 1 -/
  ended : ∀ r ∈ s.procs, ∀ o i m c ph tot, r.k = .doWork (.ingest o i) m c ph tot → r.alive = false →
    ∃ rec, s.task? (.ingest o i) = some rec ∧ rec.aft = some (r.wake + 1)

theorem otBody_start (s0 : Sys) (hw : WFConfig s0) : OtBody s0.start := by
  have hp := start_procs s0 hw
  have ht : s0.start.tasks = [] := by
    obtain ⟨_, _, htasks, _⟩ := hw.fresh
    simp [start, spawn, htasks]
  constructor
  · intro r hr o i m c ph tot hk
    rw [hp] at hr
    simp only [List.mem_cons, List.not_mem_nil, or_false] at hr
    rcases hr with rfl | rfl | rfl | rfl | rfl <;> simp at hk
  · intro r hr o i m c ph tot hk
    rw [hp] at hr
    simp only [List.mem_cons, List.not_mem_nil, or_false] at hr
    rcases hr with rfl | rfl | rfl | rfl | rfl <;> simp at hk
  · intro o i rec x hrec
    unfold task? at hrec
    rw [ht] at hrec
    simp at hrec
  · intro r hr o i m c ph tot hk
    rw [hp] at hr
    simp only [List.mem_cons, List.not_mem_nil, or_false] at hr
    rcases hr with rfl | rfl | rfl | rfl | rfl <;> simp at hk

theorem otBody_step {s : Sys} (hs : SInv s) (hti : ILTI s) (hA : OtAst s) (h : OtBody s) {pid : Nat}
    {p : Proc} (hp : s.proc? pid = some p) (ha : p.alive = true)
    (hmin : ∀ q ∈ s.procs, q.alive = true → p.wake ≤ q.wake) (orc : Oracle) (htot : orc.total = none)
    (hnr : ∀ e, (s.block p orc).2.2 ≠ .raised e) : OtBody (s.resume pid orc).1 := by
  obtain ⟨hpm, hpid⟩ := proc?_some hp
  obtain ⟨new, hm, hnew, hnewp⟩ := ot_step_table hs hp ha hmin orc
  have hcore := resume_core s pid orc p hp ha
  have htasksEq : (s.resume pid orc).1.tasks = (s.block p orc).1.tasks := hcore.tasks
  have htask? : ∀ t, (s.resume pid orc).1.task? t = (s.block p orc).1.task? t := by
    intro t; unfold task?; rw [htasksEq]
  -- what is recorded of an observation stays
  have hobsKeep : ∀ o ob a, s.obs? o = some ob → ob.ast = some a →
      ∃ ob', (s.resume pid orc).1.obs? o = some ob' ∧ ob'.ast = some a ∧ ob'.duration = ob.duration := by
    intro o ob a hob hast
    obtain ⟨ob', h1, h2, h3⟩ := ot_ast_persist hs hti hA hp ha hmin orc hob hast
    exact ⟨ob', h1, h2, (ot_stat_fields h3).2.2.1⟩
  -- the case of a body of an ingest task
  have hbody : ∀ o i m preds ph tot, p.k = .doWork (.ingest o i) m preds ph tot →
      preds = [] ∧ ∃ ob a, s.obs? o = some ob ∧ ob.ast = some a ∧ (ph = 0 → p.wake = ((a : Nat) : Time)) ∧
      ((ph = 0 ∧ (s.block p orc).2.1 = .doWork (.ingest o i) m [] 2 ob.duration ∧
        (s.block p orc).2.2 = .timeout ((bodyWait ob.duration : Nat) : Time) ∧
        ∃ rec0 dur, s.task? (.ingest o i) = some rec0 ∧
          (s.block p orc).1.tasks = (s.updTask (.ingest o i) (dwStartF p.wake dur)).tasks) ∨
       (2 ≤ ph ∧ (s.block p orc).2.1 = .doWork (.ingest o i) m [] 3 tot ∧ (s.block p orc).2.2 = .done ∧
        (s.block p orc).1.tasks = (s.updTask (.ingest o i) (dwEndF p.wake tot)).tasks)) := by
    intro o i m preds ph tot hk
    obtain ⟨hpr, hph, ob, a, hob, hast, hw0, hR⟩ := ot_body_start hs hti hpm ha hk
    subst hpr
    refine ⟨rfl, ob, a, hob, hast, hw0, ?_⟩
    have hb : s.block p orc = s.doWorkBlock p.wake orc (.ingest o i) m [] ph tot := block_doWork orc hk
    rcases ot_ingest_body_block s p.wake orc htot o i m ph tot ob.duration hR hph with ⟨e, he⟩ | h1 | h2
    · exact absurd (by rw [hb]; exact he) (hnr e)
    · rw [hb]; exact Or.inl h1
    · rw [hb]; exact Or.inr h2
  -- the record of an ingest task whose body is not the process that ran keeps its start stamp
  have hrecKeep : ∀ o i rec0, s.task? (.ingest o i) = some rec0 →
      (∀ m preds ph tot, p.k ≠ .doWork (.ingest o i) m preds ph tot) →
      ∃ rec, (s.resume pid orc).1.task? (.ingest o i) = some rec ∧ rec.ast = rec0.ast ∧ rec.aft = rec0.aft := by
    intro o i rec0 hrec0 hne
    rw [htask?]
    by_cases htag : p.k.tag = "doWork"
    · cases hpk : p.k <;> rw [hpk] at htag <;> simp [PK.tag] at htag
      rename_i t0 m0 preds0 ph0 tot0
      have ht0 : t0 ≠ .ingest o i := by
        intro e; subst e; exact hne m0 preds0 ph0 tot0 hpk
      rw [block_doWork orc hpk]
      rcases ot_doWork_tasks s p.wake orc t0 m0 preds0 ph0 tot0 with e | ⟨F, hF, e⟩
      · refine ⟨rec0, ?_, rfl, rfl⟩
        unfold task? at hrec0 ⊢
        rw [e]; exact hrec0
      · refine ⟨rec0, ?_, rfl, rfl⟩
        have h1 := task?_updTask_ne s F hF (fun e => ht0 e.symm)
        unfold task? at hrec0 h1 ⊢
        rw [e, h1]; exact hrec0
    · obtain ⟨rec, hrec, hsp⟩ := (block_spanStep s hs.pw p orc htag).fwd _ rec0 hrec0
      exact ⟨rec, hrec, hsp.ast, hsp.aft⟩
  constructor
  · -- deadPh
    intro r hr o i m c ph tot hk hra
    rcases (hm r).mp hr with rfl | ⟨hr0, _⟩ | hrn
    · simp only [fin_k] at hk
      -- the process that ran is a task body
      have htag := block_tag s hs.pw p orc
      rw [hk] at htag
      cases hpk : p.k <;> rw [hpk] at htag <;> simp [PK.tag] at htag
      rename_i t0 m0 preds0 ph0 tot0
      obtain ⟨_, _, _, ph', tot', g4⟩ := il_doWorkBlock_fields s p.wake orc t0 m0 preds0 ph0 tot0
      rw [block_doWork orc hpk, g4] at hk
      injection hk with e1 e2 e3 e4 e5
      subst e1
      obtain ⟨_, ob, a, _, _, _, hor⟩ := hbody o i m0 preds0 ph0 tot0 hpk
      rcases hor with ⟨_, _, hy, _⟩ | ⟨_, hk3, _⟩
      · rw [hy] at hra; simp [ha] at hra
      · rw [block_doWork orc hpk, g4] at hk3
        injection hk3 with _ _ _ e4' _
        omega
    · exact h.deadPh r hr0 o i m c ph tot hk hra
    · rw [(hnewp r hrn).1] at hra; cases hra
  · -- started
    intro r hr o i m c ph tot hk h2
    rcases (hm r).mp hr with rfl | ⟨hr0, hrne⟩ | hrn
    · simp only [fin_k] at hk
      have htag := block_tag s hs.pw p orc
      rw [hk] at htag
      cases hpk : p.k <;> rw [hpk] at htag <;> simp [PK.tag] at htag
      rename_i t0 m0 preds0 ph0 tot0
      obtain ⟨_, _, _, ph', tot', g4⟩ := il_doWorkBlock_fields s p.wake orc t0 m0 preds0 ph0 tot0
      have hk' := hk
      rw [block_doWork orc hpk, g4] at hk'
      injection hk' with e1 e2 e3 e4 e5
      subst e1
      obtain ⟨_, ob, a, hob, hast, hw0, hor⟩ := hbody o i m0 preds0 ph0 tot0 hpk
      obtain ⟨ob', hob', hast', hdur'⟩ := hobsKeep o ob a hob hast
      have hD := hti.durPos ob (obs_mem_of_obs? hob).1
      rcases hor with ⟨h0, _, hy, rec0, dur, hrec0, htk⟩ | ⟨h2', _, hy, htk⟩
      · refine ⟨ob', a, dwStartF p.wake dur rec0, hob', hast', ?_, ?_, ?_⟩
        · rw [hy, fin_timeout, hdur']
          show p.wake + _ = _
          rw [hw0 h0]
          exact il_cast_bodyWait a ob.duration hD
        · rw [htask?]
          have := task?_updTask_eq s (dwStartF p.wake dur) (fun _ => rfl) hrec0
          unfold task? at this ⊢
          rw [htk]; exact this
        · show some p.wake = _
          rw [hw0 h0]
      · obtain ⟨ob2, a2, rec0, hob2, hast2, hwk, hrec0, hra⟩ := h.started p hpm o i m0 preds0 ph0 tot0 hpk h2'
        rw [hob] at hob2; cases hob2
        rw [hast] at hast2; cases hast2
        refine ⟨ob', a, dwEndF p.wake tot0 rec0, hob', hast', ?_, ?_, ?_⟩
        · rw [hy, hdur']; exact hwk
        · rw [htask?]
          have := task?_updTask_eq s (dwEndF p.wake tot0) (fun r => (dwEndF_spec p.wake tot0 r).1) hrec0
          unfold task? at this ⊢
          rw [htk]; exact this
        · rw [(dwEndF_spec p.wake tot0 rec0).2.2.2.1]; exact hra
    · obtain ⟨ob, a, rec0, hob, hast, hwk, hrec0, hra⟩ := h.started r hr0 o i m c ph tot hk h2
      obtain ⟨ob', hob', hast', hdur'⟩ := hobsKeep o ob a hob hast
      obtain ⟨rec, hrec, hrast, _⟩ := hrecKeep o i rec0 hrec0 (by
        intro m' preds' ph' tot' hpk
        exact hrne (hs.dg.dwUniq r hr0 p hpm _ _ _ _ _ _ _ _ _ hk hpk))
      exact ⟨ob', a, rec, hob', hast', by rw [hdur']; exact hwk, hrec, by rw [hrast]; exact hra⟩
    · have hnk := (hnewp r hrn).2.2.2
      rw [hk] at hnk
      cases hpk : p.k <;> rw [hpk] at hnk <;> simp [NewKind] at hnk
      omega
  · -- recAst
    intro o i rec x hrec hx
    have hold : (∃ rec0, s.task? (.ingest o i) = some rec0 ∧ rec0.ast = some x) →
        ∃ ob a, (s.resume pid orc).1.obs? o = some ob ∧ ob.ast = some a ∧ x = ((a : Nat) : Time) := by
      rintro ⟨rec0, hrec0, hx0⟩
      obtain ⟨ob, a, hob, hast, hxa⟩ := h.recAst o i rec0 x hrec0 hx0
      obtain ⟨ob', hob', hast', _⟩ := hobsKeep o ob a hob hast
      exact ⟨ob', a, hob', hast', hxa⟩
    have hrec' : (s.block p orc).1.task? (.ingest o i) = some rec := by rw [← htask?]; exact hrec
    by_cases hself : ∃ m preds ph tot, p.k = .doWork (.ingest o i) m preds ph tot
    · obtain ⟨m0, preds0, ph0, tot0, hpk⟩ := hself
      obtain ⟨_, ob, a, hob, hast, hw0, hor⟩ := hbody o i m0 preds0 ph0 tot0 hpk
      obtain ⟨ob', hob', hast', _⟩ := hobsKeep o ob a hob hast
      rcases hor with ⟨h0, _, _, rec0, dur, hrec0, htk⟩ | ⟨_, _, _, htk⟩
      · -- the start block stamps the time of the block
        have h1 := task?_updTask_eq s (dwStartF p.wake dur) (fun _ => rfl) hrec0
        have h2 : (s.block p orc).1.task? (.ingest o i) = some (dwStartF p.wake dur rec0) := by
          unfold task? at h1 ⊢
          rw [htk]; exact h1
        rw [hrec'] at h2; cases h2
        simp only [dwStartF] at hx
        cases hx
        exact ⟨ob', a, hob', hast', hw0 h0⟩
      · cases h0r : s.task? (.ingest o i) with
        | none =>
          have h1 := task?_updTask s (.ingest o i) (.ingest o i) (dwEndF p.wake tot0)
            (fun r => (dwEndF_spec p.wake tot0 r).1)
          rw [h0r] at h1
          have h2 : (s.block p orc).1.task? (.ingest o i) = none := by
            unfold task? at h1 ⊢
            rw [htk]; simpa using h1
          rw [hrec'] at h2; cases h2
        | some rec0 =>
          have h1 := task?_updTask_eq s (dwEndF p.wake tot0) (fun r => (dwEndF_spec p.wake tot0 r).1) h0r
          have h2 : (s.block p orc).1.task? (.ingest o i) = some (dwEndF p.wake tot0 rec0) := by
            unfold task? at h1 ⊢
            rw [htk]; exact h1
          rw [hrec'] at h2; cases h2
          rw [(dwEndF_spec p.wake tot0 rec0).2.2.2.1] at hx
          exact hold ⟨rec0, h0r, hx⟩
    · have hne : ∀ m preds ph tot, p.k ≠ .doWork (.ingest o i) m preds ph tot :=
        fun m preds ph tot e => hself ⟨m, preds, ph, tot, e⟩
      cases h0r : s.task? (.ingest o i) with
      | none =>
        -- a new record is fresh; the body of another task creates none
        by_cases htag : p.k.tag = "doWork"
        · cases hpk : p.k <;> rw [hpk] at htag <;> simp [PK.tag] at htag
          rename_i t0 m0 preds0 ph0 tot0
          have ht0 : t0 ≠ .ingest o i := by
            intro e; subst e; exact hne m0 preds0 ph0 tot0 hpk
          rw [block_doWork orc hpk] at hrec'
          rcases ot_doWork_tasks s p.wake orc t0 m0 preds0 ph0 tot0 with e | ⟨F, hF, e⟩
          · have : s.task? (.ingest o i) = some rec := by
              unfold task? at hrec' ⊢
              rw [← e]; exact hrec'
            rw [h0r] at this; cases this
          · have h1 := task?_updTask_ne s F hF (fun e => ht0 e.symm)
            have : s.task? (.ingest o i) = some rec := by
              unfold task? at hrec' h1 ⊢
              rw [← h1, ← e]; exact hrec'
            rw [h0r] at this; cases this
        · have hfr := (block_spanStep s hs.pw p orc htag).fresh _ rec h0r hrec'
          rw [hfr.ast] at hx; cases hx
      | some rec0 =>
        obtain ⟨rec', hrec'', hra, _⟩ := hrecKeep o i rec0 h0r hne
        rw [hrec] at hrec''; cases hrec''
        exact hold ⟨rec0, h0r, by rw [← hra]; exact hx⟩
  · -- ended (F13)
    intro r hr o i m c ph tot hk hra
    rcases (hm r).mp hr with rfl | ⟨hr0, hrne⟩ | hrn
    · simp only [fin_k] at hk
      have htag := block_tag s hs.pw p orc
      rw [hk] at htag
      cases hpk : p.k <;> rw [hpk] at htag <;> simp [PK.tag] at htag
      rename_i t0 m0 preds0 ph0 tot0
      obtain ⟨_, _, _, ph', tot', g4⟩ := il_doWorkBlock_fields s p.wake orc t0 m0 preds0 ph0 tot0
      have hk' := hk
      rw [block_doWork orc hpk, g4] at hk'
      injection hk' with e1 e2 e3 e4 e5
      subst e1
      obtain ⟨_, ob, a, hob, hast, hw0, hor⟩ := hbody o i m0 preds0 ph0 tot0 hpk
      rcases hor with ⟨_, _, hy, _⟩ | ⟨h2', _, hy, htk⟩
      · rw [hy] at hra; simp [ha] at hra
      · obtain ⟨_, _, rec0, _, _, _, hrec0, _⟩ := h.started p hpm o i m0 preds0 ph0 tot0 hpk h2'
        refine ⟨dwEndF p.wake tot0 rec0, ?_, ?_⟩
        · rw [htask?]
          have := task?_updTask_eq s (dwEndF p.wake tot0) (fun r => (dwEndF_spec p.wake tot0 r).1) hrec0
          unfold task? at this ⊢
          rw [htk]; exact this
        · rw [(dwEndF_spec p.wake tot0 rec0).2.2.2.2.2, hy]; rfl
    · obtain ⟨rec0, hrec0, haft0⟩ := h.ended r hr0 o i m c ph tot hk hra
      obtain ⟨rec, hrec, _, hraft⟩ := hrecKeep o i rec0 hrec0 (by
        intro m' preds' ph' tot' hpk
        exact hrne (hs.dg.dwUniq r hr0 p hpm _ _ _ _ _ _ _ _ _ hk hpk))
      exact ⟨rec, hrec, by rw [hraft]; exact haft0⟩
    · rw [(hnewp r hrn).1] at hra; cases hra

end Sys

/-- `OtBody` holds in every state of every run of the simulator in which no exception has been
raised so far -/
theorem sim_otBody (env : SimEnv) (s0 : Sys) (hw : WFConfig s0) (k : SimState) (h : SimReach env s0 k) :
    k.st.crashed = none → OtBody k.st := by
  refine SimReach.sys_induct hw (fun s => s.crashed = none → OtBody s) (fun _ => otBody_start s0 hw)
    (fun s hs hc => ?_) (fun s hs hc => ?_) ?_ k h
  · have := hs hc; exact ⟨this.deadPh, this.started, this.recAst, this.ended⟩
  · have := hs hc; exact ⟨this.deadPh, this.started, this.recAst, this.ended⟩
  · intro k hr ih pid p hp ha hen hc
    have hinv := hr.l3inv hw
    obtain ⟨p', hp', _, hmin⟩ := hen
    rw [hp] at hp'; cases hp'
    obtain ⟨hc0, hnr⟩ := ot_resume_crashed k.st pid (env.oracle k.st) p hp ha hc
    exact otBody_step hinv.sinv hinv.ti (sim_otAst env s0 hw k hr) (ih hc0) hp ha hmin _
      (il_oracle_total env k.st) hnr

end Topsim
