/-
  LiveP6c — the declarations of Live6c.lean that depend on the configuration structures, restated for
  the plan-following configurations (`LivePCfg`, `NcPCfg`, `L7PLib`); the proofs are those of Live6c.lean.
-/
import TopsimProofs.LiveP6b

namespace Topsim

open KState Sys

namespace Sys

end Sys

section

variable {env : SimEnv} {s0 : Sys}

theorem live_alg_P (C : LivePCfg env s0) (K : LiveKernel env s0) (n : Nat) :
    (simAt env s0 n).st.alg ≠ .oracle := by
  rw [reach_alg (live_reachOk_P C K n).toReach]
  exact C.alg.noOracle

theorem live_fi_P (C : LivePCfg env s0) (K : LiveKernel env s0) (n : Nat) : FI (simAt env s0 n).st :=
  reach_finv s0 _ C.hw (live_reachOk_P C K n) (C.nr n)

/-- once the body of task `t` has ended, the recorded finish time of `t` does not change -/
theorem live_aft_stable_P (C : LivePCfg env s0) (K : LiveKernel env s0) {n1 : Nat} {d : Proc}
    {t : Tid} {m' : Mid} {preds' : List Tid} {ph tot : Nat}
    (hd : (simAt env s0 n1).st.proc? d.pid = some d) (hdk : d.k = .doWork t m' preds' ph tot)
    (hda : d.alive = false) {r1 : TaskRec} (hr1 : (simAt env s0 n1).st.task? t = some r1) :
    ∀ j, n1 ≤ j → ∃ r, (simAt env s0 j).st.task? t = some r ∧ r.aft = r1.aft := by
  intro j
  induction j with
  | zero =>
    intro h
    have : n1 = 0 := by omega
    subst this
    exact ⟨r1, hr1, rfl⟩
  | succ j ih =>
    intro h
    by_cases e : n1 = j + 1
    · subst e; exact ⟨r1, hr1, rfl⟩
    · obtain ⟨r, hr, haft⟩ := ih (by omega)
      obtain ⟨e, p, hpk, hpp, ha, _, hnr, hst⟩ := live_blk_P C K j
      have hsinv := live_sinv_P C K j
      have hdj := live_dead_same_P C K (show n1 ≤ j by omega) hd hda
      have htask : (simAt env s0 (j + 1)).st.task? t =
          ((simAt env s0 j).st.block p (env.oracle (simAt env s0 j).st)).1.task? t := by
        rw [hst]; rfl
      rw [htask]
      by_cases h2 : p.k.tag = "allocTask"
      · cases hk : p.k with
        | allocTask t' m2 preds2 obs2 ing2 ret2 =>
          rw [block_allocTask _ hk]
          obtain ⟨r', hr', haft'⟩ := allocTaskBlock_aft _ hsinv.pw p.wake t' m2 preds2 obs2 ing2 ret2 hr
          exact ⟨r', hr', haft'.trans haft⟩
        | _ => rw [hk] at h2; simp [PK.tag] at h2
      · by_cases h3 : p.k.tag = "doWork"
        · cases hk : p.k with
          | doWork t' m2 preds2 ph2 tot2 =>
            rw [block_doWork _ hk]
            have hne : t ≠ t' := by
              intro ett
              subst ett
              have hpid := hsinv.dg.dwUniq p (proc?_some hpp).1 d (proc?_some hdj).1 _ _ _ _ _ _ _ _ _ hk hdk
              have : p = d := hsinv.pw.eq_of_pid (proc?_some hpp).1 (proc?_some hdj).1 hpid
              rw [this, hda] at ha
              cases ha
            rw [doWorkBlock_other _ _ _ _ _ _ _ _ hne]
            exact ⟨r, hr, haft⟩
          | _ => rw [hk] at h3; simp [PK.tag] at h3
        · obtain ⟨hT, _⟩ := block_taskStep (simAt env s0 j).st p (env.oracle (simAt env s0 j).st)
            (live_alg_P C K j) h2 h3
          obtain ⟨r', hr', hkeep⟩ := hT.fwd t r hr
          exact ⟨r', hr', hkeep.aft.trans haft⟩

/-- an allocation process that has begun keeps its kind (and the process it waits for) -/
theorem live_allocTask_kind_P (C : LivePCfg env s0) (K : LiveKernel env s0) {n pid : Nat} {a : Proc}
    (hp : (simAt env s0 n).st.proc? pid = some a) {t m preds obs ing ret}
    (hk : a.k = .allocTask t m preds obs ing ret) (hpc : 1 ≤ a.pc) :
    ∀ j, n ≤ j → ∃ a', (simAt env s0 j).st.proc? pid = some a' ∧
      a'.k = .allocTask t m preds obs ing ret ∧ 1 ≤ a'.pc := by
  intro j
  induction j with
  | zero =>
    intro h
    have : n = 0 := by omega
    subst this
    exact ⟨a, hp, hk, hpc⟩
  | succ j ih =>
    intro h
    by_cases e : n = j + 1
    · subst e; exact ⟨a, hp, hk, hpc⟩
    · obtain ⟨a', hp', hk', hpc'⟩ := ih (by omega)
      obtain ⟨e, p, hpk, hpp, ha, _, hnr, hst⟩ := live_blk_P C K j
      by_cases hne : pid = e.pid
      · subst hne
        rw [hp'] at hpp; cases hpp
        have hself := live_blk_self_P C K hpk hp'
        refine ⟨_, hself, ?_, by rw [fin_pc]; omega⟩
        rw [fin_k, block_allocTask _ hk']
        have hsinv := live_sinv_P C K j
        obtain ⟨U, hU⟩ := hsinv.ci
        have hrun : t ∈ (simAt env s0 j).st.cl.running := by
          have he := hU.runOn a' (proc?_some hp').1 ha _ _ _ _ _ _ hk' hpc'
          rw [← hU.inv.runOnTasks]
          exact List.mem_map_of_mem (f := (·.task)) he
        rcases allocTaskBlock_cases (simAt env s0 j).st hsinv.pw a'.wake t m preds obs ing ret with
          ⟨hn, _⟩ | ⟨hn, _⟩ | ⟨_, _, heq⟩ | ⟨_, _, e, _, heq⟩ | ⟨_, _, _, heq⟩
        · exact absurd hrun hn
        · exact absurd hrun hn
        · rw [heq]
        · rw [heq]
        · rw [heq]
      · exact ⟨a', live_blk_other_P C K hpk hp' hne, hk', hpc'⟩

/-- the decisive poll: the body has ended, the clock has passed the recorded finish -/
theorem live_allocTask_poll_P (C : LivePCfg env s0) (K : LiveKernel env s0) {n pid : Nat} {a : Proc}
    (hp : (simAt env s0 n).st.proc? pid = some a) (ha : a.alive = true) {t m preds obs ing ret}
    (hk : a.k = .allocTask t m preds obs ing ret) (hpc : 1 ≤ a.pc)
    {d : Proc} {m' : Mid} {preds' : List Tid} {ph tot : Nat}
    (hd : (simAt env s0 n).st.proc? ret = some d) (hdk : d.k = .doWork t m' preds' ph tot)
    (hda : d.alive = false) {r1 : TaskRec} (hr1 : (simAt env s0 n).st.task? t = some r1)
    {T : Nat} (hT : ∀ f, r1.aft = some f → f ≤ ((T : Nat) : Time))
    (hheap : ∀ x ∈ (simAt env s0 n).heap, ((T : Nat) : Time) ≤ x.time) :
    ∃ n', n ≤ n' ∧ ∃ p', (simAt env s0 n').st.proc? pid = some p' ∧ p'.alive = false := by
  have hdpid : d.pid = ret := proc?_pid _ _ _ hd
  obtain ⟨n', hle, hpp, ⟨e, hpk, _, het⟩, _, hnr, _, hself⟩ := live_next_blk_P C K hp ha
  refine ⟨n' + 1, by omega, _, hself, ?_⟩
  have hwake : ((T : Nat) : Time) ≤ a.wake := by
    rw [← het]
    exact K.minMono n n' _ hle hheap e (peek_spec _ e hpk).1
  have hsinv := live_sinv_P C K n'
  obtain ⟨U, hU⟩ := hsinv.ci
  have hrun : t ∈ (simAt env s0 n').st.cl.running := by
    have he := hU.runOn a (proc?_some hpp).1 ha _ _ _ _ _ _ hk hpc
    rw [← hU.inv.runOnTasks]
    exact List.mem_map_of_mem (f := (·.task)) he
  have hd' : (simAt env s0 n).st.proc? d.pid = some d := by rw [hdpid]; exact hd
  have hdn' := live_dead_same_P C K hle hd' hda
  obtain ⟨r, hr, haft⟩ := live_aft_stable_P C K hd' hdk hda hr1 n' hle
  have htrig : (simAt env s0 n').st.procTriggered ret = true := by
    unfold procTriggered
    rw [← hdpid, hdn']
    simp [hda]
  have hreach : (simAt env s0 n').st.aftReached a.wake t = true := by
    unfold aftReached
    rw [hr]
    simp only
    cases hf : r.aft with
    | none => rfl
    | some f =>
      simp only [decide_eq_true_eq]
      exact Rat.le_trans (hT f (by rw [← haft, hf])) hwake
  rw [block_allocTask _ hk] at hnr ⊢
  rcases allocTaskBlock_cases' (simAt env s0 n').st hsinv.pw a.wake t m preds obs ing ret with
    ⟨hn, _⟩ | ⟨hn, _⟩ | ⟨_, hf, _⟩ | ⟨_, _, e, _, heq⟩ | ⟨_, _, _, heq⟩
  · exact absurd hrun hn
  · exact absurd hrun hn
  · rw [htrig, hreach] at hf; cases hf
  · rw [heq] at hnr; exact absurd rfl (hnr e)
  · rw [heq]; rfl

/-- an allocation process that has begun ends -/
theorem live_allocTask_ends1_P (C : LivePCfg env s0) (K : LiveKernel env s0) {n pid : Nat} {a : Proc}
    (hp : (simAt env s0 n).st.proc? pid = some a) (_ha : a.alive = true) {t m preds obs ing ret}
    (hk : a.k = .allocTask t m preds obs ing ret) (hpc : 1 ≤ a.pc) :
    ∃ n', n ≤ n' ∧ ∃ p', (simAt env s0 n').st.proc? pid = some p' ∧ p'.alive = false := by
  -- the body it waits for
  obtain ⟨d, hdm, hdpid, m', preds', ph, tot, hdk⟩ :=
    ((live_fi_P C K n).ok a (proc?_some hp).1).atRet _ _ _ _ _ _ hk hpc
  have hd : (simAt env s0 n).st.proc? d.pid = some d := (live_sinv_P C K n).pw.proc?_of_mem hdm
  -- … has ended at some index `n1`
  have hdead : ∃ n1, n ≤ n1 ∧ ∃ d1, (simAt env s0 n1).st.proc? d.pid = some d1 ∧ d1.alive = false ∧
      ∃ ph1 tot1, d1.k = .doWork t m' preds' ph1 tot1 := by
    cases hda : d.alive with
    | false => exact ⟨n, Nat.le_refl _, d, hd, hda, ph, tot, hdk⟩
    | true => exact live_doWork_ends_k_P C K hd hda hdk
  obtain ⟨n1, hle1, d1, hd1, hda1, ph1, tot1, hdk1⟩ := hdead
  have hd1pid : d1.pid = d.pid := proc?_pid _ _ _ hd1
  obtain ⟨a1, hp1, hk1, hpc1⟩ := live_allocTask_kind_P C K hp hk hpc n1 hle1
  -- the record of the task
  obtain ⟨U, hU⟩ := (live_sinv_P C K n1).ci
  obtain ⟨r1, hr1, _⟩ := hU.hasRec a1 (proc?_some hp1).1 _ _ _ _ _ _ hk1
  have hr1' : (simAt env s0 n1).st.task? t = some r1 := hr1
  -- the clock passes the recorded finish
  obtain ⟨T, hT⟩ := exists_nat_ge (r1.aft.getD 0)
  obtain ⟨n2, hle2, hheap⟩ := K.div n1 T
  obtain ⟨a2, hp2, hk2, hpc2⟩ := live_allocTask_kind_P C K hp hk hpc n2 (by omega)
  cases ha2 : a2.alive with
  | false => exact ⟨n2, by omega, a2, hp2, ha2⟩
  | true =>
    have hd1' : (simAt env s0 n1).st.proc? d1.pid = some d1 := by rw [hd1pid]; exact hd1
    have hd2 := live_dead_same_P C K hle2 hd1' hda1
    obtain ⟨r2, hr2, haft2⟩ := live_aft_stable_P C K hd1' hdk1 hda1 hr1' n2 hle2
    have hd2' : (simAt env s0 n2).st.proc? ret = some d1 := by
      rw [← hdpid, ← hd1pid]; exact hd2
    obtain ⟨n', hle', r⟩ := live_allocTask_poll_P C K hp2 ha2 hk2 hpc2 hd2' hdk1 hda1 hr2
      (T := T) (by
        intro f hf
        rw [haft2] at hf
        rw [hf] at hT
        exact hT) hheap
    exact ⟨n', by omega, r⟩

/-- **P3.** an allocation process ends -/
theorem live_allocTask_ends_P (C : LivePCfg env s0) (K : LiveKernel env s0) {n pid : Nat} {p : Proc}
    (hp : (simAt env s0 n).st.proc? pid = some p) (ha : p.alive = true) {t m preds obs ing ret}
    (hk : p.k = .allocTask t m preds obs ing ret) :
    ∃ n', n ≤ n' ∧ ∃ p', (simAt env s0 n').st.proc? pid = some p' ∧ p'.alive = false := by
  by_cases hpc : 1 ≤ p.pc
  · exact live_allocTask_ends1_P C K hp ha hk hpc
  · -- the first block
    obtain ⟨n', hle, _, _, _, hnr, _, hself⟩ := live_next_blk_P C K hp ha
    have hsinv := live_sinv_P C K n'
    have hkind : ∃ ret', ((simAt env s0 n').st.block p (env.oracle (simAt env s0 n').st)).2.1 =
        .allocTask t m preds obs ing ret' := by
      rw [block_allocTask _ hk]
      rcases allocTaskBlock_cases (simAt env s0 n').st hsinv.pw p.wake t m preds obs ing ret with
        ⟨_, e, _, heq⟩ | ⟨_, _, heq⟩ | ⟨_, _, heq⟩ | ⟨_, _, e, _, heq⟩ | ⟨_, _, _, heq⟩ <;> rw [heq] <;>
        exact ⟨_, rfl⟩
    obtain ⟨ret', hk'⟩ := hkind
    cases hal : (fin ((simAt env s0 n').st.block p (env.oracle (simAt env s0 n').st)).2.1
        ((simAt env s0 n').st.block p (env.oracle (simAt env s0 n').st)).2.2 p.wake p).alive with
    | false => exact ⟨n' + 1, by omega, _, hself, hal⟩
    | true =>
      obtain ⟨n'', hle', r⟩ := live_allocTask_ends1_P C K hself hal (by rw [fin_k]; exact hk')
        (by rw [fin_pc]; omega)
      exact ⟨n'', by omega, r⟩

end

end Topsim

