/-
  LiveB8g — BatchProcessing: the declarations of Live8g that depend on the configuration hypotheses,
  for `LiveCfgB` / `NcCfgB` (`s0.alg = .batch …`).  Generated from Live8g.lean by renaming (suffix `_B`);
  the algorithm-dependent ones are rewritten (see the comments).
-/
import TopsimProofs.Live8g
import TopsimProofs.LiveB5
import TopsimProofs.LiveB8
import TopsimProofs.LiveB8b
import TopsimProofs.LiveB8c
import TopsimProofs.LiveB8d
import TopsimProofs.LiveB8e
import TopsimProofs.LiveB8f

namespace Topsim
open KState Sys
namespace Sys
end Sys
section
variable {env : SimEnv} {s0 : Sys}

theorem l8_hsz0_B (C : LiveCfgB env s0) : s0.buf.size = [] ∧ s0.buf.hot.cur ≤ s0.buf.hot.total ∧
    s0.buf.cold.cur ≤ s0.buf.cold.total :=
  ⟨C.hfull.1, by rw [C.hfull.2.1]; exact Int.le_refl _, by rw [C.hfull.2.2]; exact Int.le_refl _⟩

theorem l8_si_B (C : LiveCfgB env s0) (K : LiveKernel env s0) (n : Nat) : SI (simAt env s0 n).st :=
  (reachOk_sh2 s0 _ C.hw (l8_bufList_B C) (l8_hsz0_B C) (l8_rate_B C) (l8_reachOk_B C K n) (C.nr n)).1

theorem l8_sp_B (C : LiveCfgB env s0) (K : LiveKernel env s0) (n : Nat) : SP (simAt env s0 n).st :=
  reachOk_sp s0 _ C.hw (l8_bufList_B C) (l8_hsz0_B C) (l8_rate_B C) (l8_reachOk_B C K n) (C.nr n)

theorem live_ds_B (C : LiveCfgB env s0) (K : LiveKernel env s0) (n : Nat) : Sys.l8DS (simAt env s0 n).st := by
  induction n with
  | zero => exact Sys.l8_ds_start s0 C.hw
  | succ n ih =>
    obtain ⟨e, p, _, hpp, _, _, hen, hnr, hst⟩ := l8_step_B C K n
    rw [hst]
    refine Sys.l8_ds_step (l8_sinv_B C K n) (l8_bufi_B C K n) (l8_si_B C K n) (l8_sp_B C K n) (live_noTier_B C K n).1
      ih hen _ ?_
    intro p' hp' err
    rw [hpp] at hp'; cases hp'
    exact hnr err

/-- **J3.**  A FINISHED observation whose ingest stream is no longer alive is stored, or has been
handed to the scheduler. -/
theorem live_finished_stored_B (C : LiveCfgB env s0) (K : LiveKernel env s0) (n : Nat) {ob : Obs}
    (hob : ob ∈ (simAt env s0 n).st.obs) (hfin : ob.status = .finished)
    (hns : ∀ q ∈ (simAt env s0 n).st.procs, q.alive = true → ∀ tl, q.k ≠ .ingestStream ob.id tl) :
    ob.id ∈ (simAt env s0 n).st.buf.hot.stored ∨ Sys.PQ ob.id (simAt env s0 n).st := by
  obtain ⟨q, hq, tl, hqk, _⟩ := (l8_si_B C K n).fs ob hob hfin
  have hqd : q.alive = false := by
    cases hqa : q.alive with
    | false => rfl
    | true => exact absurd hqk (hns q hq hqa tl)
  rcases live_ds_B C K n q hq hqd ob.id tl hqk with h | h | h
  · exact Or.inl h
  · exact Or.inr (Or.inl h)
  · exact Or.inr (Or.inr h)
end
end Topsim
