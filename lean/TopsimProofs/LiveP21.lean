/-
  LiveP21 — the end of a run of a plan-following algorithm that never raises, in full: from some
  index on no worker process is alive, every observation is FINISHED and has been removed from the
  hot buffer (its plan is empty: every task of its workflow has a FINISHED record), and the
  scheduler's queue is empty.  The argument is that of `live_terminates_P` (LiveP13), whose three
  contradictions (an observation never admitted / never handed over / never removed) do not use the
  assumption that the run is never at `is_finished()`.
-/
import TopsimProofs.LiveP20

namespace Topsim

open KState Sys

section
variable {env : SimEnv} {s0 : Sys}

/-- **Everything is processed to the end.** -/
theorem live_all_done_P (C : LivePCfg env s0) (K : LiveKernel env s0) (Pt : LiveParts env s0) :
    ∃ N, (∀ n, N ≤ n → (simAt env s0 n).st.NoWorker) ∧
      (∀ ob ∈ (simAt env s0 N).st.obs, ob.status = .finished ∧ ob.id ∈ (simAt env s0 N).st.buf.hot.finished) ∧
      (simAt env s0 N).st.queue = [] := by
  obtain ⟨N, hs, hq⟩ := live_quiescent_P C K Pt
  -- every admitted observation is FINISHED
  have hfin : ∀ n, N ≤ n → ∀ ob ∈ (simAt env s0 n).st.obs, ob.ast ≠ none → ob.status = .finished := by
    intro n hn ob hob hast
    obtain ⟨hob?, hid⟩ := live_obs?_mem_P C K n hob
    cases ha : ob.ast with
    | none => exact absurd ha hast
    | some a =>
      obtain ⟨n', hle, ob', hob', hf'⟩ := Pt.obs_finishes hob? ha
      have h1 : Sys.PFin ob.id (simAt env s0 n').st := ⟨ob', hob', hf'⟩
      have h2 : Sys.PFin ob.id (simAt env s0 n).st :=
        ((hs.fin ob.id hid).eq (by omega : N ≤ n') hn).mp h1
      obtain ⟨ob2, hob2, hf2⟩ := h2
      rw [hob?] at hob2
      cases hob2
      exact hf2
  have hnotA : ¬ ∃ ob ∈ (simAt env s0 N).st.obs, ob.ast = none := by
    intro hA
    -- (A) some observation has not been admitted: the telescope admits one
    obtain ⟨obA, hobA, hastA⟩ := hA
    obtain ⟨hobA?, hidA⟩ := live_obs?_mem_P C K N hobA
    have hnA : ¬ Sys.PAst obA.id (simAt env s0 N).st := by
      rintro ⟨ob2, a, h2, h3⟩
      rw [hobA?] at h2
      cases h2
      rw [hastA] at h3
      cases h3
    -- at every later index it still has no recorded start
    have hun : ∀ n, N ≤ n → ∃ ob, ob ∈ (simAt env s0 n).st.obs ∧ ob.ast = none ∧ ob.status = .waiting := by
      intro n hn
      obtain ⟨ob, hob, hid, hob?⟩ := live_obs_rec_P C K n hidA
      have hnone : ob.ast = none := by
        cases ha : ob.ast with
        | none => rfl
        | some a =>
          exact absurd (((hs.ast obA.id hidA).eq hn (Nat.le_refl N)).mp ⟨ob, a, hob?, ha⟩) hnA
      exact ⟨ob, hob, hnone, (sim_otAst env s0 C.hw _ (K.reach n)).wait obA.id ob hob? hnone⟩
    obtain ⟨E, hE⟩ := list_est_bound s0.obs
    obtain ⟨n4, hle4, hheap4⟩ := K.div N E
    obtain ⟨ob4, hob4, _, hw4⟩ := hun n4 hle4
    obtain ⟨q, hqm, hqk, hqa⟩ := Pt.tel_alive n4 ⟨ob4, hob4, by rw [hw4]; simp⟩
    have hq? := (live_sinv_P C K n4).pw.proc?_of_mem hqm
    obtain ⟨n5, e, hle5, hpk, hepid, hetime, hpp, _⟩ := K.next n4 q.pid q hq? hqa
    have hN5 : N ≤ n5 := by omega
    have hge : ((E : Nat) : Time) ≤ q.wake := by
      rw [← hetime]
      exact K.minMono n4 n5 _ hle5 hheap4 e (peek_spec _ e hpk).1
    rw [← hepid] at hpp
    obtain ⟨ob5, hob5, hast5, _⟩ := hun n5 hN5
    have hdue : ∀ ob ∈ (simAt env s0 n5).st.obs, ob.ast = none → ((ob.est : Nat) : Time) ≤ q.wake := by
      intro ob hob _
      have hm : ob.stat ∈ s0.obs.map Obs.stat := by
        rw [← live_keep0_P C n5]; exact List.mem_map_of_mem hob
      obtain ⟨o0, ho0, hst⟩ := List.mem_map.mp hm
      have hest : ob.est = o0.est := ((Sys.ot_stat_fields hst).2.1).symm
      have hle : ob.est ≤ E := by rw [hest]; exact hE o0 ho0
      have : ((ob.est : Nat) : Time) ≤ ((E : Nat) : Time) := by exact_mod_cast hle
      exact Rat.le_trans this hge
    obtain ⟨o', ob0, ob1, a, h0, h0n, h1, h1a⟩ :=
      Pt.admits n5 hpk hpp hqa hqk (hq n5 hN5) (hfin n5 hN5) ⟨ob5, hob5, hast5⟩ hdue
    have hid' := live_obs?_ids_P C n5 h0
    have hflip : Sys.PAst o' (simAt env s0 (n5 + 1)).st := ⟨ob1, a, h1, h1a⟩
    have hbefore : ¬ Sys.PAst o' (simAt env s0 n5).st := by
      rintro ⟨ob2, a2, h2, h3⟩
      rw [h0] at h2
      cases h2
      rw [h0n] at h3
      cases h3
    exact hbefore (((hs.ast o' hid').eq hN5 (by omega : N ≤ n5 + 1)).mpr hflip)
  have hA := hnotA
  have hall : ∀ n, N ≤ n → ∀ ob ∈ (simAt env s0 n).st.obs, ob.status = .finished := by
    intro n hn ob hob
    obtain ⟨hob?, hid⟩ := live_obs?_mem_P C K n hob
    apply hfin n hn ob hob
    obtain ⟨obN, hobN, _, hobN?⟩ := live_obs_rec_P C K N hid
    have hastN : obN.ast ≠ none := fun h => hA ⟨obN, hobN, h⟩
    cases haN : obN.ast with
    | none => exact absurd haN hastN
    | some a =>
      obtain ⟨ob2, a2, h2, h3⟩ := ((hs.ast ob.id hid).eq hn (Nat.le_refl N)).mpr ⟨obN, a, hobN?, haN⟩
      rw [hob?] at h2
      cases h2
      rw [h3]; simp
  have hnotB1 : ¬ ∃ ob ∈ (simAt env s0 N).st.obs, ¬ Sys.PQ ob.id (simAt env s0 N).st := by
    intro hB1
    -- (B1) some observation has not been handed to the scheduler
    obtain ⟨obB, hobB, hnq⟩ := hB1
    obtain ⟨_, hidB⟩ := live_obs?_mem_P C K N hobB
    obtain ⟨q, hq?, hqk, hqa⟩ := Pt.sched_alive N
    obtain ⟨n5, e, hle5, hpk, hepid, _, hpp, _⟩ := K.next N 3 q hq? hqa
    rw [← hepid] at hpp
    obtain ⟨ob5, hob5, hid5, _⟩ := live_obs_rec_P C K n5 hidB
    have hnq5 : ¬ Sys.PQ ob5.id (simAt env s0 n5).st := by
      rw [hid5]
      exact fun h => hnq (((hs.q obB.id hidB).eq hle5 (Nat.le_refl N)).mp h)
    have hstored : ob5.id ∈ (simAt env s0 n5).st.buf.hot.stored := by
      rcases Pt.finished_stored n5 hob5 (hall n5 hle5 ob5 hob5) (fun q' hq' hqa' tl hk' =>
        (hq n5 hle5 q' hq' hqa').2.2.1 (by rw [hk']; rfl)) with h | h
      · exact h
      · exact absurd h hnq5
    obtain ⟨o', ho', h1, h2⟩ := Pt.schedLoop_pops n5 hpk hpp hqa hqk (List.ne_nil_of_mem hstored)
    have hid' := live_buf_ids_P C K n5 (Or.inl ho')
    exact h1 (((hs.q o' hid').eq hle5 (by omega : N ≤ n5 + 1)).mpr h2)
  have hB1 := hnotB1
  have hnotB2 : ¬ ∃ ob ∈ (simAt env s0 N).st.obs, ¬ Sys.PRm ob.id (simAt env s0 N).st := by
    intro hB2
    -- (B2) some observation has not been removed: its `allocate_tasks` process makes progress
    obtain ⟨obB, hobB, hnr⟩ := hB2
    obtain ⟨_, hidB⟩ := live_obs?_mem_P C K N hobB
    have hpq : Sys.PQ obB.id (simAt env s0 N).st := by
      cases Classical.em (Sys.PQ obB.id (simAt env s0 N).st) with
      | inl h => exact h
      | inr h => exact absurd ⟨obB, hobB, h⟩ hB1
    have hsch : obB.id ∈ (simAt env s0 N).st.buf.hot.scheduled := by
      rcases hpq with h | h
      · exact h
      · exact absurd h hnr
    obtain ⟨q, hqm, hqa, sc, pa, po, hqk⟩ := Pt.sched_has_proc N hsch
    have hq? := (live_sinv_P C K N).pw.proc?_of_mem hqm
    obtain ⟨n5, e, hle5, hpk, hepid, _, hpp, _⟩ := K.next N q.pid q hq? hqa
    rw [← hepid] at hpp
    have hnr5 : obB.id ∉ (simAt env s0 n5).st.buf.hot.finished :=
      fun h => hnr (((hs.rm obB.id hidB).eq hle5 (Nat.le_refl N)).mp h)
    obtain ⟨f1, f2, _, f4, _⟩ := Pt.free n5 (hq n5 hle5) (hfin n5 hle5)
    have hav : (simAt env s0 n5).st.cl.available ≠ [] := by
      intro h
      rw [h] at f4
      have := C.feas.2.2.1
      simp at f4
      omega
    have hq' : ∀ q' ∈ (simAt env s0 n5).st.procs, q'.alive = true →
        q'.k.tag ≠ "allocTask" ∧ q'.k.tag ≠ "doWork" :=
      fun q' hq1 hq2 => ⟨(hq n5 hle5 q' hq1 hq2).2.2.2.1, (hq n5 hle5 q' hq1 hq2).2.2.2.2⟩
    rcases Pt.ats_progress n5 hpk hpp hqa hqk hnr5 hav ⟨f1, f2⟩ hq' with h | ⟨ob, hob, hid, node, hnode, h1, h2⟩
    · exact hnr5 (((hs.rm obB.id hidB).eq hle5 (by omega : N ≤ n5 + 1)).mpr h)
    · have hpr := mem_livePairs hob hnode
      rw [hid] at hpr
      exact h1 (((hs.atn (obB.id, node) hpr).eq hle5 (by omega : N ≤ n5 + 1)).mpr h2)
  have hB2 := hnotB2
  have hrm : ∀ ob ∈ (simAt env s0 N).st.obs, ob.id ∈ (simAt env s0 N).st.buf.hot.finished := by
    intro ob hob
    cases Classical.em (Sys.PRm ob.id (simAt env s0 N).st) with
    | inl h => exact h
    | inr h => exact absurd ⟨ob, hob, h⟩ hB2
  have hqueue : (simAt env s0 N).st.queue = [] := by
    cases hqe : (simAt env s0 N).st.queue with
    | nil => rfl
    | cons o rest =>
      exfalso
      have hoq : o ∈ (simAt env s0 N).st.queue := by rw [hqe]; simp
      have hsch := Pt.queue_sched N hoq
      have hid := live_buf_ids_P C K N (Or.inr (Or.inl hsch))
      obtain ⟨ob, hob, hido, _⟩ := live_obs_rec_P C K N hid
      have hf := hrm ob hob
      rw [hido] at hf
      have hcnt := (live_bufi_P C K N).cnt o
      unfold locCount bufList at hcnt
      have c1 : 0 < (simAt env s0 N).st.buf.hot.scheduled.count o := List.count_pos_iff.mpr hsch
      have c2 : 0 < (simAt env s0 N).st.buf.hot.finished.count o := List.count_pos_iff.mpr hf
      simp only [List.count_append] at hcnt
      omega
  exact ⟨N, hq, fun ob hob => ⟨hall N (Nat.le_refl N) ob hob, hrm ob hob⟩, hqueue⟩

/-- **No task is starved**: in a run that never raises there is an index at which every node of the
workflow of every observation has a record that is FINISHED (and the observation has been removed
from the hot buffer, no worker process is alive, the queue is empty). -/
theorem live_every_task_finished_P (C : LivePCfg env s0) (hh0 : s0.halted = false) :
    ∃ N, (simAt env s0 N).st.NoWorker ∧ (simAt env s0 N).st.queue = [] ∧
      ∀ ob ∈ s0.obs, ob.id ∈ (simAt env s0 N).st.buf.hot.finished ∧
        ∀ node ∈ ob.wf.topo, ∃ c r, (simAt env s0 N).st.task? (Tid.wf ob.id c node) = some r ∧
          r.status = .finished := by
  have K := liveKernel_P C hh0
  obtain ⟨N, hq, hall, hqueue⟩ := live_all_done_P C K (liveParts_P C K)
  refine ⟨N, hq N (Nat.le_refl N), hqueue, ?_⟩
  intro ob0 hob0
  have L := l7_lib_P C K N
  have PI := live_planI_P C K N
  obtain ⟨ob, hob, hid, _⟩ := live_obs_rec_P C K N (List.mem_map_of_mem hob0 : ob0.id ∈ s0.obs.map (·.id))
  have hrm : ob0.id ∈ (simAt env s0 N).st.buf.hot.finished := by rw [← hid]; exact (hall ob hob).2
  refine ⟨hrm, ?_⟩
  intro node hnode
  obtain ⟨hsome, hempty⟩ := L.wi.fz ob0.id hrm
  obtain ⟨pl, hpl⟩ := Option.isSome_iff_exists.mp hsome
  obtain ⟨hplm, hplo⟩ := plan?_mem hpl
  obtain ⟨o', ho', c, g1, _, _, g5⟩ := PI pl hplm
  -- `o'` is `ob0`: the observation ids of the configuration are pairwise different
  have heq : o' = ob0 :=
    eq_of_map_nodup (f := fun o : Obs => o.id) C.hw.obsNodup ho' hob0 (g1.symm.trans hplo)
  subst heq
  obtain ⟨r, hr, hrid⟩ := g5 node hnode
  obtain ⟨r', hr'⟩ := Sys.l7_task?_of_mem (s := (simAt env s0 N).st) ⟨r, hr, hrid⟩
  refine ⟨c, r', hr', ?_⟩
  have hr'm : r' ∈ (simAt env s0 N).st.tasks := List.mem_of_find?_eq_some hr'
  have hr'id : r'.id = Tid.wf o'.id c node := task?_id hr'
  by_cases hf : r'.status = .finished
  · exact hf
  · exfalso
    have := L.wi.pc r' hr'm o'.id c node hr'id hf
    rw [hempty] at this
    simp at this

end

end Topsim
