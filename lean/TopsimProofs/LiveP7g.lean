/-
  LiveP7g — progress of `allocate_tasks` with a plan-following algorithm and static plans, at block
  level (the counterpart of Live7g): in a quiet state (no allocation process, no task body, no
  machine occupied or ingesting, a machine available) a block of the live `allocate_tasks` process of
  an observation that has not been removed removes it or creates an allocation process
  (`l7_progress_P`); and a process created by a block of `allocate_tasks` is the allocation process of
  a node of the workflow whose record leaves UNSCHEDULED in that block (`l7_spawn_flips_P`).

  With static plans the task list of a plan is in the order of the plan's rows, not in topological
  order: the ready task is the one whose node comes first in the topological list among the tasks of
  the pruned plan (`l7_ready_P`); it is in the pool (dynamic), its predecessors are reported finished,
  and in a quiet state its planned machine is in the available pool.
-/
import TopsimProofs.LiveP7e

namespace Topsim

open Sys

/-- the first element of a filtered list: it satisfies the test, and nothing before it does -/
theorem filter_head_min_P {α} [DecidableEq α] (p : α → Bool) :
    ∀ (l : List α) (a : α) (r : List α), l.filter p = a :: r →
      p a = true ∧ a ∈ l ∧ ∀ x, l.idxOf x < l.idxOf a → p x = false := by
  intro l
  induction l with
  | nil => intro a r h; simp at h
  | cons y l ih =>
    intro a r h
    by_cases hy : p y = true
    · rw [List.filter_cons_of_pos hy] at h
      injection h with h1 _
      subst h1
      refine ⟨hy, List.mem_cons_self, ?_⟩
      intro x hx
      simp at hx
    · have hy' : p y = false := by simpa using hy
      rw [List.filter_cons_of_neg hy] at h
      obtain ⟨h1, h2, h3⟩ := ih a r h
      have hne : y ≠ a := fun e => by rw [e] at hy'; rw [hy'] at h1; cases h1
      refine ⟨h1, List.mem_cons_of_mem _ h2, ?_⟩
      intro x hx
      by_cases e : y = x
      · rw [← e]; exact hy'
      · rw [idxOf_cons_ne _ e, idxOf_cons_ne _ hne] at hx
        exact h3 x (by omega)

namespace Sys

/-! ### a ready task of the pruned plan -/

/-- in a state without allocation process, the pruned plan of `o`, if it is not empty, has a task
that is UNSCHEDULED and whose predecessors all have a FINISHED record and are reported finished -/
theorem l7_ready_P {s0 s : Sys} (L : L7PLib s0 s) (A : L7A s) (PI : PlanI s0 s)
    (htopo : ∀ ob ∈ s0.obs, IsTopo ob.wf)
    (hq : ∀ q ∈ s.procs, q.alive = true → q.k.tag ≠ "allocTask" ∧ q.k.tag ≠ "doWork")
    {o : Oid} {pl0 pl1 : Plan} (hpl0m : pl0 ∈ s.plans) (hpl0 : s.plan? o = some pl0) (hobs0 : pl0.obs = o)
    (e1 : pl1.edges = pl0.edges) (e3 : ∀ t, t ∈ pl1.tasks ↔ t ∈ pl0.tasks ∧ tstat s t ≠ .finished)
    (hne : pl1.tasks ≠ []) :
    ∃ T ∈ pl1.tasks, tstat s T = .unscheduled ∧ ∀ u ∈ pl1.preds T, tstat s u = .finished ∧ FinT s u := by
  obtain ⟨ob, hob, c0, g1, g2, g3, g5⟩ := PI pl0 hpl0m
  have hoid : ob.id = o := g1.symm.trans hobs0
  have hwf : ∀ t ∈ pl0.tasks, IsWf t := fun t ht => by
    obtain ⟨n, _, e⟩ := g3 t ht
    exact ⟨_, _, _, e⟩
  -- the nodes of the pruned plan, in topological order
  obtain ⟨t1, ht1⟩ := List.exists_mem_of_ne_nil _ hne
  obtain ⟨n1, hn1, et1⟩ := g3 t1 ((e3 t1).mp ht1).1
  have hfne : ob.wf.topo.filter (fun n => decide (Tid.wf ob.id c0 n ∈ pl1.tasks)) ≠ [] := by
    intro e
    have : n1 ∈ ob.wf.topo.filter (fun n => decide (Tid.wf ob.id c0 n ∈ pl1.tasks)) := by
      rw [List.mem_filter]
      exact ⟨hn1, by rw [← et1]; simpa using ht1⟩
    rw [e] at this
    simp at this
  cases hfl : ob.wf.topo.filter (fun n => decide (Tid.wf ob.id c0 n ∈ pl1.tasks)) with
  | nil => exact absurd hfl hfne
  | cons n0 rest =>
    obtain ⟨hp0, hn0, hmin⟩ := filter_head_min_P _ _ _ _ hfl
    have hT1 : Tid.wf ob.id c0 n0 ∈ pl1.tasks := by simpa using hp0
    obtain ⟨hT0, hTnf⟩ := (e3 _).mp hT1
    refine ⟨Tid.wf ob.id c0 n0, hT1, ?_, ?_⟩
    · -- the status
      cases hst : tstat s (Tid.wf ob.id c0 n0) with
      | unscheduled => rfl
      | finished => exact absurd hst hTnf
      | scheduled =>
        exfalso
        obtain ⟨q, hq1, hqa, m, preds, obs, ing, ret, hqk⟩ := A.run _ (hwf _ hT0) (Or.inl hst)
        exact (hq q hq1 hqa).1 (by rw [hqk]; rfl)
      | running =>
        exfalso
        obtain ⟨q, hq1, hqa, m, preds, obs, ing, ret, hqk⟩ := A.run _ (hwf _ hT0) (Or.inr hst)
        exact (hq q hq1 hqa).1 (by rw [hqk]; rfl)
    · intro u hu
      rw [l7_preds_congr e1] at hu
      have he := planPreds_mem hu
      rw [g2] at he
      obtain ⟨e0, he0, ee⟩ := List.mem_map.mp he
      injection ee with eu eT
      have eT' : e0.2.1 = n0 := tid_wf_inj _ _ _ _ eT
      have hfw := (htopo ob hob).forward e0 he0
      rw [eT'] at hfw
      -- `u` is not in the pruned plan: its node comes before `n0`
      have hnot : u ∉ pl1.tasks := by
        intro hu1
        have := hmin e0.1 hfw
        rw [← eu] at hu1
        simp [hu1] at this
      -- `u` has a record
      have hmem : e0.1 ∈ ob.wf.topo := by
        apply List.idxOf_lt_length_iff.mp
        have := List.idxOf_le_length (a := n0) (l := ob.wf.topo)
        omega
      obtain ⟨ru, hru⟩ := l7_task?_of_mem (s := s) (t := u) (by
        obtain ⟨r, hr, hid⟩ := g5 e0.1 hmem
        exact ⟨r, hr, hid.trans eu⟩)
      have hwu : IsWf u := ⟨_, _, _, eu.symm⟩
      have hfin : tstat s u = .finished := by
        by_cases hfe : tstat s u = .finished
        · exact hfe
        exfalso
        have hne' : tstat s u ≠ .finished := hfe
        apply hnot
        refine (e3 u).mpr ⟨?_, hne'⟩
        have hst : ru.status ≠ .finished := by
          rw [tstat_eq, hru] at hne'; exact hne'
        have := L.wi.pc ru (List.mem_of_find?_eq_some hru) o c0 e0.1
          (by rw [task?_id hru, ← eu, hoid]) hst
        unfold planTasks at this
        rw [hpl0, task?_id hru] at this
        exact this
      exact ⟨hfin, A.fin u hwu hfin⟩

/-! ### progress -/

attribute [local irreducible] atS3 atStart Sys.updateCurrentPlan processCurrentSchedule in
/-- **Progress of one block of `allocate_tasks` in a quiet state** (plan-following algorithm). -/
theorem l7_progress_P {s0 s s' : Sys} {p : Proc} {orc : Oracle} (L : L7PLib s0 s) (A : L7A s)
    (P : s.alg = .dynamic → L7Pool s) (PI : PlanI s0 s) (hw0 : WFConfig s0) (halg0 : PlanAlg s0.alg)
    (htopo : ∀ ob ∈ s0.obs, IsTopo ob.wf) (h : L7Step s s' p orc)
    {o : Oid} {sc pa : List (Tid × Mid)} {po : List Tid} (hk : p.k = .allocTasks o sc pa po false)
    (hav : s.cl.available ≠ []) (hocc : s.cl.occupied = [] ∧ s.cl.ingest = [])
    (hq : ∀ q ∈ s.procs, q.alive = true → q.k.tag ≠ "allocTask" ∧ q.k.tag ≠ "doWork") :
    o ∈ s'.buf.hot.finished ∨ ∃ q ∈ (s.block p orc).1.procs, q.pid = s.nextPid := by
  have hpm := h.mem
  have hsched : o ∈ s.buf.hot.scheduled := L.ati.sched p hpm h.ha o sc pa po hk
  obtain ⟨pl0, hpl0m, hobs0⟩ := L.ati.plan p hpm o sc pa po false hk
  have hpl0 : s.plan? o = some pl0 := by rw [← hobs0]; exact l7_plan?_of_mem L.wi.pn hpl0m
  obtain ⟨pl1, hpl1, e1, _, e3, hsub⟩ := l7_s1_plan s p.wake p.pc o hpl0
  have hts1 : ∀ t, tstat ((atStart s p.wake p.pc o).updateCurrentPlan o) t = tstat s t := fun t =>
    (updateCurrentPlan_tstat _ o t).trans (atStart_tstat s p.wake p.pc o t)
  have halg1e : ((atStart s p.wake p.pc o).updateCurrentPlan o).alg = s.alg := by
    rw [updateCurrentPlan_alg, atStart_alg]
  have halg1 : PlanAlg ((atStart s p.wake p.pc o).updateCurrentPlan o).alg := by
    rw [halg1e]; exact L.alg
  have hcl1 : ((atStart s p.wake p.pc o).updateCurrentPlan o).cl = s.cl :=
    (updateCurrentPlan_core _ o).cl.trans (atStart_cl s p.wake p.pc o)
  have hb1 : ((atStart s p.wake p.pc o).updateCurrentPlan o).buf = s.buf :=
    (updateCurrentPlan_buf _ o).trans (atStart_buf s p.wake p.pc o)
  have hnp1 : ((atStart s p.wake p.pc o).updateCurrentPlan o).nextPid = s.nextPid :=
    (updateCurrentPlan_core _ o).nextPid.trans (l7_atStart_nextPid s p.wake p.pc o)
  have hm1 : ((atStart s p.wake p.pc o).updateCurrentPlan o).machines = s.machines :=
    (updateCurrentPlan_machs _ o).trans (atStart_machs _ _ _ _)
  have hQ01 : QuietB s ((atStart s p.wake p.pc o).updateCurrentPlan o) :=
    (quietB_atStart s p.wake p.pc o).trans (quietB_updateCurrentPlan _ o)
  -- every machine of the configuration is in the available pool
  have hfree : ∀ m, (s.machine? m).isSome = true → m ∈ s.cl.available := by
    intro m hm
    apply avail_of_free hw0 halg0.noBatch L.ok.toReach _ hm
    unfold Cluster.isOccupied
    rw [hocc.1, hocc.2]
    simp
  -- a non-empty pruned plan gives a non-empty schedule
  have key : ∀ out, ((atStart s p.wake p.pc o).updateCurrentPlan o).runAlgorithm orc pl1 sc po = .ok out →
      pl1.tasks ≠ [] → out.schedule ≠ [] := by
    intro out hrun hne
    by_cases hsc : sc = []
    · obtain ⟨T, hT1, hTu, hpreds⟩ := l7_ready_P L A PI htopo hq hpl0m hpl0 hobs0 e1 e3 hne
      have hT0 : T ∈ pl0.tasks := ((e3 T).mp hT1).1
      have hu1 : (((atStart s p.wake p.pc o).updateCurrentPlan o).taskView T).status = .unscheduled := by
        show tstat ((atStart s p.wake p.pc o).updateCurrentPlan o) T = _
        rw [hts1]; exact hTu
      have hav1 : ((atStart s p.wake p.pc o).updateCurrentPlan o).cl.available ≠ [] := by rw [hcl1]; exact hav
      have hrun' := hrun
      unfold runAlgorithm at hrun'
      rcases L.alg with hd | hg
      · -- DynamicSchedulingFromPlan
        rw [halg1e, hd] at hrun'
        have hseed : T ∈ Alg.seedPool pl1 po := by
          have fromP : ((∃ u ∈ pl0.preds T, tstat s u ≠ .unscheduled ∨ u ∈ dictKeys sc) ∨
              (pl0.preds T = [] ∧ po ≠ [])) → T ∈ Alg.seedPool pl1 po := by
            intro hc
            rcases P hd p hpm h.ha o sc pa po hk pl0 hpl0 T hT0 hTu hc with h1 | h1
            · exact l7_mem_seedPool_of_mem pl1 h1
            · rw [hsc] at h1; simp [dictKeys] at h1
          by_cases hr : pl0.preds T = []
          · by_cases hpo : po = []
            · rw [hpo]
              exact l7_mem_seedPool_root pl1 hT1 (by rw [l7_preds_congr e1]; exact hr)
            · exact fromP (Or.inr ⟨hr, hpo⟩)
          · obtain ⟨u, hu⟩ := List.exists_mem_of_ne_nil _ hr
            have hf := (hpreds u (by rw [l7_preds_congr e1]; exact hu)).1
            exact fromP (Or.inl ⟨u, hu, Or.inl (by rw [hf]; simp)⟩)
        refine l7_dynamic_progress_P _ pl1 _ sc po out T hT1 hseed hu1 ?_ ?_ hav1 hrun'
        · unfold Alg.predsFinished
          rw [List.all_eq_true]
          intro u hu
          rw [hcl1]
          exact (finT_iff s u).mp (hpreds u hu).2
        · intro m hm
          rw [hcl1]
          apply hfree
          have := (taskView_machine_ok hm).2
          rw [machine?_congr hm1] at this
          exact this
      · -- GreedySchedulingFromPlan
        rw [halg1e, hg] at hrun'
        refine l7_greedy_progress_P _ pl1 _ sc po out T hT1 hu1 ?_ hav1 hrun'
        rw [List.all_eq_true]
        intro q hqp
        -- the record of `T`, and its predecessor list
        unfold taskView at hqp
        cases hr1 : ((atStart s p.wake p.pc o).updateCurrentPlan o).task? T with
        | none => rw [hr1] at hqp; simp at hqp
        | some r1 =>
          rw [hr1] at hqp
          have hqp' : q ∈ r1.preds := hqp
          obtain ⟨rs, hrs, hrsp⟩ : ∃ rs, s.task? T = some rs ∧ rs.preds = r1.preds := by
            rcases hQ01.task.bwd hr1 with ⟨rs, hrs, hkk⟩ | ⟨h0, _⟩
            · exact ⟨rs, hrs, hkk.shape.preds.symm⟩
            · exfalso
              have := hQ01.newIng T r1 h0 hr1
              obtain ⟨c, n, e⟩ := L.wi.pt pl0 hpl0m T hT0
              rw [e] at this
              simp [Tid.isIngest] at this
          have hedge : (q, T) ∈ pl0.edges := L.st.recEdge pl0 hpl0m T hT0 rs hrs q (by rw [hrsp]; exact hqp')
          have hqpred : q ∈ pl1.preds T := by
            rw [l7_preds_congr e1]
            unfold Plan.preds
            exact List.mem_map.mpr ⟨(q, T), List.mem_filter.mpr ⟨hedge, by simp⟩, rfl⟩
          have hf := (hpreds q hqpred).2
          rw [hcl1]
          unfold FinT at hf
          unfold dictHas
          rw [hf]; rfl
    · obtain ⟨_, _, q1, _⟩ := l7_algRun_P _ orc pl1 sc po out halg1 hrun
      obtain ⟨x, hx⟩ := List.exists_mem_of_ne_nil _ (l7_keys_ne_nil hsc)
      intro e
      have := q1 x hx
      rw [e] at this
      simp at this
  have hnr := h.nr
  rw [block_allocTasks orc hk, allocTasksBlock_eq] at hnr
  rw [h.buf, block_allocTasks orc hk, allocTasksBlock_eq]
  have herr : ∀ plan out, ((atStart s p.wake p.pc o).updateCurrentPlan o).plan? o = some plan →
      ((atStart s p.wake p.pc o).updateCurrentPlan o).runAlgorithm orc plan sc po = .ok out →
      out.schedule.isEmpty = false →
      (processCurrentSchedule (atS3 ((atStart s p.wake p.pc o).updateCurrentPlan o) out o) p.wake o
        out.schedule pa).err = none :=
    fun plan out h1 h2 h3 => l7_iter_alloc_err (atStart s p.wake p.pc o) p.wake orc o sc pa po plan out h1 h2 h3 hnr
  have hout := allocTasksIter_out (atStart s p.wake p.pc o) p.wake orc o sc pa po
  generalize (atStart s p.wake p.pc o).allocTasksIter p.wake orc o sc pa po = r at hout hnr ⊢
  have hb4 : ∀ out, (atS4 (atS3 ((atStart s p.wake p.pc o).updateCurrentPlan o) out o) (natNow p.wake) o).buf = s.buf :=
    fun out => (atS3_buf _ out o).trans hb1
  cases hout with
  | noPlan _ => exact absurd rfl (hnr _)
  | algErr plan e _ _ => exact absurd rfl (hnr _)
  | finishBad plan out _ _ _ _ _ _ => exact absurd rfl (hnr _)
  | finish plan out _ _ _ _ _ _ =>
    left
    show o ∈ ((atS4 (atS3 ((atStart s p.wake p.pc o).updateCurrentPlan o) out o) (natNow p.wake) o).buf.remove o).1.hot.finished
    rw [hb4]
    exact (remove_lists s.buf o).2.2 hsched
  | finishWait plan out _ _ _ _ hrem =>
    exfalso
    rw [hb4] at hrem
    unfold Buffer.remove at hrem
    simp [hsched] at hrem
  | idle plan out hplan hrun hemp hnf =>
    exfalso
    rw [hpl1] at hplan
    injection hplan with hplan
    subst hplan
    have hne : pl1.tasks ≠ [] := by
      intro e
      exact hnf (l7_planRun_status_P _ orc pl1 sc po out halg1 hrun e)
    have := key out hrun hne
    have hnil : out.schedule = [] := by simpa using hemp
    exact this hnil
  | alloc plan out y hplan hrun hemp _ =>
    right
    have hne : out.schedule ≠ [] := by
      intro e; rw [e] at hemp; simp at hemp
    have hocc' : (atS3 ((atStart s p.wake p.pc o).updateCurrentPlan o) out o).cl.occupied = [] ∧
        (atS3 ((atStart s p.wake p.pc o).updateCurrentPlan o) out o).cl.ingest = [] := by
      rw [atS3_cl, l7_planRun_cl_P _ orc plan sc po out halg1 hrun, hcl1]
      exact hocc
    obtain ⟨q, hq1, hpid⟩ := l7_pcs_spawns (atS3 ((atStart s p.wake p.pc o).updateCurrentPlan o) out o) p.wake o
      out.schedule pa hne hocc' (herr plan out hplan hrun hemp)
    rw [atS3_nextPid, hnp1] at hpid
    exact ⟨q, hq1, hpid⟩

/-! ### a created process flips a node -/

/-- `PSch` is kept by every step of the run -/
theorem l7_psch_step_P {s0 s s' : Sys} {p : Proc} {orc : Oracle} (L : L7PLib s0 s) (h : L7Step s s' p orc)
    {o : Oid} {node : Nat} (hp : PSch o node s) : PSch o node s' := by
  obtain ⟨c, r, hr, hst⟩ := hp
  obtain ⟨new, hnewe, _⟩ := block_newp s p orc
  have h0 : tstat s (.wf o c node) ≠ .unscheduled := by rw [tstat_eq, hr]; exact hst
  have h1 : tstat s' (.wf o c node) ≠ .unscheduled := by
    rcases l7_tstat_step_P L h hnewe (t := .wf o c node) ⟨_, _, _, rfl⟩ with e | ⟨_, e⟩ | ⟨e, _⟩
    · rw [e]; exact h0
    · exact e
    · exact absurd e h0
  obtain ⟨r', hr', hst'⟩ := l7_rec_of_ne_unsched h1
  exact ⟨c, r', hr', hst'⟩

/-- **A process created by a block of `allocate_tasks`** is the allocation process of a node of the
workflow of its observation whose record leaves UNSCHEDULED in that block; no allocation process
carried that node before. -/
theorem l7_spawn_flips_P {s0 s s' : Sys} {p : Proc} {orc : Oracle} (L : L7PLib s0 s) (L' : L7PLib s0 s')
    (A' : L7A s') (PI' : PlanI s0 s') (h : L7Step s s' p orc)
    {o : Oid} {sc pa : List (Tid × Mid)} {po : List Tid} {fn : Bool} (hk : p.k = .allocTasks o sc pa po fn)
    {new : List Proc} (hnew : (s.block p orc).1.procs = s.procs ++ new) {q : Proc} (hq : q ∈ new) :
    ∃ ob ∈ s0.obs, ob.id = o ∧ ∃ node ∈ ob.wf.topo, ¬ PSch o node s ∧ PSch o node s' ∧
      (∃ q ∈ s'.procs, ∃ c m preds obs ing ret, q.k = .allocTask (.wf o c node) m preds obs ing ret) ∧
      (∀ q ∈ s.procs, ∀ c m preds obs ing ret, q.k ≠ .allocTask (.wf o c node) m preds obs ing ret) := by
  have hpm := h.mem
  have hs := L.sinv
  obtain ⟨U, hU⟩ := hs.ci
  have hno : s.alg ≠ .oracle := L.alg.noOracle
  have hm := h.memSpec hs hnew
  have hq' : q ∈ s'.procs := (hm q).mpr (Or.inr (Or.inr hq))
  obtain ⟨t, m, cross, hqk, hu0, hu1⟩ := l7_ats_new L.su hno hpm h.ha orc hk hnew q hq
  rw [← h.tstat] at hu1
  -- the task is a workflow task of `o`
  obtain ⟨o3, c, n, eo, et⟩ := L'.px.atObs q hq' t m cross (some o) 0 hqk
  injection eo with eo
  subst eo
  -- its record after the block, in the plan of `o`
  obtain ⟨r, hr, hrs⟩ := l7_rec_of_ne_unsched (s := s') (t := t) (by rw [hu1]; simp)
  have hrst : r.status = .scheduled := by
    have := hu1; rw [tstat_eq, hr] at this; exact this
  have hrm : r ∈ s'.tasks := List.mem_of_find?_eq_some hr
  have hrid : r.id = t := task?_id hr
  have hpt := L'.wi.pc r hrm o c n (hrid.trans et) (by rw [hrst]; simp)
  unfold planTasks at hpt
  cases hpl : s'.plan? o with
  | none => rw [hpl] at hpt; simp at hpt
  | some pl' =>
    rw [hpl, hrid] at hpt
    obtain ⟨hplm, hplo⟩ := plan?_mem hpl
    obtain ⟨ob, hob, c0, g1, _, g3, _⟩ := PI' pl' hplm
    have hoid : ob.id = o := g1.symm.trans hplo
    obtain ⟨node, hnode, enode'⟩ := g3 t hpt
    have enode := enode'.symm
    rw [et, hoid] at enode
    injection enode with _ ec en
    subst ec en
    have hns : ¬ PSch o node s := by
      rintro ⟨c', r', hr', hst'⟩
      -- after the step the record is still there: same clock
      obtain ⟨c2, r2, hr2, _⟩ := l7_psch_step_P L h ⟨c', r', hr', hst'⟩
      have hcc := A'.clk r hrm r2 (List.mem_of_find?_eq_some (show s'.task? _ = some r2 from hr2)) o c0 node c2 node
        (hrid.trans et) (task?_id hr2)
      -- clocks: `c'` of the old record
      have hc' : c' = c0 := by
        -- the record of `wf o c' node` persists with its id; use the clock invariant after the step
        obtain ⟨new0, hnewe0, _⟩ := block_newp s p orc
        have h0 : tstat s (.wf o c' node) ≠ .unscheduled := by rw [tstat_eq, hr']; exact hst'
        have h1 : tstat s' (.wf o c' node) ≠ .unscheduled := by
          rcases l7_tstat_step_P L h hnewe0 (t := .wf o c' node) ⟨_, _, _, rfl⟩ with e | ⟨_, e⟩ | ⟨e, _⟩
          · rw [e]; exact h0
          · exact e
          · exact absurd e h0
        obtain ⟨r3, hr3, _⟩ := l7_rec_of_ne_unsched h1
        exact (A'.clk r hrm r3 (List.mem_of_find?_eq_some hr3) o c0 node c' node (hrid.trans et) (task?_id hr3)).symm
      subst hc'
      rw [et, tstat_eq, hr'] at hu0
      exact hst' hu0
    refine ⟨ob, hob, hoid, node, hnode, hns, ⟨c0, r, by rw [← et]; exact hr, hrs⟩,
      ⟨q, hq', c0, m, cross, some o, false, 0, by rw [← et]; exact hqk⟩, ?_⟩
    intro q0 hq0 c' m' preds' obs' ing' ret' hk0
    obtain ⟨r0, hr0, hst0⟩ := hU.hasRec q0 hq0 _ m' preds' obs' ing' ret' hk0
    exact hns ⟨c', r0, hr0, hst0⟩

end Sys

end Topsim

