/-
  Interval2 — `IvInv` under the two stamping blocks of a task body: the start (the machine of the
  body is held by this task alone, so every other task that started on it has been given up by the
  cluster, hence finished no later than now) and the finish.
-/
import TopsimProofs.Interval1

namespace Topsim
namespace Sys

open Cluster

/-- the polling entry of a live body -/
theorem live_body_entry {s : Sys} (hs : SInv s) {p : Proc} (hp : p ∈ s.procs) (ha : p.alive = true)
    {t m c ph tot} (hk : p.k = .doWork t m c ph tot) :
    t ∈ s.cl.running ∧ ∃ e ∈ s.cl.runOn, e.task = t ∧ e.mach = m := by
  obtain ⟨U, hU⟩ := hs.ci
  obtain ⟨a, ha1, haa, hapc, preds', obs, ing, hak⟩ := hs.dg.dwAlloc p hp ha _ _ _ _ _ hk
  have he := hU.runOn a ha1 haa _ _ _ _ _ _ hak hapc
  refine ⟨?_, _, he, rfl, rfl⟩
  rw [← hU.inv.runOnTasks]; exact List.mem_map_of_mem (f := (·.task)) he

/-- when the body of `t` on `m` is alive, every other task with a body on `m` and a recorded start has
been given up by the cluster and finished no later than the clock -/
theorem other_task_done {s : Sys} (h : IvInv s) (hs : SInv s) {p : Proc} (hp : p ∈ s.procs) (ha : p.alive = true)
    {t m c ph tot} (hk : p.k = .doWork t m c ph tot) {d1 : Proc} (hd1 : d1 ∈ s.procs) {t1 c1 ph1 tot1}
    (hk1 : d1.k = .doWork t1 m c1 ph1 tot1) (hne : t1 ≠ t) {r1 : TaskRec} {a1 : Time}
    (hr1 : s.task? t1 = some r1) (hast : r1.ast = some a1) :
    ∃ f1, r1.aft = some f1 ∧ f1 ≤ p.wake := by
  obtain ⟨U, hU⟩ := hs.ci
  obtain ⟨_, e2, he2, h21, h22⟩ := live_body_entry hs hp ha hk
  have hnr : t1 ∉ s.cl.running := by
    intro hrun
    obtain ⟨e1, he1, h11, h12⟩ := h.hold d1 hd1 t1 m c1 ph1 tot1 hk1 hrun
    have : e1 = e2 := eq_of_map_nodup (Inv.runOn_mach_nodup hU.inv) he1 he2 (by rw [h12, h22])
    subst this
    exact hne (h11.symm.trans h21)
  rcases h.stamp t1 r1 a1 hr1 hast with ⟨d, hd, hda, m', c', tot', hdk⟩ | h2
  · exact absurd (live_body_entry hs hd hda hdk).1 hnr
  · cases hf : r1.aft with
    | none => rw [hf] at h2; cases h2
    | some f1 => exact ⟨f1, rfl, h.rel t1 r1 f1 hr1 hf hnr p hp ha⟩

/-- the block that stamps the start -/
theorem ivInv_start {s s' : Sys} (h : IvInv s) (hs : SInv s) {p p' : Proc} {new : List Proc}
    (hp : p ∈ s.procs) (ha : p.alive = true) {t m c ph tot} (hk : p.k = .doWork t m c ph tot)
    (dur tot' : Nat) (hm : MemSpec s s' p p' new) (hnew : ∀ q, q ∉ new)
    (ht : s'.tasks = (s.updTask t (dwStartF p.wake dur)).tasks) (hcl : s'.cl = s.cl)
    (hnow : ∀ f, Now s f → Now s' f)
    (htel : ∀ q ∈ s'.procs, q.k = .telescope → ∃ n : Nat, q.wake = ((n : Nat) : Time))
    (hk' : p'.k = .doWork t m c 2 tot') (ha' : p'.alive = true) : IvInv s' := by
  obtain ⟨heq, hne, hback, hoth⟩ := spanInv_stamp_frame hs hp hk (dwStartF p.wake dur) (fun _ => rfl) ht
  have hp'm : p' ∈ s'.procs := (hm p').mpr (Or.inl rfl)
  -- bodies of the new table
  have hbody : ∀ d' ∈ s'.procs, ∀ t1 m1 c1 ph1 tot1, d'.k = .doWork t1 m1 c1 ph1 tot1 →
      ∃ d ∈ s.procs, ∃ c0 ph0 tot0, d.k = .doWork t1 m1 c0 ph0 tot0 := by
    intro d' hd' t1 m1 c1 ph1 tot1 hdk
    rcases (hm d').mp hd' with rfl | ⟨h1, _⟩ | h1
    · rw [hk'] at hdk
      injection hdk with e1 e2 _ _ _
      subst e1 e2
      exact ⟨p, hp, c, ph, tot, hk⟩
    · exact ⟨d', h1, c1, ph1, tot1, hdk⟩
    · exact absurd h1 (hnew d')
  -- a body of `t` is on `m`
  have hmach : ∀ d ∈ s.procs, ∀ m1 c1 ph1 tot1, d.k = .doWork t m1 c1 ph1 tot1 → m1 = m := by
    intro d hd m1 c1 ph1 tot1 hdk
    have e := hs.dg.dwUniq d hd p hp t m1 c1 ph1 tot1 m c ph tot hdk hk
    have : d = p := hs.pw.eq_of_pid hd hp e
    subst this
    rw [hk] at hdk
    injection hdk with _ e2 _ _ _
    exact e2.symm
  constructor
  · exact htel
  · intro x r' f hr' hf hnr
    rw [hcl] at hnr
    rcases hback x r' hr' with ⟨rfl, r0, hr0, rfl⟩ | ⟨_, hr0⟩
    · exact hnow f (h.rel x r0 f hr0 hf hnr)
    · exact hnow f (h.rel x r' f hr0 hf hnr)
  · intro d' hd' t1 m1 c1 ph1 tot1 hdk hrun
    obtain ⟨d, hd, c0, ph0, tot0, hk0⟩ := hbody d' hd' t1 m1 c1 ph1 tot1 hdk
    rw [hcl] at hrun ⊢
    exact h.hold d hd t1 m1 c0 ph0 tot0 hk0 hrun
  · intro x r' a hr' hast
    rcases hback x r' hr' with ⟨rfl, r0, hr0, rfl⟩ | ⟨hxt, hr0⟩
    · exact Or.inl ⟨p', hp'm, ha', m, c, tot', hk'⟩
    · rcases h.stamp x r' a hr0 hast with ⟨d, hd, hda, m1, c1, tot1, hdk⟩ | h2
      · left
        have hne' : d.pid ≠ p.pid := by
          intro e
          have : d = p := hs.pw.eq_of_pid hd hp e
          subst this
          rw [hk] at hdk
          injection hdk with e1 _ _ _ _
          exact hxt e1.symm
        exact ⟨d, (hm d).mpr (Or.inr (Or.inl ⟨hd, hne'⟩)), hda, m1, c1, tot1, hdk⟩
      · exact Or.inr h2
  · intro d1' hd1' d2' hd2' t1 t2 m1 c1 c2 ph1 ph2 tot1 tot2 hk1 hk2 hne12 r1' r2' a1 a2 hr1' hr2' ha1 ha2
    obtain ⟨d1, hd1, c10, ph10, tot10, hk10⟩ := hbody d1' hd1' t1 m1 c1 ph1 tot1 hk1
    obtain ⟨d2, hd2, c20, ph20, tot20, hk20⟩ := hbody d2' hd2' t2 m1 c2 ph2 tot2 hk2
    by_cases e1 : t1 = t
    · -- the task that starts now is the first of the pair
      subst e1
      have hm1 : m1 = m := hmach d1 hd1 m1 c10 ph10 tot10 hk10
      subst hm1
      have hne2 : t2 ≠ t1 := fun e => hne12 e.symm
      rw [hne t2 hne2] at hr2'
      obtain ⟨r0, hr0⟩ := dw_hasRec hs hp hk
      rw [heq r0 hr0] at hr1'
      injection hr1' with hr1'
      subst hr1'
      have : a1 = p.wake := by
        have : (dwStartF p.wake dur r0).ast = some p.wake := rfl
        rw [this] at ha1
        injection ha1 with ha1
        exact ha1.symm
      subst this
      exact Or.inr (other_task_done h hs hp ha hk hd2 hk20 hne2 hr2' ha2)
    · rw [hne t1 e1] at hr1'
      by_cases e2 : t2 = t
      · subst e2
        have hm1 : m1 = m := hmach d2 hd2 m1 c20 ph20 tot20 hk20
        subst hm1
        obtain ⟨r0, hr0⟩ := dw_hasRec hs hp hk
        rw [heq r0 hr0] at hr2'
        injection hr2' with hr2'
        subst hr2'
        have : a2 = p.wake := by
          have : (dwStartF p.wake dur r0).ast = some p.wake := rfl
          rw [this] at ha2
          injection ha2 with ha2
          exact ha2.symm
        subst this
        exact Or.inl (other_task_done h hs hp ha hk hd1 hk10 e1 hr1' ha1)
      · rw [hne t2 e2] at hr2'
        exact h.pair d1 hd1 d2 hd2 t1 t2 m1 c10 c20 ph10 ph20 tot10 tot20 hk10 hk20 hne12 r1' r2' a1 a2
          hr1' hr2' ha1 ha2

/-- the block that stamps the finish -/
theorem ivInv_finish {R} {s s' : Sys} (h : IvInv s) (hs : SInv s) (hsp : SpanInv R s) {p p' : Proc}
    {new : List Proc} (hp : p ∈ s.procs) (ha : p.alive = true) {t m c tot}
    (hk : p.k = .doWork t m c 2 tot) (hm : MemSpec s s' p p' new) (hnew : ∀ q, q ∉ new)
    (ht : s'.tasks = (s.updTask t (dwEndF p.wake tot)).tasks) (hcl : s'.cl = s.cl)
    (hnow : ∀ f, Now s f → Now s' f)
    (htel : ∀ q ∈ s'.procs, q.k = .telescope → ∃ n : Nat, q.wake = ((n : Nat) : Time))
    (hk' : p'.k = .doWork t m c 3 tot) : IvInv s' := by
  obtain ⟨heq, hne, hback, hoth⟩ := spanInv_stamp_frame hs hp hk (dwEndF p.wake tot)
    (fun r => (dwEndF_spec p.wake tot r).1) ht
  have hnone : ∀ r0, s.task? t = some r0 → r0.aft = none := by
    intro r0 hr0
    cases haft : r0.aft with
    | none => rfl
    | some f =>
      exfalso
      obtain ⟨d, hd, m1, c1, tot1, hdk⟩ := hsp.stamped t r0 f hr0 haft
      have e := hs.dg.dwUniq d hd p hp t m1 c1 3 tot1 m c 2 tot hdk hk
      have : d = p := hs.pw.eq_of_pid hd hp e
      subst this
      rw [hk] at hdk
      injection hdk with _ _ _ e4 _
      omega
  have hbody : ∀ d' ∈ s'.procs, ∀ t1 m1 c1 ph1 tot1, d'.k = .doWork t1 m1 c1 ph1 tot1 →
      ∃ d ∈ s.procs, ∃ c0 ph0 tot0, d.k = .doWork t1 m1 c0 ph0 tot0 := by
    intro d' hd' t1 m1 c1 ph1 tot1 hdk
    rcases (hm d').mp hd' with rfl | ⟨h1, _⟩ | h1
    · rw [hk'] at hdk
      injection hdk with e1 e2 _ _ _
      subst e1 e2
      exact ⟨p, hp, c, 2, tot, hk⟩
    · exact ⟨d', h1, c1, ph1, tot1, hdk⟩
    · exact absurd h1 (hnew d')
  constructor
  · exact htel
  · intro x r' f hr' hf hnr
    rw [hcl] at hnr
    rcases hback x r' hr' with ⟨rfl, r0, hr0, rfl⟩ | ⟨_, hr0⟩
    · exact absurd (live_body_entry hs hp ha hk).1 hnr
    · exact hnow f (h.rel x r' f hr0 hf hnr)
  · intro d' hd' t1 m1 c1 ph1 tot1 hdk hrun
    obtain ⟨d, hd, c0, ph0, tot0, hk0⟩ := hbody d' hd' t1 m1 c1 ph1 tot1 hdk
    rw [hcl] at hrun ⊢
    exact h.hold d hd t1 m1 c0 ph0 tot0 hk0 hrun
  · intro x r' a hr' hast
    rcases hback x r' hr' with ⟨rfl, r0, hr0, rfl⟩ | ⟨hxt, hr0⟩
    · right; rw [(dwEndF_spec p.wake tot r0).2.2.2.2.2]; rfl
    · rcases h.stamp x r' a hr0 hast with ⟨d, hd, hda, m1, c1, tot1, hdk⟩ | h2
      · left
        have hne' : d.pid ≠ p.pid := by
          intro e
          have : d = p := hs.pw.eq_of_pid hd hp e
          subst this
          rw [hk] at hdk
          injection hdk with e1 _ _ _ _
          exact hxt e1.symm
        exact ⟨d, (hm d).mpr (Or.inr (Or.inl ⟨hd, hne'⟩)), hda, m1, c1, tot1, hdk⟩
      · exact Or.inr h2
  · intro d1' hd1' d2' hd2' t1 t2 m1 c1 c2 ph1 ph2 tot1 tot2 hk1 hk2 hne12 r1' r2' a1 a2 hr1' hr2' ha1 ha2
    obtain ⟨d1, hd1, c10, ph10, tot10, hk10⟩ := hbody d1' hd1' t1 m1 c1 ph1 tot1 hk1
    obtain ⟨d2, hd2, c20, ph20, tot20, hk20⟩ := hbody d2' hd2' t2 m1 c2 ph2 tot2 hk2
    by_cases e1 : t1 = t
    · subst e1
      have hne2 : t2 ≠ t1 := fun e => hne12 e.symm
      rw [hne t2 hne2] at hr2'
      obtain ⟨r0, hr0⟩ := dw_hasRec hs hp hk
      rw [heq r0 hr0] at hr1'
      injection hr1' with hr1'
      subst hr1'
      rw [(dwEndF_spec p.wake tot r0).2.2.2.1] at ha1
      rcases h.pair d1 hd1 d2 hd2 t1 t2 m1 c10 c20 ph10 ph20 tot10 tot20 hk10 hk20 hne12 r0 r2' a1 a2
        hr0 hr2' ha1 ha2 with ⟨f1, hf1, _⟩ | h2
      · rw [hnone r0 hr0] at hf1; cases hf1
      · exact Or.inr h2
    · rw [hne t1 e1] at hr1'
      by_cases e2 : t2 = t
      · subst e2
        obtain ⟨r0, hr0⟩ := dw_hasRec hs hp hk
        rw [heq r0 hr0] at hr2'
        injection hr2' with hr2'
        subst hr2'
        rw [(dwEndF_spec p.wake tot r0).2.2.2.1] at ha2
        rcases h.pair d1 hd1 d2 hd2 t1 t2 m1 c10 c20 ph10 ph20 tot10 tot20 hk10 hk20 hne12 r1' r0 a1 a2
          hr1' hr0 ha1 ha2 with h1 | ⟨f2, hf2, _⟩
        · exact Or.inl h1
        · rw [hnone r0 hr0] at hf2; cases hf2
      · rw [hne t2 e2] at hr2'
        exact h.pair d1 hd1 d2 hd2 t1 t2 m1 c10 c20 ph10 ph20 tot10 tot20 hk10 hk20 hne12 r1' r2' a1 a2
          hr1' hr2' ha1 ha2

end Sys
end Topsim
