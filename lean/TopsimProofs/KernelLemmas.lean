/-
  Lemmas behind TopsimProps/Kernel.lean: the event order is a strict total
  order, `peek` returns the least entry, insertion ids stay fresh, `RunsTo` is
  a deterministic, composable relation computed by `runUntil`, and the
  hand-over (`collate`) commutes with the blocks that can precede the monitor.
-/
import TopsimModel.Sim

namespace Topsim
namespace KState

variable {σ : Type}

/-! ### the event order -/

theorem lt_iff (a b : HEntry) : a.lt b = true ↔
    (a.time < b.time ∨ (a.time = b.time ∧
      (a.prio < b.prio ∨ (a.prio = b.prio ∧ a.eid < b.eid)))) := by
  simp [HEntry.lt]

theorem lt_false_iff (a b : HEntry) : a.lt b = false ↔
    ¬ (a.time < b.time ∨ (a.time = b.time ∧
      (a.prio < b.prio ∨ (a.prio = b.prio ∧ a.eid < b.eid)))) := by
  rw [← lt_iff]; simp

theorem lt_strict_total (a b : HEntry) (h : a.eid ≠ b.eid) :
    (a.lt b = true ∨ b.lt a = true) ∧ ¬ (a.lt b = true ∧ b.lt a = true) := by
  rw [lt_iff, lt_iff]
  grind

theorem lt_irrefl (a : HEntry) : a.lt a = false := by
  rw [lt_false_iff]
  grind

theorem lt_trans' (a b c : HEntry) (hab : a.lt b = true) (hbc : b.lt c = true) :
    a.lt c = true := by
  rw [lt_iff] at *
  grind

/-- negative transitivity: the order is a strict weak order -/
theorem lt_neg_trans (a b c : HEntry) (hab : a.lt b = false) (hbc : b.lt c = false) :
    a.lt c = false := by
  rw [lt_false_iff] at *
  grind

/-! ### `peek` -/

/-- the folding function of `peek` -/
def peekF (acc : Option HEntry) (e : HEntry) : Option HEntry :=
  match acc with
  | none => some e
  | some m => if e.lt m then some e else some m

theorem peek_eq (k : KState σ) : k.peek = k.heap.foldl peekF none := rfl

theorem foldl_peekF_some (l : List HEntry) (m : HEntry) :
    ∃ r, l.foldl peekF (some m) = some r ∧ (r = m ∨ r ∈ l) ∧ m.lt r = false ∧
      ∀ x ∈ l, x.lt r = false := by
  induction l generalizing m with
  | nil => exact ⟨m, rfl, Or.inl rfl, lt_irrefl m, by simp⟩
  | cons x xs ih =>
    simp only [List.foldl_cons, peekF]
    by_cases hx : x.lt m = true
    · simp only [hx, if_true]
      obtain ⟨r, hr, hmem, hxr, hall⟩ := ih x
      refine ⟨r, hr, ?_, ?_, ?_⟩
      · rcases hmem with h | h
        · exact Or.inr (h ▸ List.mem_cons_self)
        · exact Or.inr (List.mem_cons_of_mem _ h)
      · cases hmr : m.lt r with
        | false => rfl
        | true => rw [lt_trans' x m r hx hmr] at hxr; exact absurd hxr (by simp)
      · intro y hy
        rcases List.mem_cons.mp hy with h | h
        · exact h ▸ hxr
        · exact hall y h
    · have hx' : x.lt m = false := by simpa using hx
      simp only [hx', Bool.false_eq_true, if_false]
      obtain ⟨r, hr, hmem, hmr, hall⟩ := ih m
      refine ⟨r, hr, ?_, hmr, ?_⟩
      · rcases hmem with h | h
        · exact Or.inl h
        · exact Or.inr (List.mem_cons_of_mem _ h)
      · intro y hy
        rcases List.mem_cons.mp hy with h | h
        · exact h ▸ lt_neg_trans x m r hx' hmr
        · exact hall y h

theorem foldl_peekF_none (l : List HEntry) (e : HEntry) (h : l.foldl peekF none = some e) :
    e ∈ l ∧ ∀ x ∈ l, x.lt e = false := by
  cases l with
  | nil => simp at h
  | cons x xs =>
    simp only [List.foldl_cons, peekF] at h
    obtain ⟨r, hr, hmem, hxr, hall⟩ := foldl_peekF_some xs x
    rw [hr] at h
    cases h
    refine ⟨?_, ?_⟩
    · rcases hmem with h | h
      · exact h ▸ List.mem_cons_self
      · exact List.mem_cons_of_mem _ h
    · intro y hy
      rcases List.mem_cons.mp hy with h | h
      · exact h ▸ hxr
      · exact hall y h

theorem peek_none_iff (k : KState σ) : k.peek = none ↔ k.heap = [] := by
  rw [peek_eq]
  cases hh : k.heap with
  | nil => simp
  | cons x xs =>
    obtain ⟨r, hr, -⟩ := foldl_peekF_some xs x
    simp only [List.foldl_cons, peekF, hr]
    simp

theorem nodup_map_inj {α β : Type} (f : α → β) (l : List α) (hn : (l.map f).Nodup)
    (a b : α) (ha : a ∈ l) (hb : b ∈ l) (hab : f a = f b) : a = b := by
  induction l with
  | nil => cases ha
  | cons x xs ih =>
    rw [List.map_cons, List.nodup_cons] at hn
    rcases List.mem_cons.mp ha with ha | ha <;> rcases List.mem_cons.mp hb with hb | hb
    · rw [ha, hb]
    · exfalso; apply hn.1; rw [← ha, hab]; exact List.mem_map_of_mem hb
    · exfalso; apply hn.1; rw [← hb, ← hab]; exact List.mem_map_of_mem ha
    · exact ih hn.2 ha hb

theorem peek_least (k : KState σ) (e : HEntry) (h : k.peek = some e)
    (hn : (k.heap.map (·.eid)).Nodup) :
    e ∈ k.heap ∧ ∀ e' ∈ k.heap, e' ≠ e → e.lt e' = true := by
  rw [peek_eq] at h
  obtain ⟨hmem, hall⟩ := foldl_peekF_none k.heap e h
  refine ⟨hmem, ?_⟩
  intro e' he' hne
  have hid : e.eid ≠ e'.eid := fun hid =>
    hne (nodup_map_inj (·.eid) k.heap hn e' e he' hmem hid.symm)
  have := (lt_strict_total e e' hid).1
  rcases this with h1 | h1
  · exact h1
  · rw [hall e' he'] at h1; exact absurd h1 (by simp)

theorem peek_mem (k : KState σ) (e : HEntry) (h : k.peek = some e) : e ∈ k.heap := by
  rw [peek_eq] at h
  exact (foldl_peekF_none k.heap e h).1

/-! ### fresh insertion ids -/

theorem pushInits_eids (ps : List Nat) (heap : List HEntry) (eid : Nat) (now : Time)
    (hn : (heap.map (·.eid)).Nodup) (hlt : ∀ e ∈ heap, e.eid < eid) :
    ((pushInits heap eid now ps).1.map (·.eid)).Nodup ∧
    (∀ e ∈ (pushInits heap eid now ps).1, e.eid < (pushInits heap eid now ps).2) ∧
    eid ≤ (pushInits heap eid now ps).2 := by
  induction ps generalizing heap eid with
  | nil => exact ⟨hn, hlt, Nat.le_refl _⟩
  | cons p ps ih =>
    simp only [pushInits]
    have hn' : ((heap ++ [(⟨now, 0, eid, p⟩ : HEntry)]).map HEntry.eid).Nodup := by
      rw [List.map_append, List.nodup_append]
      refine ⟨hn, by simp, ?_⟩
      intro a ha b hb
      simp only [List.map_cons, List.map_nil, List.mem_singleton] at hb
      obtain ⟨x, hx, rfl⟩ := List.mem_map.mp ha
      have := hlt x hx
      omega
    have hlt' : ∀ e ∈ heap ++ [(⟨now, 0, eid, p⟩ : HEntry)], HEntry.eid e < eid + 1 := by
      intro e he
      rcases List.mem_append.mp he with he | he
      · have := hlt e he; omega
      · simp only [List.mem_singleton] at he; subst he; simp
    obtain ⟨h1, h2, h3⟩ := ih (heap ++ [⟨now, 0, eid, p⟩]) (eid + 1) hn' hlt'
    exact ⟨h1, h2, by omega⟩

theorem step_eq (h : Handler σ) (k : KState σ) (e : HEntry) (hp : k.peek = some e) :
    k.step h = some
      (match (h k.st e.pid e.time).2.2 with
       | some d =>
          { st := (h k.st e.pid e.time).1,
            heap := (pushInits (k.heap.erase e) k.eid e.time (h k.st e.pid e.time).2.1).1 ++
              [⟨e.time + d, 1, (pushInits (k.heap.erase e) k.eid e.time (h k.st e.pid e.time).2.1).2, e.pid⟩],
            eid := (pushInits (k.heap.erase e) k.eid e.time (h k.st e.pid e.time).2.1).2 + 1 }
       | none =>
          { st := (h k.st e.pid e.time).1,
            heap := (pushInits (k.heap.erase e) k.eid e.time (h k.st e.pid e.time).2.1).1,
            eid := (pushInits (k.heap.erase e) k.eid e.time (h k.st e.pid e.time).2.1).2 }) := by
  simp only [step, hp]
  cases (h k.st e.pid e.time).2.2 <;> rfl

theorem step_isSome (h : Handler σ) (k : KState σ) (e : HEntry) (hp : k.peek = some e) :
    ∃ k', k.step h = some k' := ⟨_, step_eq h k e hp⟩

theorem step_eids (h : Handler σ) (k k' : KState σ)
    (hn : (k.heap.map (·.eid)).Nodup) (hlt : ∀ e ∈ k.heap, e.eid < k.eid)
    (hs : k.step h = some k') :
    (k'.heap.map (·.eid)).Nodup ∧ (∀ e ∈ k'.heap, e.eid < k'.eid) ∧ k.eid ≤ k'.eid := by
  cases hp : k.peek with
  | none => simp [step, hp] at hs
  | some e =>
    rw [step_eq h k e hp] at hs
    have hn1 : ((k.heap.erase e).map (·.eid)).Nodup :=
      List.Nodup.sublist (List.Sublist.map _ List.erase_sublist) hn
    have hlt1 : ∀ x ∈ k.heap.erase e, x.eid < k.eid :=
      fun x hx => hlt x (List.mem_of_mem_erase hx)
    obtain ⟨h1, h2, h3⟩ :=
      pushInits_eids (h k.st e.pid e.time).2.1 (k.heap.erase e) k.eid e.time hn1 hlt1
    cases hs
    split
    · refine ⟨?_, ?_, ?_⟩
      · rw [List.map_append, List.nodup_append]
        refine ⟨h1, by simp, ?_⟩
        intro a ha b hb
        simp only [List.map_cons, List.map_nil, List.mem_singleton] at hb
        obtain ⟨x, hx, rfl⟩ := List.mem_map.mp ha
        have := h2 x hx
        omega
      · intro x hx
        rcases List.mem_append.mp hx with hx | hx
        · have := h2 x hx; simp only; omega
        · simp only [List.mem_singleton] at hx; subst hx; simp
      · simp only; omega
    · exact ⟨h1, h2, h3⟩

/-! ### `RunsTo` -/

theorem runsTo_deterministic (h : Handler σ) (u : Time) (k a b : KState σ)
    (ha : RunsTo h u k a) (hb : RunsTo h u k b) : a = b := by
  induction ha generalizing b with
  | idle k hp =>
    cases hb with
    | idle _ _ => rfl
    | stop _ _ _ _ => rfl
    | step _ k1 _ e hp' _ _ _ => rw [hp] at hp'; cases hp'
  | stop k e hp hu =>
    cases hb with
    | idle _ _ => rfl
    | stop _ _ _ _ => rfl
    | step _ k1 _ e' hp' hlt _ _ =>
      rw [hp] at hp'; cases hp'
      exact absurd hlt (by grind)
  | step k k1 k2 e hp hlt hs _ ih =>
    cases hb with
    | idle _ hp' => rw [hp] at hp'; cases hp'
    | stop _ e' hp' hu =>
      rw [hp] at hp'; cases hp'
      exact absurd hlt (by grind)
    | step _ k1' _ e' hp' _ hs' hr' =>
      rw [hs] at hs'; cases hs'
      exact ih b hr'

theorem runsTo_compose (h : Handler σ) (u v : Time) (k k1 k2 : KState σ) (huv : u ≤ v)
    (h1 : RunsTo h u k k1) (h2 : RunsTo h v k1 k2) : RunsTo h v k k2 := by
  induction h1 with
  | idle k hp => exact h2
  | stop k e hp hu => exact h2
  | step k k' k'' e hp hlt hs _ ih =>
    exact RunsTo.step k k' k2 e hp (by grind) hs (ih h2)

theorem runsTo_stops (h : Handler σ) (u : Time) (k k' : KState σ) (hr : RunsTo h u k k') :
    k'.peek = none ∨ ∃ e, k'.peek = some e ∧ u ≤ e.time := by
  induction hr with
  | idle k hp => exact Or.inl hp
  | stop k e hp hu => exact Or.inr ⟨e, hp, hu⟩
  | step k k1 k2 e hp hlt hs _ ih => exact ih

theorem runUntil_sound (h : Handler σ) (u : Time) (fuel : Nat) (k k' : KState σ)
    (hr : runUntil h u fuel k = some k') : RunsTo h u k k' := by
  induction fuel generalizing k with
  | zero => simp [runUntil] at hr
  | succ n ih =>
    simp only [runUntil] at hr
    cases hp : k.peek with
    | none =>
      simp only [hp] at hr
      cases hr
      exact RunsTo.idle _ hp
    | some e =>
      simp only [hp] at hr
      by_cases hlt : e.time < u
      · simp only [hlt, if_true] at hr
        obtain ⟨k1, hs⟩ := step_isSome h k e hp
        simp only [hs] at hr
        exact RunsTo.step k k1 k' e hp hlt hs (ih k1 hr)
      · simp only [hlt, if_false] at hr
        cases hr
        exact RunsTo.stop _ e hp (by grind)

theorem segRuns_collapse (h : Handler σ) (us : List Time) (v : Time) (k k' : KState σ)
    (hsorted : (us ++ [v]).Pairwise (· ≤ ·))
    (hr : SegRuns h (us ++ [v]) k k') : RunsTo h v k k' := by
  induction us generalizing k with
  | nil =>
    cases hr with
    | cons _ _ _ k1 _ h1 h2 =>
      cases h2
      exact h1
  | cons u us ih =>
    rw [List.cons_append] at hsorted hr
    cases hr with
    | cons _ _ _ k1 _ h1 h2 =>
      rw [List.pairwise_cons] at hsorted
      have huv : u ≤ v := hsorted.1 v (by simp)
      exact runsTo_compose h u v k k1 k' huv h1 (ih k1 hsorted.2 h2)

end KState

namespace Sys

/-! ### `collate` -/

theorem collate_collate (s : Sys) : s.collate.collate = s.collate := by
  simp [collate]

theorem mkRow_collate (s : Sys) (n : Nat) : s.collate.mkRow n = s.mkRow n := by
  simp [mkRow, collate, obsDelay]

theorem collate_monitor (s : Sys) (now : Time) :
    s.collate.monitorBlock now = s.monitorBlock now := by
  simp [monitorBlock, collate, mkRow, obsDelay]

@[simp] theorem collate_tasks (s : Sys) : s.collate.tasks = s.tasks := rfl
@[simp] theorem collate_machines (s : Sys) : s.collate.machines = s.machines := rfl
@[simp] theorem collate_procs (s : Sys) : s.collate.procs = s.procs := rfl
@[simp] theorem collate_starts (s : Sys) : s.collate.starts = s.starts := rfl
@[simp] theorem collate_active (s : Sys) : s.collate.active = s.active := rfl
@[simp] theorem collate_crashed (s : Sys) : s.collate.crashed = s.crashed := rfl

@[simp] theorem collate_task? (s : Sys) (t : Tid) : s.collate.task? t = s.task? t := rfl
@[simp] theorem collate_machine? (s : Sys) (m : Mid) : s.collate.machine? m = s.machine? m := rfl
@[simp] theorem collate_proc? (s : Sys) (pid : Nat) : s.collate.proc? pid = s.proc? pid := rfl

theorem collate_updTask (s : Sys) (t : Tid) (f : TaskRec → TaskRec) :
    (s.updTask t f).collate = s.collate.updTask t f := rfl

theorem collate_updProc (s : Sys) (pid : Nat) (f : Proc → Proc) :
    (s.updProc pid f).collate = s.collate.updProc pid f := rfl

theorem collate_crash (s : Sys) (e : Err) : (s.crash e).collate = s.collate.crash e := by
  unfold crash
  cases h : s.crashed <;> simp [h, collate]

@[simp] theorem collate_transferWait (s : Sys) (now : Time) (t : Tid) (m : Mid) (preds : List Tid) :
    s.collate.transferWait now t m preds = s.transferWait now t m preds := rfl

theorem collate_doWorkBlock (s : Sys) (now : Time) (orc : Oracle) (t : Tid) (m : Mid)
    (preds : List Tid) (phase total : Nat) :
    s.collate.doWorkBlock now orc t m preds phase total =
      ((s.doWorkBlock now orc t m preds phase total).1.collate,
       (s.doWorkBlock now orc t m preds phase total).2.1,
       (s.doWorkBlock now orc t m preds phase total).2.2) := by
  unfold doWorkBlock
  simp only [collate_task?, collate_machine?, collate_transferWait, collate_starts]
  repeat' split
  all_goals rfl

theorem collate_doWork (s : Sys) (pid : Nat) (orc : Oracle) (p : Proc)
    (hp : s.proc? pid = some p) (hk : ∃ t m pr ph tot, p.k = .doWork t m pr ph tot) :
    (s.collate.resume pid orc).1 = (s.resume pid orc).1.collate ∧
    (s.collate.resume pid orc).2 = (s.resume pid orc).2 := by
  obtain ⟨t, m, pr, ph, tot, hk⟩ := hk
  unfold resume
  simp only [collate_proc?, hp]
  by_cases ha : p.alive = true
  · simp only [ha, Bool.not_true, Bool.false_eq_true, if_false]
    have hb : ∀ s : Sys, s.block p orc = s.doWorkBlock p.wake orc t m pr ph tot := by
      intro s; simp only [block, hk]
    rw [hb, hb, collate_doWorkBlock]
    generalize s.doWorkBlock p.wake orc t m pr ph tot = r
    obtain ⟨s1, k, y⟩ := r
    cases y with
    | timeout d => exact ⟨(collate_updProc _ _ _).symm, rfl⟩
    | done => exact ⟨(collate_updProc _ _ _).symm, rfl⟩
    | raised e =>
      refine ⟨?_, rfl⟩
      simp only
      rw [collate_crash, collate_updProc]
  · have ha' : p.alive = false := by simpa using ha
    simp [ha']

end Sys
end Topsim
