/-
  BoundE1 — C05, the numeric clause UNDER A DELAY MODEL for BatchProcessing and the plan-following
  algorithms: the assembly of Bound9 / BoundB6 / BoundP9 / BoundD6, once, for an ABSTRACT weight `V` of
  the stages that have happened and an abstract notion `En` of "enabled poller".  From the parts
  (`BoundEAsm`: the facts about one kernel step, whole-instant wakes, timed liveness of the workers,
  idle states) the invariant
      clock < latest  ∨  clock + debt ≤ latest + V
  at every index before the run is at `is_finished()`, and the bound on the clock of the first
  `is_finished()` state by any number that dominates `latest + V` along the run.
-/
import TopsimProofs.BoundD7
import TopsimProofs.BoundB7
import TopsimProofs.BoundP12

namespace Topsim

open KState Sys

/-- `latest + V` at index `n`, as a time -/
noncomputable def boundE_LV (env : SimEnv) (s0 : Sys) (V : Sys → Nat) (n : Nat) : Time :=
  ((boundLatest s0 + V (simAt env s0 n).st : Nat) : Time)

/-- the parts of the proof of a bound `clock ≤ latest + V`, for an abstract weight `V` and an abstract
notion `En` of enabled poller -/
structure BoundEAsm (env : SimEnv) (s0 : Sys) (En : Sys → Proc → Prop) (V : Sys → Nat) : Prop where
  en_alive : ∀ s p, En s p → p.alive = true
  step_facts : ∀ n, ∃ e p, (simAt env s0 n).peek = some e ∧ (simAt env s0 n).st.proc? e.pid = some p ∧
      p.alive = true ∧ p ∈ (simAt env s0 n).st.procs ∧ p.pid = e.pid ∧
      boundTau env s0 n = p.wake ∧
      (∀ q ∈ (simAt env s0 n).st.procs, q.alive = true → boundTau env s0 n ≤ q.wake) ∧
      (∀ q ∈ (simAt env s0 n).st.procs, q.pid ≠ e.pid → q ∈ (simAt env s0 (n + 1)).st.procs) ∧
      (∀ q ∈ (simAt env s0 n).st.procs, q.pid = e.pid → q = p)
  wk_mono : ∀ n, boundTau env s0 n ≤ boundTau env s0 (n + 1)
  start_wake : ∀ q ∈ (simAt env s0 0).st.procs, q.wake = 0
  wake_nat : ∀ n, ∀ q ∈ (simAt env s0 (n + 1)).st.procs, q.alive = true → q.k.tag ≠ "doWork" →
    ∃ m : Nat, q.wake = ((m : Nat) : Time) ∧ ((m : Nat) : Time) ≤ boundTau env s0 n + 1
  tl : ∀ n, (∀ j, j < n → boundTau env s0 j ≤ boundE_LV env s0 V j) →
    ∀ q ∈ (simAt env s0 n).st.procs, q.alive = true → q.BoundWorker → q.wake + 1 ≤ boundE_LV env s0 V n
  idle_enabled : ∀ n, (simAt env s0 n).st.NoWorker → (simAt env s0 n).st.isFinished = false →
    ∃ p ∈ (simAt env s0 n).st.procs, En (simAt env s0 n).st p
  enabled_fires : ∀ n (e : HEntry) (p : Proc), (simAt env s0 n).peek = some e →
    (simAt env s0 n).st.proc? e.pid = some p → En (simAt env s0 n).st p →
    (simAt env s0 n).st.NoWorker → ((boundLatest s0 : Nat) : Time) ≤ p.wake →
    V (simAt env s0 n).st < V (simAt env s0 (n + 1)).st
  enabled_persists : ∀ n (e : HEntry) (p : Proc), (simAt env s0 n).peek = some e →
    p ∈ (simAt env s0 n).st.procs → p.pid ≠ e.pid → En (simAt env s0 n).st p →
    (simAt env s0 n).st.NoWorker →
    V (simAt env s0 (n + 1)).st = V (simAt env s0 n).st →
    p ∈ (simAt env s0 (n + 1)).st.procs ∧ En (simAt env s0 (n + 1)).st p
  v_mono : ∀ n, V (simAt env s0 n).st ≤ V (simAt env s0 (n + 1)).st

section
variable {env : SimEnv} {s0 : Sys} {En : Sys → Proc → Prop} {V : Sys → Nat}

/-- idle, and no enabled poller is still due at this instant -/
def BoundEIdleDone (env : SimEnv) (s0 : Sys) (En : Sys → Proc → Prop) (n : Nat) : Prop :=
  (simAt env s0 n).st.NoWorker ∧
    ∀ p ∈ (simAt env s0 n).st.procs, En (simAt env s0 n).st p → boundTau env s0 n < p.wake

open Classical in
noncomputable def boundE_debt (env : SimEnv) (s0 : Sys) (En : Sys → Proc → Prop) (n : Nat) : Time :=
  if BoundEIdleDone env s0 En n then 1 else 0

theorem boundE_debt_nonneg (n : Nat) : 0 ≤ boundE_debt env s0 En n := by
  unfold boundE_debt; split <;> decide

theorem boundE_debt_le_one (n : Nat) : boundE_debt env s0 En n ≤ 1 := by
  unfold boundE_debt; split <;> decide

def BoundEInv (env : SimEnv) (s0 : Sys) (En : Sys → Proc → Prop) (V : Sys → Nat) (n : Nat) : Prop :=
  boundTau env s0 n < ((boundLatest s0 : Nat) : Time) ∨
    boundTau env s0 n + boundE_debt env s0 En n ≤ boundE_LV env s0 V n

theorem boundE_latest_le_lv (n : Nat) : ((boundLatest s0 : Nat) : Time) ≤ boundE_LV env s0 V n := by
  unfold boundE_LV
  have : boundLatest s0 ≤ boundLatest s0 + V (simAt env s0 n).st := Nat.le_add_right _ _
  exact_mod_cast this

theorem BoundEInv.le {n : Nat} (h : BoundEInv env s0 En V n) : boundTau env s0 n ≤ boundE_LV env s0 V n := by
  rcases h with h | h
  · have := boundE_latest_le_lv (env := env) (s0 := s0) (V := V) n
    grind
  · have := boundE_debt_nonneg (env := env) (s0 := s0) (En := En) n
    grind

/-- **The step of the invariant.** -/
theorem boundE_inv_step (A : BoundEAsm env s0 En V) (n : Nat)
    (ih : ∀ j, j ≤ n → BoundEInv env s0 En V j)
    (hnf : (simAt env s0 (n + 1)).st.isFinished = false) : BoundEInv env s0 En V (n + 1) := by
  obtain ⟨e, p, hpk, hpp, ha, hpm, hpid, htau, hmin, hkeep, huniq⟩ := A.step_facts n
  obtain ⟨e1, p1, _, _, ha1, hpm1, _, htau1, hmin1, _, _⟩ := A.step_facts (n + 1)
  have hmono := A.wk_mono n
  have hH : ∀ j, j < n + 1 → boundTau env s0 j ≤ boundE_LV env s0 V j :=
    fun j hj => (ih j (by omega)).le
  have hvm := A.v_mono n
  have hlvm : boundE_LV env s0 V n ≤ boundE_LV env s0 V (n + 1) := by
    unfold boundE_LV
    have : boundLatest s0 + V (simAt env s0 n).st ≤
        boundLatest s0 + V (simAt env s0 (n + 1)).st := Nat.add_le_add_left hvm _
    exact_mod_cast this
  have hlvflip : V (simAt env s0 n).st < V (simAt env s0 (n + 1)).st →
      boundE_LV env s0 V n + 1 ≤ boundE_LV env s0 V (n + 1) := by
    intro hf
    unfold boundE_LV
    have : boundLatest s0 + V (simAt env s0 n).st + 1 ≤
        boundLatest s0 + V (simAt env s0 (n + 1)).st := by omega
    exact_mod_cast this
  have hlveq : ¬ V (simAt env s0 n).st < V (simAt env s0 (n + 1)).st →
      V (simAt env s0 (n + 1)).st = V (simAt env s0 n).st := by
    intro hf; omega
  have hdeb1 := boundE_debt_le_one (env := env) (s0 := s0) (En := En) (n + 1)
  have hdeb0 := boundE_debt_nonneg (env := env) (s0 := s0) (En := En) n
  by_cases hlt : boundTau env s0 (n + 1) < ((boundLatest s0 : Nat) : Time)
  · exact Or.inl hlt
  right
  have hge : ((boundLatest s0 : Nat) : Time) ≤ boundTau env s0 (n + 1) := Rat.not_lt.mp hlt
  -- the common sub-argument: in a state at index `n` that is not "idle-done", with no stage happening
  -- in the step, either the fired process was the last worker (then `tau + 1 ≤ LV`) or an enabled
  -- poller due now was not fired and survives
  have hkey : ((boundLatest s0 : Nat) : Time) ≤ boundTau env s0 n →
      ¬ V (simAt env s0 n).st < V (simAt env s0 (n + 1)).st →
      ¬ BoundEIdleDone env s0 En n → (simAt env s0 (n + 1)).st.NoWorker →
      boundTau env s0 n + 1 ≤ boundE_LV env s0 V n ∨
      ∃ p' ∈ (simAt env s0 n).st.procs, p'.pid ≠ e.pid ∧ En (simAt env s0 n).st p' ∧
        p'.wake ≤ boundTau env s0 n ∧ (simAt env s0 n).st.NoWorker := by
    intro hgen hnoflip hnd hw1
    by_cases hw : (simAt env s0 n).st.NoWorker
    · -- idle with an enabled poller due now
      have : ∃ p' ∈ (simAt env s0 n).st.procs, En (simAt env s0 n).st p' ∧
          ¬ boundTau env s0 n < p'.wake := by
        apply Classical.byContradiction
        intro hno
        apply hnd
        refine ⟨hw, fun p' hp' hen' => ?_⟩
        apply Classical.byContradiction
        intro hnl
        exact hno ⟨p', hp', hen', hnl⟩
      obtain ⟨p', hp', hen', hnl⟩ := this
      have hle : p'.wake ≤ boundTau env s0 n := Rat.not_lt.mp hnl
      by_cases hpe : p'.pid = e.pid
      · exfalso
        have : p' = p := huniq p' hp' hpe
        subst this
        apply hnoflip
        exact A.enabled_fires n e p' hpk hpp hen' hw (by rw [← htau]; exact hgen)
      · exact Or.inr ⟨p', hp', hpe, hen', hle, hw⟩
    · -- the fired process was the last worker
      left
      obtain ⟨q, hq, hqa, hqw⟩ := bound_not_noWorker hw
      have hqe : q.pid = e.pid := by
        apply Classical.byContradiction
        intro hne
        exact bound_noWorker_not hw1 (hkeep q hq hne) hqa hqw
      have : q = p := huniq q hq hqe
      subst this
      have := A.tl n (fun j hj => hH j (by omega)) q hq hqa hqw
      rw [htau]
      exact this
  by_cases hw1 : (simAt env s0 (n + 1)).st.NoWorker
  · -- idle at `n + 1`
    by_cases hadv : boundTau env s0 n < boundTau env s0 (n + 1)
    · -- the clock advanced: an enabled poller is due now, the debt is 0
      obtain ⟨p', hp', hen'⟩ := A.idle_enabled (n + 1) hw1 hnf
      have hp'nd : p'.k.tag ≠ "doWork" := (hw1 p' hp' (A.en_alive _ _ hen')).2.2.2.2
      have hp1nd : p1.k.tag ≠ "doWork" := (hw1 p1 hpm1 ha1).2.2.2.2
      obtain ⟨m, hm, hmle⟩ := A.wake_nat n p' hp' (A.en_alive _ _ hen') hp'nd
      obtain ⟨m1, hm1, hm1le⟩ := A.wake_nat n p1 hpm1 ha1 hp1nd
      have hmm : m ≤ m1 := by
        have h1 : ((m : Nat) : Time) < ((m1 + 1 : Nat) : Time) := by
          push_cast
          rw [htau1, hm1] at hadv
          grind
        have : m < m1 + 1 := by exact_mod_cast h1
        omega
      have hp'le : p'.wake ≤ boundTau env s0 (n + 1) := by
        rw [htau1, hm, hm1]
        exact_mod_cast hmm
      have hnd1 : ¬ BoundEIdleDone env s0 En (n + 1) := by
        rintro ⟨_, h2⟩
        exact absurd (h2 p' hp' hen') (Rat.not_lt.mpr hp'le)
      have hd0 : boundE_debt env s0 En (n + 1) = 0 := by unfold boundE_debt; rw [if_neg hnd1]
      rw [hd0]
      have hle1 : boundTau env s0 (n + 1) ≤ boundTau env s0 n + 1 := by
        rw [htau1, hm1]; exact hm1le
      by_cases hearly : boundTau env s0 n < ((boundLatest s0 : Nat) : Time)
      · -- the clock crosses `latest`: it is exactly at a whole instant ≤ latest
        have hm1L : m1 ≤ boundLatest s0 := by
          have h1 : ((m1 : Nat) : Time) < ((boundLatest s0 + 1 : Nat) : Time) := by
            push_cast
            grind
          have : m1 < boundLatest s0 + 1 := by exact_mod_cast h1
          omega
        have h2 : boundTau env s0 (n + 1) ≤ ((boundLatest s0 : Nat) : Time) := by
          rw [htau1, hm1]; exact_mod_cast hm1L
        have := boundE_latest_le_lv (env := env) (s0 := s0) (V := V) (n + 1)
        grind
      · have hgen : ((boundLatest s0 : Nat) : Time) ≤ boundTau env s0 n := Rat.not_lt.mp hearly
        have hin : boundTau env s0 n + boundE_debt env s0 En n ≤ boundE_LV env s0 V n := by
          rcases ih n (Nat.le_refl n) with h | h
          · exact absurd h hearly
          · exact h
        by_cases hflip : V (simAt env s0 n).st < V (simAt env s0 (n + 1)).st
        · have := hlvflip hflip
          grind
        · by_cases hdone : BoundEIdleDone env s0 En n
          · have hd1 : boundE_debt env s0 En n = 1 := by unfold boundE_debt; rw [if_pos hdone]
            rw [hd1] at hin
            grind
          · rcases hkey hgen hflip hdone hw1 with h | ⟨p2, hp2, hp2e, hen2, hle2, hwn⟩
            · grind
            · -- an enabled poller due at the old instant was not fired: the clock cannot advance
              exfalso
              have hin2 := hkeep p2 hp2 hp2e
              have := hmin1 p2 hin2 (A.en_alive _ _ hen2)
              grind
    · -- no advance
      have heq : boundTau env s0 (n + 1) = boundTau env s0 n := by
        have := Rat.not_lt.mp hadv
        exact Rat.le_antisymm this hmono
      have hgen : ((boundLatest s0 : Nat) : Time) ≤ boundTau env s0 n := by rw [← heq]; exact hge
      have hin : boundTau env s0 n + boundE_debt env s0 En n ≤ boundE_LV env s0 V n := by
        rcases ih n (Nat.le_refl n) with h | h
        · exact absurd h (Rat.not_lt.mpr hgen)
        · exact h
      rw [heq]
      by_cases hflip : V (simAt env s0 n).st < V (simAt env s0 (n + 1)).st
      · have := hlvflip hflip
        grind
      · by_cases hdone1 : BoundEIdleDone env s0 En (n + 1)
        · have hd1 : boundE_debt env s0 En (n + 1) = 1 := by unfold boundE_debt; rw [if_pos hdone1]
          rw [hd1]
          by_cases hdone : BoundEIdleDone env s0 En n
          · have hd : boundE_debt env s0 En n = 1 := by unfold boundE_debt; rw [if_pos hdone]
            rw [hd] at hin
            grind
          · rcases hkey hgen hflip hdone hw1 with h | ⟨p2, hp2, hp2e, hen2, hle2, hwn⟩
            · grind
            · exfalso
              obtain ⟨hin2, hen3⟩ := A.enabled_persists n e p2 hpk hp2 hp2e hen2 hwn (hlveq hflip)
              have := hdone1.2 p2 hin2 hen3
              rw [heq] at this
              grind
        · have hd0 : boundE_debt env s0 En (n + 1) = 0 := by unfold boundE_debt; rw [if_neg hdone1]
          rw [hd0]
          grind
  · -- a worker is alive at `n + 1`: its whole life is pre-paid
    obtain ⟨q, hq, hqa, hqw⟩ := bound_not_noWorker hw1
    have hnd1 : ¬ BoundEIdleDone env s0 En (n + 1) := fun h => hw1 h.1
    have hd0 : boundE_debt env s0 En (n + 1) = 0 := by unfold boundE_debt; rw [if_neg hnd1]
    rw [hd0]
    have h1 := hmin1 q hq hqa
    have h2 := A.tl (n + 1) hH q hq hqa hqw
    grind

/-- the invariant at index 0 -/
theorem boundE_inv_zero (A : BoundEAsm env s0 En V)
    (hnf : (simAt env s0 0).st.isFinished = false) : BoundEInv env s0 En V 0 := by
  obtain ⟨e, p, hpk, hpp, ha, hpm, hpid, htau, hmin, _, _⟩ := A.step_facts 0
  have hw0 : ∀ q ∈ (simAt env s0 0).st.procs, q.wake = 0 := A.start_wake
  have ht0 : boundTau env s0 0 = 0 := by rw [htau]; exact hw0 p hpm
  by_cases hL : 0 < boundLatest s0
  · left
    rw [ht0]
    exact_mod_cast hL
  · right
    by_cases hw : (simAt env s0 0).st.NoWorker
    · obtain ⟨p', hp', hen'⟩ := A.idle_enabled 0 hw hnf
      have hnd : ¬ BoundEIdleDone env s0 En 0 := by
        rintro ⟨_, h2⟩
        have := h2 p' hp' hen'
        rw [ht0, hw0 p' hp'] at this
        exact absurd this (by decide)
      have hd0 : boundE_debt env s0 En 0 = 0 := by unfold boundE_debt; rw [if_neg hnd]
      rw [hd0, ht0]
      have := boundE_latest_le_lv (env := env) (s0 := s0) (V := V) 0
      have h0 : (0 : Time) ≤ ((boundLatest s0 : Nat) : Time) := by exact_mod_cast Nat.zero_le _
      grind
    · have hnd : ¬ BoundEIdleDone env s0 En 0 := fun h => hw h.1
      have hd0 : boundE_debt env s0 En 0 = 0 := by unfold boundE_debt; rw [if_neg hnd]
      rw [hd0, ht0]
      have := boundE_latest_le_lv (env := env) (s0 := s0) (V := V) 0
      have h0 : (0 : Time) ≤ ((boundLatest s0 : Nat) : Time) := by exact_mod_cast Nat.zero_le _
      grind

/-- **The invariant** at every index up to which the run is not at `is_finished()`. -/
theorem boundE_inv_all (A : BoundEAsm env s0 En V) (n : Nat)
    (hnf : ∀ j, j ≤ n → (simAt env s0 j).st.isFinished = false) : BoundEInv env s0 En V n := by
  induction n using Nat.strongRecOn with
  | _ n ih =>
    cases n with
    | zero => exact boundE_inv_zero A (hnf 0 (Nat.le_refl 0))
    | succ n =>
      apply boundE_inv_step A n
      · intro j hj
        exact ih j (by omega) (fun i hi => hnf i (by omega))
      · exact hnf (n + 1) (Nat.le_refl _)

/-- **The bound from the parts**, for any number `B` that dominates `latest + V` along the run: the
first index at which the run is at `is_finished()` has its clock within `B`. -/
theorem boundE_of_parts_gen (A : BoundEAsm env s0 En V)
    (hex : ∃ n, (simAt env s0 n).st.isFinished = true) (B : Nat)
    (hB : ∀ n, boundLatest s0 + V (simAt env s0 n).st ≤ B) :
    ∃ n, (simAt env s0 n).st.isFinished = true ∧ boundClock env s0 n ≤ ((B : Nat) : Time) := by
  obtain ⟨n, hfin, hmin'⟩ := bound_least _ hex
  have hmin : ∀ j, j < n → (simAt env s0 j).st.isFinished = false := by
    intro j hj
    cases h : (simAt env s0 j).st.isFinished with
    | false => rfl
    | true => exact absurd h (hmin' j hj)
  refine ⟨n, hfin, ?_⟩
  cases n with
  | zero =>
    show (0 : Time) ≤ _
    exact_mod_cast Nat.zero_le _
  | succ m =>
    show boundTau env s0 m ≤ _
    have hinv := boundE_inv_all A m (fun j hj => hmin j (by omega))
    have h1 := hinv.le
    have h2 : boundE_LV env s0 V m ≤ ((B : Nat) : Time) := by
      unfold boundE_LV
      exact_mod_cast hB m
    exact Rat.le_trans h1 h2

end

end Topsim
