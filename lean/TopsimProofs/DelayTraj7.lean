/-
  DelayTraj7 — one block of `allocate_tasks`, as far as records, plans and the delay report go:
  the plan stamp of the first block, `_update_current_plan`, the algorithm's status,
  `_process_current_schedule`.
-/
import TopsimProofs.DelayTraj6

namespace Topsim
namespace Sys

/-! ### plans -/

theorem mem_updPlan {s : Sys} {oid : Oid} {F : Plan → Plan} {pl' : Plan} (h : pl' ∈ (s.updPlan oid F).plans) :
    ∃ pl ∈ s.plans, pl' = pl ∨ pl' = F pl := by
  simp only [updPlan, List.mem_map] at h
  obtain ⟨pl, hm, rfl⟩ := h
  refine ⟨pl, hm, ?_⟩
  split
  · exact Or.inr rfl
  · exact Or.inl rfl

theorem planTasks_updPlan_keep (s X : Sys) (oid : Oid) (F : Plan → Plan) (hobs : ∀ pl, (F pl).obs = pl.obs)
    (htk : ∀ pl, (F pl).tasks = pl.tasks) (h : X.plans = (s.updPlan oid F).plans) (o : Oid) :
    planTasks X o = planTasks s o := by
  unfold planTasks
  rw [plan?_map s X oid F hobs h o]
  cases s.plan? o with
  | none => rfl
  | some pl =>
    simp only [Option.map_some]
    split
    · exact htk pl
    · rfl

/-! ### the first block: plan stamp and task offsets -/

theorem foldl_updTask_keep4 (f : Tid → TaskRec → TaskRec)
    (hf : ∀ t r, (f t r).id = r.id ∧ (f t r).status = r.status ∧ (f t r).delayFlag = r.delayFlag ∧
      (f t r).delayOffset = r.delayOffset) (l : List Tid) (s1 : Sys) :
    ∃ g : TaskRec → TaskRec, (∀ r, (g r).id = r.id ∧ (g r).status = r.status ∧ (g r).delayFlag = r.delayFlag ∧
        (g r).delayOffset = r.delayOffset) ∧
      (l.foldl (fun (s : Sys) t => s.updTask t (f t)) s1).tasks = s1.tasks.map g := by
  induction l generalizing s1 with
  | nil => exact ⟨id, fun _ => ⟨rfl, rfl, rfl, rfl⟩, by simp⟩
  | cons x r ih =>
    obtain ⟨g, hg, e⟩ := ih (s1.updTask x (f x))
    refine ⟨fun r => g (if r.id = x then f x r else r), ?_, ?_⟩
    · intro r
      obtain ⟨a1, a2, a3, a4⟩ := hg (if r.id = x then f x r else r)
      rw [a1, a2, a3, a4]
      split
      · exact hf x r
      · exact ⟨rfl, rfl, rfl, rfl⟩
    · rw [List.foldl_cons, e]
      show (s1.tasks.map _).map g = _
      rw [List.map_map]; rfl

theorem atStart_rec (s : Sys) (now : Time) (pc : Nat) (oid : Oid) :
    ∃ g : TaskRec → TaskRec, (∀ r, (g r).id = r.id ∧ (g r).status = r.status ∧ (g r).delayFlag = r.delayFlag ∧
        (g r).delayOffset = r.delayOffset) ∧
      (atStart s now pc oid).tasks = s.tasks.map g := by
  unfold atStart
  split
  · obtain ⟨g, hg, e⟩ := foldl_updTask_keep4 (fun _ r => { r with offset := natNow now })
      (fun _ _ => ⟨rfl, rfl, rfl, rfl⟩)
      (match (s.updPlan oid (fun p => { p with ast := some (natNow now) })).plan? oid with
        | some p => p.tasks | none => [])
      (s.updPlan oid (fun p => { p with ast := some (natNow now) }))
    exact ⟨g, hg, e⟩
  · exact ⟨id, fun _ => ⟨rfl, rfl, rfl, rfl⟩, by simp⟩

theorem atStart_planTasks_eq (s : Sys) (now : Time) (pc : Nat) (oid o : Oid) :
    planTasks (atStart s now pc oid) o = planTasks s o := by
  rcases atStart_plans s now pc oid with h | h
  · exact planTasks_of_plans h o
  · exact planTasks_updPlan_keep s _ oid (fun p => { p with ast := some (natNow now) }) (fun _ => rfl) (fun _ => rfl) h o

theorem atStart_plan_status (s : Sys) (now : Time) (pc : Nat) (oid : Oid) :
    ∀ pl' ∈ (atStart s now pc oid).plans, ∃ pl ∈ s.plans, pl'.status = pl.status := by
  intro pl' hpl'
  rcases atStart_plans s now pc oid with h | h
  · rw [h] at hpl'; exact ⟨pl', hpl', rfl⟩
  · rw [h] at hpl'
    obtain ⟨pl, hm, e | e⟩ := mem_updPlan hpl'
    · exact ⟨pl, hm, by rw [e]⟩
    · exact ⟨pl, hm, by rw [e]⟩

/-! ### `_update_current_plan` -/

theorem ucpFin_spec {a : Sys} {oid : Oid} {t : Tid} (h : t ∈ ucpFin a oid) :
    t ∈ planTasks a oid ∧ tstat a t = .finished := by
  unfold ucpFin at h
  unfold planTasks
  cases hp : a.plan? oid with
  | none => rw [hp] at h; simp at h
  | some pl =>
    rw [hp] at h
    simp only [List.mem_filter, decide_eq_true_eq] at h
    exact ⟨h.1, h.2⟩

/-- a task of a plan stays in it, or is one of the FINISHED tasks the pruning removes -/
theorem planTasks_ucp (a : Sys) (oid o : Oid) (t : Tid) (h : t ∈ planTasks a o) :
    t ∈ planTasks (a.updateCurrentPlan oid) o ∨ (o = oid ∧ t ∈ ucpFin a oid) := by
  have hpl := updateCurrentPlan_plans a oid
  cases hpo : a.plan? oid with
  | none =>
    rw [hpo] at hpl
    left; rw [planTasks_of_plans hpl]; exact h
  | some pl0 =>
    rw [hpo] at hpl
    simp only at hpl
    unfold planTasks at h ⊢
    rw [plan?_map a _ oid (fun p => { p with tasks := p.tasks.filter (fun t => (a.taskView t).status ≠ .finished) })
      (fun _ => rfl) hpl o]
    cases hp : a.plan? o with
    | none => rw [hp] at h; simp at h
    | some pl =>
      rw [hp] at h
      simp only [Option.map_some]
      by_cases e : pl.obs = oid
      · rw [if_pos e]
        have ho : o = oid := by rw [← (plan?_mem hp).2]; exact e
        subst ho
        rw [hpo] at hp
        injection hp with hp
        subst hp
        by_cases hfin : (a.taskView t).status = .finished
        · right
          refine ⟨rfl, ?_⟩
          unfold ucpFin
          rw [hpo]
          exact List.mem_filter.mpr ⟨h, by simpa using hfin⟩
        · left
          exact List.mem_filter.mpr ⟨h, by simpa using hfin⟩
      · rw [if_neg e]; left; exact h

theorem ucp_plan_status (a : Sys) (oid : Oid) :
    ∀ pl' ∈ (a.updateCurrentPlan oid).plans, ∃ pl ∈ a.plans, pl'.status = pl.status := by
  intro pl' hpl'
  have hpl := updateCurrentPlan_plans a oid
  cases hpo : a.plan? oid with
  | none => rw [hpo] at hpl; rw [hpl] at hpl'; exact ⟨pl', hpl', rfl⟩
  | some pl0 =>
    rw [hpo] at hpl
    simp only at hpl
    rw [hpl] at hpl'
    obtain ⟨pl, hm, e | e⟩ := mem_updPlan hpl'
    · exact ⟨pl, hm, by rw [e]⟩
    · exact ⟨pl, hm, by rw [e]⟩

/-! ### the status the algorithm returns -/

theorem finishStatus_delayed (plan : Plan) (x : WStatus) (h : Alg.finishStatus plan x = .delayed) :
    x = .delayed := by
  unfold Alg.finishStatus at h
  split at h
  · cases h
  · exact h

/-- BatchProcessing, QueueProcessing and a user algorithm hand the plan's status back (or FINISHED):
only the two plan-following algorithms ever return DELAYED for a plan that is not DELAYED already -/
theorem runAlgorithm_delayed (s : Sys) (orc : Oracle) (plan : Plan) (sched : List (Tid × Mid))
    (pool : List Tid) (out : AlgOut) (h : s.runAlgorithm orc plan sched pool = .ok out)
    (hd : out.status = .delayed) : plan.status = .delayed ∨ s.alg = .dynamic ∨ s.alg = .greedy := by
  unfold runAlgorithm at h
  split at h
  · obtain ⟨_, _, hstat, _⟩ := batchRun_facts _ _ _ _ _ _ _ _ _ h
    rw [hstat] at hd
    exact Or.inl (finishStatus_delayed plan _ hd)
  · unfold Alg.queueRun at h
    injection h with h
    subst h
    exact Or.inl (finishStatus_delayed plan _ hd)
  · rename_i halg; exact Or.inr (Or.inl halg)
  · rename_i halg; exact Or.inr (Or.inr halg)
  · injection h with h
    subst h
    exact Or.inl (finishStatus_delayed plan _ hd)

theorem atS3_plan_status (a1 : Sys) (out : AlgOut) (oid : Oid) :
    ∀ pl' ∈ (atS3 a1 out oid).plans, (∃ pl ∈ a1.plans, pl'.status = pl.status) ∨ pl'.status = out.status := by
  intro pl' hpl'
  rw [atS3_plans] at hpl'
  obtain ⟨pl, hm, rfl⟩ := List.mem_map.mp hpl'
  split
  · exact Or.inr rfl
  · exact Or.inl ⟨pl, hm, rfl⟩

/-! ### `_process_current_schedule` -/

theorem ua_task?_ne {a s1 : Sys} {t t' : Tid} (h : UA a t s1) (hne : t' ≠ t) : s1.task? t' = a.task? t' := by
  rcases h with rfl | ⟨mm, rfl⟩
  · rfl
  · exact task?_updTask_ne a _ (fun r => updateAllocation_id r mm) hne

theorem processOne_task?_ne (now : Time) (oid : Oid) (st : PcsSt) (t : Tid) {t' : Tid} (hne : t' ≠ t) :
    (processOne now oid st t).s.task? t' = st.s.task? t' := by
  rcases processOne_cases now oid st t with ⟨s1, h1, hs, _⟩ | ⟨s1, m, r, cross, h1, _, _, _, hs, _⟩
  · rw [hs]; exact ua_task?_ne h1 hne
  · rw [hs]
    rw [task?_updTask_ne _ (fun r : TaskRec => { r with status := .scheduled }) (fun _ => rfl) hne]
    show s1.task? t' = _
    exact ua_task?_ne h1 hne

/-- the records of a task that is not a key of the schedule are left alone -/
theorem processCurrentSchedule_task?_notin (a : Sys) (now : Time) (oid : Oid) (sched pairs : List (Tid × Mid))
    {t' : Tid} (h : t' ∉ dictKeys sched) :
    (processCurrentSchedule a now oid sched pairs).s.task? t' = a.task? t' := by
  unfold processCurrentSchedule
  simp only
  have hl : t' ∉ (dictKeys sched).mergeSort (fun x y => decide ((a.taskView x).est ≤ (a.taskView y).est)) :=
    fun hm => h (List.mem_mergeSort.mp hm)
  generalize ((dictKeys sched).mergeSort _) = l at hl
  have : ∀ (l : List Tid) (st : PcsSt), t' ∉ l →
      (l.foldl (processOne now oid) st).s.task? t' = st.s.task? t' := by
    intro l
    induction l with
    | nil => intro st _; rfl
    | cons x r ih =>
      intro st hx
      simp only [List.mem_cons, not_or] at hx
      rw [List.foldl_cons, ih _ hx.2]
      exact processOne_task?_ne now oid st x hx.1
  exact this l { s := a, schedule := sched, pairs := pairs, curr := [] } hl

theorem ua_keep_fin {a s1 : Sys} {t t' : Tid} (h : UA a t s1) {r : TaskRec} (hr : a.task? t' = some r)
    (hf : r.status = .finished) (hfl : r.delayFlag = true) :
    ∃ r', s1.task? t' = some r' ∧ r'.status = .finished ∧ r'.delayFlag = true := by
  rcases h with rfl | ⟨mm, rfl⟩
  · exact ⟨r, hr, hf, hfl⟩
  · rw [task?_updTask a t t' _ (fun r => updateAllocation_id r mm), hr]
    simp only [Option.map_some]
    split
    · refine ⟨_, rfl, by rw [updateAllocation_status]; exact hf, ?_⟩
      rcases (tdel_updateAllocation r mm).chg with ⟨_, _, e⟩ | ⟨e, _, _⟩
      · rw [e]; exact hfl
      · exact e
    · exact ⟨r, rfl, hf, hfl⟩

/-- a FINISHED, flagged record stays FINISHED and flagged through `_process_current_schedule`,
whatever the schedule proposes -/
theorem processOne_keep_fin (now : Time) (oid : Oid) (st : PcsSt) (t : Tid) {t' : Tid} {r : TaskRec}
    (hr : st.s.task? t' = some r) (hf : r.status = .finished) (hfl : r.delayFlag = true) :
    ∃ r', (processOne now oid st t).s.task? t' = some r' ∧ r'.status = .finished ∧ r'.delayFlag = true := by
  rcases processOne_cases now oid st t with ⟨s1, h1, hs, _⟩ | ⟨s1, m, r0, cross, h1, _, hr0, hst0, hs, _⟩
  · rw [hs]; exact ua_keep_fin h1 hr hf hfl
  · rw [hs]
    have hne : t' ≠ t := by
      intro e
      subst e
      rw [hr] at hr0
      injection hr0 with hr0
      subst hr0
      rw [hf] at hst0; cases hst0
    rw [task?_updTask_ne _ (fun r : TaskRec => { r with status := .scheduled }) (fun _ => rfl) hne]
    show ∃ r', s1.task? t' = some r' ∧ _
    exact ua_keep_fin h1 hr hf hfl

theorem processCurrentSchedule_keep_fin (a : Sys) (now : Time) (oid : Oid) (sched pairs : List (Tid × Mid))
    {t' : Tid} {r : TaskRec} (hr : a.task? t' = some r) (hf : r.status = .finished) (hfl : r.delayFlag = true) :
    ∃ r', (processCurrentSchedule a now oid sched pairs).s.task? t' = some r' ∧ r'.status = .finished ∧
      r'.delayFlag = true := by
  unfold processCurrentSchedule
  simp only
  generalize ((dictKeys sched).mergeSort _) = l
  have : ∀ (l : List Tid) (st : PcsSt) (r : TaskRec), st.s.task? t' = some r → r.status = .finished →
      r.delayFlag = true →
      ∃ r', (l.foldl (processOne now oid) st).s.task? t' = some r' ∧ r'.status = .finished ∧
        r'.delayFlag = true := by
    intro l
    induction l with
    | nil => intro st r hr hf hfl; exact ⟨r, hr, hf, hfl⟩
    | cons x rest ih =>
      intro st r hr hf hfl
      obtain ⟨r1, h1, h2, h3⟩ := processOne_keep_fin now oid st x hr hf hfl
      exact ih _ r1 h1 h2 h3
  exact this l { s := a, schedule := sched, pairs := pairs, curr := [] } r hr hf hfl

/-- with a shipped algorithm: the schedule handed to `_process_current_schedule` has each key once, and
its keys are UNSCHEDULED tasks of the observation -/
theorem alloc_sched_keys {s : Sys} (hwi : WI s) (hno : s.alg ≠ .oracle) (hsu : SU s) {p : Proc}
    (hp : p ∈ s.procs) (ha : p.alive = true) {o0 : Oid} {sc0 pa0 : List (Tid × Mid)} {po0 : List Tid}
    (hk : p.k = .allocTasks o0 sc0 pa0 po0 false) (orc : Oracle) {plan : Plan} {out : AlgOut}
    (hplan : ((atStart s p.wake p.pc o0).updateCurrentPlan o0).plan? o0 = some plan)
    (hrun : ((atStart s p.wake p.pc o0).updateCurrentPlan o0).runAlgorithm orc plan sc0 po0 = .ok out) :
    (dictKeys out.schedule).Nodup ∧ ∀ t ∈ dictKeys out.schedule, (∃ c n, t = Tid.wf o0 c n) ∧
      tstat (atS3 ((atStart s p.wake p.pc o0).updateCurrentPlan o0) out o0) t = .unscheduled := by
  have hts1 : ∀ t, tstat ((atStart s p.wake p.pc o0).updateCurrentPlan o0) t = tstat s t := fun t =>
    (updateCurrentPlan_tstat _ o0 t).trans (atStart_tstat s p.wake p.pc o0 t)
  have hwi1 : WI ((atStart s p.wake p.pc o0).updateCurrentPlan o0) := (hwi.started p.wake p.pc o0).prune o0
  have halg1 : ((atStart s p.wake p.pc o0).updateCurrentPlan o0).alg ≠ .oracle := by
    rw [updateCurrentPlan_alg, atStart_alg]; exact hno
  obtain ⟨hnd0, hkeys0⟩ := hsu.sl p hp ha o0 sc0 pa0 po0 false hk
  obtain ⟨hplm, hpobs⟩ := plan?_mem hplan
  obtain ⟨halgk, halgn⟩ := runAlgorithm_sched _ orc plan sc0 po0 out halg1 hrun
  refine ⟨halgn hnd0, fun t ht => ?_⟩
  rw [atS3_tstat]
  rcases halgk t ht with h1 | ⟨h1, h2⟩
  · exact ⟨(hkeys0 t h1).1, by rw [hts1]; exact (hkeys0 t h1).2⟩
  · obtain ⟨c, n, e⟩ := hwi1.pt plan hplm t h1
    exact ⟨⟨c, n, by rw [e, hpobs]⟩, h2⟩

end Sys
end Topsim
