/-
  DelayTraj1 — who writes the scheduler's delay report (`schedule_status`, `delay_offset`):
  no block of any process other than `allocate_tasks` touches the two fields.
-/
import TopsimProofs.FinishWf3
import TopsimProofs.PauseLemmas

namespace Topsim
namespace Sys

/-- the scheduler's delay report: (`schedule_status == DELAYED`, `delay_offset`) -/
def sdOf (s : Sys) : Bool × Int := (s.schedDelayed, s.delayOffset)

syntax "sd_split" : tactic
macro_rules
  | `(tactic| sd_split) =>
    `(tactic| first
      | rfl
      | (split <;> sd_split))

theorem checkIngestCapacity_sd (s : Sys) (o : Obs) (s' : Sys) (b : Bool)
    (h : s.checkIngestCapacity o = .ok (s', b)) : sdOf s' = sdOf s := by
  unfold checkIngestCapacity at h
  split at h
  · exact absurd h (by simp)
  · split at h
    · split at h
      · injection h with h; injection h with h1 _
        subst h1
        split <;> rfl
      · injection h with h; injection h with h1 _; subst h1; rfl
    · injection h with h; injection h with h1 _; subst h1; rfl

theorem telescopeVisit_sd (n : Nat) (acc : Sys × Option Err) (oid : Oid) :
    sdOf (telescopeVisit n acc oid).1 = sdOf acc.1 := by
  obtain ⟨s1, err⟩ := acc
  unfold telescopeVisit
  cases err with
  | some e => rfl
  | none =>
    simp only
    split
    · rfl
    · rename_i o _
      split
      · cases hc : s1.checkIngestCapacity o with
        | error e => rfl
        | ok r =>
          obtain ⟨s', b⟩ := r
          have := checkIngestCapacity_sd s1 o s' b hc
          cases b with
          | false => exact this
          | true => simp only; exact this
      · split <;> rfl

theorem foldl_sd' {α β} (f : Sys × β → α → Sys × β) (hf : ∀ acc x, sdOf (f acc x).1 = sdOf acc.1)
    (l : List α) (acc : Sys × β) : sdOf (l.foldl f acc).1 = sdOf acc.1 := by
  induction l generalizing acc with
  | nil => rfl
  | cons x r ih => exact (ih _).trans (hf acc x)

theorem telescopeBlock_sd (s : Sys) (now : Time) : sdOf (s.telescopeBlock now).1 = sdOf s := by
  unfold telescopeBlock
  split
  · rfl
  · simp only
    have := foldl_sd' (telescopeVisit (natNow now)) (telescopeVisit_sd (natNow now))
      (s.obs.map (·.id))
      ({ s with telEvents := [], telDelayed := if s.schedDelayed = true ∧ (!s.telDelayed) = true then true else s.telDelayed }, none)
    generalize (List.foldl (telescopeVisit (natNow now)) ({ s with telEvents := [], telDelayed := if s.schedDelayed = true ∧ (!s.telDelayed) = true then true else s.telDelayed }, none) (s.obs.map (·.id))) = r at this ⊢
    obtain ⟨s1, e1⟩ := r
    cases e1 <;> exact this

theorem schedLoopBlock_sd (s : Sys) (now : Time) (orc : Oracle) :
    sdOf (s.schedLoopBlock now orc).1 = sdOf s := by
  unfold schedLoopBlock
  simp only
  split
  · split
    · rfl
    · split
      · rfl
      · split <;> split <;> rfl
  · rfl

theorem bufferLoopBlock_sd (s : Sys) (now : Time) : sdOf (s.bufferLoopBlock now).1 = sdOf s := by
  unfold bufferLoopBlock
  split
  · rfl
  · simp only; split <;> split <;> rfl

theorem allocIngestIter_sd (s : Sys) (now : Time) (oid : Oid) (tl : Int) :
    sdOf (s.allocIngestIter now oid tl).1 = sdOf s := by
  unfold allocIngestIter; simp only; sd_split

theorem allocIngestBlock_sd (s : Sys) (now : Time) (pc : Nat) (oid : Oid) (tl : Int) :
    sdOf (s.allocIngestBlock now pc oid tl).1 = sdOf s := by
  unfold allocIngestBlock
  split
  · exact allocIngestIter_sd _ _ _ _
  · exact allocIngestIter_sd _ _ _ _

theorem provIngestBlock_sd (s : Sys) (now : Time) (pc : Nat) (oid : Oid) (d : Nat) :
    sdOf (s.provIngestBlock now pc oid d).1 = sdOf s := by
  unfold provIngestBlock
  split
  · simp only
    split
    · rfl
    · refine Eq.trans (foldl_field sdOf _ ?_ _ _) rfl
      intro s x; rfl
  · rfl

theorem ingestStreamIter_sd (s : Sys) (now : Time) (oid : Oid) (tl : Int) :
    sdOf (s.ingestStreamIter now oid tl).1 = sdOf s := by
  unfold ingestStreamIter; sd_split

theorem ingestStreamBlock_sd (s : Sys) (now : Time) (pc : Nat) (oid : Oid) (tl : Int) :
    sdOf (s.ingestStreamBlock now pc oid tl).1 = sdOf s := by
  unfold ingestStreamBlock
  split
  · split
    · rfl
    · split
      · rfl
      · exact ingestStreamIter_sd _ _ _ _
  · exact ingestStreamIter_sd _ _ _ _

theorem allocTaskBlock_sd (s : Sys) (now : Time) (t : Tid) (m : Mid) (preds : List Tid)
    (obs : Option Oid) (ing : Bool) (ret : Nat) :
    sdOf (s.allocTaskBlock now t m preds obs ing ret).1 = sdOf s := by
  unfold allocTaskBlock; simp only; sd_split

theorem doWorkBlock_sd (s : Sys) (now : Time) (orc : Oracle) (t : Tid) (m : Mid) (preds : List Tid)
    (ph tot : Nat) : sdOf (s.doWorkBlock now orc t m preds ph tot).1 = sdOf s := by
  obtain ⟨_, _, _, _, h5, h6⟩ := doWorkBlock_rowSame s now orc t m preds ph tot
  unfold sdOf; rw [h5, h6]

theorem hot2coldIter_sd (s : Sys) (now : Time) (o : Oid) (left : Int) :
    sdOf (s.hot2coldIter now o left).1 = sdOf s := by
  unfold hot2coldIter; sd_split

theorem hot2coldBlock_sd (s : Sys) (now : Time) (cur : Option (Oid × Int)) :
    sdOf (s.hot2coldBlock now cur).1 = sdOf s := by
  unfold hot2coldBlock
  split
  · exact hot2coldIter_sd _ _ _ _
  · split
    · rfl
    · rfl
    · rw [hot2coldIter_sd]; rfl

theorem cold2hotIter_sd (s : Sys) (now : Time) (o : Oid) (left : Int) :
    sdOf (s.cold2hotIter now o left).1 = sdOf s := by
  unfold cold2hotIter; sd_split

theorem cold2hotBlock_sd (s : Sys) (now : Time) (cur : Option (Oid × Int)) :
    sdOf (s.cold2hotBlock now cur).1 = sdOf s := by
  unfold cold2hotBlock
  split
  · exact cold2hotIter_sd _ _ _ _
  · split
    · rfl
    · rfl
    · rw [cold2hotIter_sd]; rfl

/-- every block but `allocate_tasks`' leaves the delay report alone -/
theorem block_sd (s : Sys) (p : Proc) (orc : Oracle) (h : p.k.tag ≠ "allocTasks") :
    sdOf (s.block p orc).1 = sdOf s := by
  unfold block
  split
  · rfl
  · exact telescopeBlock_sd _ _
  · rfl
  · exact schedLoopBlock_sd _ _ _
  · exact bufferLoopBlock_sd _ _
  · exact allocIngestBlock_sd _ _ _ _ _
  · exact provIngestBlock_sd _ _ _ _ _
  · exact ingestStreamBlock_sd _ _ _ _ _
  · exact allocTaskBlock_sd _ _ _ _ _ _ _ _
  · exact doWorkBlock_sd _ _ _ _ _ _ _ _
  · rename_i hk; rw [hk] at h; exact absurd rfl h
  · exact hot2coldBlock_sd _ _ _
  · exact cold2hotBlock_sd _ _ _

theorem crash_sd (s : Sys) (e : Err) : sdOf (s.crash e) = sdOf s := by unfold crash; split <;> rfl

/-- the delay report after a step is the one the block leaves -/
theorem resume_sd (s : Sys) (pid : Nat) (orc : Oracle) (p : Proc) (hp : s.proc? pid = some p)
    (ha : p.alive = true) : sdOf (s.resume pid orc).1 = sdOf (s.block p orc).1 := by
  unfold resume
  rw [hp]
  simp only [ha, Bool.not_true, Bool.false_eq_true, if_false]
  generalize s.block p orc = r
  obtain ⟨s1, k, y⟩ := r
  cases y with
  | timeout d => rfl
  | done => rfl
  | raised e => simp only; rw [crash_sd]; rfl

theorem start_sd (s0 : Sys) : sdOf s0.start = sdOf s0 := by simp [start, spawn, sdOf]

/-! ### `allocate_tasks` -/

/-- the fold of `_update_current_plan` over the FINISHED tasks of the plan: reads the records, writes the
report only -/
def ucpFold (s : Sys) (fin : List Tid) : Sys :=
  fin.foldl (fun (s : Sys) t =>
    match s.task? t with
    | some r => if r.delayFlag then { s with schedDelayed := true, delayOffset := s.delayOffset + r.delayOffset } else s
    | none => s) s

theorem ucpFold_tasks (s : Sys) (fin : List Tid) : (ucpFold s fin).tasks = s.tasks := by
  unfold ucpFold
  apply foldl_field (·.tasks)
  intro s x
  split
  · split <;> rfl
  · rfl

theorem ucpFold_plans (s : Sys) (fin : List Tid) : (ucpFold s fin).plans = s.plans := by
  unfold ucpFold
  apply foldl_field (·.plans)
  intro s x
  split
  · split <;> rfl
  · rfl

/-- what the fold leaves in the report -/
theorem ucpFold_sd (s : Sys) (fin : List Tid) :
    ((ucpFold s fin).schedDelayed = true ↔
      s.schedDelayed = true ∨ ∃ t ∈ fin, ∃ r, s.task? t = some r ∧ r.delayFlag = true) ∧
    ((∀ t r, s.task? t = some r → 0 ≤ r.delayOffset) → s.delayOffset ≤ (ucpFold s fin).delayOffset) ∧
    ((∀ t ∈ fin, ∀ r, s.task? t = some r → r.delayFlag = false) → sdOf (ucpFold s fin) = sdOf s) := by
  induction fin generalizing s with
  | nil =>
    refine ⟨?_, fun _ => Int.le_refl _, fun _ => rfl⟩
    simp [ucpFold]
  | cons x l ih =>
    have hstep : ucpFold s (x :: l) = ucpFold
        (match s.task? x with
          | some r => if r.delayFlag then { s with schedDelayed := true, delayOffset := s.delayOffset + r.delayOffset } else s
          | none => s) l := rfl
    rw [hstep]
    cases hx : s.task? x with
    | none =>
      simp only
      obtain ⟨i1, i2, i3⟩ := ih s
      refine ⟨?_, i2, ?_⟩
      · rw [i1]
        constructor
        · rintro (h | ⟨t, ht, r, hr, hf⟩)
          · exact Or.inl h
          · exact Or.inr ⟨t, List.mem_cons_of_mem _ ht, r, hr, hf⟩
        · rintro (h | ⟨t, ht, r, hr, hf⟩)
          · exact Or.inl h
          · rcases List.mem_cons.mp ht with e | ht
            · subst e; rw [hx] at hr; cases hr
            · exact Or.inr ⟨t, ht, r, hr, hf⟩
      · intro hno
        exact i3 (fun t ht r hr => hno t (List.mem_cons_of_mem _ ht) r hr)
    | some rx =>
      simp only
      by_cases hfl : rx.delayFlag = true
      · rw [if_pos hfl]
        have htq : ∀ t, ({ s with schedDelayed := true, delayOffset := s.delayOffset + rx.delayOffset } : Sys).task? t
            = s.task? t := fun _ => rfl
        obtain ⟨i1, i2, _⟩ := ih ({ s with schedDelayed := true, delayOffset := s.delayOffset + rx.delayOffset } : Sys)
        refine ⟨?_, ?_, ?_⟩
        · rw [i1]
          constructor
          · intro _; exact Or.inr ⟨x, List.mem_cons_self, rx, hx, hfl⟩
          · intro _; exact Or.inl rfl
        · intro hnn
          have h1 := i2 (fun t r hr => hnn t r (by rw [← htq]; exact hr))
          have h2 := hnn x rx hx
          have h3 : s.delayOffset ≤ s.delayOffset + rx.delayOffset := by omega
          exact Int.le_trans h3 h1
        · intro hno
          have := hno x List.mem_cons_self rx hx
          rw [hfl] at this; cases this
      · rw [if_neg hfl]
        obtain ⟨i1, i2, i3⟩ := ih s
        refine ⟨?_, i2, ?_⟩
        · rw [i1]
          constructor
          · rintro (h | ⟨t, ht, r, hr, hf⟩)
            · exact Or.inl h
            · exact Or.inr ⟨t, List.mem_cons_of_mem _ ht, r, hr, hf⟩
          · rintro (h | ⟨t, ht, r, hr, hf⟩)
            · exact Or.inl h
            · rcases List.mem_cons.mp ht with e | ht
              · subst e; rw [hx] at hr; cases hr; exact absurd hf hfl
              · exact Or.inr ⟨t, ht, r, hr, hf⟩
        · intro hno
          exact i3 (fun t ht r hr => hno t (List.mem_cons_of_mem _ ht) r hr)

/-- the FINISHED tasks `_update_current_plan` removes from the plan of `oid` -/
def ucpFin (s : Sys) (oid : Oid) : List Tid :=
  match s.plan? oid with
  | none => []
  | some p => p.tasks.filter (fun t => (s.taskView t).status = .finished)

theorem updateCurrentPlan_sd (s : Sys) (oid : Oid) :
    sdOf (s.updateCurrentPlan oid) = sdOf (ucpFold s (ucpFin s oid)) := by
  unfold updateCurrentPlan ucpFin
  cases s.plan? oid with
  | none => rfl
  | some p => rfl

theorem atS3_sd (s1 : Sys) (out : AlgOut) (oid : Oid) :
    (atS3 s1 out oid).delayOffset = s1.delayOffset ∧
    ((atS3 s1 out oid).schedDelayed = true ↔ s1.schedDelayed = true ∨ out.status = .delayed) := by
  unfold atS3
  split
  · rename_i h; exact ⟨rfl, by simp [h]⟩
  · rename_i h; exact ⟨rfl, by simp [h, updPlan]⟩

theorem processOne_sd (now : Time) (oid : Oid) (st : PcsSt) (t : Tid) :
    sdOf (processOne now oid st t).s = sdOf st.s := by
  rcases processOne_cases now oid st t with ⟨s1, h1, hs, _⟩ | ⟨s1, m, r, cross, h1, _, _, _, hs, _⟩
  · rw [hs]; rcases h1 with rfl | ⟨mm, rfl⟩ <;> rfl
  · rw [hs]; rcases h1 with rfl | ⟨mm, rfl⟩ <;> rfl

theorem processCurrentSchedule_sd (s : Sys) (now : Time) (oid : Oid)
    (schedule pairs : List (Tid × Mid)) : sdOf (processCurrentSchedule s now oid schedule pairs).s = sdOf s := by
  unfold processCurrentSchedule
  simp only
  generalize ((dictKeys schedule).mergeSort _) = l
  have : ∀ (l : List Tid) (st : PcsSt), sdOf (l.foldl (processOne now oid) st).s = sdOf st.s := by
    intro l
    induction l with
    | nil => intro st; rfl
    | cons x r ih => intro st; exact (ih _).trans (processOne_sd now oid st x)
  exact this l { s := s, schedule := schedule, pairs := pairs, curr := [] }

theorem atStart_sd (s : Sys) (now : Time) (pc : Nat) (oid : Oid) : sdOf (atStart s now pc oid) = sdOf s := by
  unfold atStart
  split
  · refine Eq.trans (foldl_field sdOf _ ?_ _ _) rfl
    intro s x; rfl
  · rfl

/-- one iteration of `allocate_tasks`: the report after it is the report after `_update_current_plan`,
or that with DELAYED set because the algorithm returned the plan status DELAYED -/
theorem allocTasksIter_sd (a : Sys) (now : Time) (orc : Oracle) (oid : Oid)
    (sc pa : List (Tid × Mid)) (po : List Tid) :
    (a.allocTasksIter now orc oid sc pa po).1.delayOffset = (a.updateCurrentPlan oid).delayOffset ∧
    ((a.allocTasksIter now orc oid sc pa po).1.schedDelayed = true ↔
      (a.updateCurrentPlan oid).schedDelayed = true ∨
      ∃ plan out, (a.updateCurrentPlan oid).plan? oid = some plan ∧
        (a.updateCurrentPlan oid).runAlgorithm orc plan sc po = .ok out ∧ out.status = .delayed) := by
  have hout := allocTasksIter_out a now orc oid sc pa po
  generalize a.allocTasksIter now orc oid sc pa po = r at hout ⊢
  have huniq : ∀ {plan out plan' out'}, (a.updateCurrentPlan oid).plan? oid = some plan →
      (a.updateCurrentPlan oid).runAlgorithm orc plan sc po = .ok out →
      (a.updateCurrentPlan oid).plan? oid = some plan' →
      (a.updateCurrentPlan oid).runAlgorithm orc plan' sc po = .ok out' → out' = out := by
    intro plan out plan' out' h1 h2 h3 h4
    rw [h1] at h3; cases h3
    rw [h2] at h4; cases h4; rfl
  have key : ∀ plan out, (a.updateCurrentPlan oid).plan? oid = some plan →
      (a.updateCurrentPlan oid).runAlgorithm orc plan sc po = .ok out → ∀ X : Sys,
      sdOf X = sdOf (atS3 (a.updateCurrentPlan oid) out oid) →
      X.delayOffset = (a.updateCurrentPlan oid).delayOffset ∧
      (X.schedDelayed = true ↔ (a.updateCurrentPlan oid).schedDelayed = true ∨
        ∃ plan out, (a.updateCurrentPlan oid).plan? oid = some plan ∧
          (a.updateCurrentPlan oid).runAlgorithm orc plan sc po = .ok out ∧ out.status = .delayed) := by
    intro plan out hplan hrun X hX
    obtain ⟨g1, g2⟩ := atS3_sd (a.updateCurrentPlan oid) out oid
    have e1 : X.schedDelayed = (atS3 (a.updateCurrentPlan oid) out oid).schedDelayed := congrArg Prod.fst hX
    have e2 : X.delayOffset = (atS3 (a.updateCurrentPlan oid) out oid).delayOffset := congrArg Prod.snd hX
    refine ⟨e2.trans g1, ?_⟩
    rw [e1, g2]
    constructor
    · rintro (h | h)
      · exact Or.inl h
      · exact Or.inr ⟨plan, out, hplan, hrun, h⟩
    · rintro (h | ⟨plan', out', h1, h2, h3⟩)
      · exact Or.inl h
      · rw [huniq hplan hrun h1 h2] at h3; exact Or.inr h3
  cases hout with
  | noPlan hnp =>
    refine ⟨rfl, ⟨Or.inl, ?_⟩⟩
    rintro (h | ⟨plan, _, h1, _⟩)
    · exact h
    · rw [hnp] at h1; cases h1
  | algErr plan e hplan herr =>
    refine ⟨rfl, ⟨Or.inl, ?_⟩⟩
    rintro (h | ⟨plan', out', h1, h2, _⟩)
    · exact h
    · rw [hplan] at h1; cases h1
      rw [herr] at h2; cases h2
  | finish plan out hplan hrun _ _ _ _ => exact key plan out hplan hrun _ rfl
  | finishBad plan out hplan hrun _ _ _ _ => exact key plan out hplan hrun _ rfl
  | finishWait plan out hplan hrun _ _ _ => exact key plan out hplan hrun _ rfl
  | idle plan out hplan hrun _ _ => exact key plan out hplan hrun _ rfl
  | alloc plan out y hplan hrun _ _ =>
    exact key plan out hplan hrun _ (processCurrentSchedule_sd _ now oid _ _)

end Sys
end Topsim
