/-
  ResOr8 — `ResOrRI` under the block of an allocation process (port of FinishRes6).
-/
import TopsimProofs.ResOr7

namespace Topsim
namespace Sys

open Cluster

theorem resOr_ri_allocTask {s : Sys} (hs : SInv s) (h : ResOrRI s) {p : Proc} (hp : p ∈ s.procs) (ha : p.alive = true)
    (orc : Oracle) {t m preds obs ing ret} (hk : p.k = .allocTask t m preds obs ing ret) :
    ResOrRI ((s.block p orc).1.updProc p.pid (fin (s.block p orc).2.1 (s.block p orc).2.2 p.wake)) := by
  have hpw := hs.pw
  obtain ⟨U, hU⟩ := hs.ci
  have hb : s.block p orc = s.allocTaskBlock p.wake t m preds obs ing ret := by
    unfold block; simp only [hk]
  have h1 : p.k.tag ≠ "schedLoop" := by simp [hk, PK.tag]
  have h2 : p.k.tag ≠ "allocTasks" := by simp [hk, PK.tag]
  have hqu := block_queue s p orc h1 h2
  have hpl := block_plans s p orc h1 h2
  have hsched : tstat s t ≠ .unscheduled := tstat_of_sched (hU.hasRec p hp _ _ _ _ _ _ hk)
  obtain ⟨new, hprocs, hnewk⟩ := allocTaskBlock_procs s hpw p.wake t m preds obs ing ret
  have hpwX : PW (s.block p orc).1 := by
    rw [hb]; exact (allocTaskBlock_presE s hpw p.wake t m preds obs ing ret).1.pw hpw
  rw [← hb] at hprocs
  have hm := memSpec_updProc hpw hp new hprocs hpwX (fin (s.block p orc).2.1 (s.block p orc).2.2 p.wake)
  -- the shared obligations about `allocate_tasks` and allocation entries
  have hATs : ∀ q, (q = fin (s.block p orc).2.1 (s.block p orc).2.2 p.wake p ∨ q ∈ new) → q.alive = true →
      ∀ o sc pa po, q.k = .allocTasks o sc pa po false →
      q = fin (s.block p orc).2.1 (s.block p orc).2.2 p.wake p ∧ p.alive = true ∧ p.k = .allocTasks o sc pa po false := by
    intro q hq _ o sc pa po hqk
    have htag := block_tag s hpw p orc
    rcases hq with rfl | hq
    · simp only [fin_k] at hqk; rw [hqk] at htag; exact absurd htag.symm h2
    · have := hnewk q hq; rw [hqk] at this; simp [PK.tag] at this
  have hAT : ∀ q, (q = fin (s.block p orc).2.1 (s.block p orc).2.2 p.wake p ∨ q ∈ new) → q.alive = true →
      ∀ t1 m1 preds1 o ret1, q.k = .allocTask t1 m1 preds1 (some o) false ret1 →
      q = fin (s.block p orc).2.1 (s.block p orc).2.2 p.wake p ∧ p.alive = true ∧
        ∃ ret0, p.k = .allocTask t1 m1 preds1 (some o) false ret0 := by
    intro q hq _ t1 m1 preds1 o ret1 hqk
    rcases hq with rfl | hq
    · refine ⟨rfl, ha, ?_⟩
      obtain ⟨_, ret', hk'⟩ := allocTaskBlock_presE s hpw p.wake t m preds obs ing ret
      rw [← hb] at hk'
      simp only [fin_k] at hqk
      rw [hk'] at hqk
      injection hqk with e1 e2 e3 e4 e5 e6
      subst e1 e2 e3 e4 e5
      exact ⟨ret, hk⟩
    · have := hnewk q hq; rw [hqk] at this; simp [PK.tag] at this
  have hnd : s.cl.runOn.Nodup := by
    apply nodup_of_map (f := (·.task))
    rw [hU.inv.runOnTasks]; exact hU.inv.runNodup
  rcases allocTaskBlock_cases s hpw p.wake t m preds obs ing ret with
    ⟨hnr, e, he, heq⟩ | ⟨hnr, hok, heq⟩ | ⟨hr, htr, heq⟩ | ⟨hr, htr, e, he, heq⟩ | ⟨hr, htr, hok, heq⟩
  · -- refused: nothing changes but the process dies
    have hcl : (s.block p orc).1.cl = s.cl := by
      rw [hb, heq]; exact allocBegin_err_unchanged s.cl t m obs ing e he
    have htasks : (s.block p orc).1.tasks = s.tasks := by rw [hb, heq]
    have hpc0 := hU.pc_zero hp ha hk hnr
    refine h.step hpw hp hm (by simp) hqu hpl ?_ ?_ hATs hAT ?_ ?_ ?_
    · intro t' ht
      have := tstat_of_tasks (b := (s.block p orc).1.updProc p.pid (fin (s.block p orc).2.1 (s.block p orc).2.2 p.wake))
        (a := s) htasks t'
      rw [this] at ht; exact ht
    · intro o c n ht; left
      have := tstat_of_tasks (b := (s.block p orc).1.updProc p.pid (fin (s.block p orc).2.1 (s.block p orc).2.2 p.wake))
        (a := s) htasks (.wf o c n)
      rw [this] at ht; exact ht
    · intro e' he'
      have : e' ∈ s.cl.runOn := by
        have : ((s.block p orc).1.updProc p.pid (fin (s.block p orc).2.1 (s.block p orc).2.2 p.wake)).cl = s.cl := hcl
        rw [this] at he'; exact he'
      obtain ⟨q, hq, hqa, hqc, preds', ret', hqk⟩ := h.rc e' this
      refine ⟨q, ?_, hqa, hqc, preds', ret', hqk⟩
      rcases hm.old hpw hp hq with rfl | hq'
      · omega
      · exact hq'
    · intro o ho
      have : ((s.block p orc).1.updProc p.pid (fin (s.block p orc).2.1 (s.block p orc).2.2 p.wake)).cl = s.cl := hcl
      rw [this] at ho; exact ho
    · have : ((s.block p orc).1.updProc p.pid (fin (s.block p orc).2.1 (s.block p orc).2.2 p.wake)).cl = s.cl := hcl
      rw [this]; exact h.keyNE
  · -- first block
    have hcl : (s.block p orc).1.cl = (s.cl.allocBegin t m obs ing).1 := by rw [hb, heq]; rfl
    have hpc0 := hU.pc_zero hp ha hk hnr
    obtain ⟨f1, _, _, _⟩ := allocBegin_fields s.cl t m obs ing hok
    obtain ⟨k1, k2⟩ := allocBegin_key s.cl t m obs ing h.keyNE
    have hts : ∀ t', t' ≠ t → tstat (s.block p orc).1 t' = tstat s t' := by
      intro t' hne
      rw [hb, heq]
      exact tstat_updTask_ne _ (fun r : TaskRec => { r with status := .scheduled }) (fun _ => rfl) hne
    have htt : tstat (s.block p orc).1 t = .scheduled := by
      rw [hb, heq]
      cases hr : s.task? t with
      | none => rw [tstat_eq, hr] at hsched; exact absurd rfl hsched
      | some r =>
        exact tstat_updTask_set _ t (fun r : TaskRec => { r with status := .scheduled }) (fun _ => rfl) .scheduled
          (fun _ => rfl) (r := r) hr
    have hy : (s.block p orc).2.2 = .timeout 1 ∧ (s.block p orc).2.1 = .allocTask t m preds obs ing s.nextPid := by
      rw [hb, heq]; exact ⟨rfl, rfl⟩
    refine h.step hpw hp hm (by simp) hqu hpl ?_ ?_ hATs hAT ?_ ?_ ?_
    · intro t' ht
      have ht' : tstat (s.block p orc).1 t' = .unscheduled := ht
      by_cases e : t' = t
      · rw [e, htt] at ht'; exact absurd ht' (by simp)
      · rw [hts _ e] at ht'; exact ht'
    · intro o c n ht
      left
      have ht' : tstat (s.block p orc).1 (.wf o c n) = .finished := ht
      by_cases e : Tid.wf o c n = t
      · rw [e, htt] at ht'; exact absurd ht' (by simp)
      · rw [hts _ e] at ht'; exact ht'
    · intro e' he'
      have he'' : e' ∈ s.cl.runOn ++ [⟨t, m, obs, ing⟩] := by
        have : ((s.block p orc).1.updProc p.pid (fin (s.block p orc).2.1 (s.block p orc).2.2 p.wake)).cl.runOn
            = s.cl.runOn ++ [⟨t, m, obs, ing⟩] := by
          show (s.block p orc).1.cl.runOn = _
          rw [hcl]; exact f1
        rw [this] at he'; exact he'
      rcases List.mem_append.mp he'' with he0 | he0
      · obtain ⟨q, hq, hqa, hqc, preds', ret', hqk⟩ := h.rc e' he0
        refine ⟨q, ?_, hqa, hqc, preds', ret', hqk⟩
        rcases hm.old hpw hp hq with rfl | hq'
        · omega
        · exact hq'
      · simp only [List.mem_singleton] at he0
        subst he0
        refine ⟨_, (hm _).mpr (Or.inl rfl), ?_, by simp, preds, s.nextPid, ?_⟩
        · rw [hy.1]; simp [ha]
        · simp only [fin_k]; exact hy.2
    · intro o ho
      have : ((s.block p orc).1.updProc p.pid (fin (s.block p orc).2.1 (s.block p orc).2.2 p.wake)).cl = _ := hcl
      rw [this] at ho; exact k2 o ho
    · have : ((s.block p orc).1.updProc p.pid (fin (s.block p orc).2.1 (s.block p orc).2.2 p.wake)).cl = _ := hcl
      rw [this]; exact k1
  · -- polling
    have hX : (s.block p orc).1 = s := by rw [hb, heq]
    have hpc := hU.pc_pos hp ha hk hr
    have hy : (s.block p orc).2.2 = .timeout 1 ∧ (s.block p orc).2.1 = .allocTask t m preds obs ing ret := by
      rw [hb, heq]; exact ⟨rfl, rfl⟩
    refine h.step hpw hp hm (by simp) hqu hpl ?_ ?_ hATs hAT ?_ ?_ ?_
    · intro t' ht
      have ht' : tstat (s.block p orc).1 t' = .unscheduled := ht
      rw [hX] at ht'; exact ht'
    · intro o c n ht; left
      have ht' : tstat (s.block p orc).1 (.wf o c n) = .finished := ht
      rw [hX] at ht'; exact ht'
    · intro e' he'
      have : e' ∈ s.cl.runOn := by
        have : ((s.block p orc).1.updProc p.pid (fin (s.block p orc).2.1 (s.block p orc).2.2 p.wake)).cl = s.cl := by
          show (s.block p orc).1.cl = _; rw [hX]
        rw [this] at he'; exact he'
      obtain ⟨q, hq, hqa, hqc, preds', ret', hqk⟩ := h.rc e' this
      rcases hm.old hpw hp hq with rfl | hq'
      · refine ⟨_, (hm _).mpr (Or.inl rfl), ?_, by simp, preds', ret', ?_⟩
        · rw [hy.1]; simp [ha]
        · simp only [fin_k]; rw [hy.2, ← hk]; exact hqk
      · exact ⟨q, hq', hqa, hqc, preds', ret', hqk⟩
    · intro o ho
      have : ((s.block p orc).1.updProc p.pid (fin (s.block p orc).2.1 (s.block p orc).2.2 p.wake)).cl = s.cl := by
        show (s.block p orc).1.cl = _; rw [hX]
      rw [this] at ho; exact ho
    · have : ((s.block p orc).1.updProc p.pid (fin (s.block p orc).2.1 (s.block p orc).2.2 p.wake)).cl = s.cl := by
        show (s.block p orc).1.cl = _; rw [hX]
      rw [this]; exact h.keyNE
  · -- completion refused: impossible
    exfalso
    have := (hU.atEnd hpw hp ha hk hr (fin p.k .done p.wake) (by simp) (by simp) (by simp)).1
    rw [this] at he; exact absurd he (by simp)
  · -- completion
    have hcl : (s.block p orc).1.cl = (s.cl.allocEnd t m obs ing).1 := by rw [hb, heq]; rfl
    have hpc := hU.pc_pos hp ha hk hr
    obtain ⟨f1, _, _, _⟩ := allocEnd_fields s.cl t m obs ing hok
    obtain ⟨k1, k2⟩ := allocEnd_key s.cl t m obs ing h.keyNE
    have hts : ∀ t', t' ≠ t → tstat (s.block p orc).1 t' = tstat s t' := by
      intro t' hne
      rw [hb, heq]
      exact tstat_updTask_ne _ (fun r : TaskRec => { r with status := .finished }) (fun _ => rfl) hne
    have htt : tstat (s.block p orc).1 t = .finished := by
      rw [hb, heq]
      cases hr' : s.task? t with
      | none => rw [tstat_eq, hr'] at hsched; exact absurd rfl hsched
      | some r =>
        exact tstat_updTask_set _ t (fun r : TaskRec => { r with status := .finished }) (fun _ => rfl) .finished
          (fun _ => rfl) (r := r) hr'
    have hy : (s.block p orc).2.2 = .done := by rw [hb, heq]
    have hent := hU.runOn p hp ha t m preds obs ing ret hk hpc
    refine h.step hpw hp hm (by simp) hqu hpl ?_ ?_ hATs hAT ?_ ?_ ?_
    · intro t' ht
      have ht' : tstat (s.block p orc).1 t' = .unscheduled := ht
      by_cases e : t' = t
      · rw [e, htt] at ht'; exact absurd ht' (by simp)
      · rw [hts _ e] at ht'; exact ht'
    · intro o c n ht
      have ht' : tstat (s.block p orc).1 (.wf o c n) = .finished := ht
      by_cases e : Tid.wf o c n = t
      · -- no other live allocation process carries this task
        right
        intro q hq hqa m1 preds1 o1 ret1 hqk
        rcases (hm q).mp hq with rfl | ⟨hq0, hne⟩ | hqn
        · rw [hy] at hqa; simp at hqa
        · rw [e] at hqk
          exact hne (hU.uniq q hq0 p hp hqa ha _ _ _ _ _ _ _ _ _ _ _ hqk hk)
        · have := hnewk q hqn; rw [hqk] at this; simp [PK.tag] at this
      · left; rw [hts _ e] at ht'; exact ht'
    · intro e' he'
      have he'' : e' ∈ s.cl.runOn.erase ⟨t, m, obs, ing⟩ := by
        have : ((s.block p orc).1.updProc p.pid (fin (s.block p orc).2.1 (s.block p orc).2.2 p.wake)).cl.runOn
            = s.cl.runOn.erase ⟨t, m, obs, ing⟩ := by
          show (s.block p orc).1.cl.runOn = _
          rw [hcl]; exact f1
        rw [this] at he'; exact he'
      obtain ⟨hne, he0⟩ := (List.Nodup.mem_erase_iff hnd).mp he''
      obtain ⟨q, hq, hqa, hqc, preds', ret', hqk⟩ := h.rc e' he0
      refine ⟨q, ?_, hqa, hqc, preds', ret', hqk⟩
      rcases hm.old hpw hp hq with rfl | hq'
      · exfalso
        rw [hk] at hqk
        injection hqk with e1 e2 e3 e4 e5 e6
        apply hne
        cases e' with
        | mk a b c d => simp only at e1 e2 e4 e5; rw [e1, e2, e4, e5]
      · exact hq'
    · intro o ho
      have : ((s.block p orc).1.updProc p.pid (fin (s.block p orc).2.1 (s.block p orc).2.2 p.wake)).cl = _ := hcl
      rw [this] at ho; exact k2 o ho
    · have : ((s.block p orc).1.updProc p.pid (fin (s.block p orc).2.1 (s.block p orc).2.2 p.wake)).cl = _ := hcl
      rw [this]; exact k1

end Sys
end Topsim
