/-
  OnTime9 — the machines held in the ingest pool for one observation
  (`ingestHeld`): from its provisioning block until the first of its allocation
  processes ends, exactly the pipeline demand (`OtCount`), along the runs in which
  no exception has been raised; an allocation process ends at `ast + duration` or
  later (`OtRel`).
  -- F13: `OtCount` was "until the first of its ingest BODIES ends" (`NoDeadBody`); with the
  -- repair a machine stays with its task after the body has ended, until `now ≥ aft`.
-/
import TopsimProofs.OnTime8

namespace Topsim

open KState Sys

/-! ### counting after `erase` -/

theorem ot_countP_erase_of_not {α} [DecidableEq α] (Q : α → Bool) (l : List α) (a : α) (h : Q a = false) :
    (l.erase a).countP Q = l.countP Q := by
  induction l with
  | nil => rfl
  | cons b l ih =>
    rw [List.erase_cons]
    by_cases e : b = a
    · subst e
      simp [h]
    · have : (b == a) = false := by simpa using e
      simp only [this, Bool.false_eq_true, if_false, List.countP_cons, ih]

namespace Sys

/-- the allocation processes of observation `o` that hold a machine of the ingest pool -/
def ingestHeld (s : Sys) (o : Oid) : Nat := ilEntCount s.cl.ilEntries o

/-- the provisioning block of observation `o` has run -/
def Provisioned (s : Sys) (o : Oid) : Prop := ∃ q ∈ s.procs, ∃ d, q.k = .provIngest o d ∧ 1 ≤ q.pc

/-- no body of an ingest task of observation `o` has ended -/
def NoDeadBody (s : Sys) (o : Oid) : Prop :=
  ∀ r ∈ s.procs, ∀ i m c ph tot, r.k = .doWork (.ingest o i) m c ph tot → r.alive = true

/-- F13: no ingest allocation process of observation `o` has ended -/
def NoDeadAlloc (s : Sys) (o : Oid) : Prop :=
  ∀ q ∈ s.procs, ∀ t m preds ret, q.k = .allocTask t m preds (some o) true ret → q.alive = true

theorem ot_cast_pred_succ (a D : Nat) (hD : 1 ≤ D) :
    ((a + (D - 1) : Nat) : Time) + 1 = ((a + D : Nat) : Time) := by
  rw [lcCast_succ]
  congr 1
  omega

theorem ot_ilDemand_keep {s s' : Sys} (h : ObsKeep s s') (o : Oid) : s'.ilDemand o = s.ilDemand o := by
  unfold ilDemand
  cases hob : s.obs? o with
  | none =>
    cases hob' : s'.obs? o with
    | none => rfl
    | some ob' =>
      obtain ⟨ob, h1, _⟩ := h.bwd hob'
      rw [hob] at h1; cases h1
  | some ob =>
    obtain ⟨ob', h1, h2⟩ := h.fwd hob
    rw [h1]
    exact (ot_stat_fields h2).2.2.2.2.2

/-! ### the blocks that leave the ghost lists alone -/

theorem ot_block_entries (s : Sys) (p : Proc) (orc : Oracle) (hpre : s.alg = .oracle → orc.preOk)
    (h1 : p.k.tag ≠ "provIngest") (h2 : p.k.tag ≠ "allocTask") :
    (s.block p orc).1.cl.pending = s.cl.pending ∧ (s.block p orc).1.cl.runOn = s.cl.runOn := by
  cases hk : p.k with
  | monitor => rw [block_monitor orc hk]; exact ⟨rfl, rfl⟩
  | telescope => rw [block_telescope orc hk, telescopeBlock_clq]; exact ⟨rfl, rfl⟩
  | clusterLoop =>
    rw [block_clusterLoop orc hk]
    show (s.cl.loopTick).pending = _ ∧ (s.cl.loopTick).runOn = _
    unfold Cluster.loopTick; split <;> exact ⟨rfl, rfl⟩
  | schedLoop => rw [block_schedLoop orc hk, schedLoopBlock_clq]; exact ⟨rfl, rfl⟩
  | bufferLoop => rw [block_bufferLoop orc hk, bufferLoopBlock_clq]; exact ⟨rfl, rfl⟩
  | allocIngest o tl =>
    rw [block_allocIngest orc hk]
    rcases allocIngestBlock_clq s p.wake p.pc o tl with h | h <;> rw [h] <;> exact ⟨rfl, rfl⟩
  | provIngest o d => rw [hk] at h1; exact absurd rfl h1
  | ingestStream o tl => rw [block_ingestStream orc hk, ingestStreamBlock_clq]; exact ⟨rfl, rfl⟩
  | allocTask t m preds obs ing ret => rw [hk] at h2; exact absurd rfl h2
  | doWork t m preds ph tot => rw [block_doWork orc hk, doWorkBlock_clq]; exact ⟨rfl, rfl⟩
  | allocTasks o sc pa po fn =>
    rw [block_allocTasks orc hk]
    have := allocTasksBlock_iltq s p.wake orc hpre p.pc o sc pa po fn
    exact ⟨this.pend, this.runOn⟩
  | hot2cold cur => rw [block_hot2cold orc hk, hot2coldBlock_clq]; exact ⟨rfl, rfl⟩
  | cold2hot cur => rw [block_cold2hot orc hk, cold2hotBlock_clq]; exact ⟨rfl, rfl⟩

/-! ### the provisioning block -/

theorem ot_provIngestBlock_cl (s : Sys) (now : Time) (pc : Nat) (oid : Oid) (d : Nat) :
    (s.provIngestBlock now pc oid d).1.cl = if pc = 0 then (s.cl.provisionIngest d oid).1 else s.cl := by
  unfold provIngestBlock
  split
  · simp only
    generalize s.cl.provisionIngest d oid = r
    obtain ⟨cl1, e1, pairs⟩ := r
    cases e1 with
    | some e => rfl
    | none =>
      simp only
      exact (foldSpawn_spec (fun x : Mid × Tid => PK.allocTask x.2 x.1 [] (some oid) true 0) now pairs _).2.2.1
  · rfl

theorem ot_provIngestBlock_ok (s : Sys) (now : Time) (oid : Oid) (d : Nat)
    (hnr : ∀ e, (s.provIngestBlock now 0 oid d).2.2 ≠ .raised e) :
    (s.cl.provisionIngest d oid).2.1 = none := by
  unfold provIngestBlock at hnr
  simp only [if_true] at hnr
  generalize s.cl.provisionIngest d oid = r at hnr ⊢
  obtain ⟨cl1, e1, pairs⟩ := r
  cases e1 with
  | some e => exact absurd rfl (hnr e)
  | none => rfl

theorem ot_provisionIngest_len (c : Cluster) (d : Nat) (o : Oid) (h : (c.provisionIngest d o).2.1 = none) :
    (c.provisionIngest d o).2.2.length = d := by
  unfold Cluster.provisionIngest at h ⊢
  by_cases hd : d > c.available.length
  · simp [hd] at h
  · simp only [hd, if_false]
    simp only [List.length_map, List.length_zipIdx, List.length_take]
    omega

/-! ### the invariant -/

-- F13: `NoDeadBody` -> `NoDeadAlloc`
def OtCount (s : Sys) : Prop := ∀ o, Provisioned s o → NoDeadAlloc s o → s.ingestHeld o = s.ilDemand o

theorem otCount_start (s0 : Sys) (hw : WFConfig s0) : OtCount s0.start := by
  intro o ⟨q, hq, d, hk, _⟩
  rw [start_procs s0 hw] at hq
  simp only [List.mem_cons, List.not_mem_nil, or_false] at hq
  rcases hq with rfl | rfl | rfl | rfl | rfl <;> simp at hk

theorem otCount_step {s : Sys} (hs : SInv s) (_hti : ILTI s) (hil : ILInv s) (h : OtCount s) {pid : Nat}
    {p : Proc} (hp : s.proc? pid = some p) (ha : p.alive = true)
    (hmin : ∀ q ∈ s.procs, q.alive = true → p.wake ≤ q.wake) (orc : Oracle)
    (hpre : s.alg = .oracle → orc.preOk) (hnr : ∀ e, (s.block p orc).2.2 ≠ .raised e) :
    OtCount (s.resume pid orc).1 := by
  obtain ⟨hpm, hpid⟩ := proc?_some hp
  obtain ⟨U, hU⟩ := hs.ci
  obtain ⟨new, hm, hnew, hnewp⟩ := ot_step_table hs hp ha hmin orc
  have hcore := resume_core s pid orc p hp ha
  have hclEq : (s.resume pid orc).1.cl = (s.block p orc).1.cl := hcore.cl
  have hdem : ∀ o, (s.resume pid orc).1.ilDemand o = s.ilDemand o :=
    ot_ilDemand_keep (ot_resume_keep s pid orc p hp ha)
  intro o hprov hnd
  -- no allocation process of `o` had ended before
  have hnd0 : NoDeadAlloc s o := by
    intro r hr t m c ret hk
    by_cases e : r.pid = p.pid
    · have : r = p := hs.pw.eq_of_pid hr hpm e
      rw [this]; exact ha
    · exact hnd r ((hm r).mpr (Or.inr (Or.inl ⟨hr, e⟩))) t m c ret hk
  -- a provisioning process of `o` that has run, other than the one that ran just now, is an old one
  have hprovOld : (∀ d, (s.block p orc).2.1 = .provIngest o d → Provisioned s o) → Provisioned s o := by
    intro hself
    obtain ⟨q, hq, d, hqk, hqc⟩ := hprov
    rcases (hm q).mp hq with rfl | ⟨hq0, _⟩ | hqn
    · rw [fin_k] at hqk; exact hself d hqk
    · exact ⟨q, hq0, d, hqk, hqc⟩
    · rw [(hnewp q hqn).2.1] at hqc; omega
  unfold ingestHeld
  rw [hdem, hclEq]
  have hIH : Provisioned s o → ilEntCount s.cl.ilEntries o = s.ilDemand o := fun hp0 => h o hp0 hnd0
  -- the ghost lists unchanged
  have hsame : (s.block p orc).1.cl.pending = s.cl.pending → (s.block p orc).1.cl.runOn = s.cl.runOn →
      Provisioned s o → ilEntCount (s.block p orc).1.cl.ilEntries o = s.ilDemand o := by
    intro e1 e2 hp0
    unfold Cluster.ilEntries
    rw [e1, e2]
    exact hIH hp0
  cases hk : p.k with
  | provIngest o' d =>
    have hb : s.block p orc = s.provIngestBlock p.wake p.pc o' d := block_provIngest orc hk
    have hcl := ot_provIngestBlock_cl s p.wake p.pc o' d
    by_cases hpc : p.pc = 0
    · -- the provisioning block itself
      rw [hb] at hnr ⊢
      rw [hpc] at hnr hcl ⊢
      rw [hcl, if_pos rfl]
      have hok := ot_provIngestBlock_ok s p.wake o' d hnr
      have hfresh : ∀ i, Tid.ingest o' i ∉ U := by
        intro i hi
        obtain ⟨q, hq, d', hqk, hqc⟩ := hU.provOnce o' i hi
        have e' := hU.provUniq q hq p hpm o' d' d hqk hk
        have : q = p := hs.pw.eq_of_pid hq hpm e'
        subst this
        omega
      obtain ⟨_, f1, f2, _⟩ := provisionIngest_sharp hU.inv d o' hfresh hok
      have hlen := ot_provisionIngest_len s.cl d o' hok
      unfold ilEntCount Cluster.ilEntries
      rw [f1, f2]
      simp only [List.countP_append]
      by_cases hoo : o' = o
      · subst hoo
        -- nothing was held for `o` before, and all the new entries are for `o`
        have hilc : ILC s.procs s.ilDemand s.cl.ilEntries s.provIngest s.maxIngest s.admitted := hil
        obtain ⟨hd, w, hw, w1, _, w3, _⟩ := hilc.piLive p hpm ha hpc o' d hk
        have holive : o' ∈ ilLiveAI s.procs := mem_ilLiveAI.mpr ⟨w, hw, w1, w3⟩
        have hunp : ilUnprovisioned s.procs o' = true :=
          ilUnprovisioned_iff.mpr ⟨p, hpm, ha, hpc, Or.inr (by rw [hk]; rfl)⟩
        have hpt : ilPromisedTo s.procs s.ilDemand o' = s.ilDemand o' := by
          unfold ilPromisedTo; rw [if_pos hunp]
        have hE0 : ilEntCount s.cl.ilEntries o' = 0 := by
          have := hilc.perObs o' holive
          omega
        unfold ilEntCount Cluster.ilEntries at hE0
        rw [List.countP_append] at hE0
        have hall : ((s.cl.provisionIngest d o').2.2.map
            (fun x => (⟨x.2, x.1, some o', true⟩ : RunEntry))).countP (fun e => e.obs == some o')
            = (s.cl.provisionIngest d o').2.2.length := by
          rw [List.countP_map]
          simp [List.countP_eq_length]
        rw [hall, hlen, hd]
        omega
      · -- the new entries are for another observation
        have hnone : ((s.cl.provisionIngest d o').2.2.map
            (fun x => (⟨x.2, x.1, some o', true⟩ : RunEntry))).countP (fun e => e.obs == some o) = 0 := by
          rw [List.countP_map, List.countP_eq_zero]
          intro x _
          simp [hoo]
        rw [hnone]
        have hp0 : Provisioned s o := by
          apply hprovOld
          intro d' hk'
          rw [hb, hpc, provIngestBlock_kind'] at hk'
          injection hk' with e1 _
          exact absurd e1 hoo
        have := hIH hp0
        unfold ilEntCount Cluster.ilEntries at this
        rw [List.countP_append] at this
        omega
    · -- a later block of the provisioning process: nothing changes
      have hcl' : (s.block p orc).1.cl = s.cl := by rw [hb, hcl, if_neg hpc]
      rw [hcl']
      apply hIH
      apply hprovOld
      intro d' hk'
      rw [hb, provIngestBlock_kind'] at hk'
      injection hk' with e1 e2
      subst e1 e2
      exact ⟨p, hpm, d, hk, by omega⟩
  | allocTask t m preds obs ing ret =>
    have hb : s.block p orc = s.allocTaskBlock p.wake t m preds obs ing ret := block_allocTask orc hk
    have hp0 : Provisioned s o := by
      apply hprovOld
      intro d' hk'
      have htag := block_tag s hs.pw p orc
      rw [hk', hk] at htag
      simp [PK.tag] at htag
    rcases allocTaskBlock_cases s hs.pw p.wake t m preds obs ing ret with
      ⟨_, e, _, heq⟩ | ⟨hnrun, hok, heq⟩ | ⟨_, _, heq⟩ | ⟨_, _, e, _, heq⟩ | ⟨hrun, htr, hok, heq⟩
    · exact absurd (by rw [hb, heq]) (hnr e)
    · -- the first block: the entry moves from `pending` to `runOn`
      rw [hb, heq]
      show ilEntCount (s.cl.allocBegin t m obs ing).1.ilEntries o = _
      have hpc0 := hU.pc_zero hpm ha hk hnrun
      obtain ⟨f1, f2, _, _⟩ := allocBegin_fields s.cl t m obs ing hok
      rw [← hIH hp0]
      unfold ilEntCount Cluster.ilEntries
      rw [f1, f2]
      cases ing with
      | false =>
        simp only [Bool.false_eq_true, if_false, List.filter_append, List.filter_cons, List.filter_nil,
          List.append_nil]
      | true =>
        have hpend : (⟨t, m, obs, true⟩ : RunEntry) ∈ s.cl.pending := hU.pend p hpm ha t m preds obs ret hk hpc0
        simp only [if_true, List.filter_append, List.filter_cons, List.filter_nil, List.countP_append,
          List.countP_cons, List.countP_nil]
        have hperm := (List.perm_cons_erase hpend).countP_eq (fun e => e.obs == some o)
        rw [List.countP_cons] at hperm
        dsimp only at hperm ⊢
        omega
    · rw [hb, heq]; exact hIH hp0
    · exact absurd (by rw [hb, heq]) (hnr e)
    · -- the last block: the entry leaves `runOn`
      rw [hb, heq]
      show ilEntCount (s.cl.allocEnd t m obs ing).1.ilEntries o = _
      obtain ⟨f1, f2, _, _⟩ := allocEnd_fields s.cl t m obs ing hok
      have hpc := hU.pc_pos hpm ha hk hrun
      by_cases hmine : ing = true ∧ obs = some o
      · -- a machine of `o` is given back: the allocation process has ended
        exfalso
        obtain ⟨hi, ho⟩ := hmine
        subst hi ho
        have := hnd _ ((hm _).mpr (Or.inl rfl)) t m preds ret (by rw [fin_k, hb, heq])
        rw [hb, heq] at this
        simp at this
      · rw [← hIH hp0]
        unfold ilEntCount Cluster.ilEntries
        rw [f1, f2, List.countP_append, List.countP_append, List.countP_filter, List.countP_filter]
        congr 1
        apply ot_countP_erase_of_not
        cases ing with
        | false => simp
        | true =>
          have : obs ≠ some o := fun e => hmine ⟨rfl, e⟩
          simp [this]
  | monitor =>
    obtain ⟨e1, e2⟩ := ot_block_entries s p orc hpre (by rw [hk]; simp [PK.tag]) (by rw [hk]; simp [PK.tag])
    refine hsame e1 e2 (hprovOld ?_)
    intro d' hk'
    have htag := block_tag s hs.pw p orc
    rw [hk', hk] at htag
    simp [PK.tag] at htag
  | telescope =>
    obtain ⟨e1, e2⟩ := ot_block_entries s p orc hpre (by rw [hk]; simp [PK.tag]) (by rw [hk]; simp [PK.tag])
    refine hsame e1 e2 (hprovOld ?_)
    intro d' hk'
    have htag := block_tag s hs.pw p orc
    rw [hk', hk] at htag
    simp [PK.tag] at htag
  | clusterLoop =>
    obtain ⟨e1, e2⟩ := ot_block_entries s p orc hpre (by rw [hk]; simp [PK.tag]) (by rw [hk]; simp [PK.tag])
    refine hsame e1 e2 (hprovOld ?_)
    intro d' hk'
    have htag := block_tag s hs.pw p orc
    rw [hk', hk] at htag
    simp [PK.tag] at htag
  | schedLoop =>
    obtain ⟨e1, e2⟩ := ot_block_entries s p orc hpre (by rw [hk]; simp [PK.tag]) (by rw [hk]; simp [PK.tag])
    refine hsame e1 e2 (hprovOld ?_)
    intro d' hk'
    have htag := block_tag s hs.pw p orc
    rw [hk', hk] at htag
    simp [PK.tag] at htag
  | bufferLoop =>
    obtain ⟨e1, e2⟩ := ot_block_entries s p orc hpre (by rw [hk]; simp [PK.tag]) (by rw [hk]; simp [PK.tag])
    refine hsame e1 e2 (hprovOld ?_)
    intro d' hk'
    have htag := block_tag s hs.pw p orc
    rw [hk', hk] at htag
    simp [PK.tag] at htag
  | allocIngest o' tl =>
    obtain ⟨e1, e2⟩ := ot_block_entries s p orc hpre (by rw [hk]; simp [PK.tag]) (by rw [hk]; simp [PK.tag])
    refine hsame e1 e2 (hprovOld ?_)
    intro d' hk'
    have htag := block_tag s hs.pw p orc
    rw [hk', hk] at htag
    simp [PK.tag] at htag
  | ingestStream o' tl =>
    obtain ⟨e1, e2⟩ := ot_block_entries s p orc hpre (by rw [hk]; simp [PK.tag]) (by rw [hk]; simp [PK.tag])
    refine hsame e1 e2 (hprovOld ?_)
    intro d' hk'
    have htag := block_tag s hs.pw p orc
    rw [hk', hk] at htag
    simp [PK.tag] at htag
  | doWork t m preds ph tot =>
    obtain ⟨e1, e2⟩ := ot_block_entries s p orc hpre (by rw [hk]; simp [PK.tag]) (by rw [hk]; simp [PK.tag])
    refine hsame e1 e2 (hprovOld ?_)
    intro d' hk'
    have htag := block_tag s hs.pw p orc
    rw [hk', hk] at htag
    simp [PK.tag] at htag
  | allocTasks o' sc pa po fn =>
    obtain ⟨e1, e2⟩ := ot_block_entries s p orc hpre (by rw [hk]; simp [PK.tag]) (by rw [hk]; simp [PK.tag])
    refine hsame e1 e2 (hprovOld ?_)
    intro d' hk'
    have htag := block_tag s hs.pw p orc
    rw [hk', hk] at htag
    simp [PK.tag] at htag
  | hot2cold cur =>
    obtain ⟨e1, e2⟩ := ot_block_entries s p orc hpre (by rw [hk]; simp [PK.tag]) (by rw [hk]; simp [PK.tag])
    refine hsame e1 e2 (hprovOld ?_)
    intro d' hk'
    have htag := block_tag s hs.pw p orc
    rw [hk', hk] at htag
    simp [PK.tag] at htag
  | cold2hot cur =>
    obtain ⟨e1, e2⟩ := ot_block_entries s p orc hpre (by rw [hk]; simp [PK.tag]) (by rw [hk]; simp [PK.tag])
    refine hsame e1 e2 (hprovOld ?_)
    intro d' hk'
    have htag := block_tag s hs.pw p orc
    rw [hk', hk] at htag
    simp [PK.tag] at htag

/-! ### an allocation process ends at `ast + duration` or later (F13) -/

/-- an ingest allocation process that has ended ran its last block (the one that gives the machine
back) at `ast + duration` or later -/
def OtRel (s : Sys) : Prop :=
  ∀ q ∈ s.procs, q.alive = false → ∀ t m preds o ret, q.k = .allocTask t m preds (some o) true ret →
    ∃ ob a, s.obs? o = some ob ∧ ob.ast = some a ∧ (((a + ob.duration : Nat) : Nat) : Time) ≤ q.wake

theorem otRel_start (s0 : Sys) (hw : WFConfig s0) : OtRel s0.start := by
  intro q hq _ t m preds o ret hk
  rw [start_procs s0 hw] at hq
  simp only [List.mem_cons, List.not_mem_nil, or_false] at hq
  rcases hq with rfl | rfl | rfl | rfl | rfl <;> simp at hk

theorem otRel_step {s : Sys} (hs : SInv s) (hti : ILTI s) (hA : OtAst s) (hB : OtBody s) (h : OtRel s)
    {pid : Nat} {p : Proc} (hp : s.proc? pid = some p) (ha : p.alive = true)
    (hmin : ∀ q ∈ s.procs, q.alive = true → p.wake ≤ q.wake) (orc : Oracle)
    (hnr : ∀ e, (s.block p orc).2.2 ≠ .raised e) : OtRel (s.resume pid orc).1 := by
  obtain ⟨hpm, hpid⟩ := proc?_some hp
  obtain ⟨U, hU⟩ := hs.ci
  obtain ⟨new, hm, hnew, hnewp⟩ := ot_step_table hs hp ha hmin orc
  have hobsKeep : ∀ o ob a, s.obs? o = some ob → ob.ast = some a →
      ∃ ob', (s.resume pid orc).1.obs? o = some ob' ∧ ob'.ast = some a ∧ ob'.duration = ob.duration := by
    intro o ob a hob hast
    obtain ⟨ob', h1, h2, h3⟩ := ot_ast_persist hs hti hA hp ha hmin orc hob hast
    exact ⟨ob', h1, h2, (ot_stat_fields h3).2.2.1⟩
  intro q hq hqa t m preds o ret hqk
  rcases (hm q).mp hq with rfl | ⟨hq0, _⟩ | hqn
  · -- the process that ran: an allocation process in its last block
    simp only [fin_k] at hqk
    have htag := block_tag s hs.pw p orc
    rw [hqk] at htag
    cases hpk : p.k <;> rw [hpk] at htag <;> simp [PK.tag] at htag
    rename_i t0 m0 preds0 obs0 ing0 ret0
    have hb : s.block p orc = s.allocTaskBlock p.wake t0 m0 preds0 obs0 ing0 ret0 := block_allocTask orc hpk
    rcases allocTaskBlock_cases' s hs.pw p.wake t0 m0 preds0 obs0 ing0 ret0 with
      ⟨_, e, _, heq⟩ | ⟨_, _, heq⟩ | ⟨_, _, heq⟩ | ⟨_, _, e, _, heq⟩ | ⟨hrun, ⟨htr, haft⟩, hok, heq⟩
    · exact absurd (by rw [hb, heq]) (hnr e)
    · rw [hb, heq] at hqa; simp [ha] at hqa
    · rw [hb, heq] at hqa; simp [ha] at hqa
    · exact absurd (by rw [hb, heq]) (hnr e)
    · rw [hb, heq] at hqk
      injection hqk with e1 e2 e3 e4 e5 e6
      subst e1 e2 e3 e4 e5 e6
      have hpc := hU.pc_pos hpm ha hpk hrun
      obtain ⟨⟨i, hti'⟩, r, hr, hrp, _, phr, totr, hrk, _⟩ := hti.atRun p hpm ha hpc _ _ _ _ _ hpk
      subst hti'
      have hdead : r.alive = false := by
        unfold procTriggered at htr
        have := hs.pw.proc?_of_mem hr
        rw [hrp] at this
        rw [this] at htr
        simpa using htr
      have h2 := hB.deadPh r hr o i _ _ phr totr hrk hdead
      obtain ⟨ob, a, _, hob, hast, hwk, _, _⟩ := hB.started r hr o i _ _ phr totr hrk h2
      obtain ⟨rec, hrec, hraft⟩ := hB.ended r hr o i _ _ phr totr hrk hdead
      have h7 := aftReached_eq_true haft rec _ hrec hraft
      have hD := hti.durPos ob (obs_mem_of_obs? hob).1
      rw [hwk, ot_cast_pred_succ a ob.duration hD] at h7
      obtain ⟨ob', hob', hast', hdur'⟩ := hobsKeep o ob a hob hast
      refine ⟨ob', a, hob', hast', ?_⟩
      rw [hdur', hb, heq]
      exact h7
  · obtain ⟨ob, a, hob, hast, hle⟩ := h q hq0 hqa t m preds o ret hqk
    obtain ⟨ob', hob', hast', hdur'⟩ := hobsKeep o ob a hob hast
    exact ⟨ob', a, hob', hast', by rw [hdur']; exact hle⟩
  · rw [(hnewp q hqn).1] at hqa; cases hqa

end Sys

/-- `OtCount` holds in every state of every run of the simulator in which no exception has been
raised so far -/
theorem sim_otCount (env : SimEnv) (s0 : Sys) (hw : WFConfig s0) (k : SimState) (h : SimReach env s0 k) :
    k.st.crashed = none → OtCount k.st := by
  refine SimReach.sys_induct hw (fun s => s.crashed = none → OtCount s) (fun _ => otCount_start s0 hw)
    (fun s hs hc => hs hc) (fun s hs hc => hs hc) ?_ k h
  intro k hr ih pid p hp ha hen hc
  have hinv := hr.l3inv hw
  obtain ⟨p', hp', _, hmin⟩ := hen
  rw [hp] at hp'; cases hp'
  obtain ⟨hc0, hnr⟩ := ot_resume_crashed k.st pid (env.oracle k.st) p hp ha hc
  exact otCount_step hinv.sinv hinv.ti hinv.il (ih hc0) hp ha hmin _ (fun _ => il_oracle_preOk env k.st) hnr

/-- `OtRel` holds in every state of every run of the simulator in which no exception has been
raised so far -/
theorem sim_otRel (env : SimEnv) (s0 : Sys) (hw : WFConfig s0) (k : SimState) (h : SimReach env s0 k) :
    k.st.crashed = none → OtRel k.st := by
  refine SimReach.sys_induct hw (fun s => s.crashed = none → OtRel s) (fun _ => otRel_start s0 hw)
    (fun s hs hc => hs hc) (fun s hs hc => hs hc) ?_ k h
  intro k hr ih pid p hp ha hen hc
  have hinv := hr.l3inv hw
  obtain ⟨p', hp', _, hmin⟩ := hen
  rw [hp] at hp'; cases hp'
  obtain ⟨hc0, hnr⟩ := ot_resume_crashed k.st pid (env.oracle k.st) p hp ha hc
  exact otRel_step hinv.sinv hinv.ti (sim_otAst env s0 hw k hr) (sim_otBody env s0 hw k hr hc0) (ih hc0)
    hp ha hmin _ hnr

end Topsim
