/-
  LifeCycle10 — time along a trace: no process is ever due before an event that has already
  been emitted, so the stamps of a trace never decrease.
-/
import TopsimProofs.LifeCycle9
import TopsimProofs.MonitorFirst

namespace Topsim
namespace Sys

/-! ### delays are not negative -/

theorem lcWait_ge (now : Time) (bw : Nat) (l : List (Time × Nat)) (mx : Time) :
    mx ≤ l.foldl (fun mx (p : Time × Nat) =>
      let arrive := p.1 + (p.2 : Rat) / (bw : Rat) - now
      if arrive > mx then arrive else mx) mx := by
  induction l generalizing mx with
  | nil => exact Rat.le_refl
  | cons x r ih =>
    simp only [List.foldl_cons]
    split
    · rename_i h
      exact Rat.le_trans (Rat.le_of_lt h) (ih _)
    · exact ih _

theorem lcTransferWait_nonneg (s : Sys) (now : Time) (t : Tid) (m : Mid) (preds : List Tid) (w : Time)
    (h : s.transferWait now t m preds = .ok w) : 0 ≤ w := by
  unfold transferWait at h
  split at h
  · split at h
    · exact absurd h (by simp)
    · injection h with h
      rw [← h]
      exact lcWait_ge _ _ _ 0
  · exact absurd h (by simp)

theorem lcDoWork_delay (s : Sys) (now : Time) (orc : Oracle) (t : Tid) (m : Mid) (preds : List Tid)
    (ph tot : Nat) (d : Time) (h : (s.doWorkBlock now orc t m preds ph tot).2.2 = .timeout d) : 0 ≤ d := by
  have hstart : ∀ (X : Sys × PK × Yield),
      X = (match s.task? t, s.machine? m with
        | some r, some mm =>
          match nominalDuration r.flops r.data mm.cpu mm.bw r.duration with
          | .error e => (s, PK.doWork t m preds 2 tot, Yield.raised e)
          | .ok dur =>
            let tot' := match orc.total with
              | some t => t
              | none =>
                if t.isIngest then dur
                else match dictGet orc.delayTable dur with
                | some t => t
                | none =>
                  if orc.delayScript.isEmpty then dur
                  else dur + orc.delayScript.getD
                    ((s.starts.filter (fun x => !x.isIngest)).length % orc.delayScript.length) 0
            let s1 := s.updTask t (fun r => { r with status := .running, ast := some now, duration := dur })
            let s2 := { s1 with starts := s1.starts ++ [t], active := s1.active ++ [(m, t)] }
            (s2, PK.doWork t m preds 2 tot', Yield.timeout (bodyWait tot' : Nat))
        | _, _ => (s, PK.doWork t m preds 2 tot, Yield.raised .other)) →
      X.2.2 = .timeout d → 0 ≤ d := by
    intro X hX hy
    subst hX
    split at hy
    · split at hy
      · simp at hy
      · simp only [Yield.timeout.injEq] at hy
        rw [← hy]; exact Rat.natCast_nonneg
    · simp at hy
  unfold doWorkBlock at h
  simp only at h
  split at h
  · split at h
    · exact hstart _ rfl h
    · split at h
      · simp at h
      · rename_i w hw
        simp only [Yield.timeout.injEq] at h
        rw [← h]; exact lcTransferWait_nonneg _ _ _ _ _ _ hw
  · split at h
    · exact hstart _ rfl h
    · simp at h

/-- no block asks to be resumed in the past -/
theorem lcDelay_nonneg (s : Sys) (p : Proc) (orc : Oracle) (d : Time)
    (h : (s.block p orc).2.2 = .timeout d) : 0 ≤ d := by
  cases hk : p.k.isDoWork with
  | false =>
    have := block_unit s p orc hk
    rw [h] at this
    simp only [Yield.unit] at this
    rw [this]; decide
  | true =>
    cases hpk : p.k with
    | doWork t m preds ph tot =>
      rw [block_doWork orc hpk] at h
      exact lcDoWork_delay _ _ _ _ _ _ _ _ _ h
    | _ => rw [hpk] at hk; simp [PK.isDoWork] at hk

/-! ### the integer part of a time -/

theorem le_natNow {t : Nat} {w : Rat} (h : (t : Rat) ≤ w) : t ≤ natNow w := by
  unfold natNow
  have h1 : ((t : Int) : Rat) ≤ w := by rw [Rat.intCast_natCast]; exact h
  have h2 : (t : Int) ≤ w.floor := Rat.le_floor_iff.mpr h1
  omega

theorem natCast_le_natCast {a b : Nat} (h : a ≤ b) : ((a : Nat) : Rat) ≤ ((b : Nat) : Rat) := by
  exact_mod_cast h

/-! ### the invariant -/

structure LcTI (s : Sys) (evs : List Event) : Prop where
  nonneg : ∀ q ∈ s.procs, 0 ≤ q.wake
  evle : ∀ e ∈ evs, ∀ q ∈ s.procs, q.alive = true → ((e.time : Nat) : Time) ≤ q.wake

theorem stepEvents_time (s : Sys) (pid : Nat) (orc : Oracle) (p : Proc) (hp : s.proc? pid = some p)
    (ha : p.alive = true) : ∀ e ∈ s.stepEvents pid orc, e.time = natNow p.wake := by
  by_cases hk : p.k = .monitor
  · rw [(stepEvents_monitor s pid orc p hp ha hk).1]; simp
  · obtain ⟨_, _, _, _, _, _, _, _, h⟩ := stepEvents_spec s pid orc p hp ha hk
    exact h

theorem ti_step {s : Sys} {evs : List Event} (hi : EInv s) (h : LcTI s evs) {pid : Nat} (hen : s.enabled pid)
    (orc : Oracle) : LcTI (s.resume pid orc).1 (evs ++ s.stepEvents pid orc) := by
  obtain ⟨p, hp, ha, hmin⟩ := hen
  obtain ⟨hpm, hpid⟩ := proc?_some hp
  obtain ⟨new, hnew, hnewp⟩ := block_newp s p orc
  have hm := resume_memSpec hi hp ha hmin orc hnew
  have hst := stepEvents_time s pid orc p hp ha
  have hp0 := h.nonneg p hpm
  have hnle : ((natNow p.wake : Nat) : Time) ≤ p.wake := natNow_le p.wake hp0
  have hn0 : (0 : Rat) ≤ ((natNow p.wake : Nat) : Time) := Rat.natCast_nonneg
  -- the due time of a new process
  have hnw : ∀ q ∈ new, q.wake = p.wake ∨ q.wake = ((natNow p.wake : Nat) : Time) := by
    intro q hq
    have := (hnewp q hq).2.2.1
    split at this
    · exact Or.inr this
    · exact Or.inl this
  -- the entry that ran, if still alive, is due later
  have hfin : (fin (s.block p orc).2.1 (s.block p orc).2.2 p.wake p).alive = true →
      p.wake ≤ (fin (s.block p orc).2.1 (s.block p orc).2.2 p.wake p).wake := by
    intro hal
    obtain ⟨_, d, hd⟩ := fin_alive _ _ _ _ hal
    have hd0 := lcDelay_nonneg s p orc d hd
    rw [hd, fin_timeout]
    show p.wake ≤ p.wake + d
    have : p.wake + 0 ≤ p.wake + d := Rat.add_le_add_left.mpr hd0
    rw [Rat.add_zero] at this
    exact this
  constructor
  · intro q hq
    rcases (hm q).mp hq with rfl | ⟨hq0, _⟩ | hqn
    · generalize (s.block p orc).2.1 = k'
      generalize hy : (s.block p orc).2.2 = y
      cases y with
      | timeout d =>
        have hd0 := lcDelay_nonneg s p orc d hy
        rw [fin_timeout]
        show 0 ≤ p.wake + d
        exact Rat.add_nonneg hp0 hd0
      | done => exact hp0
      | raised e => exact hp0
    · exact h.nonneg q hq0
    · rcases hnw q hqn with e | e <;> rw [e]
      · exact hp0
      · exact hn0
  · intro e he q hq hqa
    rcases List.mem_append.mp he with he | he
    · -- an old event
      have hep := h.evle e he p hpm ha
      rcases (hm q).mp hq with rfl | ⟨hq0, _⟩ | hqn
      · exact Rat.le_trans hep (hfin hqa)
      · exact h.evle e he q hq0 hqa
      · rcases hnw q hqn with e' | e' <;> rw [e']
        · exact hep
        · exact natCast_le_natCast (le_natNow hep)
    · -- an event of this step
      rw [hst e he]
      rcases (hm q).mp hq with rfl | ⟨hq0, _⟩ | hqn
      · exact Rat.le_trans hnle (hfin hqa)
      · exact Rat.le_trans hnle (hmin q hq0 hqa)
      · rcases hnw q hqn with e' | e' <;> rw [e']
        · exact hnle
        · exact Rat.le_refl

theorem reachEv_ti {s0 s : Sys} {evs : List Event} (hw : WFConfig s0) (h : ReachEv s0 s evs) : LcTI s evs := by
  induction h with
  | start =>
    constructor
    · intro q hq
      rw [start_procs s0 hw] at hq
      simp only [List.mem_cons, List.not_mem_nil, or_false] at hq
      rcases hq with rfl | rfl | rfl | rfl | rfl <;> exact Rat.le_refl
    · intro e he; simp at he
  | step s evs pid orc hr hen ih => exact ti_step (reach_einv s0 s hw hr.toReach) ih hen orc

/-- in an enabled step every event emitted so far is stamped no later than the step's own events -/
theorem LcTI.before {s : Sys} {evs : List Event} (h : LcTI s evs) {pid : Nat} {p : Proc}
    (hp : s.proc? pid = some p) (ha : p.alive = true) : ∀ e ∈ evs, e.time ≤ natNow p.wake :=
  fun e he => le_natNow (h.evle e he p (proc?_some hp).1 ha)

end Sys
end Topsim
