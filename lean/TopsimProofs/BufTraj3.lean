/-
  BufTraj3 — concrete runs of the deterministic simulator (SimPy's own order)
  for the two lower bounds of C07 that are FALSE of the model:

  `c07WC` (cold tier over-committed by concurrent `move_hot_to_cold` processes):
    three machines (cpu 1, bandwidth 1), three arrays, `max_ingest_resources = 3`;
    hot buffer 140 (max ingest rate 50), cold buffer 110 (max rate 10);
    three observations due at t = 0, one array, one ingest machine, one timestep
    each, ingest rate 40, one workflow task each; the queue algorithm; no delay.
    t = 0: 120 of 140 deposited (> 60 %), the three observations are stored.
    t = 1, 2, 3: the buffer loop starts one `move_hot_to_cold` per timestep
      (observation 2, then 1, then 0): `ColdBuffer.has_capacity_for` compares the
      free space of the moment (110, 100, 80) with the size of the candidate plus
      the size of the ONE observation in `observations['transfer']` (40 + 40);
      the moves run concurrently at 10 per timestep each.
    t = 6: the third move lands; 120 has been taken from a cold buffer of 110:
      `current_capacity = -10`, no exception.

  `c07WH` (known finding K3 at system level): two machines, two arrays, hot buffer
    100; two observations due at t = 0 of rate 30 and two timesteps, both admitted
    in the telescope block of t = 0 against a free space of 100; after the deposits
    of t = 1 the hot buffer's `current_capacity` is -20, no exception.
-/
import TopsimProofs.Witness2
import TopsimProofs.BufTraj1

namespace Topsim
namespace Sys

def c07Obs (i : Nat) (rate : Int) (dur : Nat) : Obs :=
  { id := i, est := 0, duration := dur, demand := 1, rate := rate, ingestDemand := 1,
    wf := ⟨[(0, 1, 0)], [], [0]⟩ }

/-! ### cold tier -/

def c07WC : Sys :=
  { machines := [⟨0, 1, 1⟩, ⟨1, 1, 1⟩, ⟨2, 1, 1⟩], totalArrays := 3, maxIngest := 3, alg := .queue,
    cl := Cluster.init [0, 1, 2], buf := Buffer.init 140 50 110 10,
    obs := [c07Obs 0 40 1, c07Obs 1 40 1, c07Obs 2 40 1] }

theorem c07WC_wf : WFConfig c07WC := by
  refine ⟨by decide, rfl, by decide, ?_, ⟨rfl, rfl, rfl, rfl, rfl, rfl, rfl, rfl, rfl, rfl, rfl, rfl, rfl,
    rfl, rfl, rfl, rfl⟩⟩
  intro o ho
  simp only [c07WC, List.mem_cons, List.not_mem_nil, or_false] at ho
  rcases ho with rfl | rfl | rfl <;> exact ⟨rfl, rfl, by decide, by decide⟩

theorem c07WC_rate : ∀ o ∈ c07WC.obs, 0 < o.rate := by
  intro o ho
  simp only [c07WC, List.mem_cons, List.not_mem_nil, or_false] at ho
  rcases ho with rfl | rfl | rfl <;> decide

/-- the simulator after every event before t = 7 -/
def c07KC : SimState := witRun c07WC 7 400

theorem c07KC_chk :
    (!c07KC.st.halted && decide (c07KC.st.crashed = none) &&
      decide (c07KC.st.buf.cold.cur = -10) && decide (c07KC.st.buf.hot.cur = 140) &&
      decide (c07KC.st.buf.cold.stored = [2, 1, 0]) && decide (c07KC.st.buf.hot.finished = [])) = true := by
  decide +kernel

theorem c07KC_spec : c07KC.st.halted = false ∧ c07KC.st.crashed = none ∧ c07KC.st.buf.cold.cur = -10 ∧
    c07KC.st.buf.hot.cur = 140 ∧ c07KC.st.buf.cold.stored = [2, 1, 0] ∧ c07KC.st.buf.hot.finished = [] := by
  simpa [and_assoc] using c07KC_chk

theorem c07KC_run : SimRun {} c07WC c07KC := witRun_simRun c07WC 7 400

theorem c07KC_reach : ReachOk c07WC c07KC.st := simRun_reachOk c07WC_wf c07KC_run c07KC_spec.1

/-- the same run after every event before t = 3: two `move_hot_to_cold` processes are in flight
(observations 2 and 1 are in no list of either tier), 30 of their 80 units have reached the cold tier -/
def c07KC3 : SimState := witRun c07WC 3 200

theorem c07KC3_chk :
    (!c07KC3.st.halted && decide (c07KC3.st.crashed = none) &&
      decide (c07KC3.st.buf.hot.cur = 50) && decide (c07KC3.st.buf.cold.cur = 80) &&
      decide (c07KC3.st.buf.hot.total = 140) && decide (c07KC3.st.buf.cold.total = 110) &&
      decide (c07KC3.st.buf.hot.stored = [0]) && decide (c07KC3.st.buf.cold.stored = []) &&
      decide (c07KC3.st.buf.hot.scheduled = []) && decide (c07KC3.st.buf.hot.finished = [])) = true := by
  decide +kernel

theorem c07KC3_spec : c07KC3.st.halted = false ∧ c07KC3.st.crashed = none ∧ c07KC3.st.buf.hot.cur = 50 ∧
    c07KC3.st.buf.cold.cur = 80 ∧ c07KC3.st.buf.hot.total = 140 ∧ c07KC3.st.buf.cold.total = 110 ∧
    c07KC3.st.buf.hot.stored = [0] ∧ c07KC3.st.buf.cold.stored = [] ∧ c07KC3.st.buf.hot.scheduled = [] ∧
    c07KC3.st.buf.hot.finished = [] := by
  simpa [and_assoc] using c07KC3_chk

theorem c07KC3_reach : ReachOk c07WC c07KC3.st :=
  simRun_reachOk c07WC_wf (witRun_simRun c07WC 3 200) c07KC3_spec.1

/-! ### hot tier (K3) -/

def c07WH : Sys :=
  { machines := [⟨0, 1, 1⟩, ⟨1, 1, 1⟩], totalArrays := 2, maxIngest := 2, alg := .queue,
    cl := Cluster.init [0, 1], buf := Buffer.init 100 50 1000 50,
    obs := [c07Obs 0 30 2, c07Obs 1 30 2] }

theorem c07WH_wf : WFConfig c07WH := by
  refine ⟨by decide, rfl, by decide, ?_, ⟨rfl, rfl, rfl, rfl, rfl, rfl, rfl, rfl, rfl, rfl, rfl, rfl, rfl,
    rfl, rfl, rfl, rfl⟩⟩
  intro o ho
  simp only [c07WH, List.mem_cons, List.not_mem_nil, or_false] at ho
  rcases ho with rfl | rfl <;> exact ⟨rfl, rfl, by decide, by decide⟩

theorem c07WH_rate : ∀ o ∈ c07WH.obs, 0 < o.rate := by
  intro o ho
  simp only [c07WH, List.mem_cons, List.not_mem_nil, or_false] at ho
  rcases ho with rfl | rfl <;> decide

/-- the simulator after every event before t = 2 -/
def c07KH : SimState := witRun c07WH 2 200

theorem c07KH_chk :
    (!c07KH.st.halted && decide (c07KH.st.crashed = none) &&
      decide (c07KH.st.buf.hot.cur = -20) && decide (c07KH.st.buf.cold.cur = 1000) &&
      decide (c07KH.st.buf.hot.stored = [0, 1]) && decide (c07KH.st.admitted = [0, 1])) = true := by
  decide +kernel

theorem c07KH_spec : c07KH.st.halted = false ∧ c07KH.st.crashed = none ∧ c07KH.st.buf.hot.cur = -20 ∧
    c07KH.st.buf.cold.cur = 1000 ∧ c07KH.st.buf.hot.stored = [0, 1] ∧ c07KH.st.admitted = [0, 1] := by
  simpa [and_assoc] using c07KH_chk

theorem c07KH_run : SimRun {} c07WH c07KH := witRun_simRun c07WH 2 200

theorem c07KH_reach : ReachOk c07WH c07KH.st := simRun_reachOk c07WH_wf c07KH_run c07KH_spec.1

/-! ### the run of `Witness2` (both tier moves): capacities, and the sizes at the end -/

theorem c04K2mid_tot : c04K2mid.st.buf.hot.total = 100 ∧ c04K2mid.st.buf.cold.total = 100 := by
  have : (decide (c04K2mid.st.buf.hot.total = 100) && decide (c04K2mid.st.buf.cold.total = 100)) = true := by
    decide +kernel
  simpa using this

theorem c04S2_sizes : c04S2.buf.sizeOf 0 = 45 ∧ c04S2.buf.sizeOf 1 = 10 ∧ c04S2.buf.sizeOf 2 = 10 := by
  have : (decide (c04S2.buf.sizeOf 0 = 45) && decide (c04S2.buf.sizeOf 1 = 10) &&
      decide (c04S2.buf.sizeOf 2 = 10)) = true := by
    decide +kernel
  simpa [and_assoc] using this

end Sys
end Topsim
