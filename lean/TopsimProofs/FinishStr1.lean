/-
  FinishStr1 — what one block of the telescope does to the observation records
  (`ORel`): ids, rates and durations are kept; an observation that has left
  WAITING keeps its start time; an observation is marked FINISHED only
  `duration` steps after its start time.
-/
import TopsimProofs.FinishWf3

namespace Topsim
namespace Sys

structure ORel (n : Nat) (a b : List Obs) : Prop where
  ids : b.map (·.id) = a.map (·.id)
  rel : ∀ ob' ∈ b, ∃ ob ∈ a, ob'.id = ob.id ∧ ob'.rate = ob.rate ∧ ob'.duration = ob.duration ∧
    (ob'.ast = ob.ast ∨ ob'.ast = some n) ∧
    (ob'.status = ob.status ∨ ob'.status = .finished) ∧
    (ob.status ≠ .waiting → ob'.status ≠ .waiting ∧ ob'.ast = ob.ast) ∧
    (ob'.status = .finished → ob.status = .finished ∨ ∃ x, ob.ast = some x ∧ x + ob.duration ≤ n)

theorem ORel.refl (n : Nat) (a : List Obs) : ORel n a a :=
  ⟨rfl, fun ob h => ⟨ob, h, rfl, rfl, rfl, Or.inl rfl, Or.inl rfl, fun h => ⟨h, rfl⟩, fun h => Or.inl h⟩⟩

theorem ORel.of_eq {n : Nat} {a b : List Obs} (h : b = a) : ORel n a b := by subst h; exact ORel.refl n _

theorem ORel.trans {n : Nat} {a b c : List Obs} (hdur : ∀ ob ∈ a, 1 ≤ ob.duration)
    (h1 : ORel n a b) (h2 : ORel n b c) : ORel n a c := by
  refine ⟨h2.ids.trans h1.ids, ?_⟩
  intro ob'' hc
  obtain ⟨ob', hb, i2, r2, d2, a2, s2, w2, f2⟩ := h2.rel ob'' hc
  obtain ⟨ob, ha, i1, r1, d1, a1, s1, w1, f1⟩ := h1.rel ob' hb
  refine ⟨ob, ha, i2.trans i1, r2.trans r1, d2.trans d1, ?_, ?_, ?_, ?_⟩
  · rcases a2 with e | e
    · rcases a1 with e1 | e1
      · exact Or.inl (e.trans e1)
      · exact Or.inr (e.trans e1)
    · exact Or.inr e
  · rcases s2 with e | e
    · rcases s1 with e1 | e1
      · exact Or.inl (e.trans e1)
      · exact Or.inr (e.trans e1)
    · exact Or.inr e
  · intro hw
    obtain ⟨g1, g2⟩ := w1 hw
    obtain ⟨g3, g4⟩ := w2 g1
    exact ⟨g3, g4.trans g2⟩
  · intro hf
    rcases f2 hf with g | ⟨x, gx, gle⟩
    · exact f1 g
    · rcases a1 with e1 | e1
      · right; exact ⟨x, by rw [← e1]; exact gx, by rw [← d1]; exact gle⟩
      · exfalso
        rw [gx] at e1
        injection e1 with e1
        have := hdur ob ha
        rw [d1] at gle
        omega

/-- a per-record update of the observation `oid`, whose record is `o` -/
theorem ORel.ofMap {n : Nat} {a : List Obs} (hnd : (a.map (·.id)).Nodup) {oid : Oid} {o : Obs}
    (ho : a.find? (fun r => decide (r.id = oid)) = some o) (F : Obs → Obs)
    (hF : ∀ r, (F r).id = r.id ∧ (F r).rate = r.rate ∧ (F r).duration = r.duration)
    (h1 : (F o).ast = o.ast ∨ (F o).ast = some n)
    (h1' : (F o).status = o.status ∨ (F o).status = .finished)
    (h2 : o.status ≠ .waiting → (F o).status ≠ .waiting ∧ (F o).ast = o.ast)
    (h3 : (F o).status = .finished → o.status = .finished ∨ ∃ x, o.ast = some x ∧ x + o.duration ≤ n) :
    ORel n a (a.map (fun r => if r.id = oid then F r else r)) := by
  have hom : o ∈ a := List.mem_of_find?_eq_some ho
  have hoid : o.id = oid := by simpa using List.find?_some ho
  constructor
  · rw [List.map_map]
    apply List.map_congr_left
    intro r _
    simp only [Function.comp]
    split
    · exact (hF r).1
    · rfl
  · intro ob' hob'
    obtain ⟨r, hr, rfl⟩ := List.mem_map.mp hob'
    refine ⟨r, hr, ?_⟩
    by_cases e : r.id = oid
    · have : r = o := eq_of_map_nodup hnd hr hom (e.trans hoid.symm)
      subst this
      rw [if_pos e]
      exact ⟨(hF r).1, (hF r).2.1, (hF r).2.2, h1, h1', h2, h3⟩
    · rw [if_neg e]
      exact ⟨rfl, rfl, rfl, Or.inl rfl, Or.inl rfl, fun h => ⟨h, rfl⟩, fun h => Or.inl h⟩

/-- the record of `o` on the other side -/
theorem ORel.fwd {n : Nat} {a b : List Obs} (h : ORel n a b) (hnd : (a.map (·.id)).Nodup) {o : Oid} {ob : Obs}
    (ho : a.find? (fun r => decide (r.id = o)) = some ob) :
    ∃ ob', b.find? (fun r => decide (r.id = o)) = some ob' ∧ ob' ∈ b ∧ ob'.rate = ob.rate ∧
      (ob.status ≠ .waiting → ob'.status ≠ .waiting ∧ ob'.ast = ob.ast) := by
  have hom : ob ∈ a := List.mem_of_find?_eq_some ho
  have hoid : ob.id = o := by simpa using List.find?_some ho
  have : o ∈ b.map (·.id) := by rw [h.ids, ← hoid]; exact List.mem_map_of_mem hom
  obtain ⟨ob', hob', hid'⟩ := List.mem_map.mp this
  obtain ⟨ob0, hob0, i, r, _, _, _, w, _⟩ := h.rel ob' hob'
  have : ob0 = ob := eq_of_map_nodup hnd hob0 hom (by rw [← i, hid', hoid])
  subst this
  refine ⟨ob', ?_, hob', r, w⟩
  have hndb : (b.map (·.id)).Nodup := by rw [h.ids]; exact hnd
  have := find?_of_mem_nodup (f := fun r : Obs => r.id) hndb hob'
  rw [← hid']; exact this

theorem telescopeVisit_orel (n : Nat) (acc : Sys × Option Err) (oid : Oid)
    (hnd : (acc.1.obs.map (·.id)).Nodup) : ORel n acc.1.obs (telescopeVisit n acc oid).1.obs := by
  obtain ⟨s1, err⟩ := acc
  unfold telescopeVisit
  cases err with
  | some e => exact ORel.refl _ _
  | none =>
    simp only
    cases hob : s1.obs? oid with
    | none => exact ORel.refl _ _
    | some o =>
      simp only
      by_cases hready : o.isReady n ((s1.totalArrays : Int) - s1.telUse) = true
      · simp only [hready, if_true]
        have hw : o.status = .waiting := by
          unfold Obs.isReady at hready
          simp only [Bool.and_eq_true, beq_iff_eq] at hready
          exact hready.2
        cases hc : s1.checkIngestCapacity o with
        | error e => exact ORel.refl _ _
        | ok r =>
          obtain ⟨s', b⟩ := r
          have hcore := checkIngestCapacity_core s1 o s' b hc
          cases b with
          | false => exact ORel.of_eq hcore.obs
          | true =>
            simp only
            show ORel n s1.obs (s'.obs.map (fun r => if r.id = oid then { r with ast := some n } else r))
            rw [hcore.obs]
            refine ORel.ofMap hnd hob (fun r => { r with ast := some n }) (fun _ => ⟨rfl, rfl, rfl⟩)
              (Or.inr rfl) (Or.inl rfl) (fun h => absurd hw h) ?_
            intro h
            simp only at h
            rw [hw] at h; exact absurd h (by simp)
      · simp only [hready, Bool.false_eq_true, if_false]
        by_cases hfin : o.isFinishedAt n s1.telStatus = true
        · simp only [hfin, if_true]
          obtain ⟨a, hast, hnge, _⟩ : ∃ a, o.ast = some a ∧ a + o.duration ≤ n ∧ o.status ≠ .finished := by
            unfold Obs.isFinishedAt at hfin
            cases hoa : o.ast with
            | none => simp [hoa] at hfin
            | some a =>
              simp only [hoa, Bool.and_eq_true, decide_eq_true_eq, bne_iff_ne] at hfin
              exact ⟨a, rfl, hfin.1.1, hfin.2⟩
          show ORel n s1.obs (s1.obs.map (fun r => if r.id = oid then { r with status := .finished } else r))
          exact ORel.ofMap hnd hob (fun r => { r with status := .finished }) (fun _ => ⟨rfl, rfl, rfl⟩)
            (Or.inl rfl) (Or.inr rfl) (fun _ => ⟨by simp, rfl⟩) (fun _ => Or.inr ⟨a, hast, hnge⟩)
        · simp only [hfin, Bool.false_eq_true, if_false]
          exact ORel.refl _ _

theorem telescopeFold_orel (n : Nat) (a : List Obs) (hnd : (a.map (·.id)).Nodup)
    (hdur : ∀ ob ∈ a, 1 ≤ ob.duration) (l : List Oid) :
    ∀ acc : Sys × Option Err, ORel n a acc.1.obs → ORel n a (l.foldl (telescopeVisit n) acc).1.obs := by
  induction l with
  | nil => intro acc h; exact h
  | cons x r ih =>
    intro acc h
    apply ih
    exact ORel.trans hdur h (telescopeVisit_orel n acc x (by rw [h.ids]; exact hnd))

theorem telescopeBlock_orel (s : Sys) (now : Time) (hnd : (s.obs.map (·.id)).Nodup)
    (hdur : ∀ ob ∈ s.obs, 1 ≤ ob.duration) :
    ORel (natNow now) s.obs (s.telescopeBlock now).1.obs := by
  unfold telescopeBlock
  split
  · exact ORel.refl _ _
  · simp only
    have := telescopeFold_orel (natNow now) s.obs hnd hdur (s.obs.map (·.id))
      ({ s with telEvents := [], telDelayed := if s.schedDelayed = true ∧ (!s.telDelayed) = true then true else s.telDelayed }, none)
      (ORel.refl _ _)
    generalize (List.foldl (telescopeVisit (natNow now)) ({ s with telEvents := [], telDelayed := if s.schedDelayed = true ∧ (!s.telDelayed) = true then true else s.telDelayed }, none) (s.obs.map (·.id))) = r at this ⊢
    obtain ⟨s1, e1⟩ := r
    cases e1 <;> exact this

end Sys
end Topsim
