/-
  Freed2 — C07, the WHEN of the release, trajectory level (any block order, `ReachOk`).

  * `L7Q` (queue ⊆ scheduled, every scheduled observation has a live `allocate_tasks` process that
    has not finished) along every run of the block system that has not raised, for ANY algorithm
    (`freed_reachOk_l7q`; the step lemma is `l7q_step` of Live7i freed of its queue-only library);
  * `RI` for each of the four shipped algorithms (`freed_reach_ri`);
  * the trajectory theorem `freed_traj`: an observation resident as scheduled all of whose workflow
    records are FINISHED has a live `allocate_tasks` process with an EMPTY leftover schedule, a plan
    whose remaining tasks are all FINISHED, and is queued — so the next block of that process
    (whenever it runs, with any oracle input) frees it, or raises.
-/
import TopsimProofs.Freed1
import TopsimProofs.Live7i
import TopsimProofs.Live17c
import TopsimProofs.LiveP17c

namespace Topsim

open KState Sys

namespace Sys

/-! ### one step of the block system as an `L7Step` -/

theorem freed_l7step {s : Sys} {pid : Nat} {orc : Oracle} (hen : s.enabled pid)
    (hc : (s.resume pid orc).1.crashed = none) :
    ∃ p, p.pid = pid ∧ L7Step s (s.resume pid orc).1 p orc := by
  obtain ⟨p, hp, ha, hmin⟩ := hen
  have hpid : p.pid = pid := (proc?_some hp).2
  obtain ⟨_, hnr⟩ := resume_nocrash s pid orc p hp ha hc
  refine ⟨p, hpid, by rw [hpid]; exact hp, ha, hmin, hnr, ?_, by rw [hpid]⟩
  rw [hpid]
  unfold Sys.resume
  simp only [hp, ha, Bool.not_true, Bool.false_eq_true, if_false]
  generalize s.block p orc = r at hnr
  obtain ⟨s1, k, y⟩ := r
  cases y with
  | timeout d => rfl
  | done => rfl
  | raised err => exact absurd rfl (hnr err)

/-! ### `L7Q` along the run, any algorithm -/

theorem freed_l7q_step {s s' : Sys} {p : Proc} {orc : Oracle} (hs : SInv s) (hati : LcATI s) (hbi : BufI s)
    (h : L7Step s s' p orc) (Q : L7Q s) : L7Q s' := by
  have hpm := h.mem
  obtain ⟨new, hnewe, hnewp⟩ := block_newp s p orc
  have hm := h.memSpec hs hnewe
  -- a witness other than the process that ran is still there
  have keep : ∀ o, (∀ sc pa po, p.k ≠ .allocTasks o sc pa po false) →
      (∃ q ∈ s.procs, q.alive = true ∧ ∃ sc pa po, q.k = .allocTasks o sc pa po false) →
      ∃ q ∈ s'.procs, q.alive = true ∧ ∃ sc pa po, q.k = .allocTasks o sc pa po false := by
    rintro o hne ⟨q, hq, hqa, sc, pa, po, hqk⟩
    refine ⟨q, (hm q).mpr (Or.inr (Or.inl ⟨hq, ?_⟩)), hqa, sc, pa, po, hqk⟩
    intro e
    have : q = p := hs.pw.eq_of_pid hq hpm e
    subst this
    exact hne sc pa po hqk
  by_cases h1 : p.k.tag = "schedLoop"
  · have hk : p.k = .schedLoop := by cases hk : p.k <;> rw [hk] at h1 <;> simp [PK.tag] at h1
    have hne : ∀ o sc pa po, p.k ≠ .allocTasks o sc pa po false := by
      intro o sc pa po e; rw [hk] at e; cases e
    have hq' : s'.queue = (s.schedLoopBlock p.wake orc).1.queue := by rw [h.queue, block_schedLoop orc hk]
    have hb' : s'.buf = (s.schedLoopBlock p.wake orc).1.buf := by rw [h.buf, block_schedLoop orc hk]
    rw [block_schedLoop orc hk] at hnewe
    rcases schedLoopBlock_buf s p.wake orc with ⟨hbuf, _, _, hqueue, _⟩ |
      ⟨oid, ob, recs, plan, hnx, _, _, hbuf, _, _, hcase⟩
    · rw [hqueue] at hq'
      rw [hbuf] at hb'
      exact ⟨by rw [hq']; exact Q.qNodup, by rw [hq', hb']; exact Q.qSched,
        by rw [hb']; exact fun o ho => keep o (hne o) (Q.schedP o ho)⟩
    · obtain ⟨_, hst, g3, _⟩ := bufList_next s.buf oid hnx
      rw [hbuf] at hb'
      rcases hcase with ⟨hin, _, _⟩ | ⟨hnin, hqueue, hprocs⟩
      · exact (l7_stored_not_sched hbi hst (Q.qSched oid hin)).elim
      · rw [hqueue] at hq'
        have hnewq : new = [{ pid := s.nextPid, k := .allocTasks oid [] [] [] false, wake := p.wake }] :=
          List.append_cancel_left (hnewe.symm.trans hprocs)
        refine ⟨?_, ?_, ?_⟩
        · rw [hq', List.nodup_append]
          refine ⟨Q.qNodup, by simp, ?_⟩
          intro a ha b hb
          simp only [List.mem_singleton] at hb
          subst hb
          exact fun e => hnin (e ▸ ha)
        · rw [hq', hb', g3]
          intro o ho
          rcases List.mem_append.mp ho with h2 | h2
          · exact List.mem_append_left _ (Q.qSched o h2)
          · exact List.mem_append_right _ h2
        · rw [hb', g3]
          intro o ho
          rcases List.mem_append.mp ho with h2 | h2
          · exact keep o (hne o) (Q.schedP o h2)
          · simp only [List.mem_singleton] at h2
            subst h2
            exact ⟨{ pid := s.nextPid, k := .allocTasks o [] [] [] false, wake := p.wake },
              (hm _).mpr (Or.inr (Or.inr (by rw [hnewq]; simp))), rfl, [], [], [], rfl⟩
  · by_cases h2 : p.k.tag = "allocTasks"
    · cases hk : p.k <;> rw [hk] at h2 <;> simp [PK.tag] at h2
      rename_i o0 sc pa po fn
      rcases blockEvents_allocTasks (s := s) orc hk with ⟨hfn, _, hblk⟩ | ⟨hfn, c, u, hat, _⟩
      · -- a stopped process
        subst hfn
        have hq' : s'.queue = s.queue := by rw [h.queue, hblk]
        have hb' : s'.buf = s.buf := by rw [h.buf, hblk]
        have hne : ∀ o sc1 pa1 po1, p.k ≠ .allocTasks o sc1 pa1 po1 false := by
          intro o sc1 pa1 po1 e; rw [hk] at e; cases e
        exact ⟨by rw [hq']; exact Q.qNodup, by rw [hq', hb']; exact Q.qSched,
          by rw [hb']; exact fun o ho => keep o (hne o) (Q.schedP o ho)⟩
      · subst hfn
        have hin := hati.sched p hpm h.ha o0 sc pa po hk
        have hsb : (atStart s p.wake p.pc o0).buf = s.buf := atStart_buf _ _ _ _
        have hsq : (atStart s p.wake p.pc o0).queue = s.queue := atStart_queue _ _ _ _
        have hnr := h.nr
        have hq' := h.queue
        have hb' := h.buf
        have hp' : fin (s.block p orc).2.1 (s.block p orc).2.2 p.wake p ∈ s'.procs := (hm _).mpr (Or.inl rfl)
        -- the other observations keep their witnesses
        have hother : ∀ o, o ≠ o0 → ∀ sc1 pa1 po1, p.k ≠ .allocTasks o sc1 pa1 po1 false := by
          intro o hne sc1 pa1 po1 e
          rw [hk] at e
          injection e with e1
          exact hne e1.symm
        have hnd : (s.block p orc).2.2 ≠ .done := by
          rw [block_allocTasks orc hk, allocTasksBlock_eq]
          exact l7_iter_not_done _ _ _ _ _ _ _
        generalize s.block p orc = r at hat hnr hq' hb' hp' hnd
        cases hat with
        | quiet X k y sc1 pa1 po1 _ hbX hqX hkX =>
          simp only at hq' hb' hp' hnr hnd
          rw [hqX, hsq] at hq'
          rw [hbX, hsb] at hb'
          refine ⟨by rw [hq']; exact Q.qNodup, by rw [hq', hb']; exact Q.qSched, ?_⟩
          rw [hb']
          intro o ho
          by_cases e : o = o0
          · subst e
            refine ⟨_, hp', ?_, sc1, pa1, po1, by rw [fin_k]; exact hkX⟩
            cases y with
            | timeout d => exact h.ha
            | done => exact absurd rfl hnd
            | raised e => exact absurd rfl (hnr e)
          · exact keep o (hother o e) (Q.schedP o ho)
        | finish X sc1 pa1 po1 _ _ hbX _ hqX =>
          simp only at hq' hb'
          rw [hqX, hsq] at hq'
          rw [hbX, hsb] at hb'
          have hrem : (s.buf.remove o0).1.hot.scheduled = s.buf.hot.scheduled.erase o0 := by
            unfold Buffer.remove; simp [hin]
          refine ⟨by rw [hq']; exact Q.qNodup.erase _, ?_, ?_⟩
          · rw [hq', hb', hrem]
            intro o ho
            have hne : o ≠ o0 := fun e => by
              subst e
              exact (List.Nodup.mem_erase_iff Q.qNodup).mp ho |>.1 rfl
            exact (List.mem_erase_of_ne hne).mpr (Q.qSched o (List.mem_of_mem_erase ho))
          · rw [hb', hrem]
            intro o ho
            have hne : o ≠ o0 := by
              intro e
              subst e
              have h1 := count_pos_of_mem ho
              rw [List.count_erase_self] at h1
              have := l7_sched_count hbi o
              omega
            exact keep o (hother o hne) (Q.schedP o (List.mem_of_mem_erase ho))
        | finishBad X sc1 pa1 po1 e _ _ _ _ _ => exact absurd rfl (hnr e)
        | finishWait X sc1 pa1 po1 _ hnin _ _ =>
          rw [hsb] at hnin
          exact absurd hin hnin
    · have hq' : s'.queue = s.queue := by rw [h.queue, block_queue s p orc h1 h2]
      have hb' : s'.buf.hot.scheduled = s.buf.hot.scheduled := by rw [h.buf, l7_block_sched_other s p orc h1 h2]
      have hne : ∀ o sc1 pa1 po1, p.k ≠ .allocTasks o sc1 pa1 po1 false := by
        intro o sc1 pa1 po1 e; rw [e] at h2; exact h2 rfl
      exact ⟨by rw [hq']; exact Q.qNodup, by rw [hq', hb']; exact Q.qSched,
        by rw [hb']; exact fun o ho => keep o (hne o) (Q.schedP o ho)⟩


theorem freed_bufList_nil {b : Buffer} (h : bufList b = []) :
    b.hot.stored = [] ∧ b.hot.scheduled = [] ∧ b.hot.finished = [] ∧ b.cold.stored = [] := by
  unfold bufList at h
  simp only [List.append_eq_nil_iff] at h
  exact ⟨h.1.1.1, h.1.1.2, h.1.2, h.2⟩

/-- `L7Q` in every state of every run of the block system that has not raised -/
theorem freed_reachOk_l7q (s0 s : Sys) (hw : WFConfig s0) (hbuf : bufList s0.buf = []) (h : ReachOk s0 s) :
    s.crashed = none → L7Q s := by
  induction h with
  | start => exact fun _ => l7q_start s0 hw (freed_bufList_nil hbuf).2.1
  | step s pid orc hr hen _ ih =>
    intro hc
    obtain ⟨p, _, hstep⟩ := freed_l7step hen hc
    have hc0 : s.crashed = none := (resume_nocrash s p.pid orc p hstep.hp hstep.ha (by rw [← hstep.res]; exact hstep.res ▸ hc)).1
    exact freed_l7q_step (reach_inv s0 s hw hr) (reachOk_ati s0 s hw hbuf hr) (reachOk_bufi s0 s hw hbuf hr)
      hstep (ih hc0)

/-! ### the four shipped algorithms -/

/-- one of the four scheduling algorithms shipped with the simulator -/
def FreedShipped (a : AlgKind) : Prop :=
  (∃ parts minPer split, a = .batch parts minPer split) ∨ a = .queue ∨ a = .dynamic ∨ a = .greedy

theorem FreedShipped.noOracle {a : AlgKind} (h : FreedShipped a) : a ≠ .oracle := by
  rcases h with ⟨_, _, _, h⟩ | h | h | h <;> rw [h] <;> simp

theorem NoBatch.freedShipped {a : AlgKind} (h : NoBatch a) : FreedShipped a := by
  rcases h with h | h | h
  · exact Or.inr (Or.inl h)
  · exact Or.inr (Or.inr (Or.inl h))
  · exact Or.inr (Or.inr (Or.inr h))

/-- the reservation invariant `RI` along every run of a shipped algorithm -/
theorem freed_reach_ri (s0 s : Sys) (hw : WFConfig s0) (hbuf : bufList s0.buf = [])
    (halg : FreedShipped s0.alg) (h : Reach s0 s) : RI s := by
  rcases halg with ⟨parts, minPer, split, ha⟩ | ha | ha | ha
  · exact reach_ri s0 s hw hbuf ha h
  · exact nc_reach_ri_queue s0 s hw hbuf ha h
  · exact nc_reach_ri_queue_P s0 s hw hbuf (Or.inl ha) h
  · exact nc_reach_ri_queue_P s0 s hw hbuf (Or.inr ha) h

/-! ### the trajectory theorem -/

/-- every workflow-task record of observation `o` is FINISHED -/
def FreedAllFin (s : Sys) (o : Oid) : Prop :=
  ∀ r ∈ s.tasks, (∃ c n, r.id = Tid.wf o c n) → r.status = .finished

/-- a recorded workflow task of `o` is FINISHED in the scheduler's view -/
theorem freed_tstat_fin {s : Sys} {o : Oid} (hall : FreedAllFin s o) {t : Tid} (hw : ∃ c n, t = Tid.wf o c n)
    (hrec : ∃ r ∈ s.tasks, r.id = t) : tstat s t = .finished := by
  obtain ⟨r, hr, hid⟩ := hrec
  rw [tstat_eq]
  cases h : s.task? t with
  | none =>
    exfalso
    unfold task? at h
    rw [List.find?_eq_none] at h
    exact h r hr (by simpa using hid)
  | some r' =>
    simp only
    have hid' := task?_id h
    obtain ⟨c, n, e⟩ := hw
    exact hall r' (List.mem_of_find?_eq_some h) ⟨c, n, hid'.trans e⟩

/-- **(2), the state part.**  In a state of a run of a shipped algorithm that has not raised: an
observation resident as scheduled all of whose workflow records are FINISHED has a live
`allocate_tasks` process whose leftover schedule is EMPTY, it is queued, and it has a plan whose
remaining tasks are all FINISHED in the scheduler's view. -/
theorem freed_traj_state (s0 s : Sys) (hw : WFConfig s0) (hbuf : bufList s0.buf = [])
    (halg : FreedShipped s0.alg) (h : ReachOk s0 s) (hc : s.crashed = none) (o : Oid)
    (hin : o ∈ s.buf.hot.scheduled) (hall : FreedAllFin s o) :
    ∃ p pa po pl, s.proc? p.pid = some p ∧ p.alive = true ∧ p.k = .allocTasks o [] pa po false ∧
      o ∈ s.queue ∧ s.plan? o = some pl ∧ ∀ t ∈ pl.tasks, tstat s t = .finished := by
  have hq := freed_reachOk_l7q s0 s hw hbuf h hc
  have hri := freed_reach_ri s0 s hw hbuf halg h.toReach
  have hgi := reach_gi s0 s hw h.toReach
  have hpw := (reach_inv s0 s hw h).pw
  obtain ⟨p, hp, ha, sc, pa, po, hk⟩ := hq.schedP o hin
  obtain ⟨hqu, hplS⟩ := hri.atsQ p hp ha o sc pa po hk
  obtain ⟨pl, hpl⟩ := Option.isSome_iff_exists.mp hplS
  obtain ⟨hplm, hplo⟩ := plan?_mem hpl
  have hfin : ∀ t ∈ pl.tasks, tstat s t = .finished := by
    intro t ht
    obtain ⟨c, n, e⟩ := hri.pt pl hplm t ht
    exact freed_tstat_fin hall ⟨c, n, by rw [e, hplo]⟩ (hgi.planRecs pl hplm t ht)
  have hsc : sc = [] := by
    cases sc with
    | nil => rfl
    | cons x rest =>
      exfalso
      obtain ⟨h1, h2⟩ := (hri.sl p hp ha o _ pa po hk).2 x.1 (by simp [dictKeys])
      unfold planTasks at h1
      rw [hpl] at h1
      rw [hfin x.1 h1] at h2
      cases h2
  subst hsc
  exact ⟨p, pa, po, pl, hpw.proc?_of_mem hp, ha, hk, hqu, hpl, hfin⟩

end Sys

end Topsim
