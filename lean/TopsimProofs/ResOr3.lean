/-
  ResOr3 — `RI` along every `ReachResv` run of a user algorithm; no reservation is left when the
  simulation has finished; the narrower side condition `ResOrOwn` implies `ResOrOk`.
-/
import TopsimProofs.ResOr2

namespace Topsim
namespace Sys

open Cluster

/-- one step of a run whose algorithm is the oracle and whose oracle inputs keep to `ResOrOk`
(the counterpart of `ri_step`; only the `allocate_tasks` case differs) -/
theorem resOr_ri_step {s : Sys} (hs : SInv s) (h : RI s) (hbuf : BufI s) {pid : Nat} (hen : s.enabled pid)
    (orc : Oracle) (halg : s.alg = .oracle) (hok : ResOrOk s pid orc) : RI (s.resume pid orc).1 := by
  obtain ⟨p, hp, ha, hmin⟩ := hen
  obtain ⟨hpm, hpid⟩ := proc?_some hp
  subst hpid
  have hcore := resume_core s p.pid orc p hp ha
  have hpw := hs.pw
  refine RI.congr (a := (s.block p orc).1.updProc p.pid (fin (s.block p orc).2.1 (s.block p orc).2.2 p.wake)) ?_
    (resume_queue s p.pid orc p hp ha) hcore.procs (resume_plans s p.pid orc p hp ha) hcore.tasks hcore.cl
  cases hk : p.k with
  | monitor =>
    have hb : s.block p orc = ((s.monitorBlock p.wake).1, p.k, (s.monitorBlock p.wake).2) := by
      unfold block; simp only [hk]
    exact ri_quiet hs h hpm orc (by simp [hk, PK.tag]) (by simp [hk, PK.tag]) (by simp [hk, PK.tag])
      (by simp [hk, PK.tag]) (by simp [hk, PK.tag]) [] (by rw [hb]; simpa using monitorBlock_procsq s p.wake)
      (by rw [hb]; exact (monitorBlock_pres s p.wake).pw hpw) (by simp)
  | telescope =>
    have hb : s.block p orc = ((s.telescopeBlock p.wake).1, .telescope, (s.telescopeBlock p.wake).2) := by
      unfold block; simp only [hk]
    obtain ⟨hc, _, _⟩ := telescope_key hs.eg hpm ha hmin hk
    obtain ⟨new, hprocs, hnewk⟩ := telescopeBlock_procs s p.wake
    exact ri_quiet hs h hpm orc (by simp [hk, PK.tag]) (by simp [hk, PK.tag]) (by simp [hk, PK.tag])
      (by simp [hk, PK.tag]) (by simp [hk, PK.tag]) new (by rw [hb]; exact hprocs) (by rw [hb]; exact hc.pw hpw)
      (fun q hq => by rw [hnewk q hq]; exact ⟨by decide, by decide⟩)
  | clusterLoop =>
    have hb : s.block p orc = ({ s with cl := s.cl.loopTick }, p.k, .timeout 1) := by
      unfold block; simp only [hk]
    exact ri_quiet hs h hpm orc (by simp [hk, PK.tag]) (by simp [hk, PK.tag]) (by simp [hk, PK.tag])
      (by simp [hk, PK.tag]) (by simp [hk, PK.tag]) [] (by rw [hb]; simp)
      (by rw [hb]; exact (clusterLoop_pres s).pw hpw) (by simp)
  | schedLoop =>
    have hb : s.block p orc = ((s.schedLoopBlock p.wake orc).1, p.k, (s.schedLoopBlock p.wake orc).2) := by
      unfold block; simp only [hk]
    rw [hb]
    simp only
    rw [hk]
    exact ri_schedLoop hs h hbuf hpm orc hk
  | bufferLoop =>
    have hb : s.block p orc = ((s.bufferLoopBlock p.wake).1, p.k, (s.bufferLoopBlock p.wake).2) := by
      unfold block; simp only [hk]
    obtain ⟨new, hprocs, hnewk⟩ := bufferLoopBlock_newprocs s p.wake
    exact ri_quiet hs h hpm orc (by simp [hk, PK.tag]) (by simp [hk, PK.tag]) (by simp [hk, PK.tag])
      (by simp [hk, PK.tag]) (by simp [hk, PK.tag]) new (by rw [hb]; exact hprocs)
      (by rw [hb]; exact (bufferLoopBlock_pres s p.wake).pw hpw)
      (fun q hq => by rcases hnewk q hq with e | e <;> rw [e] <;> exact ⟨by decide, by decide⟩)
  | allocIngest o tl =>
    have hb : s.block p orc = s.allocIngestBlock p.wake p.pc o tl := by
      unfold block; simp only [hk]
    have hpwX : PW (s.block p orc).1 := by rw [hb]; exact (allocIngestBlock_E s p.wake p.pc o tl).1.pw hpw
    rcases allocIngestBlock_procs s p.wake p.pc o tl with hsame | ⟨ob, d, _, _, hprocs, _⟩
    · exact ri_quiet hs h hpm orc (by simp [hk, PK.tag]) (by simp [hk, PK.tag]) (by simp [hk, PK.tag])
        (by simp [hk, PK.tag]) (by simp [hk, PK.tag]) [] (by rw [hb]; simpa using hsame) hpwX (by simp)
    · exact ri_quiet hs h hpm orc (by simp [hk, PK.tag]) (by simp [hk, PK.tag]) (by simp [hk, PK.tag])
        (by simp [hk, PK.tag]) (by simp [hk, PK.tag]) _ (by rw [hb]; exact hprocs) hpwX (by simp [PK.tag])
  | provIngest o d => exact ri_provIngest hs h hpm orc hk
  | ingestStream o tl =>
    have hb : s.block p orc = s.ingestStreamBlock p.wake p.pc o tl := by
      unfold block; simp only [hk]
    exact ri_quiet hs h hpm orc (by simp [hk, PK.tag]) (by simp [hk, PK.tag]) (by simp [hk, PK.tag])
      (by simp [hk, PK.tag]) (by simp [hk, PK.tag]) [] (by rw [hb]; simpa using ingestStreamBlock_procsq s p.wake p.pc o tl)
      (by rw [hb]; exact (ingestStreamBlock_pres s p.wake p.pc o tl).pw hpw) (by simp)
  | allocTask t m preds obs ing ret => exact ri_allocTask hs h hpm ha orc hk
  | doWork t m preds ph tot => exact ri_doWork hs h hpm ha orc hk
  | allocTasks o sc pa po fn =>
    refine resOr_ri_allocTasks hs h hpm ha orc hk halg (fun hfn => ?_)
    subst hfn
    exact hok p hp o sc pa po hk
  | hot2cold cur =>
    have hb : s.block p orc = s.hot2coldBlock p.wake cur := by
      unfold block; simp only [hk]
    exact ri_quiet hs h hpm orc (by simp [hk, PK.tag]) (by simp [hk, PK.tag]) (by simp [hk, PK.tag])
      (by simp [hk, PK.tag]) (by simp [hk, PK.tag]) [] (by rw [hb]; simpa using hot2coldBlock_procsq s p.wake cur)
      (by rw [hb]; exact (hot2coldBlock_pres s p.wake cur).pw hpw) (by simp)
  | cold2hot cur =>
    have hb : s.block p orc = s.cold2hotBlock p.wake cur := by
      unfold block; simp only [hk]
    exact ri_quiet hs h hpm orc (by simp [hk, PK.tag]) (by simp [hk, PK.tag]) (by simp [hk, PK.tag])
      (by simp [hk, PK.tag]) (by simp [hk, PK.tag]) [] (by rw [hb]; simpa using cold2hotBlock_procsq s p.wake cur)
      (by rw [hb]; exact (cold2hotBlock_pres s p.wake cur).pw hpw) (by simp)

theorem resOr_reach_ri (s0 s : Sys) (hw : WFConfig s0) (hbuf : bufList s0.buf = [])
    (halg : s0.alg = .oracle) (h : ReachResv s0 s) : RI s := by
  induction h with
  | start => exact start_ri s0 hw
  | step s pid orc hr hen hok ih =>
    have ha : s.alg = .oracle := by rw [reach_alg hr.toReach]; exact halg
    exact resOr_ri_step (reach_inv s0 s hw hr.toOk) ih (reachOk_bufi s0 s hw hbuf hr.toOk) hen orc ha (hok ha)

/-- (6) for a user algorithm under `ResOrOk`: every reservation belongs to an observation that is
still in the scheduler's queue -/
theorem resOr_keys_in_queue (s0 s : Sys) (hw : WFConfig s0) (hbuf : bufList s0.buf = [])
    (halg : s0.alg = .oracle) (h : ReachResv s0 s) : ∀ o ∈ dictKeys s.cl.idle, o ∈ s.queue :=
  (resOr_reach_ri s0 s hw hbuf halg h).keyQ

/-- (6) for a user algorithm under `ResOrOk`: a finished simulation holds no reservation -/
theorem resOr_finished_no_reservation (s0 s : Sys) (hw : WFConfig s0) (hbuf : bufList s0.buf = [])
    (halg : s0.alg = .oracle) (h : ReachResv s0 s) (hf : s.isFinished = true) : s.cl.idle = [] := by
  have hri := resOr_reach_ri s0 s hw hbuf halg h
  obtain ⟨_, _, hq, _⟩ := (sim_isFinished_iff s).mp hf
  cases hi : s.cl.idle with
  | nil => rfl
  | cons x r =>
    have := hri.keyQ x.1 (by rw [hi]; simp [dictKeys])
    rw [hq] at this; simp at this

/-! ### reservations under the block's own observation only -/

theorem ReachResvOwn.toResv {s0 s : Sys} (hw : WFConfig s0) (hbuf : bufList s0.buf = [])
    (h : ReachResvOwn s0 s) : ReachResv s0 s := by
  induction h with
  | start => exact ReachResv.start
  | step s pid orc _ hen hok ih =>
    refine ReachResv.step s pid orc ih hen (fun ha => ?_)
    have ha0 : s0.alg = .oracle := by rw [← reach_alg ih.toReach]; exact ha
    have hri := resOr_reach_ri s0 s hw hbuf ha0 ih
    intro p hp oid sc pa po hk
    obtain ⟨g1, g2⟩ := hok ha p hp oid sc pa po hk
    obtain ⟨p', hp', hal, _⟩ := hen
    rw [hp] at hp'
    injection hp' with hp'
    subst hp'
    obtain ⟨hoq, _⟩ := hri.atsQ p (proc?_some hp).1 hal oid sc pa po hk
    refine ⟨fun op hop => ?_, g2⟩
    obtain ⟨n, rfl⟩ := g1 op hop
    exact Or.inl ⟨n, oid, rfl, hoq⟩

end Sys
end Topsim
