/-
  FinishWf2 — `WI` through one iteration of `allocate_tasks`: every algorithm
  returns FINISHED only for an empty plan; plan stamp, pruning, status update,
  removal from the buffer, `_process_current_schedule`.
-/
import TopsimProofs.FinishWf1
import TopsimProofs.FinishFrame2

namespace Topsim
namespace Sys

/-! ### a FINISHED status comes from an empty (or already FINISHED) plan -/

theorem status1_fin (plan : Plan) (st : WStatus)
    (h : (match plan.ast with
        | some a => if a > plan.est then WStatus.delayed else st
        | none => st) = .finished) : st = .finished := by
  split at h
  · split at h
    · exact absurd h (by simp)
    · exact h
  · exact h

theorem dynamicStep_status (cl : Cluster) (plan : Plan) (view : Tid → TaskView) (n : Nat) (st st' : Alg.LoopSt) (t : Tid)
    (h : Alg.dynamicStep cl plan view n (.ok st) t = .ok st') (hf : st'.status = .finished) : st.status = .finished := by
  unfold Alg.dynamicStep at h
  simp only at h
  repeat' split at h
  all_goals first
    | (injection h with h; subst h; first | exact hf | exact status1_fin plan _ hf | exact absurd hf (by simp))
    | exact absurd h (by simp)

theorem greedyStep_status (cl : Cluster) (plan : Plan) (view : Tid → TaskView) (st st' : Alg.LoopSt) (t : Tid)
    (h : Alg.greedyStep cl plan view (.ok st) t = .ok st') (hf : st'.status = .finished) : st.status = .finished := by
  unfold Alg.greedyStep Alg.attemptAllocation at h
  simp only at h
  repeat' split at h
  all_goals first
    | (injection h with h; subst h; first | exact hf | exact status1_fin plan _ hf | exact absurd hf (by simp))
    | exact absurd h (by simp)

theorem foldl_ok_status {α} (f : Except Err Alg.LoopSt → α → Except Err Alg.LoopSt)
    (herr : ∀ e x, f (.error e) x = .error e)
    (hst : ∀ st st' x, f (.ok st) x = .ok st' → st'.status = .finished → st.status = .finished)
    (l : List α) (acc : Except Err Alg.LoopSt) (st' : Alg.LoopSt) (h : l.foldl f acc = .ok st')
    (hf : st'.status = .finished) : ∃ st, acc = .ok st ∧ st.status = .finished := by
  induction l generalizing acc with
  | nil => exact ⟨st', h, hf⟩
  | cons x r ih =>
    obtain ⟨st1, h1, f1⟩ := ih (f acc x) h
    cases acc with
    | error e => rw [herr] at h1; exact absurd h1 (by simp)
    | ok st => exact ⟨st, rfl, hst st st1 x h1 f1⟩

theorem finishStatus_fin (plan : Plan) (x : WStatus) (h : Alg.finishStatus plan x = .finished) :
    plan.tasks = [] ∨ x = .finished := by
  unfold Alg.finishStatus at h
  split at h
  · rename_i h0; exact Or.inl (List.length_eq_zero_iff.mp h0)
  · exact Or.inr h

/-- every algorithm (and the oracle) returns FINISHED only for an empty or already FINISHED plan -/
theorem runAlgorithm_finished (s1 : Sys) (orc : Oracle) (plan : Plan) (sc : List (Tid × Mid)) (po : List Tid)
    (out : AlgOut) (h : s1.runAlgorithm orc plan sc po = .ok out) (hf : out.status = .finished) :
    plan.tasks = [] ∨ plan.status = .finished := by
  unfold runAlgorithm at h
  split at h
  · obtain ⟨_, _, hstat, _⟩ := batchRun_facts _ _ _ _ _ _ _ _ _ h
    rw [hstat] at hf; exact finishStatus_fin plan _ hf
  · unfold Alg.queueRun at h
    injection h with h; subst h
    exact finishStatus_fin plan _ hf
  · unfold Alg.dynamicRun at h
    simp only at h
    split at h
    · exact absurd h (by simp)
    · rename_i st hfold
      injection h with h; subst h
      rcases finishStatus_fin plan _ hf with h1 | h1
      · exact Or.inl h1
      · obtain ⟨st0, e0, f0⟩ := foldl_ok_status _ (fun e x => rfl)
          (fun st st' x => dynamicStep_status _ _ _ _ st st' x) _ _ _ hfold h1
        injection e0 with e0; subst e0; exact Or.inr f0
  · unfold Alg.greedyRun at h
    split at h
    · exact absurd h (by simp)
    · rename_i st hfold
      injection h with h; subst h
      rcases finishStatus_fin plan _ hf with h1 | h1
      · exact Or.inl h1
      · obtain ⟨st0, e0, f0⟩ := foldl_ok_status _ (fun e x => rfl)
          (fun st st' x => greedyStep_status _ _ _ st st' x) _ _ _ hfold h1
        injection e0 with e0; subst e0; exact Or.inr f0
  · injection h with h; subst h
    exact finishStatus_fin plan _ hf

/-! ### the records of one workflow task -/

/-- all records of a workflow task carry the status the scheduler sees -/
theorem WI.rec_status {s : Sys} (h : WI s) {t : Tid} (hw : IsWf t) :
    ∀ r ∈ s.tasks, r.id = t → r.status = tstat s t := by
  intro r hr hid
  rw [tstat_eq]
  cases h1 : s.task? t with
  | none =>
    unfold task? at h1
    rw [List.find?_eq_none] at h1
    exact absurd (h1 r hr) (by simp [hid])
  | some r1 =>
    have hm : r1 ∈ s.tasks := List.mem_of_find?_eq_some h1
    have hid1 := task?_id h1
    exact (h.un r1 hm r hr (hid1.trans hid.symm) (by rw [hid1]; exact hw)).symm

/-! ### `_process_current_schedule` -/

theorem wi_processOne {st : PcsSt} (h : WI st.s) (now : Time) (oid : Oid) (t : Tid) :
    WI (processOne now oid st t).s := by
  have hua_wi : ∀ s1, UA st.s t s1 → WI s1 := by
    intro s1 hua
    rcases hua with rfl | ⟨mm, rfl⟩
    · exact h
    · refine h.tasksKeep rfl rfl rfl rfl (fun r => if r.id = t then updateAllocation r mm else r) ?_ rfl
      intro r
      split
      · exact ⟨updateAllocation_id r mm, updateAllocation_status r mm⟩
      · exact ⟨rfl, rfl⟩
  rcases processOne_cases now oid st t with ⟨s1, hua, hs, _⟩ | ⟨s1, m, r, cross, hua, _, hr, hst, hs, _⟩
  · rw [hs]; exact hua_wi s1 hua
  · rw [hs]
    have h1 := hua_wi s1 hua
    have hts : tstat s1 t = .unscheduled := by
      rw [hua.tstat, tstat_eq, hr]; exact hst
    have hnf : IsWf t → ∀ r' ∈ s1.tasks, r'.id = t → r'.status ≠ .finished := by
      intro hw r' hr' hid
      rw [h1.rec_status hw r' hr' hid, hts]; simp
    have h2 : WI (s1.spawn (.allocTask t m cross (some oid) false 0) now).1 := by
      refine h1.procs rfl rfl rfl rfl ?_
      intro q hq hqa t' m' preds obs ing ret hqk hw
      simp only [spawn_procs, List.mem_append, List.mem_singleton] at hq
      rcases hq with hq | rfl
      · left; exact ⟨q, hq, hqa, m', preds, obs, ing, ret, hqk⟩
      · right
        simp only [PK.allocTask.injEq] at hqk
        obtain ⟨rfl, _⟩ := hqk
        exact hnf hw
    exact h2.tasksSet rfl rfl rfl rfl t (fun r : TaskRec => { r with status := .scheduled }) .scheduled
      (fun _ => ⟨rfl, rfl⟩) (by simp) hnf rfl

theorem wi_processFold (now : Time) (oid : Oid) (l : List Tid) :
    ∀ {st : PcsSt}, WI st.s → WI (l.foldl (processOne now oid) st).s := by
  induction l with
  | nil => intro st h; exact h
  | cons x r ih => intro st h; exact ih (wi_processOne h now oid x)

theorem wi_processCurrentSchedule {a : Sys} (h : WI a) (now : Time) (oid : Oid) (sched pairs : List (Tid × Mid)) :
    WI (processCurrentSchedule a now oid sched pairs).s := by
  unfold processCurrentSchedule
  exact wi_processFold now oid _ h

/-! ### plan stamp and task offsets of the first block -/

theorem foldl_field {α β} (F : Sys → β) (f : Sys → α → Sys) (hf : ∀ s x, F (f s x) = F s) (l : List α) (s : Sys) :
    F (l.foldl f s) = F s := by
  induction l generalizing s with
  | nil => rfl
  | cons x r ih => exact (ih _).trans (hf s x)

theorem foldl_updTask_keep (f : Tid → TaskRec → TaskRec)
    (hf : ∀ t r, (f t r).id = r.id ∧ (f t r).status = r.status) (l : List Tid) (s1 : Sys) :
    ∃ g : TaskRec → TaskRec, (∀ r, (g r).id = r.id ∧ (g r).status = r.status) ∧
      (l.foldl (fun (s : Sys) t => s.updTask t (f t)) s1).tasks = s1.tasks.map g := by
  induction l generalizing s1 with
  | nil => exact ⟨id, fun _ => ⟨rfl, rfl⟩, by simp⟩
  | cons x r ih =>
    obtain ⟨g, hg, e⟩ := ih (s1.updTask x (f x))
    refine ⟨fun r => g (if r.id = x then f x r else r), ?_, ?_⟩
    · intro r
      obtain ⟨a1, a2⟩ := hg (if r.id = x then f x r else r)
      rw [a1, a2]
      split
      · exact hf x r
      · exact ⟨rfl, rfl⟩
    · rw [List.foldl_cons, e]
      show (s1.tasks.map _).map g = _
      rw [List.map_map]; rfl

theorem wi_foldKeep {S : Sys} (h1 : WI S) (f : Tid → TaskRec → TaskRec)
    (hf : ∀ t r, (f t r).id = r.id ∧ (f t r).status = r.status) (l : List Tid) :
    WI (l.foldl (fun (s : Sys) t => s.updTask t (f t)) S) := by
  obtain ⟨g, hg, e⟩ := foldl_updTask_keep f hf l S
  exact h1.tasksKeep
    (foldl_field (·.plans) (fun (s : Sys) t => s.updTask t (f t)) (fun _ _ => rfl) _ _)
    (foldl_field (·.buf.hot.finished) (fun (s : Sys) t => s.updTask t (f t)) (fun _ _ => rfl) _ _)
    (foldl_field (·.starts) (fun (s : Sys) t => s.updTask t (f t)) (fun _ _ => rfl) _ _)
    (foldl_field (·.procs) (fun (s : Sys) t => s.updTask t (f t)) (fun _ _ => rfl) _ _) g hg e

theorem wi_addSch {X : Sys} (h : WI X) (e : Event) : WI (X.addSch e) := h.congr rfl rfl rfl rfl rfl

theorem WI.started {s : Sys} (h : WI s) (now : Time) (pc : Nat) (oid : Oid) : WI (atStart s now pc oid) := by
  unfold atStart
  split
  · have h1 : WI (s.updPlan oid (fun p => { p with ast := some (natNow now) })) :=
      h.planMap rfl rfl rfl rfl oid (fun p => { p with ast := some (natNow now) }) rfl (fun _ => rfl)
        (fun _ _ _ _ ht => ht) (fun _ _ _ _ ht => Or.inl ht) (fun pl hpl _ hfin => h.pf pl hpl hfin)
    apply wi_addSch
    exact wi_foldKeep h1 (fun _ r => { r with offset := natNow now }) (fun _ _ => ⟨rfl, rfl⟩) _
  · exact h

/-! ### pruning -/

theorem WI.prune {a : Sys} (h : WI a) (oid : Oid) : WI (a.updateCurrentPlan oid) := by
  have hc := updateCurrentPlan_core a oid
  have hpl := updateCurrentPlan_plans a oid
  have hbuf := updateCurrentPlan_buf a oid
  cases hpo : a.plan? oid with
  | none =>
    rw [hpo] at hpl
    exact h.congr hc.tasks hpl (by rw [hbuf]) hc.procs hc.starts
  | some pl0 =>
    rw [hpo] at hpl
    refine h.planMap hc.tasks (by rw [hbuf]) hc.starts hc.procs oid
      (fun p => { p with tasks := p.tasks.filter (fun t => (a.taskView t).status ≠ .finished) }) hpl
      (fun _ => rfl) (fun _ _ _ t ht => (List.mem_filter.mp ht).1) ?_ ?_
    · intro pl hplm _ t ht
      by_cases hfin : tstat a t = .finished
      · right
        intro r hr hid
        obtain ⟨c, n, e⟩ := h.pt pl hplm t ht
        rw [h.rec_status ⟨_, c, n, e⟩ r hr hid, hfin]
      · left
        exact List.mem_filter.mpr ⟨ht, by simpa [tstat] using hfin⟩
    · intro pl hplm _ hfin
      have := h.pf pl hplm hfin
      simp only
      rw [this]; rfl

/-! ### the algorithm's status -/

theorem WI.afterAlg {s1 : Sys} (h : WI s1) {oid : Oid} {plan : Plan} (hplan : s1.plan? oid = some plan)
    (out : AlgOut) (hfin : out.status = .finished → plan.tasks = []) : WI (atS3 s1 out oid) := by
  obtain ⟨hplm, hpobs⟩ := plan?_mem hplan
  refine h.planMap (atS3_tasks s1 out oid) (by rw [atS3_buf]) ?_ (atS3_procs s1 out oid) oid
    (fun p => { p with status := out.status }) (atS3_plans s1 out oid)
    (fun _ => rfl) (fun _ _ _ _ ht => ht) (fun _ _ _ _ ht => Or.inl ht) ?_
  · unfold atS3; split <;> rfl
  · intro pl hpl0 e hf
    have : pl = plan := eq_of_map_nodup h.pn hpl0 hplm (e.trans hpobs.symm)
    rw [this]; exact hfin hf

theorem remove_finished (b : Buffer) (oid : Oid) :
    ∀ o ∈ (b.remove oid).1.hot.finished, o ∈ b.hot.finished ∨ o = oid := by
  intro o ho
  unfold Buffer.remove at ho
  split at ho
  · simp only [List.mem_append, List.mem_singleton] at ho; exact ho
  · exact Or.inl ho

/-! ### one iteration -/

theorem wi_allocTasksIter {a : Sys} (h : WI a) (now : Time) (orc : Oracle) (oid : Oid)
    (sc pa : List (Tid × Mid)) (po : List Tid) : WI (a.allocTasksIter now orc oid sc pa po).1 := by
  have h1 := h.prune oid
  have hout := allocTasksIter_out a now orc oid sc pa po
  generalize a.allocTasksIter now orc oid sc pa po = r at hout ⊢
  have key : ∀ (plan : Plan) (out : AlgOut), (a.updateCurrentPlan oid).plan? oid = some plan →
      (a.updateCurrentPlan oid).runAlgorithm orc plan sc po = .ok out →
      WI (atS3 (a.updateCurrentPlan oid) out oid) ∧
      (out.status = .finished → ((atS3 (a.updateCurrentPlan oid) out oid).plan? oid).isSome = true ∧
        planTasks (atS3 (a.updateCurrentPlan oid) out oid) oid = []) := by
    intro plan out hplan hrun
    have hfin : out.status = .finished → plan.tasks = [] := by
      intro hf
      rcases runAlgorithm_finished _ orc plan sc po out hrun hf with e | e
      · exact e
      · exact h1.pf plan (plan?_mem hplan).1 e
    refine ⟨h1.afterAlg hplan out hfin, fun hf => ⟨?_, ?_⟩⟩
    · rw [plan?_map (a.updateCurrentPlan oid) (atS3 (a.updateCurrentPlan oid) out oid) oid
        (fun p => { p with status := out.status }) (fun _ => rfl) (atS3_plans _ out oid) oid, hplan]
      rfl
    · rw [atS3_planTasks]; unfold planTasks; rw [hplan]; exact hfin hf
  cases hout with
  | noPlan _ => exact h1
  | algErr _ _ _ _ => exact h1
  | finish plan out hplan hrun _ hfin _ _ =>
    obtain ⟨h3, hz⟩ := key plan out hplan hrun
    obtain ⟨z1, z2⟩ := hz hfin
    exact h3.hotFinished rfl rfl rfl rfl oid (remove_finished _ oid) z1 z2
  | finishBad plan out hplan hrun _ hfin _ _ =>
    obtain ⟨h3, hz⟩ := key plan out hplan hrun
    obtain ⟨z1, z2⟩ := hz hfin
    exact h3.hotFinished rfl rfl rfl rfl oid (remove_finished _ oid) z1 z2
  | finishWait plan out hplan hrun _ hfin _ =>
    obtain ⟨h3, hz⟩ := key plan out hplan hrun
    obtain ⟨z1, z2⟩ := hz hfin
    exact h3.hotFinished rfl rfl rfl rfl oid (remove_finished _ oid) z1 z2
  | idle plan out hplan hrun _ _ => exact (key plan out hplan hrun).1
  | alloc plan out y hplan hrun _ _ =>
    exact wi_processCurrentSchedule (key plan out hplan hrun).1 now oid _ _

theorem wi_allocTasksBlock {s : Sys} (h : WI s) (now : Time) (orc : Oracle) (pc : Nat) (oid : Oid)
    (sc pa : List (Tid × Mid)) (po : List Tid) (fn : Bool) :
    WI (s.allocTasksBlock now orc pc oid sc pa po fn).1 := by
  cases fn with
  | true => rw [allocTasksBlock_fin]; exact h
  | false => rw [allocTasksBlock_eq]; exact wi_allocTasksIter (h.started now pc oid) now orc oid sc pa po

end Sys
end Topsim
