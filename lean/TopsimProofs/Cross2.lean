/-
  Cross2 — one block of `allocate_tasks` and its table of allocations: the entries of
  tasks that had left UNSCHEDULED are kept; a new entry belongs to a new allocation
  process; every new allocation process is entered in the new table with its machine,
  and its cross-machine list was computed from a table that agrees with the old one on
  every task that had left UNSCHEDULED.
-/
import TopsimProofs.Cross1

namespace Topsim
namespace Sys

/-- what a block of `allocate_tasks` does to the table `pa` (result `X`, new table `pa'`) -/
structure CrossOut (a : Sys) (oid : Oid) (pa : List (Tid × Mid)) (X : Sys) (pa' : List (Tid × Mid)) : Prop where
  keep : ∀ x, tstat a x ≠ .unscheduled → dictGet pa' x = dictGet pa x
  wit : ∀ x mx, dictGet pa' x = some mx → dictGet pa x = some mx ∨
    ∃ q ∈ X.procs, ∃ m' c, q.k = .allocTask x m' c (some oid) false 0
  procs : ∀ q ∈ X.procs, q ∈ a.procs ∨ ∃ t m paq r,
    q.k = .allocTask t m (crossPreds paq r.preds m) (some oid) false 0 ∧
    tstat a t = .unscheduled ∧ dictGet pa' t = some m ∧
    X.task? t = some r ∧ (∀ x ∈ r.preds, dictHas paq x = true) ∧
    (∀ x, tstat a x ≠ .unscheduled → dictGet paq x = dictGet pa x)

theorem CrossOut.same {a X : Sys} (oid : Oid) (pa : List (Tid × Mid)) (hp : X.procs = a.procs) :
    CrossOut a oid pa X pa :=
  ⟨fun _ _ => rfl, fun _ _ h => Or.inl h, fun q hq => Or.inl (by rw [← hp]; exact hq)⟩

/-- the yield of an iteration that runs `_process_current_schedule` -/
theorem cross_iter_alloc_yield (a : Sys) (now : Time) (orc : Oracle) (oid : Oid) (sc pa : List (Tid × Mid))
    (po : List Tid) (plan : Plan) (out : AlgOut)
    (hpl : (a.updateCurrentPlan oid).plan? oid = some plan)
    (hrun : (a.updateCurrentPlan oid).runAlgorithm orc plan sc po = .ok out)
    (hemp : out.schedule.isEmpty = false) :
    (a.allocTasksIter now orc oid sc pa po).2.2 =
      match (processCurrentSchedule (atS3 (a.updateCurrentPlan oid) out oid) now oid out.schedule pa).err with
      | some e => .raised e
      | none => .timeout 1 := by
  unfold allocTasksIter atS3
  simp only [hpl, hrun, hemp, Bool.false_eq_true, false_and, if_false]
  split <;> simp_all

/-- one iteration that does not raise -/
theorem cross_allocTasksIter_sum (a : Sys) (now : Time) (orc : Oracle) (oid : Oid) (sc pa : List (Tid × Mid))
    (po : List Tid) (hnr : ∀ e, (a.allocTasksIter now orc oid sc pa po).2.2 ≠ .raised e) :
    ∃ sc' pa' po' fn', (a.allocTasksIter now orc oid sc pa po).2.1 = .allocTasks oid sc' pa' po' fn' ∧
      CrossOut a oid pa (a.allocTasksIter now orc oid sc pa po).1 pa' := by
  have hp1 : (a.updateCurrentPlan oid).procs = a.procs := updateCurrentPlan_procs a oid
  have hout := allocTasksIter_out a now orc oid sc pa po
  generalize hr : a.allocTasksIter now orc oid sc pa po = r at hout hnr ⊢
  cases hout with
  | noPlan _ => exact ⟨sc, pa, po, false, rfl, CrossOut.same oid pa hp1⟩
  | algErr _ _ _ _ => exact ⟨sc, pa, po, false, rfl, CrossOut.same oid pa hp1⟩
  | finish plan out _ _ hemp _ _ _ =>
    refine ⟨out.schedule, pa, out.pool, true, rfl, CrossOut.same oid pa ?_⟩
    show (atS3 (a.updateCurrentPlan oid) out oid).procs = _
    rw [atS3_procs, hp1]
  | finishBad plan out _ _ hemp _ _ _ =>
    refine ⟨out.schedule, pa, out.pool, false, rfl, CrossOut.same oid pa ?_⟩
    show (atS3 (a.updateCurrentPlan oid) out oid).procs = _
    rw [atS3_procs, hp1]
  | finishWait plan out _ _ hemp _ _ =>
    refine ⟨out.schedule, pa, out.pool, false, rfl, CrossOut.same oid pa ?_⟩
    show (atS3 (a.updateCurrentPlan oid) out oid).procs = _
    rw [atS3_procs, hp1]
  | idle plan out _ _ hemp _ =>
    refine ⟨out.schedule, pa, out.pool, false, rfl, CrossOut.same oid pa ?_⟩
    rw [atS3_procs, hp1]
  | alloc plan out y hplan hrun hemp _ =>
    have hy := cross_iter_alloc_yield a now orc oid sc pa po plan out hplan hrun hemp
    rw [hr] at hy
    have herr : (processCurrentSchedule (atS3 (a.updateCurrentPlan oid) out oid) now oid out.schedule pa).err = none := by
      cases he : (processCurrentSchedule (atS3 (a.updateCurrentPlan oid) out oid) now oid out.schedule pa).err with
      | none => rfl
      | some e =>
        rw [he] at hy
        exact absurd hy (hnr e)
    have hc := cross_processCurrentSchedule (atS3 (a.updateCurrentPlan oid) out oid) now oid out.schedule pa herr
    have hts : ∀ x, tstat (atS3 (a.updateCurrentPlan oid) out oid) x = tstat a x := fun x =>
      (tstat_of_tasks (atS3_tasks _ _ _) x).trans (updateCurrentPlan_tstat a oid x)
    refine ⟨_, _, out.pool, false, rfl, ?_, ?_, ?_⟩
    · intro x hx; exact hc.keep x (by rw [hts]; exact hx)
    · exact hc.wit
    · intro q hq
      rcases hc.procs q hq with h1 | ⟨t, m, paq, r, g1, g2, _, g4, g5, g6, g7⟩
      · rw [atS3_procs, hp1] at h1; exact Or.inl h1
      · exact Or.inr ⟨t, m, paq, r, g1, by rw [← hts]; exact g2, g4, g5, g6,
          fun x hx => g7 x (by rw [hts]; exact hx)⟩

/-- one block that does not raise -/
theorem cross_allocTasksBlock_sum (s : Sys) (now : Time) (orc : Oracle) (pc : Nat) (oid : Oid)
    (sc pa : List (Tid × Mid)) (po : List Tid) (fn : Bool)
    (hnr : ∀ e, (s.allocTasksBlock now orc pc oid sc pa po fn).2.2 ≠ .raised e) :
    ∃ sc' pa' po' fn', (s.allocTasksBlock now orc pc oid sc pa po fn).2.1 = .allocTasks oid sc' pa' po' fn' ∧
      CrossOut s oid pa (s.allocTasksBlock now orc pc oid sc pa po fn).1 pa' := by
  cases fn with
  | true =>
    rw [allocTasksBlock_fin]
    exact ⟨sc, pa, po, true, rfl, CrossOut.same oid pa rfl⟩
  | false =>
    rw [allocTasksBlock_eq] at hnr ⊢
    obtain ⟨sc', pa', po', fn', g1, g2⟩ := cross_allocTasksIter_sum (atStart s now pc oid) now orc oid sc pa po hnr
    refine ⟨sc', pa', po', fn', g1, ?_, g2.wit, ?_⟩
    · intro x hx; exact g2.keep x (by rw [atStart_tstat]; exact hx)
    · intro q hq
      rcases g2.procs q hq with h1 | ⟨t, m, paq, r, k1, k2, k3, k4, k5, k6⟩
      · rw [atStart_procs] at h1; exact Or.inl h1
      · exact Or.inr ⟨t, m, paq, r, k1, by rw [← atStart_tstat s now pc oid]; exact k2, k3, k4, k5,
          fun x hx => k6 x (by rw [atStart_tstat]; exact hx)⟩

end Sys
end Topsim
