/-
  LifeCycle8 — the scheduler side, state only: plans are never dropped, the hot buffer's
  `scheduled` / `finished` lists, and the `allocate_tasks` processes (at most one per observation,
  each with its plan, the live ones with their observation in `scheduled`).
-/
import TopsimProofs.LifeCycle7

namespace Topsim
namespace Sys

/-! ### the scheduler loop's block, all cases -/

theorem schedLoopBlock_cases (s : Sys) (now : Time) (orc : Oracle) :
    ((s.schedLoopBlock now orc).1.procs = s.procs ∧ (s.schedLoopBlock now orc).1.queue = s.queue ∧
      (s.schedLoopBlock now orc).1.buf = s.buf ∧ (s.schedLoopBlock now orc).1.plans = s.plans) ∨
    (∃ oid plan, s.buf.nextForProcessing.2 = some oid ∧
      (s.schedLoopBlock now orc).1.buf = s.buf.nextForProcessing.1 ∧ plan.obs = oid ∧
      (s.schedLoopBlock now orc).1.plans = s.plans.filter (·.obs ≠ oid) ++ [plan] ∧
      ((oid ∈ s.queue ∧ (s.schedLoopBlock now orc).1.procs = s.procs ∧
          (s.schedLoopBlock now orc).1.queue = s.queue) ∨
       (oid ∉ s.queue ∧ (s.schedLoopBlock now orc).1.queue = s.queue ++ [oid] ∧
          (s.schedLoopBlock now orc).1.procs = s.procs ++
            [{ pid := s.nextPid, k := .allocTasks oid [] [] [] false, wake := now }]))) := by
  rcases schedLoopBlock_buf s now orc with ⟨hb, hp, _, hq, hpr⟩ | ⟨oid, o, recs, plan, hnx, hob, hrp, hb, hp, _, hcase⟩
  · exact Or.inl ⟨hpr, hq, hb, hp⟩
  · right
    have hoid : o.id = oid := (obs_mem_of_obs? hob).2
    have hplan : plan.obs = oid := by
      have h2 : plan = (if s.staticPlan = true then staticPlanOf o (natNow now) orc.plan
          else batchPlan o (natNow now)).2 := by rw [← hrp]
      rw [h2]
      split
      · exact hoid
      · exact hoid
    refine ⟨oid, plan, hnx, hb, hplan, hp, ?_⟩
    rcases hcase with ⟨h1, h2, h3⟩ | ⟨h1, h2, h3⟩
    · exact Or.inl ⟨h1, h3, h2⟩
    · exact Or.inr ⟨h1, h2, h3⟩

/-! ### plans are never dropped -/

/-- every plan of `a` has a plan of `b` for the same observation -/
def PlansFwd (a b : Sys) : Prop := ∀ pl ∈ a.plans, ∃ pl' ∈ b.plans, pl'.obs = pl.obs

theorem PlansFwd.refl (a : Sys) : PlansFwd a a := fun pl h => ⟨pl, h, rfl⟩
theorem PlansFwd.trans {a b c : Sys} (h1 : PlansFwd a b) (h2 : PlansFwd b c) : PlansFwd a c := by
  intro pl hpl
  obtain ⟨p1, hp1, e1⟩ := h1 pl hpl
  obtain ⟨p2, hp2, e2⟩ := h2 p1 hp1
  exact ⟨p2, hp2, e2.trans e1⟩
theorem PlansFwd.of_eq {a b : Sys} (h : b.plans = a.plans) : PlansFwd a b :=
  fun pl hpl => ⟨pl, by rw [h]; exact hpl, rfl⟩
theorem PlansFwd.updPlan (a : Sys) (o : Oid) (f : Plan → Plan) (hf : ∀ p, (f p).obs = p.obs) :
    PlansFwd a (a.updPlan o f) := by
  intro pl hpl
  refine ⟨if pl.obs = o then f pl else pl, ?_, ?_⟩
  · simp only [Sys.updPlan, List.mem_map]; exact ⟨pl, hpl, rfl⟩
  · split
    · exact hf pl
    · rfl

theorem allocTasksBlock_plansFwd (s : Sys) (now : Time) (orc : Oracle) (pc : Nat) (oid : Oid)
    (sc pa : List (Tid × Mid)) (po : List Tid) (fin : Bool) :
    PlansFwd s (s.allocTasksBlock now orc pc oid sc pa po fin).1 := by
  cases fin with
  | true => rw [allocTasksBlock_fin]; exact PlansFwd.refl _
  | false =>
    rw [allocTasksBlock_eq]
    have h0 : PlansFwd s (atStart s now pc oid) := by
      rcases atStart_plans s now pc oid with h | h
      · exact PlansFwd.of_eq h
      · exact (PlansFwd.updPlan s oid (fun p => { p with ast := some (natNow now) }) (fun _ => rfl)).trans
          (PlansFwd.of_eq h)
    refine h0.trans ?_
    generalize atStart s now pc oid = a
    have h1 : PlansFwd a (a.updateCurrentPlan oid) := by
      have := updateCurrentPlan_plans a oid
      split at this
      · exact PlansFwd.of_eq this
      · exact (PlansFwd.updPlan a oid (fun p =>
          { p with tasks := p.tasks.filter (fun t => (a.taskView t).status ≠ .finished) }) (fun _ => rfl)).trans
          (PlansFwd.of_eq this)
    have h3 : ∀ out : AlgOut, PlansFwd (a.updateCurrentPlan oid) (atS3 (a.updateCurrentPlan oid) out oid) := by
      intro out pl hpl
      refine ⟨if pl.obs = oid then { pl with status := out.status } else pl, ?_, ?_⟩
      · rw [atS3_plans]; exact List.mem_map.mpr ⟨pl, hpl, rfl⟩
      · split <;> rfl
    have hout := allocTasksIter_out a now orc oid sc pa po
    generalize a.allocTasksIter now orc oid sc pa po = r at hout ⊢
    cases hout with
    | noPlan _ => exact h1
    | algErr _ _ _ _ => exact h1
    | finish plan out _ _ _ _ _ _ => exact (h1.trans (h3 out)).trans (PlansFwd.of_eq rfl)
    | finishBad plan out _ _ _ _ _ _ => exact (h1.trans (h3 out)).trans (PlansFwd.of_eq rfl)
    | finishWait plan out _ _ _ _ _ => exact (h1.trans (h3 out)).trans (PlansFwd.of_eq rfl)
    | idle plan out _ _ _ _ => exact h1.trans (h3 out)
    | alloc plan out y _ _ _ _ =>
      exact (h1.trans (h3 out)).trans (PlansFwd.of_eq (processCurrentSchedule_plans _ _ _ _ _))

theorem block_plansFwd (s : Sys) (p : Proc) (orc : Oracle) : PlansFwd s (s.block p orc).1 := by
  by_cases h1 : p.k.tag = "schedLoop"
  · have hk : p.k = .schedLoop := by cases hk : p.k <;> rw [hk] at h1 <;> simp [PK.tag] at h1 <;> rfl
    rw [block_schedLoop orc hk]
    rcases schedLoopBlock_cases s p.wake orc with ⟨_, _, _, h⟩ | ⟨oid, plan, _, _, hpo, h, _⟩
    · exact PlansFwd.of_eq h
    · intro pl hpl
      show ∃ pl' ∈ (s.schedLoopBlock p.wake orc).1.plans, _
      rw [h]
      by_cases e : pl.obs = oid
      · exact ⟨plan, by simp, hpo.trans e.symm⟩
      · exact ⟨pl, List.mem_append_left _ (List.mem_filter.mpr ⟨hpl, by simpa using e⟩), rfl⟩
  · by_cases h2 : p.k.tag = "allocTasks"
    · cases hk : p.k <;> rw [hk] at h2 <;> simp [PK.tag] at h2
      rw [block_allocTasks orc hk]
      exact allocTasksBlock_plansFwd _ _ _ _ _ _ _ _ _
    · exact PlansFwd.of_eq (block_plans s p orc h1 h2)

theorem resume_plansFwd (s : Sys) (pid : Nat) (orc : Oracle) (p : Proc) (hp : s.proc? pid = some p)
    (ha : p.alive = true) : PlansFwd s (s.resume pid orc).1 :=
  (block_plansFwd s p orc).trans (PlansFwd.of_eq (resume_plans s pid orc p hp ha))

/-! ### the hot buffer's `scheduled` and `finished` lists -/

theorem remove_lists (b : Buffer) (o : Oid) :
    ((b.remove o).1.hot.scheduled = b.hot.scheduled.erase o ∨ (b.remove o).1.hot.scheduled = b.hot.scheduled) ∧
    (∀ x ∈ b.hot.finished, x ∈ (b.remove o).1.hot.finished) ∧
    (o ∈ b.hot.scheduled → o ∈ (b.remove o).1.hot.finished) := by
  unfold Buffer.remove
  split
  · exact ⟨Or.inl rfl, fun x hx => List.mem_append_left _ hx, fun _ => by simp⟩
  · rename_i h
    exact ⟨Or.inr rfl, fun x hx => hx, fun h' => absurd h' h⟩

/-- what a block does to `scheduled` and `finished`: only the scheduler loop (appends the popped
observation to `scheduled`) and `allocate_tasks` (moves its own observation from `scheduled` to
`finished`) touch them -/
theorem block_hot (s : Sys) (p : Proc) (orc : Oracle) :
    (∀ x ∈ s.buf.hot.finished, x ∈ (s.block p orc).1.buf.hot.finished) ∧
    (∀ x ∈ s.buf.hot.scheduled, x ∈ (s.block p orc).1.buf.hot.scheduled ∨
      ∃ sc pa po, p.k = .allocTasks x sc pa po false) ∧
    (∀ x ∈ (s.block p orc).1.buf.hot.finished, x ∈ s.buf.hot.finished ∨
      ∃ sc pa po, p.k = .allocTasks x sc pa po false) := by
  by_cases h1 : p.k.tag = "schedLoop"
  · have hk : p.k = .schedLoop := by cases hk : p.k <;> rw [hk] at h1 <;> simp [PK.tag] at h1 <;> rfl
    rw [block_schedLoop orc hk]
    rcases schedLoopBlock_cases s p.wake orc with ⟨_, _, h, _⟩ | ⟨oid, plan, hnx, h, _⟩
    · simp only [h]; exact ⟨fun x hx => hx, fun x hx => Or.inl hx, fun x hx => Or.inl hx⟩
    · obtain ⟨_, _, g3, g4⟩ := bufList_next s.buf oid hnx
      simp only [h, g3, g4]
      exact ⟨fun x hx => hx, fun x hx => Or.inl (List.mem_append_left _ hx), fun x hx => Or.inl hx⟩
  · by_cases h2 : p.k.tag = "ingestStream"
    · cases hk : p.k <;> rw [hk] at h2 <;> simp [PK.tag] at h2
      rename_i o tl
      rw [block_ingestStream orc hk]
      obtain ⟨g1, g2, _⟩ := ingestStreamBlock_buf s p.wake p.pc o tl
      simp only [g1, g2]; exact ⟨fun x hx => hx, fun x hx => Or.inl hx, fun x hx => Or.inl hx⟩
    · by_cases h4 : p.k.tag = "hot2cold"
      · cases hk : p.k <;> rw [hk] at h4 <;> simp [PK.tag] at h4
        rename_i cur
        rw [block_hot2cold orc hk]
        obtain ⟨g1, g2⟩ := hot2coldBlock_schedfin s p.wake cur
        simp only [g1, g2]; exact ⟨fun x hx => hx, fun x hx => Or.inl hx, fun x hx => Or.inl hx⟩
      · by_cases h5 : p.k.tag = "cold2hot"
        · cases hk : p.k <;> rw [hk] at h5 <;> simp [PK.tag] at h5
          rename_i cur
          rw [block_cold2hot orc hk]
          obtain ⟨g1, g2⟩ := cold2hotBlock_schedfin s p.wake cur
          simp only [g1, g2]; exact ⟨fun x hx => hx, fun x hx => Or.inl hx, fun x hx => Or.inl hx⟩
        · by_cases h3 : p.k.tag = "allocTasks"
          · cases hk : p.k <;> rw [hk] at h3 <;> simp [PK.tag] at h3
            rename_i o sc pa po fin
            rcases blockEvents_allocTasks (s := s) orc hk with ⟨_, _, hb⟩ | ⟨hfin, c, u, hat, _⟩
            · rw [hb]; exact ⟨fun x hx => hx, fun x hx => Or.inl hx, fun x hx => Or.inl hx⟩
            · subst hfin
              have hsb : (atStart s p.wake p.pc o).buf = s.buf := atStart_buf _ _ _ _
              have key : (s.block p orc).1.buf = s.buf ∨ (s.block p orc).1.buf = (s.buf.remove o).1 := by
                generalize s.block p orc = r at hat
                cases hat with
                | quiet X k y sc pa po _ hb _ _ => exact Or.inl (hb.trans hsb)
                | finish X sc pa po _ _ hb _ _ => right; rw [hb, hsb]
                | finishBad X sc pa po e _ _ hb _ _ => right; rw [hb, hsb]
                | finishWait X sc pa po _ _ hb _ => exact Or.inl (hb.trans hsb)
              rcases key with hb | hb
              · rw [hb]; exact ⟨fun x hx => hx, fun x hx => Or.inl hx, fun x hx => Or.inl hx⟩
              · rw [hb]
                obtain ⟨g1, g2, _⟩ := remove_lists s.buf o
                refine ⟨g2, ?_, ?_⟩
                · intro x hx
                  by_cases e : x = o
                  · subst e; exact Or.inr ⟨sc, pa, po, rfl⟩
                  · left
                    rcases g1 with g | g <;> rw [g]
                    · exact (List.mem_erase_of_ne e).mpr hx
                    · exact hx
                · intro x hx
                  rcases remove_finished s.buf o x hx with h | h
                  · exact Or.inl h
                  · subst h; exact Or.inr ⟨sc, pa, po, rfl⟩
          · have := block_buf s p orc h1 h2 h3 h4 h5
            rw [this]; exact ⟨fun x hx => hx, fun x hx => Or.inl hx, fun x hx => Or.inl hx⟩

/-! ### the `allocate_tasks` processes -/

structure LcATI (s : Sys) : Prop where
  plan : ∀ p ∈ s.procs, ∀ o sc pa po fin, p.k = .allocTasks o sc pa po fin → ∃ pl ∈ s.plans, pl.obs = o
  uniq : ∀ p ∈ s.procs, ∀ q ∈ s.procs, ∀ o sc pa po fin sc' pa' po' fin',
    p.k = .allocTasks o sc pa po fin → q.k = .allocTasks o sc' pa' po' fin' → p.pid = q.pid
  sched : ∀ p ∈ s.procs, p.alive = true → ∀ o sc pa po, p.k = .allocTasks o sc pa po false →
    o ∈ s.buf.hot.scheduled

theorem start_ati (s0 : Sys) (hw : WFConfig s0) : LcATI s0.start := by
  constructor
  · intro p hp o sc pa po fin hk
    rw [start_procs s0 hw] at hp
    simp only [List.mem_cons, List.not_mem_nil, or_false] at hp
    rcases hp with rfl | rfl | rfl | rfl | rfl <;> simp at hk
  · intro p hp q _ o sc pa po fin sc' pa' po' fin' hk
    rw [start_procs s0 hw] at hp
    simp only [List.mem_cons, List.not_mem_nil, or_false] at hp
    rcases hp with rfl | rfl | rfl | rfl | rfl <;> simp at hk
  · intro p hp _ o sc pa po hk
    rw [start_procs s0 hw] at hp
    simp only [List.mem_cons, List.not_mem_nil, or_false] at hp
    rcases hp with rfl | rfl | rfl | rfl | rfl <;> simp at hk

/-- the new `allocate_tasks` processes of a step: none, or the one the scheduler loop creates for
the observation it has just popped from `stored` into `scheduled` and given a plan -/
theorem new_allocTasks (s : Sys) (p : Proc) (orc : Oracle) {new : List Proc}
    (hnew : (s.block p orc).1.procs = s.procs ++ new) :
    (∀ q ∈ new, ∀ o sc pa po fin, q.k ≠ .allocTasks o sc pa po fin) ∨
    (∃ oid, p.k = .schedLoop ∧ oid ∈ s.buf.hot.stored ∧ oid ∈ (s.block p orc).1.buf.hot.scheduled ∧
      (∃ pl ∈ (s.block p orc).1.plans, pl.obs = oid) ∧
      new = [{ pid := s.nextPid, k := .allocTasks oid [] [] [] false, wake := p.wake }]) := by
  obtain ⟨new', hnew', hprops⟩ := block_newp s p orc
  have hnn : new' = new := List.append_cancel_left (hnew'.symm.trans hnew)
  subst hnn
  by_cases hk : p.k = .schedLoop
  · rw [block_schedLoop orc hk] at hnew ⊢
    have hnil : (s.schedLoopBlock p.wake orc).1.procs = s.procs → new' = [] := fun h =>
      List.append_cancel_left (hnew.symm.trans (h.trans (List.append_nil _).symm))
    rcases schedLoopBlock_cases s p.wake orc with ⟨h, _⟩ | ⟨oid, plan, hnx, hb, hpo, hpl, hcase⟩
    · left; rw [hnil h]; simp
    · rcases hcase with ⟨_, h, _⟩ | ⟨_, _, h⟩
      · left; rw [hnil h]; simp
      · right
        obtain ⟨_, g2, g3, _⟩ := bufList_next s.buf oid hnx
        refine ⟨oid, hk, g2, ?_, ⟨plan, ?_, hpo⟩, List.append_cancel_left (hnew.symm.trans h)⟩
        · show oid ∈ (s.schedLoopBlock p.wake orc).1.buf.hot.scheduled
          rw [hb, g3]; simp
        · show plan ∈ (s.schedLoopBlock p.wake orc).1.plans
          rw [hpl]; simp
  · left
    intro q hq o sc pa po fin hqk
    have := (hprops q hq).2.2.2
    rw [hqk] at this
    cases hpk : p.k <;> rw [hpk] at this <;> simp [NewKind] at this
    exact hk hpk

theorem ati_step {s : Sys} (hi : EInv s) (hb : BufI s) (h : LcATI s) {pid : Nat} (hen : s.enabled pid)
    (orc : Oracle) : LcATI (s.resume pid orc).1 := by
  obtain ⟨p, hp, ha, hmin⟩ := hen
  obtain ⟨hpm, hpid⟩ := proc?_some hp
  obtain ⟨new, hnew, _⟩ := block_newp s p orc
  have hm := resume_memSpec hi hp ha hmin orc hnew
  have hplans := resume_plansFwd s pid orc p hp ha
  have hbufEq : (s.resume pid orc).1.buf = (s.block p orc).1.buf := resume_buf s pid orc p hp ha
  have hplEq : (s.resume pid orc).1.plans = (s.block p orc).1.plans := resume_plans s pid orc p hp ha
  have hcls := (block_class s hi.pw p orc).2
  obtain ⟨_, hsk, _⟩ := block_hot s p orc
  -- where an `allocate_tasks` process of the new table comes from
  have back : ∀ q ∈ (s.resume pid orc).1.procs, ∀ o sc pa po fin, q.k = .allocTasks o sc pa po fin →
      (∃ q0 ∈ s.procs, q0.pid = q.pid ∧ ∃ sc0 pa0 po0 fin0, q0.k = .allocTasks o sc0 pa0 po0 fin0) ∨ q ∈ new := by
    intro q hq o sc pa po fin hqk
    rcases (hm q).mp hq with rfl | ⟨hq0, _⟩ | hqn
    · left
      simp only [fin_k] at hqk
      obtain ⟨sc0, pa0, po0, fin0, hk0⟩ := (hcls o).mp ⟨sc, pa, po, fin, hqk⟩
      exact ⟨p, hpm, by simp, sc0, pa0, po0, fin0, hk0⟩
    · exact Or.inl ⟨q, hq0, rfl, sc, pa, po, fin, hqk⟩
    · exact Or.inr hqn
  -- an observation that is being stored has no `allocate_tasks` process yet
  have fresh : ∀ oid, oid ∈ s.buf.hot.stored → ∀ q0 ∈ s.procs, ∀ sc pa po fin,
      q0.k ≠ .allocTasks oid sc pa po fin := by
    intro oid hst q0 hq0 sc pa po fin hk0
    obtain ⟨pl, hpl, hpo⟩ := h.plan q0 hq0 oid sc pa po fin hk0
    have hloc := hb.planLoc pl hpl
    rw [hpo] at hloc
    have hc := hb.cnt oid
    have h1 : 1 ≤ s.buf.hot.stored.count oid := List.count_pos_iff.mpr hst
    have h2 : 1 ≤ (s.buf.hot.scheduled ++ s.buf.hot.finished).count oid := List.count_pos_iff.mpr hloc
    unfold locCount bufList at hc
    simp only [List.count_append] at hc h2
    omega
  constructor
  · -- plan
    intro q hq o sc pa po fin hqk
    rcases back q hq o sc pa po fin hqk with ⟨q0, hq0, _, sc0, pa0, po0, fin0, hk0⟩ | hqn
    · obtain ⟨pl, hpl, hpo⟩ := h.plan q0 hq0 o sc0 pa0 po0 fin0 hk0
      obtain ⟨pl', hpl', e⟩ := hplans pl hpl
      exact ⟨pl', hpl', e.trans hpo⟩
    · rcases new_allocTasks s p orc hnew with hnone | ⟨oid, _, _, _, ⟨pl, hpl, hpo⟩, hn⟩
      · exact absurd hqk (hnone q hqn o sc pa po fin)
      · rw [hn] at hqn; simp at hqn; subst hqn
        simp only [PK.allocTasks.injEq] at hqk
        exact ⟨pl, by rw [hplEq]; exact hpl, hpo.trans hqk.1⟩
  · -- uniq
    intro q1 hq1 q2 hq2 o sc pa po fin sc' pa' po' fin' hk1 hk2
    rcases new_allocTasks s p orc hnew with hnone | ⟨oid, _, hst, _, _, hn⟩
    · rcases back q1 hq1 o sc pa po fin hk1 with ⟨a, ha1, hap, _, _, _, _, hak⟩ | hn1
      · rcases back q2 hq2 o sc' pa' po' fin' hk2 with ⟨b, hb1, hbp, _, _, _, _, hbk⟩ | hn2
        · rw [← hap, ← hbp]; exact h.uniq a ha1 b hb1 o _ _ _ _ _ _ _ _ hak hbk
        · exact absurd hk2 (hnone q2 hn2 _ _ _ _ _)
      · exact absurd hk1 (hnone q1 hn1 _ _ _ _ _)
    · have hnewk : ∀ q ∈ new, ∀ o sc pa po fin, q.k = .allocTasks o sc pa po fin → o = oid ∧ q.pid = s.nextPid := by
        intro q hq o sc pa po fin hqk
        rw [hn] at hq; simp at hq; subst hq
        simp only [PK.allocTasks.injEq] at hqk
        exact ⟨hqk.1.symm, rfl⟩
      rcases back q1 hq1 o sc pa po fin hk1 with ⟨a, ha1, hap, _, _, _, _, hak⟩ | hn1 <;>
      rcases back q2 hq2 o sc' pa' po' fin' hk2 with ⟨b, hb1, hbp, _, _, _, _, hbk⟩ | hn2
      · rw [← hap, ← hbp]; exact h.uniq a ha1 b hb1 o _ _ _ _ _ _ _ _ hak hbk
      · obtain ⟨e, _⟩ := hnewk q2 hn2 _ _ _ _ _ hk2
        subst e; exact absurd hak (fresh o hst a ha1 _ _ _ _)
      · obtain ⟨e, _⟩ := hnewk q1 hn1 _ _ _ _ _ hk1
        subst e; exact absurd hbk (fresh o hst b hb1 _ _ _ _)
      · rw [(hnewk q1 hn1 _ _ _ _ _ hk1).2, (hnewk q2 hn2 _ _ _ _ _ hk2).2]
  · -- sched
    intro q hq hqa o sc pa po hqk
    rw [hbufEq]
    rcases (hm q).mp hq with rfl | ⟨hq0, hne⟩ | hqn
    · -- the process that ran
      simp only [fin_k] at hqk
      obtain ⟨d, hy⟩ := (fin_alive _ _ _ _ hqa).2
      obtain ⟨sc0, pa0, po0, fin0, hk0⟩ := (hcls o).mp ⟨sc, pa, po, false, hqk⟩
      rcases blockEvents_allocTasks (s := s) orc hk0 with ⟨hf, _, hblk⟩ | ⟨hf, c, u, hat, _⟩
      · rw [hblk] at hqk; simp at hqk
      · subst hf
        have hin := h.sched p hpm ha o sc0 pa0 po0 hk0
        have hsb : (atStart s p.wake p.pc o).buf = s.buf := atStart_buf _ _ _ _
        generalize s.block p orc = r at hat hqk hy ⊢
        cases hat with
        | quiet X k y sc pa po _ hb' _ _ => simp only; rw [hb', hsb]; exact hin
        | finish X sc pa po _ _ _ _ _ => simp at hqk
        | finishBad X sc pa po e _ _ _ _ _ => simp at hy
        | finishWait X sc pa po _ _ hb' _ => simp only; rw [hb', hsb]; exact hin
    · -- another old process
      have hin := h.sched q hq0 hqa o sc pa po hqk
      rcases hsk o hin with h' | ⟨sc0, pa0, po0, hpk⟩
      · exact h'
      · exact absurd (h.uniq q hq0 p hpm o _ _ _ _ _ _ _ _ hqk hpk) hne
    · -- a new process
      rcases new_allocTasks s p orc hnew with hnone | ⟨oid, _, _, hsc, _, hn⟩
      · exact absurd hqk (hnone q hqn _ _ _ _ _)
      · rw [hn] at hqn; simp at hqn; subst hqn
        simp only [PK.allocTasks.injEq] at hqk
        rw [← hqk.1]; exact hsc

theorem reachOk_ati (s0 s : Sys) (hw : WFConfig s0) (hbuf : bufList s0.buf = []) (h : ReachOk s0 s) :
    LcATI s := by
  induction h with
  | start => exact start_ati s0 hw
  | step s pid orc hr hen hpre ih =>
    exact ati_step (reach_einv s0 s hw hr.toReach) (reachOk_bufi s0 s hw hbuf hr) ih hen orc

end Sys
end Topsim
