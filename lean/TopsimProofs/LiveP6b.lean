/-
  LiveP6b — the declarations of Live6b.lean that depend on the configuration structures, restated for
  the plan-following configurations (`LivePCfg`, `NcPCfg`, `L7PLib`); the proofs are those of Live6b.lean.
-/
import TopsimProofs.LiveP6

namespace Topsim

open KState Sys

section

variable {env : SimEnv} {s0 : Sys}

/-- **P5.** an observation with a recorded start is FINISHED at some later index -/
theorem live_obs_finishes_P (C : LivePCfg env s0) (K : LiveKernel env s0) {n : Nat} {o : Oid} {ob : Obs}
    {a : Nat} (hob : (simAt env s0 n).st.obs? o = some ob) (hast : ob.ast = some a) :
    ∃ n', n ≤ n' ∧ ∃ ob', (simAt env s0 n').st.obs? o = some ob' ∧ ob'.status = .finished := by
  obtain ⟨n', hle, hdiv⟩ := K.div n (a + ob.duration + 1)
  obtain ⟨ob', hob', hast', hstat⟩ :=
    SimPath.ast_persist C.hw (K.reach n) (simAt_path env s0 n n' hle) hob hast
  refine ⟨n', hle, ob', hob', ?_⟩
  apply Classical.byContradiction
  intro hnf
  obtain ⟨t, ht, htk, hta⟩ := live_telescope_alive_P C K n' ⟨ob', (obs_mem_of_obs? hob').1, hnf⟩
  obtain ⟨e, p, hpk, hpp, ha, _⟩ := live_blk_P C K n'
  have hle2 := simRun_running_le env s0 C.hw _ (K.run n').1 hpk hpp ha hob' hast' hnf ht htk hta
  have hdur : ob'.duration = ob.duration := congrArg (fun x => x.2.2.1) hstat
  have hmem := (peek_spec _ e hpk).1
  have h1 := hdiv e hmem
  have h2 : ((a + ob.duration + 1 : Nat) : Time) ≤ (((a + ob'.duration : Nat) : Nat) : Time) :=
    Rat.le_trans h1 hle2
  rw [hdur, lcCast_le] at h2
  omega

/-- one block of a task body: it ends, or it moves to a later phase -/
theorem live_doWork_blk_P (C : LivePCfg env s0) (K : LiveKernel env s0) {n pid : Nat} {p : Proc}
    (hp : (simAt env s0 n).st.proc? pid = some p) (ha : p.alive = true) {t m preds ph tot}
    (hk : p.k = .doWork t m preds ph tot) :
    ∃ n', n ≤ n' ∧ ∃ p', (simAt env s0 n').st.proc? pid = some p' ∧
      ((p'.alive = false ∧ ∃ ph' tot', p'.k = .doWork t m preds ph' tot') ∨
       (p'.alive = true ∧ ph < 2 ∧ ∃ ph' tot', p'.k = .doWork t m preds ph' tot' ∧ ph < ph')) := by
  obtain ⟨n', hle, _, _, _, hnr, _, hself⟩ := live_next_blk_P C K hp ha
  refine ⟨n' + 1, by omega, _, hself, ?_⟩
  have hb := block_doWork (s := (simAt env s0 n').st) (p := p) (env.oracle (simAt env s0 n').st) hk
  rw [hb] at hnr ⊢
  have hsh := doWorkBlock_shape (simAt env s0 n').st p.wake (env.oracle (simAt env s0 n').st) t m preds ph tot
  generalize (simAt env s0 n').st.doWorkBlock p.wake (env.oracle (simAt env s0 n').st) t m preds ph tot = X
    at hsh hnr
  cases hsh with
  | raised ph' e => exact absurd rfl (hnr e)
  | wait w h0 _ _ =>
    right
    exact ⟨ha, by omega, 1, tot, rfl, by omega⟩
  | start r mm dur tot' hph _ _ =>
    right
    exact ⟨ha, by omega, 2, tot', rfl, by omega⟩
  | finish _ => left; exact ⟨rfl, 3, tot, rfl⟩

/-- a task body ends (and the record of the ended process is still that of a body of its task) -/
theorem live_doWork_ends_k_P (C : LivePCfg env s0) (K : LiveKernel env s0) {n pid : Nat} {p : Proc}
    (hp : (simAt env s0 n).st.proc? pid = some p) (ha : p.alive = true) {t m preds ph tot}
    (hk : p.k = .doWork t m preds ph tot) :
    ∃ n', n ≤ n' ∧ ∃ p', (simAt env s0 n').st.proc? pid = some p' ∧ p'.alive = false ∧
      ∃ ph' tot', p'.k = .doWork t m preds ph' tot' := by
  have key : ∀ j n p ph tot, (simAt env s0 n).st.proc? pid = some p → p.alive = true →
      p.k = .doWork t m preds ph tot → 2 ≤ ph + j →
      ∃ n', n ≤ n' ∧ ∃ p', (simAt env s0 n').st.proc? pid = some p' ∧ p'.alive = false ∧
        ∃ ph' tot', p'.k = .doWork t m preds ph' tot' := by
    intro j
    induction j with
    | zero =>
      intro n p ph tot hp ha hk hj
      obtain ⟨n', hle, p', hp', ⟨h, hk'⟩ | ⟨_, hlt, _⟩⟩ := live_doWork_blk_P C K hp ha hk
      · exact ⟨n', hle, p', hp', h, hk'⟩
      · omega
    | succ j ih =>
      intro n p ph tot hp ha hk hj
      obtain ⟨n', hle, p', hp', ⟨h, hk'⟩ | ⟨ha', _, ph', tot', hk', hlt⟩⟩ := live_doWork_blk_P C K hp ha hk
      · exact ⟨n', hle, p', hp', h, hk'⟩
      · obtain ⟨n'', hle', r⟩ := ih n' p' ph' tot' hp' ha' hk' (by omega)
        exact ⟨n'', by omega, r⟩
  exact key 2 n p ph tot hp ha hk (by omega)

/-- **P2.** a task body ends -/
theorem live_doWork_ends_P (C : LivePCfg env s0) (K : LiveKernel env s0) {n pid : Nat} {p : Proc}
    (hp : (simAt env s0 n).st.proc? pid = some p) (ha : p.alive = true) {t m preds ph tot}
    (hk : p.k = .doWork t m preds ph tot) :
    ∃ n', n ≤ n' ∧ ∃ p', (simAt env s0 n').st.proc? pid = some p' ∧ p'.alive = false := by
  obtain ⟨n', hle, p', hp', hd, _⟩ := live_doWork_ends_k_P C K hp ha hk
  exact ⟨n', hle, p', hp', hd⟩

end

end Topsim

