/-
  PlanFollow1 — plan-following scheduling (DynamicSchedulingFromPlan), vocabulary:
  "task `t` is planned on machine `m`" (`OnPlan`), blocks that never rewrite the plan fields
  of a record (`PlanKeep`), and what `_process_current_schedule` does to a schedule every
  entry of which names the planned machine of its task.
-/
import TopsimProofs.Preced20

namespace Topsim
namespace Sys

/-- the record of `t` (the one the scheduler finds) names machine `m` as the planned machine,
by id (`allocated_machine_id` is an id, not a Machine object) -/
def OnPlan (s : Sys) (t : Tid) (m : Mid) : Prop :=
  ∃ r, s.task? t = some r ∧ r.planned = some m ∧ r.allocObj = false

/-- every record visible before is visible after, with the same plan fields -/
def PlanKeep (s X : Sys) : Prop :=
  ∀ t r, s.task? t = some r → ∃ r', X.task? t = some r' ∧ r'.planned = r.planned ∧ r'.allocObj = r.allocObj

theorem PlanKeep.refl (s : Sys) : PlanKeep s s := fun _ r h => ⟨r, h, rfl, rfl⟩

theorem PlanKeep.trans {a b c : Sys} (h1 : PlanKeep a b) (h2 : PlanKeep b c) : PlanKeep a c := by
  intro t r hr
  obtain ⟨r1, g1, g2, g3⟩ := h1 t r hr
  obtain ⟨r2, k1, k2, k3⟩ := h2 t r1 g1
  exact ⟨r2, k1, k2.trans g2, k3.trans g3⟩

theorem PlanKeep.of_eq {s X : Sys} (h : X.tasks = s.tasks) : PlanKeep s X := by
  intro t r hr
  exact ⟨r, by unfold task? at hr ⊢; rw [h]; exact hr, rfl, rfl⟩

theorem PlanKeep.updTask (s : Sys) (t0 : Tid) (f : TaskRec → TaskRec) (hid : ∀ r, (f r).id = r.id)
    (hpl : ∀ r, (f r).planned = r.planned ∧ (f r).allocObj = r.allocObj) : PlanKeep s (s.updTask t0 f) := by
  intro t r hr
  rw [task?_updTask s t0 t f hid, hr]
  refine ⟨_, rfl, ?_⟩
  simp only
  split
  · exact hpl r
  · exact ⟨rfl, rfl⟩

theorem PlanKeep.append (s X : Sys) (recs : List TaskRec) (h : X.tasks = s.tasks ++ recs) : PlanKeep s X := by
  intro t r hr
  exact ⟨r, by rw [task?_append s X recs h, hr], rfl, rfl⟩

theorem PlanKeep.foldl {α} (f : Sys → α → Sys) (hf : ∀ s a, PlanKeep s (f s a)) (l : List α) (s : Sys) :
    PlanKeep s (l.foldl f s) := by
  induction l generalizing s with
  | nil => exact PlanKeep.refl s
  | cons a r ih => exact (hf s a).trans (ih _)

theorem OnPlan.keep {s X : Sys} {t : Tid} {m : Mid} (h : OnPlan s t m) (hk : PlanKeep s X) : OnPlan X t m := by
  obtain ⟨r, hr, hp, ho⟩ := h
  obtain ⟨r', hr', hp', ho'⟩ := hk t r hr
  exact ⟨r', hr', hp'.trans hp, ho'.trans ho⟩

/-- the machine of a planned task is unique -/
theorem OnPlan.unique {s : Sys} {t : Tid} {m m' : Mid} (h : OnPlan s t m) (h' : OnPlan s t m') : m = m' := by
  obtain ⟨r, hr, hp, _⟩ := h
  obtain ⟨r', hr', hp', _⟩ := h'
  rw [hr] at hr'
  injection hr' with e
  subst e
  rw [hp] at hp'
  injection hp'

/-- what `cluster.get_machine_from_id(task.allocated_machine_id)` returning machine `m` means -/
theorem taskView_machine_ok {s : Sys} {t : Tid} {m : Mid} (h : (s.taskView t).machine = .ok m) :
    OnPlan s t m ∧ (s.machine? m).isSome = true := by
  unfold taskView at h
  cases hr : s.task? t with
  | none => rw [hr] at h; simp at h
  | some r =>
    rw [hr] at h
    simp only at h
    cases ho : r.allocObj with
    | true => rw [ho] at h; simp at h
    | false =>
      rw [ho] at h
      simp only [Bool.false_eq_true, if_false] at h
      cases hp : r.planned with
      | none => rw [hp] at h; simp at h
      | some m' =>
        rw [hp] at h
        simp only at h
        split at h
        · rename_i hm
          injection h with e
          subst e
          exact ⟨⟨r, hr, hp, ho⟩, hm⟩
        · exact absurd h (by simp)

/-! ### `dictErase` keeps a sub-list -/

theorem mem_of_mem_dictErase {κ α} [DecidableEq κ] (d : List (κ × α)) (k : κ) (x : κ × α)
    (h : x ∈ dictErase d k) : x ∈ d := by
  induction d with
  | nil => simp [dictErase] at h
  | cons p r ih =>
    obtain ⟨k', v'⟩ := p
    by_cases hk : k' = k
    · simp only [dictErase, hk, if_true] at h
      exact List.mem_cons_of_mem _ h
    · simp only [dictErase, hk, if_false, List.mem_cons] at h
      rcases h with h | h
      · rw [h]; simp
      · exact List.mem_cons_of_mem _ (ih h)

/-! ### the loop body of `_process_current_schedule` on a plan-following schedule -/

/-- when the schedule entry of `t` names the planned machine, `update_allocation` is not called:
nothing happens, or the task is handed to a new allocation process on that machine, which is
a machine of the configuration that is neither occupied nor ingesting -/
theorem processOne_onPlan (now : Time) (oid : Oid) (st : PcsSt) (t : Tid)
    (hsc : ∀ m, dictGet st.schedule t = some m → OnPlan st.s t m) :
    ((processOne now oid st t).s = st.s ∧ (processOne now oid st t).schedule = st.schedule) ∨
    (∃ m cross, dictGet st.schedule t = some m ∧ (st.s.machine? m).isSome = true ∧
      st.s.cl.isOccupied m = false ∧
      (processOne now oid st t).s = (st.s.spawn (.allocTask t m cross (some oid) false 0) now).1.updTask t
        (fun r => { r with status := .scheduled }) ∧
      (processOne now oid st t).schedule = dictErase st.schedule t) := by
  unfold processOne
  cases hok : st.err with
  | some e => exact Or.inl ⟨rfl, rfl⟩
  | none =>
    simp only
    cases hm : dictGet st.schedule t with
    | none => exact Or.inl ⟨rfl, rfl⟩
    | some m =>
      cases hr : st.s.task? t with
      | none => exact Or.inl ⟨rfl, rfl⟩
      | some r =>
        simp only []
        cases hmm : st.s.machine? m with
        | none => exact Or.inl ⟨rfl, rfl⟩
        | some mm =>
          simp only []
          obtain ⟨r', hr', hp, ho⟩ := hsc m hm
          rw [hr] at hr'
          injection hr' with e
          subst e
          have hno : (r.allocObj || r.planned != some m) = false := by
            rw [ho, hp]; simp
          simp only [hno, Bool.false_eq_true, false_and, if_false]
          by_cases hocc : (st.curr.contains m = true ∨ st.s.cl.isOccupied m = true)
          · rw [if_pos hocc]; exact Or.inl ⟨rfl, rfl⟩
          · rw [if_neg hocc]
            by_cases hmiss : (r.preds.any fun p => !dictHas (dictSet st.pairs t m) p) = true
            · rw [if_pos hmiss]; exact Or.inl ⟨rfl, rfl⟩
            · rw [if_neg hmiss]
              by_cases hst : r.status ≠ TStatus.unscheduled
              · rw [if_pos hst]; exact Or.inl ⟨rfl, rfl⟩
              · rw [if_neg hst]
                refine Or.inr ⟨m, _, rfl, by rw [hmm]; rfl, ?_, rfl, rfl⟩
                cases ho2 : st.s.cl.isOccupied m with
                | false => rfl
                | true => exact absurd (Or.inr ho2) hocc

/-- what the loop has done so far, from state `a` and a schedule `sched0` on plan -/
structure PCP (a : Sys) (sched0 : List (Tid × Mid)) (oid : Oid) (st : PcsSt) : Prop where
  keep : PlanKeep a st.s
  sub : ∀ x ∈ st.schedule, x ∈ sched0
  cl : st.s.cl = a.cl
  machs : st.s.machines = a.machines
  procs : ∀ q ∈ st.s.procs, q ∈ a.procs ∨
    ∃ t m cross, q.k = .allocTask t m cross (some oid) false 0 ∧ (t, m) ∈ sched0 ∧
      a.cl.isOccupied m = false ∧ (a.machine? m).isSome = true

theorem PCP.step {a : Sys} {sched0 : List (Tid × Mid)} {oid : Oid} {st : PcsSt}
    (h0 : ∀ x ∈ sched0, OnPlan a x.1 x.2) (h : PCP a sched0 oid st) (now : Time) (t : Tid) :
    PCP a sched0 oid (processOne now oid st t) := by
  have hsc : ∀ m, dictGet st.schedule t = some m → OnPlan st.s t m := by
    intro m hm
    exact (h0 (t, m) (h.sub _ (dictGet_some_mem hm))).keep h.keep
  rcases processOne_onPlan now oid st t hsc with ⟨hs, hsch⟩ | ⟨m, cross, hm, hmm, hocc, hs, hsch⟩
  · exact ⟨by rw [hs]; exact h.keep, by rw [hsch]; exact h.sub, by rw [hs]; exact h.cl,
      by rw [hs]; exact h.machs, by rw [hs]; exact h.procs⟩
  · refine ⟨?_, ?_, by rw [hs]; exact h.cl, by rw [hs]; exact h.machs, ?_⟩
    · rw [hs]
      refine h.keep.trans ((PlanKeep.of_eq (s := st.s) rfl).trans ?_)
      exact PlanKeep.updTask _ t _ (fun _ => rfl) (fun _ => ⟨rfl, rfl⟩)
    · rw [hsch]; exact fun x hx => h.sub x (mem_of_mem_dictErase _ _ _ hx)
    · intro q hq
      rw [hs] at hq
      have hq' : q ∈ st.s.procs ++
          [({ pid := st.s.nextPid, wake := now, k := .allocTask t m cross (some oid) false 0 } : Proc)] := hq
      rcases List.mem_append.mp hq' with h1 | h1
      · exact h.procs q h1
      · simp only [List.mem_singleton] at h1
        subst h1
        refine Or.inr ⟨t, m, cross, rfl, h.sub _ (dictGet_some_mem hm), by rw [← h.cl]; exact hocc, ?_⟩
        rw [← machine?_congr h.machs]; exact hmm

theorem processCurrentSchedule_pcp (a : Sys) (now : Time) (oid : Oid) (sched0 pairs : List (Tid × Mid))
    (h0 : ∀ x ∈ sched0, OnPlan a x.1 x.2) :
    PCP a sched0 oid (processCurrentSchedule a now oid sched0 pairs) := by
  unfold processCurrentSchedule
  simp only
  generalize ((dictKeys sched0).mergeSort _) = l
  have : ∀ (l : List Tid) (st : PcsSt), PCP a sched0 oid st → PCP a sched0 oid (l.foldl (processOne now oid) st) := by
    intro l
    induction l with
    | nil => intro st h; exact h
    | cons x r ih => intro st h; exact ih _ (h.step h0 now x)
  exact this l _ ⟨PlanKeep.refl a, fun x hx => hx, rfl, rfl, fun q hq => Or.inl hq⟩

/-! ### `allocate_tasks`, one iteration, under DynamicSchedulingFromPlan -/

theorem planKeep_atStart (s : Sys) (now : Time) (pc : Nat) (oid : Oid) : PlanKeep s (atStart s now pc oid) := by
  unfold atStart
  split
  · have h1 : PlanKeep s (s.updPlan oid (fun p => { p with ast := some (natNow now) })) := PlanKeep.of_eq rfl
    refine h1.trans ?_
    have h2 : ∀ S : Sys, ∀ l : List Tid, PlanKeep S (l.foldl
        (fun (s : Sys) t => s.updTask t (fun r => { r with offset := natNow now })) S) := by
      intro S l
      apply PlanKeep.foldl
      intro s1 t
      exact PlanKeep.updTask s1 t _ (fun _ => rfl) (fun _ => ⟨rfl, rfl⟩)
    exact (h2 _ _).trans (PlanKeep.of_eq rfl)
  · exact PlanKeep.refl s

theorem atStart_machs (s : Sys) (now : Time) (pc : Nat) (oid : Oid) : (atStart s now pc oid).machines = s.machines := by
  unfold atStart
  split
  · refine Eq.trans (?_ : _ = (s.updPlan oid (fun p => { p with ast := some (natNow now) })).machines) rfl
    exact foldl_machs (fun (s : Sys) t => s.updTask t (fun r => { r with offset := natNow now }))
      (fun _ _ => rfl) _ _
  · rfl

theorem atS3_machs (s1 : Sys) (out : AlgOut) (oid : Oid) : (atS3 s1 out oid).machines = s1.machines := by
  unfold atS3; split <;> rfl

theorem releaseBatch_runOn (c : Cluster) (o : Oid) : (c.releaseBatch o).runOn = c.runOn := by
  unfold Cluster.releaseBatch
  split
  · rfl
  · simp only; split <;> rfl

/-- `DynamicSchedulingFromPlan.run` through `runAlgorithm` -/
theorem runAlgorithm_dynamic {s1 : Sys} (halg : s1.alg = .dynamic) (orc : Oracle) (plan : Plan)
    (sc : List (Tid × Mid)) (po : List Tid) :
    s1.runAlgorithm orc plan sc po = Alg.dynamicRun s1.cl plan s1.taskView sc po := by
  unfold runAlgorithm; rw [halg]

theorem dynamicRun_cl (cl : Cluster) (plan : Plan) (view : Tid → TaskView) (sc : List (Tid × Mid))
    (po : List Tid) (out : AlgOut) (h : Alg.dynamicRun cl plan view sc po = .ok out) : out.cl = cl := by
  unfold Alg.dynamicRun at h
  simp only at h
  split at h
  · exact absurd h (by simp)
  · injection h with h; subst h; rfl

/-- one iteration of `allocate_tasks` from a local schedule on plan: the plan fields of the
records are kept, the new local schedule is on plan, `runOn` is untouched, and every allocation
process created is for a task on its planned machine, which at the start of the block is a
machine of the configuration that is neither occupied nor ingesting -/
theorem allocTasksIter_pf {a : Sys} (halg : a.alg = .dynamic) (now : Time) (orc : Oracle) (oid : Oid)
    (sc pa : List (Tid × Mid)) (po : List Tid) (h0 : ∀ x ∈ sc, OnPlan a x.1 x.2) :
    ∃ sc' pa' po' fn', (a.allocTasksIter now orc oid sc pa po).2.1 = .allocTasks oid sc' pa' po' fn' ∧
      PlanKeep a (a.allocTasksIter now orc oid sc pa po).1 ∧
      (∀ x ∈ sc', OnPlan (a.allocTasksIter now orc oid sc pa po).1 x.1 x.2) ∧
      (a.allocTasksIter now orc oid sc pa po).1.cl.runOn = a.cl.runOn ∧
      ∀ q ∈ (a.allocTasksIter now orc oid sc pa po).1.procs, q ∈ a.procs ∨
        ∃ t m cross, q.k = .allocTask t m cross (some oid) false 0 ∧
          OnPlan (a.allocTasksIter now orc oid sc pa po).1 t m ∧
          a.cl.isOccupied m = false ∧ (a.machine? m).isSome = true := by
  have hc1 := updateCurrentPlan_core a oid
  have h1 : PlanKeep a (a.updateCurrentPlan oid) := PlanKeep.of_eq hc1.tasks
  have ha1 : (a.updateCurrentPlan oid).alg = .dynamic := by rw [updateCurrentPlan_alg]; exact halg
  have hp1 : (a.updateCurrentPlan oid).procs = a.procs := hc1.procs
  have hout := allocTasksIter_out a now orc oid sc pa po
  generalize a.allocTasksIter now orc oid sc pa po = r at hout ⊢
  have hnil : ∀ (sch : List (Tid × Mid)) (X : Sys), sch.isEmpty = true → ∀ x ∈ sch, OnPlan X x.1 x.2 := by
    intro sch X he x hx
    have : sch = [] := by simpa using he
    rw [this] at hx; simp at hx
  -- the state after the algorithm's output has been recorded
  have h3 : ∀ plan out, (a.updateCurrentPlan oid).runAlgorithm orc plan sc po = .ok out →
      PlanKeep a (atS3 (a.updateCurrentPlan oid) out oid) ∧ (atS3 (a.updateCurrentPlan oid) out oid).cl = a.cl ∧
      (atS3 (a.updateCurrentPlan oid) out oid).procs = a.procs := by
    intro plan out hrun
    rw [runAlgorithm_dynamic ha1] at hrun
    refine ⟨h1.trans (PlanKeep.of_eq (atS3_tasks _ out oid)), ?_, by rw [atS3_procs, hp1]⟩
    rw [atS3_cl, dynamicRun_cl _ _ _ _ _ _ hrun, hc1.cl]
  cases hout with
  | noPlan _ =>
    exact ⟨sc, pa, po, false, rfl, h1, fun x hx => (h0 x hx).keep h1, by rw [hc1.cl],
      fun q hq => Or.inl (by rw [← hp1]; exact hq)⟩
  | algErr _ _ _ _ =>
    exact ⟨sc, pa, po, false, rfl, h1, fun x hx => (h0 x hx).keep h1, by rw [hc1.cl],
      fun q hq => Or.inl (by rw [← hp1]; exact hq)⟩
  | finish plan out _ hrun hemp _ _ _ =>
    obtain ⟨g1, g2, g3⟩ := h3 plan out hrun
    refine ⟨out.schedule, pa, out.pool, true, rfl, g1.trans (PlanKeep.of_eq rfl), hnil _ _ hemp, ?_,
      fun q hq => Or.inl ?_⟩
    · show ((atS3 (a.updateCurrentPlan oid) out oid).cl.releaseBatch oid).runOn = _
      rw [releaseBatch_runOn, g2]
    · have : q ∈ (atS3 (a.updateCurrentPlan oid) out oid).procs := hq
      rw [g3] at this; exact this
  | finishBad plan out _ hrun hemp _ _ _ =>
    obtain ⟨g1, g2, g3⟩ := h3 plan out hrun
    refine ⟨out.schedule, pa, out.pool, false, rfl, g1.trans (PlanKeep.of_eq rfl), hnil _ _ hemp, ?_,
      fun q hq => Or.inl ?_⟩
    · show ((atS3 (a.updateCurrentPlan oid) out oid).cl.releaseBatch oid).runOn = _
      rw [releaseBatch_runOn, g2]
    · have : q ∈ (atS3 (a.updateCurrentPlan oid) out oid).procs := hq
      rw [g3] at this; exact this
  | finishWait plan out _ hrun hemp _ _ =>
    obtain ⟨g1, g2, g3⟩ := h3 plan out hrun
    refine ⟨out.schedule, pa, out.pool, false, rfl, g1.trans (PlanKeep.of_eq rfl), hnil _ _ hemp, ?_,
      fun q hq => Or.inl ?_⟩
    · show (atS3 (a.updateCurrentPlan oid) out oid).cl.runOn = _
      rw [g2]
    · have : q ∈ (atS3 (a.updateCurrentPlan oid) out oid).procs := hq
      rw [g3] at this; exact this
  | idle plan out _ hrun hemp _ =>
    obtain ⟨g1, g2, g3⟩ := h3 plan out hrun
    exact ⟨out.schedule, pa, out.pool, false, rfl, g1, hnil _ _ hemp, by rw [g2],
      fun q hq => Or.inl (by rw [g3] at hq; exact hq)⟩
  | alloc plan out y hplan hrun _ _ =>
    obtain ⟨g1, g2, g3⟩ := h3 plan out hrun
    have hrun' := hrun
    rw [runAlgorithm_dynamic ha1] at hrun'
    -- the schedule handed to `_process_current_schedule` is on plan
    have hs0 : ∀ x ∈ out.schedule, OnPlan (atS3 (a.updateCurrentPlan oid) out oid) x.1 x.2 := by
      intro x hx
      by_cases hin : x ∈ sc
      · exact (h0 x hin).keep g1
      · have := dynamic_planned_machine _ _ _ _ _ _ hrun' x hx hin
        exact (taskView_machine_ok this).1.keep (PlanKeep.of_eq (atS3_tasks _ out oid))
    have hpcp := processCurrentSchedule_pcp (atS3 (a.updateCurrentPlan oid) out oid) now oid out.schedule pa hs0
    have hm3 : (atS3 (a.updateCurrentPlan oid) out oid).machines = a.machines := by
      rw [atS3_machs, updateCurrentPlan_machs]
    refine ⟨_, _, out.pool, false, rfl, g1.trans hpcp.keep, fun x hx => (hs0 x (hpcp.sub x hx)).keep hpcp.keep,
      by rw [hpcp.cl, g2], fun q hq => ?_⟩
    rcases hpcp.procs q hq with h2 | ⟨t, m, cross, hk, hmem, hocc, hmm⟩
    · rw [g3] at h2; exact Or.inl h2
    · exact Or.inr ⟨t, m, cross, hk, (hs0 _ hmem).keep hpcp.keep, by rw [← g2]; exact hocc,
        by rw [← machine?_congr hm3]; exact hmm⟩

end Sys
end Topsim
