/-
  BoundD2 — C05, the numeric clause under a delay model: the arithmetic of the delayed weights.
    * `boundD_v_le_total`      : the delayed weight of the stages that have happened ≤ the total
    * `boundD_total_le_serial` : latest planned start + total delayed weight ≤ `Sys.serialBoundD`
    * `boundD_tot_le`          : a total the environment hands a workflow body ≤ `boundDTot`
    * `boundD_serial_nodelay`  : without a delay model `Sys.serialBoundD ≤ Sys.serialBound`
-/
import TopsimProofs.BoundD1

namespace Topsim

open KState Sys

open Classical in
theorem boundD_v_le_total (env : SimEnv) (s0 s : Sys) : boundDV env s0 s ≤ boundDVTotal env s0 := by
  unfold boundDV boundDVTotal
  apply bound_ar_sum_map_le
  intro o _
  unfold boundDVObs
  have h : (o.wf.topo.map (fun node => if Sys.PAT o.id node s then boundDWAT env s0 o node else 0)).sum ≤
      (o.wf.topo.map (fun node => boundDWAT env s0 o node)).sum := by
    apply bound_ar_sum_map_le
    intro n _
    exact bound_ar_ite_le _ _
  have h1 := bound_ar_ite_le (Sys.PAst o.id s) (o.duration + 1)
  have h2 := bound_ar_ite_le (Sys.PQ o.id s) 1
  have h3 := bound_ar_ite_le (Sys.PRm o.id s) 1
  omega

theorem boundD_total_le_serial (env : SimEnv) (s0 : Sys) (htopo : ∀ o ∈ s0.obs, IsTopo o.wf) :
    boundLatest s0 + boundDVTotal env s0 ≤ Sys.serialBoundD env s0 := by
  unfold Sys.serialBoundD boundDVTotal
  simp only [bound_ar_foldl_sum]
  show boundLatest s0 + _ ≤ boundLatest s0 + _
  apply Nat.add_le_add_left
  apply bound_ar_sum_map_le
  intro o ho
  have ht := htopo o ho
  have h1 : (o.wf.topo.map (fun node => boundDWAT env s0 o node)).sum ≤
      (o.wf.topo.map (fun node => (fun n : Nat × Nat × Nat =>
        boundDOcc env s0 n.2.1 n.2.2 +
        Sys.ceilDiv (((o.wf.edges.filter (fun e => e.2.1 = n.1)).map (·.2.2)).foldl max 0)
          (boundSlowBw s0) + 3)
        ((o.wf.nodes.find? (·.1 = node)).getD (node, 0, 0)))).sum := by
    apply bound_ar_sum_map_le
    intro node _
    have hf := bound_ar_attrs_fst o node
    unfold boundAttrs at hf
    beta_reduce
    rw [hf]
    unfold boundDWAT boundDRt boundWait boundAttrs
    omega
  have h2 := bound_ar_topo_sum (fun n : Nat × Nat × Nat =>
        boundDOcc env s0 n.2.1 n.2.2 +
        Sys.ceilDiv (((o.wf.edges.filter (fun e => e.2.1 = n.1)).map (·.2.2)).foldl max 0)
          (boundSlowBw s0) + 3) o.wf.nodes o.wf.topo ht.nodup (fun x hx => (ht.nodes x).1 hx)
  have h3 := Nat.le_trans h1 h2
  beta_reduce at h3
  unfold boundSlowBw at h3
  omega

/-! ### the totals the environment can hand a body -/

theorem boundD_foldl_max_le (l : List Nat) (a B : Nat) (ha : a ≤ B) (h : ∀ x ∈ l, x ≤ B) :
    l.foldl max a ≤ B := by
  induction l generalizing a with
  | nil => exact ha
  | cons b l ih =>
    simp only [List.foldl_cons]
    apply ih
    · exact Nat.max_le.mpr ⟨ha, h b List.mem_cons_self⟩
    · exact fun x hx => h x (List.mem_cons_of_mem _ hx)

theorem boundD_getD_le_foldl_max (l : List Nat) (i : Nat) : l.getD i 0 ≤ l.foldl max 0 := by
  rw [List.getD_eq_getElem?_getD]
  cases h : l[i]? with
  | none => exact Nat.zero_le _
  | some v =>
    exact (bound_tw_foldl_max_ge l 0).2 v (List.mem_of_getElem? h)

/-- whatever the number `k` of bodies started before, the total handed to the body of a workflow task
of nominal duration `dur` is at most `boundDTot env dur` -/
theorem boundD_tot_le (env : SimEnv) {t : Tid} (hti : t.isIngest = false) (k dur : Nat) :
    env.bodyTotal t k dur ≤ env.boundDTot dur := by
  unfold SimEnv.bodyTotal SimEnv.boundDTot
  rw [hti]
  simp only [Bool.false_eq_true, if_false]
  cases dictGet env.delayTable dur with
  | some x => exact Nat.le_refl _
  | none =>
    simp only
    split
    · omega
    · have := boundD_getD_le_foldl_max env.delayScript (k % env.delayScript.length)
      omega

/-- the delayed runtime on a machine of the cluster is within the occupancy charged -/
theorem boundD_tot_le_occ (env : SimEnv) (s0 : Sys) {mm : Machine} (h : mm ∈ s0.machines) (comp data : Nat) :
    env.boundDTot (max (comp / mm.cpu) (data / mm.bw)) ≤ boundDOcc env s0 comp data := by
  unfold boundDOcc
  have := (bound_tw_foldl_max_ge
    (s0.machines.map (fun mm => env.boundDTot (max (comp / mm.cpu) (data / mm.bw)))) 0).2 _
    (List.mem_map_of_mem (f := fun mm => env.boundDTot (max (comp / mm.cpu) (data / mm.bw))) h)
  omega

/-! ### no delay model -/

theorem boundD_tot_nodelay {env : SimEnv} (h1 : env.delayTable = []) (h2 : env.delayScript = []) (d : Nat) :
    env.boundDTot d = d := by
  unfold SimEnv.boundDTot
  rw [h1, h2]
  simp [dictGet]

/-- without a delay model the occupancy charged is at most the occupancy on the slowest machine -/
theorem boundD_occ_nodelay {env : SimEnv} (h1 : env.delayTable = []) (h2 : env.delayScript = [])
    (s0 : Sys) (hf : ∀ m ∈ s0.machines, 0 < m.cpu ∧ 0 < m.bw) (comp data : Nat) :
    boundDOcc env s0 comp data ≤ max 1 (max (comp / boundSlowCpu s0) (data / boundSlowBw s0)) := by
  unfold boundDOcc
  apply Nat.max_le.mpr
  refine ⟨Nat.le_max_left _ _, ?_⟩
  apply boundD_foldl_max_le _ _ _ (Nat.zero_le _)
  intro x hx
  obtain ⟨mm, hmm, rfl⟩ := List.mem_map.mp hx
  have hne : s0.machines ≠ [] := fun e => by rw [e] at hmm; simp at hmm
  rw [boundD_tot_nodelay h1 h2]
  have := bound_tw_runtime_le (flops := comp) (data := data) (bound_tw_slowCpu_pos s0 hf hne)
    (bound_tw_slowBw_pos s0 hf hne) (bound_tw_slowCpu_le s0 hmm) (bound_tw_slowBw_le s0 hmm)
  omega

/-- **Without a delay model the delayed serial bound is within the serial bound** (machines with
positive speeds: part of `Sys.Feasible`). -/
theorem boundD_serial_nodelay {env : SimEnv} (h1 : env.delayTable = []) (h2 : env.delayScript = [])
    (s0 : Sys) (hf : ∀ m ∈ s0.machines, 0 < m.cpu ∧ 0 < m.bw) :
    Sys.serialBoundD env s0 ≤ Sys.serialBound s0 := by
  unfold Sys.serialBoundD Sys.serialBound
  simp only [bound_ar_foldl_sum]
  apply Nat.add_le_add_left
  apply bound_ar_sum_map_le
  intro o _
  apply Nat.add_le_add_left
  apply bound_ar_sum_map_le
  intro n _
  have := boundD_occ_nodelay h1 h2 s0 hf n.2.1 n.2.2
  unfold boundSlowCpu boundSlowBw at this
  omega

end Topsim
