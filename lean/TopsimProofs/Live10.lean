/-
  Live10 — which blocks create processes.  A block that creates a process is: the telescope's
  (an admission), a supervisor's first block (its observation leaves WAITING), the scheduler loop's
  (an observation is handed over), an `allocate_tasks` block (a workflow node gets its allocation
  process), or the first block of a provisioning / allocation process.  `LiveParts` collects the
  lemmas of the other parts of the development (Live6 … Live8) as hypotheses.
-/
import TopsimProofs.Live9

namespace Topsim

open KState Sys

/-- no live worker process: supervisor, provisioning, stream, allocation process, task body -/
def Sys.NoWorker (s : Sys) : Prop :=
  ∀ q ∈ s.procs, q.alive = true → q.k.tag ≠ "allocIngest" ∧ q.k.tag ≠ "provIngest" ∧
    q.k.tag ≠ "ingestStream" ∧ q.k.tag ≠ "allocTask" ∧ q.k.tag ≠ "doWork"

/-- the lemmas of the other parts (process liveness: Live6; `allocate_tasks`: Live7; quiescent
states and admission: Live8) -/
structure LiveParts (env : SimEnv) (s0 : Sys) : Prop where
  worker_ends : ∀ {n pid : Nat} {p : Proc}, (simAt env s0 n).st.proc? pid = some p → p.alive = true →
    (p.k.tag = "allocIngest" ∨ p.k.tag = "provIngest" ∨ p.k.tag = "ingestStream" ∨
      p.k.tag = "allocTask" ∨ p.k.tag = "doWork") →
    ∃ n', n ≤ n' ∧ ∃ p', (simAt env s0 n').st.proc? pid = some p' ∧ p'.alive = false
  tel_alive : ∀ n, (∃ ob ∈ (simAt env s0 n).st.obs, ob.status ≠ .finished) →
    ∃ q ∈ (simAt env s0 n).st.procs, q.k = .telescope ∧ q.alive = true
  sched_alive : ∀ n, ∃ q, (simAt env s0 n).st.proc? 3 = some q ∧ q.k = .schedLoop ∧ q.alive = true
  obs_finishes : ∀ {n : Nat} {o : Oid} {ob : Obs} {a : Nat}, (simAt env s0 n).st.obs? o = some ob →
    ob.ast = some a →
    ∃ n', n ≤ n' ∧ ∃ ob', (simAt env s0 n').st.obs? o = some ob' ∧ ob'.status = .finished
  ats_progress : ∀ (n : Nat) {e : HEntry} {p : Proc}, (simAt env s0 n).peek = some e →
    (simAt env s0 n).st.proc? e.pid = some p → p.alive = true →
    ∀ {o : Oid} {sc pa : List (Tid × Mid)} {po : List Tid}, p.k = .allocTasks o sc pa po false →
    o ∉ (simAt env s0 n).st.buf.hot.finished → (simAt env s0 n).st.cl.available ≠ [] →
    ((simAt env s0 n).st.cl.occupied = [] ∧ (simAt env s0 n).st.cl.ingest = []) →
    (∀ q ∈ (simAt env s0 n).st.procs, q.alive = true → q.k.tag ≠ "allocTask" ∧ q.k.tag ≠ "doWork") →
    o ∈ (simAt env s0 (n + 1)).st.buf.hot.finished ∨
    ∃ ob ∈ s0.obs, ob.id = o ∧ ∃ node ∈ ob.wf.topo,
      ¬ Sys.PAT o node (simAt env s0 n).st ∧ Sys.PAT o node (simAt env s0 (n + 1)).st
  ats_spawn : ∀ (n : Nat) {e : HEntry} {p : Proc}, (simAt env s0 n).peek = some e →
    (simAt env s0 n).st.proc? e.pid = some p → p.alive = true →
    ∀ {o : Oid} {sc pa : List (Tid × Mid)} {po : List Tid} {fn : Bool}, p.k = .allocTasks o sc pa po fn →
    (simAt env s0 n).st.nextPid < (simAt env s0 (n + 1)).st.nextPid →
    ∃ ob ∈ s0.obs, ob.id = o ∧ ∃ node ∈ ob.wf.topo,
      ¬ Sys.PAT o node (simAt env s0 n).st ∧ Sys.PAT o node (simAt env s0 (n + 1)).st
  sched_has_proc : ∀ (n : Nat) {o : Oid}, o ∈ (simAt env s0 n).st.buf.hot.scheduled →
    ∃ q ∈ (simAt env s0 n).st.procs, q.alive = true ∧ ∃ sc pa po, q.k = .allocTasks o sc pa po false
  queue_sched : ∀ (n : Nat) {o : Oid}, o ∈ (simAt env s0 n).st.queue →
    o ∈ (simAt env s0 n).st.buf.hot.scheduled
  noTier : ∀ n, Sys.NoTier (simAt env s0 n).st ∧ (simAt env s0 n).st.buf.cold = s0.buf.cold
  schedLoop_pops : ∀ (n : Nat) {e : HEntry} {p : Proc}, (simAt env s0 n).peek = some e →
    (simAt env s0 n).st.proc? e.pid = some p → p.alive = true → p.k = .schedLoop →
    (simAt env s0 n).st.buf.hot.stored ≠ [] →
    ∃ o ∈ (simAt env s0 n).st.buf.hot.stored, ¬ Sys.PQ o (simAt env s0 n).st ∧
      Sys.PQ o (simAt env s0 (n + 1)).st
  finished_stored : ∀ (n : Nat) {ob : Obs}, ob ∈ (simAt env s0 n).st.obs → ob.status = .finished →
    (∀ q ∈ (simAt env s0 n).st.procs, q.alive = true → ∀ tl, q.k ≠ .ingestStream ob.id tl) →
    ob.id ∈ (simAt env s0 n).st.buf.hot.stored ∨ Sys.PQ ob.id (simAt env s0 n).st
  free : ∀ (n : Nat), (simAt env s0 n).st.NoWorker →
    (∀ ob ∈ (simAt env s0 n).st.obs, ob.ast ≠ none → ob.status = .finished) →
    (simAt env s0 n).st.cl.occupied = [] ∧ (simAt env s0 n).st.cl.ingest = [] ∧
    (simAt env s0 n).st.cl.running = [] ∧
    (simAt env s0 n).st.cl.available.length = s0.machines.length ∧ (simAt env s0 n).st.provIngest = 0 ∧
    (simAt env s0 n).st.telUse = 0 ∧ (simAt env s0 n).st.telStatus = false
  admits : ∀ (n : Nat) {e : HEntry} {p : Proc}, (simAt env s0 n).peek = some e →
    (simAt env s0 n).st.proc? e.pid = some p → p.alive = true → p.k = .telescope →
    (simAt env s0 n).st.NoWorker →
    (∀ ob ∈ (simAt env s0 n).st.obs, ob.ast ≠ none → ob.status = .finished) →
    (∃ ob ∈ (simAt env s0 n).st.obs, ob.ast = none) →
    (∀ ob ∈ (simAt env s0 n).st.obs, ob.ast = none → ((ob.est : Nat) : Time) ≤ p.wake) →
    ∃ o ob0 ob1 a, (simAt env s0 n).st.obs? o = some ob0 ∧ ob0.ast = none ∧
      (simAt env s0 (n + 1)).st.obs? o = some ob1 ∧ ob1.ast = some a
  finished : ∀ (n : Nat), (simAt env s0 n).st.NoWorker →
    (∀ ob ∈ (simAt env s0 n).st.obs, ob.status = .finished ∧ ob.id ∈ (simAt env s0 n).st.buf.hot.finished) →
    (simAt env s0 n).st.queue = [] → (simAt env s0 n).st.isFinished = true
  schedLoop_spawn : ∀ (n : Nat) {e : HEntry} {p : Proc}, (simAt env s0 n).peek = some e →
    (simAt env s0 n).st.proc? e.pid = some p → p.alive = true → p.k = .schedLoop →
    (simAt env s0 n).st.nextPid < (simAt env s0 (n + 1)).st.nextPid →
    ∃ o, (∃ ob, (simAt env s0 n).st.obs? o = some ob) ∧ ¬ Sys.PQ o (simAt env s0 n).st ∧
      Sys.PQ o (simAt env s0 (n + 1)).st
  tel_spawn : ∀ (n : Nat) {e : HEntry} {p : Proc}, (simAt env s0 n).peek = some e →
    (simAt env s0 n).st.proc? e.pid = some p → p.alive = true → p.k = .telescope →
    (simAt env s0 n).st.nextPid < (simAt env s0 (n + 1)).st.nextPid →
    ∃ o, (∃ ob, (simAt env s0 n).st.obs? o = some ob) ∧ o ∉ (simAt env s0 n).st.admitted ∧
      o ∈ (simAt env s0 (n + 1)).st.admitted
  bufferLoop_no_spawn : ∀ (n : Nat) {e : HEntry} {p : Proc}, (simAt env s0 n).peek = some e →
    (simAt env s0 n).st.proc? e.pid = some p → p.alive = true → p.k = .bufferLoop →
    (simAt env s0 (n + 1)).st.nextPid = (simAt env s0 n).st.nextPid

/-! ### blocks that create no process -/

namespace Sys

theorem ingestStreamIter_nextPid (s : Sys) (now : Time) (oid : Oid) (tl : Int) :
    (s.ingestStreamIter now oid tl).1.nextPid = s.nextPid := by
  unfold ingestStreamIter
  repeat' split
  all_goals rfl

theorem ingestStreamBlock_nextPid (s : Sys) (now : Time) (pc : Nat) (oid : Oid) (tl : Int) :
    (s.ingestStreamBlock now pc oid tl).1.nextPid = s.nextPid := by
  unfold ingestStreamBlock
  split
  · split
    · rfl
    · split
      · rfl
      · exact ingestStreamIter_nextPid _ _ _ _
  · exact ingestStreamIter_nextPid _ _ _ _

theorem provIngestBlock_nextPid_later (s : Sys) (now : Time) (pc : Nat) (oid : Oid) (d : Nat) (h : pc ≠ 0) :
    (s.provIngestBlock now pc oid d).1.nextPid = s.nextPid := by
  unfold provIngestBlock
  rw [if_neg h]

theorem allocTaskBlock_nextPid_running (s : Sys) (now : Time) (t : Tid) (m : Mid) (preds : List Tid)
    (obs : Option Oid) (ing : Bool) (ret : Nat) (h : t ∈ s.cl.running) :
    (s.allocTaskBlock now t m preds obs ing ret).1.nextPid = s.nextPid := by
  unfold allocTaskBlock
  simp only [h, not_true_eq_false, if_false]
  repeat' split
  all_goals rfl

/-- a supervisor's block creates processes only in the branch that takes its observation from
WAITING to RUNNING -/
theorem allocIngestIter_spawn (s : Sys) (now : Time) (oid : Oid) (tl : Int)
    (h : s.nextPid < (s.allocIngestIter now oid tl).1.nextPid) :
    ∃ ob, s.obs? oid = some ob ∧ ob.status = .waiting ∧
      ∃ ob', (s.allocIngestIter now oid tl).1.obs? oid = some ob' ∧ ob'.status = .running := by
  cases hob : s.obs? oid with
  | none => simp [allocIngestIter, hob] at h
  | some ob =>
    by_cases hf : ob.status = .finished
    · simp [allocIngestIter, hob, hf] at h
    · by_cases hw : ob.status = .waiting
      · refine ⟨ob, rfl, hw, ?_⟩
        have e : (s.allocIngestIter now oid tl).1 =
            ((s.spawn (.provIngest oid ob.ingestDemand) now).1.spawn (.ingestStream oid 0) now).1.updObs oid
              (fun r => { r with status := .running }) := by
          simp [allocIngestIter, hob, hw]
        rw [e, updObs_obs? _ oid (fun r => { r with status := .running }) (fun _ => rfl)]
        simp only [if_true]
        have : ((s.spawn (PK.provIngest oid ob.ingestDemand) now).1.spawn (PK.ingestStream oid 0) now).1.obs? oid
            = some ob := hob
        rw [this]
        exact ⟨_, rfl, rfl⟩
      · by_cases htl : tl > 0
        · simp [allocIngestIter, hob, hf, hw, htl] at h
        · simp [allocIngestIter, hob, hf, hw, htl] at h

theorem allocIngestBlock_spawn (s : Sys) (now : Time) (pc : Nat) (oid : Oid) (tl : Int)
    (h : s.nextPid < (s.allocIngestBlock now pc oid tl).1.nextPid) :
    ∃ ob, s.obs? oid = some ob ∧ ob.status = .waiting ∧
      ∃ ob', (s.allocIngestBlock now pc oid tl).1.obs? oid = some ob' ∧ ob'.status = .running := by
  by_cases hpc : pc = 0
  · have e : s.allocIngestBlock now pc oid tl =
        (s.updObs oid (fun r => { r with ast := some (natNow now) })).allocIngestIter now oid
          ((match s.obs? oid with | some o => (o.duration : Int) | none => 0) - 1) := by
      unfold allocIngestBlock
      rw [if_pos hpc]
      rfl
    rw [e] at h ⊢
    have h' : (s.updObs oid (fun r => { r with ast := some (natNow now) })).nextPid <
        ((s.updObs oid (fun r => { r with ast := some (natNow now) })).allocIngestIter now oid
          ((match s.obs? oid with | some o => (o.duration : Int) | none => 0) - 1)).1.nextPid := h
    obtain ⟨ob1, hob1, hw1, hres⟩ := allocIngestIter_spawn _ now oid _ h'
    rw [updObs_obs? _ oid (fun r => { r with ast := some (natNow now) }) (fun _ => rfl)] at hob1
    simp only [if_true] at hob1
    cases hob : s.obs? oid with
    | none => rw [hob] at hob1; simp at hob1
    | some ob =>
      rw [hob] at hob1
      simp only [Option.map_some, Option.some.injEq] at hob1
      refine ⟨ob, rfl, ?_, ?_⟩
      · rw [← hob1] at hw1
        exact hw1
      · rw [hob] at hres
        exact hres
  · have e : s.allocIngestBlock now pc oid tl = s.allocIngestIter now oid tl := by
      unfold allocIngestBlock
      rw [if_neg hpc]
    rw [e] at h ⊢
    exact allocIngestIter_spawn s now oid tl h

end Sys

/-! ### which blocks create processes -/

section
variable {env : SimEnv} {s0 : Sys}

theorem live_nextPid_step (C : LiveCfg env s0) (K : LiveKernel env s0) (n : Nat) {e : HEntry} {p : Proc}
    (hpk : (simAt env s0 n).peek = some e) (hpp : (simAt env s0 n).st.proc? e.pid = some p)
    (ha : p.alive = true) :
    (simAt env s0 (n + 1)).st.nextPid =
      ((simAt env s0 n).st.block p (env.oracle (simAt env s0 n).st)).1.nextPid ∧
    (simAt env s0 (n + 1)).st.obs =
      ((simAt env s0 n).st.block p (env.oracle (simAt env s0 n).st)).1.obs := by
  obtain ⟨e', p', hpk', hpp', _, _, _, _, hst⟩ := live_step C K n
  rw [hpk] at hpk'
  cases hpk'
  rw [hpp] at hpp'
  cases hpp'
  rw [hst]
  exact ⟨(il_resume_procs_eq _ _ _ p hpp ha).2.1, (il_resume_fields _ _ _ p hpp ha).1⟩

/-- **Which blocks create processes.** -/
theorem live_spawn_cases (C : LiveCfg env s0) (K : LiveKernel env s0) (Pt : LiveParts env s0) (n : Nat)
    (hsp : (simAt env s0 n).st.nextPid < (simAt env s0 (n + 1)).st.nextPid) :
    ∃ e p, (simAt env s0 n).peek = some e ∧ (simAt env s0 n).st.proc? e.pid = some p ∧ p.alive = true ∧
      ((∃ o, (∃ ob, (simAt env s0 n).st.obs? o = some ob) ∧ ¬ Sys.PAdm o (simAt env s0 n).st ∧
          Sys.PAdm o (simAt env s0 (n + 1)).st) ∨
       (∃ o, (∃ ob, (simAt env s0 n).st.obs? o = some ob) ∧ ¬ Sys.PRun o (simAt env s0 n).st ∧
          Sys.PRun o (simAt env s0 (n + 1)).st) ∨
       (∃ o, (∃ ob, (simAt env s0 n).st.obs? o = some ob) ∧ ¬ Sys.PQ o (simAt env s0 n).st ∧
          Sys.PQ o (simAt env s0 (n + 1)).st) ∨
       (∃ o, ∃ ob ∈ s0.obs, ob.id = o ∧ ∃ node ∈ ob.wf.topo,
          ¬ Sys.PAT o node (simAt env s0 n).st ∧ Sys.PAT o node (simAt env s0 (n + 1)).st) ∨
       (p.pc = 0 ∧ (p.k.tag = "provIngest" ∨ p.k.tag = "allocTask"))) := by
  obtain ⟨e, p, hpk, hpp, ha, het, hen, hs, hst⟩ := live_step C K n
  obtain ⟨hnp, hobs⟩ := live_nextPid_step C K n hpk hpp ha
  refine ⟨e, p, hpk, hpp, ha, ?_⟩
  have hinv := (K.reach n).l3inv C.hw
  obtain ⟨hpm, hpid⟩ := proc?_some hpp
  rw [hnp] at hsp
  cases hk : p.k with
  | monitor =>
    exfalso
    rw [(block_mon _ p _ hk).1] at hsp
    exact Nat.lt_irrefl _ hsp
  | telescope =>
    left
    exact Pt.tel_spawn n hpk hpp ha hk (by rw [hnp]; exact hsp)
  | clusterLoop =>
    exfalso
    rw [block_clusterLoop _ hk] at hsp
    exact Nat.lt_irrefl _ hsp
  | schedLoop =>
    right; right; left
    exact Pt.schedLoop_spawn n hpk hpp ha hk (by rw [hnp]; exact hsp)
  | bufferLoop =>
    exfalso
    have := Pt.bufferLoop_no_spawn n hpk hpp ha hk
    rw [hnp] at this
    rw [this] at hsp
    exact Nat.lt_irrefl _ hsp
  | allocIngest o tl =>
    right; left
    rw [block_allocIngest _ hk] at hsp
    obtain ⟨ob, hob, hw, ob', hob', hr⟩ := Sys.allocIngestBlock_spawn _ _ _ _ _ hsp
    refine ⟨o, ⟨ob, hob⟩, ?_, ?_⟩
    · rintro ⟨ob2, hob2, hne⟩
      rw [hob] at hob2
      cases hob2
      exact hne hw
    · refine ⟨ob', ?_, by rw [hr]; simp⟩
      rw [obs?_congr hobs, block_allocIngest _ hk]
      exact hob'
  | provIngest o d =>
    right; right; right; right
    refine ⟨?_, Or.inl rfl⟩
    by_cases hpc : p.pc = 0
    · exact hpc
    · exfalso
      rw [block_provIngest _ hk, Sys.provIngestBlock_nextPid_later _ _ _ _ _ hpc] at hsp
      exact Nat.lt_irrefl _ hsp
  | ingestStream o tl =>
    exfalso
    rw [block_ingestStream _ hk, Sys.ingestStreamBlock_nextPid] at hsp
    exact Nat.lt_irrefl _ hsp
  | allocTask t m preds obs ing ret =>
    right; right; right; right
    refine ⟨?_, Or.inr rfl⟩
    by_cases hpc : p.pc = 0
    · exact hpc
    exfalso
    obtain ⟨U, hU⟩ := hinv.sinv.ci
    have hent := hU.runOn p hpm ha t m preds obs ing ret hk (by omega)
    have hrun : t ∈ (simAt env s0 n).st.cl.running := by
      rw [← hU.inv.runOnTasks]
      exact List.mem_map_of_mem (f := (·.task)) hent
    rw [block_allocTask _ hk, Sys.allocTaskBlock_nextPid_running _ _ _ _ _ _ _ _ hrun] at hsp
    exact Nat.lt_irrefl _ hsp
  | doWork t m preds ph tot =>
    exfalso
    rw [block_doWork _ hk, (doWorkBlock_spec _ _ _ _ _ _ _ _).2.1] at hsp
    exact Nat.lt_irrefl _ hsp
  | allocTasks o sc pa po fn =>
    right; right; right; left
    obtain ⟨ob, hob, hid, node, hnode, h1, h2⟩ := Pt.ats_spawn n hpk hpp ha hk (by rw [hnp]; exact hsp)
    exact ⟨o, ob, hob, hid, node, hnode, h1, h2⟩
  | hot2cold cur =>
    exfalso
    exact ((Pt.noTier n).1 p hpm).1 (by rw [hk]; rfl)
  | cold2hot cur =>
    exfalso
    exact ((Pt.noTier n).1 p hpm).2 (by rw [hk]; rfl)

end

end Topsim
