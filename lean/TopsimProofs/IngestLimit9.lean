/-
  IngestLimit9 — concrete runs: the schedule that breaks the ingest limit when
  the blocks of an instant may run in any order, and a run in the telescope-first
  order that reaches the limit exactly.

  Configuration `c08W0`: three machines, `max_ingest_resources = 2`, three
  observations of one array, one ingest machine and one timestep each; `A` is due
  at t = 0, `B` and `C` at t = 1; the queue algorithm; the empty oracle at every
  block (no delay, no user algorithm).
-/
import TopsimProofs.IngestLimit8

namespace Topsim
namespace Sys

/-! ### checking a schedule by evaluation -/

/-- run the blocks of the listed processes, in order, with the empty oracle -/
def ilRun : List Nat → Sys → Sys
  | [], s => s
  | pid :: r, s => ilRun r (s.resume pid {}).1

def ilEnabledB (s : Sys) (pid : Nat) : Bool :=
  match s.proc? pid with
  | some p => p.alive && s.procs.all (fun q => !q.alive || decide (p.wake ≤ q.wake))
  | none => false

theorem ilEnabledB_sound {s : Sys} {pid : Nat} (h : ilEnabledB s pid = true) : s.enabled pid := by
  unfold ilEnabledB at h
  cases hp : s.proc? pid with
  | none => rw [hp] at h; exact absurd h (by simp)
  | some p =>
    rw [hp] at h
    simp only [Bool.and_eq_true, List.all_eq_true, Bool.or_eq_true, Bool.not_eq_true',
      decide_eq_true_eq] at h
    refine ⟨p, hp, h.1, ?_⟩
    intro q hq hqa
    rcases h.2 q hq with h' | h'
    · rw [hqa] at h'; exact absurd h' (by simp)
    · exact h'

/-- every listed block is enabled when its turn comes -/
def ilEnabledAll : List Nat → Sys → Bool
  | [], _ => true
  | pid :: r, s => ilEnabledB s pid && ilEnabledAll r (s.resume pid {}).1

theorem il_reach_run {s0 : Sys} (pids : List Nat) (s : Sys) (h : Reach s0 s)
    (hen : ilEnabledAll pids s = true) : Reach s0 (ilRun pids s) := by
  induction pids generalizing s with
  | nil => exact h
  | cons pid r ih =>
    simp only [ilEnabledAll, Bool.and_eq_true] at hen
    exact ih _ (Reach.step s pid {} h (ilEnabledB_sound hen.1)) hen.2

/-- … and every telescope block among them starts with no stale allocation process -/
def ilTelFirstAll : List Nat → Sys → Bool
  | [], _ => true
  | pid :: r, s =>
    ilEnabledB s pid &&
    (match s.proc? pid with
      | some p => !p.k.isTel || s.ingestStale == 0
      | none => true) &&
    ilTelFirstAll r (s.resume pid {}).1

theorem il_reach_run_telFirst {s0 : Sys} (hno : s0.alg ≠ .oracle) (pids : List Nat) (s : Sys)
    (h : ReachTelFirst s0 s) (hen : ilTelFirstAll pids s = true) : ReachTelFirst s0 (ilRun pids s) := by
  induction pids generalizing s with
  | nil => exact h
  | cons pid r ih =>
    simp only [ilTelFirstAll, Bool.and_eq_true] at hen
    refine ih _ (ReachTelFirst.step s pid {} h (ilEnabledB_sound hen.1.1) ?_ ?_) hen.2
    · intro ho
      exact absurd ((reach_alg h.toOk.toReach).symm.trans ho) hno
    · rintro ⟨p, hp, hk⟩
      have := hen.1.2
      rw [hp] at this
      simp only [hk, PK.isTel, Bool.not_true, Bool.false_or, beq_iff_eq] at this
      exact this

/-! ### the configuration -/

def c08ObsA : Obs :=
  { id := 0, est := 0, duration := 1, demand := 1, rate := 0, ingestDemand := 1, wf := ⟨[], [], []⟩ }
def c08ObsB : Obs :=
  { id := 1, est := 1, duration := 1, demand := 1, rate := 0, ingestDemand := 1, wf := ⟨[], [], []⟩ }
def c08ObsC : Obs :=
  { id := 2, est := 1, duration := 1, demand := 1, rate := 0, ingestDemand := 1, wf := ⟨[], [], []⟩ }

def c08W0 : Sys :=
  { machines := [⟨0, 1, 1⟩, ⟨1, 1, 1⟩, ⟨2, 1, 1⟩], totalArrays := 3, maxIngest := 2, alg := .queue,
    cl := Cluster.init [0, 1, 2], buf := Buffer.init 100 10 100 10,
    obs := [c08ObsA, c08ObsB, c08ObsC] }

theorem c08W0_wf : WFConfig c08W0 := by
  refine ⟨by decide, rfl, by decide, ?_, ⟨rfl, rfl, rfl, rfl, rfl, rfl, rfl, rfl, rfl, rfl, rfl, rfl, rfl,
    rfl, rfl, rfl, rfl⟩⟩
  intro o ho
  simp only [c08W0, List.mem_cons, List.not_mem_nil, or_false] at ho
  rcases ho with rfl | rfl | rfl <;> exact ⟨rfl, rfl, by decide, by decide⟩

/-! ### any order inside an instant: three machines ingest, the limit is two -/

/-- Instant 0, pids in order: monitor 0, telescope 1 (admits A, creates supervisor 5), cluster
loop 2, scheduler loop 3, buffer loop 4, supervisor of A 5 (creates provisioning 6 and stream 7),
provisioning of A 6 (machine 0 to the ingest pool, allocation process 8), stream of A 7,
allocation process 8 (starts task body 9, polls), task body 9 twice (start, finish).
Instant 1: supervisor of A 5 (LAST block: counter 1 → 0) BEFORE telescope 1 (A finished; admits B
and C: pool 1 + 1 ≤ 2 and counter 0 + 1, 1 + 1 ≤ 2; supervisors 10, 11), supervisors 10 and 11
(provisioning 12 and 14), provisioning 12 and 14 (machines 1 and 2 to the pool) — all BEFORE the
allocation process 8 of A gives machine 0 back. -/
def c08Sched : List Nat := [0, 1, 2, 3, 4, 5, 6, 7, 8, 9, 9, 5, 1, 10, 11, 12, 14]

unseal Rat.add in
theorem c08Sched_enabled : ilEnabledAll c08Sched c08W0.start = true := by decide

unseal Rat.add in
theorem c08Sched_final :
    (ilRun c08Sched c08W0.start).cl.ingest = [0, 1, 2] ∧ (ilRun c08Sched c08W0.start).maxIngest = 2 ∧
    (ilRun c08Sched c08W0.start).provIngest = 2 ∧ (ilRun c08Sched c08W0.start).crashed = none ∧
    (ilRun c08Sched c08W0.start).ingestStale = 1 ∧ (ilRun c08Sched c08W0.start).ingestPromised = 0 := by
  decide

theorem c08Sched_reach : Reach c08W0 (ilRun c08Sched c08W0.start) :=
  il_reach_run c08Sched _ Reach.start c08Sched_enabled

/-! ### telescope first: the limit is reached, not exceeded -/

/-- Instant 0 as above.  Instant 1: telescope 1 FIRST (A finished; admits B: pool 1 + 1 ≤ 2,
counter 1 + 1 ≤ 2; refuses C: counter 2 + 1 > 2), then supervisor of A 5 (last block), supervisor
of B 10, provisioning of B 11 (machine 1 to the pool). -/
def c08SchedTF : List Nat := [0, 1, 2, 3, 4, 5, 6, 7, 8, 9, 9, 1, 5, 10, 11]

unseal Rat.add in
theorem c08SchedTF_ok : ilTelFirstAll c08SchedTF c08W0.start = true := by decide

unseal Rat.add in
theorem c08SchedTF_final :
    (ilRun c08SchedTF c08W0.start).cl.ingest = [0, 1] ∧ (ilRun c08SchedTF c08W0.start).maxIngest = 2 ∧
    (ilRun c08SchedTF c08W0.start).admitted = [0, 1] := by
  decide

theorem c08SchedTF_reach : ReachTelFirst c08W0 (ilRun c08SchedTF c08W0.start) :=
  il_reach_run_telFirst (by simp [c08W0]) c08SchedTF _ ReachTelFirst.start c08SchedTF_ok

/-! ### a state in the middle of an ingest, nothing stale -/

/-- instant 0 up to the provisioning of A: one machine ingests, none is stale -/
def c08SchedS : List Nat := [0, 1, 2, 3, 4, 5, 6]

unseal Rat.add in
theorem c08SchedS_enabled : ilEnabledAll c08SchedS c08W0.start = true := by decide

unseal Rat.add in
theorem c08SchedS_final :
    (ilRun c08SchedS c08W0.start).cl.ingest = [0] ∧ (ilRun c08SchedS c08W0.start).ingestStale = 0 ∧
    (ilRun c08SchedS c08W0.start).provIngest = 1 := by
  decide

/-- … and one block earlier: the machine is promised, not yet moved -/
def c08SchedP : List Nat := [0, 1, 2, 3, 4, 5]

unseal Rat.add in
theorem c08SchedP_enabled : ilEnabledAll c08SchedP c08W0.start = true := by decide

unseal Rat.add in
theorem c08SchedP_final :
    (ilRun c08SchedP c08W0.start).cl.ingest = [] ∧ (ilRun c08SchedP c08W0.start).ingestPromised = 1 ∧
    (ilRun c08SchedP c08W0.start).provIngest = 1 := by
  decide

end Sys
end Topsim
