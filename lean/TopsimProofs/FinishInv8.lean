/-
  FinishInv8 — `FInv` along every run; the ingest tasks of a finished run.
-/
import TopsimProofs.FinishInv7

namespace Topsim
namespace Sys

open Cluster

theorem fi_telescopeFold (n : Nat) (tw : Time) (hn : (n : Time) ≤ tw) (l : List Oid) (hnd : l.Nodup)
    (acc : Sys × Option Err) (v : List Oid) (hdisj : ∀ o ∈ l, o ∉ v) (hm : TelMid acc.1 n v)
    (hpw : PW acc.1) {U : List Tid} (hci : CI acc.1 U) (h : FI acc.1)
    (hT : ∀ q ∈ acc.1.procs, ∀ o d, q.k = .provIngest o d → q.pc = 0 → tw ≤ q.wake)
    {pt : Proc} (hpt : pt ∈ acc.1.procs) :
    FI (l.foldl (telescopeVisit n) acc).1 := by
  induction l generalizing acc v with
  | nil => exact h
  | cons x r ih =>
    simp only [List.foldl_cons]
    rw [List.nodup_cons] at hnd
    obtain ⟨s1, err⟩ := acc
    have hx := hdisj x (by simp)
    obtain ⟨h1, h2⟩ := telescopeVisit_inv n s1 err x v hx hm
    obtain ⟨h3, h4⟩ := fi_telescopeVisit n tw hn s1 err x v hx hm hpw hci h hT hpt
    refine ih hnd.2 (telescopeVisit n (s1, err) x) (x :: v) ?_ h2 (h1.pw hpw) (h1.ci U hpw hci) h3 h4
      (h1.pre.subset hpt)
    intro o ho hov
    rcases List.mem_cons.mp hov with rfl | hov
    · exact hnd.1 ho
    · exact hdisj o (List.mem_cons_of_mem _ ho) hov

theorem sameClass_tel : SameClass .telescope .telescope := SameClass.refl _

theorem fi_telescope {s : Sys} (hs : SInv s) (h : FI s) {p : Proc} (hp : p ∈ s.procs)
    (ha : p.alive = true) (hmin : ∀ q ∈ s.procs, q.alive = true → p.wake ≤ q.wake)
    (hk : p.k = .telescope) :
    FI ((s.telescopeBlock p.wake).1.updProc p.pid (fin .telescope (s.telescopeBlock p.wake).2 p.wake)) := by
  have hpw := hs.pw
  obtain ⟨U, hU⟩ := hs.ci
  have heg := hs.eg
  have hwake0 := heg.telWake p hp hk
  have hn : ((natNow p.wake : Nat) : Time) ≤ p.wake := natNow_le p.wake hwake0
  -- the state after the loop
  have key : FI (s.telescopeBlock p.wake).1 ∧ PW (s.telescopeBlock p.wake).1 ∧
      p ∈ (s.telescopeBlock p.wake).1.procs := by
    obtain ⟨hc, _, _⟩ := telescope_key heg hp ha hmin hk
    refine ⟨?_, hc.pw hpw, hc.pre.subset hp⟩
    have hmid0 : TelMid s (natNow p.wake) [] := by
      refine ⟨heg.obsNodup, heg.admNodup, heg.telUniq, heg.telWake, ?_⟩
      intro o ho
      obtain ⟨ob, hob, hw⟩ := heg.adm o ho
      refine ⟨ob, hob, fun hst => ?_⟩
      exfalso
      obtain ⟨w, hw1, hwa, _, _, hlt⟩ := hw hst
      have h1 := hlt p hp hk ha
      have h2 := hmin w hw1 hwa
      grind
    have hT : ∀ q ∈ s.procs, ∀ o d, q.k = .provIngest o d → q.pc = 0 → p.wake ≤ q.wake := by
      intro q hq o d _ hq0
      apply hmin q hq
      cases hqa : q.alive with
      | true => rfl
      | false => have := (h.ok q hq).deadPc hqa; omega
    unfold telescopeBlock
    split
    · exact h.congr rfl rfl rfl rfl rfl
    · simp only
      generalize hs0 : ({ s with telEvents := [], telDelayed := if s.schedDelayed = true ∧ (!s.telDelayed) = true then true else s.telDelayed } : Sys) = s0
      have e1 : s0.procs = s.procs := by subst hs0; rfl
      have e2 : s0.obs = s.obs := by subst hs0; rfl
      have e3 : s0.admitted = s.admitted := by subst hs0; rfl
      have hc8 : Core8 s s0 := by subst hs0; exact ⟨rfl, rfl, rfl, rfl, rfl, rfl, rfl, rfl⟩
      have hfold := fi_telescopeFold (natNow p.wake) p.wake hn (s.obs.map (·.id)) heg.obsNodup (s0, none) []
        (fun _ _ => by simp) (hmid0.core e2 e1 e3) (hpw.core hc8) (hU.core hc8)
        (h.congr hc8.procs hc8.starts hc8.obs hc8.admitted hc8.cl) (by rw [e1]; exact hT) (by rw [e1]; exact hp)
      generalize (List.foldl (telescopeVisit (natNow p.wake)) (s0, none) (s.obs.map (·.id))) = r at hfold ⊢
      obtain ⟨s1, er⟩ := r
      cases er <;> exact hfold
  obtain ⟨hX, hpwX, hpX⟩ := key
  generalize s.telescopeBlock p.wake = r at hX hpwX hpX
  obtain ⟨X, y⟩ := r
  simp only at hX hpwX hpX ⊢
  have hm := memSpec_updProc hpwX hpX [] (by simp) hpwX (fin .telescope y p.wake)
  refine hX.step_obs hpwX hpX hm (by simp) (by simp) (by rw [hk]; simp only [fin_k]; exact sameClass_tel)
    (fun _ h => h) rfl rfl ?_ (by simp) (by simp) (fun x hx => Or.inl hx)
  intro _
  constructor
  · intro _; simp
  all_goals (intros; simp_all)

/-! ### the started simulation -/

theorem start_fi (s0 : Sys) (hw : WFConfig s0) : FI s0.start := by
  obtain ⟨hprocs, hnp, _, _, _, _, _, hadm, _⟩ := hw.fresh
  have hp : s0.start.procs = s0.procs ++
      [{ pid := s0.nextPid, k := .monitor, wake := 0 }, { pid := s0.nextPid + 1, k := .telescope, wake := 0 },
       { pid := s0.nextPid + 2, k := .clusterLoop, wake := 0 }, { pid := s0.nextPid + 3, k := .schedLoop, wake := 0 },
       { pid := s0.nextPid + 4, k := .bufferLoop, wake := 0 }] := by
    simp [start, spawn]
  have ho : s0.start.obs = s0.obs := by simp [start, spawn]
  have hcl : s0.start.cl = s0.cl := by simp [start, spawn]
  rw [hprocs] at hp
  simp only [List.nil_append] at hp
  refine ⟨?_, ?_, ⟨?_, ?_, ?_, ?_⟩, ?_⟩
  rotate_right
  · intro t ht
    rw [hcl, hw.clInit] at ht
    simp [Cluster.init, dictGet] at ht
  · intro q hq
    rw [hp] at hq
    simp only [List.mem_cons, List.not_mem_nil, or_false] at hq
    rcases hq with rfl | rfl | rfl | rfl | rfl <;> exact Ok.of_fresh rfl rfl rfl rfl rfl
  · intro p hp' q _ o tl tl' hk
    rw [hp] at hp'
    simp only [List.mem_cons, List.not_mem_nil, or_false] at hp'
    rcases hp' with rfl | rfl | rfl | rfl | rfl <;> simp at hk
  · intro ob hob hst
    rw [ho] at hob
    exact absurd (hw.obsWaiting ob hob).1 hst
  · intro ob hob hst
    rw [ho] at hob
    rw [(hw.obsWaiting ob hob).1] at hst
    exact absurd hst (by simp)
  · intro ob hob hast
    rw [ho] at hob
    exact absurd (hw.obsWaiting ob hob).2.1 hast
  · intro ob hob
    rw [ho] at hob
    exact (hw.obsWaiting ob hob).2.2.2

/-! ### one step -/

theorem finv_neutral {s : Sys} (hs : SInv s) (h : FI s) {p : Proc} (hp : p ∈ s.procs) (orc : Oracle)
    (hpres : Pres s (s.block p orc).1) (hk : p.k.neutral) (hk' : (s.block p orc).2.1.neutral) :
    FI ((s.block p orc).1.updProc p.pid (fin (s.block p orc).2.1 (s.block p orc).2.2 p.wake)) :=
  h.finish_neutral hs.pw hpres.shape (hpres.pw hs.pw) hp _ (by simp) (by simp) hk (by simpa using hk')

theorem finv_step {s : Sys} (hs : SInv s) (hf : FInv s) {pid : Nat} (hen : s.enabled pid) (orc : Oracle)
    (hpre : s.alg = .oracle → orc.preOk) : FInv (s.resume pid orc).1 := by
  intro hc
  obtain ⟨p, hp, ha, hmin⟩ := hen
  obtain ⟨hc0, hnr⟩ := resume_nocrash s pid orc p hp ha hc
  have h := hf hc0
  obtain ⟨hpm, hpid⟩ := proc?_some hp
  subst hpid
  have hcore := resume_core s p.pid orc p hp ha
  refine FI.congr ?_ hcore.procs hcore.starts hcore.obs hcore.admitted hcore.cl
  cases hk : p.k with
  | monitor =>
    have hb : s.block p orc = ((s.monitorBlock p.wake).1, p.k, (s.monitorBlock p.wake).2) := by
      unfold block; simp only [hk]
    exact finv_neutral hs h hpm orc (by rw [hb]; exact monitorBlock_pres _ _)
      (by rw [hk]; exact ⟨rfl, rfl, rfl, rfl, rfl⟩) (by rw [hb, hk]; exact ⟨rfl, rfl, rfl, rfl, rfl⟩)
  | telescope =>
    have hb : s.block p orc = ((s.telescopeBlock p.wake).1, .telescope, (s.telescopeBlock p.wake).2) := by
      unfold block; simp only [hk]
    rw [hb]
    exact fi_telescope hs h hpm ha hmin hk
  | clusterLoop =>
    have hb : s.block p orc = ({ s with cl := s.cl.loopTick }, p.k, .timeout 1) := by
      unfold block; simp only [hk]
    exact finv_neutral hs h hpm orc (by rw [hb]; exact clusterLoop_pres _)
      (by rw [hk]; exact ⟨rfl, rfl, rfl, rfl, rfl⟩) (by rw [hb, hk]; exact ⟨rfl, rfl, rfl, rfl, rfl⟩)
  | schedLoop =>
    have hb : s.block p orc = ((s.schedLoopBlock p.wake orc).1, p.k, (s.schedLoopBlock p.wake orc).2) := by
      unfold block; simp only [hk]
    exact finv_neutral hs h hpm orc (by rw [hb]; exact schedLoopBlock_pres _ _ _)
      (by rw [hk]; exact ⟨rfl, rfl, rfl, rfl, rfl⟩) (by rw [hb, hk]; exact ⟨rfl, rfl, rfl, rfl, rfl⟩)
  | bufferLoop =>
    have hb : s.block p orc = ((s.bufferLoopBlock p.wake).1, p.k, (s.bufferLoopBlock p.wake).2) := by
      unfold block; simp only [hk]
    exact finv_neutral hs h hpm orc (by rw [hb]; exact bufferLoopBlock_pres _ _)
      (by rw [hk]; exact ⟨rfl, rfl, rfl, rfl, rfl⟩) (by rw [hb, hk]; exact ⟨rfl, rfl, rfl, rfl, rfl⟩)
  | allocIngest o tl =>
    have hb : s.block p orc = s.allocIngestBlock p.wake p.pc o tl := by
      unfold block; simp only [hk]
    rw [hb] at hnr ⊢
    exact fi_allocIngest hs h hpm ha hk hnr
  | provIngest o d =>
    have hb : s.block p orc = s.provIngestBlock p.wake p.pc o d := by
      unfold block; simp only [hk]
    rw [hb] at hnr ⊢
    exact fi_provIngest hs h hpm ha hk hnr
  | ingestStream o tl =>
    have hb : s.block p orc = s.ingestStreamBlock p.wake p.pc o tl := by
      unfold block; simp only [hk]
    exact finv_neutral hs h hpm orc (by rw [hb]; exact ingestStreamBlock_pres _ _ _ _ _)
      (by rw [hk]; exact ⟨rfl, rfl, rfl, rfl, rfl⟩) (by rw [hb]; exact ingestStreamBlock_kind _ _ _ _ _)
  | allocTask t m preds obs ing ret =>
    have hb : s.block p orc = s.allocTaskBlock p.wake t m preds obs ing ret := by
      unfold block; simp only [hk]
    rw [hb] at hnr ⊢
    exact fi_allocTask hs h hpm ha hk hnr
  | doWork t m preds ph tot =>
    have hb : s.block p orc = s.doWorkBlock p.wake orc t m preds ph tot := by
      unfold block; simp only [hk]
    rw [hb] at hnr ⊢
    exact fi_doWork hs h hpm ha hk orc hnr
  | allocTasks o sc pa po fin =>
    have hb : s.block p orc = s.allocTasksBlock p.wake orc p.pc o sc pa po fin := by
      unfold block; simp only [hk]
    exact finv_neutral hs h hpm orc (by rw [hb]; exact allocTasksBlock_pres _ _ _ hpre _ _ _ _ _ _)
      (by rw [hk]; exact ⟨rfl, rfl, rfl, rfl, rfl⟩) (by rw [hb]; exact allocTasksBlock_kind _ _ _ _ _ _ _ _ _)
  | hot2cold cur =>
    have hb : s.block p orc = s.hot2coldBlock p.wake cur := by
      unfold block; simp only [hk]
    exact finv_neutral hs h hpm orc (by rw [hb]; exact hot2coldBlock_pres _ _ _)
      (by rw [hk]; exact ⟨rfl, rfl, rfl, rfl, rfl⟩) (by rw [hb]; exact hot2coldBlock_kind _ _ _)
  | cold2hot cur =>
    have hb : s.block p orc = s.cold2hotBlock p.wake cur := by
      unfold block; simp only [hk]
    exact finv_neutral hs h hpm orc (by rw [hb]; exact cold2hotBlock_pres _ _ _)
      (by rw [hk]; exact ⟨rfl, rfl, rfl, rfl, rfl⟩) (by rw [hb]; exact cold2hotBlock_kind _ _ _)

theorem reach_finv (s0 s : Sys) (hw : WFConfig s0) (h : ReachOk s0 s) : FInv s := by
  induction h with
  | start => exact fun _ => start_fi s0 hw
  | step s pid orc hr hen hpre ih => exact finv_step (reach_inv s0 s hw hr) ih hen orc hpre

/-! ### every ingest task of a finished run has run -/

theorem finished_ingest_started (s0 s : Sys) (hw : WFConfig s0) (h : ReachOk s0 s)
    (hf : s.isFinished = true) (hc : s.crashed = none) :
    ∀ o ∈ s.obs, ∀ i, i < o.ingestDemand → Tid.ingest o.id i ∈ s.starts := by
  have hs := reach_inv s0 s hw h
  have hfi := reach_finv s0 s hw h hc
  obtain ⟨U, hU⟩ := hs.ci
  obtain ⟨hb, hci, _, ht⟩ := (sim_isFinished_iff s).mp hf
  obtain ⟨hfin, _, _⟩ := (telescope_isIdle_iff s).mp ht
  obtain ⟨hrun, _, hing⟩ := (cluster_isIdle_iff s.cl).mp hci
  have hro : s.cl.runOn = [] := by
    have := hU.inv.runOnTasks
    rw [hrun] at this
    exact List.map_eq_nil_iff.mp this
  have hpend : s.cl.pending = [] := by
    have : s.cl.pending.map (·.mach) = [] := by
      apply list_eq_nil_of_count
      intro m
      have := hU.inv.ingm m
      rw [hing] at this
      simp only [List.count_nil] at this
      omega
    exact List.map_eq_nil_iff.mp this
  intro o ho i hi
  obtain ⟨q, hq, hqk, hqc⟩ := hfi.obs.finProv o ho (hfin o ho)
  obtain ⟨a, ha, m, preds, obs, ing, ret, hak⟩ := (hfi.ok q hq).provAll _ _ hqk hqc i hi
  cases haa : a.alive with
  | false => exact (hfi.ok a ha).atDead _ _ _ _ _ _ hak haa
  | true =>
    exfalso
    by_cases h0 : a.pc = 0
    · cases ing with
      | true =>
        have := hU.pend a ha haa _ _ _ _ _ hak h0
        rw [hpend] at this; exact absurd this (by simp)
      | false =>
        have := (hU.newT a ha haa _ _ _ _ _ hak h0).2
        simp [Tid.isIngest] at this
    · have := hU.runOn a ha haa _ _ _ _ _ _ hak (by omega)
      rw [hro] at this; exact absurd this (by simp)

end Sys
end Topsim
