/-
  FinishInv4 — `FI` under the blocks of neutral processes, of `do_work` and of
  the allocation process.
-/
import TopsimProofs.FinishInv3

namespace Topsim
namespace Sys

open Cluster

theorem natNow_natCast (n : Nat) : natNow ((n : Nat) : Rat) = n := by
  unfold natNow
  have : ((n : Nat) : Rat).floor = (n : Int) := by
    rw [← Rat.intCast_natCast]
    exact Rat.floor_intCast ↑n
  rw [this]; simp

/-! ### processes nothing is claimed about -/

theorem Ok.of_neutral {s : Sys} {q : Proc} (hk : q.k.neutral) (hd : q.alive = false → 1 ≤ q.pc) :
    Ok s q := by
  obtain ⟨a1, a2, a3, a4, a5⟩ := hk
  constructor
  · exact hd
  · intro t m preds ph tot e; rw [e] at a2; simp [PK.isDW] at a2
  · intro t m preds obs ing ret e; rw [e] at a1; simp [PK.isAT] at a1
  · intro t m preds obs ing ret e; rw [e] at a1; simp [PK.isAT] at a1
  · intro o d e; rw [e] at a3; simp [PK.isPI] at a3
  · intro o d e; rw [e] at a3; simp [PK.isPI] at a3
  · intro o tl e; rw [e] at a4; simp [PK.isAI] at a4
  · intro o tl e; rw [e] at a4; simp [PK.isAI] at a4
  · intro o tl e; rw [e] at a4; simp [PK.isAI] at a4

/-- a process just created, other than a task body, provisioner or supervisor -/
theorem Ok.of_fresh {s : Sys} {q : Proc} (ha : q.alive = true) (hpc : q.pc = 0)
    (h2 : q.k.isDW = false) (h3 : q.k.isPI = false) (h4 : q.k.isAI = false) : Ok s q := by
  constructor
  · intro h; rw [ha] at h; exact absurd h (by simp)
  · intro t m preds ph tot e; rw [e] at h2; simp [PK.isDW] at h2
  · intro t m preds obs ing ret _ h; omega
  · intro t m preds obs ing ret _ h; rw [ha] at h; exact absurd h (by simp)
  · intro o d e; rw [e] at h3; simp [PK.isPI] at h3
  · intro o d e; rw [e] at h3; simp [PK.isPI] at h3
  · intro o tl e; rw [e] at h4; simp [PK.isAI] at h4
  · intro o tl e; rw [e] at h4; simp [PK.isAI] at h4
  · intro o tl e; rw [e] at h4; simp [PK.isAI] at h4

theorem FI.congr {a b : Sys} (h : FI a) (hp : b.procs = a.procs) (hs : b.starts = a.starts)
    (ho : b.obs = a.obs) (hd : b.admitted = a.admitted) (hc : b.cl = a.cl) : FI b := by
  have hk : Keeps a b := by
    refine ⟨by rw [hs]; exact fun _ h => h, by rw [hd]; exact fun _ h => h, ?_, ?_, ?_⟩
    · intro d hd' t m preds ph tot hk; exact ⟨d, by rw [hp]; exact hd', rfl, ph, tot, hk⟩
    · intro q hq t m preds obs ing ret hk; exact ⟨q, by rw [hp]; exact hq, ret, hk⟩
    · intro q hq o d hk; exact ⟨q, by rw [hp]; exact hq, hk, Nat.le_refl _⟩
  refine ⟨?_, ?_, h.obs.mono hk ho, by rw [hc, hs]; exact h.finRan⟩
  · intro q hq; rw [hp] at hq; exact (h.ok q hq).mono_obs hk ho
  · rw [hp]; exact h.aiUniq

/-- the common frame of the steps that leave the observation records alone -/
theorem FI.step_obs {s s' : Sys} (h : FI s) (hpw : PW s) {p : Proc} (hp : p ∈ s.procs) {p' : Proc}
    {new : List Proc} (hm : MemSpec s s' p p' new) (hpid : p'.pid = p.pid) (hpc : p.pc ≤ p'.pc)
    (hc : SameClass p.k p'.k) (hs : ∀ t ∈ s.starts, t ∈ s'.starts)
    (ha : s'.admitted = s.admitted) (ho : s'.obs = s.obs)
    (hp'ok : Keeps s s' → Ok s' p') (hnew : Keeps s s' → ∀ q ∈ new, Ok s' q)
    (hnewAI : ∀ q ∈ new, q.k.isAI = false)
    (hcf : ∀ t, dictGet s'.cl.finished t = some true →
      dictGet s.cl.finished t = some true ∨ t ∈ s'.starts) : FI s' :=
  h.step hpw hp hm hpid hpc hc hs (by rw [ha]; exact fun _ h => h)
    (fun _ _ _ _ _ _ ob a hob hast => ⟨ob, by unfold obs? at hob ⊢; rw [ho]; exact hob, hast⟩)
    (fun _ _ _ _ _ _ _ ob hob hst => ⟨ob, by unfold obs? at hob ⊢; rw [ho]; exact hob, hst⟩)
    (ObsMonoS.of_eq ho) hp'ok hnew
    (fun q hq o tl e => by have := hnewAI q hq; rw [e] at this; simp [PK.isAI] at this)
    (fun hk => h.obs.mono hk ho) hcf

/-- a block made of neutral steps, run by a neutral process -/
theorem FI.finish_neutral {s X : Sys} (h : FI s) (hpw : PW s) (hsh : Shape s X) (hpwX : PW X)
    {p : Proc} (hp : p ∈ s.procs) (g : Proc → Proc) (hgp : (g p).pid = p.pid)
    (hgc : (g p).pc = p.pc + 1) (hk : p.k.neutral) (hk' : (g p).k.neutral) :
    FI (X.updProc p.pid g) := by
  obtain ⟨new, hprocs, hnew⟩ := hsh.newp
  refine h.step_obs hpw hp (memSpec_updProc hpw hp new hprocs hpwX g) hgp (by omega)
    (SameClass.of_neutral hk hk') (by rw [updProc_starts, hsh.starts]; exact fun _ h => h)
    (by rw [updProc_admitted, hsh.admitted]) (by rw [updProc_obs, hsh.obs]) ?_ ?_ ?_
    (fun t ht => Or.inl (by rw [updProc_cl, hsh.clfin] at ht; exact ht))
  · intro _; exact Ok.of_neutral hk' (fun _ => by omega)
  · intro _ q hq
    obtain ⟨h1, h2, h3, h4, h5, _⟩ := hnew q hq
    exact Ok.of_fresh h1 h2 h3 h4 h5
  · intro q hq; exact (hnew q hq).2.2.2.2.1

/-! ### `do_work` -/

/-- the outcomes of a `do_work` block, with the yield of the "nothing happens" outcome -/
def DwOut2 (s : Sys) (t : Tid) (m : Mid) (preds : List Tid) (ph tot : Nat) (X : Sys × PK × Yield) : Prop :=
  (∃ k e, X = (s, k, .raised e)) ∨
  (ph < 2 ∧ ∃ tot' w, X = (s, .doWork t m preds 1 tot', .timeout w)) ∨
  (ph < 2 ∧ ∃ f tot' d, GoodT f ∧ X
    = ({ (s.updTask t f) with starts := (s.updTask t f).starts ++ [t],
                               active := (s.updTask t f).active ++ [(m, t)] },
        .doWork t m preds 2 tot', .timeout d)) ∨
  (2 ≤ ph ∧ ∃ f, GoodT f ∧ X
    = ({ (s.updTask t f) with active := (s.updTask t f).active.erase (m, t) },
        .doWork t m preds 3 tot, .done))

theorem doWorkBlock_out2 (s : Sys) (now : Time) (orc : Oracle) (t : Tid) (m : Mid) (preds : List Tid)
    (ph tot : Nat) : DwOut2 s t m preds ph tot (s.doWorkBlock now orc t m preds ph tot) := by
  unfold doWorkBlock
  by_cases h0 : ph = 0
  · simp only [h0, if_true]
    split
    · split
      · split
        · exact Or.inl ⟨_, _, rfl⟩
        · refine Or.inr (Or.inr (Or.inl ⟨by omega, _, _, _, ?_, rfl⟩))
          exact fun r => ⟨rfl, fun h => by simp at h⟩
      · exact Or.inl ⟨_, _, rfl⟩
    · split
      · exact Or.inl ⟨_, _, rfl⟩
      · exact Or.inr (Or.inl ⟨by omega, _, _, rfl⟩)
  · simp only [h0, if_false]
    by_cases h1 : ph = 1
    · simp only [h1, if_true]
      split
      · split
        · exact Or.inl ⟨_, _, rfl⟩
        · refine Or.inr (Or.inr (Or.inl ⟨by omega, _, _, _, ?_, rfl⟩))
          exact fun r => ⟨rfl, fun h => by simp at h⟩
      · exact Or.inl ⟨_, _, rfl⟩
    · simp only [h1, if_false]
      refine Or.inr (Or.inr (Or.inr ⟨by omega, _, ?_, rfl⟩))
      intro r
      refine ⟨?_, ?_⟩
      · simp only; split <;> rfl
      · simp only; split <;> exact fun h => h

theorem fi_doWork {s : Sys} (hs : SInv s) (h : FI s) {p : Proc} (hp : p ∈ s.procs)
    (ha : p.alive = true) {t m preds ph tot} (hk : p.k = .doWork t m preds ph tot) (orc : Oracle)
    (hnr : ∀ e, (s.doWorkBlock p.wake orc t m preds ph tot).2.2 ≠ .raised e) :
    FI ((s.doWorkBlock p.wake orc t m preds ph tot).1.updProc p.pid
      (fin (s.doWorkBlock p.wake orc t m preds ph tot).2.1 (s.doWorkBlock p.wake orc t m preds ph tot).2.2 p.wake)) := by
  have hpw := hs.pw
  have hokp := h.ok p hp
  rcases doWorkBlock_out2 s p.wake orc t m preds ph tot with
    ⟨k, e, heq⟩ | ⟨hph, tot', w, heq⟩ | ⟨hph, f, tot', d, hf, heq⟩ | ⟨hph, f, hf, heq⟩
  · rw [heq] at hnr; exact absurd rfl (hnr e)
  · rw [heq]
    simp only
    refine h.step_obs hpw hp (memSpec_updProc hpw hp [] (by simp) hpw _) (by simp) (by simp)
      ?_ (fun _ h => h) rfl rfl ?_ (by simp) (by simp) (fun t ht => Or.inl ht)
    · rw [hk]; simp only [fin_k]
      exact ⟨fun _ _ _ _ _ e => by injection e with e1 e2 e3; subst e1 e2 e3; exact ⟨_, _, rfl⟩,
        fun _ _ _ _ _ _ e => by simp at e, fun _ _ e => by simp at e, fun _ _ e => by simp at e⟩
    · intro _
      constructor
      · intro hd; simp [ha] at hd
      · intro t1 m1 preds1 ph1 tot1 e hx
        simp only [fin_k, PK.doWork.injEq] at e
        obtain ⟨_, _, _, rfl, _⟩ := e
        simp [ha] at hx
      all_goals (intros; simp_all)
  · rw [heq]
    simp only
    generalize hX : ({ (s.updTask t f) with starts := (s.updTask t f).starts ++ [t], active := (s.updTask t f).active ++ [(m, t)] } : Sys) = X
    have hXprocs : X.procs = s.procs := by subst hX; rfl
    have hXnp : X.nextPid = s.nextPid := by subst hX; rfl
    have hXstarts : X.starts = s.starts ++ [t] := by subst hX; rfl
    have hXobs : X.obs = s.obs := by subst hX; rfl
    have hXadm : X.admitted = s.admitted := by subst hX; rfl
    have hXcl : X.cl = s.cl := by subst hX; rfl
    have hpwX : PW X := ⟨by rw [hXprocs]; exact hpw.nodup, by rw [hXprocs, hXnp]; exact hpw.lt⟩
    refine h.step_obs hpw hp (memSpec_updProc hpw hp [] (by simp [hXprocs]) hpwX _) (by simp) (by simp)
      ?_ (by rw [updProc_starts, hXstarts]; exact fun _ h => List.mem_append_left _ h)
      (by rw [updProc_admitted, hXadm]) (by rw [updProc_obs, hXobs]) ?_ (by simp) (by simp)
      (fun t ht => Or.inl (by rw [updProc_cl, hXcl] at ht; exact ht))
    · rw [hk]; simp only [fin_k]
      exact ⟨fun _ _ _ _ _ e => by injection e with e1 e2 e3; subst e1 e2 e3; exact ⟨_, _, rfl⟩,
        fun _ _ _ _ _ _ e => by simp at e, fun _ _ e => by simp at e, fun _ _ e => by simp at e⟩
    · intro _
      constructor
      · intro hd; simp [ha] at hd
      · intro t1 m1 preds1 ph1 tot1 e _
        simp only [fin_k, PK.doWork.injEq] at e
        obtain ⟨rfl, _⟩ := e
        rw [updProc_starts, hXstarts]; simp
      all_goals (intros; simp_all)
  · rw [heq]
    simp only
    generalize hX : ({ (s.updTask t f) with active := (s.updTask t f).active.erase (m, t) } : Sys) = X
    have hXprocs : X.procs = s.procs := by subst hX; rfl
    have hXnp : X.nextPid = s.nextPid := by subst hX; rfl
    have hXstarts : X.starts = s.starts := by subst hX; rfl
    have hXobs : X.obs = s.obs := by subst hX; rfl
    have hXadm : X.admitted = s.admitted := by subst hX; rfl
    have hXcl : X.cl = s.cl := by subst hX; rfl
    have hpwX : PW X := ⟨by rw [hXprocs]; exact hpw.nodup, by rw [hXprocs, hXnp]; exact hpw.lt⟩
    refine h.step_obs hpw hp (memSpec_updProc hpw hp [] (by simp [hXprocs]) hpwX _) (by simp) (by simp)
      ?_ (by rw [updProc_starts, hXstarts]; exact fun _ h => h)
      (by rw [updProc_admitted, hXadm]) (by rw [updProc_obs, hXobs]) ?_ (by simp) (by simp)
      (fun t ht => Or.inl (by rw [updProc_cl, hXcl] at ht; exact ht))
    · rw [hk]; simp only [fin_k]
      exact ⟨fun _ _ _ _ _ e => by injection e with e1 e2 e3; subst e1 e2 e3; exact ⟨_, _, rfl⟩,
        fun _ _ _ _ _ _ e => by simp at e, fun _ _ e => by simp at e, fun _ _ e => by simp at e⟩
    · intro _
      constructor
      · intro _; simp
      · intro t1 m1 preds1 ph1 tot1 e _
        simp only [fin_k, PK.doWork.injEq] at e
        obtain ⟨rfl, _⟩ := e
        rw [updProc_starts, hXstarts]
        exact hokp.dwStarted _ _ _ _ _ hk (Or.inr hph)
      all_goals (intros; simp_all)

end Sys
end Topsim
