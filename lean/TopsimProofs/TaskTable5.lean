/-
  TaskTable5 — the task table.  `Simulation._generate_final_task_data` builds it
  from `Cluster.finished_task_time_data()`: one row per key of the cluster's
  finished-task map, read off the task object (`taskTableCl`).  `taskTable` is the
  same table read off the record table directly, one row per task record.
  The keys of the finished-task map are distinct, and a key entered with `False`
  (an ingest task that has begun) is still running (`FinKeys`, shipped
  algorithms); at the end of a run that has not crashed the keys are exactly the
  started tasks.
-/
import TopsimProofs.TaskTable4

namespace Topsim

/-- the observation a task id names (`task.id.split('_')[0]`) -/
def Tid.obs? : Tid → Option Oid
  | .ingest o _ => some o
  | .wf o _ _ => some o
  | .raw _ => none

/-- one row of the task table: the index (task id), planned start and finish shifted by the
workflow offset, recorded start and finish, the offset, the observation -/
structure TaskRow where
  id : Tid
  est : Nat
  eft : Nat
  ast : Option Time
  aft : Option Time
  offset : Nat
  obs : Option Oid
  deriving Repr, DecidableEq

/-- the row of a task record -/
def TaskRec.row (r : TaskRec) : TaskRow :=
  { id := r.id, est := r.est + r.offset, eft := r.eft + r.offset, ast := r.ast, aft := r.aft,
    offset := r.offset, obs := r.id.obs? }

namespace Sys

open Cluster

/-- the task table, one row per task record -/
def taskTable (s : Sys) : List TaskRow := s.tasks.map TaskRec.row

/-- the task table as `finished_task_time_data` computes it: one row per key of the cluster's
finished-task map, read off the record of that task -/
def taskTableCl (s : Sys) : List TaskRow :=
  (dictKeys s.cl.finished).filterMap (fun t => (s.task? t).map TaskRec.row)

theorem taskTable_ids (s : Sys) : s.taskTable.map (·.id) = s.tasks.map (·.id) := by
  unfold taskTable; rw [List.map_map]; rfl

/-! ### the keys of the finished-task map -/

/-- distinct keys; a key with value `False` is a running task -/
def FinKeys (c : Cluster) : Prop :=
  (dictKeys c.finished).Nodup ∧ ∀ t, dictGet c.finished t = some false → t ∈ c.running

theorem moveToIngest_running (c : Cluster) (obs : Oid) (pairs : List (Mid × Tid)) :
    (moveToIngest c obs pairs).1.running = c.running := by
  induction pairs generalizing c with
  | nil => rfl
  | cons p rest ih =>
    obtain ⟨m, t⟩ := p
    unfold moveToIngest
    simp only
    split
    · exact ih _
    · rfl

theorem provisionIngest_running (c : Cluster) (d : Nat) (o : Oid) :
    (c.provisionIngest d o).1.running = c.running := by
  unfold provisionIngest
  split
  · rfl
  · simp only
    exact moveToIngest_running _ _ _

theorem FinKeys.of_eq {c c' : Cluster} (h : FinKeys c) (hf : c'.finished = c.finished)
    (hr : c'.running = c.running) : FinKeys c' := by
  unfold FinKeys; rw [hf, hr]; exact h

theorem finKeys_closed : ClClosed FinKeys := by
  constructor
  · intro c h; unfold loopTick; split
    · exact h.of_eq rfl rfl
    · exact h
  · intro c h; exact h.of_eq rfl rfl
  · intro c d o h
    exact h.of_eq (provisionIngest_finished c d o) (provisionIngest_running c d o)
  · intro c t m obs ing h
    unfold allocBegin
    by_cases ht : t ∈ c.running
    · simp only [ht, if_true]; exact h
    · simp only [ht, if_false]
      cases ing with
      | true =>
        simp only [if_true]
        split
        · exact h
        · refine ⟨dictKeys_nodup_dictSet _ _ _ h.1, ?_⟩
          intro t' ht'
          simp only at ht' ⊢
          rw [dictGet_dictSet] at ht'
          split at ht'
          · rename_i e; subst e; simp
          · exact List.mem_append_left _ (h.2 t' ht')
      | false =>
        simp only [Bool.false_eq_true, if_false]
        split
        · exact h
        · have hf := setMachineOccupied_fields c m obs
          generalize c.setMachineOccupied m obs = r at hf
          obtain ⟨c1, e1⟩ := r
          simp only at hf
          have h1 : FinKeys c1 := h.of_eq hf.2.2.2 hf.2.2.1
          cases e1 with
          | some e => exact h1
          | none =>
            refine ⟨h1.1, ?_⟩
            intro t' ht'
            exact List.mem_append_left _ (h1.2 t' ht')
  · intro c t m obs ing h
    unfold allocEnd
    by_cases ht : t ∈ c.running
    · simp only [ht, if_true]
      have h1 : FinKeys ({ c with running := c.running.erase t, uRunning := c.uRunning - 1,
                                   finished := dictSet c.finished t true,
                                   uFinished := c.uFinished + 1 } : Cluster) := by
        refine ⟨dictKeys_nodup_dictSet _ _ _ h.1, ?_⟩
        intro t' ht'
        simp only at ht' ⊢
        rw [dictGet_dictSet] at ht'
        split at ht'
        · exact absurd ht' (by simp)
        · rename_i e
          exact (List.mem_erase_of_ne (fun e' => e e'.symm)).mpr (h.2 t' ht')
      cases ing with
      | true =>
        simp only [if_true]
        split
        · exact h1.of_eq rfl rfl
        · exact h1
      | false =>
        simp only [Bool.false_eq_true, if_false]
        generalize hc1 : ({ c with running := c.running.erase t, uRunning := c.uRunning - 1,
                                   finished := dictSet c.finished t true,
                                   uFinished := c.uFinished + 1 } : Cluster) = c1 at h1 ⊢
        have hf := setMachineAvailable_fields c1 m obs
        generalize c1.setMachineAvailable m obs = r at hf
        obtain ⟨c2, e2⟩ := r
        simp only at hf
        have h2 : FinKeys c2 := h1.of_eq hf.2.2.2 hf.2.2.1
        cases e2 with
        | some e => exact h2
        | none => exact h2.of_eq rfl rfl
    · simp only [ht, if_false]; exact h
  · intro c o h
    unfold releaseBatch
    split
    · exact h
    · simp only
      split
      · exact h.of_eq rfl rfl
      · exact h.of_eq rfl rfl

theorem finKeys_alg : AlgClosed FinKeys (fun a => a ≠ .oracle) := by
  intro s1 orc plan sched pool out ha h hrun
  have hq := runAlgorithm_quiet s1 orc plan sched pool out (fun e => absurd e ha) hrun
  exact h.of_eq hq.finished hq.running

theorem reach_finKeys {s0 s : Sys} (hw : WFConfig s0) (ha : s0.alg ≠ .oracle) (h : Reach s0 s) :
    FinKeys s.cl := by
  refine reach_clP finKeys_closed finKeys_alg h ha ?_
  rw [hw.clInit]
  exact ⟨by simp [Cluster.init, dictKeys], by simp [Cluster.init, dictGet]⟩

/-! ### at the end of a run -/

theorem dictGet_of_mem_keys {κ α} [DecidableEq κ] {d : List (κ × α)} {k : κ} (h : k ∈ dictKeys d) :
    ∃ v, dictGet d k = some v := by
  cases hg : dictGet d k with
  | none => exact absurd h ((dictGet_none_iff d k).mp hg)
  | some v => exact ⟨v, rfl⟩

/-- in a finished run (shipped algorithm) that has not crashed the keys of the finished-task map
are the started tasks, each once -/
theorem finished_keys_perm_starts (s0 s : Sys) (hw : WFConfig s0) (ha : s0.alg ≠ .oracle) (h : ReachOk s0 s)
    (hf : s.isFinished = true) (hc : s.crashed = none) : (dictKeys s.cl.finished).Perm s.starts := by
  have hs := reach_inv s0 s hw h
  have hfk := reach_finKeys hw ha h.toReach
  have hfi := reach_finv s0 s hw h hc
  obtain ⟨_, hci, _, _⟩ := (sim_isFinished_iff s).mp hf
  obtain ⟨hrun, _, _⟩ := (cluster_isIdle_iff s.cl).mp hci
  rw [List.perm_ext_iff_of_nodup hfk.1 hs.dg.startsNodup]
  intro t
  constructor
  · intro ht
    obtain ⟨b, hb⟩ := dictGet_of_mem_keys ht
    cases b with
    | false =>
      have := hfk.2 t hb
      rw [hrun] at this; simp at this
    | true => exact hfi.finRan t hb
  · intro ht
    obtain ⟨d, hd, m, c, ph, tot, hdk, _⟩ := hs.dg.startsDw t ht
    rcases hs.dg.dwUsed d hd t m c ph tot hdk with h1 | h1
    · rw [hrun] at h1; simp at h1
    · exact h1

theorem filterMap_row_ids (s : Sys) (l : List Tid) (h : ∀ t ∈ l, ∃ r, s.task? t = some r) :
    (l.filterMap (fun t => (s.task? t).map TaskRec.row)).map (·.id) = l := by
  induction l with
  | nil => rfl
  | cons x rest ih =>
    obtain ⟨r, hr⟩ := h x (by simp)
    rw [List.filterMap_cons, hr]
    simp only [Option.map_some, List.map_cons]
    rw [ih (fun t ht => h t (List.mem_cons_of_mem _ ht))]
    show r.id :: rest = x :: rest
    rw [task?_id hr]

theorem filterMap_row_eq_map (s : Sys) (l : List Tid) (h : ∀ t ∈ l, ∃ r, s.task? t = some r) :
    l.filterMap (fun t => (s.task? t).map TaskRec.row)
      = l.map (fun t => ((s.task? t).map TaskRec.row).getD (default : TaskRec).row) := by
  induction l with
  | nil => rfl
  | cons x rest ih =>
    obtain ⟨r, hr⟩ := h x (by simp)
    rw [List.filterMap_cons, hr]
    simp only [Option.map_some, List.map_cons, hr, Option.getD_some]
    rw [ih (fun t ht => h t (List.mem_cons_of_mem _ ht))]

/-- when the keys of the finished-task map are a permutation of the (distinct) record ids, the two
task tables have the same rows -/
theorem taskTableCl_perm (s : Sys) (hnd : (s.tasks.map (·.id)).Nodup)
    (hp : (dictKeys s.cl.finished).Perm (s.tasks.map (·.id))) : s.taskTableCl.Perm s.taskTable := by
  have hall : ∀ t ∈ dictKeys s.cl.finished, ∃ r, s.task? t = some r := by
    intro t ht
    obtain ⟨r, hr, e⟩ := List.mem_map.mp (hp.subset ht)
    exact ⟨r, by rw [← e]; exact task?_of_mem_nodup hnd hr⟩
  unfold taskTableCl taskTable
  rw [filterMap_row_eq_map s _ hall]
  refine (hp.map _).trans ?_
  rw [List.map_map]
  apply List.Perm.of_eq
  apply List.map_congr_left
  intro r hr
  simp only [Function.comp, task?_of_mem_nodup hnd hr, Option.map_some, Option.getD_some]

end Sys
end Topsim
