/-
  Live5 — the hypotheses of the liveness development and the interface to the kernel part.

  * `LiveCfg env s0`: the configuration hypotheses (well formed, feasible, initially empty full-free
    buffer, H1 = `NoTierCfg`, queue algorithm, batch planning, topological orders) and `NoRaise`.
  * `LiveKernel env s0`: what the kernel part (Live3/Live4) provides: the run never stops, every
    live process is resumed again, the clock passes every bound.
  * `live_step`: one index of the run is one block of a live, enabled process.
  * the monotone predicates the stabilisation argument is about.
-/
import TopsimProofs.Live2
import TopsimProps.C14
import TopsimModel.Feasible
import TopsimProps.L3Order

namespace Topsim

open KState Sys

structure LiveCfg (env : SimEnv) (s0 : Sys) : Prop where
  hw : Sys.WFConfig s0
  feas : Sys.Feasible s0
  hb0 : s0.buf.hot.stored = [] ∧ s0.buf.hot.scheduled = [] ∧ s0.buf.hot.finished = [] ∧
      s0.buf.cold.stored = []
  hfull : s0.buf.size = [] ∧ s0.buf.hot.cur = s0.buf.hot.total ∧ s0.buf.cold.cur = s0.buf.cold.total
  hct : s0.buf.cold.transfer = none
  h1 : Sys.NoTierCfg s0
  alg : s0.alg = .queue
  stat : s0.staticPlan = false
  topo : ∀ o ∈ s0.obs, IsTopo o.wf
  nr : NoRaise env s0

/-- what the kernel part provides (Live3 / Live4) -/
structure LiveKernel (env : SimEnv) (s0 : Sys) : Prop where
  run : ∀ n, SimRun env s0 (simAt env s0 n) ∧ (simAt env s0 n).st.halted = false ∧
    ∃ k1, (simAt env s0 n).step (simHandler env) = some k1
  next : ∀ (n pid : Nat) (p : Proc), (simAt env s0 n).st.proc? pid = some p → p.alive = true →
    ∃ n' e, n ≤ n' ∧ (simAt env s0 n').peek = some e ∧ e.pid = pid ∧ e.time = p.wake ∧
      (simAt env s0 n').st.proc? pid = some p ∧
      ∀ m, n ≤ m → m ≤ n' → (simAt env s0 m).st.proc? pid = some p
  div : ∀ (n T : Nat), ∃ n', n ≤ n' ∧ ∀ x ∈ (simAt env s0 n').heap, ((T : Nat) : Time) ≤ x.time
  minMono : ∀ (n m : Nat) (T : Time), n ≤ m → (∀ x ∈ (simAt env s0 n).heap, T ≤ x.time) →
    ∀ x ∈ (simAt env s0 m).heap, T ≤ x.time
  pidIdx : ∀ n, (simAt env s0 n).st.procs.map (·.pid) = List.range (simAt env s0 n).st.nextPid
  persist : ∀ n m, n ≤ m → ∀ p ∈ (simAt env s0 n).st.procs,
    ∃ p' ∈ (simAt env s0 m).st.procs, p'.pid = p.pid ∧ (p'.alive = true → p.alive = true) ∧ p.pc ≤ p'.pc

section
variable {env : SimEnv} {s0 : Sys}

theorem LiveKernel.reach (K : LiveKernel env s0) (n : Nat) : SimReach env s0 (simAt env s0 n) :=
  (K.run n).1.toReach

/-- **One index of the run is one block.**  The kernel pops the entry `e` of the live process `p`,
due at `e.time = p.wake` and enabled (no live process is due earlier), and the next state is the
state after `resume` with the simulator's oracle. -/
theorem live_step (C : LiveCfg env s0) (K : LiveKernel env s0) (n : Nat) :
    ∃ e p, (simAt env s0 n).peek = some e ∧ (simAt env s0 n).st.proc? e.pid = some p ∧
      p.alive = true ∧ e.time = p.wake ∧ (simAt env s0 n).st.enabled e.pid ∧
      (simAt env s0 n).step (simHandler env) = some (simAt env s0 (n + 1)) ∧
      (simAt env s0 (n + 1)).st =
        ((simAt env s0 n).st.resume e.pid (env.oracle (simAt env s0 n).st)).1 := by
  obtain ⟨_, _, k1, hs⟩ := K.run n
  have h1 : simAt env s0 (n + 1) = k1 := simAt_succ_of_step hs
  obtain ⟨e, hpk, hc⟩ := ot_step_cases C.hw (K.reach n) hs
  rcases hc with ⟨hc, _⟩ | ⟨p, hpp, ha, het, hen, hc⟩
  · exfalso
    have := (K.run (n + 1)).2.1
    rw [h1, hc] at this
    simp at this
  · exact ⟨e, p, hpk, hpp, ha, het, hen, by rw [h1]; exact hs, by rw [h1]; exact hc⟩

theorem LiveCfg.crashed (C : LiveCfg env s0) (n : Nat) : (simAt env s0 n).st.crashed = none := C.nr n

/-- the static attributes of the observation records, from the configuration -/
theorem live_keep0 (C : LiveCfg env s0) (n : Nat) :
    (simAt env s0 n).st.obs.map Obs.stat = s0.obs.map Obs.stat :=
  (simAt_reach env s0 n).keep0 C.hw

end

/-! ### the monotone predicates -/

namespace Sys

/-- the observation has a recorded start (it has been admitted) -/
def PAst (o : Oid) (s : Sys) : Prop := ∃ ob a, s.obs? o = some ob ∧ ob.ast = some a

/-- the observation has left WAITING -/
def PRun (o : Oid) (s : Sys) : Prop := ∃ ob, s.obs? o = some ob ∧ ob.status ≠ .waiting

/-- the observation is FINISHED -/
def PFin (o : Oid) (s : Sys) : Prop := ∃ ob, s.obs? o = some ob ∧ ob.status = .finished

/-- the observation has been handed to the scheduler -/
def PQ (o : Oid) (s : Sys) : Prop := o ∈ s.buf.hot.scheduled ∨ o ∈ s.buf.hot.finished

/-- the observation has been removed from the hot buffer -/
def PRm (o : Oid) (s : Sys) : Prop := o ∈ s.buf.hot.finished

/-- node `node` of the workflow of `o` has been proposed and accepted (its record is no longer
UNSCHEDULED) -/
def PSch (o : Oid) (node : Nat) (s : Sys) : Prop :=
  ∃ c r, s.task? (.wf o c node) = some r ∧ r.status ≠ .unscheduled

end Sys

end Topsim
