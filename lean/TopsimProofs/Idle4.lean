/-
  Idle4 — the task TABLE (the list `s.tasks`, which a monitor walks) against the records every block
  reads (`s.task? t`, the FIRST record with id `t`): what a block does to the list, stamp-wise.

  A block maps the table through a function that keeps ids and treats two records with the same id
  and the same stamps alike (`IdleMap`: every update is `updTask t f`, applied to ALL records with id
  `t`, and `f` writes the stamps as a function of the stamps), or appends records without stamps (the
  ingest provisioner's first block, the scheduler loop planning an observation).  Hence "every record
  of the table carries the stamps of the first record with its id" (`IdleDupOK`) is kept by a map step
  and by an append whose new ids carry no stamp yet.
-/
import TopsimProofs.Idle3
import TopsimProofs.PlanTraj3

namespace Topsim
namespace Sys

/-- an update of a record: keeps the id, writes the stamps as a function of the stamps -/
structure IdleF (f : TaskRec → TaskRec) : Prop where
  id : ∀ r, (f r).id = r.id
  cong : ∀ r r', r.ast = r'.ast → r.aft = r'.aft → (f r).ast = (f r').ast ∧ (f r).aft = (f r').aft

theorem IdleF.of_keep {f : TaskRec → TaskRec}
    (h : ∀ r, (f r).id = r.id ∧ (f r).ast = r.ast ∧ (f r).aft = r.aft) : IdleF f :=
  ⟨fun r => (h r).1, fun r r' e1 e2 =>
    ⟨by rw [(h r).2.1, (h r').2.1, e1], by rw [(h r).2.2, (h r').2.2, e2]⟩⟩

/-- a map of the table: keeps ids, treats records with the same id and stamps alike -/
structure IdleG (g : TaskRec → TaskRec) : Prop where
  id : ∀ r, (g r).id = r.id
  cong : ∀ r r', r.id = r'.id → r.ast = r'.ast → r.aft = r'.aft →
    (g r).ast = (g r').ast ∧ (g r).aft = (g r').aft

def IdleMap (s X : Sys) : Prop := ∃ g : TaskRec → TaskRec, X.tasks = s.tasks.map g ∧ IdleG g

theorem IdleMap.refl (s : Sys) : IdleMap s s :=
  ⟨id, by simp, ⟨fun _ => rfl, fun _ _ _ e1 e2 => ⟨e1, e2⟩⟩⟩

theorem IdleMap.of_eq {s X : Sys} (h : X.tasks = s.tasks) : IdleMap s X :=
  ⟨id, by simp [h], ⟨fun _ => rfl, fun _ _ _ e1 e2 => ⟨e1, e2⟩⟩⟩

theorem IdleMap.trans {a b c : Sys} (h1 : IdleMap a b) (h2 : IdleMap b c) : IdleMap a c := by
  obtain ⟨g1, e1, t1⟩ := h1
  obtain ⟨g2, e2, t2⟩ := h2
  refine ⟨g2 ∘ g1, by rw [e2, e1, List.map_map], ⟨fun r => ?_, fun r r' hid ha hf => ?_⟩⟩
  · show (g2 (g1 r)).id = r.id
    rw [t2.id, t1.id]
  · obtain ⟨k1, k2⟩ := t1.cong r r' hid ha hf
    exact t2.cong (g1 r) (g1 r') (by rw [t1.id, t1.id, hid]) k1 k2

theorem IdleMap.updTask (s : Sys) (t : Tid) (f : TaskRec → TaskRec) (hf : IdleF f) :
    IdleMap s (s.updTask t f) := by
  refine ⟨fun r => if r.id = t then f r else r, rfl, ⟨fun r => ?_, fun r r' hid ha hft => ?_⟩⟩
  · show (if r.id = t then f r else r).id = r.id
    split
    · exact hf.id r
    · rfl
  · show (if r.id = t then f r else r).ast = (if r'.id = t then f r' else r').ast ∧
      (if r.id = t then f r else r).aft = (if r'.id = t then f r' else r').aft
    by_cases h : r.id = t
    · have h' : r'.id = t := by rw [← hid]; exact h
      rw [if_pos h, if_pos h']
      exact hf.cong r r' ha hft
    · have h' : ¬ r'.id = t := by rw [← hid]; exact h
      rw [if_neg h, if_neg h']
      exact ⟨ha, hft⟩

theorem IdleMap.foldl {α} (f : Sys → α → Sys) (hf : ∀ s a, IdleMap s (f s a)) (l : List α) (s : Sys) :
    IdleMap s (l.foldl f s) := by
  induction l generalizing s with
  | nil => exact IdleMap.refl s
  | cons a r ih => exact (hf s a).trans (ih _)

theorem IdleMap.ids {s X : Sys} (h : IdleMap s X) : X.tasks.map (·.id) = s.tasks.map (·.id) := by
  obtain ⟨g, e, t⟩ := h
  rw [e, List.map_map]
  apply List.map_congr_left
  intro r _
  exact t.id r

/-! ### the blocks that rewrite records -/

theorem idle_updateAllocation (mm : Machine) : IdleF (fun r => updateAllocation r mm) :=
  IdleF.of_keep (fun r => by
    unfold updateAllocation
    simp only
    split <;> exact ⟨rfl, rfl, rfl⟩)

theorem idle_dwStartF (now : Time) (dur : Nat) : IdleF (dwStartF now dur) :=
  ⟨fun _ => rfl, fun _ _ _ e2 => ⟨rfl, e2⟩⟩

theorem idle_dwEndF (now : Time) (total : Nat) : IdleF (dwEndF now total) := by
  refine ⟨fun r => (dwEndF_spec now total r).1, fun r r' e1 _ => ⟨?_, ?_⟩⟩
  · rw [(dwEndF_spec now total r).2.2.2.1, (dwEndF_spec now total r').2.2.2.1, e1]
  · rw [(dwEndF_spec now total r).2.2.2.2.2, (dwEndF_spec now total r').2.2.2.2.2]

theorem idle_status (st : TStatus) : IdleF (fun r : TaskRec => { r with status := st }) :=
  IdleF.of_keep (fun _ => ⟨rfl, rfl, rfl⟩)

theorem idleMap_atStart (s : Sys) (now : Time) (pc : Nat) (oid : Oid) : IdleMap s (atStart s now pc oid) := by
  unfold atStart
  split
  · have h1 : IdleMap s (s.updPlan oid (fun p => { p with ast := some (natNow now) })) := IdleMap.of_eq rfl
    refine h1.trans ?_
    have h2 : ∀ S : Sys, ∀ l : List Tid, IdleMap S (l.foldl
        (fun (s : Sys) t => s.updTask t (fun r => { r with offset := natNow now })) S) := by
      intro S l
      apply IdleMap.foldl
      intro s1 t
      exact IdleMap.updTask s1 t (fun r : TaskRec => { r with offset := natNow now })
        (IdleF.of_keep (fun _ => ⟨rfl, rfl, rfl⟩))
    exact (h2 _ _).trans (IdleMap.of_eq rfl)
  · exact IdleMap.refl s

theorem idleMap_processOne (now : Time) (oid : Oid) (st : PcsSt) (t : Tid) :
    IdleMap st.s (processOne now oid st t).s := by
  have hua : ∀ s1, UA st.s t s1 → IdleMap st.s s1 := by
    intro s1 h
    rcases h with rfl | ⟨mm, rfl⟩
    · exact IdleMap.refl _
    · exact IdleMap.updTask st.s t _ (idle_updateAllocation mm)
  rcases processOne_cases now oid st t with ⟨s1, h1, hs, _⟩ | ⟨s1, m, r, cross, h1, _, _, _, hs, _⟩
  · rw [hs]; exact hua s1 h1
  · rw [hs]
    refine (hua s1 h1).trans ?_
    have h2 : IdleMap s1 (s1.spawn (.allocTask t m cross (some oid) false 0) now).1 := IdleMap.of_eq rfl
    exact h2.trans (IdleMap.updTask _ t (fun r : TaskRec => { r with status := .scheduled })
      (idle_status .scheduled))

theorem idleMap_processCurrentSchedule (a : Sys) (now : Time) (oid : Oid) (sched pairs : List (Tid × Mid)) :
    IdleMap a (processCurrentSchedule a now oid sched pairs).s := by
  unfold processCurrentSchedule
  simp only
  generalize ((dictKeys sched).mergeSort _) = l
  have : ∀ (l : List Tid) (st : PcsSt), IdleMap st.s (l.foldl (processOne now oid) st).s := by
    intro l
    induction l with
    | nil => intro st; exact IdleMap.refl _
    | cons x r ih => intro st; exact (idleMap_processOne now oid st x).trans (ih _)
  exact this l { s := a, schedule := sched, pairs := pairs, curr := [] }

theorem idleMap_allocTasksIter (a : Sys) (now : Time) (orc : Oracle) (oid : Oid)
    (sc pa : List (Tid × Mid)) (po : List Tid) : IdleMap a (a.allocTasksIter now orc oid sc pa po).1 := by
  have h1 : IdleMap a (a.updateCurrentPlan oid) := IdleMap.of_eq (updateCurrentPlan_core a oid).tasks
  have h3 : ∀ out, IdleMap a (atS3 (a.updateCurrentPlan oid) out oid) := fun out =>
    h1.trans (IdleMap.of_eq (atS3_tasks _ out oid))
  have hout := allocTasksIter_out a now orc oid sc pa po
  generalize a.allocTasksIter now orc oid sc pa po = r at hout ⊢
  cases hout with
  | noPlan _ => exact h1
  | algErr _ _ _ _ => exact h1
  | finish plan out _ _ _ _ _ _ => exact (h3 out).trans (IdleMap.of_eq rfl)
  | finishBad plan out _ _ _ _ _ _ => exact (h3 out).trans (IdleMap.of_eq rfl)
  | finishWait plan out _ _ _ _ _ => exact (h3 out).trans (IdleMap.of_eq rfl)
  | idle plan out _ _ _ _ => exact h3 out
  | alloc plan out y _ _ _ _ =>
    exact (h3 out).trans (idleMap_processCurrentSchedule _ now oid _ _)

theorem idleMap_allocTasksBlock (s : Sys) (now : Time) (orc : Oracle) (pc : Nat)
    (oid : Oid) (sc pa : List (Tid × Mid)) (po : List Tid) (fn : Bool) :
    IdleMap s (s.allocTasksBlock now orc pc oid sc pa po fn).1 := by
  cases fn with
  | true => rw [allocTasksBlock_fin]; exact IdleMap.refl s
  | false =>
    rw [allocTasksBlock_eq]
    exact (idleMap_atStart s now pc oid).trans (idleMap_allocTasksIter _ now orc oid sc pa po)

theorem idleMap_allocTask (s : Sys) (hpw : PW s) (now : Time) (t : Tid) (m : Mid) (preds : List Tid)
    (obs : Option Oid) (ing : Bool) (ret : Nat) : IdleMap s (s.allocTaskBlock now t m preds obs ing ret).1 := by
  rcases allocTaskBlock_cases s hpw now t m preds obs ing ret with
    ⟨_, e, _, heq⟩ | ⟨_, _, heq⟩ | ⟨_, _, heq⟩ | ⟨_, _, e, _, heq⟩ | ⟨_, _, _, heq⟩
  · rw [heq]; exact IdleMap.of_eq rfl
  · rw [heq]
    have h1 : IdleMap s ({ s with cl := (s.cl.allocBegin t m obs ing).1 } : Sys) := IdleMap.of_eq rfl
    refine (h1.trans (IdleMap.updTask _ t (fun r : TaskRec => { r with status := .scheduled })
      (idle_status .scheduled))).trans (IdleMap.of_eq rfl)
  · rw [heq]; exact IdleMap.refl s
  · rw [heq]; exact IdleMap.of_eq rfl
  · rw [heq]
    have h1 : IdleMap s ({ s with cl := (s.cl.allocEnd t m obs ing).1 } : Sys) := IdleMap.of_eq rfl
    exact h1.trans (IdleMap.updTask _ t (fun r : TaskRec => { r with status := .finished })
      (idle_status .finished))

theorem idleMap_doWork (s : Sys) (now : Time) (orc : Oracle) (t : Tid) (m : Mid) (preds : List Tid)
    (ph tot : Nat) : IdleMap s (s.doWorkBlock now orc t m preds ph tot).1 := by
  have hsh := doWorkBlock_shape s now orc t m preds ph tot
  generalize s.doWorkBlock now orc t m preds ph tot = X at hsh
  cases hsh with
  | raised _ _ => exact IdleMap.refl s
  | wait _ _ _ _ => exact IdleMap.refl s
  | start r mm dur tot' _ _ _ =>
    exact (IdleMap.updTask s t (dwStartF now dur) (idle_dwStartF now dur)).trans (IdleMap.of_eq rfl)
  | finish _ =>
    exact (IdleMap.updTask s t (dwEndF now tot) (idle_dwEndF now tot)).trans (IdleMap.of_eq rfl)

/-! ### the records that are appended carry no stamp -/

theorem idle_planRecs_stamps (o : Obs) (c : Nat) (stat : Bool) (rows : List (Nat × Mid × Nat × Nat))
    (recs : List TaskRec) (plan : Plan)
    (h : (recs, plan) = (if stat = true then staticPlanOf o c rows else batchPlan o c)) :
    ∀ r ∈ recs, r.ast = none ∧ r.aft = none := by
  split at h
  · injection h with h1 _
    subst h1
    intro r hr
    simp only [List.mem_map] at hr
    obtain ⟨⟨n, mid, est, eft⟩, _, rfl⟩ := hr
    exact ⟨rfl, rfl⟩
  · injection h with h1 _
    subst h1
    intro r hr
    simp only [List.mem_map] at hr
    obtain ⟨n, _, rfl⟩ := hr
    exact ⟨rfl, rfl⟩

theorem idle_provIngest_stamps (s : Sys) (now : Time) (pc : Nat) (oid : Oid) (d : Nat) :
    ∀ r ∈ (s.provIngestBlock now pc oid d).1.tasks, r ∈ s.tasks ∨ (r.ast = none ∧ r.aft = none) := by
  unfold provIngestBlock
  split
  · simp only
    generalize hr : s.cl.provisionIngest d oid = r
    obtain ⟨cl1, e1, pairs⟩ := r
    cases e1 with
    | some e => intro r hr'; exact Or.inl hr'
    | none =>
      simp only
      generalize hrecs : List.map (fun x : Mid × Tid => ({ id := x.2, duration := (match s.obs? oid with | some o => o.duration | none => 0), status := TStatus.scheduled } : TaskRec)) pairs = recs
      obtain ⟨_, _, _, gtasks, _⟩ := foldSpawn_spec
        (fun x : Mid × Tid => PK.allocTask x.2 x.1 [] (some oid) true 0) now pairs
        ({ s with cl := cl1, tasks := s.tasks ++ recs } : Sys)
      intro r hr'
      rw [gtasks] at hr'
      rcases List.mem_append.mp hr' with h1 | h1
      · exact Or.inl h1
      · right
        rw [← hrecs] at h1
        obtain ⟨x, _, rfl⟩ := List.mem_map.mp h1
        exact ⟨rfl, rfl⟩
  · intro r hr'; exact Or.inl hr'

/-! ### every block -/

/-- what a block does to the record table, stamp-wise -/
theorem idle_block_tasksShape (s : Sys) (hpw : PW s) (p : Proc) (orc : Oracle) :
    IdleMap s (s.block p orc).1 ∨
    (∃ o d recs, p.k = .provIngest o d ∧ p.pc = 0 ∧ (s.block p orc).1.tasks = s.tasks ++ recs ∧
      (∀ r ∈ recs, ∃ i, i < d ∧ r.id = .ingest o i) ∧
      ∀ r ∈ recs, r ∈ s.tasks ∨ (r.ast = none ∧ r.aft = none)) ∨
    (p.k = .schedLoop ∧ ∃ (o : Obs) (recs : List TaskRec), (s.block p orc).1.tasks = s.tasks ++ recs ∧
      (∀ r ∈ recs, ∃ n, r.id = Tid.wf o.id (natNow p.wake) n) ∧
      ∀ r ∈ recs, r.ast = none ∧ r.aft = none) := by
  cases hk : p.k with
  | schedLoop =>
    rw [block_schedLoop orc hk]
    rcases schedLoopBlock_buf s p.wake orc with ⟨_, _, ht, _, _⟩ | ⟨oid, o, recs, plan, hnx, hob, hrp, _, hpl, ht, _⟩
    · exact Or.inl (IdleMap.of_eq ht)
    · refine Or.inr (Or.inr ⟨rfl, o, recs, ht, ?_, ?_⟩)
      · intro r hr
        obtain ⟨n, en, _⟩ := (planOf_attrs o (natNow p.wake) s.staticPlan orc.plan recs plan hrp).2.2.2.2.2 r hr
        exact ⟨n, en⟩
      · exact idle_planRecs_stamps o (natNow p.wake) s.staticPlan orc.plan recs plan hrp
  | provIngest o d =>
    rw [block_provIngest orc hk]
    obtain ⟨recs, ht, hnd, hid, hpc⟩ := provIngestBlock_recs s p.wake p.pc o d
    by_cases he : recs = []
    · left; rw [he] at ht; exact IdleMap.of_eq (by simpa using ht)
    · refine Or.inr (Or.inl ⟨o, d, recs, rfl, hpc he, ht, hid, ?_⟩)
      intro r hr
      exact idle_provIngest_stamps s p.wake p.pc o d r (by rw [ht]; exact List.mem_append_right _ hr)
  | allocTask t m preds obs ing ret =>
    rw [block_allocTask orc hk]; exact Or.inl (idleMap_allocTask s hpw _ _ _ _ _ _ _)
  | doWork t m preds ph tot =>
    rw [block_doWork orc hk]; exact Or.inl (idleMap_doWork s _ orc _ _ _ _ _)
  | allocTasks o sc pa po fn =>
    rw [block_allocTasks orc hk]; exact Or.inl (idleMap_allocTasksBlock s _ orc _ _ _ _ _ _)
  | _ =>
    exact Or.inl (IdleMap.of_eq (block_tasks s p orc (by simp [hk, PK.tag]) (by simp [hk, PK.tag])
      (by simp [hk, PK.tag]) (by simp [hk, PK.tag]) (by simp [hk, PK.tag])))

/-! ### every record of the table carries the stamps of the first record with its id -/

def IdleDupOK (ts : List TaskRec) : Prop :=
  ∀ r ∈ ts, ∃ r0, ts.find? (fun x => decide (x.id = r.id)) = some r0 ∧ r0.ast = r.ast ∧ r0.aft = r.aft

theorem idle_find?_map (ts : List TaskRec) (g : TaskRec → TaskRec) (hid : ∀ r, (g r).id = r.id) (k : Tid) :
    (ts.map g).find? (fun x => decide (x.id = k)) = (ts.find? (fun x => decide (x.id = k))).map g := by
  induction ts with
  | nil => rfl
  | cons x r ih =>
    simp only [List.map_cons, List.find?_cons, hid]
    split
    · rfl
    · exact ih

theorem IdleDupOK.map {ts : List TaskRec} (h : IdleDupOK ts) {g : TaskRec → TaskRec} (hg : IdleG g) :
    IdleDupOK (ts.map g) := by
  intro r' hr'
  obtain ⟨r, hr, rfl⟩ := List.mem_map.mp hr'
  obtain ⟨r0, h0, e1, e2⟩ := h r hr
  have hid0 : r0.id = r.id := by simpa using List.find?_some h0
  refine ⟨g r0, ?_, ?_⟩
  · rw [hg.id r, idle_find?_map ts g hg.id, h0]; rfl
  · exact hg.cong r0 r hid0 e1 e2

theorem IdleDupOK.append {ts recs : List TaskRec} (h : IdleDupOK ts)
    (hnew : ∀ r ∈ recs, r.ast = none ∧ r.aft = none)
    (hold : ∀ r ∈ recs, ∀ r0, ts.find? (fun x => decide (x.id = r.id)) = some r0 →
      r0.ast = none ∧ r0.aft = none) : IdleDupOK (ts ++ recs) := by
  intro r hr
  rw [List.find?_append]
  rcases List.mem_append.mp hr with h1 | h1
  · obtain ⟨r0, h0, e1, e2⟩ := h r h1
    exact ⟨r0, by rw [h0]; rfl, e1, e2⟩
  · cases h0 : ts.find? (fun x => decide (x.id = r.id)) with
    | some r0 =>
      obtain ⟨g1, g2⟩ := hold r h1 r0 h0
      exact ⟨r0, rfl, by rw [g1, (hnew r h1).1], by rw [g2, (hnew r h1).2]⟩
    | none =>
      cases h2 : recs.find? (fun x => decide (x.id = r.id)) with
      | none =>
        have := List.find?_eq_none.mp h2 r h1
        simp at this
      | some r1 =>
        have hm := List.mem_of_find?_eq_some h2
        exact ⟨r1, rfl, by rw [(hnew r1 hm).1, (hnew r h1).1], by rw [(hnew r1 hm).2, (hnew r h1).2]⟩

end Sys
end Topsim
