/-
  LiveP17f — the declarations of Live17f.lean that depend on the configuration structures, restated for
  the plan-following configurations (`LivePCfg`, `NcPCfg`, `L7PLib`); the proofs are those of Live17f.lean.
  New: `run()` does not raise KeyError (`nc_planRun_ok_P`, from the invariant `NcM` of LiveP4).
-/
import TopsimProofs.LiveP4

namespace Topsim

namespace Sys

open Cluster

theorem nc_allocTasksIter_nr_P (a : Sys) (now : Time) (orc : Oracle) (oid : Oid) (sc pa : List (Tid × Mid))
    (po : List Tid) (hplan : ((a.updateCurrentPlan oid).plan? oid).isSome = true)
    (halg : PlanAlg (a.updateCurrentPlan oid).alg) (hq : oid ∈ (a.updateCurrentPlan oid).queue)
    (hview : ∀ plan, (a.updateCurrentPlan oid).plan? oid = some plan → ∀ t ∈ plan.tasks,
      ((a.updateCurrentPlan oid).taskView t).status = .unscheduled →
      ∃ m, ((a.updateCurrentPlan oid).taskView t).machine = .ok m)
    (herr : ∀ plan out, (a.updateCurrentPlan oid).plan? oid = some plan →
      (a.updateCurrentPlan oid).runAlgorithm orc plan sc po = .ok out → out.schedule.isEmpty = false →
      (processCurrentSchedule (atS3 (a.updateCurrentPlan oid) out oid) now oid out.schedule pa).err = none) :
    ∀ err, (a.allocTasksIter now orc oid sc pa po).2.2 ≠ .raised err := by
  intro err
  obtain ⟨plan, hpl⟩ := Option.isSome_iff_exists.mp hplan
  unfold allocTasksIter
  simp only
  rw [hpl]
  simp only
  cases hrun : (a.updateCurrentPlan oid).runAlgorithm orc plan sc po with
  | error e =>
    exfalso
    obtain ⟨out, hout⟩ := nc_planRun_ok_P _ orc plan sc po halg (hview plan hpl)
    rw [hout] at hrun
    cases hrun
  | ok out =>
    simp only
    have hs3 : (if out.status = WStatus.delayed then
        { (({ (a.updateCurrentPlan oid) with cl := out.cl }).updPlan oid (fun p => { p with status := out.status })) with schedDelayed := true }
        else ({ (a.updateCurrentPlan oid) with cl := out.cl }).updPlan oid (fun p => { p with status := out.status }))
        = atS3 (a.updateCurrentPlan oid) out oid := rfl
    rw [hs3]
    by_cases hemp : out.schedule.isEmpty = true
    · by_cases hfin : out.status = .finished
      · simp only [hemp, hfin, and_self, if_true]
        have hs4 : ((atS3 (a.updateCurrentPlan oid) out oid).addSch ⟨natNow now, oid, .allocStopped⟩).addBuf
            ⟨natNow now, oid, .bufRemoved⟩ = atS4 (atS3 (a.updateCurrentPlan oid) out oid) (natNow now) oid := rfl
        rw [hs4]
        cases hrem : ((atS4 (atS3 (a.updateCurrentPlan oid) out oid) (natNow now) oid).buf.remove oid) with
        | mk b1 flag =>
          cases flag with
          | true =>
            simp only
            have hq' : oid ∈ (atS4 (atS3 (a.updateCurrentPlan oid) out oid) (natNow now) oid).queue := by
              show oid ∈ (atS3 (a.updateCurrentPlan oid) out oid).queue
              rw [atS3_queue]; exact hq
            simp only [hq', if_true]
            simp
          | false => simp
      · simp only [hemp, hfin, and_false, if_false, if_true]
        simp
    · have hemp' : out.schedule.isEmpty = false := by simpa using hemp
      simp only [hemp', Bool.false_eq_true, false_and, if_false]
      rw [herr plan out hpl hrun hemp']
      simp

/-- the machine lookup of a record that names a machine of the cluster by id -/
theorem taskView_machine_of_onPlan_P {s : Sys} {t : Tid} {m : Mid} (h : OnPlan s t m)
    (hm : (s.machine? m).isSome = true) : (s.taskView t).machine = .ok m := by
  obtain ⟨r, hr, hp, ho⟩ := h
  unfold taskView
  rw [hr]
  simp only [ho, hp, hm, Bool.false_eq_true, if_false, if_true]

theorem nc_allocTasks_nr_P {s : Sys} (hs : SInv s) (hri : RI s) (hnp : NcP s) (hpr : PR s) (hpx : PX s)
    (hst : ST s) (hfi : FI s) (halg : PlanAlg s.alg) (hmo : NcM s)
    (hmach : ∀ m ∈ s.cl.machines, ∃ mm, s.machine? m = some mm ∧ 0 < mm.cpu ∧ 0 < mm.bw)
    {p : Proc} (hp : p ∈ s.procs) (ha : p.alive = true) {oid : Oid} {sc pa : List (Tid × Mid)}
    {po : List Tid} {fn : Bool} (hk : p.k = .allocTasks oid sc pa po fn) (orc : Oracle) :
    ∀ err, (s.block p orc).2.2 ≠ .raised err := by
  rw [block_allocTasks orc hk]
  cases fn with
  | true =>
    rw [allocTasksBlock_fin]
    intro err h; cases h
  | false =>
    rw [allocTasksBlock_eq]
    obtain ⟨U, hU⟩ := hs.ci
    obtain ⟨h1, e_procs, e_np, e_q, e_cl, e_alg, e_ts⟩ := hri.pruned p.wake p.pc oid
    have hp1 : p ∈ ((atStart s p.wake p.pc oid).updateCurrentPlan oid).procs := by rw [e_procs]; exact hp
    have hinv1 : Cluster.Inv ((atStart s p.wake p.pc oid).updateCurrentPlan oid).cl U := by rw [e_cl]; exact hU.inv
    obtain ⟨hq1, hpl1⟩ := h1.atsQ p hp1 ha oid sc pa po hk
    have halg1 : PlanAlg ((atStart s p.wake p.pc oid).updateCurrentPlan oid).alg := by rw [e_alg]; exact halg
    have hno1 : ((atStart s p.wake p.pc oid).updateCurrentPlan oid).alg ≠ .oracle := halg1.noOracle
    -- the states: `s`, the state `s1` in which the algorithm runs, the state `a3` in which the loop starts
    have hQ01 : QuietB s ((atStart s p.wake p.pc oid).updateCurrentPlan oid) :=
      (quietB_atStart s p.wake p.pc oid).trans (quietB_updateCurrentPlan _ oid)
    have hst1 : ST ((atStart s p.wake p.pc oid).updateCurrentPlan oid) := hQ01.st hst
    have hm1 : ((atStart s p.wake p.pc oid).updateCurrentPlan oid).machines = s.machines :=
      (updateCurrentPlan_machs _ oid).trans (atStart_machs _ _ _ _)
    have hK01 : PlanKeep s ((atStart s p.wake p.pc oid).updateCurrentPlan oid) :=
      (planKeep_atStart s p.wake p.pc oid).trans (PlanKeep.of_eq (updateCurrentPlan_core _ oid).tasks)
    refine nc_allocTasksIter_nr_P _ _ _ _ _ _ _ hpl1 halg1 hq1 ?_ ?_
    · intro plan hplan t ht hu
      obtain ⟨pl0, hpl0⟩ := Option.isSome_iff_exists.mp (hri.atsQ p hp ha oid sc pa po hk).2
      obtain ⟨pl1, hpl1', _, _, e3, _⟩ := l7_s1_plan s p.wake p.pc oid hpl0
      rw [hpl1'] at hplan
      injection hplan with hplan
      subst hplan
      have ht0 := ((e3 t).mp ht).1
      have hu0 : tstat s t = .unscheduled := by
        have : tstat ((atStart s p.wake p.pc oid).updateCurrentPlan oid) t = .unscheduled := hu
        rw [(updateCurrentPlan_tstat _ oid t).trans (atStart_tstat s p.wake p.pc oid t)] at this
        exact this
      obtain ⟨m, hon, hmm⟩ := hmo.mo pl0 (plan?_mem hpl0).1 t ht0 hu0
      exact ⟨m, taskView_machine_of_onPlan_P (hon.keep hK01) (by rw [machine?_congr hm1]; exact hmm)⟩
    intro plan out hplan hrun hemp
    generalize hs1 : (atStart s p.wake p.pc oid).updateCurrentPlan oid = s1 at *
    obtain ⟨h3, _, _, g4, g5, _⟩ := h1.nc_afterQueue_P hinv1 hp1 ha hk plan hplan out orc halg1 hrun
    have hsched := nc_planRun_avail_P s1 orc plan sc po out halg1 hrun
    have hQ13 : QuietB s1 (atS3 s1 out oid) :=
      quietB_atS3 s1 out oid (runAlgorithm_finished_eq s1 orc plan sc po out hno1 hrun)
    have hQ03 : QuietB s (atS3 s1 out oid) := hQ01.trans hQ13
    have hprop := proposals_ready hst1 hno1 orc oid plan hplan sc po out hrun
    apply nc_pcs_err _ _ _ _ _ g4
    intro t ht
    -- the entry of the schedule
    have hsome : ∃ m, dictGet out.schedule t = some m := by
      cases hd : dictGet out.schedule t with
      | none => exact absurd ht ((dictGet_none_iff _ _).mp hd)
      | some m => exact ⟨m, rfl⟩
    obtain ⟨m, hm⟩ := hsome
    have hmem : (t, m) ∈ out.schedule := dictGet_some_mem hm
    -- its machine
    have hmc : m ∈ s.cl.machines := by
      rcases hsched (t, m) hmem with h2 | h2
      · exact hnp.scM p hp oid sc pa po false hk (t, m) h2
      · rw [e_cl] at h2
        exact nc_avail_machine hU.inv h2
    obtain ⟨mm, hmm, hcpu, hbw⟩ := hmach m hmc
    have hmm3 : (atS3 s1 out oid).machine? m = some mm := by
      rw [machine?_congr ((atS3_machs s1 out oid).trans hm1)]; exact hmm
    -- its record
    have hrdy : Rdy (atS3 s1 out oid) t := by
      rcases hprop t ht with h2 | h2
      · exact hQ03.rdy (hpr.schedRdy p hp oid sc pa po false hk t h2)
      · exact hQ13.rdy h2.1
    obtain ⟨r3, hr3, hpreds⟩ := hrdy
    obtain ⟨hpt, hun⟩ := g5 t ht
    have hstat : r3.status = .unscheduled := by
      have h2 : tstat (atS3 s1 out oid) t = .unscheduled := by rw [atS3_tstat]; exact hun
      rw [tstat_eq, hr3] at h2
      exact h2
    obtain ⟨c, n, htwf⟩ := planTasks_wf h1.pt hpt
    -- the record in `s`
    have hrs : ∃ rs, s.task? t = some rs ∧ rs.preds = r3.preds := by
      rcases hQ03.task.bwd hr3 with ⟨rs, hrs, hkk⟩ | ⟨h0, _⟩
      · exact ⟨rs, hrs, hkk.shape.preds.symm⟩
      · exfalso
        have := hQ03.newIng t r3 h0 hr3
        rw [htwf] at this
        simp [Tid.isIngest] at this
    obtain ⟨rs, hrs, hrsp⟩ := hrs
    refine ⟨m, r3, mm, hm, hr3, hmm3, hcpu, hbw, hstat, ?_⟩
    intro q hq
    obtain ⟨hqw, hqf⟩ := hpreds q hq
    have hqf0 : FinT s q := (finT_congr hQ03.fin q).mp hqf
    -- the predecessor has run: it has a body, hence an allocation process
    have hstart := hfi.finRan q hqf0
    obtain ⟨d, hd, md, pd, phd, totd, hdk, _⟩ := hs.dg.startsDw q hstart
    obtain ⟨a, ha1, m', preds', obs, ing, ret, hak⟩ := hnp.dwAT d hd _ _ _ _ _ hdk
    cases ing with
    | true =>
      exfalso
      have := hnp.atIng a ha1 _ _ _ _ _ hak
      rw [isWf_not_ingest hqw] at this
      cases this
    | false =>
      obtain ⟨o1, c1, n1, e1, e2⟩ := hpx.atObs a ha1 _ _ _ _ _ hak
      obtain ⟨u, e3⟩ := hpx.predObs t rs hrs oid c n htwf q (by rw [hrsp]; exact hq)
      rw [e2] at e3
      injection e3 with e4 _ _
      subst e4
      subst e1
      exact hnp.atPairs a ha1 q m' preds' o1 ret hak p hp ha sc pa po hk

end Sys

end Topsim

