/-
  Driver — line-protocol driver of the executable model.
  One JSON command per input line, one output line per command.
  Run with `lake env lean --run Driver.lean` or as the compiled `driver` exe.
-/
import Lean.Data.Json
import TopsimModel.Procs
import TopsimModel.Sim
import TopsimModel.Delay
import TopsimModel.Config

open Lean Topsim

namespace Drv

def jnat (j : Json) (k : String) (d : Nat := 0) : Nat :=
  match j.getObjVal? k with
  | .ok v => (v.getNat?.toOption).getD d
  | .error _ => d

def jint (j : Json) (k : String) (d : Int := 0) : Int :=
  match j.getObjVal? k with
  | .ok v => (v.getInt?.toOption).getD d
  | .error _ => d

def jstr (j : Json) (k : String) (d : String := "") : String :=
  match j.getObjVal? k with
  | .ok v => (v.getStr?.toOption).getD d
  | .error _ => d

def jbool (j : Json) (k : String) (d : Bool := false) : Bool :=
  match j.getObjVal? k with
  | .ok v => (v.getBool?.toOption).getD d
  | .error _ => d

def jarr (j : Json) (k : String) : Array Json :=
  match j.getObjVal? k with
  | .ok v => (v.getArr?.toOption).getD #[]
  | .error _ => #[]

def jhas (j : Json) (k : String) : Bool :=
  match j.getObjVal? k with
  | .ok .null => false
  | .ok _ => true
  | .error _ => false

def asNat (j : Json) : Nat := (j.getNat?.toOption).getD 0
def asInt (j : Json) : Int := (j.getInt?.toOption).getD 0
def asArr (j : Json) : Array Json := (j.getArr?.toOption).getD #[]

/-- a rational given as [num, den] or as an integer -/
def asRat (j : Json) : Rat :=
  match j.getArr? with
  | .ok a => if a.size = 2 then (asInt a[0]! : Rat) / (asInt a[1]! : Rat) else 0
  | .error _ => (asInt j : Rat)

/-- task ids: ["i",o,i] | ["w",o,clock,node] | ["r",n] -/
def asTid (j : Json) : Tid :=
  let a := asArr j
  match (a[0]!.getStr?.toOption).getD "" with
  | "i" => .ingest (asNat a[1]!) (asNat a[2]!)
  | "w" => .wf (asNat a[1]!) (asNat a[2]!) (asNat a[3]!)
  | _ => .raw (asNat a[1]!)

def asOptNat (j : Json) : Option Nat :=
  match j with
  | .null => none
  | v => some (asNat v)

def showTid : Tid → String
  | .ingest o i => s!"i{o}.{i}"
  | .wf o c n => s!"w{o}.{c}.{n}"
  | .raw n => s!"r{n}"

def showRat (r : Rat) : String :=
  if r.den = 1 then toString r.num else s!"{r.num}/{r.den}"

def showOptRat : Option Rat → String
  | none => "-"
  | some r => showRat r

def showOptNat : Option Nat → String
  | none => "-"
  | some n => toString n

def showList {α} (f : α → String) (l : List α) : String :=
  "[" ++ ",".intercalate (l.map f) ++ "]"

def showBool (b : Bool) : String := if b then "T" else "F"

def showErr (e : Option Err) : String :=
  match e with
  | none => "ok"
  | some e => e.name

def showCluster (c : Cluster) : String :=
  let idle := showList (fun (p : Oid × List Mid) => s!"{p.1}:{showList toString p.2}") c.idle
  let fin := showList (fun (p : Tid × Bool) => s!"{showTid p.1}:{showBool p.2}") c.finished
  s!"av={showList toString c.available} in={showList toString c.ingest} oc={showList toString c.occupied} idle={idle} run={showList showTid c.running} fin={fin} u=[{c.uAvail},{c.uIngest},{c.uRunning},{c.uFinished}] np={c.numProv}"

def showBuffer (b : Buffer) : String :=
  let sizes := showList (fun (p : Oid × Int) => s!"{p.1}:{p.2}") ((b.size.filter (fun p => p.2 != 0)).mergeSort (fun a b => a.1 ≤ b.1))
  s!"hot={b.hot.cur}/{b.hot.total} hs={showList toString b.hot.stored} ht={showOptNat b.hot.transfer} hsch={showList toString b.hot.scheduled} hfin={showList toString b.hot.finished} cold={b.cold.cur}/{b.cold.total} cs={showList toString b.cold.stored} ct={showOptNat b.cold.transfer} dltt={b.dltt} st={showList toString b.storedTimes} sz={sizes}"

def showStatus : RunStatus → String
  | .waiting => "W" | .running => "R" | .finished => "F"

def showTStatus : TStatus → String
  | .unscheduled => "U" | .scheduled => "S" | .running => "R" | .finished => "F"

def tidKey : Tid → (Nat × Nat × Nat × Nat)
  | .ingest o i => (0, o, i, 0)
  | .wf o c n => (1, o, c, n)
  | .raw n => (2, n, 0, 0)

def tidLe (a b : Tid) : Bool :=
  let x := tidKey a; let y := tidKey b
  if x.1 != y.1 then x.1 ≤ y.1 else
  if x.2.1 != y.2.1 then x.2.1 ≤ y.2.1 else
  if x.2.2.1 != y.2.2.1 then x.2.2.1 ≤ y.2.2.1 else x.2.2.2 ≤ y.2.2.2

def showTask (r : TaskRec) : String :=
  s!"{showTid r.id}:{showTStatus r.status}:{showOptRat r.ast}:{showOptRat r.aft}:{r.duration}:{showBool r.delayFlag}:{r.delayOffset}"

def showEvKind : EvKind → String
  | .telStarted => "ts" | .telFinished => "tf" | .bufAdded => "ba" | .bufRemoved => "br"
  | .queueAdded => "qa" | .queueRemoved => "qr" | .allocStarted => "as" | .allocStopped => "ao"
  | .transferStarted => "xs" | .transferStopped => "xo"

def showEvent (e : Event) : String := s!"{e.time}.{e.obs}.{showEvKind e.kind}"

def showRow (r : Row) : String :=
  s!"{r.available},{r.ingest},{r.running},{r.finished},{r.provisioned},{r.hot},{r.cold},{r.stored},{r.waiting},{r.obsFinished},{r.obsDelayed},{r.queue},{showBool r.delayed},{r.delayOffset}"

def showSys (s : Sys) : String :=
  let obs := showList (fun (o : Obs) => s!"{o.id}:{showStatus o.status}:{showOptNat o.ast}") s.obs
  let tasks := showList showTask (s.tasks.mergeSort (fun a b => tidLe a.id b.id))
  let lastRow := match s.rows.getLast? with | some r => showRow r | none => "-"
  s!"{showCluster s.cl} | {showBuffer s.buf} | use={s.telUse} ts={showBool s.telStatus} obs={obs} | q={showList toString s.queue} pi={s.provIngest} sd={showBool s.schedDelayed} do={s.delayOffset} | tasks={tasks} | ev={showList showEvent s.telEvents}{showList showEvent s.schEvents}{showList showEvent s.bufEvents} log={s.log.length} rows={s.rows.length} last={lastRow} | crashed={showErr s.crashed}"

def showYield : Yield → String
  | .timeout d => s!"timeout {showRat d}"
  | .done => "done"
  | .raised e => s!"raise {e.name}"

/-! ### building a Sys from a spec -/

def parseWorkflow (j : Json) : Workflow :=
  { nodes := (jarr j "nodes").toList.map (fun n => (jnat n "id", jnat n "comp", jnat n "task_data")),
    edges := (jarr j "edges").toList.map (fun e => let a := asArr e; (asNat a[0]!, asNat a[1]!, asNat a[2]!)),
    topo := (jarr j "topo").toList.map asNat }

def parseAlg (j : Json) : AlgKind :=
  match jstr j "kind" with
  | "batch" =>
    let split : Option (List (Oid × Nat × Nat)) :=
      if jhas j "split" then
        some ((jarr j "split").toList.map (fun e => let a := asArr e; (asNat a[0]!, asNat a[1]!, asNat a[2]!)))
      else none
    .batch (jnat j "partitions" 1) (jnat j "min" 1) split
  | "queue" => .queue
  | "dynamic" => .dynamic
  | "greedy" => .greedy
  | _ => .oracle

def parseSys (j : Json) : Sys :=
  let machines : List Machine := (jarr j "machines").toList.map
    (fun m => { id := jnat m "id", cpu := jnat m "cpu", bw := jnat m "bw" })
  let obs : List Obs := (jarr j "observations").toList.map (fun o =>
    { id := jnat o "id", est := jnat o "start", duration := jnat o "duration",
      demand := jnat o "demand", rate := jint o "rate", ingestDemand := jnat o "ingest_demand",
      wf := parseWorkflow ((o.getObjVal? "workflow").toOption.getD Json.null) })
  { machines := machines, totalArrays := jnat j "total_arrays", maxIngest := jnat j "max_ingest",
    alg := parseAlg ((j.getObjVal? "scheduling").toOption.getD Json.null),
    staticPlan := jbool j "static",
    cl := Cluster.init (machines.map (·.id)),
    buf := Buffer.init (jint j "hot_cap") (jint j "hot_rate") (jint j "cold_cap") (jint j "cold_rate"),
    obs := obs }

def parseClOp (j : Json) : ClOp :=
  match jstr j "c" with
  | "provBatch" => .provBatch (jnat j "size") (jnat j "o")
  | "relBatch" => .relBatch (jnat j "o")
  | "provIngest" => .provIngest (jnat j "demand") (jnat j "o")
  | "ingestBegin" => .ingestBegin (jnat j "i")
  | "alloc" => .alloc (asTid ((j.getObjVal? "t").toOption.getD Json.null)) (jnat j "m")
      (asOptNat ((j.getObjVal? "obs").toOption.getD Json.null))
  | "finish" => .finish (jnat j "i")
  | "tick" => .tick
  | _ => .cleanupIngest

def parseOracle (j : Json) : Oracle :=
  { total := if jhas j "total" then some (jnat j "total") else none,
    proposals := (jarr j "proposals").toList.map (fun p => let a := asArr p; (asTid a[0]!, asNat a[1]!)),
    pre := (jarr j "pre").toList.map parseClOp,
    plan := (jarr j "plan").toList.map (fun r => let a := asArr r; (asNat a[0]!, asNat a[1]!, asNat a[2]!, asNat a[3]!)) }

structure St where
  sys : Sys := default
  cl : Cluster := Cluster.init []
  buf : Buffer := Buffer.init 0 0 0 0

def step (st : St) (line : String) : St × String :=
  match Json.parse line with
  | .error e => (st, s!"bad-json {e}")
  | .ok j =>
    match jstr j "op" with
    | "init" =>
      let s := parseSys ((j.getObjVal? "spec").toOption.getD Json.null)
      let s := if jbool j "start" true then s.start else s
      ({ st with sys := s }, showSys s)
    | "resume" =>
      let pid := jnat j "pid"
      -- optional: the harness tells the clock it observed; must equal the model's wake time
      let (s1, y) := st.sys.resume pid (parseOracle j)
      let wakeOk := match st.sys.proc? pid with
        | some p => if jhas j "now" then decide (p.wake = asRat ((j.getObjVal? "now").toOption.getD Json.null)) else true
        | none => false
      ({ st with sys := s1 }, s!"{showYield y} wake={showBool wakeOk} nextpid={s1.nextPid} || {showSys s1}")
    | "collate" => let s1 := st.sys.collate; ({ st with sys := s1 }, showSys s1)
    | "finished" => (st, showBool st.sys.isFinished)
    | "log" => (st, showList showEvent st.sys.log)
    | "rows" => (st, showList showRow st.sys.rows)
    | "state" => (st, showSys st.sys)
    -- L3: whole simulation, SimPy order
    | "simulate" =>
      let s := parseSys ((j.getObjVal? "spec").toOption.getD Json.null)
      let env : SimEnv :=
        { delayTable := (jarr j "delay_table").toList.map (fun p => let a := asArr p; (asNat a[0]!, asNat a[1]!)),
          delayScript := (jarr j "delay_script").toList.map asNat,
          staticPlans := (jarr j "static_plans").toList.map (fun p =>
            let a := asArr p
            (asNat a[0]!, (asArr a[1]!).toList.map (fun r => let b := asArr r; (asNat b[0]!, asNat b[1]!, asNat b[2]!, asNat b[3]!)))) }
      let fuel := jnat j "fuel" 200000
      let (k, endT) :=
        if jhas j "until" then
          let segs := (jarr j "resume").toList.map asNat
          let k0 := SimState.startUntil env s (jnat j "until") fuel
          let k1 := segs.foldl (fun k u => SimState.resumeUntil env k u fuel) k0
          (k1, (segs.getLast?).getD (jnat j "until"))
        else SimState.runToCompletion env fuel (jnat j "max_steps" 2000) 0 (SimState.start s)
      let st := k.st
      let tasks := showList (fun (p : Tid × Bool) =>
        match st.task? p.1 with
        | some r => s!"{showTid r.id}:{showOptRat r.ast}:{showOptRat r.aft}:{showBool p.2}"
        | none => s!"{showTid p.1}:?") st.cl.finished
      ({ st with sys := st }, s!"end={endT} crashed={showErr st.crashed} halted={showBool st.halted} rows={showList showRow st.rows} log={showList showEvent st.log} tasks={tasks}")
    -- cluster-only slice
    | "clinit" =>
      let c := Cluster.init ((jarr j "machines").toList.map asNat)
      ({ st with cl := c }, showCluster c)
    | "clop" =>
      let (c1, e) := st.cl.applyOp (parseClOp j)
      ({ st with cl := c1 }, s!"{showErr e} || {showCluster c1}")
    | "clq" =>
      let c := st.cl
      (st, s!"idle={showBool c.isIdle} occ={showList (fun m => showBool (c.isOccupied m)) c.machines} cap={showBool (c.checkIngestCapacity (jnat j "demand") (jnat j "max"))}")
    -- pure functions
    | "runtime" =>
      match calculateRuntime (jnat j "flops") (jnat j "data") (jnat j "cpu") (jnat j "bw") with
      | .ok n => (st, s!"ok {n} occ={occupancy n}")
      | .error e => (st, e.name)
    | "span" => (st, s!"{occupancy (jnat j "total")}")
    | "wait" =>
      let preds := (jarr j "preds").toList.map (fun p => let a := asArr p; (asRat a[0]!, asNat a[1]!))
      (st, showRat (startTime (asRat ((j.getObjVal? "now").toOption.getD Json.null)) (jnat j "bw") preds))
    | "delay" =>
      let dist := match jstr j "dist" with | "normal" => Dist.normal | "poisson" => Dist.poisson | _ => Dist.uniform
      let samples := (jarr j "samples").toList.map asRat
      match generateDelay (jnat j "runtime") (jbool j "degree_zero") dist
          (asRat ((j.getObjVal? "prob").toOption.getD Json.null))
          (asRat ((j.getObjVal? "u").toOption.getD Json.null)) samples with
      | .ok n => (st, s!"ok {n}")
      | .error e => (st, e.name)
    | "scale" =>
      let u : TimeUnit := if jhas j "unit_int" then .int (jint j "unit_int") else .str (jstr j "unit_str")
      let g (k : String) : Rat := asRat ((j.getObjVal? k).toOption.getD Json.null)
      let r := scale u (g "start") (g "duration") (g "rate") (g "hot_rate") (g "cold_rate") (g "flops") (g "bw") (g "sysbw")
      (st, s!"{showRat r.start} {showRat r.duration} {r.dataRate} {showRat r.hotRate} {showRat r.coldRate} {showRat r.cpu} {showRat r.bandwidth} {showRat r.sysBandwidth}")
    -- buffer-only slice
    | "bufinit" =>
      let b := Buffer.init (jint j "hot_cap") (jint j "hot_rate") (jint j "cold_cap") (jint j "cold_rate")
      ({ st with buf := b }, showBuffer b)
    | "bufop" =>
      let b := st.buf
      match jstr j "b" with
      | "deposit" =>
        let (b1, e) := b.deposit (jnat j "o") (jint j "rate")
        ({ st with buf := b1 }, s!"{showErr e} || {showBuffer b1}")
      | "store" => let b1 := b.store (jnat j "o") (jnat j "now"); ({ st with buf := b1 }, s!"ok || {showBuffer b1}")
      | "next" =>
        let (b1, o) := b.nextForProcessing
        ({ st with buf := b1 }, s!"{showOptNat o} || {showBuffer b1}")
      | "remove" =>
        let (b1, ok) := b.remove (jnat j "o")
        ({ st with buf := b1 }, s!"{showBool ok} || {showBuffer b1}")
      | "check" =>
        match b.checkCapacity (jint j "rate") (jint j "duration") with
        | .ok r => (st, s!"{showBool r} || {showBuffer b}")
        | .error e => (st, s!"{e.name} || {showBuffer b}")
      | "h2c" =>
        match b.hot2coldBegin with
        | (b1, .error e) => ({ st with buf := b1 }, s!"{e.name} || {showBuffer b1}")
        | (b1, .ok none) => ({ st with buf := b1 }, s!"refused || {showBuffer b1}")
        | (b1, .ok (some (o, left))) =>
          match Buffer.hot2coldRun 100000 b1 o left 0 with
          | (b2, .ok n) => ({ st with buf := b2 }, s!"steps {n} || {showBuffer b2}")
          | (b2, .error e) => ({ st with buf := b2 }, s!"{e.name} || {showBuffer b2}")
      | "c2h" =>
        match b.cold2hotBegin with
        | (b1, .error e) => ({ st with buf := b1 }, s!"{e.name} || {showBuffer b1}")
        | (b1, .ok none) => ({ st with buf := b1 }, s!"refused || {showBuffer b1}")
        | (b1, .ok (some (o, left))) =>
          match Buffer.cold2hotRun 100000 b1 o left 0 with
          | (b2, .ok n) => ({ st with buf := b2 }, s!"steps {n} || {showBuffer b2}")
          | (b2, .error e) => ({ st with buf := b2 }, s!"{e.name} || {showBuffer b2}")
      | _ => (st, "bad-op")
    | _ => (st, "bad-op")

partial def loop (h : IO.FS.Stream) (out : IO.FS.Stream) (st : St) : IO Unit := do
  let line ← h.getLine
  if line.isEmpty then return ()
  let l := line.trimAscii.toString
  if l.isEmpty then
    loop h out st
  else
    let (st', o) := step st l
    out.putStrLn o
    out.flush
    loop h out st'

end Drv

def main : IO Unit := do
  Drv.loop (← IO.getStdin) (← IO.getStdout) {}
