/-
  C17, trajectory clauses — plan-following scheduling (DynamicSchedulingFromPlan, `alg = .dynamic`)
  over every state a simulation can reach: every order of the blocks inside an instant, every
  oracle input (static-plan rows, delays).

  Vocabulary.  The static plan enters the model when the scheduler loop plans an observation:
  with `staticPlan = true` the oracle's rows `(node, machine, est, eft)` become the task records,
  `planned = some machine` (`allocated_machine_id`, a machine id), `allocObj = false` (it is an id,
  not a Machine object).  `s.task? t` is the record of `t` the scheduler finds.  The process table
  keeps ended processes: `.doWork t m …` is the body of `t` on machine `m`, `ph ≥ 2` means it has
  started; `.allocTask t m … false …` is the scheduler-side allocation process of `t` on `m`;
  `s.active` are the live bodies, `s.starts` the started tasks, `s.cl.runOn` the polling entries
  of the cluster.  `Later s0 s s'` (TopsimProofs/PlanFollow3.lean): `s'` is reached from the
  reachable state `s` by zero or more further steps.

  Hypotheses.  `hw : WFConfig s0` and `ha : s0.alg = .dynamic` only.  Neither the initial buffer
  (`hb0` of C04) nor `s.crashed = none` is needed: a second plan of an observation makes new task
  ids (the clock is part of the id) or records that `task?` never finds, and a block that raises
  leaves the plan fields alone.  With `staticPlan = false` the records carry no planned machine
  and the statements hold because no workflow task is ever proposed (the algorithm raises).
-/
import TopsimProofs.PlanFollow3
import TopsimProofs.PlanFollow4
import TopsimProps.C17
import TopsimProps.SysSafety

namespace Topsim
namespace Sys

/-! ### (a) every task body is on the planned machine of its task -/

/-- (a) At every reachable state, for every task that is not an ingest task: every body of the
task, live or ended (`.doWork t m …` in the process table), every live body (`s.active`), every
polling entry of the cluster (`s.cl.runOn`) and every scheduler-side allocation process is on the
machine `m` that the record of the task names as planned (`planned = some m`, an id). -/
theorem C17_on_planned_machine (s0 s : Sys) (hw : WFConfig s0) (ha : s0.alg = .dynamic) (h : Reach s0 s) :
    (∀ d ∈ s.procs, ∀ t m preds ph tot, d.k = .doWork t m preds ph tot → t.isIngest = false →
      ∃ r, s.task? t = some r ∧ r.planned = some m ∧ r.allocObj = false) ∧
    (∀ mt ∈ s.active, mt.2.isIngest = false →
      ∃ r, s.task? mt.2 = some r ∧ r.planned = some mt.1 ∧ r.allocObj = false) ∧
    (∀ e ∈ s.cl.runOn, e.ing = false →
      ∃ r, s.task? e.task = some r ∧ r.planned = some e.mach ∧ r.allocObj = false) ∧
    (∀ p ∈ s.procs, ∀ t m cross obs ret, p.k = .allocTask t m cross obs false ret →
      ∃ r, s.task? t = some r ∧ r.planned = some m ∧ r.allocObj = false) := by
  have hpf := reach_pf s0 s hw ha h
  have hno : s0.alg ≠ .oracle := by rw [ha]; simp
  have hs := reach_inv s0 s hw (h.toOk hno)
  refine ⟨hpf.body, ?_, hpf.ro, hpf.alloc⟩
  intro mt hmt hi
  obtain ⟨p, hp, _, preds, tot, hpk⟩ := hs.dg.actDw mt hmt
  exact hpf.body p hp _ _ _ _ _ hpk hi

/-- (a)+(b) Every started task that is not an ingest task was started once, has a body in the
process table that has started (`2 ≤ ph`), on the planned machine of its record, and has no body on
any other machine: the machine of the unique start of `t` is its planned machine. -/
theorem C17_started_on_planned (s0 s : Sys) (hw : WFConfig s0) (ha : s0.alg = .dynamic) (h : Reach s0 s) :
    ∀ t ∈ s.starts, t.isIngest = false → s.starts.count t = 1 ∧
      ∃ m r, s.task? t = some r ∧ r.planned = some m ∧ r.allocObj = false ∧
        (∃ d ∈ s.procs, ∃ preds ph tot, d.k = .doWork t m preds ph tot ∧ 2 ≤ ph) ∧
        ∀ d ∈ s.procs, ∀ m' preds ph tot, d.k = .doWork t m' preds ph tot → m' = m := by
  have hpf := reach_pf s0 s hw ha h
  have hno : s0.alg ≠ .oracle := by rw [ha]; simp
  have hs := reach_inv s0 s hw (h.toOk hno)
  intro t ht hi
  obtain ⟨d, hd, m, preds, ph, tot, hdk, hph⟩ := hs.dg.startsDw t ht
  obtain ⟨r, hr, hp, ho⟩ := hpf.body d hd t m preds ph tot hdk hi
  have hcnt : s.starts.count t = 1 := by
    have h1 := List.nodup_iff_count.mp hs.dg.startsNodup t
    have h2 := count_pos_of_mem ht
    omega
  refine ⟨hcnt, m, r, hr, hp, ho, ⟨d, hd, preds, ph, tot, hdk, hph⟩, ?_⟩
  intro d' hd' m' preds' ph' tot' hdk'
  exact OnPlan.unique (hpf.body d' hd' t m' preds' ph' tot' hdk' hi) ⟨r, hr, hp, ho⟩

/-! ### (b) never migrated -/

/-- (b), one step: no block of any process rewrites the planned machine of a record
(`update_allocation` is never called: `C17_no_update` is the loop-body version). -/
theorem C17_plan_kept_step (s0 s : Sys) (hw : WFConfig s0) (ha : s0.alg = .dynamic) (h : Reach s0 s)
    (pid : Nat) (hen : s.enabled pid) (orc : Oracle) :
    ∀ t r, s.task? t = some r →
      ∃ r', (s.resume pid orc).1.task? t = some r' ∧ r'.planned = r.planned ∧ r'.allocObj = r.allocObj := by
  have hno : s0.alg ≠ .oracle := by rw [ha]; simp
  exact resume_planKeep (reach_pf s0 s hw ha h) (reach_inv s0 s hw (h.toOk hno))
    (by rw [reach_alg h]; exact ha) hen orc

/-- (b) Along a run, from the moment a record exists (the plan is made) its planned machine never
changes, and it stays a machine id. -/
theorem C17_never_migrated (s0 s s' : Sys) (hw : WFConfig s0) (ha : s0.alg = .dynamic) (h : Later s0 s s') :
    ∀ t r, s.task? t = some r →
      ∃ r', s'.task? t = some r' ∧ r'.planned = r.planned ∧ r'.allocObj = r.allocObj :=
  later_planKeep hw ha h

/-- (b) … so a task planned on `m` at some state of a run has, at every later state, no body, no
polling entry and no allocation process on any machine other than `m`. -/
theorem C17_never_elsewhere (s0 s s' : Sys) (hw : WFConfig s0) (ha : s0.alg = .dynamic) (h : Later s0 s s')
    (t : Tid) (r : TaskRec) (m : Mid) (hr : s.task? t = some r) (hp : r.planned = some m)
    (hi : t.isIngest = false) :
    (∀ d ∈ s'.procs, ∀ m' preds ph tot, d.k = .doWork t m' preds ph tot → m' = m) ∧
    (∀ mt ∈ s'.active, mt.2 = t → mt.1 = m) ∧
    (∀ e ∈ s'.cl.runOn, e.task = t → e.ing = false → e.mach = m) ∧
    (∀ p ∈ s'.procs, ∀ m' cross obs ret, p.k = .allocTask t m' cross obs false ret → m' = m) := by
  obtain ⟨r', hr', hp', _⟩ := later_planKeep hw ha h t r hr
  obtain ⟨a1, a2, a3, a4⟩ := C17_on_planned_machine s0 s' hw ha h.reach_right
  have huniq : ∀ m', (∃ r1, s'.task? t = some r1 ∧ r1.planned = some m' ∧ r1.allocObj = false) → m' = m := by
    rintro m' ⟨r1, h1, h2, _⟩
    rw [hr'] at h1
    injection h1 with e
    subst e
    rw [hp', hp] at h2
    injection h2 with e
    exact e.symm
  refine ⟨fun d hd m' preds ph tot hk => huniq m' (a1 d hd t m' preds ph tot hk hi), ?_, ?_,
    fun p hp1 m' cross obs ret hk => huniq m' (a4 p hp1 t m' cross obs ret hk)⟩
  · intro mt hmt e
    exact huniq mt.1 (by rw [← e]; exact a2 mt hmt (by rw [e]; exact hi))
  · intro e he et hing
    exact huniq e.mach (by rw [← et]; exact a3 e he hing)

/-! ### (c) a task whose planned machine is busy waits -/

/-- (c), one step of a run: a scheduler-side allocation process with a new process id (only a
block of `allocate_tasks` creates one) is for a task on its planned machine, and that machine was in
the available pool before the block (`C17_waits` is the algorithm-level version). -/
theorem C17_started_only_when_available (s0 s : Sys) (hw : WFConfig s0) (ha : s0.alg = .dynamic)
    (h : Reach s0 s) (pid : Nat) (hen : s.enabled pid) (orc : Oracle) :
    ∀ q ∈ (s.resume pid orc).1.procs, (∀ q0 ∈ s.procs, q0.pid ≠ q.pid) →
      ∀ t m cross obs ret, q.k = .allocTask t m cross obs false ret →
        m ∈ s.cl.available ∧
        ∃ r, (s.resume pid orc).1.task? t = some r ∧ r.planned = some m ∧ r.allocObj = false :=
  resume_new_alloc hw ha h hen orc

/-- (c) A task whose planned machine is not in the available pool (it is ingesting, or occupied by
this or another workflow) is not handed to an allocation process by the next block, whichever
block that is and however many other machines are free; its record keeps the planned machine. -/
theorem C17_busy_machine_waits (s0 s : Sys) (hw : WFConfig s0) (ha : s0.alg = .dynamic)
    (h : Reach s0 s) (pid : Nat) (hen : s.enabled pid) (orc : Oracle)
    (t : Tid) (r : TaskRec) (m : Mid) (hr : s.task? t = some r) (hp : r.planned = some m)
    (hbusy : m ∉ s.cl.available) :
    (∀ q ∈ (s.resume pid orc).1.procs, (∀ q0 ∈ s.procs, q0.pid ≠ q.pid) →
      ∀ m' cross obs ret, q.k ≠ .allocTask t m' cross obs false ret) ∧
    ∃ r', (s.resume pid orc).1.task? t = some r' ∧ r'.planned = some m := by
  obtain ⟨r', hr', hp', _⟩ := C17_plan_kept_step s0 s hw ha h pid hen orc t r hr
  refine ⟨?_, r', hr', hp'.trans hp⟩
  intro q hq hfresh m' cross obs ret hqk
  obtain ⟨hav, r1, h1, h2, _⟩ := resume_new_alloc hw ha h hen orc q hq hfresh t m' cross obs ret hqk
  rw [hr'] at h1
  injection h1 with e
  subst e
  rw [hp', hp] at h2
  injection h2 with e
  subst e
  exact hbusy hav

/-! ### the hypotheses are satisfiable -/

/-- non-vacuity of (a), (b): configuration `pfW0` (two machines, one observation whose workflow is the
chain `pfA → pfB`, static plan: both tasks on machine 1), schedule `pfSched` (creation order inside
every instant).  Both tasks were started; `pfA` ran and `pfB` runs on machine 1 (bodies 12 and 14),
the planned machine of both records, while machine 0 is in the available pool. -/
example : ∃ s, Reach pfW0 s ∧ WFConfig pfW0 ∧ pfW0.alg = .dynamic ∧ s.crashed = none ∧
    s.starts = [.ingest 0 0, pfA, pfB] ∧ s.active = [(1, pfB)] ∧ s.cl.available = [0] ∧
    s.cl.runOn.map (fun e => (e.task, e.mach, e.ing)) = [(pfB, 1, false)] ∧
    (s.task? pfA).map (fun r => (r.planned, r.allocObj, r.status)) = some (some 1, false, .finished) ∧
    (s.task? pfB).map (fun r => (r.planned, r.allocObj, r.status)) = some (some 1, false, .running) ∧
    (s.proc? 12).bind (fun p => pfDoWork? p.k) = some (pfA, 1) ∧
    (s.proc? 14).bind (fun p => pfDoWork? p.k) = some (pfB, 1) :=
  ⟨_, pfSched_reach, pfW0_wf, rfl, pfSched_final⟩

/-- non-vacuity of (c): configuration `pfW2` (two machines; observation 0 with one workflow task `pfX`
planned on machine 1; observation 1 ingests on machine 1 until t = 3), schedule `pfSchedWait`: at
t = 1 the record of `pfX` exists, has no predecessor and is UNSCHEDULED, its planned machine 1 is in
the ingest pool, machine 0 is in the available pool, and `allocate_tasks` (process 15) has run and
created no process … -/
example : ∃ s, Reach pfW2 s ∧ WFConfig pfW2 ∧ pfW2.alg = .dynamic ∧ s.crashed = none ∧
    s.starts = [.ingest 0 0, .ingest 1 0] ∧ s.cl.available = [0] ∧ s.cl.ingest = [1] ∧
    (s.task? pfX).map (fun r => (r.planned, r.allocObj, r.status, r.preds)) = some (some 1, false, .unscheduled, []) ∧
    s.procs.length = 16 ∧ s.nextPid = 16 :=
  ⟨_, pfSchedWait_reach, pfW2_wf, rfl, pfSchedWait_final⟩

/-- … and two instants later (`pfSchedThen`) `pfX` runs on machine 1 (body 19), machine 0 still free. -/
example : ∃ s, Reach pfW2 s ∧ s.crashed = none ∧ s.starts = [.ingest 0 0, .ingest 1 0, pfX] ∧
    s.active = [(1, pfX)] ∧ s.cl.available = [0] ∧
    (s.task? pfX).map (fun r => (r.planned, r.allocObj, r.status)) = some (some 1, false, .running) ∧
    (s.proc? 19).bind (fun p => pfDoWork? p.k) = some (pfX, 1) :=
  ⟨_, pfSchedThen_reach, pfSchedThen_final⟩

end Sys
end Topsim
