/-
  C08, the clauses about one observation, along the runs of the deterministic simulator
  (SimPy's order of events):

    "… Ingest holds exactly the pipeline's machine demand for exactly the observation's
     duration, each observation goes WAITING to RUNNING to FINISHED once, and an observation
     that falls due while the system is completely idle starts exactly on time."

  Vocabulary (TopsimProofs/OnTime1 … 11).
  * `SimReach env s0 k`: `k` is a state of a run of the simulator from configuration `s0` (kernel
    steps and pause hand-overs, before or after an exception); `SimRun`: one uninterrupted
    `env.run`; `SimPath env k k'`: `k'` is a later state of the same run.
  * A *block start*: `k.peek = some e`, `k.st.proc? e.pid = some p`, `p.alive = true` — the kernel
    is about to resume the live process `p`; `e.time` is the time of that block (SimPy's `env.now`
    during the block).  Every statement "at time t" below is about all block starts with
    `e.time = t`.
  * `TelDue k n`: a block start of the telescope's loop (`Telescope.run`) at time `n`.
  * `k.st.ingestHeld o`: the number of `allocate_task_to_cluster(..., ingest=True)` processes of
    observation `o` that hold a machine of the ingest pool (created and not yet begun, or polling);
    the pool itself is, machine for machine, what these processes hold (`C08_ingest_pool_is_held`).
  * `ob.stat`: what the configuration says of an observation (id, planned start, duration, arrays,
    ingest rate, ingest machines); no block changes it.
  * `k.st.Quiet`: completely idle — the three queries of `Simulation.is_finished()` other than
    "every observation FINISHED" (`Buffer.is_empty`: both tiers at full free capacity;
    `Cluster.is_idle`: no task running, no machine occupied, none ingesting; the scheduler's queue
    empty), no array in use (`telUse = 0`), nothing promised to ingest (`provision_ingest = 0`), no
    machine reserved for a batch.
  * `k.st.FreeFor ob`: the tests of `Telescope.run` / `check_ingest_capacity` succeed for `ob`.

  -- F13 (`allocate_task_to_cluster` releases the machine only when the body has ended AND
  -- `env.now >= task.aft`): the clause "at every time strictly between `ast` and `ast + duration`
  -- the pool holds the demand" is now TRUE as first written (`C08_ingest_holds_demand_statement_holds`),
  -- and also at the telescope's block of the instant `ast + duration` itself
  -- (`C08_ingest_holds_demand`, last clause): every machine is given back inside the instant
  -- `ast + duration`, after the telescope's block that finishes the observation, for every duration.
  -- Before the repair the clause was false for durations ≥ 3: the body of an ingest task (`do_work`:
  -- timeout `duration - 1`) ends at `ast + duration - 1` BEFORE its allocation process polls in that
  -- instant (the body's timeout was scheduled at `ast`, the poll's at `ast + duration - 2`), so the
  -- machine was given back at `ast + duration - 1`, one step before the observation ends and before
  -- the recorded finish `aft = ast + duration` of the ingest task (finding K6; old witness `otW 3 2`,
  -- 35 kernel steps: pool empty at t = 3 — the same state now holds both machines,
  -- `C08_ingest_holds_demand_witness`).
-/
import TopsimProofs.OnTime11
import TopsimProps.C08
import TopsimProps.C06Traj
import TopsimProps.C13Traj

namespace Topsim

open KState Sys

/-! ## (1) never early, on time when idle -/

/-- **On time when everything is free** (the sharp form).  For an observation with recorded start
`a`, in any state `k'` of any run: `a` is not before the planned start `est`; the run contains the
kernel step `k0 → k1` in which the telescope's loop ran its block at time `est`, before which the
observation was WAITING with no recorded start; and if in `k0` everything it needs was free and
every observation listed BEFORE it in the configuration was FINISHED, or WAITING with a later planned
start (the loop visits the observations in list order; an earlier-listed one that is due takes the
arrays and machines first), then `a = est`. -/
theorem C08_on_time_free_simpy (env : SimEnv) (s0 : Sys) (hw : Sys.WFConfig s0) (k' : SimState)
    (h' : SimReach env s0 k') (oid : Oid) (ob' : Obs) (a : Nat) (hob' : k'.st.obs? oid = some ob')
    (hast : ob'.ast = some a) :
    ob'.est ≤ a ∧
    ∃ k0 k1 ob, SimReach env s0 k0 ∧ TelDue k0 ob'.est ∧ k0.step (simHandler env) = some k1 ∧
      SimPath env k1 k' ∧ k0.st.obs? oid = some ob ∧ ob.stat = ob'.stat ∧ ob.status = .waiting ∧
      ob.ast = none ∧
      (k0.st.FreeFor ob →
        (∀ pre post, k0.st.obs = pre ++ ob :: post →
          ∀ o ∈ pre, o.status = .finished ∨ (o.status = .waiting ∧ ob.est < o.est)) →
        a = ob'.est) :=
  sim_on_time env s0 hw k' h' oid ob' a hob' hast

/-- **Never early, and on time when idle.**  As above, with "everything free" replaced by: the
system is completely idle (`Quiet`) and the observation fits the empty system — its arrays within
the telescope's, its ingest machines within the ingest limit and the number of machines, its data
volume `rate * duration` below the hot buffer's capacity and within the cold buffer's
(`ColdBuffer.has_capacity_for`).  (`1 ≤ duration` holds for every observation of a well-formed
configuration.) -/
theorem C08_on_time_simpy (env : SimEnv) (s0 : Sys) (hw : Sys.WFConfig s0) (k' : SimState)
    (h' : SimReach env s0 k') (oid : Oid) (ob' : Obs) (a : Nat) (hob' : k'.st.obs? oid = some ob')
    (hast : ob'.ast = some a) :
    ob'.est ≤ a ∧
    ∃ k0 k1 ob, SimReach env s0 k0 ∧ TelDue k0 ob'.est ∧ k0.step (simHandler env) = some k1 ∧
      SimPath env k1 k' ∧ k0.st.obs? oid = some ob ∧ ob.stat = ob'.stat ∧ ob.status = .waiting ∧
      ob.ast = none ∧
      (k0.st.Quiet →
        ob.demand ≤ k0.st.totalArrays → ob.ingestDemand ≤ k0.st.maxIngest →
        ob.ingestDemand ≤ s0.machines.length →
        ob.rate * ob.duration < k0.st.buf.hot.total →
        k0.st.buf.coldHasCapacityFor (ob.rate * ob.duration) = true →
        (∀ pre post, k0.st.obs = pre ++ ob :: post →
          ∀ o ∈ pre, o.status = .finished ∨ (o.status = .waiting ∧ ob.est < o.est)) →
        a = ob'.est) := by
  obtain ⟨h1, k0, k1, ob, hr0, hdue, hs, hpath, hob, hst, hw1, hnone, himp⟩ :=
    sim_on_time env s0 hw k' h' oid ob' a hob' hast
  refine ⟨h1, k0, k1, ob, hr0, hdue, hs, hpath, hob, hst, hw1, hnone, ?_⟩
  intro hq harr hlim hmach hhot hcold hpre
  obtain ⟨U, hU⟩ := (hr0.l3inv hw).sinv.ci
  have hm : ob.ingestDemand ≤ k0.st.cl.machines.length := by
    rw [sim_machines env s0 hw k0 hr0, List.length_map]; exact hmach
  exact himp (Sys.ot_free_of_quiet hU.inv hq ⟨harr, hm, hlim, hhot, hcold⟩) hpre

/-- … the telescope's block itself: the kernel step at a block start of the telescope's loop at time
`n` records `n` as the start of an observation that is due, WAITING, finds everything free and is
preceded in the list only by observations that are FINISHED or not yet due (a delayed observation
starts at the first block that finds the system free). -/
theorem C08_on_time_block_simpy (s : Sys) (p : Proc) (orc : Oracle) (hk : p.k = .telescope) (n : Nat)
    (hwn : p.wake = ((n : Nat) : Time)) (hnd : (s.obs.map (·.id)).Nodup)
    (pre post : List Obs) (ob : Obs) (hsplit : s.obs = pre ++ ob :: post)
    (hpre : ∀ o ∈ pre, o.status = .finished ∨ (o.status = .waiting ∧ n < o.est ∧ o.ast = none))
    (hdue : ob.est ≤ n) (hw : ob.status = .waiting) (hfree : s.FreeFor ob) (hdur : 1 ≤ ob.duration) :
    ∃ ob', (s.block p orc).1.obs? ob.id = some ob' ∧ ob'.ast = some n :=
  Sys.ot_block_on_time s p orc hk n hwn hnd pre post ob hsplit hpre hdue hw hfree hdur

/-! ## (2) the machines ingest holds for an observation -/

/-- The clause at full strength (F13: TRUE, `C08_ingest_holds_demand_statement_holds`; false before the
repair): at every block start strictly between the recorded start and `ast + duration`, in a run that
has raised no exception, exactly `ingestDemand` allocation processes hold a machine of the ingest pool
for the observation. -/
def C08_ingest_holds_demand_statement : Prop :=
  ∀ (env : SimEnv) (s0 : Sys) (k : SimState), Sys.WFConfig s0 → SimReach env s0 k → k.st.crashed = none →
    ∀ (e : HEntry) (p : Proc) (oid : Oid) (ob : Obs) (a : Nat), k.peek = some e →
      k.st.proc? e.pid = some p → p.alive = true → k.st.obs? oid = some ob → ob.ast = some a →
      ((a : Nat) : Time) < e.time → e.time < (((a + ob.duration : Nat) : Nat) : Time) →
      k.st.ingestHeld oid = ob.ingestDemand

/-- The state that refuted the clause before the repair: configuration `otW 3 2` (three machines of
speed 1, ingest limit 2, one observation: planned start 1, duration 3, one array, ingest rate 1, two
ingest machines, no workflow; queue algorithm; hot and cold buffer 100 / 100, rates 10 / 10), no delay
model, 35 kernel steps.  The observation was admitted at 1; the kernel is about to resume the cluster
loop at time 3 < 1 + 3; the observation is RUNNING; no exception. -/
-- F13: both ingest machines are still held (pool `[0, 1]`, held 2); before the repair: pool `[]`, held 0
theorem C08_ingest_holds_demand_witness :
    Sys.WFConfig (otW 3 2) ∧ SimReach {} (otW 3 2) (ilSimSteps {} 35 (SimState.start (otW 3 2))) ∧
    otView (ilSimSteps {} 35 (SimState.start (otW 3 2))) =
      ⟨some 3, some true, [0, 1], 2, some .running, some (some 1), none, some 3, some 2⟩ :=
  ⟨otW_wf 3 2 (by decide), SimReach.start.steps 35, otSim3.2.2.2.2.1⟩

/-- The clause as first written holds. -/
-- F13: replaces `C08_ingest_holds_demand_statement_false`
theorem C08_ingest_holds_demand_statement_holds : C08_ingest_holds_demand_statement := by
  intro env s0 k hw h hc e p oid ob a hpk hpp ha hob hast hlo hhi
  exact (sim_ingest_exact env s0 hw k h hc hpk hpp ha hob hast hlo hhi).2.2

/-- **The form proved before the repair** (kept; every clause still holds, and
`C08_ingest_holds_demand` below is stronger).  At every block start (time `e.time`) of every run:

* an allocation process that holds a machine of the ingest pool works for an observation with a
  recorded start `a`, and `e.time ≤ a + duration` — nothing is held for an observation that has not
  started, nothing after the instant `a + duration`;
* in a run that has raised no exception, at every block start at a time `t` with
  `a < t` and `t + 1 < a + duration` — after the instant of the start, in which the provisioning
  block runs, and before the instant `a + duration - 1`, in which the ingest bodies end — exactly
  `ingestDemand` allocation processes hold a machine for the observation; each of them is polling, its
  machine is in the ingest pool, and it runs an ingest task of the observation whose record carries
  the observation's recorded start.

Inside the two boundary instants: at `a` nothing is held before the provisioning block (the
supervisor's and the provisioning process's first blocks follow the telescope's) and the demand after
it; the machines are given back, one allocation process after the other, inside the instant
`a + duration`, after the telescope's block that finishes the observation
(`C08_ingest_holds_demand`, `C08_ingest_release_examples`).
-- F13: before the repair they were given back inside the instant `a + duration - 1` when the duration
-- was 3 or more. -/
theorem C08_ingest_holds_demand_partial (env : SimEnv) (s0 : Sys) (hw : Sys.WFConfig s0) (k : SimState)
    (h : SimReach env s0 k) {e : HEntry} {p : Proc} (hpk : k.peek = some e)
    (hpp : k.st.proc? e.pid = some p) (ha : p.alive = true) :
    (∀ x ∈ k.st.cl.ilEntries, ∃ o ob a, x.obs = some o ∧ k.st.obs? o = some ob ∧ ob.ast = some a ∧
      e.time ≤ (((a + ob.duration : Nat) : Nat) : Time)) ∧
    ∀ oid ob, k.st.obs? oid = some ob →
      (ob.ast = none → k.st.ingestHeld oid = 0) ∧
      (∀ a, ob.ast = some a → (((a + ob.duration : Nat) : Nat) : Time) < e.time → k.st.ingestHeld oid = 0) ∧
      (k.st.crashed = none → ∀ a, ob.ast = some a → ((a : Nat) : Time) < e.time →
        e.time + 1 < (((a + ob.duration : Nat) : Nat) : Time) →
        k.st.ingestHeld oid = ob.ingestDemand ∧
        ∀ x ∈ k.st.cl.ilEntries, x.obs = some oid →
          x ∈ k.st.cl.runOn ∧ x.mach ∈ k.st.cl.ingest ∧
          ∃ i rec, x.task = .ingest oid i ∧ k.st.task? (.ingest oid i) = some rec ∧
            rec.ast = some ((a : Nat) : Time)) := by
  have hwin := sim_ingest_window env s0 hw k h hpk hpp ha
  refine ⟨hwin, ?_⟩
  intro oid ob hob
  refine ⟨?_, ?_, ?_⟩
  · intro hnone
    apply ot_held_zero
    intro x hx hxo
    obtain ⟨o, ob2, a, ho, hob2, hast2, _⟩ := hwin x hx
    rw [hxo] at ho; cases ho
    rw [hob] at hob2; cases hob2
    rw [hnone] at hast2; cases hast2
  · intro a hast hlt
    apply ot_held_zero
    intro x hx hxo
    obtain ⟨o, ob2, a2, ho, hob2, hast2, hle⟩ := hwin x hx
    rw [hxo] at ho; cases ho
    rw [hob] at hob2; cases hob2
    rw [hast] at hast2; cases hast2
    exact absurd hlt (Rat.not_lt.mpr hle)
  · intro hc a hast hlo hhi
    have hhi' : e.time < (((a + ob.duration : Nat) : Nat) : Time) := by grind
    exact ⟨(sim_ingest_exact env s0 hw k h hc hpk hpp ha hob hast hlo hhi').2.2,
      sim_ingest_tasks env s0 hw k h hc hpk hpp ha hob hast hlo⟩

/-- **The machines ingest holds for an observation, with the repaired release timing** (F13: new).  At
every block start (time `e.time`) of every run:

* an allocation process that holds a machine of the ingest pool works for an observation with a
  recorded start `a`, and `e.time ≤ a + duration`; nothing is held for an observation without a
  recorded start, nothing after the instant `a + duration`;
* in a run that has raised no exception, at every block start at a time `t` with `a < t < a + duration`
  exactly `ingestDemand` allocation processes hold a machine for the observation, none of its
  allocation processes has ended; each of them is polling, its machine is in the ingest pool, and it
  runs an ingest task of the observation whose record carries the observation's recorded start;
* … and the same count at the block start of the telescope's loop at time `a + duration` (the block
  that marks the observation FINISHED): in SimPy's order every machine is given back inside the instant
  `a + duration`, after that block — for every duration.

Inside the instant `a` nothing is held before the provisioning block and the demand after it. -/
theorem C08_ingest_holds_demand (env : SimEnv) (s0 : Sys) (hw : Sys.WFConfig s0) (k : SimState)
    (h : SimReach env s0 k) {e : HEntry} {p : Proc} (hpk : k.peek = some e)
    (hpp : k.st.proc? e.pid = some p) (ha : p.alive = true) :
    (∀ x ∈ k.st.cl.ilEntries, ∃ o ob a, x.obs = some o ∧ k.st.obs? o = some ob ∧ ob.ast = some a ∧
      e.time ≤ (((a + ob.duration : Nat) : Nat) : Time)) ∧
    ∀ oid ob, k.st.obs? oid = some ob →
      (ob.ast = none → k.st.ingestHeld oid = 0) ∧
      (∀ a, ob.ast = some a → (((a + ob.duration : Nat) : Nat) : Time) < e.time → k.st.ingestHeld oid = 0) ∧
      (k.st.crashed = none → ∀ a, ob.ast = some a → ((a : Nat) : Time) < e.time →
        e.time < (((a + ob.duration : Nat) : Nat) : Time) →
        k.st.ingestHeld oid = ob.ingestDemand ∧ Sys.NoDeadAlloc k.st oid ∧
        ∀ x ∈ k.st.cl.ilEntries, x.obs = some oid →
          x ∈ k.st.cl.runOn ∧ x.mach ∈ k.st.cl.ingest ∧
          ∃ i rec, x.task = .ingest oid i ∧ k.st.task? (.ingest oid i) = some rec ∧
            rec.ast = some ((a : Nat) : Time)) ∧
      (k.st.crashed = none → ∀ a, ob.ast = some a → TelDue k (a + ob.duration) →
        k.st.ingestHeld oid = ob.ingestDemand ∧ Sys.NoDeadAlloc k.st oid) := by
  obtain ⟨hwin, hrest⟩ := C08_ingest_holds_demand_partial env s0 hw k h hpk hpp ha
  refine ⟨hwin, ?_⟩
  intro oid ob hob
  obtain ⟨h1, h2, _⟩ := hrest oid ob hob
  refine ⟨h1, h2, ?_, ?_⟩
  · intro hc a hast hlo hhi
    obtain ⟨_, g2, g3⟩ := sim_ingest_exact env s0 hw k h hc hpk hpp ha hob hast hlo hhi
    exact ⟨g3, g2, sim_ingest_tasks env s0 hw k h hc hpk hpp ha hob hast hlo⟩
  · intro hc a hast hdue
    obtain ⟨_, g2, g3⟩ := sim_ingest_at_end env s0 hw k h hc hob hast hdue
    exact ⟨g3, g2⟩

/-- the ingest pool is, machine for machine, the machines the ingest allocation processes hold -/
theorem C08_ingest_pool_is_held (env : SimEnv) (s0 : Sys) (hw : Sys.WFConfig s0) (k : SimState)
    (h : SimReach env s0 k) : (k.st.cl.ilEntries.map (·.mach)).Perm k.st.cl.ingest := by
  obtain ⟨U, hU⟩ := (h.l3inv hw).sinv.ci
  exact ot_pool_perm hU.inv

/-- the polling allocation processes run pairwise different tasks (so the `ingestDemand` processes of
`C08_ingest_holds_demand_partial` run `ingestDemand` different ingest tasks of the observation) -/
theorem C08_ingest_tasks_distinct (env : SimEnv) (s0 : Sys) (hw : Sys.WFConfig s0) (k : SimState)
    (h : SimReach env s0 k) : (k.st.cl.runOn.map (·.task)).Nodup := by
  obtain ⟨U, hU⟩ := (h.l3inv hw).sinv.ci
  rw [hU.inv.runOnTasks]
  exact hU.inv.runNodup

/-- **The records of the ingest tasks.**  In a run that has raised no exception: no task is started
twice (`starts` has no duplicate); the recorded start of an ingest task of observation `o` is the
recorded start of `o`; its recorded finish is that plus the duration of `o`
(`C06_ingest_span_simpy`). -/
theorem C08_ingest_records_simpy (env : SimEnv) (s0 : Sys) (hw : Sys.WFConfig s0) (k : SimState)
    (h : SimReach env s0 k) (hc : k.st.crashed = none) (o : Oid) (i : Nat) (rec : TaskRec)
    (hrec : k.st.task? (.ingest o i) = some rec) :
    k.st.starts.Nodup ∧
    (∀ x, rec.ast = some x → ∃ ob a, k.st.obs? o = some ob ∧ ob.ast = some a ∧ x = ((a : Nat) : Time)) ∧
    (∀ f, rec.aft = some f → ∃ ob a, k.st.obs? o = some ob ∧ ob.ast = some a ∧
      rec.ast = some ((a : Nat) : Time) ∧ f = ((a : Nat) : Time) + ((ob.duration : Nat) : Time)) := by
  have hB := sim_otBody env s0 hw k h hc
  refine ⟨(h.l3inv hw).sinv.dg.startsNodup, fun x hx => hB.recAst o i rec x hrec hx, ?_⟩
  intro f hf
  obtain ⟨a', ob, hast', hob, _, hfa⟩ := Sys.C06_ingest_span_simpy env s0 hw k h o i rec f hrec hf
  obtain ⟨ob2, a, hob2, hast2, hxa⟩ := hB.recAst o i rec a' hrec hast'
  rw [hob] at hob2; cases hob2
  exact ⟨ob, a, hob, hast2, by rw [hast', hxa], by rw [hfa, hxa]⟩

/-! ## (3) WAITING, RUNNING, FINISHED, once each -/

/-- **The status only moves forward** along a run, the static attributes and a recorded start never
change (`C08_status_monotone` lifted to the runs of the simulator): the history of an observation's
status is WAITING* RUNNING* FINISHED*. -/
theorem C08_status_once_simpy (env : SimEnv) (s0 : Sys) (hw : Sys.WFConfig s0) (k k' : SimState)
    (h : SimReach env s0 k) (hp : SimPath env k k') (oid : Oid) (ob : Obs) (hob : k.st.obs? oid = some ob) :
    ∃ ob', k'.st.obs? oid = some ob' ∧ Sys.RunStatus.rank ob.status ≤ Sys.RunStatus.rank ob'.status ∧
      ob'.stat = ob.stat ∧ ∀ a, ob.ast = some a → ob'.ast = some a := by
  obtain ⟨ob', hob', hr, hst⟩ := SimPath.status_mono hw h hp hob
  refine ⟨ob', hob', hr, hst, ?_⟩
  intro a hast
  obtain ⟨ob2, hob2, hast2, _⟩ := SimPath.ast_persist hw h hp hob hast
  rw [hob'] at hob2; cases hob2
  exact hast2

/-- **The two transitions, at `a` and at `a + duration` exactly.**  In an uninterrupted run, a kernel
step that changes the status of an observation is either the first block of the observation's ingest
supervisor (`allocate_ingest`), at the recorded start `a`: WAITING → RUNNING; or the telescope's block
at exactly `a + duration`: RUNNING → FINISHED (`C13_finished_transition`, `TelDisc`). -/
theorem C08_status_transitions_simpy (env : SimEnv) (s0 : Sys) (hw : Sys.WFConfig s0) {k k1 : SimState}
    (h : SimRun env s0 k) (hs : k.step (simHandler env) = some k1) {oid : Oid} {ob ob1 : Obs}
    (hob : k.st.obs? oid = some ob) (hob1 : k1.st.obs? oid = some ob1) (hne : ob1.status ≠ ob.status) :
    ∃ e p a, k.peek = some e ∧ k.st.proc? e.pid = some p ∧ p.alive = true ∧ e.time = p.wake ∧
      ob.ast = some a ∧ ob1.ast = some a ∧
      ((ob.status = .waiting ∧ ob1.status = .running ∧ (∃ tl, p.k = .allocIngest oid tl) ∧ p.pc = 0 ∧
          p.wake = ((a : Nat) : Time)) ∨
       (ob.status = .running ∧ ob1.status = .finished ∧ p.k = .telescope ∧
          p.wake = (((a + ob.duration : Nat) : Nat) : Time))) :=
  sim_status_step env s0 hw h hs hob hob1 hne

/-- **The status against the clock**, at every block start (time `e.time`) of every run: a WAITING
observation has no recorded start, or its recorded start is this very instant (admitted by the
telescope's block of this instant, its supervisor has not run yet); a RUNNING one started at or before
this instant; a FINISHED one started a full duration or more ago. -/
theorem C08_status_clock_simpy (env : SimEnv) (s0 : Sys) (hw : Sys.WFConfig s0) (k : SimState)
    (h : SimReach env s0 k) {e : HEntry} {p : Proc} (hpk : k.peek = some e)
    (hpp : k.st.proc? e.pid = some p) (ha : p.alive = true) {oid : Oid} {ob : Obs}
    (hob : k.st.obs? oid = some ob) :
    (ob.status = .waiting → ob.ast = none ∨ ∃ a, ob.ast = some a ∧ e.time = ((a : Nat) : Time)) ∧
    (ob.status = .running → ∃ a, ob.ast = some a ∧ ((a : Nat) : Time) ≤ e.time) ∧
    (ob.status = .finished → ∃ a, ob.ast = some a ∧ (((a + ob.duration : Nat) : Nat) : Time) ≤ e.time) :=
  sim_status_clock env s0 hw k h hpk hpp ha hob

/-- … and, in an uninterrupted run, while the telescope's loop is alive, an observation that is not
FINISHED is at most a full duration past its recorded start. -/
theorem C08_status_running_bound_simpy (env : SimEnv) (s0 : Sys) (hw : Sys.WFConfig s0) (k : SimState)
    (h : SimRun env s0 k) {e : HEntry} {p : Proc} (hpk : k.peek = some e)
    (hpp : k.st.proc? e.pid = some p) (ha : p.alive = true) {oid : Oid} {ob : Obs} {a : Nat}
    (hob : k.st.obs? oid = some ob) (hast : ob.ast = some a) (hnf : ob.status ≠ .finished)
    {t : Proc} (ht : t ∈ k.st.procs) (htk : t.k = .telescope) (hta : t.alive = true) :
    e.time ≤ (((a + ob.duration : Nat) : Nat) : Time) :=
  simRun_running_le env s0 hw k h hpk hpp ha hob hast hnf ht htk hta

/-! ## the hypotheses are satisfiable -/

/-- a block start of the telescope's loop at the planned start of a WAITING observation, the system
completely idle, the observation fitting: `otW 3 2` after 6 kernel steps -/
example : ∃ k ob, SimReach {} (otW 3 2) k ∧ k.st.obs? 0 = some ob ∧ ob.status = .waiting ∧
    TelDue k ob.est ∧ k.st.Quiet ∧ k.st.Fits ob := by
  obtain ⟨h1, h2, h3, h4, h5, h6, h7, h8, h9, h10, h11, h12, h13⟩ := otSim3_idle
  generalize hk : ilSimSteps {} 6 (SimState.start (otW 3 2)) = k at *
  have hr : SimReach {} (otW 3 2) k := by rw [← hk]; exact SimReach.start.steps 6
  cases hob : k.st.obs? 0 with
  | none => rw [hob] at h2; simp at h2
  | some ob =>
    rw [hob] at h2
    simp only [Option.map_some, Option.some.injEq, Prod.mk.injEq] at h2
    obtain ⟨e1, e2, e3, e4, e5⟩ := h2
    cases hpk : k.peek with
    | none => rw [hpk] at h1; simp at h1
    | some e =>
      rw [hpk] at h1
      simp only [Option.bind_some] at h1
      cases hp : k.st.proc? e.pid with
      | none => rw [hp] at h1; simp at h1
      | some p =>
        rw [hp] at h1
        simp only [Option.map_some, Option.some.injEq, Prod.mk.injEq] at h1
        obtain ⟨f1, f2, f3⟩ := h1
        refine ⟨k, ob, hr, hob, e5, ⟨e, p, hpk, hp, f1, otIsTel_eq f2, by rw [f3, e1]; rfl⟩,
          ⟨h3, h4, h5, h6, h7, h8⟩, ⟨by rw [e2, h9]; decide, by rw [e3, h11]; decide, by rw [e3, h10]; decide,
            by rw [e4, h12]; decide, by rw [e4]; exact h13⟩⟩

/-- … and it starts on time: recorded start 1 = planned start, one kernel step later -/
example : ∃ k ob, SimReach {} (otW 3 2) k ∧ k.st.obs? 0 = some ob ∧ ob.ast = some 1 ∧ ob.status = .waiting :=
  let ⟨_, ⟨ob, hob, hst, hast, _⟩, _⟩ := otView_spec otSim3.2.1
  ⟨_, ob, SimReach.start.steps 7, hob, hast, hst⟩

/-- a block start strictly inside an ingest (time 2, start 1, duration 3), the pool holding exactly
the demand: two machines, both for observation 0 -/
example : ∃ k e p ob, SimReach {} (otW 3 2) k ∧ k.st.crashed = none ∧ k.peek = some e ∧
    k.st.proc? e.pid = some p ∧ p.alive = true ∧ k.st.obs? 0 = some ob ∧ ob.ast = some 1 ∧
    ((1 : Nat) : Time) < e.time ∧ e.time + 1 < (((1 + ob.duration : Nat) : Nat) : Time) ∧
    k.st.ingestHeld 0 = ob.ingestDemand ∧ k.st.cl.ingest = [0, 1] := by
  obtain ⟨⟨e, p, hpk, hpp, ha, het⟩, ⟨ob, hob, _, hast, hdur, hdem⟩, hpool, hheld, hcr⟩ :=
    otView_spec otSim3.2.2.1
  exact ⟨_, e, p, ob, SimReach.start.steps 17, hcr, hpk, hpp, ha, hob, hast, by rw [het]; decide +kernel,
    by rw [het, hdur]; decide +kernel, by rw [hheld, hdem], hpool⟩

/-- a block start in the LAST instant of an ingest (time 3, start 1, duration 3), the pool still holding
exactly the demand (F13: before the repair both machines had been given back by then) -/
example : ∃ k e p ob, SimReach {} (otW 3 2) k ∧ k.st.crashed = none ∧ k.peek = some e ∧
    k.st.proc? e.pid = some p ∧ p.alive = true ∧ k.st.obs? 0 = some ob ∧ ob.ast = some 1 ∧
    ((1 : Nat) : Time) < e.time ∧ e.time < (((1 + ob.duration : Nat) : Nat) : Time) ∧
    ¬ e.time + 1 < (((1 + ob.duration : Nat) : Nat) : Time) ∧
    k.st.ingestHeld 0 = ob.ingestDemand ∧ k.st.cl.ingest = [0, 1] := by
  obtain ⟨⟨e, p, hpk, hpp, ha, het⟩, ⟨ob, hob, _, hast, hdur, hdem⟩, hpool, hheld, hcr⟩ :=
    otView_spec otSim3.2.2.2.2.1
  exact ⟨_, e, p, ob, SimReach.start.steps 35, hcr, hpk, hpp, ha, hob, hast, by rw [het]; decide +kernel,
    by rw [het, hdur]; decide +kernel, by rw [het, hdur]; decide +kernel, by rw [hheld, hdem], hpool⟩

/-- **Where the machines are given back.**  Duration 3 (`otW 3 2`, start 1): two machines held at the
first block start of time 3 = start + duration - 1, and still after both allocation processes have
polled in that instant (step 35); at time 4 = start + duration: two held when the telescope's block is
next (step 40, RUNNING) and after it (step 41, FINISHED); then one (step 43), then none (step 44).
Duration 2 (`otW 2 2`, start 1): at time 3 = start + duration the observation is FINISHED (the
telescope's block has run) and the two machines are still held; they are given back three kernel steps
later in that instant. -/
-- F13: before the repair the duration-3 run showed an empty pool at step 35 (t = 3) and at 41 (t = 4)
theorem C08_ingest_release_examples :
    otView (ilSimSteps {} 33 (SimState.start (otW 3 2))) =
      ⟨some 3, some true, [0, 1], 2, some .running, some (some 1), none, some 3, some 2⟩ ∧
    otView (ilSimSteps {} 35 (SimState.start (otW 3 2))) =
      ⟨some 3, some true, [0, 1], 2, some .running, some (some 1), none, some 3, some 2⟩ ∧
    otView (ilSimSteps {} 40 (SimState.start (otW 3 2))) =
      ⟨some 4, some true, [0, 1], 2, some .running, some (some 1), none, some 3, some 2⟩ ∧
    otView (ilSimSteps {} 41 (SimState.start (otW 3 2))) =
      ⟨some 4, some true, [0, 1], 2, some .finished, some (some 1), none, some 3, some 2⟩ ∧
    otView (ilSimSteps {} 43 (SimState.start (otW 3 2))) =
      ⟨some 4, some true, [1], 1, some .finished, some (some 1), none, some 3, some 2⟩ ∧
    otView (ilSimSteps {} 44 (SimState.start (otW 3 2))) =
      ⟨some 4, some true, [], 0, some .finished, some (some 1), none, some 3, some 2⟩ ∧
    otView (ilSimSteps {} 32 (SimState.start (otW 2 2))) =
      ⟨some 3, some true, [0, 1], 2, some .finished, some (some 1), none, some 2, some 2⟩ ∧
    otView (ilSimSteps {} 35 (SimState.start (otW 2 2))) =
      ⟨some 3, some true, [], 0, some .finished, some (some 1), none, some 2, some 2⟩ :=
  ⟨otSim3.2.2.2.1, otSim3.2.2.2.2.1, otSim3.2.2.2.2.2.1, otSim3.2.2.2.2.2.2.1, otSim3.2.2.2.2.2.2.2.1,
    otSim3.2.2.2.2.2.2.2.2, otSim2.1, otSim2.2⟩

end Topsim
