/-
  C07, the WHEN of the release — "… and exactly that amount is freed WHEN ITS WORKFLOW COMPLETES":
  the data of an observation is handed back to the hot buffer in the very scheduling round in which
  its workflow is found complete, not some rounds later.

  Vocabulary.  A block of the `allocate_tasks` process of observation `o`
  (`ProcKind.allocTasks o schedule pairs pool fin`) (a) prunes the tasks with a FINISHED record from
  the plan (`updateCurrentPlan`), (b) runs the scheduling algorithm, (c) when the algorithm reports
  the workflow finished and nothing is left to allocate, marks the observation finished in the
  buffer (`Buffer.remove`: `o` moves from `hot.scheduled` to `hot.finished`, `hot.cur` grows by
  `sizeOf o`), releases the batch reservation, takes `o` out of the queue and enters its final phase
  (`fin = true`; the next block just ends the process).  `tstat s t` is the status of task `t` as the
  scheduler sees it (the first record of `t` in `s.tasks`; UNSCHEDULED when there is none).

  (0) every algorithm reports FINISHED on an empty plan: `C07_alg_finished_on_empty_plan`,
      `C07_alg_empty_plan_no_raise`.
  (1) block level: `C07_freed_when_complete_block` (states of runs of the shipped algorithms),
      `C07_freed_when_complete_block_partial` (ANY state, with the two facts the invariants supply
      stated as hypotheses); the any-state form without them is FALSE, but only in unreachable
      model states (`C07_freed_when_complete_block_statement_false`).  Converse guard:
      `C07_not_freed_while_running_block` (+ `_partial`, `_statement_false`).
  (2) trajectory level: `C07_freed_when_complete_traj`, `C07_complete_persists_traj`.
  (3) simulator level, with time: `C07_freed_within_one_step_simpy`.
  Non-vacuity on the witness run `c04W1`: `C07_freed_when_complete_nonvacuous`,
  `C07_freed_within_one_step_nonvacuous`.
-/
import TopsimProofs.Freed5
import TopsimProps.C08Traj

namespace Topsim
namespace Sys

/-! ### (0) the algorithms on an empty plan -/

/-- **Each algorithm reports "finished" on an empty plan.**  Whatever the state, the cluster, the
leftover schedule `sc` and the pool: when `run()` returns (does not raise) on a plan without tasks,
the workflow status it returns is FINISHED; BatchProcessing, QueueProcessing,
DynamicSchedulingFromPlan and GreedySchedulingFromPlan return the leftover schedule unchanged (they
propose nothing); a user algorithm (the oracle) returns the leftover schedule plus its own
proposals — so what is needed of it is that it proposes nothing for a complete workflow. -/
theorem C07_alg_finished_on_empty_plan (s : Sys) (orc : Oracle) (plan : Plan) (sc : List (Tid × Mid))
    (po : List Tid) (out : AlgOut) (hnil : plan.tasks = [])
    (h : s.runAlgorithm orc plan sc po = .ok out) :
    out.status = .finished ∧
    (s.alg ≠ .oracle → out.schedule = sc) ∧
    (s.alg = .oracle → out.schedule = orc.proposals.foldl (fun d p => dictSet d p.1 p.2) sc) :=
  freed_runAlgorithm_nil s orc plan sc po out hnil h

/-- Queue, dynamic, greedy and a user algorithm cannot raise on an empty plan.  (BatchProcessing
can: `_provision_resources` runs before the plan is looked at — a configuration error such as a
missing entry of the observation in the partition table surfaces there.) -/
theorem C07_alg_empty_plan_no_raise (s : Sys) (orc : Oracle) (plan : Plan) (sc : List (Tid × Mid))
    (po : List Tid) (hnil : plan.tasks = []) (halg : NoBatch s.alg ∨ s.alg = .oracle) :
    ∃ out, s.runAlgorithm orc plan sc po = .ok out :=
  freed_runAlgorithm_nil_ok s orc plan sc po hnil halg

/-! ### (1) block level -/

/-- **(1) in ANY state** (reachable or not, any algorithm).  Process `pid` is a live
`allocate_tasks` process of observation `o` that carries no leftover proposal (`schedule = []`);
`o` is resident in the hot tier as scheduled; `o` has a plan whose remaining tasks all have a
FINISHED record — the workflow is complete; a user algorithm proposes nothing.  If the block does
not raise, then it yields one time unit and, after it:
`o` has moved from `hot.scheduled` to `hot.finished`; `hot.cur` has grown by exactly `sizeOf o`;
nothing else of the buffer has changed; `o` was queued and one occurrence of it has left the queue
(none is left when the queue has no duplicate); the process is in its final phase, due one unit
later. -/
theorem C07_freed_when_complete_block_partial (s : Sys) (pid : Nat) (orc : Oracle) (p : Proc) (o : Oid)
    (pa : List (Tid × Mid)) (po : List Tid) (pl : Plan)
    (hp : s.proc? pid = some p) (ha : p.alive = true) (hk : p.k = .allocTasks o [] pa po false)
    (hin : o ∈ s.buf.hot.scheduled) (hpl : s.plan? o = some pl)
    (hfin : ∀ t ∈ pl.tasks, ∃ r, s.task? t = some r ∧ r.status = .finished)
    (horc : s.alg = .oracle → orc.proposals = [])
    (hnr : ∀ e, (s.resume pid orc).2 ≠ .raised e) :
    (s.resume pid orc).2 = .timeout 1 ∧
    (s.resume pid orc).1.buf.hot.finished = s.buf.hot.finished ++ [o] ∧
    (s.resume pid orc).1.buf.hot.scheduled = s.buf.hot.scheduled.erase o ∧
    (s.resume pid orc).1.buf.hot.cur = s.buf.hot.cur + s.buf.sizeOf o ∧
    (s.resume pid orc).1.buf.hot.total = s.buf.hot.total ∧
    (s.resume pid orc).1.buf.hot.stored = s.buf.hot.stored ∧
    (s.resume pid orc).1.buf.cold = s.buf.cold ∧
    (s.resume pid orc).1.buf.size = s.buf.size ∧
    o ∈ s.queue ∧ (s.resume pid orc).1.queue = s.queue.erase o ∧
    (s.queue.Nodup → o ∉ (s.resume pid orc).1.queue) ∧
    ∃ po', (s.resume pid orc).1.proc? pid =
      some { p with k := .allocTasks o [] pa po' true, pc := p.pc + 1, wake := p.wake + 1 } := by
  obtain ⟨h1, h2, h3, h4, h5⟩ := freed_resume_complete s pid orc p o pa po pl hp ha hk hpl
    (fun t ht => (tstat_finished_iff s t).mpr (hfin t ht)) horc hin hnr
  obtain ⟨r1, r2, r3, r4, r5, r6, r7⟩ := freed_remove_spec s.buf o hin
  rw [h2]
  refine ⟨h1, r2, r3, r1, r4, r5, r6, r7, h4, h3, ?_, h5⟩
  intro hnd hmem
  rw [h3] at hmem
  exact (List.Nodup.mem_erase_iff hnd).mp hmem |>.1 rfl

/-- the final phase: the next block of the process ends it and changes neither buffer nor queue -/
theorem C07_freed_final_phase_block (s : Sys) (pid : Nat) (orc : Oracle) (p : Proc) (o : Oid)
    (sc pa : List (Tid × Mid)) (po : List Tid)
    (hp : s.proc? pid = some p) (ha : p.alive = true) (hk : p.k = .allocTasks o sc pa po true) :
    (s.resume pid orc).2 = .done ∧ (s.resume pid orc).1.buf = s.buf ∧
    (s.resume pid orc).1.queue = s.queue :=
  freed_resume_final s pid orc p o sc pa po hp ha hk

/-- With queue, dynamic or greedy (or a user algorithm that proposes nothing) and the observation
queued, the completing block does not raise: the hypothesis `hnr` of (1) is then redundant. -/
theorem C07_freed_when_complete_block_no_raise (s : Sys) (pid : Nat) (orc : Oracle) (p : Proc) (o : Oid)
    (pa : List (Tid × Mid)) (po : List Tid) (pl : Plan)
    (hp : s.proc? pid = some p) (ha : p.alive = true) (hk : p.k = .allocTasks o [] pa po false)
    (hpl : s.plan? o = some pl)
    (hfin : ∀ t ∈ pl.tasks, ∃ r, s.task? t = some r ∧ r.status = .finished)
    (halg : NoBatch s.alg ∨ (s.alg = .oracle ∧ orc.proposals = [])) (hq : o ∈ s.queue) :
    ∀ e, (s.resume pid orc).2 ≠ .raised e :=
  freed_resume_complete_noraise s pid orc p o pa po pl hp ha hk hpl
    (fun t ht => (tstat_finished_iff s t).mpr (hfin t ht)) halg hq

/-- **(1), the target, in the states of the runs.**  `s` is a state of a run of one of the four
shipped algorithms (any block order, `ReachOk`; the initial buffer holds no observation).  Process
`pid` is a live `allocate_tasks` process of observation `o` (any local variables), and `o` has a
plan whose remaining tasks all have a FINISHED record.  Then the process carries no leftover
proposal and `o` is resident as scheduled; and if the block does not raise, then after it `o` is in
`hot.finished` and no longer in `hot.scheduled`, `hot.cur` has grown by exactly `sizeOf o`, `o` is
no longer in the queue, and the process is in its final phase. -/
theorem C07_freed_when_complete_block (s0 s : Sys) (hw : WFConfig s0)
    (hb0 : s0.buf.hot.stored = [] ∧ s0.buf.hot.scheduled = [] ∧ s0.buf.hot.finished = [] ∧
      s0.buf.cold.stored = [])
    (halg : FreedShipped s0.alg) (h : ReachOk s0 s)
    (pid : Nat) (orc : Oracle) (p : Proc) (o : Oid) (sc pa : List (Tid × Mid)) (po : List Tid) (pl : Plan)
    (hp : s.proc? pid = some p) (ha : p.alive = true) (hk : p.k = .allocTasks o sc pa po false)
    (hpl : s.plan? o = some pl)
    (hfin : ∀ t ∈ pl.tasks, ∃ r, s.task? t = some r ∧ r.status = .finished)
    (hnr : ∀ e, (s.resume pid orc).2 ≠ .raised e) :
    sc = [] ∧ o ∈ s.buf.hot.scheduled ∧
    (s.resume pid orc).2 = .timeout 1 ∧
    o ∈ (s.resume pid orc).1.buf.hot.finished ∧
    (s.resume pid orc).1.buf.hot.finished = s.buf.hot.finished ++ [o] ∧
    (s.resume pid orc).1.buf.hot.scheduled = s.buf.hot.scheduled.erase o ∧
    (s.resume pid orc).1.buf.hot.cur = s.buf.hot.cur + s.buf.sizeOf o ∧
    o ∈ s.queue ∧ o ∉ (s.resume pid orc).1.queue ∧
    ∃ po', (s.resume pid orc).1.proc? pid =
      some { p with k := .allocTasks o [] pa po' true, pc := p.pc + 1, wake := p.wake + 1 } := by
  have hbuf : bufList s0.buf = [] := by
    obtain ⟨h1, h2, h3, h4⟩ := hb0
    simp [bufList, h1, h2, h3, h4]
  obtain ⟨g1, g2, g3, g4, g5, g6, g7, g8⟩ := freed_block_reach s0 s hw hbuf halg h pid orc p o sc pa po pl
    hp ha hk hpl (fun t ht => (tstat_finished_iff s t).mpr (hfin t ht)) hnr
  obtain ⟨r1, r2, r3, _⟩ := freed_remove_spec s.buf o g2
  rw [g5]
  refine ⟨g1, g2, g4, by rw [r2]; simp, r2, r3, r1, g7, ?_, g8⟩
  intro hmem
  rw [g6] at hmem
  exact (List.Nodup.mem_erase_iff g3).mp hmem |>.1 rfl

/-- (1) read literally for EVERY state of the model, reachable or not — FALSE (see below) -/
def C07_freed_when_complete_block_statement : Prop :=
  ∀ (s : Sys) (pid : Nat) (orc : Oracle) (p : Proc) (o : Oid) (sc pa : List (Tid × Mid)) (po : List Tid)
    (pl : Plan),
    s.proc? pid = some p → p.alive = true → p.k = .allocTasks o sc pa po false →
    s.plan? o = some pl → (∀ t ∈ pl.tasks, ∃ r, s.task? t = some r ∧ r.status = .finished) →
    (∀ e, (s.resume pid orc).2 ≠ .raised e) →
    o ∈ (s.resume pid orc).1.buf.hot.finished

/-- The any-state form fails in a state NO RUN PRODUCES (so nothing to replay on the code): `freedSA`
is the state of `c04W1` just before t = 7 with the observation deleted from `hot.scheduled` by hand.
`HotBuffer.remove` then refuses, the block yields without raising, and nothing is freed.  In the
states of the runs a live `allocate_tasks` process has its observation in `scheduled`
(`LcATI.sched`) and its leftover proposals are UNSCHEDULED tasks of the plan (`RI.sl`) — the two
hypotheses of `C07_freed_when_complete_block_partial`. -/
theorem C07_freed_when_complete_block_statement_false : ¬ C07_freed_when_complete_block_statement := by
  intro hst
  have h := freedSA_chk
  simp only [Bool.and_eq_true, decide_eq_true_eq] at h
  obtain ⟨⟨⟨⟨h1, h2⟩, h3⟩, h4⟩, h5⟩ := h
  obtain ⟨p, hp, ha, hk⟩ := freedProcView_spec h1
  have hpl : ∃ pl, freedSA.plan? 0 = some pl ∧ pl.tasks = [.wf 0 1 1] := by
    cases hl : freedSA.plans with
    | nil => rw [hl] at h2; simp at h2
    | cons a r =>
      rw [hl] at h2
      simp only [List.map_cons, List.cons.injEq, Prod.mk.injEq, List.map_eq_nil_iff] at h2
      obtain ⟨⟨a1, a2⟩, _⟩ := h2
      exact ⟨a, by unfold plan?; rw [hl]; simp [a1], a2⟩
  obtain ⟨pl, hpl, hts⟩ := hpl
  have := hst freedSA 10 {} p 0 _ _ _ pl hp ha hk hpl
    (fun t ht => by
      rw [hts] at ht
      simp only [List.mem_singleton] at ht
      subst ht
      exact (tstat_finished_iff _ _).mp h3)
    (freedYTag_noraise h4)
  rw [h5] at this
  simp at this

/-- **The converse guard, in ANY state**: while some task of the plan of `o` has no FINISHED record
(and the plan is not marked FINISHED — in the states of the runs a plan marked FINISHED is empty),
NO block of ANY process moves `o` to the removed observations; and the block of an `allocate_tasks`
process of `o` leaves the whole buffer and the queue exactly as they are — it frees nothing of `o`,
whatever the algorithm returns and whether or not it raises. -/
theorem C07_not_freed_while_running_block_partial (s : Sys) (pid : Nat) (orc : Oracle) (o : Oid) (pl : Plan)
    (hpl : s.plan? o = some pl) (hun : ∃ t ∈ pl.tasks, tstat s t ≠ .finished)
    (hst : pl.status ≠ .finished) :
    (o ∈ (s.resume pid orc).1.buf.hot.finished → o ∈ s.buf.hot.finished) ∧
    (∀ p sc pa po fn, s.proc? pid = some p → p.k = .allocTasks o sc pa po fn →
      (s.resume pid orc).1.buf = s.buf ∧ (s.resume pid orc).1.queue = s.queue) :=
  freed_resume_running s pid orc o pl hpl hun hst

/-- **The converse guard in the states of the runs** (any algorithm, `ReachOk`, not raised): while
some task of the plan of `o` has no FINISHED record, no block moves `o` to the removed observations,
and a block of `o`'s `allocate_tasks` process leaves buffer and queue as they are. -/
theorem C07_not_freed_while_running_block (s0 s : Sys) (hw : WFConfig s0)
    (hb0 : s0.buf.hot.stored = [] ∧ s0.buf.hot.scheduled = [] ∧ s0.buf.hot.finished = [] ∧
      s0.buf.cold.stored = [])
    (h : ReachOk s0 s) (hc : s.crashed = none) (pid : Nat) (orc : Oracle) (o : Oid) (pl : Plan)
    (hpl : s.plan? o = some pl) (hun : ∃ t ∈ pl.tasks, tstat s t ≠ .finished) :
    (o ∈ (s.resume pid orc).1.buf.hot.finished → o ∈ s.buf.hot.finished) ∧
    (∀ p sc pa po fn, s.proc? pid = some p → p.k = .allocTasks o sc pa po fn →
      (s.resume pid orc).1.buf = s.buf ∧ (s.resume pid orc).1.queue = s.queue) := by
  have hbuf : bufList s0.buf = [] := by
    obtain ⟨h1, h2, h3, h4⟩ := hb0
    simp [bufList, h1, h2, h3, h4]
  exact freed_running_reach s0 s hw hbuf h hc pid orc o pl hpl hun

/-- the converse guard read literally for EVERY state of the model — FALSE (see below) -/
def C07_not_freed_while_running_block_statement : Prop :=
  ∀ (s : Sys) (pid : Nat) (orc : Oracle) (o : Oid) (pl : Plan),
    s.plan? o = some pl → (∃ t ∈ pl.tasks, tstat s t ≠ .finished) →
    o ∈ (s.resume pid orc).1.buf.hot.finished → o ∈ s.buf.hot.finished

/-- It fails in a state NO RUN PRODUCES: `freedSB` is the state of `c04W1` just before t = 6 (task
`0_1_1` RUNNING) with the plan's status set to FINISHED by hand; the algorithm then returns the
status it was given and the block hands the observation back although a task is running.  In the
states of the runs a plan marked FINISHED is empty (`WI.pf`). -/
theorem C07_not_freed_while_running_block_statement_false :
    ¬ C07_not_freed_while_running_block_statement := by
  intro hst
  have h := freedSB_chk
  simp only [Bool.and_eq_true, decide_eq_true_eq] at h
  obtain ⟨⟨⟨⟨_, h2⟩, h3⟩, h4⟩, h5⟩ := h
  have hpl : ∃ pl, freedSB.plan? 0 = some pl ∧ pl.tasks = [.wf 0 1 1] := by
    cases hl : freedSB.plans with
    | nil => rw [hl] at h2; simp at h2
    | cons a r =>
      rw [hl] at h2
      simp only [List.map_cons, List.cons.injEq, Prod.mk.injEq, List.map_eq_nil_iff] at h2
      obtain ⟨⟨a1, a2⟩, _⟩ := h2
      exact ⟨a, by unfold plan?; rw [hl]; simp [a1], a2⟩
  obtain ⟨pl, hpl, hts⟩ := hpl
  have := hst freedSB 10 {} 0 pl hpl ⟨.wf 0 1 1, by rw [hts]; simp, by rw [h3]; simp⟩
    (by rw [h5]; simp)
  rw [h4] at this
  simp at this

/-! ### (2) trajectory level -/

/-- **(2)** In every state of every run of a shipped algorithm that has not raised (any block
order, any oracle input; the initial buffer holds no observation): if observation `o` is resident
in the hot tier as scheduled and every task record of its workflow is FINISHED, then
* its `allocate_tasks` process `p` is alive, has not finished, carries no leftover proposal, and
  `o` is queued;
* its NEXT block — run now, with any oracle input — either raises or frees `o`: it yields one time
  unit, `o` moves from `hot.scheduled` to `hot.finished`, `hot.cur` grows by exactly `sizeOf o`,
  `o` leaves the queue and the process enters its final phase;
* with queue, dynamic or greedy the block cannot raise.
(Whenever the block runs later: `C07_complete_persists_traj` keeps the hypotheses until then.) -/
theorem C07_freed_when_complete_traj (s0 s : Sys) (hw : WFConfig s0)
    (hb0 : s0.buf.hot.stored = [] ∧ s0.buf.hot.scheduled = [] ∧ s0.buf.hot.finished = [] ∧
      s0.buf.cold.stored = [])
    (halg : FreedShipped s0.alg) (h : ReachOk s0 s) (hc : s.crashed = none) (o : Oid)
    (hin : o ∈ s.buf.hot.scheduled)
    (hall : ∀ r ∈ s.tasks, (∃ c n, r.id = Tid.wf o c n) → r.status = .finished) :
    ∃ p pa po, s.proc? p.pid = some p ∧ p.alive = true ∧ p.k = .allocTasks o [] pa po false ∧
      o ∈ s.queue ∧
      (∀ orc : Oracle, (∃ e, (s.resume p.pid orc).2 = .raised e) ∨
        ((s.resume p.pid orc).2 = .timeout 1 ∧
          o ∈ (s.resume p.pid orc).1.buf.hot.finished ∧
          (s.resume p.pid orc).1.buf.hot.scheduled = s.buf.hot.scheduled.erase o ∧
          (s.resume p.pid orc).1.buf.hot.cur = s.buf.hot.cur + s.buf.sizeOf o ∧
          o ∉ (s.resume p.pid orc).1.queue ∧
          ∃ po', (s.resume p.pid orc).1.proc? p.pid =
            some { p with k := .allocTasks o [] pa po' true, pc := p.pc + 1, wake := p.wake + 1 })) ∧
      (NoBatch s0.alg → ∀ (orc : Oracle) e, (s.resume p.pid orc).2 ≠ .raised e) := by
  have hbuf : bufList s0.buf = [] := by
    obtain ⟨h1, h2, h3, h4⟩ := hb0
    simp [bufList, h1, h2, h3, h4]
  obtain ⟨p, pa, po, pl, hp, ha, hk, hq, hpl, hfin⟩ := freed_traj_state s0 s hw hbuf halg h hc o hin hall
  have hri := freed_reach_ri s0 s hw hbuf halg h.toReach
  have halgs : s.alg = s0.alg := reach_alg h.toReach
  have hno : s.alg ≠ .oracle := by rw [halgs]; exact halg.noOracle
  refine ⟨p, pa, po, hp, ha, hk, hq, ?_, ?_⟩
  · intro orc
    by_cases hr : ∃ e, (s.resume p.pid orc).2 = .raised e
    · exact Or.inl hr
    · right
      obtain ⟨h1, h2, h3, _, h5⟩ := freed_resume_complete s p.pid orc p o pa po pl hp ha hk hpl hfin
        (fun e => absurd e hno) hin (fun e he => hr ⟨e, he⟩)
      obtain ⟨r1, r2, r3, _⟩ := freed_remove_spec s.buf o hin
      rw [h2]
      refine ⟨h1, by rw [r2]; simp, r3, r1, ?_, h5⟩
      intro hmem
      rw [h3] at hmem
      exact (List.Nodup.mem_erase_iff hri.qNodup).mp hmem |>.1 rfl
  · intro hnb orc
    exact freed_resume_complete_noraise s p.pid orc p o pa po pl hp ha hk hpl hfin
      (Or.inl (by rw [halgs]; exact hnb)) hq

/-- **"Complete" persists until the observation is freed.**  Same runs.  `o` is resident as
scheduled and every record of its workflow is FINISHED.  An enabled process `pid` runs a block and
the run has still not raised.  If `pid` is `o`'s `allocate_tasks` process, `o` is among the removed
observations after the block; otherwise `o` is still resident as scheduled and every record of its
workflow is still FINISHED. -/
theorem C07_complete_persists_traj (s0 s : Sys) (hw : WFConfig s0)
    (hb0 : s0.buf.hot.stored = [] ∧ s0.buf.hot.scheduled = [] ∧ s0.buf.hot.finished = [] ∧
      s0.buf.cold.stored = [])
    (halg : FreedShipped s0.alg) (h : ReachOk s0 s) (pid : Nat) (orc : Oracle) (hen : s.enabled pid)
    (hc' : (s.resume pid orc).1.crashed = none) (o : Oid) (hin : o ∈ s.buf.hot.scheduled)
    (hall : ∀ r ∈ s.tasks, (∃ c n, r.id = Tid.wf o c n) → r.status = .finished) :
    ∃ p, s.proc? pid = some p ∧ p.alive = true ∧
      ((∃ sc pa po, p.k = .allocTasks o sc pa po false) → o ∈ (s.resume pid orc).1.buf.hot.finished) ∧
      ((∀ sc pa po, p.k ≠ .allocTasks o sc pa po false) →
        o ∈ (s.resume pid orc).1.buf.hot.scheduled ∧
        ∀ r ∈ (s.resume pid orc).1.tasks, (∃ c n, r.id = Tid.wf o c n) → r.status = .finished) := by
  have hbuf : bufList s0.buf = [] := by
    obtain ⟨h1, h2, h3, h4⟩ := hb0
    simp [bufList, h1, h2, h3, h4]
  exact freed_done_step s0 s hw hbuf halg h hen hc' o hin hall

end Sys

/-! ### (3) simulator level, with time -/

/-- **(3)** Along an uninterrupted run of the simulator (SimPy's order, `SimRun`) with a shipped
algorithm.  The kernel step `k → k1` has just run a block at time `e.time` (`e` is the event it
popped) — for instance the block in which the cluster marks the last task of `o`'s workflow
FINISHED — and the run goes on; in the state after that block `o` is resident as scheduled and
every record of its workflow is FINISHED.  Then `o` is freed by time `e.time + 1` at the latest: in
every later state `k2` of the run (`FreedRunFrom`: further kernel steps of the same `env.run`) in
which every pending event is later than `e.time + 1`, and that has not raised, `o` is among the
removed observations.  (The `allocate_tasks` poller is due at a whole instant at most one unit
after the block that just ran, `FreedClock`; nothing un-completes the workflow meanwhile.) -/
theorem C07_freed_within_one_step_simpy (env : SimEnv) (s0 : Sys) (hw : Sys.WFConfig s0)
    (hb0 : s0.buf.hot.stored = [] ∧ s0.buf.hot.scheduled = [] ∧ s0.buf.hot.finished = [] ∧
      s0.buf.cold.stored = [])
    (halg : Sys.FreedShipped s0.alg) (k k1 : SimState) (e : HEntry) (hk : SimRun env s0 k)
    (hh : k.st.halted = false) (hpk : k.peek = some e) (hs : k.step (simHandler env) = some k1)
    (hh1 : k1.st.halted = false) (o : Oid) (hin : o ∈ k1.st.buf.hot.scheduled)
    (hall : ∀ r ∈ k1.st.tasks, (∃ c n, r.id = Tid.wf o c n) → r.status = .finished)
    (k2 : SimState) (hpath : FreedRunFrom env k1 k2)
    (hpast : ∀ x ∈ k2.heap, e.time + 1 < x.time) (hc2 : k2.st.crashed = none) :
    o ∈ k2.st.buf.hot.finished := by
  have hbuf : Sys.bufList s0.buf = [] := by
    obtain ⟨h1, h2, h3, h4⟩ := hb0
    simp [Sys.bufList, h1, h2, h3, h4]
  exact freed_within_one_step env s0 hw hbuf halg k k1 e hk hh hpk hs hh1 o hin hall k2 hpath hpast hc2

/-- `env.run(until=u)` from a state of the run leads to a later state of the run -/
theorem C07_freed_runUntil_later (env : SimEnv) (u : Time) (fuel : Nat) (k : SimState) :
    FreedRunFrom env k (SimState.runUntil env u fuel k) :=
  FreedRunFrom.runUntil env u fuel k

/-- the state part of (2) along the simulator's runs (transferred with `L3_transfer`): an
observation resident as scheduled whose workflow records are all FINISHED has a live
`allocate_tasks` process with no leftover proposal, is queued, and has a plan whose remaining tasks
are all FINISHED in the scheduler's view -/
theorem C07_complete_has_poller_simpy (env : SimEnv) (s0 : Sys) (hw : Sys.WFConfig s0)
    (hb0 : s0.buf.hot.stored = [] ∧ s0.buf.hot.scheduled = [] ∧ s0.buf.hot.finished = [] ∧
      s0.buf.cold.stored = [])
    (halg : Sys.FreedShipped s0.alg) (k : SimState) (h : SimRun env s0 k) (hc : k.st.crashed = none)
    (o : Oid) (hin : o ∈ k.st.buf.hot.scheduled)
    (hall : ∀ r ∈ k.st.tasks, (∃ c n, r.id = Tid.wf o c n) → r.status = .finished) :
    ∃ p pa po pl, k.st.proc? p.pid = some p ∧ p.alive = true ∧ p.k = .allocTasks o [] pa po false ∧
      o ∈ k.st.queue ∧ k.st.plan? o = some pl ∧ ∀ t ∈ pl.tasks, Sys.tstat k.st t = .finished := by
  have hbuf : Sys.bufList s0.buf = [] := by
    obtain ⟨h1, h2, h3, h4⟩ := hb0
    simp [Sys.bufList, h1, h2, h3, h4]
  exact L3_transfer env s0 hw
    (fun s => s.crashed = none → ∀ o, o ∈ s.buf.hot.scheduled →
      (∀ r ∈ s.tasks, (∃ c n, r.id = Tid.wf o c n) → r.status = .finished) →
      ∃ p pa po pl, s.proc? p.pid = some p ∧ p.alive = true ∧ p.k = .allocTasks o [] pa po false ∧
        o ∈ s.queue ∧ s.plan? o = some pl ∧ ∀ t ∈ pl.tasks, Sys.tstat s t = .finished)
    (fun s hs hc o hin hall => Sys.freed_traj_state s0 s hw hbuf halg hs hc o hin hall)
    (fun _ h => h) k h hc o hin hall

/-! ### non-vacuity -/

namespace Sys

/-- **Non-vacuity of (1) and (2)** on the witness run `c04W1` (one observation, rate 1 for 1 step,
workflow chain `0 → 1`, one machine, queue algorithm, no delays).  `freedS7` is the simulator's state
after every event before t = 7.  It is a state of a run that has not raised; observation 0 is
resident as scheduled, all three task records are FINISHED (the cluster marked the last one at
t = 6, after `allocate_tasks` had run at 6), the plan still lists task `0_1_1`; process 10 is the
live `allocate_tasks` process of observation 0 with no leftover proposal.  So all hypotheses of
`C07_freed_when_complete_block` hold of its block, and the block (at t = 7 = 6 + 1) frees the
observation: `hot.finished = [0]`, `hot.scheduled = []`, `hot.cur` goes from 99 to 100
(`sizeOf 0 = 1`), the queue becomes empty, the process enters its final phase. -/
theorem C07_freed_when_complete_nonvacuous :
    ∃ p pa po pl, ReachOk c04W1 freedS7 ∧ freedS7.crashed = none ∧ FreedShipped c04W1.alg ∧
      freedS7.proc? 10 = some p ∧ p.alive = true ∧ p.k = .allocTasks 0 [] pa po false ∧
      0 ∈ freedS7.buf.hot.scheduled ∧ freedS7.plan? 0 = some pl ∧ pl.tasks = [.wf 0 1 1] ∧
      (∀ t ∈ pl.tasks, ∃ r, freedS7.task? t = some r ∧ r.status = .finished) ∧
      (∀ r ∈ freedS7.tasks, (∃ c n, r.id = Tid.wf 0 c n) → r.status = .finished) ∧
      (∀ e, (freedS7.resume 10 {}).2 ≠ .raised e) ∧
      (freedS7.resume 10 {}).1.buf.hot.finished = [0] ∧
      (freedS7.resume 10 {}).1.buf.hot.scheduled = [] ∧
      freedS7.buf.hot.cur = 99 ∧ freedS7.buf.sizeOf 0 = 1 ∧
      (freedS7.resume 10 {}).1.buf.hot.cur = 100 ∧
      freedS7.queue = [0] ∧ (freedS7.resume 10 {}).1.queue = [] := by
  have h := freedS7_chk
  simp only [Bool.and_eq_true, Bool.not_eq_true', decide_eq_true_eq] at h
  obtain ⟨⟨⟨⟨⟨⟨⟨⟨⟨⟨⟨⟨⟨⟨⟨_, c1⟩, c2⟩, c3⟩, c4⟩, c5⟩, c6⟩, c7⟩, c8⟩, c9⟩, c10⟩, c11⟩, c12⟩, c13⟩, c14⟩, _⟩ := h
  obtain ⟨p, hp, ha, hk⟩ := freedProcView_spec c2
  have hpl : ∃ pl, freedS7.plan? 0 = some pl ∧ pl.tasks = [.wf 0 1 1] := by
    cases hl : freedS7.plans with
    | nil => rw [hl] at c3; simp at c3
    | cons a r =>
      rw [hl] at c3
      simp only [List.map_cons, List.cons.injEq, Prod.mk.injEq, List.map_eq_nil_iff] at c3
      obtain ⟨⟨a1, a2⟩, _⟩ := c3
      exact ⟨a, by unfold plan?; rw [hl]; simp [a1], a2⟩
  obtain ⟨pl, hpl, hts⟩ := hpl
  have hall : ∀ r ∈ freedS7.tasks, (∃ c n, r.id = Tid.wf 0 c n) → r.status = .finished := by
    intro r hr _
    have : (r.id, r.status) ∈ freedS7.tasks.map (fun r => (r.id, r.status)) :=
      List.mem_map_of_mem (f := fun r : TaskRec => (r.id, r.status)) hr
    rw [c4] at this
    simp only [List.mem_cons, Prod.mk.injEq, List.not_mem_nil, or_false] at this
    rcases this with ⟨_, e⟩ | ⟨_, e⟩ | ⟨_, e⟩ <;> exact e
  have hfin : ∀ t ∈ pl.tasks, ∃ r, freedS7.task? t = some r ∧ r.status = .finished := by
    intro t ht
    rw [hts] at ht
    simp only [List.mem_singleton] at ht
    subst ht
    cases h0 : freedS7.task? (.wf 0 1 1) with
    | none =>
      exfalso
      have : (Tid.wf 0 1 1) ∈ freedS7.tasks.map (fun r => r.id) := by
        have e : freedS7.tasks.map (fun r => r.id) = (freedS7.tasks.map (fun r => (r.id, r.status))).map (·.1) := by
          simp [List.map_map]
        rw [e, c4]; simp
      obtain ⟨r, hr, hid⟩ := List.mem_map.mp this
      unfold task? at h0
      rw [List.find?_eq_none] at h0
      exact h0 r hr (by simpa using hid)
    | some r => exact ⟨r, rfl, hall r (List.mem_of_find?_eq_some h0) ⟨1, 1, task?_id h0⟩⟩
  exact ⟨p, _, _, pl, freedS7_reach, c1, Or.inr (Or.inl rfl), hp, ha, hk, by rw [c5]; simp, hpl, hts, hfin, hall,
    freedYTag_noraise c10, c11, c12, c7, c8, c13, c9, c14⟩

end Sys

/-- **Non-vacuity of (3)** on the same run: the hypotheses of `C07_freed_within_one_step_simpy` hold
of the kernel step 53 → 54 of `c04W1` — the kernel pops the event of process 13 (the allocation
process of the last task `0_1_1`) at time 6, its block marks the task FINISHED — with `k2` the
state after `env.run(until=8)`; there every pending event is at time 8 > 6 + 1 and the
observation has been removed (by the `allocate_tasks` block at time 7). -/
theorem C07_freed_within_one_step_nonvacuous :
    ∃ (k k1 k2 : SimState) (e : HEntry),
      SimRun {} Sys.c04W1 k ∧ k.st.halted = false ∧ k.peek = some e ∧ e.time = 6 ∧
      k.step (simHandler {}) = some k1 ∧ k1.st.halted = false ∧
      (∃ r ∈ k.st.tasks, r.id = Tid.wf 0 1 1 ∧ r.status ≠ .finished) ∧
      (0 : Oid) ∈ k1.st.buf.hot.scheduled ∧
      (∀ r ∈ k1.st.tasks, (∃ c n, r.id = Tid.wf 0 c n) → r.status = .finished) ∧
      FreedRunFrom {} k1 k2 ∧ (∀ x ∈ k2.heap, e.time + 1 < x.time) ∧ k2.st.crashed = none ∧
      (0 : Oid) ∈ k2.st.buf.hot.finished := by
  have h := Sys.freedW3_chk
  simp only [Bool.and_eq_true, Bool.not_eq_true', decide_eq_true_eq, List.all_eq_true] at h
  obtain ⟨⟨⟨⟨⟨⟨⟨⟨c1, c2⟩, c3⟩, c4⟩, c5⟩, c6⟩, c7⟩, c8⟩, c9⟩ := h
  have hw := Sys.c04W1_wf
  have h5354 : (53 : Nat) ≤ 54 := by omega
  have hc53 := live_crashed_mono {} Sys.c04W1 hw (n := 53) (m := 54) h5354 c1
  obtain ⟨hrun, hh, k1, hs⟩ := live_simRun {} Sys.c04W1 hw rfl 53 hc53
  have hk1 : simAt {} Sys.c04W1 54 = k1 := simAt_succ_of_step hs
  cases hpk : (simAt {} Sys.c04W1 53).peek with
  | none => rw [hpk] at c3; simp at c3
  | some e =>
    rw [hpk] at c3
    simp only [Option.map_some, Option.some.injEq, Prod.mk.injEq] at c3
    refine ⟨simAt {} Sys.c04W1 53, k1, SimState.runUntil {} 8 200 k1, e, hrun, hh, hpk, c3.1, hs,
      by rw [← hk1]; exact c2, ?_, by rw [← hk1, c6]; simp, ?_, FreedRunFrom.runUntil _ _ _ _, ?_,
      by rw [← hk1]; exact c7, by rw [← hk1, c9]; simp⟩
    · have : (Tid.wf 0 1 1, TStatus.running) ∈
          (simAt {} Sys.c04W1 53).st.tasks.map (fun r => (r.id, r.status)) := by rw [c4]; simp
      obtain ⟨r, hr, e'⟩ := List.mem_map.mp this
      simp only [Prod.mk.injEq] at e'
      exact ⟨r, hr, e'.1, by rw [e'.2]; simp⟩
    · intro r hr _
      rw [← hk1] at hr
      have : (r.id, r.status) ∈ (simAt {} Sys.c04W1 54).st.tasks.map (fun r => (r.id, r.status)) :=
        List.mem_map_of_mem (f := fun r : TaskRec => (r.id, r.status)) hr
      rw [c5] at this
      simp only [List.mem_cons, Prod.mk.injEq, List.not_mem_nil, or_false] at this
      rcases this with ⟨_, e'⟩ | ⟨_, e'⟩ | ⟨_, e'⟩ <;> exact e'
    · intro x hx
      rw [← hk1] at hx
      have := c8 x hx
      rw [c3.1]
      simpa using this

end Topsim
