/-
  C07 — buffer space is conserved and never over- or under-flows.
  The conservation identity holds for ALL operation histories; the bounds
  `0 ≤ free ≤ capacity` are FALSE of the code in general (known finding K3:
  admission does not reserve space for ingests already in flight) and are
  proved under the explicit no-overcommit hypothesis.
-/
import TopsimProofs.BufferLemmas

namespace Topsim
namespace Buffer

/-- history hypotheses: data is deposited only for an observation that has not
been removed yet, an observation is removed at most once, and tier-move steps
are those of a move in progress (residual consistent with the rates) -/
abbrev WFHist := Buffer.WFHistDef

/-- used space (both tiers) always equals the data of the resident observations -/
theorem C07_accounting (hc hr cc cr : Int) (ops : List BufOp) (hwf : WFHist (init hc hr cc cr) ops) :
    let b := (init hc hr cc cr).run ops
    (b.hot.total - b.hot.cur) + (b.cold.total - b.cold.cur) = b.residentData :=
  run_accounting hc hr cc cr ops hwf

/-- without tier moves the cold tier is untouched and the identity is about the hot buffer alone -/
theorem C07_accounting_hot (hc hr cc cr : Int) (ops : List BufOp) (hwf : WFHist (init hc hr cc cr) ops)
    (hnt : ∀ op ∈ ops, match op with
      | .h2cBegin | .h2cStep _ _ | .c2hBegin | .c2hStep _ _ => False | _ => True) :
    let b := (init hc hr cc cr).run ops
    b.cold.cur = b.cold.total ∧ b.hot.total - b.hot.cur = b.residentData :=
  run_accounting_hot hc hr cc cr ops hwf hnt

/-- one ingest step deposits exactly the data rate … -/
theorem C07_deposit_step (b b' : Buffer) (o : Oid) (rate : Int) (h : b.deposit o rate = (b', none)) :
    b'.hot.cur = b.hot.cur - rate ∧ b'.sizeOf o = b.sizeOf o + rate ∧ rate ≤ b.hot.maxRate :=
  deposit_step b b' o rate h

/-- … and an ingest of `d` steps deposits exactly rate × d and stores the observation once -/
theorem C07_deposit_total (b b' : Buffer) (o : Oid) (rate : Int) (start d : Nat) (hd : 1 ≤ d)
    (h : b.ingestAll o rate start d = (b', none)) :
    b'.hot.cur = b.hot.cur - rate * d ∧ b'.sizeOf o = b.sizeOf o + rate * d ∧
    b'.hot.stored = b.hot.stored ++ [o] :=
  ingestAll_total b b' o rate start d hd h

/-- ingest above the maximum ingest rate is rejected with ValueError, nothing changes -/
theorem C07_rate_rejected (b : Buffer) (o : Oid) (rate : Int) (h : rate > b.hot.maxRate) :
    b.deposit o rate = (b, some .value) := by
  simp [deposit, h]

/-- completion frees exactly what the observation deposited -/
theorem C07_freed_exact (b b' : Buffer) (o : Oid) (h : b.remove o = (b', true)) :
    b'.hot.cur = b.hot.cur + b.sizeOf o ∧ o ∈ b.hot.scheduled ∧
    b'.hot.finished = b.hot.finished ++ [o] :=
  remove_exact b b' o h

/-- admission needs room for the whole volume in both tiers -/
theorem C07_admission (b : Buffer) (rate duration : Int) (h : b.checkCapacity rate duration = .ok true) :
    rate * duration ≤ b.hot.cur ∧ rate * duration < b.hot.total ∧ 1 ≤ duration ∧
    b.coldHasCapacityFor (rate * duration) = true :=
  checkCapacity_true b rate duration h

/-- after the last workflow both buffers are back at full free capacity -/
theorem C07_end_full (hc hr cc cr : Int) (ops : List BufOp) (hwf : WFHist (init hc hr cc cr) ops)
    (hnt : ∀ op ∈ ops, match op with
      | .h2cBegin | .h2cStep _ _ | .c2hBegin | .c2hStep _ _ => False | _ => True) :
    let b := (init hc hr cc cr).run ops
    b.residentData = 0 → b.isEmpty = true :=
  run_end_full hc hr cc cr ops hwf hnt

/-- FULL STATEMENT of the bounds (false of the code: K3 — admission compares
the volume with the free space of the moment and reserves nothing). -/
def C07_bounds_statement : Prop :=
  ∀ (hc hr cc cr : Int) (ops : List BufOp), 0 < hc → WFHist (init hc hr cc cr) ops →
    0 ≤ ((init hc hr cc cr).run ops).hot.cur ∧ ((init hc hr cc cr).run ops).hot.cur ≤ hc

theorem C07_bounds_neg_statement : ¬ C07_bounds_statement :=
  bounds_statement_neg

/-- K3 witness: two observations of 30×2 on a hot buffer of 100, both admitted
against the free space of the moment, drive the free space to −20. -/
theorem C07_bounds_neg :
    let b0 := init 100 50 1000 50
    b0.checkCapacity 30 2 = .ok true ∧
    ((b0.deposit 0 30).1).checkCapacity 30 2 = .ok true ∧
    (b0.run [.deposit 0 30, .deposit 1 30, .deposit 0 30, .deposit 1 30]).hot.cur = -20 := by
  -- `Except Err Bool` has no `DecidableEq` instance: the two admission facts are by evaluation
  intro b0
  refine ⟨rfl, rfl, ?_⟩
  decide

/-- what does hold: if the volumes of the observations admitted and not yet
removed never exceed the capacity, free space stays within [0, capacity] -/
theorem C07_bounds_partial (hc hr cc cr : Int) (ops : List BufOp) (hwf : WFHist (init hc hr cc cr) ops)
    (hnt : ∀ op ∈ ops, match op with
      | .h2cBegin | .h2cStep _ _ | .c2hBegin | .c2hStep _ _ => False | _ => True)
    (hpos : ∀ op ∈ ops, match op with | .deposit _ r => 0 ≤ r | _ => True) :
    let b := (init hc hr cc cr).run ops
    b.residentData ≤ hc → 0 ≤ b.hot.cur ∧ b.hot.cur ≤ b.hot.total :=
  run_bounds_partial hc hr cc cr ops hwf hnt hpos

-- non-vacuity: ingest 3×4, hand over, remove: back to full; the history is well-formed
example :
    let ops := [BufOp.deposit 5 4, .deposit 5 4, .deposit 5 4, .store 5 2, .next, .remove 5]
    WFHist (init 100 10 100 5) ops ∧ ((init 100 10 100 5).run ops).isEmpty = true ∧
    ((init 100 10 100 5).run (ops.take 4)).hot.cur = 88 := by
  refine ⟨?_, ?_, ?_⟩ <;> decide

end Buffer
end Topsim
