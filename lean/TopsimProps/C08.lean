/-
  C08 — observations start only when all resources are free, and on time when idle.
  The admission decision is one block of the telescope process
  (`Telescope.run` → `Scheduler.check_ingest_capacity`); these theorems are
  about that block in EVERY state, hence in every state a simulation can reach.
-/
import TopsimProofs.BlockLemmas

namespace Topsim
namespace Sys

/-- An observation is admitted only at or after its planned start, only while
WAITING, and only if at that moment the telescope has the arrays, the cluster
has the machines without exceeding the ingest limit (also counting what is
already promised to other observations), and both buffers have room for its
whole data volume. -/
theorem C08_admission_guard (now : Nat) (s s' : Sys) (oid : Oid) (o : Obs)
    (ho : s.obs? oid = some o) (h : telescopeVisit now (s, none) oid = (s', none))
    (hadm : s'.admitted ≠ s.admitted) :
    o.est ≤ now ∧ o.status = .waiting ∧
    (o.demand : Int) ≤ (s.totalArrays : Int) - s.telUse ∧
    o.ingestDemand ≤ s.cl.available.length ∧
    -- F14: new conjunct — the machines available exceed the demand by at least what the
    -- reservation counter promises beyond the ingest pool (admitted earlier in the same pass)
    (o.ingestDemand : Int) + max 0 (s.provIngest - (s.cl.ingest.length : Int)) ≤
      (s.cl.available.length : Int) ∧
    s.cl.ingest.length + o.ingestDemand ≤ s.maxIngest ∧
    s.provIngest + o.ingestDemand ≤ s.maxIngest ∧
    o.rate * o.duration ≤ s.buf.hot.cur ∧ o.rate * o.duration < s.buf.hot.total ∧
    s.buf.coldHasCapacityFor (o.rate * o.duration) = true ∧
    s'.admitted = s.admitted ++ [oid] ∧ s'.telUse = s.telUse + o.demand ∧
    s'.provIngest = s.provIngest + o.ingestDemand :=
  admission_guard now s s' oid o ho h hadm

/-- On time when idle: an observation that is due, WAITING, and finds every
resource free is admitted in that very block. -/
theorem C08_on_time (now : Nat) (s : Sys) (oid : Oid) (o : Obs) (ho : s.obs? oid = some o)
    (hdue : o.est ≤ now) (hw : o.status = .waiting)
    (harr : (o.demand : Int) ≤ (s.totalArrays : Int) - s.telUse)
    -- F14: `hav` is the new test: demand + promised ≤ available (was: demand ≤ available)
    (hav : (o.ingestDemand : Int) + max 0 (s.provIngest - (s.cl.ingest.length : Int)) ≤
      (s.cl.available.length : Int)) (hlim : o.ingestDemand ≤ s.maxIngest)
    (hing : s.cl.ingest.length + o.ingestDemand ≤ s.maxIngest)
    (hprov : s.provIngest + o.ingestDemand ≤ s.maxIngest)
    (hdur : 1 ≤ o.duration)
    (hhot : o.rate * o.duration ≤ s.buf.hot.cur) (hcap : o.rate * o.duration < s.buf.hot.total)
    (hcold : s.buf.coldHasCapacityFor (o.rate * o.duration) = true) :
    ∃ s', telescopeVisit now (s, none) oid = (s', none) ∧ s'.admitted = s.admitted ++ [oid] ∧
      (s'.obs? oid).map (·.ast) = some (some now) :=
  admission_on_time now s oid o ho hdue hw harr hav hlim hing hprov hdur hhot hcap hcold

/-- array use never exceeds the telescope total (one visit preserves the bound) -/
theorem C08_arrays_step (now : Nat) (s s' : Sys) (oid : Oid) (e : Option Err)
    (h : telescopeVisit now (s, none) oid = (s', e))
    (hb : 0 ≤ s.telUse ∧ s.telUse ≤ s.totalArrays)
    (hfin : ∀ o, s.obs? oid = some o → o.isFinishedAt now s.telStatus = true → (o.demand : Int) ≤ s.telUse) :
    0 ≤ s'.telUse ∧ s'.telUse ≤ s'.totalArrays :=
  arrays_step now s s' oid e h hb hfin

/-- ingest takes exactly the pipeline's machine demand, the first `demand`
available machines, one ingest task each -/
theorem C08_ingest_exact (c c' : Cluster) (demand : Nat) (o : Oid) (pairs : List (Mid × Tid))
    (hnd : c.available.Nodup) (h : c.provisionIngest demand o = (c', none, pairs)) :
    pairs.length = demand ∧ pairs.map (·.1) = c.available.take demand ∧
    c'.ingest = c.ingest ++ c.available.take demand ∧ c'.available = c.available.drop demand ∧
    pairs.map (·.2) = (List.range demand).map (Tid.ingest o) :=
  provisionIngest_exact c c' demand o pairs hnd h

/-- an over-demand provisioning is refused with RuntimeError, nothing changes -/
theorem C08_ingest_refused (c : Cluster) (demand : Nat) (o : Oid) (h : demand > c.available.length) :
    c.provisionIngest demand o = (c, some .runtime, []) := by
  simp [Cluster.provisionIngest, h]

/-- observation status only moves forward: WAITING → RUNNING → FINISHED -/
def RunStatus.rank : RunStatus → Nat
  | .waiting => 0 | .running => 1 | .finished => 2

theorem C08_status_monotone (s : Sys) (pid : Nat) (orc : Oracle) (oid : Oid) (o : Obs)
    (ho : s.obs? oid = some o) :
    ∃ o', (s.resume pid orc).1.obs? oid = some o' ∧ RunStatus.rank o.status ≤ RunStatus.rank o'.status ∧
      o'.duration = o.duration ∧ o'.est = o.est ∧ o'.demand = o.demand :=
  status_monotone s pid orc oid o ho

end Sys
end Topsim
