/-
  C14 — a generated plan is a faithful copy of the workflow graph.
  networkx's `topological_sort` is a parameter (`wf.topo`) with the contract
  `IsTopo`; the correspondence check validates the contract on every graph.
-/
import TopsimProofs.PlanLemmas

namespace Topsim

/-- `wf.topo` lists every node once and every edge goes forward in it -/
structure IsTopo (wf : Workflow) : Prop where
  nodup : wf.topo.Nodup
  nodes : ∀ n, n ∈ wf.topo ↔ n ∈ wf.nodes.map (·.1)
  forward : ∀ e ∈ wf.edges, wf.topo.idxOf e.1 < wf.topo.idxOf e.2.1

/-- exactly one task per graph node, in topological order, with the id
`<observation>_<clock>_<node>` -/
theorem C14_one_task_per_node (o : Obs) (clock : Nat) :
    (Sys.batchPlan o clock).1.map (·.id) = o.wf.topo.map (Tid.wf o.id clock) ∧
    (Sys.batchPlan o clock).2.tasks = o.wf.topo.map (Tid.wf o.id clock) :=
  plan_tasks o clock

theorem C14_ids_unique (o : Obs) (clock : Nat) (h : o.wf.topo.Nodup) :
    ((Sys.batchPlan o clock).1.map (·.id)).Nodup :=
  plan_ids_nodup o clock h

/-- the node's compute and data demands are copied -/
theorem C14_attributes (o : Obs) (clock n comp data : Nat) (hn : n ∈ o.wf.topo)
    (hattr : o.wf.nodes.find? (·.1 = n) = some (n, comp, data)) :
    ∃ r ∈ (Sys.batchPlan o clock).1, r.id = .wf o.id clock n ∧ r.flops = comp ∧ r.data = data ∧
      r.status = .unscheduled ∧ r.planned = none :=
  plan_attrs o clock n comp data hn hattr

/-- predecessor lists and per-edge transfer volumes are those of the graph -/
theorem C14_preds_io (o : Obs) (clock : Nat) (r : TaskRec) (n : Nat)
    (hr : r ∈ (Sys.batchPlan o clock).1) (hid : r.id = .wf o.id clock n) :
    r.preds = (o.wf.edges.filter (fun e => e.2.1 = n)).map (fun e => Tid.wf o.id clock e.1) ∧
    r.io = (o.wf.edges.filter (fun e => e.2.1 = n)).map (fun e => (Tid.wf o.id clock e.1, e.2.2)) :=
  plan_preds_io o clock r n hr hid

/-- the same edges, relabelled -/
theorem C14_edges (o : Obs) (clock : Nat) :
    (Sys.batchPlan o clock).2.edges =
      o.wf.edges.map (fun e => (Tid.wf o.id clock e.1, Tid.wf o.id clock e.2.1)) := by
  simp [Sys.batchPlan]

/-- the tasks are listed in a topological order of the plan's own graph -/
theorem C14_topological (o : Obs) (clock : Nat) (h : IsTopo o.wf) :
    let plan := (Sys.batchPlan o clock).2
    ∀ e ∈ plan.edges, plan.tasks.idxOf e.1 < plan.tasks.idxOf e.2 :=
  plan_topological o clock h.nodup h.forward

/-- predecessor and successor queries agree (after the F2 repair):
p precedes t iff t succeeds p -/
theorem C14_queries (plan : Plan) (p t : Tid) : p ∈ plan.preds t ↔ t ∈ plan.succs p :=
  plan_queries plan p t

/-- before the repair `get_task_predecessors` answered with the successors -/
theorem C14_old_queries_wrong :
    let plan : Plan := { obs := 0, tasks := [.raw 0, .raw 1], edges := [(.raw 0, .raw 1)], est := 0 }
    plan.succs (.raw 1) ≠ plan.preds (.raw 1) := by
  decide

-- non-vacuity: a diamond
example :
    let wf : Workflow := { nodes := [(0, 20, 0), (1, 10, 0), (2, 30, 5), (3, 10, 0)],
                           edges := [(0, 1, 4), (0, 2, 2), (1, 3, 1), (2, 3, 8)], topo := [0, 1, 2, 3] }
    let o : Obs := { id := 0, est := 0, duration := 3, demand := 1, rate := 2, ingestDemand := 1, wf := wf }
    IsTopo wf ∧ ((Sys.batchPlan o 3).1.map (·.preds)) =
      [[], [.wf 0 3 0], [.wf 0 3 0], [.wf 0 3 1, .wf 0 3 2]] := by
  refine ⟨⟨by decide, by intro n; simp, by decide⟩, by decide⟩

end Topsim
