/-
  C13 — the event log is complete, correctly timed and causally ordered.
  Block-level statements (hand-over, stamps, emission points); the order of the
  hand-over inside an instant is SimPy's (TopsimProps/Kernel.lean).
-/
import TopsimProofs.BlockLemmas

namespace Topsim
namespace Sys

/-- the hand-over loses nothing, duplicates nothing, and is idempotent
(after the F6a/F6b repairs) -/
theorem C13_collate (s : Sys) :
    s.collate.log = s.log ++ s.telEvents ++ s.schEvents ++ s.bufEvents ∧
    s.collate.telEvents = [] ∧ s.collate.schEvents = [] ∧ s.collate.bufEvents = [] ∧
    s.collate.collate = s.collate := by
  simp [collate]

/-- all events pending or logged -/
def allEvents (s : Sys) : List Event := s.log ++ s.telEvents ++ s.schEvents ++ s.bufEvents

/-- nobody but the owner's own loop ever removes a pending event: every block of
a process other than the telescope and scheduler loops keeps every event
(pending or logged) — in particular the buffer loop (F6a) and the monitor -/
theorem C13_no_loss (s : Sys) (pid : Nat) (orc : Oracle) (p : Proc) (hp : s.proc? pid = some p)
    (hk : p.k ≠ .telescope ∧ p.k ≠ .schedLoop) :
    ∀ e ∈ s.allEvents, e ∈ (s.resume pid orc).1.allEvents :=
  events_no_loss s pid orc p hp hk

/-- the telescope / scheduler loops only ever drop their OWN pending list, and
nothing at all when the monitor has already collected it -/
theorem C13_loop_clear (s : Sys) (pid : Nat) (orc : Oracle) (p : Proc) (hp : s.proc? pid = some p)
    (hk : p.k = .telescope ∨ p.k = .schedLoop) :
    ∀ e ∈ s.log ++ (if p.k = .telescope then [] else s.telEvents) ++
            (if p.k = .schedLoop then [] else s.schEvents) ++ s.bufEvents,
      e ∈ (s.resume pid orc).1.allEvents :=
  events_loop_clear s pid orc p hp hk

/-- every event a block emits is stamped with the time of that block -/
theorem C13_stamps (s : Sys) (pid : Nat) (orc : Oracle) (p : Proc) (hp : s.proc? pid = some p)
    (hint : p.wake = ((natNow p.wake : Nat) : Rat)) :
    ∀ e ∈ (s.resume pid orc).1.allEvents, e ∉ s.allEvents → e.time = natNow p.wake :=
  events_stamped s pid orc p hp hint

/-- 'finished' is emitted only once the observation's duration has elapsed since
it started, and 'started' only in the admission branch, stamped with its start -/
theorem C13_finished_after_duration (now : Nat) (s s' : Sys) (oid : Oid) (o : Obs)
    (ho : s.obs? oid = some o) (h : telescopeVisit now (s, none) oid = (s', none))
    (hev : (⟨now, oid, .telFinished⟩ : Event) ∈ s'.telEvents ∧ (⟨now, oid, .telFinished⟩ : Event) ∉ s.telEvents) :
    ∃ a, o.ast = some a ∧ a + o.duration ≤ now ∧ o.status ≠ .finished ∧
      (s'.obs? oid).map (·.status) = some .finished :=
  finished_after_duration now s s' oid o ho h hev

end Sys
end Topsim
