/-
  C08, trajectory clause — the number of machines running ingest and the
  telescope's ingest limit (`max_ingest_resources`), over every state a
  simulation can reach.

  The bookkeeping in the code: `Scheduler.provision_ingest` goes up by the
  pipeline demand when the telescope admits an observation, the
  `provision_ingest_resources` block moves that many machines to the ingest
  pool, each ingest allocation process (`allocate_task_to_cluster`) gives its
  machine back when its task's body has ended and `env.now >= task.aft` (F13; both
  hold at `ast + duration`), and the observation's ingest
  supervisor (`allocate_ingest`) takes the demand off the counter in its last
  block.

  Definitions used below (TopsimProofs/IngestLimit1.lean, IngestLimit3.lean):
  * `s.ingestPromised` — machines promised to admitted observations whose
    provisioning block has not run yet (the supervisor or the provisioning
    process is still before its first block);
  * `s.ingestStale` — ingest allocation processes (created and not yet begun, or
    polling: each holds one machine of the ingest pool) whose observation's
    supervisor has already ended, i.e. machines still ingesting although their
    share of the counter has been given back;
  * `ReachTelFirst` — `ReachOk` where, in addition, every telescope block starts
    in a state with `ingestStale = 0`.

  What is FALSE in the block system (`Reach` lets the blocks of one instant run in
  any order): `ingest.length ≤ maxIngest` for every reachable state.  The last block
  of the supervisor of A and the block in which A's allocation process returns A's
  machine are due at the same instant; if the telescope's block runs between them it
  sees the counter already lowered and the machine not yet returned, and may admit
  two observations that need the pool's last free slot.  See
  `C08_ingest_limit_statement_false` and the schedule `c08Sched`
  (TopsimProofs/IngestLimit9.lean).  In SimPy's own order the telescope is resumed
  before the supervisors and the allocation processes of an instant, which is the
  hypothesis of `C08_ingest_limit_telescope_first`.

  F14 (the repaired admission test counts the machines already promised): see
  TopsimProps/C08Promised.lean — `C08_promised_covered_simpy`, `C08_no_provisioning_failure_simpy`.
-/
import TopsimProofs.IngestLimit23

namespace Topsim
namespace Sys

/-- The accounting fact, for every run (any algorithm, any oracle under `preOk`, any order of
the blocks inside an instant, crashed or not): the machines in the ingest pool plus the machines
promised to admitted observations never exceed the scheduler's counter, except for the machines
of allocation processes whose observation's supervisor has already ended; and the counter stays
between 0 and the configured limit. -/
theorem C08_ingest_accounting (s0 s : Sys) (hw : WFConfig s0) (h : ReachOk s0 s) :
    ((s.cl.ingest.length + s.ingestPromised : Nat) : Int) ≤ s.provIngest + (s.ingestStale : Nat) ∧
    0 ≤ s.provIngest ∧ s.provIngest ≤ (s.maxIngest : Int) ∧ s.maxIngest = s0.maxIngest :=
  ⟨(reach_ingest_accounting s0 s hw h).1, (reach_ingest_accounting s0 s hw h).2.1,
    (reach_ingest_accounting s0 s hw h).2.2, reach_maxIngest s0 s hw h⟩

/-- The ingest limit, in every reachable state in which no ingest machine is held for an
observation whose ingest has already been closed: machines ingesting plus machines promised stay
within the limit. -/
-- CORRECTED: the hypothesis `hst` is needed; without it the statement is false
-- (`C08_ingest_limit_statement_false`).
theorem C08_ingest_limit (s0 s : Sys) (hw : WFConfig s0) (h : ReachOk s0 s)
    (hst : s.ingestStale = 0) : s.cl.ingest.length + s.ingestPromised ≤ s.maxIngest := by
  obtain ⟨h1, _, h3, _⟩ := C08_ingest_accounting s0 s hw h
  rw [hst] at h1
  omega

/-- The ingest limit, along every run in which the telescope takes its admission decisions only
in states with nothing stale (SimPy's order of the blocks inside an instant): in EVERY state of
such a run — also between the supervisor's last block and the return of the machines — machines
ingesting plus machines promised stay within the limit. -/
theorem C08_ingest_limit_telescope_first (s0 s : Sys) (hw : WFConfig s0) (h : ReachTelFirst s0 s) :
    s.cl.ingest.length + s.ingestPromised ≤ s.maxIngest :=
  reach_ingest_telFirst s0 s hw h

/-- … in particular the number of machines running ingest. -/
theorem C08_ingest_pool_telescope_first (s0 s : Sys) (hw : WFConfig s0) (h : ReachTelFirst s0 s) :
    s.cl.ingest.length ≤ s.maxIngest := by
  have := reach_ingest_telFirst s0 s hw h
  omega

/-- What survives when the blocks of an instant run in any order: machines ingesting plus
machines promised never reach twice the limit.  (The bound is attained:
`C08_ingest_limit_witness` has 3 machines ingesting with a limit of 2.) -/
theorem C08_ingest_limit_any_order (s0 s : Sys) (hw : WFConfig s0) (h : ReachOk s0 s) :
    s.cl.ingest.length + s.ingestPromised ≤ 2 * s.maxIngest - 1 :=
  reach_ingest_any_order s0 s hw h

/-- The trajectory clause at full strength (FALSE): in every reachable state the number of
machines running ingest is within the limit. -/
def C08_ingest_limit_statement : Prop :=
  ∀ (s0 s : Sys), WFConfig s0 → ReachOk s0 s → s.cl.ingest.length ≤ s.maxIngest

/-- The witness: configuration `c08W0` (3 machines, limit 2, observations A at t = 0, B and C at
t = 1, one ingest machine and one timestep each, queue algorithm), the empty oracle at every
block, the schedule `c08Sched`.  At instant 1 the supervisor of A runs its last block, then the
telescope admits B and C, then B and C are provisioned, all before A's allocation process returns
A's machine.  No exception is raised. -/
theorem C08_ingest_limit_witness :
    WFConfig c08W0 ∧ c08W0.alg = .queue ∧ Reach c08W0 (ilRun c08Sched c08W0.start) ∧
    (ilRun c08Sched c08W0.start).crashed = none ∧
    (ilRun c08Sched c08W0.start).cl.ingest = [0, 1, 2] ∧ (ilRun c08Sched c08W0.start).maxIngest = 2 ∧
    (ilRun c08Sched c08W0.start).provIngest = 2 ∧ (ilRun c08Sched c08W0.start).ingestStale = 1 :=
  ⟨c08W0_wf, rfl, c08Sched_reach, c08Sched_final.2.2.2.1, c08Sched_final.1, c08Sched_final.2.1,
    c08Sched_final.2.2.1, c08Sched_final.2.2.2.2.1⟩

theorem C08_ingest_limit_statement_false : ¬ C08_ingest_limit_statement := by
  intro hall
  have h := hall c08W0 (ilRun c08Sched c08W0.start) c08W0_wf (c08Sched_reach.toOk (by simp [c08W0]))
  rw [c08Sched_final.1, c08Sched_final.2.1] at h
  exact absurd h (by decide)

/-! ### the hypotheses are satisfiable -/

/-- a telescope-first run that reaches the limit exactly (two machines ingesting, limit two) -/
example : ∃ s0 s, WFConfig s0 ∧ ReachTelFirst s0 s ∧ s.cl.ingest.length = s.maxIngest ∧ 0 < s.maxIngest :=
  ⟨c08W0, _, c08W0_wf, c08SchedTF_reach, by rw [c08SchedTF_final.1, c08SchedTF_final.2.1]; rfl,
    by rw [c08SchedTF_final.2.1]; decide⟩

/-- a reachable state with a machine ingesting and nothing stale -/
example : ∃ s0 s, WFConfig s0 ∧ ReachOk s0 s ∧ s.ingestStale = 0 ∧ s.cl.ingest.length = 1 :=
  ⟨c08W0, _, c08W0_wf, (il_reach_run c08SchedS _ Reach.start c08SchedS_enabled).toOk (by simp [c08W0]),
    c08SchedS_final.2.1, by rw [c08SchedS_final.1]; rfl⟩

/-- a reachable state with a machine promised and not yet moved -/
example : ∃ s0 s, WFConfig s0 ∧ ReachOk s0 s ∧ s.ingestPromised = 1 ∧ s.cl.ingest = [] ∧ s.provIngest = 1 :=
  ⟨c08W0, _, c08W0_wf, (il_reach_run c08SchedP _ Reach.start c08SchedP_enabled).toOk (by simp [c08W0]),
    c08SchedP_final.2.1, c08SchedP_final.1, c08SchedP_final.2.2⟩

end Sys

/-! ## The deterministic simulator (L3: SimPy's own order)

`SimReach env s0 k`: `k` is produced from `SimState.start s0` by kernel steps
(`KState.step (simHandler env)`, the least heap entry in the order (time, priority, insertion
id) each time) and pause hand-overs (`Sys.collate`) — everything `startUntil`, `resumeUntil`,
`runToCompletion` and `KState.RunsTo` can produce.  `SimRun env s0 k`: kernel steps only, as long
as the exception flag is down (one uninterrupted `env.run`).

The side condition of `ReachTelFirst` is discharged by two facts (TopsimProofs/IngestLimit10 … 22):
* `IlTelFirst` (an order invariant of the heap, in the style of `MonFirst`): inside an instant the
  telescope's block precedes every block of a process other than the monitor and the task bodies;
* `ILTI` (a timing invariant of the block system): the body of an ingest task of an observation
  admitted at `ast` with duration `D` ends at `ast + D - 1` and records the finish `ast + D`, the
  supervisor ends at `ast + D`, hence an allocation process left behind by its supervisor polls,
  finds the body ended and the recorded finish reached (F13), and returns its machine before the
  telescope's next block. -/

/-- **L3 refines L2.**  Every state of an uninterrupted run of the deterministic simulator is a
state of the block system, reached by resuming each time a process of minimal wake time with the
simulator's oracle — up to the `halted` flag, which the kernel raises when it pops the failure
event of a process that raised and which no block reads.  Hence every trajectory theorem of the
block system stated over `ReachOk` (C01, C02, C04, C05, C08, C09 …) holds along the simulator's
runs (`L3_transfer`). -/
theorem L3_refines_L2 (env : SimEnv) (s0 : Sys) (hw : Sys.WFConfig s0) (k : SimState)
    (h : SimRun env s0 k) :
    ∃ s, Sys.ReachOk s0 s ∧ (k.st = s ∨ (k.st = { s with halted := true } ∧ k.st.halted = true)) :=
  l3_refines_reach env s0 hw k h

theorem L3_transfer (env : SimEnv) (s0 : Sys) (hw : Sys.WFConfig s0) (P : Sys → Prop)
    (hP : ∀ s, Sys.ReachOk s0 s → P s) (hhalt : ∀ s, P s → P { s with halted := true }) (k : SimState)
    (h : SimRun env s0 k) : P k.st :=
  l3_transfer env s0 hw P hP hhalt k h

/-- … more precisely the runs of the simulator are runs in which the supervisors' blocks follow
the telescope's block of the instant and no delay is imposed on task bodies from outside -/
theorem L3_refines_ReachOrd (env : SimEnv) (s0 : Sys) (hw : Sys.WFConfig s0) (k : SimState)
    (h : SimRun env s0 k) :
    ∃ s, Sys.ReachOrd s0 s ∧ (k.st = s ∨ (k.st = { s with halted := true } ∧ k.st.halted = true)) :=
  l3_refines_reachOrd env s0 hw k h

/-- an example of the transfer: the cluster invariant (C02) along the simulator's runs -/
example (env : SimEnv) (s0 : Sys) (hw : Sys.WFConfig s0) (k : SimState) (h : SimRun env s0 k) :
    ∃ U, Cluster.Inv k.st.cl U :=
  L3_transfer env s0 hw (fun s => ∃ U, Cluster.Inv s.cl U) (fun s hs => Sys.reach_cluster_inv s0 s hw hs)
    (fun _ h => h) k h

/-- every executable entry point stays inside `SimReach` -/
theorem C08_simReach_api (env : SimEnv) (s0 : Sys) (u v fuel fuel' steps now : Nat) :
    SimReach env s0 (SimState.startUntil env s0 u fuel) ∧
    SimReach env s0 (SimState.resumeUntil env (SimState.startUntil env s0 u fuel) v fuel') ∧
    SimReach env s0 (SimState.runToCompletion env fuel steps now (SimState.start s0)).1 :=
  ⟨SimReach.startUntil env s0 u fuel, (SimReach.startUntil env s0 u fuel).resumeUntil v fuel',
    SimReach.start.runToCompletion fuel steps now⟩

theorem C08_simReach_runsTo (env : SimEnv) (s0 : Sys) (u : Time) (k : SimState)
    (h : KState.RunsTo (simHandler env) u (SimState.start s0) k) : SimReach env s0 k :=
  SimReach.start.runsTo h

/-- **The ingest limit in SimPy's order.**  In every state of every run of the simulator — any
delay table / delay script / static plans (`env`), any shipped algorithm, with or without pauses,
before or after an exception — the number of machines running ingest is within the telescope's
ingest limit. -/
theorem C08_ingest_pool_simpy (env : SimEnv) (s0 : Sys) (hw : Sys.WFConfig s0) (k : SimState)
    (h : SimReach env s0 k) : k.st.cl.ingest.length ≤ k.st.maxIngest := by
  have := (sim_ingest_limit env s0 hw k h).1
  omega

/-- … counting also the machines promised to admitted observations not yet provisioned -/
theorem C08_ingest_limit_simpy (env : SimEnv) (s0 : Sys) (hw : Sys.WFConfig s0) (k : SimState)
    (h : SimReach env s0 k) : k.st.cl.ingest.length + k.st.ingestPromised ≤ k.st.maxIngest :=
  (sim_ingest_limit env s0 hw k h).1

/-- the order fact itself: whenever the kernel is about to resume the telescope, no ingest
machine is stale -/
theorem C08_telescope_sees_no_stale (env : SimEnv) (s0 : Sys) (hw : Sys.WFConfig s0) (k : SimState)
    (h : SimReach env s0 k) (e : HEntry) (hpk : k.peek = some e) (p : Proc)
    (hp : k.st.proc? e.pid = some p) (ha : p.alive = true) (hk : p.k = .telescope) :
    k.st.ingestStale = 0 := by
  have hinv := h.l3inv hw
  obtain ⟨hen, _⟩ := hinv.heap.enabled hinv.sinv.pw hpk hp ha
  obtain ⟨p', hp', _, hmin⟩ := hen
  rw [hp] at hp'; cases hp'
  exact hinv.ti.no_stale (Sys.proc?_some hp).1 ha hk hmin

/-- the same bound for the block system under the order hypothesis alone (no kernel) -/
theorem C08_ingest_limit_ordered (s0 s : Sys) (hw : Sys.WFConfig s0) (h : Sys.ReachOrd s0 s) :
    s.cl.ingest.length + s.ingestPromised ≤ s.maxIngest :=
  Sys.reach_ingest_ord s0 s hw h

/-- non-vacuity: after 15 kernel steps on `c08W0` the simulator has two machines ingesting, the
limit; after 24 steps the supervisor of A has ended while A's allocation process still holds its
machine (one stale machine, inside the instant, after the telescope's block), and the next step
gives it back -/
example : ∃ k, SimReach {} Sys.c08W0 k ∧ k.st.cl.ingest.length = k.st.maxIngest ∧ 0 < k.st.maxIngest :=
  ⟨_, SimReach.start.steps 15, by rw [c08Sim15.1, c08Sim15.2]; rfl, by rw [c08Sim15.2]; decide⟩

example : ∃ k, SimReach {} Sys.c08W0 k ∧ k.st.ingestStale = 1 ∧ k.st.cl.ingest.length = 2 :=
  ⟨_, SimReach.start.steps 24, c08Sim24.2.1, by rw [c08Sim24.1]; rfl⟩

end Topsim
