/-
  C08, trajectory clause — the number of machines running ingest and the
  telescope's ingest limit (`max_ingest_resources`), over every state a
  simulation can reach.

  The bookkeeping in the code: `Scheduler.provision_ingest` goes up by the
  pipeline demand when the telescope admits an observation, the
  `provision_ingest_resources` block moves that many machines to the ingest
  pool, each ingest allocation process (`allocate_task_to_cluster`) gives its
  machine back when its task has finished, and the observation's ingest
  supervisor (`allocate_ingest`) takes the demand off the counter in its last
  block.

  Definitions used below (TopsimProofs/IngestLimit1.lean, IngestLimit3.lean):
  * `s.ingestPromised` — machines promised to admitted observations whose
    provisioning block has not run yet (the supervisor or the provisioning
    process is still before its first block);
  * `s.ingestStale` — ingest allocation processes (created and not yet begun, or
    polling: each holds one machine of the ingest pool) whose observation's
    supervisor has already ended, i.e. machines still ingesting although their
    share of the counter has been given back;
  * `ReachTelFirst` — `ReachOk` where, in addition, every telescope block starts
    in a state with `ingestStale = 0`.

  What is FALSE in the block system (`Reach` lets the blocks of one instant run in
  any order): `ingest.length ≤ maxIngest` for every reachable state.  The last block
  of the supervisor of A and the block in which A's allocation process returns A's
  machine are due at the same instant; if the telescope's block runs between them it
  sees the counter already lowered and the machine not yet returned, and may admit
  two observations that need the pool's last free slot.  See
  `C08_ingest_limit_statement_false` and the schedule `c08Sched`
  (TopsimProofs/IngestLimit9.lean).  In SimPy's own order the telescope is resumed
  before the supervisors and the allocation processes of an instant, which is the
  hypothesis of `C08_ingest_limit_telescope_first`.
-/
import TopsimProofs.IngestLimit9

namespace Topsim
namespace Sys

/-- The accounting fact, for every run (any algorithm, any oracle under `preOk`, any order of
the blocks inside an instant, crashed or not): the machines in the ingest pool plus the machines
promised to admitted observations never exceed the scheduler's counter, except for the machines
of allocation processes whose observation's supervisor has already ended; and the counter stays
between 0 and the configured limit. -/
theorem C08_ingest_accounting (s0 s : Sys) (hw : WFConfig s0) (h : ReachOk s0 s) :
    ((s.cl.ingest.length + s.ingestPromised : Nat) : Int) ≤ s.provIngest + (s.ingestStale : Nat) ∧
    0 ≤ s.provIngest ∧ s.provIngest ≤ (s.maxIngest : Int) ∧ s.maxIngest = s0.maxIngest :=
  ⟨(reach_ingest_accounting s0 s hw h).1, (reach_ingest_accounting s0 s hw h).2.1,
    (reach_ingest_accounting s0 s hw h).2.2, reach_maxIngest s0 s hw h⟩

/-- The ingest limit, in every reachable state in which no ingest machine is held for an
observation whose ingest has already been closed: machines ingesting plus machines promised stay
within the limit. -/
-- CORRECTED: the hypothesis `hst` is needed; without it the statement is false
-- (`C08_ingest_limit_statement_false`).
theorem C08_ingest_limit (s0 s : Sys) (hw : WFConfig s0) (h : ReachOk s0 s)
    (hst : s.ingestStale = 0) : s.cl.ingest.length + s.ingestPromised ≤ s.maxIngest := by
  obtain ⟨h1, _, h3, _⟩ := C08_ingest_accounting s0 s hw h
  rw [hst] at h1
  omega

/-- The ingest limit, along every run in which the telescope takes its admission decisions only
in states with nothing stale (SimPy's order of the blocks inside an instant): in EVERY state of
such a run — also between the supervisor's last block and the return of the machines — machines
ingesting plus machines promised stay within the limit. -/
theorem C08_ingest_limit_telescope_first (s0 s : Sys) (hw : WFConfig s0) (h : ReachTelFirst s0 s) :
    s.cl.ingest.length + s.ingestPromised ≤ s.maxIngest :=
  reach_ingest_telFirst s0 s hw h

/-- … in particular the number of machines running ingest. -/
theorem C08_ingest_pool_telescope_first (s0 s : Sys) (hw : WFConfig s0) (h : ReachTelFirst s0 s) :
    s.cl.ingest.length ≤ s.maxIngest := by
  have := reach_ingest_telFirst s0 s hw h
  omega

/-- What survives when the blocks of an instant run in any order: machines ingesting plus
machines promised never reach twice the limit.  (The bound is attained:
`C08_ingest_limit_witness` has 3 machines ingesting with a limit of 2.) -/
theorem C08_ingest_limit_any_order (s0 s : Sys) (hw : WFConfig s0) (h : ReachOk s0 s) :
    s.cl.ingest.length + s.ingestPromised ≤ 2 * s.maxIngest - 1 :=
  reach_ingest_any_order s0 s hw h

/-- The trajectory clause at full strength (FALSE): in every reachable state the number of
machines running ingest is within the limit. -/
def C08_ingest_limit_statement : Prop :=
  ∀ (s0 s : Sys), WFConfig s0 → ReachOk s0 s → s.cl.ingest.length ≤ s.maxIngest

/-- The witness: configuration `c08W0` (3 machines, limit 2, observations A at t = 0, B and C at
t = 1, one ingest machine and one timestep each, queue algorithm), the empty oracle at every
block, the schedule `c08Sched`.  At instant 1 the supervisor of A runs its last block, then the
telescope admits B and C, then B and C are provisioned, all before A's allocation process returns
A's machine.  No exception is raised. -/
theorem C08_ingest_limit_witness :
    WFConfig c08W0 ∧ c08W0.alg = .queue ∧ Reach c08W0 (ilRun c08Sched c08W0.start) ∧
    (ilRun c08Sched c08W0.start).crashed = none ∧
    (ilRun c08Sched c08W0.start).cl.ingest = [0, 1, 2] ∧ (ilRun c08Sched c08W0.start).maxIngest = 2 ∧
    (ilRun c08Sched c08W0.start).provIngest = 2 ∧ (ilRun c08Sched c08W0.start).ingestStale = 1 :=
  ⟨c08W0_wf, rfl, c08Sched_reach, c08Sched_final.2.2.2.1, c08Sched_final.1, c08Sched_final.2.1,
    c08Sched_final.2.2.1, c08Sched_final.2.2.2.2.1⟩

theorem C08_ingest_limit_statement_false : ¬ C08_ingest_limit_statement := by
  intro hall
  have h := hall c08W0 (ilRun c08Sched c08W0.start) c08W0_wf (c08Sched_reach.toOk (by simp [c08W0]))
  rw [c08Sched_final.1, c08Sched_final.2.1] at h
  exact absurd h (by decide)

/-! ### the hypotheses are satisfiable -/

/-- a telescope-first run that reaches the limit exactly (two machines ingesting, limit two) -/
example : ∃ s0 s, WFConfig s0 ∧ ReachTelFirst s0 s ∧ s.cl.ingest.length = s.maxIngest ∧ 0 < s.maxIngest :=
  ⟨c08W0, _, c08W0_wf, c08SchedTF_reach, by rw [c08SchedTF_final.1, c08SchedTF_final.2.1]; rfl,
    by rw [c08SchedTF_final.2.1]; decide⟩

/-- a reachable state with a machine ingesting and nothing stale -/
example : ∃ s0 s, WFConfig s0 ∧ ReachOk s0 s ∧ s.ingestStale = 0 ∧ s.cl.ingest.length = 1 :=
  ⟨c08W0, _, c08W0_wf, (il_reach_run c08SchedS _ Reach.start c08SchedS_enabled).toOk (by simp [c08W0]),
    c08SchedS_final.2.1, by rw [c08SchedS_final.1]; rfl⟩

/-- a reachable state with a machine promised and not yet moved -/
example : ∃ s0 s, WFConfig s0 ∧ ReachOk s0 s ∧ s.ingestPromised = 1 ∧ s.cl.ingest = [] ∧ s.provIngest = 1 :=
  ⟨c08W0, _, c08W0_wf, (il_reach_run c08SchedP _ Reach.start c08SchedP_enabled).toOk (by simp [c08W0]),
    c08SchedP_final.2.1, c08SchedP_final.1, c08SchedP_final.2.2⟩

end Sys
end Topsim
