/-
  C08, the buffer clause of admission against data IN TRANSIT between the tiers —
  "an observation begins only if … the hot and cold buffers both have room for its whole data
  volume", where room means room ON TOP OF what a tier move in flight has still to deliver
  (the statement of the run-time monitor that caught the seeded change "cold tier's transfer slot
  never set").

  Vocabulary (TopsimProofs/Transit1.lean):
  * `s.inTransitToCold` — Σ over the live `move_hot_to_cold` processes of their residual `left`
    (size of the observation they move − what they have delivered); `s.inTransitToHot` likewise for
    `move_cold_to_hot`;
  * `s.LiveH2C`, `s.LiveC2H` — the number of live tier-move processes of each kind;
  * `TransitOneCold s` — `LiveH2C s ≤ 1`, and `LiveC2H s = 0` while `0 < LiveH2C s`;
    `TransitOneHot s` — the mirror image;
  * `TransitReach Q s0 s` — `ReachOk s0 s` along which every state satisfies `Q`;
    `TransitSimRun Q env s0 k` — an uninterrupted run of the simulator along which every state does;
  * an *admission step* of observation `oid`: a step `s ⟶ (s.resume pid orc).1` with
    `oid ∉ s.admitted` and `oid ∈ (s.resume pid orc).1.admitted` (only the telescope's block extends
    `admitted`; it does so exactly when it sets the observation's `ast`).

  RESULTS
  (1) block level: `C08_admission_cold_room_block`.
  (2) trajectory level, cold tier:
      TRUE   `C08_admission_cold_room_traj` (= `…_partial`): at every admission step of a run along
             which `TransitOneCold` holds, `vol + inTransitToCold ≤ cold.cur`;
             `C08_cold_test_room_traj`: the same for every size that passes `ColdBuffer.has_capacity_for`;
             `transit_slot_is_the_move`: the invariant behind it.
      FALSE  `C08_admission_cold_room_statement` (no hypothesis; two moves in flight, K5):
             `C08_admission_cold_room_statement_false`;
      FALSE  `C08_admission_cold_room_instant_statement` (`TransitOneCold` at the admission instant
             only): `…_instant_statement_false` — an earlier, overlapping move that has ended cleared
             the slot (block system, an order of the blocks of one instant SimPy does not produce);
      FALSE  `C08_admission_cold_room_traj_statement` (at most one hot→cold move alive along the whole
             run, nothing said of cold→hot moves): `…_traj_statement_false`, on a run of the SIMULATOR —
             a cold→hot move that completes clears the cold tier's slot while the one hot→cold move
             is in flight.  New; same root cause as K5 (one slot instead of a ledger).
  (3) along the simulator's runs: `C08_admission_cold_room_simpy`.
  (4) hot tier:
      FALSE  `C08_admission_hot_room_statement`, even with exactly one cold→hot move and nothing else:
             `check_buffer_capacity` compares the volume with `hot.current_capacity` and does NOT call
             `HotBuffer.has_capacity_for` — `C08_admission_hot_room_statement_false`, on a run of the
             simulator; one timestep later the hot tier's free space is negative
             (`C08_admission_hot_room_simpy_neg`).  This is about the admission instant (data already
             on its way), not K3 (deposits of ingests admitted together).
      TRUE   `C08_admission_hot_room_partial`, `C08_hot_test_room_traj`.
  Non-vacuity: `C08_admission_cold_room_nonvacuous`.
-/
import TopsimProps.C08
import TopsimProps.C08Traj
import TopsimProofs.Transit5

namespace Topsim
namespace Sys

/-! ## (1) block level -/

/-- **The cold clause of the admission test, in the form "room on top of the slot".**  If a visit of
the telescope's loop admits observation `o` in state `s`, then `o` was WAITING and its whole volume
plus the FULL size of the observation in the cold tier's transfer slot (if any) fits the cold tier's
free space; hence the volume plus the remainder of THAT move (any `left` up to its size) fits. -/
theorem C08_admission_cold_room_block (now : Nat) (s s' : Sys) (oid : Oid) (o : Obs)
    (ho : s.obs? oid = some o) (h : telescopeVisit now (s, none) oid = (s', none))
    (hadm : s'.admitted ≠ s.admitted) :
    o.status = .waiting ∧
    o.rate * o.duration +
      (match s.buf.cold.transfer with | some t => s.buf.sizeOf t | none => 0) ≤ s.buf.cold.cur ∧
    (∀ t left, s.buf.cold.transfer = some t → left ≤ s.buf.sizeOf t →
      o.rate * o.duration + left ≤ s.buf.cold.cur) ∧
    (s.buf.cold.transfer = none → o.rate * o.duration ≤ s.buf.cold.cur) := by
  obtain ⟨_, hw, _, _, _, _, _, _, _, hcold, _⟩ := C08_admission_guard now s s' oid o ho h hadm
  unfold Buffer.coldHasCapacityFor at hcold
  cases htr : s.buf.cold.transfer with
  | none =>
    simp only [htr, decide_eq_true_eq] at hcold
    exact ⟨hw, (by simp only; omega), (fun t left ht => (by cases ht)), (fun _ => (by omega))⟩
  | some t =>
    simp only [htr, decide_eq_true_eq] at hcold
    refine ⟨hw, (by simp only; omega), (fun t' left ht hl => ?_), (fun hn => (by cases hn))⟩
    injection ht with ht
    subst ht
    omega

/-! ## (2) trajectory level, cold tier -/

/-- the hypotheses on the configuration used throughout C07 / C08: nothing resident, both tiers
full-free, positive ingest rates -/
def TransitInit (s0 : Sys) : Prop :=
  (s0.buf.hot.stored = [] ∧ s0.buf.hot.scheduled = [] ∧ s0.buf.hot.finished = [] ∧ s0.buf.cold.stored = []) ∧
  (s0.buf.size = [] ∧ s0.buf.hot.cur = s0.buf.hot.total ∧ s0.buf.cold.cur = s0.buf.cold.total) ∧
  (∀ o ∈ s0.obs, 0 < o.rate)

theorem TransitInit.bufList {s0 : Sys} (h : TransitInit s0) : bufList s0.buf = [] := by
  obtain ⟨⟨h1, h2, h3, h4⟩, _⟩ := h
  simp [Sys.bufList, h1, h2, h3, h4]

/-- the monitor's statement at state `s`: whatever the next step admits fits the cold tier on top of
what is in transit to it -/
def TransitColdRoomAt (s : Sys) : Prop :=
  ∀ (pid : Nat) (orc : Oracle), (s.alg = .oracle → orc.preOk) → ∀ oid, oid ∉ s.admitted →
    oid ∈ (s.resume pid orc).1.admitted →
    ∃ o, s.obs? oid = some o ∧ o.rate * o.duration + s.inTransitToCold ≤ s.buf.cold.cur

/-- … and the hot tier -/
def TransitHotRoomAt (s : Sys) : Prop :=
  ∀ (pid : Nat) (orc : Oracle), (s.alg = .oracle → orc.preOk) → ∀ oid, oid ∉ s.admitted →
    oid ∈ (s.resume pid orc).1.admitted →
    ∃ o, s.obs? oid = some o ∧ o.rate * o.duration + s.inTransitToHot ≤ s.buf.hot.cur

/-- **Room in the cold tier on top of what is in transit, at every admission.**  Along every run of
the block system (any order of the blocks of an instant, any `ReachOk` oracle) that has not raised
and along which at most one `move_hot_to_cold` process is alive at a time, and no `move_cold_to_hot`
process beside it: whenever a step admits an observation, the cold tier's free space holds the
observation's whole volume plus everything the move in flight has still to deliver. -/
theorem C08_admission_cold_room_traj (s0 s : Sys) (hw : WFConfig s0) (hi : TransitInit s0)
    (h : TransitReach TransitOneCold s0 s) (hc : s.crashed = none) : TransitColdRoomAt s :=
  fun pid orc hpre oid hn ha =>
    transit_admission_cold_room s0 s hw hi.bufList hi.2.1 hi.2.2 h hc pid orc hpre oid hn ha

/-- the same, not only for admissions: every size that passes `ColdBuffer.has_capacity_for` (the test
of the admission, of the buffer loop and of `move_hot_to_cold` itself) fits on top of what is in
transit -/
theorem C08_cold_test_room_traj (s0 s : Sys) (hw : WFConfig s0) (hi : TransitInit s0)
    (h : TransitReach TransitOneCold s0 s) (hc : s.crashed = none) (sz : Int)
    (hcap : s.buf.coldHasCapacityFor sz = true) : sz + s.inTransitToCold ≤ s.buf.cold.cur := by
  obtain ⟨_, hca, _, hsi⟩ := reachOk_bufFacts s0 s hw hi.bufList hi.2.1 hi.2.2 h.toOk hc
  exact transit_cold_room h.holds.1 (transit_slotCold_reach s0 s hw h) hca hsi.sn sz hcap

/-- **The invariant that makes it work: the slot is the move.**  In every state of such a run, for a
live `move_hot_to_cold` process past its first block, moving `o` with residual `l > 0`: the cold
tier's transfer slot holds `o`; `l` is within the size of `o` and is all that is in transit; and the
cold tier's free space plus what the move has delivered (`size o − l`) is the free space the
observations STORED in the cold tier leave — the free space before the move, while nothing else
enters or leaves the cold tier. -/
theorem transit_slot_is_the_move (s0 s : Sys) (hw : WFConfig s0) (hi : TransitInit s0)
    (h : TransitReach TransitOneCold s0 s) (hc : s.crashed = none) (p : Proc) (hp : p ∈ s.procs)
    (ha : p.alive = true) (o : Oid) (l : Int) (hk : p.k = .hot2cold (some (o, l))) (hl : 0 < l) :
    s.buf.cold.transfer = some o ∧ l ≤ s.buf.sizeOf o ∧ s.inTransitToCold = l ∧
    s.buf.cold.cur + (s.buf.sizeOf o - l) = s.buf.cold.total - (s.buf.cold.stored.map s.buf.sizeOf).sum := by
  obtain ⟨_, hca, _, _⟩ := reachOk_bufFacts s0 s hw hi.bufList hi.2.1 hi.2.2 h.toOk hc
  exact transit_slot_move h.holds (transit_slotCold_reach s0 s hw h) hca hp ha hk hl

/-- the clause with NO hypothesis on the moves in flight — false (K5) -/
def C08_admission_cold_room_statement : Prop :=
  ∀ (s0 s : Sys), WFConfig s0 → TransitInit s0 → ReachOk s0 s → s.crashed = none → TransitColdRoomAt s

/-- Two moves in flight over-commit the cold tier AT AN ADMISSION, on a run of the simulator
(`transitK5`, TopsimProofs/Transit5.lean: `c07WC` plus D = 35 due at t = 3).  At the telescope's block
of t = 3 the moves of observations 2 and 1 have 20 + 30 to deliver, the cold tier shows 80 free and
its slot holds ONE observation of 40: D passes (35 + 40 ≤ 80) although 35 + 50 > 80. -/
theorem C08_admission_cold_room_statement_false : ¬ C08_admission_cold_room_statement := by
  intro hst
  have h := transitK5_chk
  simp only [Bool.and_eq_true, Bool.not_eq_true', decide_eq_true_eq, and_assoc] at h
  obtain ⟨_, _, _, hc, hn, ha, hv, ht, hcur, _⟩ := h
  obtain ⟨o, ho, hle⟩ := hst transitK5 transitK5_3A.st transitK5_wf
    ⟨⟨rfl, rfl, rfl, rfl⟩, ⟨rfl, rfl, rfl⟩, transitK5_rate⟩ transitK5_reach hc 1 {}
    (fun _ op hop => by cases hop) 3 hn ha
  rw [transitVol_spec hv ho, ht, hcur] at hle
  exact absurd hle (by decide)

/-- the clause with the one-move hypothesis at the admission instant only — false -/
def C08_admission_cold_room_instant_statement : Prop :=
  ∀ (s0 s : Sys), WFConfig s0 → TransitInit s0 → ReachOk s0 s → s.crashed = none → TransitOneCold s →
    TransitColdRoomAt s

/-- One move alive at the admission, after an overlap (`transitPW`; block system: at instant 5 the
last block of the move that ended at t = 4 runs BEFORE the telescope's — SimPy resumes them in the
other order).  The ended move cleared the slot in its last transfer step; the other move has 6 units
to deliver; the cold tier shows 35 free: D = 32 passes (slot empty) although 32 + 6 > 35. -/
theorem C08_admission_cold_room_instant_statement_false : ¬ C08_admission_cold_room_instant_statement := by
  intro hst
  have h := transitPW_chk
  simp only [Bool.and_eq_true, Bool.not_eq_true', decide_eq_true_eq, and_assoc] at h
  obtain ⟨_, _, hc, hone, _, _, hn, ha, hv, ht, hcur, _⟩ := h
  obtain ⟨o, ho, hle⟩ := hst transitPW transitPW5A transitPW_wf
    ⟨⟨rfl, rfl, rfl, rfl⟩, ⟨rfl, rfl, rfl⟩, transitPW_rate⟩ transitPW_reach hc hone 1 {}
    (fun _ op hop => by cases hop) 2 hn ha
  rw [transitVol_spec hv ho, ht, hcur] at hle
  exact absurd hle (by decide)

/-- the clause as first stated — at most one `move_hot_to_cold` alive along the whole run, nothing
said of `move_cold_to_hot` — false -/
def C08_admission_cold_room_traj_statement : Prop :=
  ∀ (s0 s : Sys), WFConfig s0 → TransitInit s0 → TransitReach (fun x => LiveH2C x ≤ 1) s0 s →
    s.crashed = none → TransitColdRoomAt s

/-- A completing cold→hot move clears the cold tier's slot while THE hot→cold move is in flight, on a
run of the simulator (`transitN2`: hot 100, cold 42 at 5 per step; a = 41 and a2 = 7 at t = 0, b = 13
at t = 2, e = 20 at t = 9, f = 30 at t = 11).  b goes hot→cold during t = 3..5 and returns cold→hot
during t = 8..10; e pushes the hot tier over 60 % and its hot→cold move starts at t = 10 (5 of 20
delivered); later in the same instant b's return completes and `transfer_observation` sets the cold
tier's slot to `None`.  At the telescope's block of t = 11: one hot→cold move alive, 15 units in
transit, slot empty, cold free 37: f = 30 passes although 30 + 15 > 37.  Never more than one
`move_hot_to_cold` alive on the whole run. -/
theorem C08_admission_cold_room_traj_statement_false : ¬ C08_admission_cold_room_traj_statement := by
  intro hst
  have h := transitN2_chk
  simp only [Bool.and_eq_true, Bool.not_eq_true', decide_eq_true_eq, and_assoc] at h
  obtain ⟨_, _, _, _, hh, hc, hn, ha, hv, ht, hcur, _⟩ := h
  obtain ⟨o, ho, hle⟩ := hst transitN2 transitN2_11A.st transitN2_wf
    ⟨⟨rfl, rfl, rfl, rfl⟩, ⟨rfl, rfl, rfl⟩, transitN2_rate⟩
    (transit_simRun_reach transitN2_wf transitN2_run hh) hc 1 {}
    (fun _ op hop => by cases hop) 4 hn ha
  rw [transitVol_spec hv ho, ht, hcur] at hle
  exact absurd hle (by decide)

/-- the same witness as a statement about the simulator: a state of an uninterrupted run along which
at most one `move_hot_to_cold` process was ever alive, the kernel about to resume the telescope,
whose block admits observation 4 (volume 30) into a cold tier with 37 free and 15 in transit -/
theorem C08_admission_cold_room_simpy_neg :
    ∃ (s0 : Sys) (k : SimState), WFConfig s0 ∧ TransitInit s0 ∧
      TransitSimRun (fun x => LiveH2C x ≤ 1) {} s0 k ∧ k.st.halted = false ∧ k.st.crashed = none ∧
      (k.peek).map (·.pid) = some 1 ∧ 4 ∉ k.st.admitted ∧ 4 ∈ (k.st.resume 1 {}).1.admitted ∧
      transitVol k.st 4 = some 30 ∧ k.st.inTransitToCold = 15 ∧ k.st.buf.cold.cur = 37 ∧
      k.st.buf.cold.transfer = none ∧ k.st.LiveH2C = 1 ∧ k.st.LiveC2H = 1 := by
  have h := transitN2_chk
  simp only [Bool.and_eq_true, Bool.not_eq_true', decide_eq_true_eq, and_assoc] at h
  obtain ⟨_, _, _, _, hh, hc, hn, ha, hv, ht, hcur, hslot, h1, h2⟩ := h
  have hp := transit_peeks
  simp only [Bool.and_eq_true, decide_eq_true_eq, and_assoc] at hp
  exact ⟨transitN2, transitN2_11A, transitN2_wf, ⟨⟨rfl, rfl, rfl, rfl⟩, ⟨rfl, rfl, rfl⟩, transitN2_rate⟩,
    transitN2_run, hh, hc, hp.2.2.2.2.1, hn, ha, hv, ht, hcur, hslot, h1, h2⟩

/-- what holds of the clause as first stated (`…_traj_statement`): the same conclusion under the
hypothesis that, in addition, no `move_cold_to_hot` process is alive beside the hot→cold move
(`TransitOneCold` instead of `LiveH2C ≤ 1`) — `C08_admission_cold_room_traj`. -/
theorem C08_admission_cold_room_traj_partial (s0 s : Sys) (hw : WFConfig s0) (hi : TransitInit s0)
    (h : TransitReach TransitOneCold s0 s) (hc : s.crashed = none) : TransitColdRoomAt s :=
  C08_admission_cold_room_traj s0 s hw hi h hc

/-! ## (3) along the simulator's runs -/

/-- **Along the simulator's runs** (SimPy's own order; any delay table / script / static plans): in an
uninterrupted run that has not raised and along which `TransitOneCold` held in every state, every
kernel step that admits an observation finds room in the cold tier for its whole volume on top of
what is in transit. -/
theorem C08_admission_cold_room_simpy (env : SimEnv) (s0 : Sys) (hw : WFConfig s0) (hi : TransitInit s0)
    (k k1 : SimState) (h : TransitSimRun TransitOneCold env s0 k) (hh : k.st.halted = false)
    (hc : k.st.crashed = none) (hs : k.step (simHandler env) = some k1) (oid : Oid)
    (hn : oid ∉ k.st.admitted) (ha : oid ∈ k1.st.admitted) :
    ∃ o, k.st.obs? oid = some o ∧ o.rate * o.duration + k.st.inTransitToCold ≤ k.st.buf.cold.cur :=
  transit_admission_cold_room_simpy env s0 hw hi.bufList hi.2.1 hi.2.2 k k1 h hh hc hs oid hn ha

/-- the invariant along the simulator's runs -/
theorem transit_slot_is_the_move_simpy (env : SimEnv) (s0 : Sys) (hw : WFConfig s0) (hi : TransitInit s0)
    (k : SimState) (h : TransitSimRun TransitOneCold env s0 k) (hh : k.st.halted = false)
    (hc : k.st.crashed = none) (p : Proc) (hp : p ∈ k.st.procs) (ha : p.alive = true) (o : Oid) (l : Int)
    (hk : p.k = .hot2cold (some (o, l))) (hl : 0 < l) :
    k.st.buf.cold.transfer = some o ∧ l ≤ k.st.buf.sizeOf o ∧ k.st.inTransitToCold = l ∧
    k.st.buf.cold.cur + (k.st.buf.sizeOf o - l) =
      k.st.buf.cold.total - (k.st.buf.cold.stored.map k.st.buf.sizeOf).sum :=
  transit_slot_is_the_move s0 k.st hw hi (transit_simRun_reach hw h hh) hc p hp ha o l hk hl

/-- the block-level clause in step form, in EVERY state (hence in every state of every run of the
block system and of the simulator): an observation that a step admits passed the buffer test in the
state before the step — its volume fits the hot tier's free space and `ColdBuffer.has_capacity_for`
holds of it. -/
theorem C08_admission_tests (s : Sys) (pid : Nat) (orc : Oracle) (hpre : s.alg = .oracle → orc.preOk)
    (oid : Oid) (hn : oid ∉ s.admitted) (ha : oid ∈ (s.resume pid orc).1.admitted) :
    ∃ o, s.obs? oid = some o ∧ o.rate * o.duration ≤ s.buf.hot.cur ∧
      s.buf.coldHasCapacityFor (o.rate * o.duration) = true :=
  transit_resume_admission s pid orc hpre oid hn ha

/-! ## (4) the hot tier -/

/-- the hot clause at full strength, under the one-move hypothesis — false -/
def C08_admission_hot_room_statement : Prop :=
  ∀ (s0 s : Sys), WFConfig s0 → TransitInit s0 → TransitReach TransitOneHot s0 s → s.crashed = none →
    TransitHotRoomAt s

/-- The admission test ignores a cold→hot move in flight, on a run of the simulator (`transitN3`: hot
100, cold 100 at 5 per step; a = 41 and a2 = 7 at t = 0, b = 13 at t = 2, e = 50 at t = 9).  b returns
cold→hot from t = 8; at the telescope's block of t = 9 it has 8 units to deliver, the hot tier shows 54
free, its slot holds b: `HotBuffer.has_capacity_for(50)` is False (50 + 13 > 54), but
`check_buffer_capacity` only tests `54 − 50 < 0`: e is admitted, 50 + 8 > 54.  One cold→hot move alive,
no hot→cold move, on the whole run up to there. -/
theorem C08_admission_hot_room_statement_false : ¬ C08_admission_hot_room_statement := by
  intro hst
  have h := transitN3_chk
  simp only [Bool.and_eq_true, Bool.not_eq_true', decide_eq_true_eq, and_assoc] at h
  obtain ⟨_, _, _, _, hh, hc, hn, ha, hv, ht, hcur, _⟩ := h
  obtain ⟨o, ho, hle⟩ := hst transitN3 transitN3_9A.st transitN3_wf
    ⟨⟨rfl, rfl, rfl, rfl⟩, ⟨rfl, rfl, rfl⟩, transitN3_rate⟩
    (transit_simRun_reach transitN3_wf transitN3_run hh) hc 1 {}
    (fun _ op hop => by cases hop) 3 hn ha
  rw [transitVol_spec hv ho, ht, hcur] at hle
  exact absurd hle (by decide)

/-- … as a statement about the simulator, with its consequence: the kernel is about to resume the
telescope, whose block admits observation 3 (volume 50) into a hot tier with 54 free and 8 in transit
to it, although the hot tier's own `has_capacity_for(50)` is False; after every event before t = 10
the hot tier's free space is −1 and nothing has raised. -/
theorem C08_admission_hot_room_simpy_neg :
    ∃ (s0 : Sys) (k k' : SimState), WFConfig s0 ∧ TransitInit s0 ∧ TransitSimRun TransitOneHot {} s0 k ∧
      k.st.halted = false ∧ k.st.crashed = none ∧ (k.peek).map (·.pid) = some 1 ∧
      3 ∉ k.st.admitted ∧ 3 ∈ (k.st.resume 1 {}).1.admitted ∧ transitVol k.st 3 = some 50 ∧
      k.st.inTransitToHot = 8 ∧ k.st.buf.hot.cur = 54 ∧ k.st.buf.hot.transfer = some 2 ∧
      k.st.buf.hotHasCapacityFor 50 = false ∧ k.st.LiveC2H = 1 ∧ k.st.LiveH2C = 0 ∧
      SimRun {} s0 k' ∧ k'.st.halted = false ∧ k'.st.crashed = none ∧ k'.st.buf.hot.cur = -1 := by
  have h := transitN3_chk
  simp only [Bool.and_eq_true, Bool.not_eq_true', decide_eq_true_eq, and_assoc] at h
  obtain ⟨_, _, _, _, hh, hc, hn, ha, hv, ht, hcur, hslot, _, h1, h2, hcap⟩ := h
  have h' := transitN3_after
  simp only [Bool.and_eq_true, Bool.not_eq_true', decide_eq_true_eq, and_assoc] at h'
  obtain ⟨g1, g2, g3, _⟩ := h'
  have hp := transit_peeks
  simp only [Bool.and_eq_true, decide_eq_true_eq, and_assoc] at hp
  exact ⟨transitN3, transitN3_9A, transitN3_10, transitN3_wf,
    ⟨⟨rfl, rfl, rfl, rfl⟩, ⟨rfl, rfl, rfl⟩, transitN3_rate⟩, transitN3_run, hh, hc, hp.2.2.2.2.2.1, hn, ha, hv,
    ht, hcur, hslot, hcap, h1, h2, witRun_simRun transitN3 10 1300, g1, g2, g3⟩

/-- **What does hold of the hot clause, at every admission** of a run along which at most one
`move_cold_to_hot` process is alive at a time and no `move_hot_to_cold` process beside it: the volume
fits the hot tier's free space of the moment (the test made); and it fits on top of what is in transit
to the hot tier in each case in which `HotBuffer.has_capacity_for` — the test NOT made — would have
passed, in particular whenever the hot tier's slot is empty. -/
theorem C08_admission_hot_room_partial (s0 s : Sys) (hw : WFConfig s0) (hi : TransitInit s0)
    (h : TransitReach TransitOneHot s0 s) (hc : s.crashed = none) (pid : Nat) (orc : Oracle)
    (hpre : s.alg = .oracle → orc.preOk) (oid : Oid) (hn : oid ∉ s.admitted)
    (ha : oid ∈ (s.resume pid orc).1.admitted) :
    ∃ o, s.obs? oid = some o ∧ o.rate * o.duration ≤ s.buf.hot.cur ∧
      (s.buf.hotHasCapacityFor (o.rate * o.duration) = true →
        o.rate * o.duration + s.inTransitToHot ≤ s.buf.hot.cur) ∧
      (s.buf.hot.transfer = none → o.rate * o.duration + s.inTransitToHot ≤ s.buf.hot.cur) :=
  transit_admission_hot_room s0 s hw hi.bufList hi.2.1 hi.2.2 h hc pid orc hpre oid hn ha

/-- the hot tier's `has_capacity_for` (the test `move_cold_to_hot` makes of its own observation) is
sound in the same sense: every size that passes it fits on top of what is in transit to the hot tier;
and the slot is the move -/
theorem C08_hot_test_room_traj (s0 s : Sys) (hw : WFConfig s0) (hi : TransitInit s0)
    (h : TransitReach TransitOneHot s0 s) (hc : s.crashed = none) :
    (∀ sz : Int, s.buf.hotHasCapacityFor sz = true → sz + s.inTransitToHot ≤ s.buf.hot.cur) ∧
    (∀ p ∈ s.procs, p.alive = true → ∀ o l, p.k = .cold2hot (some (o, l)) → 0 < l →
      s.buf.hot.transfer = some o ∧ l ≤ s.buf.sizeOf o) := by
  obtain ⟨_, hca, _, hsi⟩ := reachOk_bufFacts s0 s hw hi.bufList hi.2.1 hi.2.2 h.toOk hc
  have hts := transit_slotHot_reach s0 s hw h
  refine ⟨fun sz hcap => transit_hot_room h.holds.1 hts hca hsi.sn sz hcap, ?_⟩
  intro p hp ha o l hk hl
  refine ⟨hts p hp ha o l hk hl, ?_⟩
  have := hca.left p hp ha
  rw [hk] at this
  exact (this hl).1

/-- the one-move hypotheses are vacuous where nothing is tiered: in a state without tier-move
processes (`NoTier`; every state of a run under `NoTierCfg`) both hold and nothing is in transit -/
theorem C08_no_tiering_no_transit (s : Sys) (h : NoTier s) :
    TransitOneCold s ∧ TransitOneHot s ∧ s.inTransitToCold = 0 ∧ s.inTransitToHot = 0 := by
  obtain ⟨h1, h2, h3, h4⟩ := transit_noTier h
  exact ⟨⟨by omega, fun _ => h2⟩, ⟨by omega, fun _ => h1⟩, h3, h4⟩

/-! ## non-vacuity -/

/-- **A run of the simulator on which the clause bites** (`transitNV`, TopsimProofs/Transit5.lean: hot
100, cold 42 at 5 per step; a = 41 and a2 = 7 at t = 0, b = 13 at t = 2, d = 2 at t = 4, c = 30 at
t = 5).  `TransitOneCold` holds in every state of the run up to the three states used.
* t = 4, the kernel about to resume the telescope: b's move is in flight, 8 units to deliver, cold free
  37; the block ADMITS d, and `C08_admission_cold_room_simpy` gives `2 + 8 ≤ 37`.
* t = 5: 3 units of b still to arrive, cold free 32, hot free 47, c is WAITING and due; the naive test
  would pass (30 ≤ 32) but there is no room on top of the transit (30 + 3 > 32); the test counts b in
  full (30 + 13 > 32): `has_capacity_for` is False and the block REFUSES c.
* t = 11, after b has returned to the hot tier (cold free 42, nothing in transit): the block admits c. -/
theorem C08_admission_cold_room_nonvacuous :
    WFConfig transitNV ∧ TransitInit transitNV ∧
    -- t = 4: an admission with a move in flight
    (TransitSimRun TransitOneCold {} transitNV transitNV4A ∧
      transitNV4A.step (simHandler {}) = some transitNV4B ∧ (transitNV4A.peek).map (·.pid) = some 1 ∧
      4 ∉ transitNV4A.st.admitted ∧ 4 ∈ transitNV4B.st.admitted ∧ transitNV4A.st.LiveH2C = 1 ∧
      transitNV4A.st.inTransitToCold = 8 ∧ transitNV4A.st.buf.cold.cur = 37 ∧
      ∃ o, transitNV4A.st.obs? 4 = some o ∧ o.rate * o.duration = 2 ∧
        o.rate * o.duration + transitNV4A.st.inTransitToCold ≤ transitNV4A.st.buf.cold.cur) ∧
    -- t = 5: a refusal because of the in-transit remainder
    (TransitSimRun TransitOneCold {} transitNV transitNV5A ∧
      transitNV5A.step (simHandler {}) = some transitNV5B ∧ (transitNV5A.peek).map (·.pid) = some 1 ∧
      (transitNV5A.st.obs? 3).map (fun r => (r.est, r.rate, r.duration, decide (r.status = .waiting)))
        = some (5, 30, 1, true) ∧
      transitNV5A.st.inTransitToCold = 3 ∧ transitNV5A.st.buf.cold.cur = 32 ∧ transitNV5A.st.buf.hot.cur = 47 ∧
      transitNV5A.st.buf.cold.transfer = some 2 ∧ transitNV5A.st.buf.sizeOf 2 = 13 ∧
      transitNV5A.st.buf.coldHasCapacityFor 30 = false ∧
      3 ∉ transitNV5A.st.admitted ∧ 3 ∉ transitNV5B.st.admitted) ∧
    -- t = 11: admitted later
    (TransitSimRun TransitOneCold {} transitNV transitNV11A ∧
      transitNV11A.step (simHandler {}) = some transitNV11B ∧ (transitNV11A.peek).map (·.pid) = some 1 ∧
      3 ∉ transitNV11A.st.admitted ∧ 3 ∈ transitNV11B.st.admitted ∧
      transitNV11A.st.buf.cold.cur = 42 ∧ transitNV11A.st.inTransitToCold = 0) := by
  have hi : TransitInit transitNV := ⟨⟨rfl, rfl, rfl, rfl⟩, ⟨rfl, rfl, rfl⟩, transitNV_rate⟩
  have hp := transit_peeks
  simp only [Bool.and_eq_true, decide_eq_true_eq, and_assoc] at hp
  obtain ⟨p4, p5, p11, _⟩ := hp
  have h4 := transitNV4_chk
  simp only [Bool.and_eq_true, Bool.not_eq_true', decide_eq_true_eq, and_assoc] at h4
  obtain ⟨_, _, _, s4, _, hh4, c4, n4, a4, v4, t4, cur4, _, l4⟩ := h4
  have h5 := transitNV5_chk
  simp only [Bool.and_eq_true, Bool.not_eq_true', decide_eq_true_eq, and_assoc] at h5
  obtain ⟨_, _, _, s5, _, _, _, n5, n5', o5, t5, cur5, hot5, slot5, sz5, cap5⟩ := h5
  have h11 := transitNV11_chk
  simp only [Bool.and_eq_true, Bool.not_eq_true', decide_eq_true_eq, and_assoc] at h11
  obtain ⟨_, _, _, s11, _, _, _, n11, a11, cur11, t11⟩ := h11
  refine ⟨transitNV_wf, hi, ⟨transitNV4A_run, transitStep_spec s4, p4, n4, a4, l4, t4, cur4, ?_⟩,
    ⟨transitNV5A_run, transitStep_spec s5, p5, o5, t5, cur5, hot5, slot5, sz5, cap5, n5, n5'⟩,
    ⟨transitNV11A_run, transitStep_spec s11, p11, n11, a11, cur11, t11⟩⟩
  obtain ⟨o, ho, hle⟩ := C08_admission_cold_room_simpy {} transitNV transitNV_wf hi transitNV4A transitNV4B
    transitNV4A_run hh4 c4 (transitStep_spec s4) 4 n4 a4
  exact ⟨o, ho, transitVol_spec v4 ho, hle⟩

end Sys
end Topsim
