/-
  C02 — every machine is in exactly one resource pool; counts are true.
  (Cluster-level statements over *all* operation histories; the trajectory
  form for whole simulations is `TopsimProps/SysSafety.lean`.)

  Only property theorems and their non-vacuity examples live in this file.
-/
import TopsimProofs.ClusterSteps

namespace Topsim
namespace Cluster

/-- Every history of cluster operations keeps the invariant. -/
theorem C02_inv (ms : List Mid) (hms : ms.Nodup) (ops : List ClOp) (hf : FreshHist ops) :
    ∃ U, Inv ((init ms).run ops) U :=
  run_inv ms hms ops hf

/-- Exactly one pool, exactly once, nothing foreign: the four pools, taken
together, are a permutation of the machine list. -/
theorem C02_partition (ms : List Mid) (hms : ms.Nodup) (ops : List ClOp) (hf : FreshHist ops) :
    let c := (init ms).run ops
    (c.available ++ c.ingest ++ c.occupied ++ c.idleAll).Perm ms :=
  run_partition ms hms ops hf

/-- …hence no machine is lost or duplicated: each machine of the cluster is in
exactly one pool and occurs there exactly once. -/
theorem C02_exactly_one (ms : List Mid) (hms : ms.Nodup) (ops : List ClOp) (hf : FreshHist ops)
    (m : Mid) (hm : m ∈ ms) :
    let c := (init ms).run ops
    c.available.count m + c.ingest.count m + c.occupied.count m + c.idleAll.count m = 1 :=
  run_exactly_one ms hms ops hf m hm

/-- a reserved-idle machine is reserved for exactly one observation -/
theorem C02_one_owner (ms : List Mid) (hms : ms.Nodup) (ops : List ClOp) (hf : FreshHist ops)
    (m : Mid) (o₁ o₂ : Oid) :
    let c := (init ms).run ops
    m ∈ c.idleOf (some o₁) → m ∈ c.idleOf (some o₂) → o₁ = o₂ :=
  run_one_owner ms hms ops hf m o₁ o₂

/-- A refused call leaves the whole cluster state unchanged (in every
reachable state, for every operation of the alphabet). -/
theorem C02_refused_unchanged (ms : List Mid) (hms : ms.Nodup) (ops : List ClOp)
    (hf : FreshHist ops) (op : ClOp) (e : Err) :
    let c := (init ms).run ops
    (c.applyOp op).2 = some e → (c.applyOp op).1 = c :=
  run_refused_unchanged ms hms ops hf op e

/-- The reported numbers are the true numbers. -/
theorem C02_counts (ms : List Mid) (hms : ms.Nodup) (ops : List ClOp) (hf : FreshHist ops) :
    let c := (init ms).run ops
    c.uRunning = c.running.length ∧
    c.uAvail = (ms.length : Int) - c.running.length ∧
    c.uFinished = (c.finished.filter (·.2)).length ∧
    c.uIngest = (c.running.filter Tid.isIngest).length ∧
    (c.pending = [] → c.uAvail = (c.available.length : Int) + c.idleAll.length) :=
  run_counts ms hms ops hf

/-- Quiescence: with nothing running, nothing pending and no reservation the
available pool is the whole machine set again. -/
theorem C02_quiescent (ms : List Mid) (hms : ms.Nodup) (ops : List ClOp) (hf : FreshHist ops) :
    let c := (init ms).run ops
    c.running = [] → c.pending = [] → c.idle = [] → c.available.Perm ms :=
  run_quiescent ms hms ops hf

/-- C01 at cluster level: no machine holds two running tasks, and a machine
that may receive a task (available or reserved-idle) holds none. -/
theorem C01_cluster (ms : List Mid) (hms : ms.Nodup) (ops : List ClOp) (hf : FreshHist ops) :
    let c := (init ms).run ops
    (c.runOn.map (·.mach)).Nodup ∧
    ∀ m, (m ∈ c.available ∨ m ∈ c.idleAll) → m ∉ c.runOn.map (·.mach) :=
  run_c01 ms hms ops hf

/-- C01/C09: an allocation request is accepted only on a machine that is free
or reserved for the requesting observation; on a busy, ingest, foreign-reserved
or unknown machine it is rejected with RuntimeError. -/
theorem C01_alloc_guard (c : Cluster) (t : Tid) (m : Mid) (obs : Option Oid) :
    (c.allocBegin t m obs false).2 = none →
      t ∉ c.running ∧ (m ∈ c.available ∨ m ∈ c.idleOf obs) :=
  allocBegin_guard c t m obs

-- non-vacuity: a concrete history that reserves, ingests, allocates on a
-- reserved machine, is refused on a busy one, finishes and releases.
example :
    let ops := [ClOp.provBatch 2 7, .provIngest 1 3, .ingestBegin 0,
                .alloc (.wf 7 5 0) 0 (some 7), .alloc (.wf 7 5 1) 0 (some 7),
                .alloc (.wf 7 5 2) 2 (some 7), .finish 1, .finish 0, .relBatch 7]
    FreshHist ops ∧
    ((init [0, 1, 2, 3]).run ops).available.Perm [0, 1, 2, 3] ∧
    (((init [0, 1, 2, 3]).run (ops.take 5)).applyOp (.alloc (.wf 7 5 2) 2 (some 7))).2
      = some Err.runtime := by
  intro ops
  refine ⟨?_, ?_, ?_⟩
  · unfold FreshHist
    decide
  · decide
  · decide

end Cluster
end Topsim
