/-
  Safety along EVERY trajectory of a whole simulation (C01, C02, C04):
  for every well-formed configuration, every scheduling algorithm (the four
  shipped ones or an oracle proposing arbitrary task→machine pairs), every
  pattern of delays and every order of the blocks inside an instant.

  `ReachOk` (TopsimProofs/SysInv.lean) is `Reach` with one side condition on the
  oracle inputs: when the scheduling algorithm is the oracle (`s.alg = .oracle`),
  the cluster calls it makes on its own (`orc.pre`) are
  `provision_batch_resources` / `release_batch_resources` only
  (`Oracle.preOk`).  For the four shipped algorithms `orc.pre` is not read and
  the side condition is vacuous.
-/
import TopsimProofs.SysInv

namespace Topsim
namespace Sys

/-- C02 on trajectories: the cluster invariant (partition of the machines,
true counters, …) holds after every block of every schedule. -/
-- CORRECTED: oracle pre-ops restricted to batch reservation calls (what a user algorithm can do
-- through the public Cluster API).  Counterexample without it: `orc.pre = [.alloc t m none]`
-- with `t` a finished task puts `t` back into `running` while `finished[t] = True`.
theorem C02_trajectory (s0 s : Sys) (hw : WFConfig s0) (h : ReachOk s0 s) :
    ∃ U, Cluster.Inv s.cl U :=
  reach_cluster_inv s0 s hw h

/-- C01: at every instant each machine hosts at most one live task body. -/
-- CORRECTED: oracle pre-ops restricted to batch reservation calls (what a user algorithm can do
-- through the public Cluster API).  Counterexample without it: `orc.pre = [.finish i]` frees the
-- machine of a polling allocation process whose task body is still alive; the next allocation
-- on that machine gives it a second live body.
theorem C01_at_most_one (s0 s : Sys) (hw : WFConfig s0) (h : ReachOk s0 s) :
    (s.active.map (·.1)).Nodup :=
  reach_active_nodup s0 s hw h

/-- C01: a machine that may receive a task (available or reserved-idle) hosts none. -/
-- CORRECTED: oracle pre-ops restricted to batch reservation calls (same counterexample).
theorem C01_free_machine_idle (s0 s : Sys) (hw : WFConfig s0) (h : ReachOk s0 s) (m : Mid)
    (hm : m ∈ s.cl.available ∨ m ∈ s.cl.idleAll) : m ∉ s.active.map (·.1) :=
  reach_free_not_active s0 s hw h m hm

/-- C04: no task is ever started twice, whatever the algorithm proposes. -/
-- CORRECTED: oracle pre-ops restricted to batch reservation calls (what a user algorithm can do
-- through the public Cluster API).  Counterexample without it: `orc.pre = [.finish i]` removes a
-- task from `running` while its allocation process is still polling; at its next block that
-- process sees `task not in running`, allocates again and spawns a second `do_work` for the task.
theorem C04_starts_once (s0 s : Sys) (hw : WFConfig s0) (h : ReachOk s0 s) :
    s.starts.Nodup :=
  reach_starts_nodup s0 s hw h

/-- C04: no observation is admitted twice (any oracle: no restriction needed). -/
theorem C04_admitted_once (s0 s : Sys) (hw : WFConfig s0) (h : Reach s0 s) :
    s.admitted.Nodup :=
  reach_admitted_nodup s0 s hw h

/-! With one of the four shipped algorithms (`s0.alg ≠ .oracle`) the statements hold along every
`Reach` trajectory, with no condition on the oracle inputs at all. -/

theorem C02_trajectory_shipped (s0 s : Sys) (hw : WFConfig s0) (ha : s0.alg ≠ .oracle)
    (h : Reach s0 s) : ∃ U, Cluster.Inv s.cl U :=
  reach_cluster_inv s0 s hw (h.toOk ha)

theorem C01_at_most_one_shipped (s0 s : Sys) (hw : WFConfig s0) (ha : s0.alg ≠ .oracle)
    (h : Reach s0 s) : (s.active.map (·.1)).Nodup :=
  reach_active_nodup s0 s hw (h.toOk ha)

theorem C01_free_machine_idle_shipped (s0 s : Sys) (hw : WFConfig s0) (ha : s0.alg ≠ .oracle)
    (h : Reach s0 s) (m : Mid) (hm : m ∈ s.cl.available ∨ m ∈ s.cl.idleAll) :
    m ∉ s.active.map (·.1) :=
  reach_free_not_active s0 s hw (h.toOk ha) m hm

theorem C04_starts_once_shipped (s0 s : Sys) (hw : WFConfig s0) (ha : s0.alg ≠ .oracle)
    (h : Reach s0 s) : s.starts.Nodup :=
  reach_starts_nodup s0 s hw (h.toOk ha)

/-- C01/C04: an allocation that is rejected with an error starts nothing and
leaves the pools as they were. -/
theorem C01_rejected_never_run (s : Sys) (now : Time) (t : Tid) (m : Mid) (preds : List Tid)
    (obs : Option Oid) (ing : Bool) (ret : Nat) (e : Err) (hnr : t ∉ s.cl.running)
    (h : (s.allocTaskBlock now t m preds obs ing ret).2.2 = .raised e) (hU : ∃ U, Cluster.Inv s.cl U) :
    let s' := (s.allocTaskBlock now t m preds obs ing ret).1
    s'.starts = s.starts ∧ s'.active = s.active ∧ s'.cl = s.cl ∧ s'.procs = s.procs :=
  allocTask_rejected s now t m preds obs ing ret e hnr h hU

/-- C01: what the scheduler's filter lets through: never a machine already
handed out in this round, never an occupied or ingesting machine, never a task
that is not UNSCHEDULED. -/
theorem C01_filter_guard (now : Time) (oid : Oid) (st : PcsSt) (t : Tid) (hok : st.err = none)
    (hsp : (processOne now oid st t).s.nextPid = st.s.nextPid + 1) :
    ∃ m r, dictGet st.schedule t = some m ∧ st.s.task? t = some r ∧ r.status = .unscheduled ∧
      m ∉ st.curr ∧ st.s.cl.isOccupied m = false ∧ (processOne now oid st t).curr = st.curr ++ [m] :=
  processOne_guard now oid st t hok hsp

end Sys
end Topsim
