/-
  Safety along EVERY trajectory of a whole simulation (C01, C02, C04):
  for every well-formed configuration, every scheduling algorithm (the four
  shipped ones or an oracle proposing arbitrary task→machine pairs), every
  pattern of delays and every order of the blocks inside an instant.
-/
import TopsimProofs.SysInv

namespace Topsim
namespace Sys

/-- C02 on trajectories: the cluster invariant (partition of the machines,
true counters, …) holds after every block of every schedule. -/
theorem C02_trajectory (s0 s : Sys) (hw : WFConfig s0) (h : Reach s0 s) :
    ∃ U, Cluster.Inv s.cl U :=
  reach_cluster_inv s0 s hw h

/-- C01: at every instant each machine hosts at most one live task body. -/
theorem C01_at_most_one (s0 s : Sys) (hw : WFConfig s0) (h : Reach s0 s) :
    (s.active.map (·.1)).Nodup :=
  reach_active_nodup s0 s hw h

/-- C01: a machine that may receive a task (available or reserved-idle) hosts none. -/
theorem C01_free_machine_idle (s0 s : Sys) (hw : WFConfig s0) (h : Reach s0 s) (m : Mid)
    (hm : m ∈ s.cl.available ∨ m ∈ s.cl.idleAll) : m ∉ s.active.map (·.1) :=
  reach_free_not_active s0 s hw h m hm

/-- C04: no task is ever started twice, whatever the algorithm proposes. -/
theorem C04_starts_once (s0 s : Sys) (hw : WFConfig s0) (h : Reach s0 s) :
    s.starts.Nodup :=
  reach_starts_nodup s0 s hw h

/-- C04: no observation is admitted twice. -/
theorem C04_admitted_once (s0 s : Sys) (hw : WFConfig s0) (h : Reach s0 s) :
    s.admitted.Nodup :=
  reach_admitted_nodup s0 s hw h

/-- C01/C04: an allocation that is rejected with an error starts nothing and
leaves the pools as they were. -/
theorem C01_rejected_never_run (s : Sys) (now : Time) (t : Tid) (m : Mid) (preds : List Tid)
    (obs : Option Oid) (ing : Bool) (ret : Nat) (e : Err) (hnr : t ∉ s.cl.running)
    (h : (s.allocTaskBlock now t m preds obs ing ret).2.2 = .raised e) (hU : ∃ U, Cluster.Inv s.cl U) :
    let s' := (s.allocTaskBlock now t m preds obs ing ret).1
    s'.starts = s.starts ∧ s'.active = s.active ∧ s'.cl = s.cl ∧ s'.procs = s.procs :=
  allocTask_rejected s now t m preds obs ing ret e hnr h hU

/-- C01: what the scheduler's filter lets through: never a machine already
handed out in this round, never an occupied or ingesting machine, never a task
that is not UNSCHEDULED. -/
theorem C01_filter_guard (now : Time) (oid : Oid) (st : PcsSt) (t : Tid) (hok : st.err = none)
    (hsp : (processOne now oid st t).s.nextPid = st.s.nextPid + 1) :
    ∃ m r, dictGet st.schedule t = some m ∧ st.s.task? t = some r ∧ r.status = .unscheduled ∧
      m ∉ st.curr ∧ st.s.cl.isOccupied m = false ∧ (processOne now oid st t).curr = st.curr ++ [m] :=
  processOne_guard now oid st t hok hsp

end Sys
end Topsim
