/-
  C13, trajectory clauses — the life-cycle events of an observation over every run: every
  order of the blocks inside an instant, every oracle input.

  The model appends events to three pending lists (`telEvents`, `schEvents`, `bufEvents`); the
  monitor's block moves them to `log`; the telescope's and the scheduler loop's blocks begin by
  emptying their own list (`C13_loop_clear`), so what reaches the log depends on the order of the
  blocks (`C13_log_complete_statement_false` below).  What does not depend on it is what is
  EMITTED.  Definitions (TopsimProofs/LifeCycle1.lean):

  * `s.stepEvents pid orc` — the events the block of `pid` appends to the three lists, in the
    order telescope list, scheduler list, buffer list (`C13_step_events` says exactly what this
    is in terms of `resume`);
  * `ReachEv s0 s evs` — `Reach s0 s` with the list `evs` of the events emitted by the steps, in
    order; `ReachEvOk` is the same over `ReachOk` (oracle reservations restricted to the public
    Cluster API, vacuous for the four shipped algorithms).

  `hb0` (the initial buffer holds no observation, as in C04) is needed for the scheduler-side
  kinds; see `C13_emitted_once_needs_hb0`.
-/
import TopsimProofs.LifeCycle19

namespace Topsim
namespace Sys

/-! ### what a trace is -/

/-- A block other than the monitor's: the emitted events are exactly the three suffixes that
`resume` appends to the pending lists (the telescope and the scheduler loop start from their own
list emptied), each stamped with the time of the block; the log is untouched. -/
theorem C13_step_events (s : Sys) (pid : Nat) (orc : Oracle) (p : Proc) (hp : s.proc? pid = some p)
    (ha : p.alive = true) (hk : p.k ≠ .monitor) :
    ∃ t c u, s.stepEvents pid orc = t ++ c ++ u ∧
      (s.resume pid orc).1.telEvents = (if p.k = .telescope then [] else s.telEvents) ++ t ∧
      (s.resume pid orc).1.schEvents = (if p.k = .schedLoop then [] else s.schEvents) ++ c ∧
      (s.resume pid orc).1.bufEvents = s.bufEvents ++ u ∧
      (s.resume pid orc).1.log = s.log ∧
      ∀ e ∈ s.stepEvents pid orc, e.time = natNow p.wake :=
  stepEvents_spec s pid orc p hp ha hk

/-- The monitor's block emits nothing: it moves the three pending lists to the log. -/
theorem C13_step_events_monitor (s : Sys) (pid : Nat) (orc : Oracle) (p : Proc) (hp : s.proc? pid = some p)
    (ha : p.alive = true) (hk : p.k = .monitor) :
    s.stepEvents pid orc = [] ∧
      (s.resume pid orc).1.log = s.log ++ s.telEvents ++ s.schEvents ++ s.bufEvents ∧
      (s.resume pid orc).1.telEvents = [] ∧ (s.resume pid orc).1.schEvents = [] ∧
      (s.resume pid orc).1.bufEvents = [] :=
  stepEvents_monitor s pid orc p hp ha hk

/-- Every trajectory has a trace, and a trace is a trajectory. -/
theorem C13_trace_exists (s0 s : Sys) (h : Reach s0 s) : ∃ evs, ReachEv s0 s evs := h.toEv
theorem C13_trace_reach (s0 s : Sys) (evs : List Event) (h : ReachEv s0 s evs) : Reach s0 s := h.toReach
theorem C13_traceOk_exists (s0 s : Sys) (h : ReachOk s0 s) : ∃ evs, ReachEvOk s0 s evs := h.toEvOk
theorem C13_traceOk_reach (s0 s : Sys) (evs : List Event) (h : ReachEvOk s0 s evs) : ReachOk s0 s := h.toOk

/-- Which process emits which kind of event, and for which observation: telescope events come from
the telescope's block, `queueAdded` from the scheduler loop, `bufAdded` from the ingest stream of
that observation, the allocation events and the two removals from the `allocate_tasks` process of
that observation, transfer events from the tier moves; nothing else emits anything. -/
theorem C13_emitters (s : Sys) (pid : Nat) (orc : Oracle) (p : Proc) (hp : s.proc? pid = some p)
    (ha : p.alive = true) : ∀ e ∈ s.stepEvents pid orc,
    (p.k = .telescope ∧ (e.kind = .telStarted ∨ e.kind = .telFinished)) ∨
    (p.k = .schedLoop ∧ e.kind = .queueAdded) ∨
    ((∃ tl, p.k = .ingestStream e.obs tl) ∧ e.kind = .bufAdded) ∨
    ((∃ sc pa po fin, p.k = .allocTasks e.obs sc pa po fin) ∧
      (e.kind = .allocStarted ∨ e.kind = .allocStopped ∨ e.kind = .queueRemoved ∨ e.kind = .bufRemoved)) ∨
    (((∃ cur, p.k = .hot2cold cur) ∨ ∃ cur, p.k = .cold2hot cur) ∧
      (e.kind = .transferStarted ∨ e.kind = .transferStopped)) := by
  rw [stepEvents_alive orc hp ha]
  exact blockEvents_kinds s p orc

/-- The stamps of a trace never decrease: an event emitted earlier is stamped no later. -/
theorem C13_trace_sorted (s0 s : Sys) (evs : List Event) (hw : WFConfig s0) (h : ReachEv s0 s evs) :
    evs.Pairwise (fun e1 e2 => e1.time ≤ e2.time) := by
  induction h with
  | start => exact List.Pairwise.nil
  | step s evs pid orc hr hen ih =>
    obtain ⟨p, hp, ha, _⟩ := hen
    have hti := (reachEv_ti hw hr).before hp ha
    have hst := stepEvents_time s pid orc p hp ha
    rw [List.pairwise_append]
    refine ⟨ih, ?_, ?_⟩
    · rw [List.pairwise_iff_forall_sublist]
      intro a b hab
      have ha' := hst a (hab.subset (by simp))
      have hb' := hst b (hab.subset (by simp))
      omega
    · intro a ha' b hb'
      have := hti a ha'
      have := hst b hb'
      omega

/-! ### (1) every life-cycle event is emitted at most once -/

/-- Telescope started / finished and buffer added, for every observation: at most one emission
along any trajectory, whatever the oracle does.  (Guards: `telStarted` goes with appending the
observation to `admitted`, which never holds it twice; `telFinished` requires a status other than
FINISHED and sets it to FINISHED, which is for ever; `bufAdded` is emitted by the first block of the
observation's ingest stream, of which there is at most one ever.) -/
theorem C13_emitted_once_ingest (s0 s : Sys) (evs : List Event) (hw : WFConfig s0) (h : ReachEv s0 s evs)
    (o : Oid) (k : EvKind) (hk : k = .telStarted ∨ k = .telFinished ∨ k = .bufAdded) :
    (evs.filter (fun e => decide (e.obs = o ∧ e.kind = k))).length ≤ 1 := by
  rw [← evCount_eq_filter]
  rcases hk with rfl | rfl | rfl
  · rw [reachEv_started hw h o]
    exact List.nodup_iff_count.mp (reach_admitted_nodup s0 s hw h.toReach) o
  · exact (reachEv_finished h o).1
  · exact (reachEv_bufAdded hw h).le o

/-- All eight life-cycle kinds (everything but the tier-transfer events), for every observation:
at most one emission along any trajectory.  (Guards of the scheduler-side kinds: `queueAdded` goes
with moving the observation from the hot buffer's `stored` list to `scheduled`, where it stays until
it moves to `finished`, where it stays for ever; `allocStarted` is emitted by the first block of the
observation's `allocate_tasks` process, of which there is at most one ever; `allocStopped` and
`bufRemoved` go with moving the observation from `scheduled` to `finished`; `queueRemoved` is emitted
only together with `allocStopped`.) -/
theorem C13_emitted_once (s0 s : Sys) (evs : List Event) (hw : WFConfig s0)
    (hb0 : s0.buf.hot.stored = [] ∧ s0.buf.hot.scheduled = [] ∧ s0.buf.hot.finished = [] ∧
      s0.buf.cold.stored = [])
    (h : ReachEvOk s0 s evs) (o : Oid) (k : EvKind)
    (hk : k ≠ .transferStarted ∧ k ≠ .transferStopped) :
    (evs.filter (fun e => decide (e.obs = o ∧ e.kind = k))).length ≤ 1 := by
  have hbuf : bufList s0.buf = [] := by
    obtain ⟨h1, h2, h3, h4⟩ := hb0
    simp [bufList, h1, h2, h3, h4]
  have hs := reachEvOk_sched hw hbuf h
  cases k with
  | telStarted => exact C13_emitted_once_ingest s0 s evs hw h.toEv o _ (Or.inl rfl)
  | telFinished => exact C13_emitted_once_ingest s0 s evs hw h.toEv o _ (Or.inr (Or.inl rfl))
  | bufAdded => exact C13_emitted_once_ingest s0 s evs hw h.toEv o _ (Or.inr (Or.inr rfl))
  | bufRemoved => rw [← evCount_eq_filter, hs.brEq o]; exact hs.apLe o
  | queueAdded => rw [← evCount_eq_filter]; exact hs.qaLe o
  | queueRemoved => rw [← evCount_eq_filter]; exact Nat.le_trans (hs.qrLe o) (hs.apLe o)
  | allocStarted => rw [← evCount_eq_filter]; exact hs.asLe o
  | allocStopped => rw [← evCount_eq_filter]; exact hs.apLe o
  | transferStarted => exact absurd rfl hk.1
  | transferStopped => exact absurd rfl hk.2

/-- … with one of the four shipped algorithms, along every `Reach` trajectory. -/
theorem C13_emitted_once_shipped (s0 s : Sys) (evs : List Event) (hw : WFConfig s0)
    (hb0 : s0.buf.hot.stored = [] ∧ s0.buf.hot.scheduled = [] ∧ s0.buf.hot.finished = [] ∧
      s0.buf.cold.stored = [])
    (ha : s0.alg ≠ .oracle) (h : ReachEv s0 s evs) (o : Oid) (k : EvKind)
    (hk : k ≠ .transferStarted ∧ k ≠ .transferStopped) :
    (evs.filter (fun e => decide (e.obs = o ∧ e.kind = k))).length ≤ 1 :=
  C13_emitted_once s0 s evs hw hb0 (h.toEvOk ha) o k hk

/-- `bufRemoved` is emitted exactly as often as `allocStopped` (they are emitted together), and
`queueRemoved` at most as often. -/
theorem C13_removed_with_stopped (s0 s : Sys) (evs : List Event) (hw : WFConfig s0)
    (hb0 : s0.buf.hot.stored = [] ∧ s0.buf.hot.scheduled = [] ∧ s0.buf.hot.finished = [] ∧
      s0.buf.cold.stored = [])
    (h : ReachEvOk s0 s evs) (o : Oid) :
    (evs.filter (fun e => decide (e.obs = o ∧ e.kind = .bufRemoved))).length
      = (evs.filter (fun e => decide (e.obs = o ∧ e.kind = .allocStopped))).length ∧
    (evs.filter (fun e => decide (e.obs = o ∧ e.kind = .queueRemoved))).length
      ≤ (evs.filter (fun e => decide (e.obs = o ∧ e.kind = .allocStopped))).length := by
  have hbuf : bufList s0.buf = [] := by
    obtain ⟨h1, h2, h3, h4⟩ := hb0
    simp [bufList, h1, h2, h3, h4]
  have hs := reachEvOk_sched hw hbuf h
  simp only [← evCount_eq_filter]
  exact ⟨hs.brEq o, hs.qrLe o⟩

/-- `hb0` cannot be dropped: configuration `lcW1` (one observation with an empty workflow, the queue
algorithm, the observation twice in the initial `hot.stored`) is well formed in the sense of
`WFConfig`, and the schedule `lcSchedTwice` (every instant in pid order, no exception) emits
`queueAdded` for observation 0 at t = 0 and again at t = 1. -/
theorem C13_emitted_once_needs_hb0 :
    ∃ s0 s evs, WFConfig s0 ∧ s0.alg = .queue ∧ ReachEv s0 s evs ∧
      (evs.filter (fun e => decide (e.obs = 0 ∧ e.kind = .queueAdded))).length = 2 :=
  ⟨lcW1, _, _, lcW1_wf, rfl, lcSchedTwice_reach, by rw [lcSchedTwice_trace]; decide⟩

/-! ### the log -/

/-- Whatever the order of the blocks: what is pending or logged was emitted, with multiplicity;
so no life-cycle event of an observation is ever logged (or pending) twice. -/
theorem C13_log_at_most_once (s0 s : Sys) (evs : List Event) (hw : WFConfig s0)
    (hb0 : s0.buf.hot.stored = [] ∧ s0.buf.hot.scheduled = [] ∧ s0.buf.hot.finished = [] ∧
      s0.buf.cold.stored = [])
    (h : ReachEvOk s0 s evs) (o : Oid) (k : EvKind)
    (hk : k ≠ .transferStarted ∧ k ≠ .transferStopped) :
    ((s.log ++ s.telEvents ++ s.schEvents ++ s.bufEvents).filter
      (fun e => decide (e.obs = o ∧ e.kind = k))).length ≤ 1 := by
  have h1 := C13_emitted_once s0 s evs hw hb0 h o k hk
  have h2 := reachEv_logSub hw h.toEv o k
  rw [← evCount_eq_filter] at h1 ⊢
  exact Nat.le_trans h2 h1

/-- The "exactly one" half that is order dependent: every emitted event is pending or logged. -/
def C13_log_complete_statement : Prop :=
  ∀ (s0 s : Sys) (evs : List Event), WFConfig s0 →
    (s0.buf.hot.stored = [] ∧ s0.buf.hot.scheduled = [] ∧ s0.buf.hot.finished = [] ∧ s0.buf.cold.stored = []) →
    ReachEvOk s0 s evs → ∀ e ∈ evs, e ∈ s.log ++ s.telEvents ++ s.schEvents ++ s.bufEvents

/-- FALSE when the blocks of an instant may run in any order.  Witness: configuration `lcW0` (one
observation, one array, one ingest machine, one timestep, empty workflow, queue algorithm, empty
buffer), schedule `lcSchedLoss`: instant 0 in pid order (monitor first, then the telescope emits
`telStarted`); at instant 1 the telescope's block runs BEFORE the monitor's and empties its pending
list, which still holds `telStarted`.  No exception is raised; `telStarted` of observation 0 is in
the trace and nowhere in the state. -/
theorem C13_log_complete_statement_false : ¬ C13_log_complete_statement := by
  intro hall
  have h := hall lcW0 _ _ lcW0_wf lcW0_buf (lcSchedLoss_reach.toEvOk (by simp [lcW0]))
    ⟨0, 0, .telStarted⟩ (by rw [lcSchedLoss_final.1]; simp)
  have h2 := lcSchedLoss_final.2.1
  unfold lcAll at h2
  rw [h2] at h
  simp at h

/-! ### (2) an emission is a state transition -/

/-- `telStarted` is emitted by the telescope's block, stamped with the time of the block, for an
observation that was not admitted, whose record (if any) is WAITING, and that is admitted after the
block, with the stamp recorded as its start time. -/
theorem C13_started_transition (s0 s : Sys) (evs : List Event) (hw : WFConfig s0) (hr : ReachEv s0 s evs)
    (pid : Nat) (hen : s.enabled pid) (orc : Oracle) (e : Event) (he : e ∈ s.stepEvents pid orc)
    (hk : e.kind = .telStarted) :
    ∃ p, s.proc? pid = some p ∧ p.k = .telescope ∧ e.time = natNow p.wake ∧
      e.obs ∉ s.admitted ∧ e.obs ∈ (s.resume pid orc).1.admitted ∧
      (∀ ob, s.obs? e.obs = some ob → ob.status = .waiting) ∧
      ∃ ob', (s.resume pid orc).1.obs? e.obs = some ob' ∧ ob'.ast = some e.time :=
  step_telStarted hw hr hen orc e he hk

/-- `telFinished` is emitted by the telescope's block, stamped with the time of the block, for an
observation that was not FINISHED and is FINISHED after the block; the stamp is EXACTLY the recorded
start time plus the duration.  (The telescope's loop is due at every integer time, and its block at
time `start + duration` finishes the observation unless it raises: `TelDisc`, TopsimProofs/LifeCycle18.) -/
theorem C13_finished_transition (s0 s : Sys) (hw : WFConfig s0) (hr : Reach s0 s)
    (pid : Nat) (hen : s.enabled pid) (orc : Oracle) (e : Event) (he : e ∈ s.stepEvents pid orc)
    (hk : e.kind = .telFinished) :
    ∃ p, s.proc? pid = some p ∧ p.k = .telescope ∧ e.time = natNow p.wake ∧
      (∀ ob, s.obs? e.obs = some ob → ob.status ≠ .finished) ∧
      (∃ ob', (s.resume pid orc).1.obs? e.obs = some ob' ∧ ob'.status = .finished) ∧
      ∃ ob a, s.obs? e.obs = some ob ∧ ob.ast = some a ∧ e.time = a + ob.duration := by
  obtain ⟨p, hp, hpk, ht, hnf, hf, _⟩ := step_telFinished hen orc e he hk
  exact ⟨p, hp, hpk, ht, fun ob' hob' hst => hnf ⟨ob', hob', hst⟩, hf,
    step_telFinished_exact hw hr hen orc e he hk⟩

/-- `bufAdded` is emitted by the first block of the observation's ingest stream, stamped with the
time of that block, the observation having left WAITING. -/
theorem C13_bufAdded_transition (s : Sys) (pid : Nat) (hen : s.enabled pid) (orc : Oracle) (e : Event)
    (he : e ∈ s.stepEvents pid orc) (hk : e.kind = .bufAdded) :
    ∃ p, s.proc? pid = some p ∧ (∃ tl, p.k = .ingestStream e.obs tl) ∧ p.pc = 0 ∧
      e.time = natNow p.wake ∧ ∃ ob, s.obs? e.obs = some ob ∧ ob.status ≠ .waiting :=
  step_bufAdded s hen orc e he hk

/-- `queueAdded` is emitted by the scheduler loop, stamped with the time of its block, for the
observation it moves from the hot buffer's `stored` list to `scheduled`, which was not queued and is
queued after the block, with a plan. -/
theorem C13_queueAdded_transition (s : Sys) (pid : Nat) (hen : s.enabled pid) (orc : Oracle) (e : Event)
    (he : e ∈ s.stepEvents pid orc) (hk : e.kind = .queueAdded) :
    ∃ p, s.proc? pid = some p ∧ p.k = .schedLoop ∧ e.time = natNow p.wake ∧
      e.obs ∈ s.buf.hot.stored ∧ e.obs ∉ s.queue ∧
      (s.resume pid orc).1.queue = s.queue ++ [e.obs] ∧
      e.obs ∈ (s.resume pid orc).1.buf.hot.scheduled ∧
      (∃ pl ∈ (s.resume pid orc).1.plans, pl.obs = e.obs) :=
  step_queueAdded s hen orc e he hk

/-- `allocStarted` is emitted by the first block of the observation's `allocate_tasks` process,
stamped with the time of that block. -/
theorem C13_allocStarted_transition (s : Sys) (pid : Nat) (hen : s.enabled pid) (orc : Oracle) (e : Event)
    (he : e ∈ s.stepEvents pid orc) (hk : e.kind = .allocStarted) :
    ∃ p, s.proc? pid = some p ∧ (∃ sc pa po, p.k = .allocTasks e.obs sc pa po false) ∧ p.pc = 0 ∧
      e.time = natNow p.wake :=
  step_allocStarted s hen orc e he hk

/-- `allocStopped` is emitted by the observation's `allocate_tasks` process, in a block that also
emits `bufRemoved` with the same stamp and moves the observation from the hot buffer's `scheduled`
list to `finished`. -/
theorem C13_allocStopped_transition (s0 s : Sys) (hw : WFConfig s0)
    (hb0 : s0.buf.hot.stored = [] ∧ s0.buf.hot.scheduled = [] ∧ s0.buf.hot.finished = [] ∧
      s0.buf.cold.stored = [])
    (hr : ReachOk s0 s) (pid : Nat) (hen : s.enabled pid) (orc : Oracle)
    (hpre : s.alg = .oracle → orc.preOk) (e : Event) (he : e ∈ s.stepEvents pid orc)
    (hk : e.kind = .allocStopped) :
    ∃ p, s.proc? pid = some p ∧ (∃ sc pa po, p.k = .allocTasks e.obs sc pa po false) ∧
      e.time = natNow p.wake ∧ (⟨e.time, e.obs, .bufRemoved⟩ : Event) ∈ s.stepEvents pid orc ∧
      e.obs ∈ s.buf.hot.scheduled ∧ e.obs ∈ (s.resume pid orc).1.buf.hot.finished ∧
      e.obs ∉ (s.resume pid orc).1.buf.hot.scheduled := by
  have hbuf : bufList s0.buf = [] := by
    obtain ⟨h1, h2, h3, h4⟩ := hb0
    simp [bufList, h1, h2, h3, h4]
  exact step_allocStopped hw hbuf hr hen orc hpre e he hk

/-- `bufRemoved` and `queueRemoved` are emitted only in a block that emits `allocStopped` for the
same observation with the same stamp; `queueRemoved` goes with taking the observation out of the
scheduler's queue. -/
theorem C13_removed_transition (s : Sys) (pid : Nat) (hen : s.enabled pid) (orc : Oracle) (e : Event)
    (he : e ∈ s.stepEvents pid orc) (hk : e.kind = .bufRemoved ∨ e.kind = .queueRemoved) :
    (⟨e.time, e.obs, .allocStopped⟩ : Event) ∈ s.stepEvents pid orc ∧
    (e.kind = .queueRemoved → e.obs ∈ s.queue ∧ (s.resume pid orc).1.queue = s.queue.erase e.obs) :=
  step_removed s hen orc e he hk

/-! ### (3) causal order on the trace -/

/-- The ingest side needs no hypothesis on the buffer and none on the oracle: along any trajectory,
`bufAdded` comes with a `telStarted` of the same observation and the same stamp, and `telFinished`
with a `telStarted` of the same observation stamped exactly one observation duration earlier. -/
theorem C13_ingest_order (s0 s : Sys) (evs : List Event) (hw : WFConfig s0) (h : ReachEv s0 s evs) :
    ∀ e ∈ evs,
    (e.kind = .bufAdded → ∃ e' ∈ evs, e'.obs = e.obs ∧ e'.kind = .telStarted ∧ e'.time = e.time) ∧
    (e.kind = .telFinished → ∃ ob, s.obs? e.obs = some ob ∧
      ∃ e' ∈ evs, e'.obs = e.obs ∧ e'.kind = .telStarted ∧ e'.time + ob.duration = e.time) := by
  intro e he
  refine ⟨fun hk => (reachEv_tw hw h).ba e he hk, fun hk => ?_⟩
  obtain ⟨ob, hob, hev⟩ := reachEv_finExact hw h e he hk
  exact ⟨ob, hob, hev⟩

/-- Each event of an observation comes with its predecessors, already emitted and stamped no later:
`bufAdded` with `telStarted` of the same stamp; `telFinished` with `telStarted` exactly one duration
earlier; `queueAdded` with `telStarted`; `allocStarted` with `queueAdded`; `allocStopped` with
`allocStarted` and with `bufRemoved` of the same stamp; `bufRemoved` and `queueRemoved` with
`allocStopped` of the same stamp. -/
theorem C13_predecessors (s0 s : Sys) (evs : List Event) (hw : WFConfig s0)
    (hb0 : s0.buf.hot.stored = [] ∧ s0.buf.hot.scheduled = [] ∧ s0.buf.hot.finished = [] ∧
      s0.buf.cold.stored = [])
    (h : ReachEvOk s0 s evs) : ∀ e ∈ evs,
    (e.kind = .bufAdded → ∃ e' ∈ evs, e'.obs = e.obs ∧ e'.kind = .telStarted ∧ e'.time = e.time) ∧
    (e.kind = .telFinished → ∃ ob, s.obs? e.obs = some ob ∧
      ∃ e' ∈ evs, e'.obs = e.obs ∧ e'.kind = .telStarted ∧ e'.time + ob.duration = e.time) ∧
    (e.kind = .queueAdded → ∃ e' ∈ evs, e'.obs = e.obs ∧ e'.kind = .telStarted ∧ e'.time ≤ e.time) ∧
    (e.kind = .allocStarted → ∃ e' ∈ evs, e'.obs = e.obs ∧ e'.kind = .queueAdded ∧ e'.time ≤ e.time) ∧
    (e.kind = .allocStopped → (∃ e' ∈ evs, e'.obs = e.obs ∧ e'.kind = .allocStarted ∧ e'.time ≤ e.time) ∧
      ∃ e' ∈ evs, e'.obs = e.obs ∧ e'.kind = .bufRemoved ∧ e'.time = e.time) ∧
    (e.kind = .bufRemoved → ∃ e' ∈ evs, e'.obs = e.obs ∧ e'.kind = .allocStopped ∧ e'.time = e.time) ∧
    (e.kind = .queueRemoved → ∃ e' ∈ evs, e'.obs = e.obs ∧ e'.kind = .allocStopped ∧ e'.time = e.time) := by
  have hbuf : bufList s0.buf = [] := by
    obtain ⟨h1, h2, h3, h4⟩ := hb0
    simp [bufList, h1, h2, h3, h4]
  have htw := reachEv_tw hw h.toEv
  have hsw := reachEvOk_sw hw hbuf h
  intro e he
  refine ⟨fun hk => htw.ba e he hk, fun hk => ?_, fun hk => hsw.qa e he hk, fun hk => hsw.as e he hk,
    fun hk => ⟨hsw.ap e he hk, hsw.pb e he hk⟩, fun hk => hsw.br e he hk, fun hk => hsw.qr e he hk⟩
  obtain ⟨ob, hob, hev⟩ := reachEv_finExact hw h.toEv e he hk
  exact ⟨ob, hob, hev⟩

/-- The causal order of the property, for any two events of the same observation in the trace:
started ≤ queue added ≤ allocation started ≤ allocation stopped ≤ queue removed (the last two with
the same stamp), buffer added at start (same stamp), buffer removed at allocation stopped (same
stamp), finished exactly one observation duration after started. -/
theorem C13_causal_order (s0 s : Sys) (evs : List Event) (hw : WFConfig s0)
    (hb0 : s0.buf.hot.stored = [] ∧ s0.buf.hot.scheduled = [] ∧ s0.buf.hot.finished = [] ∧
      s0.buf.cold.stored = [])
    (h : ReachEvOk s0 s evs) : ∀ e1 ∈ evs, ∀ e2 ∈ evs, e1.obs = e2.obs →
    (e1.kind = .telStarted → e2.kind = .queueAdded → e1.time ≤ e2.time) ∧
    (e1.kind = .queueAdded → e2.kind = .allocStarted → e1.time ≤ e2.time) ∧
    (e1.kind = .allocStarted → e2.kind = .allocStopped → e1.time ≤ e2.time) ∧
    (e1.kind = .allocStopped → e2.kind = .queueRemoved → e1.time = e2.time) ∧
    (e1.kind = .telStarted → e2.kind = .bufAdded → e1.time = e2.time) ∧
    (e1.kind = .allocStopped → e2.kind = .bufRemoved → e1.time = e2.time) ∧
    (e1.kind = .telStarted → e2.kind = .telFinished →
      ∃ ob, s.obs? e1.obs = some ob ∧ e2.time = e1.time + ob.duration) := by
  intro e1 he1 e2 he2 hobs
  have hpred := C13_predecessors s0 s evs hw hb0 h e2 he2
  -- the predecessor found is `e1`, by uniqueness
  have uniq : ∀ (k : EvKind), k ≠ .transferStarted ∧ k ≠ .transferStopped → e1.kind = k →
      ∀ e' ∈ evs, e'.obs = e2.obs → e'.kind = k → e' = e1 := by
    intro k hk hk1 e' he' ho' hk'
    have hle := C13_emitted_once s0 s evs hw hb0 h e2.obs k hk
    rw [← evCount_eq_filter] at hle
    exact ev_unique hle he' he1 ⟨ho', hk'⟩ ⟨hobs, hk1⟩
  obtain ⟨p1, p2, p3, p4, p5, p6, p7⟩ := hpred
  refine ⟨fun k1 k2 => ?_, fun k1 k2 => ?_, fun k1 k2 => ?_, fun k1 k2 => ?_, fun k1 k2 => ?_,
    fun k1 k2 => ?_, fun k1 k2 => ?_⟩
  · obtain ⟨e', he', ho', hk', ht⟩ := p3 k2
    rw [← uniq _ (by simp) k1 e' he' ho' hk']; exact ht
  · obtain ⟨e', he', ho', hk', ht⟩ := p4 k2
    rw [← uniq _ (by simp) k1 e' he' ho' hk']; exact ht
  · obtain ⟨e', he', ho', hk', ht⟩ := (p5 k2).1
    rw [← uniq _ (by simp) k1 e' he' ho' hk']; exact ht
  · obtain ⟨e', he', ho', hk', ht⟩ := p7 k2
    rw [← uniq _ (by simp) k1 e' he' ho' hk']; exact ht
  · obtain ⟨e', he', ho', hk', ht⟩ := p1 k2
    rw [← uniq _ (by simp) k1 e' he' ho' hk']; exact ht
  · obtain ⟨e', he', ho', hk', ht⟩ := p6 k2
    rw [← uniq _ (by simp) k1 e' he' ho' hk']; exact ht
  · obtain ⟨ob, hob, e', he', ho', hk', ht⟩ := p2 k2
    rw [← uniq _ (by simp) k1 e' he' ho' hk']
    exact ⟨ob, by rw [ho']; exact hob, ht.symm⟩

/-! ### the hypotheses are satisfiable -/

/-- a run that emits the whole life cycle of an observation, each event once, in causal order:
configuration `lcW0`, schedule `lcSchedFull` (two instants in pid order) -/
example : ∃ s0 s evs, WFConfig s0 ∧
    (s0.buf.hot.stored = [] ∧ s0.buf.hot.scheduled = [] ∧ s0.buf.hot.finished = [] ∧ s0.buf.cold.stored = []) ∧
    ReachEvOk s0 s evs ∧
    evs = [⟨0, 0, .telStarted⟩, ⟨0, 0, .bufAdded⟩, ⟨1, 0, .telFinished⟩, ⟨1, 0, .queueAdded⟩,
      ⟨1, 0, .allocStarted⟩, ⟨1, 0, .allocStopped⟩, ⟨1, 0, .queueRemoved⟩, ⟨1, 0, .bufRemoved⟩] :=
  ⟨lcW0, _, _, lcW0_wf, lcW0_buf, lcSchedFull_reach.toEvOk (by simp [lcW0]), lcSchedFull_trace⟩

end Sys
end Topsim
