/-
  C17 — plan-following scheduling keeps every task on its planned machine.
-/
import TopsimProofs.AlgLemmas

namespace Topsim

/-- DynamicSchedulingFromPlan proposes a task only on the machine its plan names … -/
theorem C17_alg (cl : Cluster) (plan : Plan) (view : Tid → TaskView)
    (sched : List (Tid × Mid)) (pool : List Tid) (out : AlgOut)
    (h : Alg.dynamicRun cl plan view sched pool = .ok out) :
    ∀ p ∈ out.schedule, p ∉ sched → (view p.1).machine = .ok p.2 :=
  dynamic_planned_machine cl plan view sched pool out h

/-- … and only if that machine is currently available: a task whose planned
machine is busy simply is not proposed (it waits) -/
theorem C17_waits (cl : Cluster) (plan : Plan) (view : Tid → TaskView)
    (sched : List (Tid × Mid)) (pool : List Tid) (out : AlgOut)
    (h : Alg.dynamicRun cl plan view sched pool = .ok out) :
    ∀ p ∈ out.schedule, p ∉ sched → p.2 ∈ cl.available :=
  dynamic_machine_available cl plan view sched pool out h

/-- the scheduler re-allocates (`update_allocation`) only when the algorithm
names a machine other than the planned one: a proposal on the planned machine
leaves the task's plan untouched -/
theorem C17_no_update (s : Sys) (now : Time) (oid : Oid) (st : Sys.PcsSt) (t : Tid) (m : Mid)
    (r : TaskRec) (hs : dictGet st.schedule t = some m) (hr : st.s.task? t = some r)
    (hplanned : r.planned = some m) (hobj : r.allocObj = false) (herr : st.err = none) :
    ((Sys.processOne now oid st t).s.task? t).map (fun r' => (r'.planned, r'.allocObj, r'.duration))
      = some (some m, false, r.duration) ∨ (Sys.processOne now oid st t).err.isSome :=
  processOne_no_update s now oid st t m r hs hr hplanned hobj herr

end Topsim
