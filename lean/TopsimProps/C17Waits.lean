/-
  C17, the "waits" half on the task table — "a task whose planned machine is busy WAITS for it":
  under DynamicSchedulingFromPlan (`alg = .dynamic`) with a static plan a workflow task is recorded
  only on the machine its plan row names, and its recorded interval `[ast, aft)` never overlaps the
  recorded interval of any other task that ran on that machine; at the block that records its start
  every earlier occupant has a recorded finish that is not after the new start.

  Vocabulary (as in C17Traj / C01Intervals).  `s.task? t` is the record of `t`; `r.ast` / `r.aft` the
  recorded start / finish (`Time` = exact rationals); `r.planned = some m`, `r.allocObj = false`: the
  plan row of the task names machine `m` (an id).  The process table keeps ended processes:
  `.doWork t m …` is the body of `t` on machine `m` — "`t` ran (or runs) on `m`".

  Hypotheses.  `hw : WFConfig s0`, `ha : s0.alg = .dynamic`, `h : Reach s0 s` — those of C17Traj; every
  block order inside an instant, every oracle input (static-plan rows, delays), crashed or not.  The
  occupant `u` may be any task, an ingest task included.  The step theorem
  (`C17_start_after_recorded_finish_step`) and the state theorem on live bodies hold for every
  algorithm (`ReachOk`).

  Run-time monitor this mirrors: `planned-machine-not-waited-for`.
-/
import TopsimProofs.Coro1
import TopsimProofs.Coro2
import TopsimProps.C17Traj
import TopsimProps.C01Intervals
import TopsimProps.L3

namespace Topsim

/-! ### the round of the algorithm -/

/-- **A busy planned machine is not proposed.**  One round of DynamicSchedulingFromPlan: a task whose
planned machine (as the algorithm reads it off the task) is not in the available pool gets no new
entry in the schedule — every entry for it was there before the round.  (`C17_alg` + `C17_waits`.) -/
theorem C17_busy_machine_not_proposed (cl : Cluster) (plan : Plan) (view : Tid → TaskView)
    (sched : List (Tid × Mid)) (pool : List Tid) (out : AlgOut)
    (h : Alg.dynamicRun cl plan view sched pool = .ok out) (t : Tid) (m : Mid)
    (hm : (view t).machine = .ok m) (hbusy : m ∉ cl.available) :
    ∀ p ∈ out.schedule, p.1 = t → p ∈ sched :=
  Sys.coro_dynamic_busy_not_proposed cl plan view sched pool out h t m hm hbusy

namespace Sys

/-- … in a state of the block system (`Scheduler.allocate_tasks` → `algorithm.run`, any state with
`alg = .dynamic`): the record of `t` names the planned machine `m`, `m` is not available ⇒ the round
adds no proposal for `t`. -/
theorem C17_busy_machine_not_proposed_block (s : Sys) (halg : s.alg = .dynamic) (orc : Oracle) (plan : Plan)
    (sc : List (Tid × Mid)) (po : List Tid) (out : AlgOut) (hrun : s.runAlgorithm orc plan sc po = .ok out)
    (t : Tid) (r : TaskRec) (m : Mid) (hr : s.task? t = some r) (hp : r.planned = some m)
    (hbusy : m ∉ s.cl.available) : ∀ p ∈ out.schedule, p.1 = t → p ∈ sc :=
  coro_runAlgorithm_busy_not_proposed halg orc plan sc po out hrun hr hp hbusy

/-- … in a reachable state, with the pools the monitor looks at: the planned machine is occupied by a
task or is ingesting (`Cluster.is_occupied`), however many other machines are free. -/
theorem C17_busy_machine_not_proposed_traj (s0 s : Sys) (hw : WFConfig s0) (ha : s0.alg = .dynamic)
    (h : Reach s0 s) (orc : Oracle) (plan : Plan) (sc : List (Tid × Mid)) (po : List Tid) (out : AlgOut)
    (hrun : s.runAlgorithm orc plan sc po = .ok out)
    (t : Tid) (r : TaskRec) (m : Mid) (hr : s.task? t = some r) (hp : r.planned = some m)
    (hbusy : s.cl.isOccupied m = true) : ∀ p ∈ out.schedule, p.1 = t → p ∈ sc := by
  have hno : s0.alg ≠ .oracle := by rw [ha]; simp
  obtain ⟨U, hU⟩ := C02_trajectory_shipped s0 s hw hno h
  exact coro_runAlgorithm_busy_not_proposed (by rw [reach_alg h]; exact ha) orc plan sc po out hrun hr hp
    (coro_busy_not_available hU hbusy)

/-! ### the recorded intervals -/

/-- **A started task sits on its planned machine and its recorded interval is disjoint from every
other recorded interval of that machine.**  Every reachable state, `alg = .dynamic`: if the workflow
task `t` has a body on machine `m` and a recorded start `a`, then
(1) `m` is the machine its plan row names, and
(2) for every other task `u` with a body on `m` and a recorded interval `[au, fu)`: `fu ≤ a` (`t`
    started at or after the recorded finish of `u`), or `t` has a recorded finish `ft ≤ au` (`t` was
    over before `u` started). -/
theorem C17_waits_until_recorded_finish_traj (s0 s : Sys) (hw : WFConfig s0) (ha : s0.alg = .dynamic)
    (h : Reach s0 s) :
    ∀ t m rt a, t.isIngest = false →
      (∃ d ∈ s.procs, ∃ c ph tot, d.k = .doWork t m c ph tot) →
      s.task? t = some rt → rt.ast = some a →
      (rt.planned = some m ∧ rt.allocObj = false) ∧
      ∀ u ru au fu, u ≠ t → (∃ d ∈ s.procs, ∃ c ph tot, d.k = .doWork u m c ph tot) →
        s.task? u = some ru → ru.ast = some au → ru.aft = some fu →
        fu ≤ a ∨ ∃ ft, rt.aft = some ft ∧ ft ≤ au := by
  intro t m rt a hi ⟨d, hd, c, ph, tot, hdk⟩ hrt hat
  have hno : s0.alg ≠ .oracle := by rw [ha]; simp
  have hok := h.toOk hno
  refine ⟨?_, ?_⟩
  · obtain ⟨r, hr, hp, ho⟩ := (C17_on_planned_machine s0 s hw ha h).1 d hd t m c ph tot hdk hi
    rw [hrt] at hr
    injection hr with hr
    subst hr
    exact ⟨hp, ho⟩
  · intro u ru au fu hne ⟨d1, hd1, c1, ph1, tot1, hk1⟩ hru hau hfu
    rcases (reachOk_ivInv s0 s hw hok).pair d1 hd1 d hd u t m c1 c ph1 ph tot1 tot hk1 hdk hne ru rt au a
      hru hrt hau hat with ⟨f, hf, hle⟩ | hr
    · rw [hfu] at hf; injection hf with hf; subst hf; exact Or.inl hle
    · exact Or.inr hr

/-- (2) while the occupant still holds the machine: if `u` has a recorded start on `m` and no
recorded finish yet, every other task with a recorded start on `m` finished before `u` started — no
task has started on `m` since `u` did. -/
theorem C17_not_started_while_held_traj (s0 s : Sys) (hw : WFConfig s0) (h : ReachOk s0 s) :
    ∀ t u m rt ru a au, u ≠ t →
      (∃ d ∈ s.procs, ∃ c ph tot, d.k = .doWork t m c ph tot) →
      (∃ d ∈ s.procs, ∃ c ph tot, d.k = .doWork u m c ph tot) →
      s.task? t = some rt → s.task? u = some ru → rt.ast = some a → ru.ast = some au → ru.aft = none →
      ∃ ft, rt.aft = some ft ∧ ft ≤ au := by
  intro t u m rt ru a au hne ⟨d, hd, c, ph, tot, hdk⟩ ⟨d1, hd1, c1, ph1, tot1, hk1⟩ hrt hru hat hau hnf
  rcases (reachOk_ivInv s0 s hw h).pair d1 hd1 d hd u t m c1 c ph1 ph tot1 tot hk1 hdk hne ru rt au a
    hru hrt hau hat with ⟨f, hf, _⟩ | hr
  · rw [hnf] at hf; cases hf
  · exact hr

/-- **A task that is about to start, or runs, came after every recorded finish of its machine.**  Every
reachable state, every algorithm: while the body of `t` on `m` is alive (waiting for its inputs, about
to stamp its start, or running) and due at `w` (`env.now` of its next block — the start stamp when
that block is the start block), every other task with a body on `m` and a recorded start has a
recorded finish `fu ≤ w`. -/
theorem C17_live_body_after_recorded_finish_traj (s0 s : Sys) (hw : WFConfig s0) (h : ReachOk s0 s) :
    ∀ d ∈ s.procs, d.alive = true → ∀ t m c ph tot, d.k = .doWork t m c ph tot →
      ∀ u ru au, u ≠ t → (∃ d1 ∈ s.procs, ∃ c1 ph1 tot1, d1.k = .doWork u m c1 ph1 tot1) →
        s.task? u = some ru → ru.ast = some au → ∃ fu, ru.aft = some fu ∧ fu ≤ d.wake := by
  intro d hd hal t m c ph tot hdk u ru au hne ⟨d1, hd1, c1, ph1, tot1, hk1⟩ hru hau
  exact other_task_done (reachOk_ivInv s0 s hw h) (reach_inv s0 s hw h) hd hal hdk hd1 hk1 hne hru hau

/-- **The block that records the start.**  Every reachable state, every algorithm, every enabled block,
every oracle: if the step gives `t` a recorded start `a` (it had none), then `a` is the clock of
that block, and every other task `u` with a body on the machine `m` of the body of `t` and a recorded
start has a recorded finish `fu ≤ a`: the task that was proposed while `u` held its planned machine
starts at or after the recorded finish of `u`. -/
theorem C17_start_after_recorded_finish_step (s0 s : Sys) (hw : WFConfig s0) (h : ReachOk s0 s)
    (pid : Nat) (hen : s.enabled pid) (orc : Oracle) (t : Tid) (r r' : TaskRec) (a : Time)
    (hr : s.task? t = some r) (hnone : r.ast = none)
    (hr' : (s.resume pid orc).1.task? t = some r') (ha' : r'.ast = some a) :
    (∃ p, s.proc? pid = some p ∧ a = p.wake ∧ ∃ m c ph tot, p.k = .doWork t m c ph tot) ∧
    ∀ m, (∃ d ∈ s.procs, ∃ c ph tot, d.k = .doWork t m c ph tot) →
      ∀ u ru au, u ≠ t → (∃ d ∈ s.procs, ∃ c ph tot, d.k = .doWork u m c ph tot) →
        (s.resume pid orc).1.task? u = some ru → ru.ast = some au →
        ∃ fu, ru.aft = some fu ∧ fu ≤ a := by
  have hs := reach_inv s0 s hw h
  refine ⟨?_, coro_start_after_finish_step hs (reachOk_ivInv s0 s hw h) hen orc hr hnone hr' ha'⟩
  obtain ⟨p, hp, _, hap, hk, _⟩ := coro_start_step hs hen orc hr hnone hr' ha'
  exact ⟨p, hp, hap, hk⟩

/-- … under plan-following scheduling the machine of that body is the planned machine of `t`. -/
theorem C17_start_after_recorded_finish_planned_step (s0 s : Sys) (hw : WFConfig s0) (ha : s0.alg = .dynamic)
    (h : Reach s0 s) (pid : Nat) (hen : s.enabled pid) (orc : Oracle) (t : Tid) (r r' : TaskRec) (a : Time)
    (hi : t.isIngest = false)
    (hr : s.task? t = some r) (hnone : r.ast = none)
    (hr' : (s.resume pid orc).1.task? t = some r') (ha' : r'.ast = some a) :
    ∃ m, r.planned = some m ∧ r.allocObj = false ∧
      (∃ d ∈ s.procs, ∃ c ph tot, d.k = .doWork t m c ph tot) ∧
      ∀ u ru au, u ≠ t → (∃ d ∈ s.procs, ∃ c ph tot, d.k = .doWork u m c ph tot) →
        (s.resume pid orc).1.task? u = some ru → ru.ast = some au →
        ∃ fu, ru.aft = some fu ∧ fu ≤ a := by
  have hno : s0.alg ≠ .oracle := by rw [ha]; simp
  have hok := h.toOk hno
  obtain ⟨⟨p, hp, _, m, c, ph, tot, hk⟩, hall⟩ :=
    C17_start_after_recorded_finish_step s0 s hw hok pid hen orc t r r' a hr hnone hr' ha'
  obtain ⟨hpm, _⟩ := proc?_some hp
  obtain ⟨r1, hr1, hp1, ho1⟩ := (C17_on_planned_machine s0 s hw ha h).1 p hpm t m c ph tot hk hi
  rw [hr] at hr1
  injection hr1 with hr1
  subst hr1
  exact ⟨m, hp1, ho1, ⟨p, hpm, c, ph, tot, hk⟩, hall m ⟨p, hpm, c, ph, tot, hk⟩⟩

/-! ### along the simulator's runs (SimPy's order) -/

theorem C17_waits_until_recorded_finish_simpy (env : SimEnv) (s0 : Sys) (hw : WFConfig s0)
    (ha : s0.alg = .dynamic) (k : SimState) (h : SimRun env s0 k) :
    ∀ t m rt a, t.isIngest = false →
      (∃ d ∈ k.st.procs, ∃ c ph tot, d.k = .doWork t m c ph tot) →
      k.st.task? t = some rt → rt.ast = some a →
      (rt.planned = some m ∧ rt.allocObj = false) ∧
      ∀ u ru au fu, u ≠ t → (∃ d ∈ k.st.procs, ∃ c ph tot, d.k = .doWork u m c ph tot) →
        k.st.task? u = some ru → ru.ast = some au → ru.aft = some fu →
        fu ≤ a ∨ ∃ ft, rt.aft = some ft ∧ ft ≤ au :=
  L3_transfer env s0 hw
    (fun s => ∀ t m rt a, t.isIngest = false →
      (∃ d ∈ s.procs, ∃ c ph tot, d.k = .doWork t m c ph tot) →
      s.task? t = some rt → rt.ast = some a →
      (rt.planned = some m ∧ rt.allocObj = false) ∧
      ∀ u ru au fu, u ≠ t → (∃ d ∈ s.procs, ∃ c ph tot, d.k = .doWork u m c ph tot) →
        s.task? u = some ru → ru.ast = some au → ru.aft = some fu →
        fu ≤ a ∨ ∃ ft, rt.aft = some ft ∧ ft ≤ au)
    (fun s hs => C17_waits_until_recorded_finish_traj s0 s hw ha hs.toReach) (by intro _ h; exact h) k h

theorem C17_not_started_while_held_simpy (env : SimEnv) (s0 : Sys) (hw : WFConfig s0)
    (k : SimState) (h : SimRun env s0 k) :
    ∀ t u m rt ru a au, u ≠ t →
      (∃ d ∈ k.st.procs, ∃ c ph tot, d.k = .doWork t m c ph tot) →
      (∃ d ∈ k.st.procs, ∃ c ph tot, d.k = .doWork u m c ph tot) →
      k.st.task? t = some rt → k.st.task? u = some ru → rt.ast = some a → ru.ast = some au → ru.aft = none →
      ∃ ft, rt.aft = some ft ∧ ft ≤ au :=
  L3_transfer env s0 hw
    (fun s => ∀ t u m rt ru a au, u ≠ t →
      (∃ d ∈ s.procs, ∃ c ph tot, d.k = .doWork t m c ph tot) →
      (∃ d ∈ s.procs, ∃ c ph tot, d.k = .doWork u m c ph tot) →
      s.task? t = some rt → s.task? u = some ru → rt.ast = some a → ru.ast = some au → ru.aft = none →
      ∃ ft, rt.aft = some ft ∧ ft ≤ au)
    (fun s hs => C17_not_started_while_held_traj s0 s hw hs) (by intro _ h; exact h) k h

theorem C17_live_body_after_recorded_finish_simpy (env : SimEnv) (s0 : Sys) (hw : WFConfig s0)
    (k : SimState) (h : SimRun env s0 k) :
    ∀ d ∈ k.st.procs, d.alive = true → ∀ t m c ph tot, d.k = .doWork t m c ph tot →
      ∀ u ru au, u ≠ t → (∃ d1 ∈ k.st.procs, ∃ c1 ph1 tot1, d1.k = .doWork u m c1 ph1 tot1) →
        k.st.task? u = some ru → ru.ast = some au → ∃ fu, ru.aft = some fu ∧ fu ≤ d.wake :=
  L3_transfer env s0 hw
    (fun s => ∀ d ∈ s.procs, d.alive = true → ∀ t m c ph tot, d.k = .doWork t m c ph tot →
      ∀ u ru au, u ≠ t → (∃ d1 ∈ s.procs, ∃ c1 ph1 tot1, d1.k = .doWork u m c1 ph1 tot1) →
        s.task? u = some ru → ru.ast = some au → ∃ fu, ru.aft = some fu ∧ fu ≤ d.wake)
    (fun s hs => C17_live_body_after_recorded_finish_traj s0 s hw hs) (by intro _ h; exact h) k h

theorem C17_busy_machine_not_proposed_simpy (env : SimEnv) (s0 : Sys) (hw : WFConfig s0)
    (ha : s0.alg = .dynamic) (k : SimState) (h : SimRun env s0 k)
    (orc : Oracle) (plan : Plan) (sc : List (Tid × Mid)) (po : List Tid) (out : AlgOut)
    (hrun : k.st.runAlgorithm orc plan sc po = .ok out)
    (t : Tid) (r : TaskRec) (m : Mid) (hr : k.st.task? t = some r) (hp : r.planned = some m)
    (hbusy : k.st.cl.isOccupied m = true) : ∀ p ∈ out.schedule, p.1 = t → p ∈ sc :=
  L3_transfer env s0 hw
    (fun s => ∀ (orc : Oracle) (plan : Plan) (sc : List (Tid × Mid)) (po : List Tid) (out : AlgOut),
      s.runAlgorithm orc plan sc po = .ok out →
      ∀ (t : Tid) (r : TaskRec) (m : Mid), s.task? t = some r → r.planned = some m →
        s.cl.isOccupied m = true → ∀ p ∈ out.schedule, p.1 = t → p ∈ sc)
    (fun s hs orc plan sc po out hrun t r m hr hp hb =>
      C17_busy_machine_not_proposed_traj s0 s hw ha hs.toReach orc plan sc po out hrun t r m hr hp hb)
    (by intro _ h; exact h) k h orc plan sc po out hrun t r m hr hp hbusy

/-! ### the hypotheses are satisfiable -/

/-- Non-vacuity, on the executable simulator (configuration `coroW`, environment `coroEnv`:
TopsimProofs/Coro2.lean).  At `is_finished()` (every event before t = 12): the two workflow tasks
`coroU = .wf 1 2 0` and `coroT = .wf 0 1 1` are both planned on machine 1 and both ran there;
`coroU` is recorded over [3, 6) and `coroT` starts at 6 — **exactly the recorded finish of the
first** — and is recorded over [6, 7); the theorem applies to the pair and its first alternative is
the one that holds. -/
theorem C17_waits_witness :
    ∃ k : SimState, SimRun coroEnv coroW k ∧ Reach coroW k.st ∧ WFConfig coroW ∧ coroW.alg = .dynamic ∧
      k.st.isFinished = true ∧ k.st.crashed = none ∧
      (∃ d ∈ k.st.procs, ∃ c ph tot, d.k = .doWork coroT 1 c ph tot) ∧
      (∃ d ∈ k.st.procs, ∃ c ph tot, d.k = .doWork coroU 1 c ph tot) ∧
      ∃ rt ru, k.st.task? coroT = some rt ∧ k.st.task? coroU = some ru ∧
        rt.planned = some 1 ∧ rt.allocObj = false ∧ ru.planned = some 1 ∧ ru.allocObj = false ∧
        ru.ast = some 3 ∧ ru.aft = some 6 ∧ rt.ast = some 6 ∧ rt.aft = some 7 ∧ ru.aft = rt.ast ∧
        ((6 : Time) ≤ 6 ∨ ∃ ft, rt.aft = some ft ∧ ft ≤ 3) := by
  have hc := coroK_final_chk
  simp only [Bool.and_eq_true, Bool.not_eq_true', decide_eq_true_eq] at hc
  obtain ⟨⟨⟨⟨⟨⟨⟨⟨hfin, hcr⟩, hh⟩, hu⟩, ht⟩, hbu⟩, hbt⟩, _⟩, _⟩ := hc
  obtain ⟨ru, hru, hu1, hu2, hu3, hu4⟩ := coroRecChk_spec hu
  obtain ⟨rt, hrt, ht1, ht2, ht3, ht4⟩ := coroRecChk_spec ht
  have hreach : Reach coroW (coroK 12).st := (simRun_reachOk coroW_wf (coroK_run 12) hh).toReach
  have hbT := coroBodyChk_spec hbt
  have hbU := coroBodyChk_spec hbu
  refine ⟨coroK 12, coroK_run 12, hreach, coroW_wf, rfl, hfin, hcr, hbT, hbU, rt, ru, hrt, hru, ht1, ht2,
    hu1, hu2, hu3, hu4, ht3, ht4, hu4.trans ht3.symm, ?_⟩
  exact (C17_waits_until_recorded_finish_traj coroW (coroK 12).st coroW_wf rfl hreach coroT 1 rt 6 rfl hbT
    hrt ht3).2 coroU ru 3 6 (by decide) hbU hru hu3 hu4

/-- … and earlier in the same run (every event before t = 5): `coroT` is ready (its only predecessor is
finished), unscheduled, has no recorded start and no body; its planned machine 1 is occupied by
`coroU` (started at 3, no recorded finish yet) while machines 0 and 2 are available; the round of
the algorithm that `allocate_tasks` runs in this state (schedule `[]`, pool `[coroT]`) succeeds and
proposes nothing — the hypotheses of `C17_busy_machine_not_proposed_simpy` hold and its conclusion
is about an actual round. -/
theorem C17_busy_witness :
    ∃ k : SimState, SimRun coroEnv coroW k ∧ k.st.crashed = none ∧
      k.st.cl.available = [0, 2] ∧ k.st.cl.occupied = [1] ∧ k.st.cl.isOccupied 1 = true ∧
      k.st.active = [(1, coroU)] ∧
      (∃ ru, k.st.task? coroU = some ru ∧ ru.ast = some 3 ∧ ru.aft = none) ∧
      (k.st.task? (.wf 0 1 0)).map (·.status) = some .finished ∧
      ∃ rt, k.st.task? coroT = some rt ∧ rt.planned = some 1 ∧ rt.ast = none ∧
        rt.status = .unscheduled ∧ rt.preds = [.wf 0 1 0] ∧
        ∃ plan out, k.st.plan? 0 = some plan ∧ k.st.runAlgorithm {} plan [] [coroT] = .ok out ∧
          out.schedule = [] ∧ out.pool = [coroT] ∧ ∀ p ∈ out.schedule, p.1 = coroT → p ∈ [] := by
  have hc := coroK_mid_chk
  simp only [Bool.and_eq_true, Bool.not_eq_true', decide_eq_true_eq] at hc
  obtain ⟨⟨⟨⟨⟨⟨⟨⟨⟨hh, hcr⟩, hu⟩, ht⟩, hst⟩, hpred⟩, hav⟩, hocc⟩, hact⟩, _⟩ := hc
  obtain ⟨ru, hru, _, _, hu3, hu4⟩ := coroRecChk_spec hu
  obtain ⟨rt, hrt, ht1, _, ht3, _⟩ := coroRecChk_spec ht
  obtain ⟨plan, out, hplan, hrun, hs1, hs2⟩ := coroRound_spec coroK_mid_round
  rw [hrt] at hst
  simp only [Option.map_some, Option.some.injEq, Prod.mk.injEq] at hst
  refine ⟨coroK 5, coroK_run 5, hcr, hav, hocc, coroK_mid_occupied, hact, ⟨ru, hru, hu3, hu4⟩, hpred,
    rt, hrt, ht1, ht3, hst.1, hst.2, plan, out, hplan, hrun, hs1, hs2, ?_⟩
  exact C17_busy_machine_not_proposed_simpy coroEnv coroW coroW_wf rfl (coroK 5) (coroK_run 5) {} plan []
    [coroT] out hrun coroT rt 1 hrt ht1 coroK_mid_occupied

end Sys
end Topsim
