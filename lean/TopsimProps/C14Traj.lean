/-
  C14, trajectory clauses — "a generated plan is a faithful copy of the workflow
  graph", for every plan generated DURING a run and at every later moment of the
  run (the plan's task list is pruned of finished tasks; its graph stays the
  workflow's).

  Vocabulary.  `s0` is the configuration before `start()`, `s` a state of the run.
  `Reach s0 s`: any block order (any process of minimal wake time may run next), any
  oracle inputs, any algorithm, crashed or not; `ReachOk` adds the side condition on
  a user algorithm's own reservation calls.  `o.wf` is the workflow of the
  configured observation `o` (`nodes`, `edges`, and `topo` = the list
  `networkx.topological_sort` returns, a parameter with the contract `IsTopo`).
  `Tid.wf o clock n` is the task id `<observation>_<clock>_<node>`; a plan generated
  for `o` at clock `c` relabels node `n` as `Tid.wf o.id c n`.
  `s.staticPlan = false`: BatchPlanning (`Sys.batchPlan`); `true`: the static planner,
  whose task list is the oracle's row list (SHADOW's solution), not `topo`.
-/
import TopsimProofs.PlanTraj4
import TopsimProps.C14
import TopsimProps.C08Traj
import TopsimProofs.Witness1
import TopsimProofs.IngestLimit9

namespace Topsim
namespace Sys

/-! ### (B1) a plan's graph is immutable; only its task list is pruned -/

/-- **One step, backwards** (no hypothesis at all).  Every plan of the state after a step is a plan
of the state before it with the same observation, the same edge list and the same estimate, whose
task list has only lost tasks — and only tasks whose record was FINISHED before the step — or it is
the plan the scheduler loop has generated in this very step (the planner's output for the record
`o` of the plan's observation at the clock of the block). -/
theorem C14_plan_edges_immutable_step (s : Sys) (pid : Nat) (orc : Oracle) :
    ∀ pl' ∈ (s.resume pid orc).1.plans,
      (∃ pl ∈ s.plans, pl'.obs = pl.obs ∧ pl'.edges = pl.edges ∧ pl'.est = pl.est ∧
        pl'.tasks.Sublist pl.tasks ∧
        ∀ t ∈ pl.tasks, t ∉ pl'.tasks → ∃ r, s.task? t = some r ∧ r.status = .finished) ∨
      (∃ p o recs, s.proc? pid = some p ∧ p.k = .schedLoop ∧ s.obs? pl'.obs = some o ∧
        (recs, pl') = (if s.staticPlan then staticPlanOf o (natNow p.wake) orc.plan
          else batchPlan o (natNow p.wake))) := by
  intro pl' hpl'
  rcases resume_plan_back s pid orc pl' hpl' with ⟨pl, hpl, hr, hd⟩ | h
  · exact Or.inl ⟨pl, hpl, hr.obs, hr.edges, hr.est, hr.sub, hd⟩
  · exact Or.inr h

/-- **One step, forwards.**  From a configuration whose buffer holds no observation (`hb0`), along
`ReachOk`: every plan is still in the plan table after the step — same observation, same edges,
same estimate — and has only lost tasks whose record was FINISHED. -/
-- `hb0` is what makes each observation be handed to the scheduler at most once (`BufI`): the
-- scheduler loop REPLACES the plan of an observation it plans again (`plans.filter (obs ≠ o) ++ [new]`),
-- and the new plan carries another clock, hence other edges.
theorem C14_plan_kept_step (s0 s : Sys) (hw : WFConfig s0)
    (hb0 : s0.buf.hot.stored = [] ∧ s0.buf.hot.scheduled = [] ∧ s0.buf.hot.finished = [] ∧
      s0.buf.cold.stored = [])
    (h : ReachOk s0 s) (pid : Nat) (orc : Oracle) :
    ∀ pl ∈ s.plans, ∃ pl' ∈ (s.resume pid orc).1.plans, pl'.obs = pl.obs ∧ pl'.edges = pl.edges ∧
      pl'.est = pl.est ∧ pl'.tasks.Sublist pl.tasks ∧
      ∀ t ∈ pl.tasks, t ∉ pl'.tasks → ∃ r, s.task? t = some r ∧ r.status = .finished := by
  have hbuf : bufList s0.buf = [] := by
    obtain ⟨h1, h2, h3, h4⟩ := hb0
    simp [bufList, h1, h2, h3, h4]
  intro pl hpl
  obtain ⟨pl', hpl', hr, hd⟩ := resume_plan_fwd (reachOk_bufi s0 s hw hbuf h) pid orc pl hpl
  exact ⟨pl', hpl', hr.obs, hr.edges, hr.est, hr.sub, hd⟩

/-- **Along a run.**  `LaterOk s0 s s'`: `s'` is reached from the reachable state `s` by zero or more
further steps.  A plan of `s` is still in the plan table of `s'`: same observation, same edge list,
same estimate; its task list is a sublist of what it was. -/
theorem C14_plan_edges_immutable_traj (s0 s s' : Sys) (hw : WFConfig s0)
    (hb0 : s0.buf.hot.stored = [] ∧ s0.buf.hot.scheduled = [] ∧ s0.buf.hot.finished = [] ∧
      s0.buf.cold.stored = [])
    (h : LaterOk s0 s s') :
    ∀ pl ∈ s.plans, ∃ pl' ∈ s'.plans, pl'.obs = pl.obs ∧ pl'.edges = pl.edges ∧ pl'.est = pl.est ∧
      pl'.tasks.Sublist pl.tasks := by
  have hbuf : bufList s0.buf = [] := by
    obtain ⟨h1, h2, h3, h4⟩ := hb0
    simp [bufList, h1, h2, h3, h4]
  intro pl hpl
  obtain ⟨pl', hpl', hr⟩ := later_plan_fwd hw hbuf h pl hpl
  exact ⟨pl', hpl', hr.obs, hr.edges, hr.est, hr.sub⟩

/-- … and that plan is the only plan of its observation (in a run that has not crashed): the plan
table holds at most one plan per observation. -/
theorem C14_one_plan_per_observation_traj (s0 s : Sys) (hw : WFConfig s0)
    (hb0 : s0.buf.hot.stored = [] ∧ s0.buf.hot.scheduled = [] ∧ s0.buf.hot.finished = [] ∧
      s0.buf.cold.stored = [])
    (h : ReachOk s0 s) (hc : s.crashed = none) : (s.plans.map (·.obs)).Nodup := by
  have hbuf : bufList s0.buf = [] := by
    obtain ⟨h1, h2, h3, h4⟩ := hb0
    simp [bufList, h1, h2, h3, h4]
  exact (reachOk_wi s0 s hw hbuf h hc).pn

/-! ### the forward form without the hypothesis on the initial buffer — false -/

/-- "every plan is still in the plan table after a step, with its observation and its edges"
without `hb0` — FALSE, even between two states that have not crashed -/
def C14_plan_kept_statement : Prop :=
  ∀ (s0 s : Sys), WFConfig s0 → ReachOk s0 s → s.crashed = none → ∀ (pid : Nat) (orc : Oracle),
    (s.resume pid orc).1.crashed = none →
    ∀ pl ∈ s.plans, ∃ pl' ∈ (s.resume pid orc).1.plans, pl'.obs = pl.obs ∧ pl'.edges = pl.edges

/-- an observation due at t = 50 (never admitted in the run below), workflow chain `0 → 1` -/
def c14ObsLate : Obs :=
  { id := 0, est := 50, duration := 1, demand := 1, rate := 1, ingestDemand := 1,
    wf := ⟨[(0, 2, 0), (1, 1, 0)], [(0, 1, 0)], [0, 1]⟩ }

/-- one machine, that observation, and an initial hot buffer that lists the observation TWICE -/
def c14Wtwice : Sys :=
  { machines := [⟨0, 1, 1⟩], totalArrays := 1, maxIngest := 1, alg := .queue,
    cl := Cluster.init [0],
    buf := { (Buffer.init 100 10 100 10) with
      hot := { (Buffer.init 100 10 100 10).hot with stored := [0, 0] } },
    obs := [c14ObsLate] }

theorem c14Wtwice_wf : WFConfig c14Wtwice := by
  refine ⟨by decide, rfl, by decide, ?_, ⟨rfl, rfl, rfl, rfl, rfl, rfl, rfl, rfl, rfl, rfl, rfl, rfl, rfl,
    rfl, rfl, rfl, rfl⟩⟩
  intro o ho
  simp only [c14Wtwice, List.mem_cons, List.not_mem_nil, or_false] at ho
  subst ho
  exact ⟨rfl, rfl, by decide, by decide⟩

/-- creation order, empty oracle.  The scheduler loop (process 3) plans the observation at clock 0;
one timestep later it pops the second copy and plans it again at clock 1: the new plan REPLACES the
old one, and its edges carry the new clock.  No exception anywhere. -/
theorem c14Wtwice_chk :
    (ilEnabledAll [0, 1, 2, 3, 4, 5, 6, 7, 0, 1, 2, 3] c14Wtwice.start &&
      decide ((ilRun [0, 1, 2, 3, 4, 5, 6, 7, 0, 1, 2] c14Wtwice.start).crashed = none) &&
      decide ((ilRun [0, 1, 2, 3, 4, 5, 6, 7, 0, 1, 2] c14Wtwice.start).plans.map (fun p => (p.obs, p.edges))
        = [(0, [(.wf 0 0 0, .wf 0 0 1)])]) &&
      decide ((((ilRun [0, 1, 2, 3, 4, 5, 6, 7, 0, 1, 2] c14Wtwice.start).resume 3 {}).1.plans.map
        (fun p => (p.obs, p.edges))) = [(0, [(.wf 0 1 0, .wf 0 1 1)])]) &&
      decide (((ilRun [0, 1, 2, 3, 4, 5, 6, 7, 0, 1, 2] c14Wtwice.start).resume 3 {}).1.crashed = none))
      = true := by
  decide +kernel

theorem C14_plan_kept_statement_false : ¬ C14_plan_kept_statement := by
  intro hst
  have h := c14Wtwice_chk
  simp only [Bool.and_eq_true, decide_eq_true_eq] at h
  obtain ⟨⟨⟨⟨h1, h2⟩, h3⟩, h4⟩, h5⟩ := h
  have hen : ilEnabledAll [0, 1, 2, 3, 4, 5, 6, 7, 0, 1, 2] c14Wtwice.start = true := by
    have : ilEnabledAll ([0, 1, 2, 3, 4, 5, 6, 7, 0, 1, 2] ++ [3]) c14Wtwice.start = true := h1
    clear h1 h2 h3 h4 h5
    revert this
    generalize c14Wtwice.start = s
    generalize ([0, 1, 2, 3, 4, 5, 6, 7, 0, 1, 2] : List Nat) = l
    induction l generalizing s with
    | nil => intro _; rfl
    | cons x r ih =>
      intro hx
      simp only [List.cons_append, ilEnabledAll, Bool.and_eq_true] at hx ⊢
      exact ⟨hx.1, ih _ hx.2⟩
  have hr : ReachOk c14Wtwice (ilRun [0, 1, 2, 3, 4, 5, 6, 7, 0, 1, 2] c14Wtwice.start) :=
    (il_reach_run _ _ Reach.start hen).toOk (by simp [c14Wtwice])
  generalize ilRun [0, 1, 2, 3, 4, 5, 6, 7, 0, 1, 2] c14Wtwice.start = s at hr h2 h3 h4 h5
  have hpl : ∃ pl ∈ s.plans, pl.obs = 0 ∧ pl.edges = [(.wf 0 0 0, .wf 0 0 1)] := by
    have : ((0 : Oid), [(Tid.wf 0 0 0, Tid.wf 0 0 1)]) ∈ s.plans.map (fun p => (p.obs, p.edges)) := by
      rw [h3]; simp
    obtain ⟨pl, hpl, e⟩ := List.mem_map.mp this
    exact ⟨pl, hpl, (Prod.mk.inj e).1, (Prod.mk.inj e).2⟩
  obtain ⟨pl, hpl, _, he⟩ := hpl
  obtain ⟨pl', hpl', _, he'⟩ := hst c14Wtwice s c14Wtwice_wf hr h2 3 {} h5 pl hpl
  have : (pl'.obs, pl'.edges) ∈ (s.resume 3 {}).1.plans.map (fun p => (p.obs, p.edges)) :=
    List.mem_map_of_mem (f := fun p : Plan => (p.obs, p.edges)) hpl'
  rw [h4, he', he] at this
  simp at this

/-! ### (B2) every plan of every reachable state is a faithful copy -/

/-- **The graph of a plan is the workflow's** — every reachable state, any block order, any oracle
inputs, any algorithm, either planner, crashed or not, whatever the initial buffer.  For every plan
`pl` of the plan table there are a configured observation `o` and a clock `c` (the clock at which
the plan was generated) such that: `pl` is `o`'s plan; its edge list is exactly the workflow's edge
list relabelled (the conclusion of `C14_edges`), in the same order; every task left in its task
list is a node task `<o>_<c>_<n>` and has a record; with BatchPlanning the task list is a sublist
of the topological list relabelled (the conclusion of `C14_one_task_per_node`, pruned), and every
node of the workflow has a record. -/
theorem C14_plan_faithful_traj (s0 s : Sys) (hw : WFConfig s0) (h : Reach s0 s) :
    ∀ pl ∈ s.plans, ∃ o ∈ s0.obs, ∃ c, pl.obs = o.id ∧
      pl.edges = o.wf.edges.map (fun e => (Tid.wf o.id c e.1, Tid.wf o.id c e.2.1)) ∧
      (∀ t ∈ pl.tasks, (∃ n, t = Tid.wf o.id c n) ∧ ∃ r ∈ s.tasks, r.id = t) ∧
      (s0.staticPlan = false → pl.tasks.Sublist (o.wf.topo.map (Tid.wf o.id c)) ∧
        ∀ n ∈ o.wf.topo, ∃ r ∈ s.tasks, r.id = Tid.wf o.id c n) := by
  have hgi := reach_gi s0 s hw h
  intro pl hpl
  obtain ⟨o, ho, c, g1, g2, g3, g4, g5⟩ := hgi.plans pl hpl
  exact ⟨o, ho, c, g1, g2, fun t ht => ⟨g3 t ht, hgi.planRecs pl hpl t ht⟩, fun hs => ⟨g4 hs, g5 hs⟩⟩

/-- **Every workflow task record carries its node's attributes, for ever** — every reachable state,
as above.  A record whose id is `<oid>_<c>_<n>` belongs to the configured observation `o` with that
id, and: its compute and data demands are those of node `n` in `o`'s workflow (0 when the node list
has no entry for `n`) — the conclusion of `C14_attributes`; its predecessor list is the list of
sources of the edges into `n`, relabelled, and its per-edge volumes are those edges' transfer
volumes — the conclusions of `C14_preds_io`.  No block ever rewrites these fields. -/
theorem C14_record_attributes_traj (s0 s : Sys) (hw : WFConfig s0) (h : Reach s0 s) :
    ∀ r ∈ s.tasks, ∀ oid c n, r.id = Tid.wf oid c n → ∃ o ∈ s0.obs, o.id = oid ∧
      r.flops = ((o.wf.nodes.find? (·.1 = n)).getD (n, 0, 0)).2.1 ∧
      r.data = ((o.wf.nodes.find? (·.1 = n)).getD (n, 0, 0)).2.2 ∧
      r.preds = (o.wf.edges.filter (fun e => e.2.1 = n)).map (fun e => Tid.wf oid c e.1) ∧
      r.io = (o.wf.edges.filter (fun e => e.2.1 = n)).map (fun e => (Tid.wf oid c e.1, e.2.2)) := by
  intro r hr oid c n e
  obtain ⟨o, ho, e1, hn⟩ := (reach_gi s0 s hw h).recs r hr oid c n e
  exact ⟨o, ho, e1, hn.flops, hn.data, hn.preds, hn.io⟩

/-- in the words of `C14_attributes`: when node `n` is listed as `(n, comp, data)` -/
theorem C14_record_attributes_listed_traj (s0 s : Sys) (hw : WFConfig s0) (h : Reach s0 s)
    (r : TaskRec) (hr : r ∈ s.tasks) (o : Obs) (ho : o ∈ s0.obs) (c n comp data : Nat)
    (hid : r.id = Tid.wf o.id c n) (hattr : o.wf.nodes.find? (·.1 = n) = some (n, comp, data)) :
    r.flops = comp ∧ r.data = data := by
  obtain ⟨o', ho', e1, g1, g2, _⟩ := C14_record_attributes_traj s0 s hw h r hr o.id c n hid
  have : o' = o := eq_of_map_nodup hw.obsNodup ho' ho e1
  subst this
  rw [hattr] at g1 g2
  exact ⟨g1, g2⟩

/-- **Exactly the unfinished tasks remain** (up to the finished ones `allocate_tasks` has not pruned
yet).  From a configuration whose buffer holds no observation, along `ReachOk`, in a state that has
not crashed: (1) every workflow task record of a plan's observation that is not FINISHED is in the
plan's task list; (2) with BatchPlanning, every node task of the plan's graph that is no longer in
the task list has a FINISHED record. -/
-- `hb0`: an observation stored twice would be planned twice; the second plan replaces the first
-- while records of the first are unfinished.  `hc`: the invariant `WI` is stated for runs that
-- have not crashed.
theorem C14_plan_unfinished_remaining_traj (s0 s : Sys) (hw : WFConfig s0)
    (hb0 : s0.buf.hot.stored = [] ∧ s0.buf.hot.scheduled = [] ∧ s0.buf.hot.finished = [] ∧
      s0.buf.cold.stored = [])
    (h : ReachOk s0 s) (hc : s.crashed = none) :
    ∀ pl ∈ s.plans,
      (∀ r ∈ s.tasks, (∃ c n, r.id = Tid.wf pl.obs c n) → r.status ≠ .finished → r.id ∈ pl.tasks) ∧
      (s0.staticPlan = false → ∃ o ∈ s0.obs, ∃ c, pl.obs = o.id ∧
        pl.tasks.Sublist (o.wf.topo.map (Tid.wf o.id c)) ∧
        ∀ n ∈ o.wf.topo, Tid.wf o.id c n ∉ pl.tasks →
          ∃ r ∈ s.tasks, r.id = Tid.wf o.id c n ∧ r.status = .finished) := by
  have hbuf : bufList s0.buf = [] := by
    obtain ⟨h1, h2, h3, h4⟩ := hb0
    simp [bufList, h1, h2, h3, h4]
  have hwi := reachOk_wi s0 s hw hbuf h hc
  have hgi := reach_gi s0 s hw h.toReach
  intro pl hpl
  have hplan : s.plan? pl.obs = some pl := find?_of_mem_nodup (f := fun x : Plan => x.obs) hwi.pn hpl
  have key : ∀ r ∈ s.tasks, (∃ c n, r.id = Tid.wf pl.obs c n) → r.status ≠ .finished → r.id ∈ pl.tasks := by
    rintro r hr ⟨c, n, e⟩ hs
    have := hwi.pc r hr pl.obs c n e hs
    unfold planTasks at this
    rw [hplan] at this
    exact this
  refine ⟨key, fun hs => ?_⟩
  obtain ⟨o, ho, c, g1, _, _, g4, g5⟩ := hgi.plans pl hpl
  refine ⟨o, ho, c, g1, g4 hs, ?_⟩
  intro n hn hnot
  obtain ⟨r, hr, e⟩ := g5 hs n hn
  refine ⟨r, hr, e, ?_⟩
  by_cases hf : r.status = .finished
  · exact hf
  · exact absurd (key r hr ⟨c, n, by rw [e, g1]⟩ hf) (by rw [e]; exact hnot)

/-- **Topological execution order, after pruning too.**  With BatchPlanning over workflows that
satisfy the contract of `networkx.topological_sort` (`IsTopo`): in every plan of every reachable
state, for every edge whose two ends are still in the task list, the source comes before the
target. -/
theorem C14_topological_traj (s0 s : Sys) (hw : WFConfig s0) (hstat : s0.staticPlan = false)
    (htopo : ∀ o ∈ s0.obs, IsTopo o.wf) (h : Reach s0 s) :
    ∀ pl ∈ s.plans, ∀ e ∈ pl.edges, e.1 ∈ pl.tasks → e.2 ∈ pl.tasks →
      pl.tasks.idxOf e.1 < pl.tasks.idxOf e.2 := by
  intro pl hpl e he h1 h2
  obtain ⟨o, ho, c, _, g2, _, g4, _⟩ := (reach_gi s0 s hw h).plans pl hpl
  have ht := htopo o ho
  rw [g2] at he
  obtain ⟨x, hx, rfl⟩ := List.mem_map.mp he
  have hnd : (o.wf.topo.map (Tid.wf o.id c)).Nodup :=
    nodup_map_of_inj_on _ ht.nodup (fun a _ b _ e => by injection e)
  apply sublist_idxOf_lt (g4 hstat) hnd h1 h2
  simp only
  rw [idxOf_map_inj _ (tid_wf_inj _ _), idxOf_map_inj _ (tid_wf_inj _ _)]
  exact ht.forward x hx

/-! ### (B3) the queries stay truthful -/

/-- **Predecessor and successor queries answer with the workflow's graph** — every reachable state
(pruned plans included).  For the observation `o` and the clock `c` of the plan: the predecessors
of node task `n` are the sources of the workflow's edges into `n`, relabelled, in the workflow's
edge order; its successors are the targets of the edges out of `n`; a task that is not a node task
of this plan has no predecessor.  (`C14_queries`, "p precedes t iff t succeeds p", holds of any
plan; this is what the two lists ARE.) -/
theorem C14_queries_traj (s0 s : Sys) (hw : WFConfig s0) (h : Reach s0 s) :
    ∀ pl ∈ s.plans, ∃ o ∈ s0.obs, ∃ c, pl.obs = o.id ∧
      (∀ n, pl.preds (Tid.wf o.id c n) =
        (o.wf.edges.filter (fun e => e.2.1 = n)).map (fun e => Tid.wf o.id c e.1)) ∧
      (∀ n, pl.succs (Tid.wf o.id c n) =
        (o.wf.edges.filter (fun e => e.1 = n)).map (fun e => Tid.wf o.id c e.2.1)) ∧
      (∀ t, (∀ n, t ≠ Tid.wf o.id c n) → pl.preds t = []) := by
  intro pl hpl
  obtain ⟨o, ho, c, g1, g2, _⟩ := (reach_gi s0 s hw h).plans pl hpl
  exact ⟨o, ho, c, g1, fun n => preds_of_relabel pl o.wf o.id c g2 n,
    fun n => succs_of_relabel pl o.wf o.id c g2 n, fun t ht => preds_of_relabel_other pl o.wf o.id c g2 t ht⟩

/-- **The plan's answer is the record's predecessor list**: for every task still in a plan's task
list, every record of that task lists exactly `get_task_predecessors(task)`. -/
theorem C14_queries_agree_with_records_traj (s0 s : Sys) (hw : WFConfig s0) (h : Reach s0 s) :
    ∀ pl ∈ s.plans, ∀ t ∈ pl.tasks, ∀ r ∈ s.tasks, r.id = t → r.preds = pl.preds t := by
  intro pl hpl t ht r hr e
  have hgi := reach_gi s0 s hw h
  obtain ⟨o, ho, c, g1, g2, g3, _⟩ := hgi.plans pl hpl
  obtain ⟨n, en⟩ := g3 t ht
  obtain ⟨o', ho', e1, hn⟩ := hgi.recs r hr o.id c n (e.trans en)
  have : o' = o := eq_of_map_nodup hw.obsNodup ho' ho e1
  subst this
  rw [hn.preds, en, preds_of_relabel pl o'.wf o'.id c g2 n]

/-! ### along the simulator's runs (SimPy's own order) -/

/-- C14 along the simulator's runs: every plan of every state of an uninterrupted `env.run` carries
the relabelled edge list of its observation's configured workflow, and its queries answer with the
workflow's graph. -/
theorem C14_plan_faithful_simpy (env : SimEnv) (s0 : Sys) (hw : WFConfig s0) (k : SimState)
    (h : SimRun env s0 k) :
    ∀ pl ∈ k.st.plans, ∃ o ∈ s0.obs, ∃ c, pl.obs = o.id ∧
      pl.edges = o.wf.edges.map (fun e => (Tid.wf o.id c e.1, Tid.wf o.id c e.2.1)) ∧
      (∀ t ∈ pl.tasks, (∃ n, t = Tid.wf o.id c n) ∧ ∃ r ∈ k.st.tasks, r.id = t) ∧
      (s0.staticPlan = false → pl.tasks.Sublist (o.wf.topo.map (Tid.wf o.id c)) ∧
        ∀ n ∈ o.wf.topo, ∃ r ∈ k.st.tasks, r.id = Tid.wf o.id c n) :=
  L3_transfer env s0 hw
    (fun s => ∀ pl ∈ s.plans, ∃ o ∈ s0.obs, ∃ c, pl.obs = o.id ∧
      pl.edges = o.wf.edges.map (fun e => (Tid.wf o.id c e.1, Tid.wf o.id c e.2.1)) ∧
      (∀ t ∈ pl.tasks, (∃ n, t = Tid.wf o.id c n) ∧ ∃ r ∈ s.tasks, r.id = t) ∧
      (s0.staticPlan = false → pl.tasks.Sublist (o.wf.topo.map (Tid.wf o.id c)) ∧
        ∀ n ∈ o.wf.topo, ∃ r ∈ s.tasks, r.id = Tid.wf o.id c n))
    (fun s hs => C14_plan_faithful_traj s0 s hw hs.toReach) (by intro _ h; exact h) k h

theorem C14_record_attributes_simpy (env : SimEnv) (s0 : Sys) (hw : WFConfig s0) (k : SimState)
    (h : SimRun env s0 k) :
    ∀ r ∈ k.st.tasks, ∀ oid c n, r.id = Tid.wf oid c n → ∃ o ∈ s0.obs, o.id = oid ∧
      r.flops = ((o.wf.nodes.find? (·.1 = n)).getD (n, 0, 0)).2.1 ∧
      r.data = ((o.wf.nodes.find? (·.1 = n)).getD (n, 0, 0)).2.2 ∧
      r.preds = (o.wf.edges.filter (fun e => e.2.1 = n)).map (fun e => Tid.wf oid c e.1) ∧
      r.io = (o.wf.edges.filter (fun e => e.2.1 = n)).map (fun e => (Tid.wf oid c e.1, e.2.2)) :=
  L3_transfer env s0 hw
    (fun s => ∀ r ∈ s.tasks, ∀ oid c n, r.id = Tid.wf oid c n → ∃ o ∈ s0.obs, o.id = oid ∧
      r.flops = ((o.wf.nodes.find? (·.1 = n)).getD (n, 0, 0)).2.1 ∧
      r.data = ((o.wf.nodes.find? (·.1 = n)).getD (n, 0, 0)).2.2 ∧
      r.preds = (o.wf.edges.filter (fun e => e.2.1 = n)).map (fun e => Tid.wf oid c e.1) ∧
      r.io = (o.wf.edges.filter (fun e => e.2.1 = n)).map (fun e => (Tid.wf oid c e.1, e.2.2)))
    (fun s hs => C14_record_attributes_traj s0 s hw hs.toReach) (by intro _ h; exact h) k h

theorem C14_queries_simpy (env : SimEnv) (s0 : Sys) (hw : WFConfig s0) (k : SimState)
    (h : SimRun env s0 k) :
    ∀ pl ∈ k.st.plans, ∃ o ∈ s0.obs, ∃ c, pl.obs = o.id ∧
      (∀ n, pl.preds (Tid.wf o.id c n) =
        (o.wf.edges.filter (fun e => e.2.1 = n)).map (fun e => Tid.wf o.id c e.1)) ∧
      (∀ n, pl.succs (Tid.wf o.id c n) =
        (o.wf.edges.filter (fun e => e.1 = n)).map (fun e => Tid.wf o.id c e.2.1)) ∧
      (∀ t, (∀ n, t ≠ Tid.wf o.id c n) → pl.preds t = []) :=
  L3_transfer env s0 hw
    (fun s => ∀ pl ∈ s.plans, ∃ o ∈ s0.obs, ∃ c, pl.obs = o.id ∧
      (∀ n, pl.preds (Tid.wf o.id c n) =
        (o.wf.edges.filter (fun e => e.2.1 = n)).map (fun e => Tid.wf o.id c e.1)) ∧
      (∀ n, pl.succs (Tid.wf o.id c n) =
        (o.wf.edges.filter (fun e => e.1 = n)).map (fun e => Tid.wf o.id c e.2.1)) ∧
      (∀ t, (∀ n, t ≠ Tid.wf o.id c n) → pl.preds t = []))
    (fun s hs => C14_queries_traj s0 s hw hs.toReach) (by intro _ h; exact h) k h

theorem C14_topological_simpy (env : SimEnv) (s0 : Sys) (hw : WFConfig s0) (hstat : s0.staticPlan = false)
    (htopo : ∀ o ∈ s0.obs, IsTopo o.wf) (k : SimState) (h : SimRun env s0 k) :
    ∀ pl ∈ k.st.plans, ∀ e ∈ pl.edges, e.1 ∈ pl.tasks → e.2 ∈ pl.tasks →
      pl.tasks.idxOf e.1 < pl.tasks.idxOf e.2 :=
  L3_transfer env s0 hw
    (fun s => ∀ pl ∈ s.plans, ∀ e ∈ pl.edges, e.1 ∈ pl.tasks → e.2 ∈ pl.tasks →
      pl.tasks.idxOf e.1 < pl.tasks.idxOf e.2)
    (fun s hs => C14_topological_traj s0 s hw hstat htopo hs.toReach) (by intro _ h; exact h) k h

theorem C14_plan_unfinished_remaining_simpy (env : SimEnv) (s0 : Sys) (hw : WFConfig s0)
    (hb0 : s0.buf.hot.stored = [] ∧ s0.buf.hot.scheduled = [] ∧ s0.buf.hot.finished = [] ∧
      s0.buf.cold.stored = [])
    (k : SimState) (h : SimRun env s0 k) (hc : k.st.crashed = none) :
    ∀ pl ∈ k.st.plans,
      (∀ r ∈ k.st.tasks, (∃ c n, r.id = Tid.wf pl.obs c n) → r.status ≠ .finished → r.id ∈ pl.tasks) ∧
      (s0.staticPlan = false → ∃ o ∈ s0.obs, ∃ c, pl.obs = o.id ∧
        pl.tasks.Sublist (o.wf.topo.map (Tid.wf o.id c)) ∧
        ∀ n ∈ o.wf.topo, Tid.wf o.id c n ∉ pl.tasks →
          ∃ r ∈ k.st.tasks, r.id = Tid.wf o.id c n ∧ r.status = .finished) :=
  L3_transfer env s0 hw
    (fun s => s.crashed = none → ∀ pl ∈ s.plans,
      (∀ r ∈ s.tasks, (∃ c n, r.id = Tid.wf pl.obs c n) → r.status ≠ .finished → r.id ∈ pl.tasks) ∧
      (s0.staticPlan = false → ∃ o ∈ s0.obs, ∃ c, pl.obs = o.id ∧
        pl.tasks.Sublist (o.wf.topo.map (Tid.wf o.id c)) ∧
        ∀ n ∈ o.wf.topo, Tid.wf o.id c n ∉ pl.tasks →
          ∃ r ∈ s.tasks, r.id = Tid.wf o.id c n ∧ r.status = .finished))
    (fun s hs hc => C14_plan_unfinished_remaining_traj s0 s hw hb0 hs hc) (by intro _ h; exact h) k h hc

/-! ### non-vacuity -/

/-- `c04W1` (one observation, workflow chain `0 → 1`, BatchPlanning at clock 1, queue algorithm).
The simulator after every event before t = 6: task `0_1_0` has finished and has been pruned from
the plan's task list; the plan keeps its one edge `0_1_0 → 0_1_1`; the predecessor query on the
remaining task still answers `[0_1_0]`. -/
theorem c04W1_mid_chk :
    (!(witRun c04W1 6 400).st.halted &&
      decide ((witRun c04W1 6 400).st.plans.map (fun p => (p.obs, p.tasks, p.edges)) =
        [(0, [.wf 0 1 1], [(.wf 0 1 0, .wf 0 1 1)])]) &&
      decide ((witRun c04W1 6 400).st.plans.map (fun p => p.preds (.wf 0 1 1)) = [[.wf 0 1 0]]) &&
      decide ((witRun c04W1 6 400).st.tasks.map (fun r => (r.id, r.status, r.preds)) =
        [(.ingest 0 0, .finished, []), (.wf 0 1 0, .finished, []), (.wf 0 1 1, .running, [.wf 0 1 0])]))
      = true := by
  decide +kernel

example : ∃ s, ReachOk c04W1 s ∧ c04W1.staticPlan = false ∧ (∀ o ∈ c04W1.obs, IsTopo o.wf) ∧
    s.plans.map (fun p => (p.obs, p.tasks, p.edges)) = [(0, [.wf 0 1 1], [(.wf 0 1 0, .wf 0 1 1)])] ∧
    s.plans.map (fun p => p.preds (.wf 0 1 1)) = [[.wf 0 1 0]] := by
  have h := c04W1_mid_chk
  simp only [Bool.and_eq_true, Bool.not_eq_true', decide_eq_true_eq] at h
  obtain ⟨⟨⟨h1, h2⟩, h3⟩, _⟩ := h
  refine ⟨_, witRun_reachOk c04W1_wf 6 400 h1, rfl, ?_, h2, h3⟩
  intro o ho
  simp only [c04W1, List.mem_cons, List.not_mem_nil, or_false] at ho
  subst ho
  exact ⟨by decide, by intro n; simp [c04Obs1], by decide⟩

end Sys
end Topsim
