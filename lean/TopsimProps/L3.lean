/-
  The trajectory theorems of the block system (L2: any process of minimal wake
  time may run next) transferred to the deterministic whole-run simulator (L3:
  SimPy's own (time, priority, insertion id) order, TopsimModel/Kernel.lean +
  Sim.lean) through `L3_refines_L2` / `L3_transfer` (TopsimProps/C08Traj.lean).

  `SimRun env s0 k`: `k` is a state of one uninterrupted `env.run` of the
  simulator started from `s0`.  `env` fixes the delay table / delay script /
  static plans; nothing is assumed about it.  The run-level correspondence
  (harness/runlevel.py) compares exactly this simulator with the real code, cell
  by cell, so these are the statements closest to the implementation.
-/
import TopsimProps.C08Traj
import TopsimProps.SysSafety
import TopsimProps.C04

namespace Topsim
namespace Sys

/-- C01 along the simulator's runs: at every instant each machine hosts at most one live task body. -/
theorem C01_at_most_one_simpy (env : SimEnv) (s0 : Sys) (hw : WFConfig s0) (k : SimState)
    (h : SimRun env s0 k) : (k.st.active.map (·.1)).Nodup :=
  L3_transfer env s0 hw (fun s => (s.active.map (·.1)).Nodup) (fun s hs => C01_at_most_one s0 s hw hs)
    (by intro _ h; exact h) k h

/-- C01: a machine that may receive a task (available or reserved-idle) hosts none. -/
theorem C01_free_machine_idle_simpy (env : SimEnv) (s0 : Sys) (hw : WFConfig s0) (k : SimState)
    (h : SimRun env s0 k) (m : Mid) (hm : m ∈ k.st.cl.available ∨ m ∈ k.st.cl.idleAll) :
    m ∉ k.st.active.map (·.1) :=
  L3_transfer env s0 hw (fun s => ∀ m, (m ∈ s.cl.available ∨ m ∈ s.cl.idleAll) → m ∉ s.active.map (·.1))
    (fun s hs m hm => C01_free_machine_idle s0 s hw hs m hm) (by intro _ h; exact h) k h m hm

/-- C02 along the simulator's runs: the cluster invariant (partition of the machines, true counters). -/
theorem C02_trajectory_simpy (env : SimEnv) (s0 : Sys) (hw : WFConfig s0) (k : SimState)
    (h : SimRun env s0 k) : ∃ U, Cluster.Inv k.st.cl U :=
  L3_transfer env s0 hw (fun s => ∃ U, Cluster.Inv s.cl U) (fun s hs => C02_trajectory s0 s hw hs)
    (by intro _ h; exact h) k h

/-- C04 along the simulator's runs: no task is ever started twice, no observation admitted twice. -/
theorem C04_once_simpy (env : SimEnv) (s0 : Sys) (hw : WFConfig s0) (k : SimState)
    (h : SimRun env s0 k) : k.st.starts.Nodup ∧ k.st.admitted.Nodup :=
  L3_transfer env s0 hw (fun s => s.starts.Nodup ∧ s.admitted.Nodup)
    (fun s hs => ⟨C04_starts_once s0 s hw hs, C04_admitted_once s0 s hw hs.toReach⟩) (by intro _ h; exact h) k h

/-- C04 along the simulator's runs: when `is_finished()` holds no task body is alive and no
allocation is pending or polling. -/
theorem C04_finished_no_body_simpy (env : SimEnv) (s0 : Sys) (hw : WFConfig s0) (k : SimState)
    (h : SimRun env s0 k) (hf : k.st.isFinished = true) :
    k.st.active = [] ∧ k.st.cl.runOn = [] ∧ k.st.cl.pending = [] :=
  L3_transfer env s0 hw (fun s => s.isFinished = true → s.active = [] ∧ s.cl.runOn = [] ∧ s.cl.pending = [])
    (fun s hs hf => C04_finished_no_body s0 s hw hs hf) (by intro _ h; exact h) k h hf

/-- C04 along the simulator's runs: at `is_finished()` of a run that did not raise, every ingest
task of every observation was started. -/
theorem C04_all_ingest_tasks_ran_simpy (env : SimEnv) (s0 : Sys) (hw : WFConfig s0) (k : SimState)
    (h : SimRun env s0 k) (hf : k.st.isFinished = true) (hc : k.st.crashed = none) :
    ∀ o ∈ k.st.obs, ∀ i, i < o.ingestDemand → Tid.ingest o.id i ∈ k.st.starts :=
  L3_transfer env s0 hw
    (fun s => s.isFinished = true → s.crashed = none →
      ∀ o ∈ s.obs, ∀ i, i < o.ingestDemand → Tid.ingest o.id i ∈ s.starts)
    (fun s hs hf hc => C04_all_ingest_tasks_ran s0 s hw hs hf hc) (by intro _ h; exact h) k h hf hc

/-- C04 along the simulator's runs: at `is_finished()` of a run that did not raise every
observation's plan has been emptied and every one of its workflow task records is FINISHED and
was started (tier moves included). -/
theorem C04_all_workflow_tasks_ran_simpy (env : SimEnv) (s0 : Sys) (hw : WFConfig s0)
    (hb0 : s0.buf.hot.stored = [] ∧ s0.buf.hot.scheduled = [] ∧ s0.buf.hot.finished = [] ∧
      s0.buf.cold.stored = [])
    (hsz0 : s0.buf.size = [] ∧ s0.buf.hot.cur ≤ s0.buf.hot.total ∧ s0.buf.cold.cur ≤ s0.buf.cold.total)
    (hrate : ∀ o ∈ s0.obs, 0 < o.rate)
    (k : SimState) (h : SimRun env s0 k) (hf : k.st.isFinished = true) (hc : k.st.crashed = none) :
    ∀ o ∈ k.st.obs, ∃ p, k.st.plan? o.id = some p ∧ p.tasks = [] ∧
      ∀ r ∈ k.st.tasks, (∃ c n, r.id = .wf o.id c n) → r.status = .finished ∧ r.id ∈ k.st.starts :=
  L3_transfer env s0 hw
    (fun s => s.isFinished = true → s.crashed = none →
      ∀ o ∈ s.obs, ∃ p, s.plan? o.id = some p ∧ p.tasks = [] ∧
        ∀ r ∈ s.tasks, (∃ c n, r.id = .wf o.id c n) → r.status = .finished ∧ r.id ∈ s.starts)
    (fun s hs hf hc => C04_all_workflow_tasks_ran s0 s hw hb0 hsz0 hs hf hc hrate) (by intro _ h; exact h) k h hf hc

/-- C04 / C02 / C09 along the simulator's runs, shipped algorithms: at `is_finished()` no
reservation is left and every machine is available again. -/
theorem C04_machines_back_simpy (env : SimEnv) (s0 : Sys) (hw : WFConfig s0)
    (hb0 : s0.buf.hot.stored = [] ∧ s0.buf.hot.scheduled = [] ∧ s0.buf.hot.finished = [] ∧
      s0.buf.cold.stored = [])
    (ha : s0.alg ≠ .oracle) (k : SimState) (h : SimRun env s0 k) (hf : k.st.isFinished = true) :
    k.st.cl.idle = [] ∧ k.st.cl.available.Perm (s0.machines.map (·.id)) :=
  L3_transfer env s0 hw
    (fun s => s.isFinished = true → s.cl.idle = [] ∧ s.cl.available.Perm (s0.machines.map (·.id)))
    (fun s hs hf => ⟨C04_no_reservation_at_finish s0 s hw hb0 ha hs.toReach hf,
      C04_finished_machines_back_shipped s0 s hw hb0 ha hs.toReach hf⟩) (by intro _ h; exact h) k h hf

end Sys
end Topsim
