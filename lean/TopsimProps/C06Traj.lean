/-
  C06, trajectory clauses — "task runtime equals work over machine speed, at
  least one step", over every state a simulation can reach.

  Vocabulary.  `s.task? t` is the record of task `t` (the one every block reads);
  `r.ast` / `r.aft` are the stamps `do_work` writes (recorded start / recorded
  finish).  The process table keeps ended processes: `.doWork t m cross 3 total`
  is the body of `t` on machine `m` after its last block, `total` the duration it
  was handed at the start (`_calc_task_delay()`); `.doWork t m cross 2 total` is
  a body between its two stamps.  `s.machine? m` is the machine with id `m`.

  Where the delay enters.  The start block computes the nominal duration
  `dur` (the runtime `max(flops/cpu, data/bandwidth)` on the body's machine when
  the record carries work, the record's planned duration otherwise) and takes
  `total := orc.bodyTotal t k dur` from the oracle of that step
  (TopsimProofs/SpanTraj2.lean): `orc.total` if given; else `dur` for an ingest
  task; else the entry of `orc.delayTable` for `dur`; else `dur` plus the `k`-th
  entry of `orc.delayScript` (`dur` when the script is empty).  It then waits
  `total - 1` (0 when `total < 1`) and the last block stamps `aft = now + 1`.

  `ReachOk` lets every step use ANY oracle, so under `ReachOk` alone `total` is
  arbitrary (in particular it can be below the runtime, and an ingest task can be
  handed any number): the statement "span = max(1, runtime + delay), delay ≥ 0"
  needs a hypothesis on the oracles.  `ReachD R s0 s` (TopsimProofs/SpanTraj3.lean)
  is `ReachOk` in which every step's oracle obeys `R`: `R t dur total` holds for
  every total it can hand to task `t` for nominal duration `dur`.
  `ReachOk = ReachD (fun _ _ _ => True)`.  The simulator's oracle obeys `env.Rel`
  (`total = env.bodyTotal t k dur` for some `k`): the table / script of `env`.
-/
import TopsimProofs.SpanTraj5
import TopsimProps.C06
import TopsimProps.C08Traj

namespace Topsim
namespace Sys

/-! ### (A1) the recorded span -/

/-- **The recorded span, any block order, any oracles obeying `R`.**  In every reachable state
(crashed or not), for every record with a recorded finish `f`: the record has a recorded start `a`,
the body of the task has run its last block on some machine `m` with some total duration `total`,
and `f = a + max 1 total`.  `total` is in relation `R` with the nominal duration: for a record with
work, both speeds of `m` are positive and the nominal duration is the runtime
`max (flops / cpu) (data / bandwidth)` on `m`; for a record without work it is the record's
planned duration. -/
-- Hypotheses.  `hw`: a well-formed initial configuration.  Nothing about the buffer, the algorithm
-- or a crash is needed.  The statement is about `s.task? t`, the first record with id `t`: a
-- workflow whose `topo` list names a node twice gets two records with one id, every block reads
-- and every update rewrites them together, but with a static plan they may differ in `duration`.
-- See `C06_recorded_span_traj_mem` for tables with distinct ids.
theorem C06_recorded_span_traj (R : Tid → Nat → Nat → Prop) (s0 s : Sys) (hw : WFConfig s0)
    (h : ReachD R s0 s) :
    ∀ t r f, s.task? t = some r → r.aft = some f →
      ∃ a total m mm, r.ast = some a ∧ f = a + ((max 1 total : Nat) : Time) ∧
        (∃ d ∈ s.procs, ∃ cross, d.k = .doWork t m cross 3 total) ∧ s.machine? m = some mm ∧
        ((0 < r.flops ∨ 0 < r.data) →
          0 < mm.cpu ∧ 0 < mm.bw ∧ R t (max (r.flops / mm.cpu) (r.data / mm.bw)) total) ∧
        (r.flops = 0 → r.data = 0 → R t r.duration total) :=
  fun t r f hr hf => spanInv_recorded_span (reachD_spanInv s0 s hw h) t r f hr hf

/-- the same for every record of the table, when the ids of the table are distinct -/
theorem C06_recorded_span_traj_mem (R : Tid → Nat → Nat → Prop) (s0 s : Sys) (hw : WFConfig s0)
    (h : ReachD R s0 s) (hnd : (s.tasks.map (·.id)).Nodup) :
    ∀ r ∈ s.tasks, ∀ f, r.aft = some f →
      ∃ a total m mm, r.ast = some a ∧ f = a + ((max 1 total : Nat) : Time) ∧
        (∃ d ∈ s.procs, ∃ cross, d.k = .doWork r.id m cross 3 total) ∧ s.machine? m = some mm ∧
        ((0 < r.flops ∨ 0 < r.data) →
          0 < mm.cpu ∧ 0 < mm.bw ∧ R r.id (max (r.flops / mm.cpu) (r.data / mm.bw)) total) ∧
        (r.flops = 0 → r.data = 0 → R r.id r.duration total) :=
  fun r hr f hf => C06_recorded_span_traj R s0 s hw h r.id r f (task?_of_mem_nodup hnd hr) hf

/-- **Any oracle (`ReachOk`).**  A recorded finish comes with a recorded start, and the difference
is `max 1 total` for the total the body was handed: never less than one timestep. -/
theorem C06_recorded_span_any_oracle (s0 s : Sys) (hw : WFConfig s0) (h : ReachOk s0 s) :
    ∀ t r f, s.task? t = some r → r.aft = some f →
      ∃ a total, r.ast = some a ∧ f = a + ((max 1 total : Nat) : Time) ∧ a + 1 ≤ f := by
  intro t r f hr hf
  obtain ⟨a, total, _, _, g1, g2, _⟩ := C06_recorded_span_traj _ s0 s hw h.toD t r f hr hf
  refine ⟨a, total, g1, g2, ?_⟩
  rw [g2]
  have h1 : (1 : Nat) ≤ max 1 total := by omega
  have h2 : ((1 : Nat) : Time) ≤ ((max 1 total : Nat) : Time) := by exact_mod_cast h1
  have h3 : ((1 : Nat) : Time) = 1 := by norm_cast
  rw [h3] at h2
  exact Rat.add_le_add_left.mpr h2

/-- **Oracles that only lengthen** (`dur ≤ total`, what `C15_ge` says of the delay model).  For a
record with work that ran on machine `mm`: `f = a + max 1 total` with
`runtime ≤ total`, the runtime being `max (flops / cpu) (data / bandwidth)` on `mm`; for a record
without work `duration ≤ total`. -/
theorem C06_recorded_span_lengthening (s0 s : Sys) (hw : WFConfig s0)
    (h : ReachD (fun _ dur total => dur ≤ total) s0 s) :
    ∀ t r f, s.task? t = some r → r.aft = some f →
      ∃ a total m mm, r.ast = some a ∧ f = a + ((max 1 total : Nat) : Time) ∧
        (∃ d ∈ s.procs, ∃ cross, d.k = .doWork t m cross 3 total) ∧ s.machine? m = some mm ∧
        ((0 < r.flops ∨ 0 < r.data) →
          calculateRuntime r.flops r.data mm.cpu mm.bw = .ok (max (r.flops / mm.cpu) (r.data / mm.bw)) ∧
          max (r.flops / mm.cpu) (r.data / mm.bw) ≤ total) ∧
        (r.flops = 0 → r.data = 0 → r.duration ≤ total) := by
  intro t r f hr hf
  obtain ⟨a, total, m, mm, g1, g2, g3, g4, g5, g6⟩ := C06_recorded_span_traj _ s0 s hw h t r f hr hf
  refine ⟨a, total, m, mm, g1, g2, g3, g4, fun hwk => ?_, g6⟩
  obtain ⟨c1, c2, c3⟩ := g5 hwk
  refine ⟨?_, c3⟩
  unfold calculateRuntime
  rw [if_neg (by omega)]

/-- **No delay imposed** (every oracle hands the nominal duration back; the empty oracle does).
The span is exactly `max 1 runtime` for a record with work — recorded finish minus recorded start
equals `max(1, floor(max(flops/cpu, data/bandwidth)))` — and `max 1 duration` for a record without
work. -/
theorem C06_recorded_span_no_delay (s0 s : Sys) (hw : WFConfig s0)
    (h : ReachD (fun _ dur total => total = dur) s0 s) :
    ∀ t r f, s.task? t = some r → r.aft = some f →
      ∃ a m mm, r.ast = some a ∧ (∃ d ∈ s.procs, ∃ cross total, d.k = .doWork t m cross 3 total) ∧
        s.machine? m = some mm ∧
        ((0 < r.flops ∨ 0 < r.data) → 0 < mm.cpu ∧ 0 < mm.bw ∧
          f - a = ((max 1 (max (r.flops / mm.cpu) (r.data / mm.bw)) : Nat) : Time)) ∧
        (r.flops = 0 → r.data = 0 → f - a = ((max 1 r.duration : Nat) : Time)) := by
  intro t r f hr hf
  obtain ⟨a, total, m, mm, g1, g2, ⟨d, hd, c, hdk⟩, g4, g5, g6⟩ :=
    C06_recorded_span_traj _ s0 s hw h t r f hr hf
  have hsub : f - a = ((max 1 total : Nat) : Time) := by rw [g2]; grind
  refine ⟨a, m, mm, g1, ⟨d, hd, c, total, hdk⟩, g4, fun hwk => ?_, fun h0 h0' => ?_⟩
  · obtain ⟨c1, c2, c3⟩ := g5 hwk
    exact ⟨c1, c2, by rw [hsub, c3]⟩
  · rw [hsub, g6 h0 h0']

/-- **An ingest task runs exactly the observation's duration** — in the runs in which no oracle
overrides the delay model (`orc.total = none`) and the supervisors follow the telescope inside an
instant (`ReachOrd`, the order of SimPy; the timing invariant `ILTI` is proved for these runs): a
recorded finish of ingest task `i` of observation `o` is the recorded start plus `ob.duration`. -/
theorem C06_ingest_span_traj (s0 s : Sys) (hw : WFConfig s0) (h : ReachOrd s0 s) :
    ∀ o i r f, s.task? (.ingest o i) = some r → r.aft = some f →
      ∃ a ob, r.ast = some a ∧ s.obs? o = some ob ∧ 1 ≤ ob.duration ∧
        f = a + ((ob.duration : Nat) : Time) :=
  fun o i r f hr hf =>
    spanInv_ingest_span (reachD_spanInv s0 s hw h.toD) (reachOrd_ti s0 s hw h) (fun _ _ _ h => h) o i r f hr hf

/-! ### (A2) the machine is held while the body is alive -/

/-- **While a body is alive its machine is not free.**  For every live body `(m, t)`: `m` is
neither available nor idle in a reservation (so no allocation can be made on it); the body process
is alive, has stamped the recorded start `a`, and is due for its last block at `a + max 1 total - 1`
— every block that runs while the machine is held runs no later than that, and the recorded finish
will be `a + max 1 total` (`C06_recorded_span_traj`). -/
theorem C06_machine_held_traj (R : Tid → Nat → Nat → Prop) (s0 s : Sys) (hw : WFConfig s0)
    (h : ReachD R s0 s) :
    ∀ mt ∈ s.active, mt.1 ∉ s.cl.available ∧ mt.1 ∉ s.cl.idleAll ∧
      ∃ d ∈ s.procs, d.alive = true ∧ ∃ cross total r a, d.k = .doWork mt.2 mt.1 cross 2 total ∧
        s.task? mt.2 = some r ∧ r.ast = some a ∧ d.wake + 1 = a + ((max 1 total : Nat) : Time) := by
  intro mt hmt
  have hs := reach_inv s0 s hw h.toOk
  have hin : mt.1 ∈ s.active.map (·.1) := List.mem_map_of_mem hmt
  refine ⟨fun hm => sinv_free_not_active hs mt.1 (Or.inl hm) hin,
    fun hm => sinv_free_not_active hs mt.1 (Or.inr hm) hin,
    spanInv_machine_held hs (reachD_spanInv s0 s hw h) mt hmt⟩


/-! ### (A2') … and until the recorded finish (F13) -/

/-- **The block that gives a machine back** (the block of `allocate_task_to_cluster` that ends the
process: it removes the task from the running tasks, frees the machine and marks the record
FINISHED), run at time `now`: the task was running, its body had ended, and every finish the body
recorded is reached, `aft ≤ now`.  With `C06_recorded_span_traj` (`aft = ast + max 1 total`): a
machine is held for at least the recorded span of its task. -/
-- F13: new.  Before the repair the block ran as soon as the body had ended (one step before `aft`
-- whenever the body's timeout was older than the allocation process's, i.e. for spans ≥ 3).
theorem C06_release_block (s : Sys) (hpw : PW s) (now : Time) (t : Tid) (m : Mid) (preds : List Tid)
    (obs : Option Oid) (ing : Bool) (ret : Nat)
    (hdone : (s.allocTaskBlock now t m preds obs ing ret).2.2 = .done) :
    t ∈ s.cl.running ∧ s.procTriggered ret = true ∧
    (∀ r f, s.task? t = some r → r.aft = some f → f ≤ now) ∧
    (s.allocTaskBlock now t m preds obs ing ret).1
      = ({ s with cl := (s.cl.allocEnd t m obs ing).1 }).updTask t (fun r => { r with status := .finished }) := by
  rcases allocTaskBlock_cases' s hpw now t m preds obs ing ret with
    ⟨_, e, _, heq⟩ | ⟨_, _, heq⟩ | ⟨_, _, heq⟩ | ⟨_, _, e, _, heq⟩ | ⟨hr, ⟨htr, haft⟩, _, heq⟩ <;>
    rw [heq] at hdone ⊢
  · cases hdone
  · cases hdone
  · cases hdone
  · cases hdone
  · exact ⟨hr, htr, aftReached_eq_true haft, rfl⟩

/-- **A polling block before the recorded finish**: the task is running and its record carries a
finish `f` that is still ahead (`now < f`) — whether or not the body has ended, the block changes
nothing and the process polls again one step later: the machine stays with the task. -/
-- F13: new
theorem C06_hold_block (s : Sys) (hpw : PW s) (now : Time) (t : Tid) (m : Mid) (preds : List Tid)
    (obs : Option Oid) (ing : Bool) (ret : Nat) (hrun : t ∈ s.cl.running) (r : TaskRec) (f : Time)
    (hr : s.task? t = some r) (hf : r.aft = some f) (hlt : now < f) :
    s.allocTaskBlock now t m preds obs ing ret = (s, .allocTask t m preds obs ing ret, .timeout 1) := by
  rcases allocTaskBlock_cases' s hpw now t m preds obs ing ret with
    ⟨hnr, _⟩ | ⟨hnr, _⟩ | ⟨_, _, heq⟩ | ⟨_, ⟨_, haft⟩, _⟩ | ⟨_, ⟨_, haft⟩, _⟩
  · exact absurd hrun hnr
  · exact absurd hrun hnr
  · exact heq
  · exact absurd hlt (Rat.not_lt.mpr (aftReached_eq_true haft r f hr hf))
  · exact absurd hlt (Rat.not_lt.mpr (aftReached_eq_true haft r f hr hf))

/-! ### (A3) the simulator -/

/-- **The recorded span along the simulator's runs** (SimPy's order; pauses, and states after an
exception, included).  As `C06_recorded_span_traj`, with `total = env.bodyTotal t k dur` for some `k`
(`env.Rel`): `dur` for an ingest task; else the entry of `env.delayTable` for the nominal duration
`dur` if there is one; else `dur` plus the `k`-th entry (cyclically) of `env.delayScript`, `dur`
when the script is empty. -/
theorem C06_recorded_span_simpy (env : SimEnv) (s0 : Sys) (hw : Sys.WFConfig s0) (k : SimState)
    (h : SimReach env s0 k) :
    ∀ t r f, k.st.task? t = some r → r.aft = some f →
      ∃ a total m mm, r.ast = some a ∧ f = a + ((max 1 total : Nat) : Time) ∧
        (∃ d ∈ k.st.procs, ∃ cross, d.k = .doWork t m cross 3 total) ∧ k.st.machine? m = some mm ∧
        ((0 < r.flops ∨ 0 < r.data) →
          0 < mm.cpu ∧ 0 < mm.bw ∧ env.Rel t (max (r.flops / mm.cpu) (r.data / mm.bw)) total) ∧
        (r.flops = 0 → r.data = 0 → env.Rel t r.duration total) :=
  fun t r f hr hf => Sys.spanInv_recorded_span (sim_spanInv env s0 hw k h) t r f hr hf

/-- **No delay model** (`env` has neither a delay table nor a delay script): recorded finish minus
recorded start is exactly `max 1 runtime` for a record with work, `max 1 duration` for a record
without work. -/
theorem C06_recorded_span_simpy_no_delay (env : SimEnv) (s0 : Sys) (hw : Sys.WFConfig s0)
    (h1 : env.delayTable = []) (h2 : env.delayScript = []) (k : SimState) (h : SimReach env s0 k) :
    ∀ t r f, k.st.task? t = some r → r.aft = some f →
      ∃ a m mm, r.ast = some a ∧ (∃ d ∈ k.st.procs, ∃ cross total, d.k = .doWork t m cross 3 total) ∧
        k.st.machine? m = some mm ∧
        ((0 < r.flops ∨ 0 < r.data) → 0 < mm.cpu ∧ 0 < mm.bw ∧
          f - a = ((max 1 (max (r.flops / mm.cpu) (r.data / mm.bw)) : Nat) : Time)) ∧
        (r.flops = 0 → r.data = 0 → f - a = ((max 1 r.duration : Nat) : Time)) := by
  intro t r f hr hf
  obtain ⟨a, total, m, mm, g1, g2, ⟨d, hd, c, hdk⟩, g4, g5, g6⟩ :=
    C06_recorded_span_simpy env s0 hw k h t r f hr hf
  have hsub : f - a = ((max 1 total : Nat) : Time) := by rw [g2]; grind
  refine ⟨a, m, mm, g1, ⟨d, hd, c, total, hdk⟩, g4, fun hwk => ?_, fun h0 h0' => ?_⟩
  · obtain ⟨c1, c2, c3⟩ := g5 hwk
    exact ⟨c1, c2, by rw [hsub, env_rel_nodelay h1 h2 c3]⟩
  · rw [hsub, env_rel_nodelay h1 h2 (g6 h0 h0')]

/-- **A delay model that only lengthens** (every entry of the table maps a duration to one not
smaller; the script only adds): `f = a + max 1 total` with `runtime ≤ total` for a record with
work, `duration ≤ total` for a record without work; and `total` is the nominal duration itself when
the table has no entry for it and the script is empty. -/
theorem C06_recorded_span_simpy_lengthening (env : SimEnv) (s0 : Sys) (hw : Sys.WFConfig s0)
    (hl : ∀ kv ∈ env.delayTable, kv.1 ≤ kv.2) (k : SimState) (h : SimReach env s0 k) :
    ∀ t r f, k.st.task? t = some r → r.aft = some f →
      ∃ a total m mm, r.ast = some a ∧ f = a + ((max 1 total : Nat) : Time) ∧
        (∃ d ∈ k.st.procs, ∃ cross, d.k = .doWork t m cross 3 total) ∧ k.st.machine? m = some mm ∧
        ((0 < r.flops ∨ 0 < r.data) → 0 < mm.cpu ∧ 0 < mm.bw ∧
          max (r.flops / mm.cpu) (r.data / mm.bw) ≤ total ∧
          (dictGet env.delayTable (max (r.flops / mm.cpu) (r.data / mm.bw)) = none → env.delayScript = [] →
            total = max (r.flops / mm.cpu) (r.data / mm.bw))) ∧
        (r.flops = 0 → r.data = 0 → r.duration ≤ total ∧
          (dictGet env.delayTable r.duration = none → env.delayScript = [] → total = r.duration)) := by
  intro t r f hr hf
  obtain ⟨a, total, m, mm, g1, g2, g3, g4, g5, g6⟩ := C06_recorded_span_simpy env s0 hw k h t r f hr hf
  refine ⟨a, total, m, mm, g1, g2, g3, g4, fun hwk => ?_, fun h0 h0' => ?_⟩
  · obtain ⟨c1, c2, c3⟩ := g5 hwk
    exact ⟨c1, c2, env_rel_lengthens hl c3, fun e1 e2 => env_rel_noentry e1 e2 c3⟩
  · exact ⟨env_rel_lengthens hl (g6 h0 h0'), fun e1 e2 => env_rel_noentry e1 e2 (g6 h0 h0')⟩

/-- **An ingest task runs exactly the observation's duration**, in every state of every run of the
simulator, whatever the delay model. -/
theorem C06_ingest_span_simpy (env : SimEnv) (s0 : Sys) (hw : Sys.WFConfig s0) (k : SimState)
    (h : SimReach env s0 k) :
    ∀ o i r f, k.st.task? (.ingest o i) = some r → r.aft = some f →
      ∃ a ob, r.ast = some a ∧ k.st.obs? o = some ob ∧ 1 ≤ ob.duration ∧
        f = a + ((ob.duration : Nat) : Time) :=
  fun o i r f hr hf =>
    Sys.spanInv_ingest_span (sim_spanInv env s0 hw k h) (h.l3inv hw).ti (fun _ _ _ h hi => env_rel_ingest h hi)
      o i r f hr hf

/-- **While a body is alive its machine is not free**, along the simulator's runs. -/
theorem C06_machine_held_simpy (env : SimEnv) (s0 : Sys) (hw : Sys.WFConfig s0) (k : SimState)
    (h : SimReach env s0 k) :
    ∀ mt ∈ k.st.active, mt.1 ∉ k.st.cl.available ∧ mt.1 ∉ k.st.cl.idleAll ∧
      ∃ d ∈ k.st.procs, d.alive = true ∧ ∃ cross total r a, d.k = .doWork mt.2 mt.1 cross 2 total ∧
        k.st.task? mt.2 = some r ∧ r.ast = some a ∧ d.wake + 1 = a + ((max 1 total : Nat) : Time) := by
  intro mt hmt
  have hs := (h.inv hw).1
  have hin : mt.1 ∈ k.st.active.map (·.1) := List.mem_map_of_mem hmt
  refine ⟨fun hm => Sys.sinv_free_not_active hs mt.1 (Or.inl hm) hin,
    fun hm => Sys.sinv_free_not_active hs mt.1 (Or.inr hm) hin,
    Sys.spanInv_machine_held hs (sim_spanInv env s0 hw k h) mt hmt⟩

/-- the simulator's uninterrupted runs are runs of the block system under the discipline `env.Rel`
(so every `ReachD env.Rel` theorem transfers, as with `L3_transfer`) -/
theorem C06_L3_refines_ReachD (env : SimEnv) (s0 : Sys) (hw : Sys.WFConfig s0) (k : SimState)
    (h : SimRun env s0 k) :
    ∃ s, Sys.ReachD env.Rel s0 s ∧ (k.st = s ∨ (k.st = { s with halted := true } ∧ k.st.halted = true)) :=
  l3_refines_reachD env s0 hw k h

/-! ### the statement that is false without a hypothesis on the oracles -/

/-- "for every reachable state of the block system (`ReachOk`: any oracle at every step) a finished
record with work has `total ≥ runtime`" — FALSE: an oracle may hand the body `total := some 0`. -/
def C06_span_ge_runtime_statement : Prop :=
  ∀ (s0 s : Sys), Sys.WFConfig s0 → Sys.ReachOk s0 s → s.crashed = none →
    ∀ t r a f mm, s.task? t = some r → r.ast = some a → r.aft = some f → s.machines = [mm] →
      (0 < r.flops ∨ 0 < r.data) →
      a + ((max 1 (max (r.flops / mm.cpu) (r.data / mm.bw)) : Nat) : Time) ≤ f

/-- the witness: configuration `precW0` (one machine of speed 1, the chain `precA → precB`, queue
algorithm), the run `precSchedShort`: the blocks of `precSchedPid` in creation order with the empty
oracle, except that the block in which the body of `precA` starts gets `total := some 0`.  `precA`
carries 2 units of work (runtime 2); recorded start 1, recorded finish 2.  No exception. -/
theorem C06_span_ge_runtime_witness :
    Sys.WFConfig Sys.precW0 ∧ Sys.ReachOk Sys.precW0 (Sys.precRunO Sys.precSchedShort Sys.precW0.start) ∧
    (Sys.precRunO Sys.precSchedShort Sys.precW0.start).crashed = none ∧
    (Sys.precRunO Sys.precSchedShort Sys.precW0.start).machines = [⟨0, 1, 1⟩] ∧
    ((Sys.precRunO Sys.precSchedShort Sys.precW0.start).task? Sys.precA).map
      (fun r => (r.flops, r.data, r.ast, r.aft)) = some (2, 0, some 1, some 2) :=
  ⟨Sys.precW0_wf, Sys.precSchedShort_reach.toOk (by simp [Sys.precW0]), Sys.precSchedShort_final.1,
    Sys.precSchedShort_final.2.1, Sys.precSchedShort_final.2.2⟩

theorem C06_span_ge_runtime_statement_false : ¬ C06_span_ge_runtime_statement := by
  intro hst
  obtain ⟨hw, hr, hc, hm, hA⟩ := C06_span_ge_runtime_witness
  generalize Sys.precRunO Sys.precSchedShort Sys.precW0.start = s at hr hc hm hA
  cases ht : s.task? Sys.precA with
  | none => rw [ht] at hA; simp at hA
  | some r =>
    rw [ht] at hA
    simp only [Option.map_some, Option.some.injEq, Prod.mk.injEq] at hA
    obtain ⟨e1, e2, e3, e4⟩ := hA
    have := hst Sys.precW0 s hw hr hc Sys.precA r 1 2 ⟨0, 1, 1⟩ ht e3 e4 hm (Or.inl (by rw [e1]; decide))
    rw [e1, e2] at this
    exact absurd this (by decide +kernel)

/-- "in every reachable state of the block system (`ReachOk`) an ingest task with a recorded finish
ran exactly its observation's duration" — FALSE for the same reason: `orc.total` overrides the
duration of an ingest task as well (the code has no delay model on ingest tasks; `ReachOrd` and the
simulator never set `orc.total`: `C06_ingest_span_traj`, `C06_ingest_span_simpy`). -/
def C06_ingest_span_statement : Prop :=
  ∀ (s0 s : Sys), Sys.WFConfig s0 → Sys.ReachOk s0 s → s.crashed = none →
    ∀ o i r a f ob, s.task? (.ingest o i) = some r → r.ast = some a → r.aft = some f →
      s.obs? o = some ob → f = a + ((ob.duration : Nat) : Time)

/-- the witness: `precW0`, creation order, the block in which the body of the ingest task starts
gets `total := some 3`: observation duration 1, recorded start 0, recorded finish 3 -/
theorem C06_ingest_span_witness :
    Sys.ReachOk Sys.precW0 (Sys.precRunO Sys.precSchedIngest Sys.precW0.start) ∧
    (Sys.precRunO Sys.precSchedIngest Sys.precW0.start).crashed = none ∧
    ((Sys.precRunO Sys.precSchedIngest Sys.precW0.start).obs? 0).map (·.duration) = some 1 ∧
    ((Sys.precRunO Sys.precSchedIngest Sys.precW0.start).task? (.ingest 0 0)).map
      (fun r => (r.ast, r.aft)) = some (some 0, some 3) :=
  ⟨Sys.precSchedIngest_reach.toOk (by simp [Sys.precW0]), Sys.precSchedIngest_final.1,
    Sys.precSchedIngest_final.2.1, Sys.precSchedIngest_final.2.2⟩

theorem C06_ingest_span_statement_false : ¬ C06_ingest_span_statement := by
  intro hst
  obtain ⟨hr, hc, hob, hT⟩ := C06_ingest_span_witness
  generalize Sys.precRunO Sys.precSchedIngest Sys.precW0.start = s at hr hc hob hT
  cases ht : s.task? (.ingest 0 0) with
  | none => rw [ht] at hT; simp at hT
  | some r =>
    cases ho : s.obs? 0 with
    | none => rw [ho] at hob; simp at hob
    | some ob =>
      rw [ht] at hT
      rw [ho] at hob
      simp only [Option.map_some, Option.some.injEq, Prod.mk.injEq] at hT hob
      have := hst Sys.precW0 s Sys.precW0_wf hr hc 0 0 r 0 3 ob ht hT.1 hT.2 ho
      rw [hob] at this
      exact absurd this (by decide +kernel)

/-! ### non-vacuity -/


/-- block system, creation order, no delay: `precA` (2 units of work on a machine of speed 1) has
the recorded span `3 - 1 = max 1 (2 / 1)`; the ingest task has `1 - 0 =` the observation's
duration -/
example : ∃ s, ReachD (fun _ d tot => tot = d) precW0 s ∧
    (s.task? precA).map (fun r => (r.flops, r.data, r.ast, r.aft)) = some (2, 0, some 1, some 3) ∧
    (s.task? (.ingest 0 0)).map (fun r => (r.flops, r.data, r.duration, r.ast, r.aft)) =
      some (0, 0, 1, some 0, some 1) ∧
    s.machines = [⟨0, 1, 1⟩] :=
  ⟨_, precSchedPid_reachD, precSchedPid_span.1, precSchedPid_span.2.1, precSchedPid_span.2.2⟩

/-- simulator, no delay model: start 2, finish 4; a live body holds machine 0 after 30 steps -/
example : ∃ k, SimReach {} precW0 k ∧
    (k.st.task? precA).map (fun r => (r.flops, r.data, r.ast, r.aft)) = some (2, 0, some 2, some 4) ∧
    (k.st.task? (.ingest 0 0)).map (fun r => (r.ast, r.aft)) = some (some 0, some 1) :=
  ⟨_, SimReach.start.steps 40, precSim40.1, precSim40.2.1⟩

example : ∃ k, SimReach {} precW0 k ∧ k.st.active = [(0, precA)] ∧ k.st.cl.available = [] :=
  ⟨_, SimReach.start.steps 30, precSim40.2.2.1, precSim40.2.2.2⟩

/-- simulator with a delay script `[3]`: start 2, finish `7 = 2 + (2 + 3)`; with the delay table
`2 ↦ 4`: finish `6 = 2 + 4` -/
example : (∃ k, SimReach { delayScript := [3] } precW0 k ∧
      (k.st.task? precA).map (fun r => (r.flops, r.data, r.ast, r.aft)) = some (2, 0, some 2, some 7)) ∧
    (∃ k, SimReach { delayTable := [(2, 4)] } precW0 k ∧
      (k.st.task? precA).map (fun r => (r.flops, r.data, r.ast, r.aft)) = some (2, 0, some 2, some 6)) :=
  ⟨⟨_, SimReach.start.steps 60, precSim60.1⟩, ⟨_, SimReach.start.steps 60, precSim60.2⟩⟩

end Sys
end Topsim
