/-
  C08, trajectory clause, F14 — the machines promised to admitted observations and the machines
  available, along the runs of the deterministic simulator (L3, SimPy's own order).

  Vocabulary: TopsimProps/C08Traj.lean (`ingestPromised`, `SimReach`).
-/
import TopsimProofs.Fit4
import TopsimProps.C08Traj

namespace Topsim

open KState Sys

/-! ### the machines promised are covered by the machines available

The repaired admission test (`Cluster.check_ingest_capacity(…, reserved=provision_ingest)`) refuses an
observation unless `demand + max 0 (provIngest − |ingest pool|) ≤ |available|`.  In SimPy's order
* at the telescope's block nothing is promised (`ingestPromised = 0`: every supervisor and
  provisioning process created by the previous block has run its first block — URGENT events first)
  and nothing is stale, so `provIngest − |ingest pool| ≥ 0` (`C08_telescope_sees_nothing_promised_simpy`);
  inside the pass the counter grows by exactly the demands admitted so far, so the test's `promised`
  is at least the machines promised and not yet provisioned (`Sys.fit_telFold`,
  TopsimProofs/Fit1.lean);
* between an admission and its provisioning block no process takes a machine out of `available`;
hence in EVERY state of every run `ingestPromised ≤ |available|` (`C08_promised_covered_simpy`) and the
first block of a provisioning process finds its machines (`C08_no_provisioning_failure_simpy`): known
finding K2 is unreachable.  No `OneAdmission` hypothesis.  `hb0`: the hot buffer of the configuration
holds no observation (with one stored, the scheduler loop's first block at t = 0 creates an
`allocate_tasks` process that runs between the first admission and its provisioning).

The equality: at the telescope's block, in a run that has raised no exception, `provIngest` is
EXACTLY the size of the ingest pool (`C08_promised_exact_simpy`) — the exact ledger (`provIngest` = the
sum of the demands of the live supervisors), the exact number of machines an observation holds from
`ast` to the telescope's block at `ast + duration` (C08Sim: `C08_ingest_holds_demand`), and a live
supervisor being due at `ast + duration` at the latest.  So the test's `promised` starts the pass at
exactly 0 = `ingestPromised`, and grows by exactly the demands admitted in the pass. -/

/-- **At the telescope's block nothing is promised, and the counter covers the ingest pool**
(SimPy's order): the `promised` of the repaired test starts the pass at
`provIngest − |ingest pool| ≥ 0 = ingestPromised`. -/
theorem C08_telescope_sees_nothing_promised_simpy (env : SimEnv) (s0 : Sys) (hw : Sys.WFConfig s0)
    (hb0 : s0.buf.hot.stored = []) (k : SimState) (h : SimReach env s0 k) (e : HEntry)
    (hpk : k.peek = some e) (p : Proc) (hp : k.st.proc? e.pid = some p) (ha : p.alive = true)
    (hk : p.k = .telescope) :
    k.st.ingestPromised = 0 ∧ (k.st.cl.ingest.length : Int) ≤ k.st.provIngest :=
  sim_tel_nothing_promised env s0 hw hb0 k h e hpk p hp ha hk

/-- **The `promised` of the repaired test is exact** (SimPy's order, a run that has raised no
exception): at the telescope's block `provIngest − |ingest pool|` is exactly the number of machines
promised and not yet provisioned — both are 0: the counter is exactly the ingest pool. -/
theorem C08_promised_exact_simpy (env : SimEnv) (s0 : Sys) (hw : Sys.WFConfig s0)
    (hb0 : s0.buf.hot.stored = []) (k : SimState) (h : SimReach env s0 k) (hc : k.st.crashed = none)
    (e : HEntry) (hpk : k.peek = some e) (p : Proc) (hp : k.st.proc? e.pid = some p) (ha : p.alive = true)
    (hk : p.k = .telescope) :
    k.st.provIngest - (k.st.cl.ingest.length : Int) = ((k.st.ingestPromised : Nat) : Int) ∧
    k.st.provIngest = (k.st.cl.ingest.length : Int) ∧ k.st.ingestPromised = 0 := by
  obtain ⟨h1, h2⟩ := sim_promised_exact env s0 hw hb0 k h hc e hpk p hp ha hk
  exact ⟨by rw [h1, h2]; simp, h1, h2⟩

/-- **The machines promised are covered by the machines available** in every state of every run of
the simulator — any delay table / delay script / static plans, any shipped algorithm, with or without
pauses, before or after an exception, however many observations one telescope block admits. -/
theorem C08_promised_covered_simpy (env : SimEnv) (s0 : Sys) (hw : Sys.WFConfig s0)
    (hb0 : s0.buf.hot.stored = []) (k : SimState) (h : SimReach env s0 k) :
    k.st.ingestPromised ≤ k.st.cl.available.length :=
  sim_promised_covered env s0 hw hb0 k h

/-- **`provision_ingest_resources` never raises for lack of machines** (K2 is unreachable; no
`OneAdmission` hypothesis): in every state of every run of the simulator, a live provisioning process
that has not run its first block asks for no more machines than are available, `provisionIngest`
returns no error, and its block does not raise. -/
theorem C08_no_provisioning_failure_simpy (env : SimEnv) (s0 : Sys) (hw : Sys.WFConfig s0)
    (hb0 : s0.buf.hot.stored = []) (k : SimState) (h : SimReach env s0 k) (p : Proc)
    (hp : p ∈ k.st.procs) (ha : p.alive = true) (o : Oid) (d : Nat) (hk : p.k = .provIngest o d)
    (orc : Oracle) :
    (p.pc = 0 → d ≤ k.st.cl.available.length ∧ (k.st.cl.provisionIngest d o).2.1 = none) ∧
    ∀ err, (k.st.block p orc).2.2 ≠ .raised err :=
  sim_provIngest_no_raise env s0 hw hb0 k h hp ha hk orc

end Topsim
