/-
  Kernel properties (C10: nothing is left to the host; C11: pausing and
  resuming is transparent).  Generic in the handler, so they hold for any
  process semantics — in particular for `simHandler` (TopsimModel/Sim.lean).
-/
import TopsimProofs.KernelLemmas

namespace Topsim
namespace KState

variable {σ : Type}

/-- C10: the event order `(time, priority, insertion id)` is a strict total
order on entries with distinct insertion ids … -/
theorem C10_order_strict_total (a b : HEntry) (h : a.eid ≠ b.eid) :
    (a.lt b = true ∨ b.lt a = true) ∧ ¬ (a.lt b = true ∧ b.lt a = true) :=
  lt_strict_total a b h

theorem C10_order_trans (a b c : HEntry) (hab : a.lt b = true) (hbc : b.lt c = true) :
    a.lt c = true :=
  lt_trans' a b c hab hbc

/-- … so the next event is THE least entry: unique, no tie left to the host
(hash seeds, dict order, …) -/
theorem C10_peek_least (k : KState σ) (e : HEntry) (h : k.peek = some e)
    (hn : (k.heap.map (·.eid)).Nodup) :
    e ∈ k.heap ∧ ∀ e' ∈ k.heap, e' ≠ e → e.lt e' = true :=
  peek_least k e h hn

/-- insertion ids stay unique: every push uses a fresh, larger id -/
theorem C10_eids_fresh (h : Handler σ) (k k' : KState σ)
    (hn : (k.heap.map (·.eid)).Nodup) (hlt : ∀ e ∈ k.heap, e.eid < k.eid) (hs : k.step h = some k') :
    (k'.heap.map (·.eid)).Nodup ∧ (∀ e ∈ k'.heap, e.eid < k'.eid) ∧ k.eid ≤ k'.eid :=
  step_eids h k k' hn hlt hs

/-- C10/C11: a run until `u` has exactly one outcome -/
theorem C11_deterministic (h : Handler σ) (u : Time) (k a b : KState σ)
    (ha : RunsTo h u k a) (hb : RunsTo h u k b) : a = b :=
  runsTo_deterministic h u k a b ha hb

/-- C11: running until `u` and then until `v ≥ u` is running until `v` -/
theorem C11_compose (h : Handler σ) (u v : Time) (k k1 k2 : KState σ) (huv : u ≤ v)
    (h1 : RunsTo h u k k1) (h2 : RunsTo h v k1 k2) : RunsTo h v k k2 :=
  runsTo_compose h u v k k1 k2 huv h1 h2

/-- C11: `run(until=u)` processes no event at or after `u` -/
theorem C11_stops_before (h : Handler σ) (u : Time) (k k' : KState σ) (hr : RunsTo h u k k') :
    k'.peek = none ∨ ∃ e, k'.peek = some e ∧ u ≤ e.time :=
  runsTo_stops h u k k' hr

/-- the fuel-bounded executable loop computes that relation -/
theorem C11_runUntil_sound (h : Handler σ) (u : Time) (fuel : Nat) (k k' : KState σ)
    (hr : runUntil h u fuel k = some k') : RunsTo h u k k' :=
  runUntil_sound h u fuel k k' hr

/-- hence, for any pause point and any split of the remainder into segments:
    (fold of runs until u₁ ≤ u₂ ≤ … ≤ uₙ) = (one run until uₙ) -/
theorem C11_any_split (h : Handler σ) (us : List Time) (v : Time) (k k' : KState σ)
    (hsorted : (us ++ [v]).Pairwise (· ≤ ·))
    (hr : SegRuns h (us ++ [v]) k k') : RunsTo h v k k' :=
  segRuns_collapse h us v k k' hsorted hr

end KState

namespace Sys

/-- C11: the extra hand-over at a pause point is invisible to the monitor block
that follows: same row, same log -/
theorem C11_collate_then_monitor (s : Sys) (now : Time) :
    s.collate.monitorBlock now = s.monitorBlock now :=
  collate_monitor s now

/-- C11: a `do_work` block (the only kind that can precede the monitor inside
an instant) commutes with the hand-over -/
theorem C11_collate_commutes_doWork (s : Sys) (pid : Nat) (orc : Oracle) (p : Proc)
    (hp : s.proc? pid = some p) (hk : ∃ t m pr ph tot, p.k = .doWork t m pr ph tot) :
    (s.collate.resume pid orc).1 = (s.resume pid orc).1.collate ∧
    (s.collate.resume pid orc).2 = (s.resume pid orc).2 :=
  collate_doWork s pid orc p hp hk

end Sys
end Topsim
