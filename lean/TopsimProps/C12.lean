/-
  C12 — the per-timestep table reports the true state, one row per step.
-/
import TopsimProofs.BlockLemmas

namespace Topsim
namespace Sys

/-- what the monitor writes is the true state: with the cluster invariant (which
holds in every reachable state, `C02_trajectory`) the incrementally maintained
counters equal the numbers recomputed from the pools and lists. -/
theorem C12_row_true (s : Sys) (U : List Tid) (hinv : Cluster.Inv s.cl U) (n : Nat) :
    let r := s.mkRow n
    r.running = s.cl.running.length ∧
    r.available = (s.cl.machines.length : Int) - s.cl.running.length ∧
    r.ingest = (s.cl.running.filter Tid.isIngest).length ∧
    r.finished = (s.cl.finished.filter (·.2)).length ∧
    r.provisioned = s.cl.idle.length ∧
    r.hot = s.buf.hot.cur ∧ r.cold = s.buf.cold.cur ∧
    r.stored = s.buf.hot.stored.length + s.buf.cold.stored.length ∧
    r.waiting = (s.obs.filter (·.status = .waiting)).length ∧
    r.obsFinished = (s.obs.filter (·.status = .finished)).length ∧
    r.queue = s.queue.length :=
  row_true s U hinv n

/-- machines not running a task: when no ingest allocation is pending (always
the case at a step boundary), `available` is the number of machines in the
available pool or reserved-idle -/
theorem C12_available_true (s : Sys) (U : List Tid) (hinv : Cluster.Inv s.cl U) (n : Nat)
    (hp : s.cl.pending = []) :
    (s.mkRow n).available = (s.cl.available.length : Int) + s.cl.idleAll.length :=
  row_available_true s U hinv n hp

/-- the monitor writes exactly one row per block and always sleeps one step -/
theorem C12_monitor_block (s : Sys) (now : Time) :
    (s.monitorBlock now).1.rows = s.rows ++ [s.mkRow (natNow now)] ∧
    (s.monitorBlock now).2 = .timeout 1 := by
  simp [monitorBlock, collate]

/-- no other process writes rows -/
theorem C12_only_monitor_writes (s : Sys) (pid : Nat) (orc : Oracle) (p : Proc)
    (hp : s.proc? pid = some p) (hk : p.k ≠ .monitor) :
    (s.resume pid orc).1.rows = s.rows :=
  rows_only_monitor s pid orc p hp hk

/-- one row per timestep, in order, without gaps: along every trajectory the
number of rows equals the number of blocks the monitor has run, and the monitor
runs at times 0, 1, 2, … -/
theorem C12_rows_count (s0 s : Sys) (hw : WFConfig s0) (h : Reach s0 s) :
    ∃ p, s.proc? 0 = some p ∧ p.k = .monitor ∧ p.alive = true ∧
      s.rows.length = p.pc ∧ p.wake = (p.pc : Rat) :=
  reach_rows_count s0 s hw h

end Sys
end Topsim
