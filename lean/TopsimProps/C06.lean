/-
  C06 — task runtime equals work over machine speed, at least one step.
  Property theorems and non-vacuity examples only.
-/
import TopsimProofs.TaskTimeLemmas

namespace Topsim

/-- the runtime formula: max(⌊flops/cpu⌋, ⌊data/bandwidth⌋) -/
theorem C06_runtime_formula (f d c b r : Nat) (h : calculateRuntime f d c b = .ok r) :
    0 < c ∧ 0 < b ∧ r = max (f / c) (d / b) :=
  runtime_formula f d c b r h

/-- machine occupancy is max(1, runtime-with-delay): never less than one step -/
theorem C06_span (total : Nat) : occupancy total = max 1 total :=
  occupancy_eq total

/-- recorded finish minus recorded start equals that occupancy -/
theorem C06_recorded_span (ast : Time) (total : Nat) :
    finishTime ast total - ast = ((max 1 total : Nat) : Rat) :=
  finishTime_sub ast total

/-- more work on the same machine never finishes sooner -/
theorem C06_mono_work (f f' d d' c b r r' : Nat) (hf : f ≤ f') (hd : d ≤ d')
    (h : calculateRuntime f d c b = .ok r) (h' : calculateRuntime f' d' c b = .ok r') :
    occupancy r ≤ occupancy r' :=
  mono_work f f' d d' c b r r' hf hd h h'

/-- the same work on a slower machine never finishes sooner -/
theorem C06_anti_speed (f d c c' b b' r r' : Nat) (hc : c' ≤ c) (hb : b' ≤ b)
    (h : calculateRuntime f d c b = .ok r) (h' : calculateRuntime f d c' b' = .ok r') :
    occupancy r ≤ occupancy r' :=
  anti_speed f d c c' b b' r r' hc hb h h'

/-- the delay model only lengthens the occupancy -/
theorem C06_delay_only_lengthens (r total : Nat) (h : r ≤ total) :
    occupancy r ≤ occupancy total :=
  occupancy_mono r total h

/-- an ingest task (no compute or data demand of its own) runs for exactly
its observation's duration -/
theorem C06_ingest_span (c b duration : Nat) (ast : Time) (hd : 1 ≤ duration) :
    nominalDuration 0 0 c b duration = .ok duration ∧
    finishTime ast duration - ast = (duration : Rat) :=
  ingest_span c b duration ast hd

/-- a zero speed is rejected (ZeroDivisionError), not totalised -/
theorem C06_zero_speed (f d b : Nat) : calculateRuntime f d 0 b = .error .zerodiv := by
  simp [calculateRuntime]

/-- Before the F5 repair the `< 1` branch waited a whole step: occupancy 2 for
no work, 1 for one step of work — not monotone (kept as the witness of F5). -/
def occupancyBeforeF5 (total : Nat) : Nat := (if total < 1 then 1 else total - 1) + 1
theorem C06_old_not_monotone : occupancyBeforeF5 0 > occupancyBeforeF5 1 := by decide

-- non-vacuity: the hypotheses are met by concrete non-trivial inputs
example : calculateRuntime 25 3 10 2 = .ok 2 ∧ calculateRuntime 3 0 10 2 = .ok 0 ∧
    occupancy 0 = 1 ∧ occupancy 2 = 2 := ⟨rfl, rfl, rfl, rfl⟩

end Topsim
