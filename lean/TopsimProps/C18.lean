/-
  C18 — moving an observation between buffer tiers conserves data.
-/
import TopsimProofs.TierLemmas

namespace Topsim
namespace Buffer

/-- what leaves one tier enters the other, at every step (both directions) -/
theorem C18_step_conserves_h2c (b b' : Buffer) (o : Oid) (left left' : Int)
    (h : b.hot2coldStep o left = (b', .ok left')) :
    b'.hot.cur + b'.cold.cur = b.hot.cur + b.cold.cur :=
  h2c_step_conserves b b' o left left' h

theorem C18_step_conserves_c2h (b b' : Buffer) (o : Oid) (left left' : Int)
    (h : b.cold2hotStep o left = (b', .ok left')) :
    b'.hot.cur + b'.cold.cur = b.hot.cur + b.cold.cur :=
  c2h_step_conserves b b' o left left' h

/-- each step moves min(left, rate) at the slower tier's rate -/
theorem C18_step_amount (b b' : Buffer) (o : Oid) (left left' : Int)
    (hr : 0 < b.moveRate) (hl : 0 < left)
    (h : b.hot2coldStep o left = (b', .ok left')) :
    b.moveRate = min b.hot.maxRate b.cold.maxRate ∧
    left - left' = min left b.moveRate ∧ b'.hot.cur = b.hot.cur + min left b.moveRate :=
  h2c_step_amount b b' o left left' hr hl h

/-- a started move completes after exactly ⌈size / rate⌉ steps, with both free
spaces adjusted by exactly the size, the observation stored in the destination
only, and no transfer slot left occupied -/
theorem C18_h2c_completes (b : Buffer) (o : Oid) (size : Int) (fuel : Nat)
    (hr : 0 < b.moveRate) (hs : 0 < size) (hsz : b.sizeOf o = size)
    (hfuel : ((size + b.moveRate - 1) / b.moveRate).toNat < fuel)
    (ht : b.hot.transfer = some o) :
    ∃ b', hot2coldRun fuel b o size 0 = (b', .ok ((size + b.moveRate - 1) / b.moveRate).toNat) ∧
      b'.hot.cur = b.hot.cur + size ∧ b'.cold.cur = b.cold.cur - size ∧
      b'.cold.stored = b.cold.stored ++ [o] ∧ b'.hot.stored = b.hot.stored ∧
      b'.hot.transfer = none ∧ b'.cold.transfer = none :=
  h2c_completes b o size fuel hr hs hsz hfuel ht

theorem C18_c2h_completes (b : Buffer) (o : Oid) (size : Int) (fuel : Nat)
    (hr : 0 < b.moveRate) (hs : 0 < size) (hsz : b.sizeOf o = size)
    (hfuel : ((size + b.moveRate - 1) / b.moveRate).toNat < fuel)
    (ht : b.cold.transfer = some o) :
    ∃ b', cold2hotRun fuel b o size 0 = (b', .ok ((size + b.moveRate - 1) / b.moveRate).toNat) ∧
      b'.cold.cur = b.cold.cur + size ∧ b'.hot.cur = b.hot.cur - size ∧
      b'.hot.stored = b.hot.stored ++ [o] ∧ b'.cold.stored = b.cold.stored ∧
      b'.hot.transfer = none ∧ b'.cold.transfer = none :=
  c2h_completes b o size fuel hr hs hsz hfuel ht

/-- a move whose destination lacks room is refused: both tiers are exactly as
they were (lists, transfer slots, free space).  Only the private
`_data_left_to_transfer` note is overwritten, as in the code. -/
-- CORRECTED: added the hypothesis `ht : b.hot.transfer = none` (the source tier's transfer slot
-- is free when the move begins).  Without it the statement is false: the refusal branch resets
-- `hot.transfer` to `none` whatever it held.  Counterexample (checked by `decide`, see
-- `h2c_refused_unconditional_false` in TopsimProofs.TierLemmas):
--   b = { init 100 2 5 5 with hot.cur := 90, hot.stored := [7], hot.transfer := some 3,
--         size := [(7, 10)] }   (cold capacity 5 < 10: refused)  gives  b'.hot.transfer = none ≠ some 3.
-- The hypothesis-free form is `h2c_refused_general`: b'.hot = { b.hot with transfer := none }.
theorem C18_refused_unchanged_h2c (b b' : Buffer) (ht : b.hot.transfer = none)
    (h : b.hot2coldBegin = (b', .ok none)) :
    b'.hot = b.hot ∧ b'.cold = b.cold ∧ b'.size = b.size :=
  h2c_refused b b' ht h

-- CORRECTED: added the hypothesis `ht : b.cold.transfer = none`, for the same reason (the refusal
-- branch resets `cold.transfer` to `none`).  Counterexample (`c2h_refused_unconditional_false`):
--   b = { init 100 2 100 5 with hot.cur := 5, cold.cur := 90, cold.stored := [7],
--         cold.transfer := some 3, size := [(7, 10)] }  (hot free space 5 < 10: refused)
--   gives  b'.cold.transfer = none ≠ some 3.
-- The hypothesis-free form is `c2h_refused_general`: b'.cold = { b.cold with transfer := none }.
theorem C18_refused_unchanged_c2h (b b' : Buffer) (ht : b.cold.transfer = none)
    (h : b.cold2hotBegin = (b', .ok none)) :
    b'.hot = b.hot ∧ b'.cold = b.cold ∧ b'.size = b.size ∧ b'.dltt = b.dltt :=
  c2h_refused b b' ht h

/-- a move starts only if the destination has room for the whole observation -/
theorem C18_started_has_room (b b' : Buffer) (o : Oid) (left : Int)
    (h : b.hot2coldBegin = (b', .ok (some (o, left)))) :
    left = b.sizeOf o ∧ b.hot.stored.getLast? = some o ∧ b'.hot.transfer = some o ∧
    b.cold.cur - (left + (match b.cold.transfer with | some t => b.sizeOf t | none => 0)) ≥ 0 :=
  h2c_started b b' o left h

-- non-vacuity: a 10-unit observation, hot rate 2 (the slower), cold rate 5: 5 steps each way
example :
    let b0 : Buffer := { (init 100 2 100 5) with
      hot := { (init 100 2 100 5).hot with cur := 90, stored := [7] }, size := [(7, 10)] }
    (match b0.hot2coldBegin with
      | (b1, .ok (some (o, left))) => (hot2coldRun 50 b1 o left 0).2 = .ok 5 ∧
          (hot2coldRun 50 b1 o left 0).1.cold.cur = 90 ∧ (hot2coldRun 50 b1 o left 0).1.hot.cur = 100
      | _ => False) := by
  intro b0
  simp +decide [b0, hot2coldBegin, init, sizeOf, dictGet, coldHasCapacityFor, hot2coldRun,
    hot2coldStep, recvAmount, sendAmount, moveRate]

end Buffer
end Topsim
