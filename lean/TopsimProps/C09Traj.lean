/-
  C09, trajectory clauses — batch (reservation) scheduling (BatchProcessing,
  `alg = .batch parts minPer split`) over every state a simulation can reach: every order of the
  blocks inside an instant, every oracle input.

  Vocabulary.  `s.cl.idle` is `_resources['idle']`: for each observation that holds a reservation,
  the list of its reserved machines that are idle; `s.cl.idleOf (some o)` is that list (`[]` when
  `o` holds none); "`o` holds a reservation" is `∃ l, dictGet s.cl.idle o = some l`.  A reserved
  machine on which a task of `o` runs is in `s.cl.occupied`, and the polling entry of that task in
  `s.cl.runOn` carries `obs = some o`; when the task finishes the machine goes back to the idle
  list of `o`.  `s.cl.numProv` is the counter `num_provisioned_obs`.  `.wf o c n` is the id of a
  workflow task of observation `o`.  A step is `s.resume pid orc` for an enabled `pid`.

  Hypotheses.  `hw : WFConfig s0`, `ha : s0.alg = .batch parts minPer split`.  `hb0` (the initial
  buffer lists are empty, as in C04) wherever plans and processes matter: with an observation stored
  twice the scheduler loop plans it twice, the second plan replaces the first while tasks of the first
  still hold reserved machines, and `allocate_tasks` then releases a reservation whose machines are
  occupied.  `s.crashed = none` is not needed anywhere.
-/
import TopsimProofs.Reserve7
import TopsimProofs.Reserve8
import TopsimProps.C09
import TopsimProps.C04

namespace Topsim
namespace Sys

open Cluster

/-! ### (d) tasks of a workflow run only on machines reserved for that observation -/

/-- (d) At every reachable state, every polling entry that is not for ingest belongs to a workflow
task of some observation `o`, was allocated for `o` (`obs = some o`), `o` holds a reservation, and
the machine is occupied (so in no idle list and not available: `C09_exclusive`). -/
theorem C09_runs_only_on_reserved (s0 s : Sys) (hw : WFConfig s0)
    (hb0 : s0.buf.hot.stored = [] ∧ s0.buf.hot.scheduled = [] ∧ s0.buf.hot.finished = [] ∧
      s0.buf.cold.stored = [])
    {parts minPer : Nat} {split : Option (List (Oid × Nat × Nat))} (ha : s0.alg = .batch parts minPer split)
    (h : Reach s0 s) :
    ∀ e ∈ s.cl.runOn, e.ing = false →
      ∃ o c n, e.obs = some o ∧ e.task = .wf o c n ∧ (∃ l, dictGet s.cl.idle o = some l) ∧
        e.mach ∈ s.cl.occupied := by
  have hno : s0.alg ≠ .oracle := by rw [ha]; simp
  have hbuf := bufList_of_hb0 hb0
  have hri := reach_ri s0 s hw hbuf ha h
  have hrv := reach_rv s0 s hw hbuf ha h
  obtain ⟨U, hU⟩ := reach_cluster_inv s0 s hw (h.toOk hno)
  intro e he hi
  obtain ⟨o, ho, hr⟩ := hrv.ro e he hi
  obtain ⟨q, hq, hqa, _, preds, ret, hqk⟩ := hri.rc e he
  rw [ho, hi] at hqk
  obtain ⟨c, n, htw⟩ := planTasks_wf hri.pt (hri.st q hq hqa _ _ _ _ _ hqk).2
  exact ⟨o, c, n, ho, htw, hr, Inv.occupied_of_runOn hU he hi⟩

/-- (d) The step in which a workflow task begins (a new polling entry that is not for ingest): the
task is a workflow task of the observation `o` it is allocated for, and its machine was, before the
step, idle in the reservation of `o` — not in the available pool. -/
theorem C09_begins_on_reserved (s0 s : Sys) (hw : WFConfig s0)
    (hb0 : s0.buf.hot.stored = [] ∧ s0.buf.hot.scheduled = [] ∧ s0.buf.hot.finished = [] ∧
      s0.buf.cold.stored = [])
    {parts minPer : Nat} {split : Option (List (Oid × Nat × Nat))} (ha : s0.alg = .batch parts minPer split)
    (h : Reach s0 s) (pid : Nat) (hen : s.enabled pid) (orc : Oracle) :
    ∀ e ∈ (s.resume pid orc).1.cl.runOn, e ∉ s.cl.runOn → e.ing = false →
      ∃ o c n, e.obs = some o ∧ e.task = .wf o c n ∧ e.mach ∈ s.cl.idleOf (some o) ∧
        e.mach ∉ s.cl.available :=
  resume_new_runOn hw (bufList_of_hb0 hb0) ha h hen orc

/-- (d) The step in which a workflow task is reported finished (its polling entry goes): its machine
is, after the step, idle in the reservation of the observation it was allocated for. -/
theorem C09_returns_to_reservation (s0 s : Sys) (hw : WFConfig s0)
    (hb0 : s0.buf.hot.stored = [] ∧ s0.buf.hot.scheduled = [] ∧ s0.buf.hot.finished = [] ∧
      s0.buf.cold.stored = [])
    {parts minPer : Nat} {split : Option (List (Oid × Nat × Nat))} (ha : s0.alg = .batch parts minPer split)
    (h : Reach s0 s) (pid : Nat) (hen : s.enabled pid) (orc : Oracle) :
    ∀ e ∈ s.cl.runOn, e.ing = false → e ∉ (s.resume pid orc).1.cl.runOn →
      ∃ o, e.obs = some o ∧ e.mach ∈ (s.resume pid orc).1.cl.idleOf (some o) :=
  resume_ended_runOn hw (bufList_of_hb0 hb0) ha h hen orc

/-! ### (e) a reserved machine belongs to nobody else until it is released -/

/-- (e) At every reachable state (any shipped algorithm), a machine idle in the reservation of `o` is
in no pool (available, ingest, occupied), in no other reservation, and in its own list once. -/
theorem C09_exclusive (s0 s : Sys) (hw : WFConfig s0) (ha : s0.alg ≠ .oracle) (h : Reach s0 s)
    (o : Oid) (m : Mid) (hm : m ∈ s.cl.idleOf (some o)) :
    m ∉ s.cl.available ∧ m ∉ s.cl.ingest ∧ m ∉ s.cl.occupied ∧
    (∀ o', o' ≠ o → m ∉ s.cl.idleOf (some o')) ∧ (s.cl.idleOf (some o)).count m = 1 := by
  obtain ⟨U, hU⟩ := reach_cluster_inv s0 s hw (h.toOk ha)
  exact Inv.idle_excl hU hm

/-- (e) One step: a machine idle in the reservation of `o` that is no longer so after the step has
either been given to a task allocated for `o` (a new polling entry on it with `obs = some o`, not
for ingest — by `C09_begins_on_reserved` a workflow task of `o`), or the whole reservation of `o`
has been released: `o` holds none any more and all its idle machines are in the available pool.
No ingest provisioning and no allocation for another observation takes it. -/
theorem C09_reserved_until_released (s0 s : Sys) (hw : WFConfig s0)
    (hb0 : s0.buf.hot.stored = [] ∧ s0.buf.hot.scheduled = [] ∧ s0.buf.hot.finished = [] ∧
      s0.buf.cold.stored = [])
    {parts minPer : Nat} {split : Option (List (Oid × Nat × Nat))} (ha : s0.alg = .batch parts minPer split)
    (h : Reach s0 s) (pid : Nat) (hen : s.enabled pid) (orc : Oracle) (o : Oid) (m : Mid)
    (hm : m ∈ s.cl.idleOf (some o)) (hgone : m ∉ (s.resume pid orc).1.cl.idleOf (some o)) :
    (∃ e ∈ (s.resume pid orc).1.cl.runOn, e ∉ s.cl.runOn ∧ e.mach = m ∧ e.obs = some o ∧ e.ing = false) ∨
    ((¬ ∃ l, dictGet (s.resume pid orc).1.cl.idle o = some l) ∧
      ∀ m' ∈ s.cl.idleOf (some o), m' ∈ (s.resume pid orc).1.cl.available) :=
  resume_leaves_reservation hw (bufList_of_hb0 hb0) ha h hen orc o m hm hgone

/-! ### (f) how many reservations, how large -/

/-- (f) At every reachable state the reservations are for distinct observations, there are at most
as many as the counter `num_provisioned_obs` says, and the counter never exceeds the configured
number of partitions. -/
theorem C09_reservation_count (s0 s : Sys) (hw : WFConfig s0)
    {parts minPer : Nat} {split : Option (List (Oid × Nat × Nat))} (ha : s0.alg = .batch parts minPer split)
    (h : Reach s0 s) :
    (dictKeys s.cl.idle).Nodup ∧ (s.cl.idle.length : Int) ≤ s.cl.numProv ∧ s.cl.numProv ≤ (parts : Int) := by
  have hno : s0.alg ≠ .oracle := by rw [ha]; simp
  obtain ⟨U, hU⟩ := reach_cluster_inv s0 s hw (h.toOk hno)
  exact ⟨hU.keys, reach_res_count hw ha h⟩

/-- (f) With a minimum reservation size of at least one machine the counter is exact. -/
theorem C09_reservation_count_exact (s0 s : Sys) (hw : WFConfig s0)
    {parts minPer : Nat} {split : Option (List (Oid × Nat × Nat))} (ha : s0.alg = .batch parts minPer split)
    (hmin : 1 ≤ minPer) (h : Reach s0 s) : (s.cl.idle.length : Int) = s.cl.numProv :=
  reach_res_count_eq hw ha hmin h

/-- (f), the exact count without the condition on the minimum (FALSE, see below) -/
def C09_count_exact_statement : Prop :=
  ∀ (s0 s : Sys) (parts minPer : Nat) (split : Option (List (Oid × Nat × Nat))), WFConfig s0 →
    (s0.buf.hot.stored = [] ∧ s0.buf.hot.scheduled = [] ∧ s0.buf.hot.finished = [] ∧ s0.buf.cold.stored = []) →
    s0.alg = .batch parts minPer split → Reach s0 s → s.crashed = none →
    (s.cl.idle.length : Int) = s.cl.numProv

/-- FALSE with `min_resources_per_workflow = 0`.  Witness `rsW1` (one machine, two partitions,
minimum 0, one observation with a two-task workflow), schedule `rsSchedLeak` (creation order inside
every instant, no exception): `floor(1 / 2) = 0` machines are asked for, `0 < 0` is false, so
`provision_batch_resources(0, …)` is called at t = 1 and again at t = 2; it reserves nothing and
counts a reservation each time.  The counter is 2 = partitions with no reservation in existence;
from then on nothing is ever provisioned and the workflow never starts (machine 0 available). -/
theorem C09_count_exact_statement_false : ¬ C09_count_exact_statement := by
  intro hall
  have h := hall rsW1 _ 2 0 none rsW1_wf ⟨rfl, rfl, rfl, rfl⟩ rfl rsSchedLeak_reach rsSchedLeak_final.1
  rw [rsSchedLeak_final.2.1, rsSchedLeak_final.2.2.1] at h
  exact absurd h (by decide)

/-- (f) The step that creates the reservation of `o` (`o` holds none before, one after) is a block of
the `allocate_tasks` process of `o`; before it fewer than `parts` reservations are counted, after it
one more; the reservation is the first `n` machines of the available pool (which lose them), with
`1 ≤ n`, `minPer ≤ n`, and `n` within the configured size: without a per-observation split
`n ≤ floor(machines / parts)`; with a split `(lo, hi)` for `o`, `n ≤ hi` and `lo` machines were
available. -/
theorem C09_reservation_created_within_bounds (s0 s : Sys) (hw : WFConfig s0)
    (hb0 : s0.buf.hot.stored = [] ∧ s0.buf.hot.scheduled = [] ∧ s0.buf.hot.finished = [] ∧
      s0.buf.cold.stored = [])
    {parts minPer : Nat} {split : Option (List (Oid × Nat × Nat))} (ha : s0.alg = .batch parts minPer split)
    (h : Reach s0 s) (pid : Nat) (hen : s.enabled pid) (orc : Oracle) (o : Oid)
    (hnot : ¬ ∃ l, dictGet s.cl.idle o = some l)
    (hyes : ∃ l, dictGet (s.resume pid orc).1.cl.idle o = some l) :
    (∃ p sc pa po, s.proc? pid = some p ∧ p.k = .allocTasks o sc pa po false) ∧
    s.cl.numProv < (parts : Int) ∧ (s.resume pid orc).1.cl.numProv = s.cl.numProv + 1 ∧
    ∃ n, 1 ≤ n ∧ minPer ≤ n ∧ n ≤ s.cl.available.length ∧
      (s.resume pid orc).1.cl.idleOf (some o) = s.cl.available.take n ∧
      (s.resume pid orc).1.cl.available = s.cl.available.drop n ∧
      (split = none → n ≤ s0.machines.length / parts) ∧
      (∀ sp, split = some sp → ∃ lo hi, dictGet sp o = some (lo, hi) ∧ n ≤ hi ∧ lo ≤ s.cl.available.length) := by
  obtain ⟨g1, g2, g3, n, hn1, hmn, hnav, hmax, t1, t2⟩ :=
    resume_new_reservation hw (bufList_of_hb0 hb0) ha h hen orc o hnot hyes
  obtain ⟨_, b2, b3⟩ := maxResourceProvision_bounds s.cl parts split o n hmax
  refine ⟨g1, g2, g3, n, hn1, hmn, hnav, t1, t2, ?_, ?_⟩
  · intro e
    have := b2 e
    rw [reach_machines hw h, List.length_map] at this
    exact this
  · intro sp e
    obtain ⟨lo, hi, c1, c2, c3⟩ := b3 sp e
    exact ⟨lo, hi, c1, c2, by omega⟩

/-! ### (g) the whole reservation returns to the free pool when the last task has finished -/

/-- (g) The block of the `allocate_tasks` process of `o` that finds every task left in the plan of `o`
FINISHED (the workflow's last task has finished), if it does not raise: afterwards `o` holds no
reservation, every machine that was idle in its reservation is in the available pool, and no task
allocated for `o` was still running — so by `C09_returns_to_reservation` every machine of the
reservation was idle in it: the reservation returns whole. -/
theorem C09_release_when_done (s0 s : Sys) (hw : WFConfig s0)
    (hb0 : s0.buf.hot.stored = [] ∧ s0.buf.hot.scheduled = [] ∧ s0.buf.hot.finished = [] ∧
      s0.buf.cold.stored = [])
    {parts minPer : Nat} {split : Option (List (Oid × Nat × Nat))} (ha : s0.alg = .batch parts minPer split)
    (h : Reach s0 s) (pid : Nat) (hen : s.enabled pid) (orc : Oracle) (p : Proc) (hp : s.proc? pid = some p)
    (o : Oid) (sc pa : List (Tid × Mid)) (po : List Tid) (hk : p.k = .allocTasks o sc pa po false)
    (hdone : ∀ pl, s.plan? o = some pl → ∀ t ∈ pl.tasks, ∃ r, s.task? t = some r ∧ r.status = .finished)
    (hok : ∀ e, (s.resume pid orc).2 ≠ .raised e) :
    (¬ ∃ l, dictGet (s.resume pid orc).1.cl.idle o = some l) ∧
    (∀ m ∈ s.cl.idleOf (some o), m ∈ (s.resume pid orc).1.cl.available) ∧
    (∀ e ∈ s.cl.runOn, e.ing = false → e.obs ≠ some o) := by
  refine resume_release hw (bufList_of_hb0 hb0) ha h hen orc p hp hk ?_ hok
  intro t ht
  unfold planTasks at ht
  cases hpl : s.plan? o with
  | none => rw [hpl] at ht; simp at ht
  | some pl =>
    rw [hpl] at ht
    obtain ⟨r, hr, hst⟩ := hdone pl hpl t ht
    rw [tstat_eq, hr]; exact hst

/-- (g) … and at `is_finished()` no reservation exists (`C04_no_reservation_at_finish`). -/
theorem C09_no_reservation_at_finish (s0 s : Sys) (hw : WFConfig s0)
    (hb0 : s0.buf.hot.stored = [] ∧ s0.buf.hot.scheduled = [] ∧ s0.buf.hot.finished = [] ∧
      s0.buf.cold.stored = [])
    {parts minPer : Nat} {split : Option (List (Oid × Nat × Nat))} (ha : s0.alg = .batch parts minPer split)
    (h : Reach s0 s) (hf : s.isFinished = true) : s.cl.idle = [] :=
  C04_no_reservation_at_finish s0 s hw hb0 (by rw [ha]; simp) h hf

/-! ### the hypotheses are satisfiable -/

/-- a reservation exists: configuration `rsW0` (two machines, one partition, minimum 1), schedule
`rsSchedRes`: at t = 1 `allocate_tasks` has reserved both machines for observation 0 -/
example : ∃ s, Reach rsW0 s ∧ WFConfig rsW0 ∧ rsW0.alg = .batch 1 1 none ∧ s.crashed = none ∧
    s.cl.idle = [(0, [1, 0])] ∧ s.cl.numProv = 1 ∧ s.cl.available = [] ∧ s.cl.runOn = [] :=
  ⟨_, rsSchedRes_reach, rsW0_wf, rfl, rsSchedRes_final⟩

/-- a workflow task runs on a reserved machine: two blocks later `pfA` has begun on machine 1, taken
from the idle list of observation 0; its polling entry carries `obs = some 0` -/
example : ∃ s, Reach rsW0 s ∧ s.crashed = none ∧ s.cl.idle = [(0, [0])] ∧ s.cl.numProv = 1 ∧
    s.cl.available = [] ∧ s.cl.occupied = [1] ∧ s.active = [(1, pfA)] ∧ s.starts = [.ingest 0 0, pfA] ∧
    s.cl.runOn = [⟨pfA, 1, some 0, false⟩] :=
  ⟨_, rsSchedRun_reach, rsSchedRun_final⟩

/-- the reservation returns whole: at the end of the run both tasks have run, no reservation exists, the
counter is 0, both machines are available, the simulation is finished -/
example : ∃ s, Reach rsW0 s ∧ s.crashed = none ∧ s.cl.idle = [] ∧ s.cl.numProv = 0 ∧ s.cl.available = [1, 0] ∧
    s.cl.runOn = [] ∧ s.starts = [.ingest 0 0, pfA, pfB] ∧ s.isFinished = true :=
  ⟨_, rsSchedAll_reach, rsSchedAll_final⟩

end Sys
end Topsim
