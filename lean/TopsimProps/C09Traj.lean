/-
  C09, trajectory clauses — batch (reservation) scheduling (BatchProcessing,
  `alg = .batch parts minPer split`) over every state a simulation can reach: every order of the
  blocks inside an instant, every oracle input.

  Vocabulary.  `s.cl.idle` is `_resources['idle']`: for each observation that holds a reservation,
  the list of its reserved machines that are idle; `s.cl.idleOf (some o)` is that list (`[]` when
  `o` holds none); "`o` holds a reservation" is `∃ l, dictGet s.cl.idle o = some l`.  A reserved
  machine on which a task of `o` runs is in `s.cl.occupied`, and the polling entry of that task in
  `s.cl.runOn` carries `obs = some o`; when the task finishes the machine goes back to the idle
  list of `o`.  `s.cl.numProv` is the counter `num_provisioned_obs`.  `.wf o c n` is the id of a
  workflow task of observation `o`.  A step is `s.resume pid orc` for an enabled `pid`.

  Hypotheses.  `hw : WFConfig s0`, `ha : s0.alg = .batch parts minPer split`.  `hb0` (the initial
  buffer lists are empty, as in C04) wherever plans and processes matter: with an observation stored
  twice the scheduler loop plans it twice, the second plan replaces the first while tasks of the first
  still hold reserved machines, and `allocate_tasks` then releases a reservation whose machines are
  occupied.  `s.crashed = none` is not needed anywhere.
-/
import TopsimProofs.Reserve9
import TopsimProofs.Reserve8
import TopsimProps.C09
import TopsimProps.C04

namespace Topsim
namespace Sys

open Cluster

/-! ### (d) tasks of a workflow run only on machines reserved for that observation -/

/-- (d) At every reachable state, every polling entry that is not for ingest belongs to a workflow
task of some observation `o`, was allocated for `o` (`obs = some o`), `o` holds a reservation, and
the machine is occupied (so in no idle list and not available: `C09_exclusive`). -/
theorem C09_runs_only_on_reserved (s0 s : Sys) (hw : WFConfig s0)
    (hb0 : s0.buf.hot.stored = [] ∧ s0.buf.hot.scheduled = [] ∧ s0.buf.hot.finished = [] ∧
      s0.buf.cold.stored = [])
    {parts minPer : Nat} {split : Option (List (Oid × Nat × Nat))} (ha : s0.alg = .batch parts minPer split)
    (h : Reach s0 s) :
    ∀ e ∈ s.cl.runOn, e.ing = false →
      ∃ o c n, e.obs = some o ∧ e.task = .wf o c n ∧ (∃ l, dictGet s.cl.idle o = some l) ∧
        e.mach ∈ s.cl.occupied := by
  have hno : s0.alg ≠ .oracle := by rw [ha]; simp
  have hbuf := bufList_of_hb0 hb0
  have hri := reach_ri s0 s hw hbuf ha h
  have hrv := reach_rv s0 s hw hbuf ha h
  obtain ⟨U, hU⟩ := reach_cluster_inv s0 s hw (h.toOk hno)
  intro e he hi
  obtain ⟨o, ho, hr⟩ := hrv.ro e he hi
  obtain ⟨q, hq, hqa, _, preds, ret, hqk⟩ := hri.rc e he
  rw [ho, hi] at hqk
  obtain ⟨c, n, htw⟩ := planTasks_wf hri.pt (hri.st q hq hqa _ _ _ _ _ hqk).2
  exact ⟨o, c, n, ho, htw, hr, Inv.occupied_of_runOn hU he hi⟩

/-- (d) The step in which a workflow task begins (a new polling entry that is not for ingest): the
task is a workflow task of the observation `o` it is allocated for, and its machine was, before the
step, idle in the reservation of `o` — not in the available pool. -/
theorem C09_begins_on_reserved (s0 s : Sys) (hw : WFConfig s0)
    (hb0 : s0.buf.hot.stored = [] ∧ s0.buf.hot.scheduled = [] ∧ s0.buf.hot.finished = [] ∧
      s0.buf.cold.stored = [])
    {parts minPer : Nat} {split : Option (List (Oid × Nat × Nat))} (ha : s0.alg = .batch parts minPer split)
    (h : Reach s0 s) (pid : Nat) (hen : s.enabled pid) (orc : Oracle) :
    ∀ e ∈ (s.resume pid orc).1.cl.runOn, e ∉ s.cl.runOn → e.ing = false →
      ∃ o c n, e.obs = some o ∧ e.task = .wf o c n ∧ e.mach ∈ s.cl.idleOf (some o) ∧
        e.mach ∉ s.cl.available :=
  resume_new_runOn hw (bufList_of_hb0 hb0) ha h hen orc

/-- (d) The step in which a workflow task is reported finished (its polling entry goes): its machine
is, after the step, idle in the reservation of the observation it was allocated for. -/
theorem C09_returns_to_reservation (s0 s : Sys) (hw : WFConfig s0)
    (hb0 : s0.buf.hot.stored = [] ∧ s0.buf.hot.scheduled = [] ∧ s0.buf.hot.finished = [] ∧
      s0.buf.cold.stored = [])
    {parts minPer : Nat} {split : Option (List (Oid × Nat × Nat))} (ha : s0.alg = .batch parts minPer split)
    (h : Reach s0 s) (pid : Nat) (hen : s.enabled pid) (orc : Oracle) :
    ∀ e ∈ s.cl.runOn, e.ing = false → e ∉ (s.resume pid orc).1.cl.runOn →
      ∃ o, e.obs = some o ∧ e.mach ∈ (s.resume pid orc).1.cl.idleOf (some o) :=
  resume_ended_runOn hw (bufList_of_hb0 hb0) ha h hen orc

/-! ### (e) a reserved machine belongs to nobody else until it is released -/

/-- (e) At every reachable state (any shipped algorithm), a machine idle in the reservation of `o` is
in no pool (available, ingest, occupied), in no other reservation, and in its own list once. -/
theorem C09_exclusive (s0 s : Sys) (hw : WFConfig s0) (ha : s0.alg ≠ .oracle) (h : Reach s0 s)
    (o : Oid) (m : Mid) (hm : m ∈ s.cl.idleOf (some o)) :
    m ∉ s.cl.available ∧ m ∉ s.cl.ingest ∧ m ∉ s.cl.occupied ∧
    (∀ o', o' ≠ o → m ∉ s.cl.idleOf (some o')) ∧ (s.cl.idleOf (some o)).count m = 1 := by
  obtain ⟨U, hU⟩ := reach_cluster_inv s0 s hw (h.toOk ha)
  exact Inv.idle_excl hU hm

/-- (e) One step: a machine idle in the reservation of `o` that is no longer so after the step has
either been given to a task allocated for `o` (a new polling entry on it with `obs = some o`, not
for ingest — by `C09_begins_on_reserved` a workflow task of `o`), or the whole reservation of `o`
has been released: `o` holds none any more and all its idle machines are in the available pool.
No ingest provisioning and no allocation for another observation takes it. -/
theorem C09_reserved_until_released (s0 s : Sys) (hw : WFConfig s0)
    (hb0 : s0.buf.hot.stored = [] ∧ s0.buf.hot.scheduled = [] ∧ s0.buf.hot.finished = [] ∧
      s0.buf.cold.stored = [])
    {parts minPer : Nat} {split : Option (List (Oid × Nat × Nat))} (ha : s0.alg = .batch parts minPer split)
    (h : Reach s0 s) (pid : Nat) (hen : s.enabled pid) (orc : Oracle) (o : Oid) (m : Mid)
    (hm : m ∈ s.cl.idleOf (some o)) (hgone : m ∉ (s.resume pid orc).1.cl.idleOf (some o)) :
    (∃ e ∈ (s.resume pid orc).1.cl.runOn, e ∉ s.cl.runOn ∧ e.mach = m ∧ e.obs = some o ∧ e.ing = false) ∨
    ((¬ ∃ l, dictGet (s.resume pid orc).1.cl.idle o = some l) ∧
      ∀ m' ∈ s.cl.idleOf (some o), m' ∈ (s.resume pid orc).1.cl.available) :=
  resume_leaves_reservation hw (bufList_of_hb0 hb0) ha h hen orc o m hm hgone

/-! ### (f) how many reservations, how large -/

/-- (f) At every reachable state the reservations are for distinct observations, there are at most
as many as the counter `num_provisioned_obs` says, and the counter never exceeds the configured
number of partitions. -/
theorem C09_reservation_count (s0 s : Sys) (hw : WFConfig s0)
    {parts minPer : Nat} {split : Option (List (Oid × Nat × Nat))} (ha : s0.alg = .batch parts minPer split)
    (h : Reach s0 s) :
    (dictKeys s.cl.idle).Nodup ∧ (s.cl.idle.length : Int) ≤ s.cl.numProv ∧ s.cl.numProv ≤ (parts : Int) := by
  have hno : s0.alg ≠ .oracle := by rw [ha]; simp
  obtain ⟨U, hU⟩ := reach_cluster_inv s0 s hw (h.toOk hno)
  exact ⟨hU.keys, reach_res_count hw ha h⟩

/-- (f) The counter is exact: as many reservations exist as `num_provisioned_obs` says.
(History: before the repair F12 of `BatchProcessing._provision_resources` — /repo commit f83ab6f, model
`provisionResources`: a provision of fewer than one machine is refused — this was FALSE for
`min_resources_per_workflow = 0`: in configuration `rsW1` (one machine, two partitions, minimum 0),
schedule `rsSchedLeak` (creation order), `provision_batch_resources(0, …)` was called at t = 1 and t = 2,
reserved nothing and counted a reservation each time; the counter reached the number of partitions with no
reservation in existence and no workflow could ever start.  The refutation on that witness is how the
defect was found; the same schedule now ends with the counter at 0, see the examples below.) -/
theorem C09_reservation_count_exact (s0 s : Sys) (hw : WFConfig s0)
    {parts minPer : Nat} {split : Option (List (Oid × Nat × Nat))} (ha : s0.alg = .batch parts minPer split)
    (h : Reach s0 s) : (s.cl.idle.length : Int) = s.cl.numProv :=
  reach_res_count_eq hw ha h

/-- (f) The step that creates the reservation of `o` (`o` holds none before, one after) is a block of
the `allocate_tasks` process of `o`; before it fewer than `parts` reservations are counted, after it
one more; the reservation is the first `n` machines of the available pool (which lose them), with
`1 ≤ n`, `minPer ≤ n`, and `n` within the configured size: without a per-observation split
`n ≤ floor(machines / parts)`; with a split `(lo, hi)` for `o`, `n ≤ hi` and `lo` machines were
available. -/
theorem C09_reservation_created_within_bounds (s0 s : Sys) (hw : WFConfig s0)
    (hb0 : s0.buf.hot.stored = [] ∧ s0.buf.hot.scheduled = [] ∧ s0.buf.hot.finished = [] ∧
      s0.buf.cold.stored = [])
    {parts minPer : Nat} {split : Option (List (Oid × Nat × Nat))} (ha : s0.alg = .batch parts minPer split)
    (h : Reach s0 s) (pid : Nat) (hen : s.enabled pid) (orc : Oracle) (o : Oid)
    (hnot : ¬ ∃ l, dictGet s.cl.idle o = some l)
    (hyes : ∃ l, dictGet (s.resume pid orc).1.cl.idle o = some l) :
    (∃ p sc pa po, s.proc? pid = some p ∧ p.k = .allocTasks o sc pa po false) ∧
    s.cl.numProv < (parts : Int) ∧ (s.resume pid orc).1.cl.numProv = s.cl.numProv + 1 ∧
    ∃ n, 1 ≤ n ∧ minPer ≤ n ∧ n ≤ s.cl.available.length ∧
      (s.resume pid orc).1.cl.idleOf (some o) = s.cl.available.take n ∧
      (s.resume pid orc).1.cl.available = s.cl.available.drop n ∧
      (split = none → n ≤ s0.machines.length / parts) ∧
      (∀ sp, split = some sp → ∃ lo hi, dictGet sp o = some (lo, hi) ∧ n ≤ hi ∧ lo ≤ s.cl.available.length) := by
  obtain ⟨g1, g2, g3, n, hn1, hmn, hnav, hmax, t1, t2⟩ :=
    resume_new_reservation hw (bufList_of_hb0 hb0) ha h hen orc o hnot hyes
  obtain ⟨_, b2, b3⟩ := maxResourceProvision_bounds s.cl parts split o n hmax
  refine ⟨g1, g2, g3, n, hn1, hmn, hnav, t1, t2, ?_, ?_⟩
  · intro e
    have := b2 e
    rw [reach_machines hw h, List.length_map] at this
    exact this
  · intro sp e
    obtain ⟨lo, hi, c1, c2, c3⟩ := b3 sp e
    exact ⟨lo, hi, c1, c2, by omega⟩

/-- (f) The size of a reservation — its idle machines plus the machines occupied by tasks allocated for
the observation — does not change in any step before and after which the observation holds the
reservation: from its creation (`C09_reservation_created_within_bounds`: `n` idle machines, no task
yet) to its release it has the size it was created with. -/
theorem C09_reservation_size_constant (s0 s : Sys) (hw : WFConfig s0)
    (hb0 : s0.buf.hot.stored = [] ∧ s0.buf.hot.scheduled = [] ∧ s0.buf.hot.finished = [] ∧
      s0.buf.cold.stored = [])
    {parts minPer : Nat} {split : Option (List (Oid × Nat × Nat))} (ha : s0.alg = .batch parts minPer split)
    (h : Reach s0 s) (pid : Nat) (hen : s.enabled pid) (orc : Oracle) (o : Oid)
    (h1 : ∃ l, dictGet s.cl.idle o = some l) (h2 : ∃ l, dictGet (s.resume pid orc).1.cl.idle o = some l) :
    ((s.resume pid orc).1.cl.idleOf (some o)).length +
        ((s.resume pid orc).1.cl.runOn.filter (fun e => decide (e.obs = some o) && !e.ing)).length
      = (s.cl.idleOf (some o)).length + (s.cl.runOn.filter (fun e => decide (e.obs = some o) && !e.ing)).length :=
  resume_resSize hw (bufList_of_hb0 hb0) ha h hen orc o h1 h2

/-- (f) At every reachable state the size of every reservation is at least one machine, at least the
configured minimum, and at most the configured bound: `floor(machines / partitions)` without a
per-observation split, the maximum `hi` of the observation's split `(lo, hi)` with one. -/
theorem C09_reservation_size_bounds (s0 s : Sys) (hw : WFConfig s0)
    (hb0 : s0.buf.hot.stored = [] ∧ s0.buf.hot.scheduled = [] ∧ s0.buf.hot.finished = [] ∧
      s0.buf.cold.stored = [])
    {parts minPer : Nat} {split : Option (List (Oid × Nat × Nat))} (ha : s0.alg = .batch parts minPer split)
    (h : Reach s0 s) (o : Oid) (hres : ∃ l, dictGet s.cl.idle o = some l) :
    let size := (s.cl.idleOf (some o)).length +
      (s.cl.runOn.filter (fun e => decide (e.obs = some o) && !e.ing)).length
    1 ≤ size ∧ minPer ≤ size ∧
    (split = none → size ≤ s0.machines.length / parts) ∧
    (∀ sp, split = some sp → ∃ lo hi, dictGet sp o = some (lo, hi) ∧ size ≤ hi) := by
  intro size
  obtain ⟨g1, g2, g3⟩ := reach_resSize hw (bufList_of_hb0 hb0) ha h o hres
  have g3' : size ≤ resBound parts split s0.machines.length o := g3
  refine ⟨g1, g2, ?_, ?_⟩
  · intro e; subst e; exact g3'
  · intro sp e
    subst e
    unfold resBound at g3'
    simp only at g3'
    cases hd : dictGet sp o with
    | none =>
      rw [hd] at g3'
      have : 1 ≤ size := g1
      simp only at g3'
      omega
    | some lh =>
      obtain ⟨lo, hi⟩ := lh
      rw [hd] at g3'
      exact ⟨lo, hi, rfl, g3'⟩

/-! ### (g) the whole reservation returns to the free pool when the last task has finished -/

/-- (g) The block of the `allocate_tasks` process of `o` that finds every task left in the plan of `o`
FINISHED (the workflow's last task has finished), if it does not raise: afterwards `o` holds no
reservation, every machine that was idle in its reservation is in the available pool, and no task
allocated for `o` was still running — so by `C09_returns_to_reservation` every machine of the
reservation was idle in it: the reservation returns whole. -/
theorem C09_release_when_done (s0 s : Sys) (hw : WFConfig s0)
    (hb0 : s0.buf.hot.stored = [] ∧ s0.buf.hot.scheduled = [] ∧ s0.buf.hot.finished = [] ∧
      s0.buf.cold.stored = [])
    {parts minPer : Nat} {split : Option (List (Oid × Nat × Nat))} (ha : s0.alg = .batch parts minPer split)
    (h : Reach s0 s) (pid : Nat) (hen : s.enabled pid) (orc : Oracle) (p : Proc) (hp : s.proc? pid = some p)
    (o : Oid) (sc pa : List (Tid × Mid)) (po : List Tid) (hk : p.k = .allocTasks o sc pa po false)
    (hdone : ∀ pl, s.plan? o = some pl → ∀ t ∈ pl.tasks, ∃ r, s.task? t = some r ∧ r.status = .finished)
    (hok : ∀ e, (s.resume pid orc).2 ≠ .raised e) :
    (¬ ∃ l, dictGet (s.resume pid orc).1.cl.idle o = some l) ∧
    (∀ m ∈ s.cl.idleOf (some o), m ∈ (s.resume pid orc).1.cl.available) ∧
    (∀ e ∈ s.cl.runOn, e.ing = false → e.obs ≠ some o) := by
  refine resume_release hw (bufList_of_hb0 hb0) ha h hen orc p hp hk ?_ hok
  intro t ht
  unfold planTasks at ht
  cases hpl : s.plan? o with
  | none => rw [hpl] at ht; simp at ht
  | some pl =>
    rw [hpl] at ht
    obtain ⟨r, hr, hst⟩ := hdone pl hpl t ht
    rw [tstat_eq, hr]; exact hst

/-- (g) … and at `is_finished()` no reservation exists (`C04_no_reservation_at_finish`). -/
theorem C09_no_reservation_at_finish (s0 s : Sys) (hw : WFConfig s0)
    (hb0 : s0.buf.hot.stored = [] ∧ s0.buf.hot.scheduled = [] ∧ s0.buf.hot.finished = [] ∧
      s0.buf.cold.stored = [])
    {parts minPer : Nat} {split : Option (List (Oid × Nat × Nat))} (ha : s0.alg = .batch parts minPer split)
    (h : Reach s0 s) (hf : s.isFinished = true) : s.cl.idle = [] :=
  C04_no_reservation_at_finish s0 s hw hb0 (by rw [ha]; simp) h hf

/-! ### the hypotheses are satisfiable -/

/-- a reservation exists: configuration `rsW0` (two machines, one partition, minimum 1), schedule
`rsSchedRes`: at t = 1 `allocate_tasks` has reserved both machines for observation 0 -/
example : ∃ s, Reach rsW0 s ∧ WFConfig rsW0 ∧ rsW0.alg = .batch 1 1 none ∧ s.crashed = none ∧
    s.cl.idle = [(0, [1, 0])] ∧ s.cl.numProv = 1 ∧ s.cl.available = [] ∧ s.cl.runOn = [] :=
  ⟨_, rsSchedRes_reach, rsW0_wf, rfl, rsSchedRes_final⟩

/-- a workflow task runs on a reserved machine: two blocks later `pfA` has begun on machine 1, taken
from the idle list of observation 0; its polling entry carries `obs = some 0` -/
example : ∃ s, Reach rsW0 s ∧ s.crashed = none ∧ s.cl.idle = [(0, [0])] ∧ s.cl.numProv = 1 ∧
    s.cl.available = [] ∧ s.cl.occupied = [1] ∧ s.active = [(1, pfA)] ∧ s.starts = [.ingest 0 0, pfA] ∧
    s.cl.runOn = [⟨pfA, 1, some 0, false⟩] :=
  ⟨_, rsSchedRun_reach, rsSchedRun_final⟩

/-- the releasing block: before the last block of the run (`rsSchedPre`) the `allocate_tasks` process 10 of
observation 0 is enabled, the only task left in the plan is FINISHED, both machines are idle in the
reservation; its block does not raise, and afterwards no reservation exists and both machines are available -/
example : ∃ s, Reach rsW0 s ∧ s.crashed = none ∧ s.cl.idle = [(0, [1, 0])] ∧ s.cl.numProv = 1 ∧ s.cl.runOn = [] ∧
    (s.plan? 0).map (·.tasks) = some [pfB] ∧ (s.task? pfB).map (·.status) = some .finished ∧
    (s.proc? 10).bind (fun p => rsAllocTasks? p.k) = some (0, [], false) ∧
    pfEnabledB s 10 = true ∧ rsRaised (s.resume 10 {}).2 = false ∧
    (s.resume 10 {}).1.cl.idle = [] ∧ (s.resume 10 {}).1.cl.available = [1, 0] :=
  ⟨_, rsSchedPre_reach, rsSchedPre_final⟩

/-- the reservation returns whole: at the end of the run both tasks have run, no reservation exists, the
counter is 0, both machines are available, the simulation is finished -/
example : ∃ s, Reach rsW0 s ∧ s.crashed = none ∧ s.cl.idle = [] ∧ s.cl.numProv = 0 ∧ s.cl.available = [1, 0] ∧
    s.cl.runOn = [] ∧ s.starts = [.ingest 0 0, pfA, pfB] ∧ s.isFinished = true :=
  ⟨_, rsSchedAll_reach, rsSchedAll_final⟩

/-- minimum zero (after the repair F12): in `rsW1` (one machine, two partitions: `floor(1 / 2) = 0`) the schedule
that used to leak two counted reservations ends with the counter at 0 and no reservation -/
example : ∃ s, Reach rsW1 s ∧ WFConfig rsW1 ∧ rsW1.alg = .batch 2 0 none ∧ s.crashed = none ∧ s.cl.idle = [] ∧
    s.cl.numProv = 0 ∧ s.cl.available = [0] ∧ s.starts = [.ingest 0 0] :=
  ⟨_, rsSchedLeak_reach, rsW1_wf, rfl, rsSchedLeak_final⟩

/-- minimum zero, no machine free: in `rsW2` (two machines, one partition, minimum 0, ingest on both machines)
`allocate_tasks` runs at t = 1 before the ingest machines are back: nothing is reserved, the counter stays 0 … -/
example : ∃ s, Reach rsW2 s ∧ WFConfig rsW2 ∧ rsW2.alg = .batch 1 0 none ∧ s.crashed = none ∧ s.cl.idle = [] ∧
    s.cl.numProv = 0 ∧ s.cl.available = [] ∧ s.cl.ingest = [0, 1] ∧
    (s.task? pfA).map (·.status) = some .unscheduled :=
  ⟨_, rsSchedNone_reach, rsW2_wf, rfl, rsSchedNone_final⟩

/-- … and at t = 2, the machines being free, it reserves both and the workflow starts -/
example : ∃ s, Reach rsW2 s ∧ s.crashed = none ∧ s.cl.idle = [(0, [1])] ∧ s.cl.numProv = 1 ∧ s.cl.available = [] ∧
    s.starts = [.ingest 0 0, .ingest 0 1, pfA] ∧ s.cl.runOn = [⟨pfA, 0, some 0, false⟩] :=
  ⟨_, rsSchedLater_reach, rsSchedLater_final⟩

end Sys
end Topsim
