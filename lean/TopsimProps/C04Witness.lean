/-
  C04Witness — the terminal-state theorems of C04 are not vacuous.

  For three small configurations the deterministic simulator (L3) is run by
  evaluation to a state with `is_finished() = true`; `L3_refines_L2` makes it a
  `ReachOk` state of the block system; all hypotheses of
  `C04_all_workflow_tasks_ran`, `C04_no_reservation_at_finish`,
  `C04_finished_machines_back_shipped`, `C04_all_ingest_tasks_ran`,
  `C04_finished_no_body` hold of it together, the theorems are instantiated on
  it, and the conclusions are about non-empty sets of records.

  (1) `C04_witness_finished`  — `c04W1`: one observation (rate 1), workflow chain `0 → 1`, queue.
  (2) `C04_witness_tiermove`  — `c04W2`: three observations; a hot→cold and a cold→hot move
                                 both happen and complete; `NoTier` is false.
  (3) `C04_witness_batch`     — `c04W3`: `c04W1` with BatchProcessing; a reservation exists in the
                                 middle of the run and is gone at the end.
-/
import TopsimProps.L3
import TopsimProofs.Witness2
import TopsimProofs.Witness3

namespace Topsim
namespace Sys

/-- every hypothesis of the terminal-state theorems of C04, on the pair (configuration before
`start()`, state) -/
abbrev C04Hyps (s0 s : Sys) : Prop :=
  WFConfig s0 ∧
  (s0.buf.hot.stored = [] ∧ s0.buf.hot.scheduled = [] ∧ s0.buf.hot.finished = [] ∧
    s0.buf.cold.stored = []) ∧
  (s0.buf.size = [] ∧ s0.buf.hot.cur ≤ s0.buf.hot.total ∧ s0.buf.cold.cur ≤ s0.buf.cold.total) ∧
  ReachOk s0 s ∧ s.isFinished = true ∧ s.crashed = none ∧ (∀ o ∈ s0.obs, 0 < o.rate) ∧
  s0.alg ≠ .oracle

/-- their conclusions -/
abbrev C04Concl (s0 s : Sys) : Prop :=
  (∀ o ∈ s.obs, ∃ p, s.plan? o.id = some p ∧ p.tasks = [] ∧
    ∀ r ∈ s.tasks, (∃ c n, r.id = .wf o.id c n) → r.status = .finished ∧ r.id ∈ s.starts) ∧
  (∀ o ∈ s.obs, ∀ i, i < o.ingestDemand → Tid.ingest o.id i ∈ s.starts) ∧
  s.cl.idle = [] ∧ s.cl.available.Perm (s0.machines.map (·.id)) ∧
  (s.active = [] ∧ s.cl.runOn = [] ∧ s.cl.pending = [])

/-- the theorems, instantiated: `C04_all_workflow_tasks_ran`, `C04_all_ingest_tasks_ran`,
`C04_no_reservation_at_finish`, `C04_finished_machines_back_shipped`, `C04_finished_no_body` -/
theorem C04_hyps_concl (s0 s : Sys) (h : C04Hyps s0 s) : C04Concl s0 s := by
  obtain ⟨hw, hb0, hsz0, hr, hf, hc, hrate, ha⟩ := h
  exact ⟨C04_all_workflow_tasks_ran s0 s hw hb0 hsz0 hr hf hc hrate,
    C04_all_ingest_tasks_ran s0 s hw hr hf hc,
    C04_no_reservation_at_finish s0 s hw hb0 ha hr.toReach hf,
    C04_finished_machines_back_shipped s0 s hw hb0 ha hr.toReach hf,
    C04_finished_no_body s0 s hw hr hf⟩

/-! ### (1) a finished run with a two-task workflow -/

theorem c04W1_hyps : C04Hyps c04W1 c04S1 :=
  ⟨c04W1_wf, c04W1_buf, c04W1_size, c04S1_reach, (witChk_spec c04S1_chk).1, (witChk_spec c04S1_chk).2.1,
    c04W1_rate, by simp [c04W1]⟩

/-- `c04W1` (one machine; one observation, ingest rate 1, workflow `0 → 1`; queue algorithm): the
state of the simulator after every event before t = 8 satisfies all the hypotheses of the
terminal-state theorems, hence their conclusions; it holds one observation, one ingest task record
and two workflow task records, all FINISHED, all started (once, in this order). -/
theorem C04_witness_finished :
    ∃ s : Sys, C04Hyps c04W1 s ∧ C04Concl c04W1 s ∧
      s.obs.map (·.id) = [0] ∧
      s.tasks.map (fun r => (r.id, r.status)) =
        [(.ingest 0 0, .finished), (.wf 0 1 0, .finished), (.wf 0 1 1, .finished)] ∧
      s.starts = [.ingest 0 0, .wf 0 1 0, .wf 0 1 1] ∧
      (∃ r ∈ s.tasks, ∃ c n, r.id = .wf 0 c n) :=
  have h := witChk_spec c04S1_chk
  ⟨c04S1, c04W1_hyps, C04_hyps_concl _ _ c04W1_hyps, h.2.2.2.1, h.2.2.2.2.1, h.2.2.2.2.2.1, by
    have ht := h.2.2.2.2.1
    have : (Tid.wf 0 1 0, TStatus.finished) ∈ c04S1.tasks.map (fun r => (r.id, r.status)) := by
      rw [ht]; simp
    obtain ⟨r, hr, he⟩ := List.mem_map.mp this
    exact ⟨r, hr, 1, 0, (Prod.mk.inj he).1⟩⟩

/-- the same along the simulator's runs, through `C04_all_workflow_tasks_ran_simpy` -/
theorem C04_witness_finished_simpy :
    ∃ k : SimState, SimRun {} c04W1 k ∧ k.st.isFinished = true ∧ k.st.crashed = none ∧
      k.st.obs.map (·.id) = [0] ∧
      (∀ o ∈ k.st.obs, ∃ p, k.st.plan? o.id = some p ∧ p.tasks = [] ∧
        ∀ r ∈ k.st.tasks, (∃ c n, r.id = .wf o.id c n) → r.status = .finished ∧ r.id ∈ k.st.starts) :=
  have h := witChk_spec c04S1_chk
  ⟨witRun c04W1 8 200, witRun_simRun _ _ _, h.1, h.2.1, h.2.2.2.1,
    C04_all_workflow_tasks_ran_simpy {} c04W1 c04W1_wf c04W1_buf c04W1_size c04W1_rate _
      (witRun_simRun _ _ _) h.1 h.2.1⟩

/-! ### (2) a finished run with both tier moves -/

theorem c04W2_hyps : C04Hyps c04W2 c04S2 :=
  ⟨c04W2_wf, c04W2_buf, c04W2_size, c04S2_reach, (witChk_spec c04S2_chk).1, (witChk_spec c04S2_chk).2.1,
    c04W2_rate, by simp [c04W2]⟩

/-- `c04W2` (three machines; observations A, C, B of volumes 45, 10, 10 into a hot buffer of 100;
queue algorithm).  `kmid`: the simulator after every event before t = 2; B has been moved to the
cold buffer (`move_hot_to_cold` exists, `move_cold_to_hot` not yet).  `s`: the same run continued
to t = 8; all hypotheses of the terminal-state theorems hold, hence their conclusions; both
tier-move processes are in the process table (`NoTier s` is false: the two-tier part of the proof
of `C04_all_workflow_tasks_ran` is what applies); B has come back, has been planned (clock 5), run
and removed; three workflow task records, all FINISHED and started. -/
theorem C04_witness_tiermove :
    ∃ (kmid : SimState) (s : Sys), SimRun {} c04W2 kmid ∧
      s = (SimState.runUntil {} (8 : Nat) 400 kmid).st ∧
      -- in the middle
      ReachOk c04W2 kmid.st ∧ kmid.st.crashed = none ∧
      kmid.st.buf.hot.stored = [0, 1] ∧ kmid.st.buf.cold.stored = [2] ∧
      kmid.st.buf.hot.cur = 45 ∧ kmid.st.buf.cold.cur = 90 ∧
      (∃ p ∈ kmid.st.procs, p.k.tag = "hot2cold") ∧ (¬ ∃ p ∈ kmid.st.procs, p.k.tag = "cold2hot") ∧
      -- at the end
      C04Hyps c04W2 s ∧ C04Concl c04W2 s ∧
      (∃ p ∈ s.procs, p.k.tag = "hot2cold") ∧ (∃ p ∈ s.procs, p.k.tag = "cold2hot") ∧ ¬ NoTier s ∧
      s.buf.hot.finished = [1, 2, 0] ∧ s.buf.cold.stored = [] ∧  -- F13: `hot.finished` was [1, 0, 2]
      s.buf.hot.cur = 100 ∧ s.buf.cold.cur = 100 ∧
      s.obs.map (·.id) = [0, 1, 2] ∧
      s.tasks.map (fun r => (r.id, r.status)) =
        [(.ingest 0 0, .finished), (.ingest 1 0, .finished), (.ingest 2 0, .finished),
         (.wf 1 2 0, .finished), (.wf 0 3 0, .finished), (.wf 2 5 0, .finished)] ∧
      s.starts = [.ingest 0 0, .ingest 1 0, .ingest 2 0, .wf 1 2 0, .wf 0 3 0, .wf 2 5 0] := by
  have h := witChk_spec c04S2_chk
  have hm := c04K2mid_chk
  simp only [Bool.and_eq_true, Bool.not_eq_true', decide_eq_true_eq] at hm
  obtain ⟨⟨⟨⟨⟨⟨⟨_, m1⟩, m2⟩, m3⟩, m4⟩, m5⟩, m6⟩, m7⟩ := hm
  have ht := c04S2_tier
  simp only [Bool.and_eq_true, decide_eq_true_eq] at ht
  obtain ⟨⟨⟨⟨⟨t1, t2⟩, t3⟩, t4⟩, t5⟩, t6⟩ := ht
  obtain ⟨p1, hp1, hk1⟩ := witHasTag_spec t1
  refine ⟨c04K2mid, c04S2, c04K2mid_run, rfl, c04K2mid_reach, m1, m2, m3, m4, m5, witHasTag_spec m6, ?_,
    c04W2_hyps, C04_hyps_concl _ _ c04W2_hyps, ⟨p1, hp1, hk1⟩, witHasTag_spec t2, ?_, t3, t4, t5, t6,
    h.2.2.2.1, h.2.2.2.2.1, h.2.2.2.2.2.1⟩
  · rintro ⟨p, hp, hk⟩
    have : witHasTag c04K2mid.st "cold2hot" = true := by
      simp only [witHasTag, List.any_eq_true, beq_iff_eq]
      exact ⟨p, hp, hk⟩
    rw [m7] at this; cases this
  · intro hn
    exact (hn p1 hp1).1 hk1

/-! ### (3) a finished run with the batch algorithm -/

theorem c04W3_hyps : C04Hyps c04W3 c04S3 :=
  ⟨c04W3_wf, c04W3_buf, c04W3_size, c04S3_reach, (witChk_spec c04S3_chk).1, (witChk_spec c04S3_chk).2.1,
    c04W3_rate, c04W3_alg⟩

/-- `c04W3` (`c04W1` with BatchProcessing, one partition).  `kmid`: the simulator after every event
before t = 5: the machine is reserved for the observation (and idle, between the two workflow
tasks), nothing is available.  `s`: the same run continued to t = 8: all hypotheses of the
terminal-state theorems hold, hence their conclusions; the reservation is gone and the machine is
available again. -/
theorem C04_witness_batch :
    ∃ (kmid : SimState) (s : Sys), SimRun {} c04W3 kmid ∧
      s = (SimState.runUntil {} (8 : Nat) 200 kmid).st ∧
      c04W3.alg = .batch 1 1 none ∧
      -- in the middle
      ReachOk c04W3 kmid.st ∧ kmid.st.crashed = none ∧ kmid.st.isFinished = false ∧
      kmid.st.cl.idle = [(0, [0])] ∧ kmid.st.cl.available = [] ∧
      -- at the end
      C04Hyps c04W3 s ∧ C04Concl c04W3 s ∧ s.cl.idle = [] ∧ s.cl.available = [0] ∧
      s.obs.map (·.id) = [0] ∧
      s.tasks.map (fun r => (r.id, r.status)) =
        [(.ingest 0 0, .finished), (.wf 0 1 0, .finished), (.wf 0 1 1, .finished)] ∧
      s.starts = [.ingest 0 0, .wf 0 1 0, .wf 0 1 1] := by
  have h := witChk_spec c04S3_chk
  have hm := c04K3mid_chk
  simp only [Bool.and_eq_true, Bool.not_eq_true', decide_eq_true_eq] at hm
  obtain ⟨⟨⟨⟨_, m1⟩, m2⟩, m3⟩, m4⟩ := hm
  exact ⟨c04K3mid, c04S3, c04K3mid_run, rfl, rfl, c04K3mid_reach, m1, m4, m2, m3,
    c04W3_hyps, C04_hyps_concl _ _ c04W3_hyps, h.2.2.2.2.2.2, c04S3_avail,
    h.2.2.2.1, h.2.2.2.2.1, h.2.2.2.2.2.1⟩

end Sys
end Topsim
