/-
  C15 — the delay model only lengthens, deterministically, and is reported.
  (Selection logic of `generate_delay`; numpy's draws are parameters.)
  The "never fails" clause is FALSE of the code for 'poisson'/'uniform' (known finding K4): the full
  statement is kept below next to its proved negation and the proved partial.
-/
import TopsimProofs.DelayLemmas

namespace Topsim

/-- a returned duration is never below the runtime -/
theorem C15_ge (r : Nat) (dz : Bool) (dist : Dist) (p u : Rat) (s : List Rat) (v : Int)
    (h : generateDelay r dz dist p u s = .ok v) : (r : Int) ≤ v :=
  delay_ge r dz dist p u s v h

/-- degree 'none' : unchanged -/
theorem C15_none (r : Nat) (dist : Dist) (p u : Rat) (s : List Rat) :
    generateDelay r true dist p u s = .ok r := by
  simp [generateDelay]

/-- probability zero : unchanged (the uniform draw is in [0,1)) -/
theorem C15_prob_zero (r : Nat) (dz : Bool) (dist : Dist) (u : Rat) (s : List Rat) (hu : 0 ≤ u) :
    generateDelay r dz dist 0 u s = .ok r :=
  delay_prob_zero r dz dist u s hu

/-- identical arguments (seed ⇒ identical draws) give identical results -/
theorem C15_function (r : Nat) (dz : Bool) (dist : Dist) (p u : Rat) (s s' : List Rat) (h : s = s') :
    generateDelay r dz dist p u s = generateDelay r dz dist p u s' := by
  subst h; rfl

/-- FULL STATEMENT (false of the code, K4): the delay model never fails. -/
def C15_never_fails_statement : Prop :=
  ∀ (r : Nat) (dz : Bool) (dist : Dist) (p u : Rat) (s : List Rat),
    0 ≤ u → u < 1 → s.length = 100 → ∃ v, generateDelay r dz dist p u s = .ok v

/-- …its negation, with concrete witnesses: any firing 'poisson'/'uniform'. -/
theorem C15_never_fails_neg : ¬ C15_never_fails_statement :=
  delay_never_fails_neg

/-- runtime 0 under 'normal' (sigma = 0: every sample equals the mean) — and any
run in which no sample lies above the mean — returns the runtime unchanged
(F11 repair; before it this raised IndexError) -/
theorem C15_no_sample_above (r : Nat) (dz : Bool) (p u : Rat) (s : List Rat)
    (h : ∀ x ∈ s, x ≤ (r : Rat)) : generateDelay r dz .normal p u s = .ok r :=
  delay_no_sample_above r dz p u s h

theorem C15_runtime_zero_example :
    generateDelay 0 false .normal 1 0 (List.replicate 100 0) = .ok 0 := by
  decide

theorem C15_neg_poisson (r : Nat) (p u : Rat) (s : List Rat) (h : u < p) :
    generateDelay r false .poisson p u s = .error .type := by
  simp [generateDelay, h]

theorem C15_neg_uniform (r : Nat) (p u : Rat) (s : List Rat) (h : u < p) :
    generateDelay r false .uniform p u s = .error .type := by
  simp [generateDelay, h]

/-- what does hold: 'normal' never fails (after the F11 repair) -/
theorem C15_never_fails_partial (r : Nat) (dz : Bool) (p u : Rat) (s : List Rat) :
    ∃ v, generateDelay r dz .normal p u s = .ok v :=
  delay_normal_ok r dz p u s

-- non-vacuity
-- CORRECTED (numbers only): the samples above the mean 10 are [12, 27/2, 11] (order kept, as
-- numpy's `s[s > mu]`), the middle one is var[int(3/2)] = var[1] = 27/2 and int(13.5) = 13, not 12
-- (`#eval generateDelay 10 false .normal (1/2) (1/4) [8, 12, 27/2, 9, 11]` gives `Except.ok 13`).
example : generateDelay 10 false .normal (1/2) (1/4) [8, 12, (27 : Rat)/2, 9, 11] = .ok 13 := by
  decide +kernel

end Topsim
