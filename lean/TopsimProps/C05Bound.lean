/-
  C05, the numeric clause — "runs to completion … within the serial bound: latest planned start plus the
  sum of all observation durations, buffer-tier transfer times, task runtimes on the slowest machine,
  transfer waits and a constant per-step latency each" — for QueueProcessing (BatchPlanning) on the
  deterministic simulator (L3, SimPy's own (time, priority, insertion id) order), with NO delay model
  (`env.delayTable = []`, `env.delayScript = []`: `SimEnv.oracle` then hands `do_work` the nominal
  duration of every task, `env_rel_nodelay`).

  Vocabulary.
  * `ilSimSteps env n (SimState.start s0)` (= `simAt env s0 n`): the kernel state after `n` kernel
    steps (`Environment.step()`) from `Simulation.start()`.
  * `C05_clock env s0 n`: SimPy's `env.now` in that state — the time of the event popped by the `n`-th
    step, 0 before the first step (`C05_clock_zero`, `C05_clock_succ`).  `Time` is `Rat` (a transfer
    wait is `volume / bandwidth` in true division).
  * `Sys.serialBound s0` (TopsimModel/Feasible.lean, `c = 3`): the serial bound.
  * hypotheses: those of `C05_terminates_queue_simpy_noH2` (TopsimProps/C05Live.lean).

  What is proved.
  (1) `C05_bound_queue_simpy` — THE TARGET: there is `n` such that the state after `n` kernel steps is
      at `is_finished()`, nothing has raised, the run up to there is one uninterrupted `env.run`, and
      its clock is `≤ Sys.serialBound s0`.  `C05_bound_queue_statement` is the statement as a `Prop`,
      `C05_bound_queue_statement_holds` says it holds: no counterexample exists under these hypotheses
      (the executable model was also run on some 700 random and adversarial feasible configurations
      before proving it: every run satisfied the invariant of the proof at every kernel step).
  (2) `C05_bound_queue_sharp_simpy` — the same with the smaller number
      `latest + Σ_obs (duration + 3 + Σ_nodes (max 1 runtime_on_slowest + ⌈max transfer / slowest bw⌉ + 1))`
      (`boundLatest s0 + boundVTotal s0`): the tier-transfer terms of the serial bound are not needed
      (no tiering under H1) and the latency per task is 1, not 3.

  (3) the timed stage lemmas the proof is made of: `C05_bound_invariant_simpy` (the accounting
      invariant), `C05_worker_deadline_simpy` (every live worker ends by `latest + V - 1`),
      `C05_poller_unit_simpy` (every polling loop is due at a whole instant at most one unit after the
      clock), `C05_idle_admitted_finished_simpy`, `C05_idle_enabled_simpy`, `C05_idle_stage_simpy`.

  Not proved here: the bound for the other three algorithms, for a delay model (then the task terms
  would have to be the delayed runtimes), and the form "number of `env.run(now + 1)` rounds of
  `runToCompletion` ≤ serialBound" (that count is the clock of (1) rounded up + 1 at most; (2) leaves
  the room — 2 per task — whenever there is at least one task).

  How (TopsimProofs/Bound1 … Bound10).  Accounting over the monotone stage predicates of the liveness
  proof: `V` = weight of the stages that have happened (admission of `o`: `o.duration + 1`; hand-over:
  1; removal: 1; start of a workflow task: occupancy on the slowest machine + largest transfer wait
  + 1).  Invariant at every index before `is_finished()`:  clock < latest ∨ clock + debt ≤ latest + V,
  `debt` = 1 in an idle state (no worker process alive) in which no enabled poller is still due at the
  current instant.  An admission / a task start pre-pays the whole life of the worker processes it
  creates (timed liveness: Bound5 ingest side, Bound6 workflow side); in an idle state a poller
  (telescope, scheduler loop, `allocate_tasks`) is enabled (Bound7) and its next block — at most one
  time unit later (Bound3) — makes a stage happen; an idle instant is paid by the removal or the worker
  end that happened in it.
-/
import TopsimProofs.Bound10

namespace Topsim

open KState Sys

/-- SimPy's `env.now` after `n` kernel steps: the time of the last event popped (0 at the start) -/
def C05_clock (env : SimEnv) (s0 : Sys) (n : Nat) : Time := boundClock env s0 n

theorem C05_clock_zero (env : SimEnv) (s0 : Sys) : C05_clock env s0 0 = 0 := rfl

/-- the clock after `n + 1` steps is the time of the entry the `(n+1)`-th step popped -/
theorem C05_clock_succ (env : SimEnv) (s0 : Sys) (n : Nat) {e : HEntry}
    (h : (ilSimSteps env n (SimState.start s0)).peek = some e) : C05_clock env s0 (n + 1) = e.time := by
  rw [← simAt_eq_ilSimSteps] at h
  exact bound_wk_tau h

/-- **`C05_bound_queue_simpy`** — THE TARGET.  Queue algorithm, batch planning, well-formed feasible
configuration, initially empty full-free buffer, H1 (`NoTierCfg`), H4 (`IsTopo`), no delay model:
after some number `n` of kernel steps the run is at `is_finished()`, nothing has raised, and the
simulated clock is within the serial bound. -/
theorem C05_bound_queue_simpy (env : SimEnv) (s0 : Sys) (hw : Sys.WFConfig s0)
    (hfe : Sys.Feasible s0)
    (hb0 : s0.buf.hot.stored = [] ∧ s0.buf.hot.scheduled = [] ∧ s0.buf.hot.finished = [] ∧
      s0.buf.cold.stored = [])
    (hfull : s0.buf.size = [] ∧ s0.buf.hot.cur = s0.buf.hot.total ∧ s0.buf.cold.cur = s0.buf.cold.total)
    (hct : s0.buf.cold.transfer = none) (hh0 : s0.halted = false)
    (hH1 : Sys.NoTierCfg s0) (halg : s0.alg = .queue)
    (hstat : s0.staticPlan = false) (htopo : ∀ o ∈ s0.obs, IsTopo o.wf)
    (hd1 : env.delayTable = []) (hd2 : env.delayScript = []) :
    ∃ n, (ilSimSteps env n (SimState.start s0)).st.isFinished = true ∧
      (ilSimSteps env n (SimState.start s0)).st.crashed = none ∧
      SimRun env s0 (ilSimSteps env n (SimState.start s0)) ∧
      C05_clock env s0 n ≤ ((Sys.serialBound s0 : Nat) : Time) := by
  obtain ⟨n, h1, h2, h3, h4⟩ :=
    bound_queue_clock (env := env) ⟨hw, hfe, hb0, hfull, hct, hH1, halg, hstat, htopo, hh0⟩ hd1 hd2
  rw [simAt_eq_ilSimSteps] at h1 h2 h3
  exact ⟨n, h1, h2, h3, h4⟩

/-- the statement of the numeric clause for the queue algorithm on the simulator, as a `Prop` -/
def C05_bound_queue_statement : Prop :=
  ∀ (env : SimEnv) (s0 : Sys), Sys.WFConfig s0 → Sys.Feasible s0 →
    (s0.buf.hot.stored = [] ∧ s0.buf.hot.scheduled = [] ∧ s0.buf.hot.finished = [] ∧
      s0.buf.cold.stored = []) →
    (s0.buf.size = [] ∧ s0.buf.hot.cur = s0.buf.hot.total ∧ s0.buf.cold.cur = s0.buf.cold.total) →
    s0.buf.cold.transfer = none → s0.halted = false → Sys.NoTierCfg s0 → s0.alg = .queue →
    s0.staticPlan = false → (∀ o ∈ s0.obs, IsTopo o.wf) → env.delayTable = [] → env.delayScript = [] →
    ∃ n, (ilSimSteps env n (SimState.start s0)).st.isFinished = true ∧
      (ilSimSteps env n (SimState.start s0)).st.crashed = none ∧
      C05_clock env s0 n ≤ ((Sys.serialBound s0 : Nat) : Time)

/-- the numeric clause holds as stated (constant latency `c = 3`): there is no counterexample -/
theorem C05_bound_queue_statement_holds : C05_bound_queue_statement := by
  intro env s0 hw hfe hb0 hfull hct hh0 hH1 halg hstat htopo hd1 hd2
  obtain ⟨n, h1, h2, _, h4⟩ :=
    C05_bound_queue_simpy env s0 hw hfe hb0 hfull hct hh0 hH1 halg hstat htopo hd1 hd2
  exact ⟨n, h1, h2, h4⟩

/-- the sharper number: latest planned start + per observation (duration + 3) + per workflow node
(occupancy on the slowest machine + largest transfer wait rounded up + 1) -/
def C05_sharpBound (s0 : Sys) : Nat := boundLatest s0 + boundVTotal s0

/-- the sharper number is within the serial bound (for topologically listed workflows) -/
theorem C05_sharpBound_le_serialBound (s0 : Sys) (htopo : ∀ o ∈ s0.obs, IsTopo o.wf) :
    C05_sharpBound s0 ≤ Sys.serialBound s0 :=
  bound_total_le_serial s0 htopo

/-- **The bound with the smaller constants**: no tier-transfer terms, latency 1 per task, 3 per
observation. -/
theorem C05_bound_queue_sharp_simpy (env : SimEnv) (s0 : Sys) (hw : Sys.WFConfig s0)
    (hfe : Sys.Feasible s0)
    (hb0 : s0.buf.hot.stored = [] ∧ s0.buf.hot.scheduled = [] ∧ s0.buf.hot.finished = [] ∧
      s0.buf.cold.stored = [])
    (hfull : s0.buf.size = [] ∧ s0.buf.hot.cur = s0.buf.hot.total ∧ s0.buf.cold.cur = s0.buf.cold.total)
    (hct : s0.buf.cold.transfer = none) (hh0 : s0.halted = false)
    (hH1 : Sys.NoTierCfg s0) (halg : s0.alg = .queue)
    (hstat : s0.staticPlan = false) (htopo : ∀ o ∈ s0.obs, IsTopo o.wf)
    (hd1 : env.delayTable = []) (hd2 : env.delayScript = []) :
    ∃ n, (ilSimSteps env n (SimState.start s0)).st.isFinished = true ∧
      (ilSimSteps env n (SimState.start s0)).st.crashed = none ∧
      SimRun env s0 (ilSimSteps env n (SimState.start s0)) ∧
      C05_clock env s0 n ≤ ((C05_sharpBound s0 : Nat) : Time) := by
  obtain ⟨n, h1, h2, h3, h4⟩ :=
    bound_queue_clock_sharp (env := env) ⟨hw, hfe, hb0, hfull, hct, hH1, halg, hstat, htopo, hh0⟩ hd1 hd2
  rw [simAt_eq_ilSimSteps] at h1 h2 h3
  exact ⟨n, h1, h2, h3, h4⟩

/-! ### the timed stage lemmas (trajectory level; `LiveCfg` = the hypotheses above with "no block
raises", which `C05_no_raise_queue_simpy_noH2` provides) -/

section
variable {env : SimEnv} {s0 : Sys}

/-- **The accounting invariant.**  At every index up to which the run is not at `is_finished()` the
time of the next event is within `latest + V`, `V` the weight of the stages that have happened
(`boundV`: admission `duration + 1`, hand-over 1, removal 1, task start `boundWAT`). -/
theorem C05_bound_invariant_simpy (C : LiveCfg env s0) (hh0 : s0.halted = false)
    (hd1 : env.delayTable = []) (hd2 : env.delayScript = []) (n : Nat)
    (hnf : ∀ j, j ≤ n → (simAt env s0 j).st.isFinished = false) :
    boundTau env s0 n ≤ ((boundLatest s0 + boundV s0 (simAt env s0 n).st : Nat) : Time) :=
  (bound_inv_all C (liveKernel C hh0) (boundParts C (liveKernel C hh0) hd1 hd2) n hnf).le

/-- **Timed liveness of the workers.**  Before `is_finished()`, every live worker process — ingest
supervisor, provisioning, ingest stream, allocation process (`allocate_task_to_cluster`), task body
(`do_work`) — is due, and so ends, by `latest + V - 1`: an admission pre-pays `duration + 1`, a task
start its occupancy on the slowest machine + its largest transfer wait + 1. -/
theorem C05_worker_deadline_simpy (C : LiveCfg env s0) (hh0 : s0.halted = false)
    (hd1 : env.delayTable = []) (hd2 : env.delayScript = []) (n : Nat)
    (hnf : ∀ j, j < n → (simAt env s0 j).st.isFinished = false)
    {q : Proc} (hq : q ∈ (simAt env s0 n).st.procs) (ha : q.alive = true) (hw : q.BoundWorker) :
    q.wake + 1 ≤ ((boundLatest s0 + boundV s0 (simAt env s0 n).st : Nat) : Time) :=
  (boundParts C (liveKernel C hh0) hd1 hd2).tl n
    (fun j hj => (bound_inv_all C (liveKernel C hh0) (boundParts C (liveKernel C hh0) hd1 hd2) j
      (fun i hi => hnf i (by omega))).le) q hq ha hw

/-- **The polling loops poll every time unit.**  After a block at time `t`, every live process other
than a task body is due at a whole instant `m ≤ t + 1`. -/
theorem C05_poller_unit_simpy (C : LiveCfg env s0) (hh0 : s0.halted = false) (n : Nat)
    {q : Proc} (hq : q ∈ (simAt env s0 (n + 1)).st.procs) (ha : q.alive = true)
    (hk : q.k.tag ≠ "doWork") :
    ∃ m : Nat, q.wake = ((m : Nat) : Time) ∧ ((m : Nat) : Time) ≤ boundTau env s0 n + 1 :=
  bound_wake_nat C (liveKernel C hh0) n q hq ha hk

/-- **With no worker process alive, every admitted observation is FINISHED** (at a single index; the
liveness proof had this only in the limit). -/
theorem C05_idle_admitted_finished_simpy (C : LiveCfg env s0) (hh0 : s0.halted = false) (n : Nat)
    (hq : (simAt env s0 n).st.NoWorker) :
    ∀ ob ∈ (simAt env s0 n).st.obs, ob.ast ≠ none → ob.status = .finished :=
  bound_id_fin C (liveKernel C hh0) n hq

/-- **An idle state that is not at `is_finished()` has an enabled poller**: the telescope with an
observation still to admit, the scheduler loop with something stored, or an `allocate_tasks` process
whose observation is not removed yet. -/
theorem C05_idle_enabled_simpy (C : LiveCfg env s0) (hh0 : s0.halted = false) (n : Nat)
    (hq : (simAt env s0 n).st.NoWorker) (hnf : (simAt env s0 n).st.isFinished = false) :
    ∃ p ∈ (simAt env s0 n).st.procs, (simAt env s0 n).st.BoundEn p :=
  bound_idle_enabled C (liveKernel C hh0) n hq hnf

/-- **… and its next block, if the state is idle then and the latest planned start has passed, makes
a stage happen** (an admission, a hand-over, a removal or a task start: the weight grows). -/
theorem C05_idle_stage_simpy (C : LiveCfg env s0) (hh0 : s0.halted = false) (n : Nat)
    {e : HEntry} {p : Proc}
    (hpk : (simAt env s0 n).peek = some e) (hpp : (simAt env s0 n).st.proc? e.pid = some p)
    (hen : (simAt env s0 n).st.BoundEn p) (hq : (simAt env s0 n).st.NoWorker)
    (hdue : ((boundLatest s0 : Nat) : Time) ≤ p.wake) :
    boundV s0 (simAt env s0 n).st < boundV s0 (simAt env s0 (n + 1)).st :=
  bound_enabled_fires C (liveKernel C hh0) n hpk hpp hen hq hdue

end

/-! ### the hypotheses are satisfiable -/

/-- the hypotheses of the two theorems hold of configuration `c04W1` (TopsimProofs/Witness1.lean: one
machine, one observation with the chain workflow `0 → 1`) with the empty environment (no delay table,
no delay script) -/
example : Sys.WFConfig c04W1 ∧ Sys.Feasible c04W1 ∧
    (c04W1.buf.hot.stored = [] ∧ c04W1.buf.hot.scheduled = [] ∧ c04W1.buf.hot.finished = [] ∧
      c04W1.buf.cold.stored = []) ∧
    (c04W1.buf.size = [] ∧ c04W1.buf.hot.cur = c04W1.buf.hot.total ∧
      c04W1.buf.cold.cur = c04W1.buf.cold.total) ∧
    c04W1.buf.cold.transfer = none ∧ c04W1.halted = false ∧
    Sys.NoTierCfg c04W1 ∧ c04W1.alg = .queue ∧ c04W1.staticPlan = false ∧
    (∀ o ∈ c04W1.obs, IsTopo o.wf) ∧
    ({} : SimEnv).delayTable = [] ∧ ({} : SimEnv).delayScript = [] := by
  refine ⟨c04W1_wf, by simp [Sys.Feasible, c04W1, c04Obs1, Buffer.init], ⟨rfl, rfl, rfl, rfl⟩,
    ⟨rfl, rfl, rfl⟩, rfl, rfl, by unfold Sys.NoTierCfg; decide, rfl, rfl, ?_, rfl, rfl⟩
  intro o ho
  simp only [c04W1, List.mem_cons, List.not_mem_nil, or_false] at ho
  subst ho
  exact ⟨by decide, by intro n; simp [c04Obs1], by decide⟩

/-- the two numbers on that configuration (its run is at `is_finished()` before t = 8:
`c04S1`, TopsimProofs/Witness1.lean) -/
example : Sys.serialBound c04W1 = 15 ∧ C05_sharpBound c04W1 = 9 := by decide

end Topsim
