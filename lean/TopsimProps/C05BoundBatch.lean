/-
  C05, the numeric clause — "runs to completion … within the serial bound" — for BatchProcessing
  (`alg = .batch parts minPer split`, BatchPlanning) on the deterministic simulator (L3, SimPy's own
  (time, priority, insertion id) order), with NO delay model (`env.delayTable = []`,
  `env.delayScript = []`).  The counterpart of TopsimProps/C05Bound.lean (QueueProcessing); the
  vocabulary (`C05_clock`, `Sys.serialBound`, `C05_sharpBound`) is the one defined there, the hypotheses
  are those of `C05_terminates_batch_simpy_noH2` (TopsimProps/C05LiveBatch.lean).

  BatchProcessing differs from QueueProcessing in that a workflow first obtains a reservation of
  machines (`_provision_resources`), its tasks run on reserved machines only, a refused request is
  repeated every time unit, and the reservation is released when the workflow ends.  The statement was
  TESTED before it was proved: the executable model was run to `is_finished()` on ≈ 7 500 random and
  adversarial feasible configurations (1–4 machines, 1–6 observations with equal / non-chronological
  starts competing for 1–3 partitions, with and without per-observation split, every admissible
  `min_resources_per_workflow`, chains / fan-outs / fan-ins / dense DAGs); on ≈ 4 500 of them the
  invariant of the proof was checked at every kernel step.  NO configuration exceeded the serial bound,
  none exceeded the sharper number of the queue algorithm: there is no counterexample, and the per-stage
  latencies are the same as for QueueProcessing.

  What is proved.
  (1) `C05_bound_batch_simpy` — THE TARGET: there is `n` such that the state after `n` kernel steps is at
      `is_finished()`, nothing has raised, the run up to there is one uninterrupted `env.run`, and its
      clock is `≤ Sys.serialBound s0`.  `C05_bound_batch_statement` is the statement as a `Prop`,
      `C05_bound_batch_statement_holds` says it holds (no `C05_bound_batch_counterexample…` exists).
  (2) `C05_bound_batch_sharp_simpy` — the same with the smaller number `C05_sharpBound s0` =
      `latest + Σ_obs (duration + 3 + Σ_nodes (max 1 runtime_on_slowest + ⌈max transfer / slowest bw⌉ + 1))`:
      the reservation stage costs NO extra latency (the request is granted, and the first task is
      started, in the block of `allocate_tasks` that finds the machines; while a request is refused some
      other stage is in progress or a holder of a reservation is about to make one happen).
  (3) the timed stage lemmas: `C05_bound_invariant_batch_simpy` (the accounting invariant),
      `C05_worker_deadline_batch_simpy`, `C05_poller_unit_batch_simpy`,
      `C05_idle_admitted_finished_batch_simpy`, `C05_idle_enabled_batch_simpy` (an idle state that is not
      at `is_finished()` has an ENABLED poller: the telescope / an `allocate_tasks` process without
      reservation count only when no reservation exists), `C05_idle_stage_batch_simpy`,
      `C05_idle_reservations_kept_batch_simpy`, `C05_reservation_request_granted_batch_simpy`.

  How (TopsimProofs/BoundB1 … BoundB7).  The accounting of Bound1–10 with the SAME weights; the
  algorithm-independent parts (weights, arithmetic, the invariant `BoundTw` of the workflow-task workers
  and its step lemma, the ingest-side invariant) are reused, the lemmas along the run are re-proved for
  `LiveCfgB`, and the idle-state lemmas are new (BoundB5).
-/
import TopsimProofs.BoundB7
import TopsimProps.C05Bound
import TopsimProps.C05LiveBatch

namespace Topsim

open KState Sys

/-- **`C05_bound_batch_simpy`** — THE TARGET.  BatchProcessing, batch planning, well-formed feasible
configuration (`hmin` for a split), initially empty full-free buffer, H1 (`NoTierCfg`), H4 (`IsTopo`),
no delay model: after some number `n` of kernel steps the run is at `is_finished()`, nothing has
raised, and the simulated clock is within the serial bound. -/
theorem C05_bound_batch_simpy (env : SimEnv) (s0 : Sys) (hw : Sys.WFConfig s0)
    (hfe : Sys.Feasible s0)
    (hb0 : s0.buf.hot.stored = [] ∧ s0.buf.hot.scheduled = [] ∧ s0.buf.hot.finished = [] ∧
      s0.buf.cold.stored = [])
    (hfull : s0.buf.size = [] ∧ s0.buf.hot.cur = s0.buf.hot.total ∧ s0.buf.cold.cur = s0.buf.cold.total)
    (hct : s0.buf.cold.transfer = none) (hh0 : s0.halted = false)
    (hH1 : Sys.NoTierCfg s0)
    {parts minPer : Nat} {split : Option (List (Oid × Nat × Nat))}
    (halg : s0.alg = .batch parts minPer split)
    (hmin : ∀ sp, split = some sp → minPer ≤ s0.machines.length)
    (hstat : s0.staticPlan = false) (htopo : ∀ o ∈ s0.obs, IsTopo o.wf)
    (hd1 : env.delayTable = []) (hd2 : env.delayScript = []) :
    ∃ n, (ilSimSteps env n (SimState.start s0)).st.isFinished = true ∧
      (ilSimSteps env n (SimState.start s0)).st.crashed = none ∧
      SimRun env s0 (ilSimSteps env n (SimState.start s0)) ∧
      C05_clock env s0 n ≤ ((Sys.serialBound s0 : Nat) : Time) := by
  obtain ⟨n, h1, h2, h3, h4⟩ :=
    boundB_batch_clock (env := env)
      ⟨hw, hfe, hb0, hfull, hct, hH1, ⟨parts, minPer, split, halg⟩, hstat, htopo, hh0,
        Sys.batchMinOk_of halg hmin⟩ hd1 hd2
  rw [simAt_eq_ilSimSteps] at h1 h2 h3
  exact ⟨n, h1, h2, h3, h4⟩

/-- the statement of the numeric clause for BatchProcessing on the simulator, as a `Prop` -/
def C05_bound_batch_statement : Prop :=
  ∀ (env : SimEnv) (s0 : Sys), Sys.WFConfig s0 → Sys.Feasible s0 →
    (s0.buf.hot.stored = [] ∧ s0.buf.hot.scheduled = [] ∧ s0.buf.hot.finished = [] ∧
      s0.buf.cold.stored = []) →
    (s0.buf.size = [] ∧ s0.buf.hot.cur = s0.buf.hot.total ∧ s0.buf.cold.cur = s0.buf.cold.total) →
    s0.buf.cold.transfer = none → s0.halted = false → Sys.NoTierCfg s0 →
    ∀ (parts minPer : Nat) (split : Option (List (Oid × Nat × Nat))),
    s0.alg = .batch parts minPer split → (∀ sp, split = some sp → minPer ≤ s0.machines.length) →
    s0.staticPlan = false → (∀ o ∈ s0.obs, IsTopo o.wf) → env.delayTable = [] → env.delayScript = [] →
    ∃ n, (ilSimSteps env n (SimState.start s0)).st.isFinished = true ∧
      (ilSimSteps env n (SimState.start s0)).st.crashed = none ∧
      C05_clock env s0 n ≤ ((Sys.serialBound s0 : Nat) : Time)

/-- the numeric clause holds as stated (constant latency `c = 3`) for BatchProcessing: there is no
counterexample -/
theorem C05_bound_batch_statement_holds : C05_bound_batch_statement := by
  intro env s0 hw hfe hb0 hfull hct hh0 hH1 parts minPer split halg hmin hstat htopo hd1 hd2
  obtain ⟨n, h1, h2, _, h4⟩ :=
    C05_bound_batch_simpy env s0 hw hfe hb0 hfull hct hh0 hH1 halg hmin hstat htopo hd1 hd2
  exact ⟨n, h1, h2, h4⟩

/-- **The bound with the smaller constants**, BatchProcessing: no tier-transfer terms, latency 1 per
task, 3 per observation — the number of the queue algorithm; the reservation stage adds nothing. -/
theorem C05_bound_batch_sharp_simpy (env : SimEnv) (s0 : Sys) (hw : Sys.WFConfig s0)
    (hfe : Sys.Feasible s0)
    (hb0 : s0.buf.hot.stored = [] ∧ s0.buf.hot.scheduled = [] ∧ s0.buf.hot.finished = [] ∧
      s0.buf.cold.stored = [])
    (hfull : s0.buf.size = [] ∧ s0.buf.hot.cur = s0.buf.hot.total ∧ s0.buf.cold.cur = s0.buf.cold.total)
    (hct : s0.buf.cold.transfer = none) (hh0 : s0.halted = false)
    (hH1 : Sys.NoTierCfg s0)
    {parts minPer : Nat} {split : Option (List (Oid × Nat × Nat))}
    (halg : s0.alg = .batch parts minPer split)
    (hmin : ∀ sp, split = some sp → minPer ≤ s0.machines.length)
    (hstat : s0.staticPlan = false) (htopo : ∀ o ∈ s0.obs, IsTopo o.wf)
    (hd1 : env.delayTable = []) (hd2 : env.delayScript = []) :
    ∃ n, (ilSimSteps env n (SimState.start s0)).st.isFinished = true ∧
      (ilSimSteps env n (SimState.start s0)).st.crashed = none ∧
      SimRun env s0 (ilSimSteps env n (SimState.start s0)) ∧
      C05_clock env s0 n ≤ ((C05_sharpBound s0 : Nat) : Time) := by
  obtain ⟨n, h1, h2, h3, h4⟩ :=
    boundB_batch_clock_sharp (env := env)
      ⟨hw, hfe, hb0, hfull, hct, hH1, ⟨parts, minPer, split, halg⟩, hstat, htopo, hh0,
        Sys.batchMinOk_of halg hmin⟩ hd1 hd2
  rw [simAt_eq_ilSimSteps] at h1 h2 h3
  exact ⟨n, h1, h2, h3, h4⟩

/-! ### the timed stage lemmas (trajectory level; `LiveCfgB` = the hypotheses above with "no block
raises", which `C05_no_raise_batch_simpy_noH2` provides) -/

section
variable {env : SimEnv} {s0 : Sys}

/-- **The accounting invariant**, BatchProcessing.  At every index up to which the run is not at
`is_finished()` the time of the next event is within `latest + V`, `V` the weight of the stages that
have happened (`boundV`: admission `duration + 1`, hand-over 1, removal 1, task start `boundWAT` —
the weights of the queue algorithm; obtaining, being refused or releasing a reservation weighs
nothing). -/
theorem C05_bound_invariant_batch_simpy (C : LiveCfgB env s0) (hh0 : s0.halted = false)
    (hd1 : env.delayTable = []) (hd2 : env.delayScript = []) (n : Nat)
    (hnf : ∀ j, j ≤ n → (simAt env s0 j).st.isFinished = false) :
    boundTau env s0 n ≤ ((boundLatest s0 + boundV s0 (simAt env s0 n).st : Nat) : Time) :=
  (boundB_inv_all C (liveKernel_B C hh0) (boundB_parts C (liveKernel_B C hh0) hd1 hd2) n hnf).le

/-- **Timed liveness of the workers**, BatchProcessing.  Before `is_finished()`, every live worker
process — ingest supervisor, provisioning, ingest stream, allocation process
(`allocate_task_to_cluster`), task body (`do_work`) — is due, and so ends, by `latest + V - 1`: a task
started on a machine of its reservation is pre-paid like a task of the queue algorithm. -/
theorem C05_worker_deadline_batch_simpy (C : LiveCfgB env s0) (hh0 : s0.halted = false)
    (hd1 : env.delayTable = []) (hd2 : env.delayScript = []) (n : Nat)
    (hnf : ∀ j, j < n → (simAt env s0 j).st.isFinished = false)
    {q : Proc} (hq : q ∈ (simAt env s0 n).st.procs) (ha : q.alive = true) (hw : q.BoundWorker) :
    q.wake + 1 ≤ ((boundLatest s0 + boundV s0 (simAt env s0 n).st : Nat) : Time) :=
  (boundB_parts C (liveKernel_B C hh0) hd1 hd2).tl n
    (fun j hj => (boundB_inv_all C (liveKernel_B C hh0) (boundB_parts C (liveKernel_B C hh0) hd1 hd2) j
      (fun i hi => hnf i (by omega))).le) q hq ha hw

/-- **The polling loops poll every time unit** (in particular a refused request for a reservation is
repeated one time unit later).  After a block at time `t`, every live process other than a task body
is due at a whole instant `m ≤ t + 1`. -/
theorem C05_poller_unit_batch_simpy (C : LiveCfgB env s0) (hh0 : s0.halted = false) (n : Nat)
    {q : Proc} (hq : q ∈ (simAt env s0 (n + 1)).st.procs) (ha : q.alive = true)
    (hk : q.k.tag ≠ "doWork") :
    ∃ m : Nat, q.wake = ((m : Nat) : Time) ∧ ((m : Nat) : Time) ≤ boundTau env s0 n + 1 :=
  boundB_wake_nat C (liveKernel_B C hh0) n q hq ha hk

/-- **With no worker process alive, every admitted observation is FINISHED.** -/
theorem C05_idle_admitted_finished_batch_simpy (C : LiveCfgB env s0) (hh0 : s0.halted = false) (n : Nat)
    (hq : (simAt env s0 n).st.NoWorker) :
    ∀ ob ∈ (simAt env s0 n).st.obs, ob.ast ≠ none → ob.status = .finished :=
  boundB_id_fin C (liveKernel_B C hh0) n hq

/-- **An idle state that is not at `is_finished()` has an enabled poller** (`Sys.BoundBEn`): the
scheduler loop with something stored; or an `allocate_tasks` process whose observation is not removed
and HOLDS a reservation; or, when NO reservation exists, the telescope with an observation not yet
admitted or any `allocate_tasks` process whose observation is not removed. -/
theorem C05_idle_enabled_batch_simpy (C : LiveCfgB env s0) (hh0 : s0.halted = false) (n : Nat)
    (hq : (simAt env s0 n).st.NoWorker) (hnf : (simAt env s0 n).st.isFinished = false) :
    ∃ p ∈ (simAt env s0 n).st.procs, (simAt env s0 n).st.BoundBEn p :=
  boundB_idle_enabled C (liveKernel_B C hh0) n hq hnf

/-- **… and its next block, if the state is idle then and the latest planned start has passed, makes
a stage happen** (an admission, a hand-over, a removal or a task start: the weight grows). -/
theorem C05_idle_stage_batch_simpy (C : LiveCfgB env s0) (hh0 : s0.halted = false) (n : Nat)
    {e : HEntry} {p : Proc}
    (hpk : (simAt env s0 n).peek = some e) (hpp : (simAt env s0 n).st.proc? e.pid = some p)
    (hen : (simAt env s0 n).st.BoundBEn p) (hq : (simAt env s0 n).st.NoWorker)
    (hdue : ((boundLatest s0 : Nat) : Time) ≤ p.wake) :
    boundV s0 (simAt env s0 n).st < boundV s0 (simAt env s0 (n + 1)).st :=
  boundB_enabled_fires C (liveKernel_B C hh0) n hpk hpp hen hq hdue

/-- **The reservation stage costs no latency.**  In an idle state the block of a running
`allocate_tasks` process whose observation holds a reservation — or when no reservation exists at all:
the request is then granted in this very block — removes the observation or starts a task of its
workflow (creates the allocation process of a node that had none). -/
theorem C05_reservation_request_granted_batch_simpy (C : LiveCfgB env s0) (hh0 : s0.halted = false)
    (n : Nat) {e : HEntry} {p : Proc}
    (hpk : (simAt env s0 n).peek = some e) (hpp : (simAt env s0 n).st.proc? e.pid = some p)
    (ha : p.alive = true) (hq : (simAt env s0 n).st.NoWorker)
    {o : Oid} {sc pa : List (Tid × Mid)} {po : List Tid} (hk : p.k = .allocTasks o sc pa po false)
    (hres : (simAt env s0 n).st.cl.idle = [] ∨ (simAt env s0 n).st.cl.isProvisioned o = true) :
    o ∈ (simAt env s0 (n + 1)).st.buf.hot.finished ∨
    (∃ ob ∈ s0.obs, ob.id = o ∧ ∃ node ∈ ob.wf.topo,
      ¬ Sys.PAT o node (simAt env s0 n).st ∧ Sys.PAT o node (simAt env s0 (n + 1)).st) :=
  boundB_ats_fires C (liveKernel_B C hh0) n hpk hpp ha hq hk hres

/-- **In an idle state, a block in which no stage happens leaves the reservations as they are** (a
refused request, a telescope pass that admits nothing, …): a poller that was enabled stays enabled. -/
theorem C05_idle_reservations_kept_batch_simpy (C : LiveCfgB env s0) (hh0 : s0.halted = false) (n : Nat)
    (hq : (simAt env s0 n).st.NoWorker)
    (hV : boundV s0 (simAt env s0 (n + 1)).st = boundV s0 (simAt env s0 n).st) :
    (simAt env s0 (n + 1)).st.cl.idle = (simAt env s0 n).st.cl.idle :=
  boundB_idle_keep C (liveKernel_B C hh0) n hq hV

end

/-! ### the hypotheses are satisfiable -/

/-- the hypotheses of the theorems hold of configuration `boundB_wit` (TopsimProofs/BoundB7.lean: three
machines; 2 partitions, minimum 1, split {0: (1, 2), 1: (1, 1), 2: (1, 1)}; three observations listed
non-chronologically, two with equal starts, competing for the partitions; chain, fan-out and one-node
workflows) with the empty environment -/
example : Sys.WFConfig boundB_wit ∧ Sys.Feasible boundB_wit ∧
    (boundB_wit.buf.hot.stored = [] ∧ boundB_wit.buf.hot.scheduled = [] ∧ boundB_wit.buf.hot.finished = [] ∧
      boundB_wit.buf.cold.stored = []) ∧
    (boundB_wit.buf.size = [] ∧ boundB_wit.buf.hot.cur = boundB_wit.buf.hot.total ∧
      boundB_wit.buf.cold.cur = boundB_wit.buf.cold.total) ∧
    boundB_wit.buf.cold.transfer = none ∧ boundB_wit.halted = false ∧
    Sys.NoTierCfg boundB_wit ∧
    boundB_wit.alg = .batch 2 1 (some [(0, 1, 2), (1, 1, 1), (2, 1, 1)]) ∧
    (∀ sp, some [(0, 1, 2), (1, 1, 1), (2, 1, 1)] = some sp → 1 ≤ boundB_wit.machines.length) ∧
    boundB_wit.staticPlan = false ∧ (∀ o ∈ boundB_wit.obs, IsTopo o.wf) ∧
    ({} : SimEnv).delayTable = [] ∧ ({} : SimEnv).delayScript = [] :=
  ⟨boundB_wit_wf, boundB_wit_feasible, ⟨rfl, rfl, rfl, rfl⟩, ⟨rfl, rfl, rfl⟩, rfl, rfl, boundB_wit_h1, rfl,
    fun _ _ => by decide, rfl, boundB_wit_topo, rfl, rfl⟩

/-- the run of that configuration, evaluated: at `is_finished()` after 154 kernel steps (not before),
nothing raised, no reservation left, clock 12 — within the sharper number 47 and the serial bound 67 -/
example : (ilSimSteps {} 154 (SimState.start boundB_wit)).st.isFinished = true ∧
    (ilSimSteps {} 154 (SimState.start boundB_wit)).st.crashed = none ∧
    (ilSimSteps {} 153 (SimState.start boundB_wit)).st.isFinished = false ∧
    C05_clock {} boundB_wit 154 = 12 ∧ C05_sharpBound boundB_wit = 47 ∧
    Sys.serialBound boundB_wit = 67 := by
  obtain ⟨h1, h2, _, h4, h5⟩ := boundB_witK_spec
  refine ⟨h1, h2, h4, ?_, boundB_wit_numbers.2, boundB_wit_numbers.1⟩
  cases hp : (ilSimSteps {} 153 (SimState.start boundB_wit)).peek with
  | none => rw [hp] at h5; cases h5
  | some e =>
    rw [hp] at h5
    rw [C05_clock_succ {} boundB_wit 153 hp]
    exact Option.some.inj h5

end Topsim
