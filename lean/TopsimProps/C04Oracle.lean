/-
  C04, the adversarial clause of the terminal state — "the run returns only in a quiescent state:
  … NO RESERVATION HELD, ALL MACHINES AVAILABLE", for a USER-DEFINED scheduling algorithm
  (`alg = .oracle`) that reserves machines itself (`provision_batch_resources`) and leaves the
  clean-up to the scheduler (`release_batch_resources(observation.name)` in the `allocate_tasks`
  block that finds the workflow finished and removes the observation from buffer and queue).

  WHAT IS TRUE IN THE MODEL.
  * In `allocTasksIter` the algorithm runs BEFORE the scheduler's release: a reservation made in
    the very block that finds the workflow finished is released in that block.  The release is on
    the only path on which the observation leaves the queue (`buf.remove` succeeded); after it the
    process has `fin = true` and never calls the algorithm again.  On the paths without release
    (no plan, the algorithm raises, `_process_current_schedule` raises, `buf.remove` refuses) the
    observation STAYS in the queue, so `is_finished()` never holds afterwards: crashed runs need
    not be excluded.  (The remaining path of the code — removed from the buffer but "not in the
    queue", ValueError — is unreachable: a live `allocate_tasks` has its observation in the queue.)
  * Unrestricted, the clause is FALSE, in two ways (machine-checked runs below):
    (L1) `C04_oracle_reservation_leak_witness`: the algorithm reserves under the name of an
         observation that has already been removed — nobody releases that name any more;
    (L2) `C04_oracle_reservation_leak_witness_foreign_task`: the algorithm reserves under the name
         of the observation it is scheduling (allowed), but puts a task of ANOTHER workflow on the
         reserved machine; when its own (empty) workflow is finished the scheduler's
         `release_batch_resources` finds an empty idle list and keeps the key
         (`if l ≠ []` in `Cluster.releaseBatch`), and the foreign task later gives the machine
         back INTO that reservation.
  * Under the side condition `ResOrAdv` below, which excludes exactly these two, it is TRUE:
    `C04_no_reservation_at_finish_oracle`, `C04_finished_machines_back_oracle`.

  THE SIDE CONDITION, as a restricted reachability relation `ReachResvAdv` in the style of `ReachOk`
  (`ResOrAdv`, TopsimProofs/ResOr13.lean): in every `allocate_tasks` block (process `pid`, observation
  `oid`, not yet finished) run while the algorithm is the oracle,
    (a) every cluster call the algorithm makes itself is `provision_batch_resources(size, o)` with
        `o ∈ s.queue` — an observation whose workflow is being scheduled at that moment; the
        block's own observation `oid` always is (`ReachResvOwn`, the narrower relation with
        `o = oid` only, implies it) — or `release_batch_resources(o)`, any `o`;
    (b) its proposals are ARBITRARY (task id, machine id) pairs — tasks that are scheduled, running
        or finished, ingest tasks, tasks of other workflows; machines that are occupied, ingesting,
        reserved for another observation, or no machine at all — except that a proposed task that is
        still UNSCHEDULED (the only kind `_process_current_schedule` ever starts) is a task of the
        plan of `oid`.
  Nothing is asked of the oracle inputs of other blocks (delays, static plans).  (a) excludes (L1),
  (b) excludes (L2).  `ReachResv` (`ResOrOk`, ResOr1.lean) is the stronger form of (b) "every proposed
  task is an UNSCHEDULED task of the plan of `oid`"; it implies `ReachResvAdv`.  For runs that reach
  `is_finished()` the two forms of (b) say the same (a proposal that is not UNSCHEDULED is never
  taken off the local schedule: the block skips it or raises, and the observation never leaves the
  queue — run `resOrSA` below); the weaker form matters for the invariant
  `C04_oracle_reservations_in_queue`, which holds at every point of every run.

  NOT PROVED: (a) with "`o` is an observation of the plan that has not been removed yet" (also one
  that is not in the queue yet) in place of `o ∈ s.queue`.  The invariant used here ("every
  reservation is under the name of an observation in the queue") is false then; the clause would
  need "every observation has been removed at `is_finished()`", which holds only for non-crashed
  runs under the extra hypotheses of `C04_all_workflow_tasks_ran`.
-/
import TopsimProps.C04
import TopsimProofs.ResOr14

namespace Topsim
namespace Sys

/-! ### the clause, for a user algorithm under `ResOrAdv` -/

/-- (6) for a user algorithm: a finished simulation holds no reservation — the scheduler's own
`release_batch_resources` has cleaned up after the algorithm.  Any order of the blocks inside an
instant, any delays, crashed or not. -/
theorem C04_no_reservation_at_finish_oracle (s0 s : Sys) (hw : WFConfig s0)
    (hb0 : s0.buf.hot.stored = [] ∧ s0.buf.hot.scheduled = [] ∧ s0.buf.hot.finished = [] ∧
      s0.buf.cold.stored = [])
    (ha : s0.alg = .oracle) (h : ReachResvAdv s0 s) (hf : s.isFinished = true) : s.cl.idle = [] := by
  have hbuf : bufList s0.buf = [] := by
    obtain ⟨h1, h2, h3, h4⟩ := hb0
    simp [bufList, h1, h2, h3, h4]
  exact resOr_finished_no_reservation_adv s0 s hw hbuf ha h hf

/-- (3)+(6) for a user algorithm: every machine is back in the available pool at the end. -/
theorem C04_finished_machines_back_oracle (s0 s : Sys) (hw : WFConfig s0)
    (hb0 : s0.buf.hot.stored = [] ∧ s0.buf.hot.scheduled = [] ∧ s0.buf.hot.finished = [] ∧
      s0.buf.cold.stored = [])
    (ha : s0.alg = .oracle) (h : ReachResvAdv s0 s) (hf : s.isFinished = true) :
    s.cl.available.Perm (s0.machines.map (·.id)) :=
  C04_finished_machines_back s0 s hw h.toOk hf (C04_no_reservation_at_finish_oracle s0 s hw hb0 ha h hf)

/-- the invariant behind it, at every point of every run (crashed or not, finished or not): a
reservation exists only under the name of an observation that is still in the scheduler's queue -/
theorem C04_oracle_reservations_in_queue (s0 s : Sys) (hw : WFConfig s0)
    (hb0 : s0.buf.hot.stored = [] ∧ s0.buf.hot.scheduled = [] ∧ s0.buf.hot.finished = [] ∧
      s0.buf.cold.stored = [])
    (ha : s0.alg = .oracle) (h : ReachResvAdv s0 s) : ∀ o ∈ dictKeys s.cl.idle, o ∈ s.queue := by
  have hbuf : bufList s0.buf = [] := by
    obtain ⟨h1, h2, h3, h4⟩ := hb0
    simp [bufList, h1, h2, h3, h4]
  exact resOr_keys_in_queue_adv s0 s hw hbuf ha h

/-- the narrower side condition: every reservation of the algorithm is `provision_batch_resources`
under the name of the observation whose workflow the block is scheduling, and every proposed task is
an UNSCHEDULED task of that workflow (`ResOrOwn`) -/
theorem C04_no_reservation_at_finish_oracle_own (s0 s : Sys) (hw : WFConfig s0)
    (hb0 : s0.buf.hot.stored = [] ∧ s0.buf.hot.scheduled = [] ∧ s0.buf.hot.finished = [] ∧
      s0.buf.cold.stored = [])
    (ha : s0.alg = .oracle) (h : ReachResvOwn s0 s) (hf : s.isFinished = true) : s.cl.idle = [] := by
  have hbuf : bufList s0.buf = [] := by
    obtain ⟨h1, h2, h3, h4⟩ := hb0
    simp [bufList, h1, h2, h3, h4]
  exact C04_no_reservation_at_finish_oracle s0 s hw hb0 ha (h.toResv hw hbuf).toAdv hf

theorem C04_finished_machines_back_oracle_own (s0 s : Sys) (hw : WFConfig s0)
    (hb0 : s0.buf.hot.stored = [] ∧ s0.buf.hot.scheduled = [] ∧ s0.buf.hot.finished = [] ∧
      s0.buf.cold.stored = [])
    (ha : s0.alg = .oracle) (h : ReachResvOwn s0 s) (hf : s.isFinished = true) :
    s.cl.available.Perm (s0.machines.map (·.id)) := by
  have hbuf : bufList s0.buf = [] := by
    obtain ⟨h1, h2, h3, h4⟩ := hb0
    simp [bufList, h1, h2, h3, h4]
  exact C04_finished_machines_back_oracle s0 s hw hb0 ha (h.toResv hw hbuf).toAdv hf

/-- shipped and adversarial algorithms in one statement (for a shipped algorithm `ReachResvAdv` is
plain `Reach`: the side condition is only read when `alg = .oracle`) -/
theorem C04_no_reservation_at_finish_any (s0 s : Sys) (hw : WFConfig s0)
    (hb0 : s0.buf.hot.stored = [] ∧ s0.buf.hot.scheduled = [] ∧ s0.buf.hot.finished = [] ∧
      s0.buf.cold.stored = [])
    (h : ReachResvAdv s0 s) (hf : s.isFinished = true) :
    s.cl.idle = [] ∧ s.cl.available.Perm (s0.machines.map (·.id)) := by
  by_cases ha : s0.alg = .oracle
  · exact ⟨C04_no_reservation_at_finish_oracle s0 s hw hb0 ha h hf,
      C04_finished_machines_back_oracle s0 s hw hb0 ha h hf⟩
  · exact ⟨C04_no_reservation_at_finish s0 s hw hb0 ha h.toReach hf,
      C04_finished_machines_back_shipped s0 s hw hb0 ha h.toReach hf⟩

/-! ### without the side condition the clause is false -/

/-- the clause with `ReachOk` only (the algorithm's own calls are batch reservation calls, nothing
more), non-crashed runs -/
def C04_no_reservation_at_finish_oracle_statement : Prop :=
  ∀ (s0 s : Sys), WFConfig s0 →
    (s0.buf.hot.stored = [] ∧ s0.buf.hot.scheduled = [] ∧ s0.buf.hot.finished = [] ∧ s0.buf.cold.stored = []) →
    s0.alg = .oracle → ReachOk s0 s → s.isFinished = true → s.crashed = none → s.cl.idle = []

/-- (L1) `resOrWL1`: two machines, two observations 0 and 1 with empty workflows, a user algorithm.
The run `resOrSchedL1` (the blocks of every instant in order of process id; the listed process ids
with the oracle input of each block — `resOrQuiet`: the empty input):
observation 1 is planned at t = 1 and removed in the first block of its `allocate_tasks` (process
15); observation 0 is planned at t = 2, and in the first block of ITS `allocate_tasks` (process 16,
the last block of the list) the algorithm calls `provision_batch_resources(1, obs 1)` and proposes
nothing.  The run has not raised, `is_finished()` holds, machine 0 is still reserved under the name
of observation 1 and only machine 1 is available.  The algorithm made no proposal at all. -/
theorem C04_oracle_reservation_leak_witness :
    WFConfig resOrWL1 ∧
    (resOrWL1.buf.hot.stored = [] ∧ resOrWL1.buf.hot.scheduled = [] ∧ resOrWL1.buf.hot.finished = [] ∧
      resOrWL1.buf.cold.stored = []) ∧
    resOrWL1.alg = .oracle ∧ resOrSL1 = resOrRun resOrSchedL1 resOrWL1.start ∧
    resOrSchedL1 = resOrQuiet [0, 1, 2, 3, 4, 5, 6, 7, 8, 9, 10, 11, 12, 13, 13, 14, 14,
                               0, 1, 2, 3, 4, 5, 6, 7, 9, 11, 12, 15, 0, 1, 2, 3, 4, 15] ++
                   [(16, { pre := [.provBatch 1 1] })] ∧
    ReachOk resOrWL1 resOrSL1 ∧ resOrSL1.isFinished = true ∧ resOrSL1.crashed = none ∧
    resOrSL1.buf.hot.finished = [1, 0] ∧ resOrSL1.queue = [] ∧
    resOrSL1.cl.idle = [(1, [0])] ∧ resOrSL1.cl.available = [1] ∧
    ¬ resOrSL1.cl.available.Perm (resOrWL1.machines.map (·.id)) := by
  refine ⟨resOrWL1_wf, resOrWL1_buf, rfl, rfl, rfl, resOrSL1_reach, resOrSL1_final.1,
    resOrSL1_final.2.1, resOrSL1_final.2.2.2.2.2, resOrSL1_final.2.2.2.2.1, resOrSL1_final.2.2.1,
    resOrSL1_final.2.2.2.1, ?_⟩
  rw [resOrSL1_final.2.2.2.1]
  intro hp
  have := hp.length_eq
  simp [resOrWL1] at this

/-- (L2) `resOrWL2`: as above, but the workflow of observation 1 is one task `.wf 1 1 0` of three
units of work.  Observation 1 is planned at t = 1 (`allocate_tasks` 15; the algorithm proposes
nothing for it), observation 0 (empty workflow) at t = 2; in the first block of ITS `allocate_tasks`
(process 16) the algorithm calls `provision_batch_resources(1, obs 0)` — its own observation, in
the queue: part (a) of the side condition holds at every block of this run — and proposes the task
`.wf 1 1 0` of observation 1 on the reserved machine 0 (part (b) fails: the plan of observation 0 is
empty).  At t = 3 the scheduler's release finds the idle list of `obs 0` empty and keeps the key;
at t = 5 the task gives machine 0 back into that reservation.  No raise, `is_finished()` holds,
every task FINISHED, machine 0 is still reserved under the name of observation 0. -/
theorem C04_oracle_reservation_leak_witness_foreign_task :
    WFConfig resOrWL2 ∧
    (resOrWL2.buf.hot.stored = [] ∧ resOrWL2.buf.hot.scheduled = [] ∧ resOrWL2.buf.hot.finished = [] ∧
      resOrWL2.buf.cold.stored = []) ∧
    resOrWL2.alg = .oracle ∧ resOrSL2 = resOrRun (resOrSchedL2a ++ resOrSchedL2b) resOrWL2.start ∧
    resOrSchedL2a ++ resOrSchedL2b =
      (resOrQuiet [0, 1, 2, 3, 4, 5, 6, 7, 8, 9, 10, 11, 12, 13, 13, 14, 14,
                   0, 1, 2, 3, 4, 5, 6, 7, 9, 11, 12, 15, 0, 1, 2, 3, 4, 15] ++
       [(16, { pre := [.provBatch 1 0], proposals := [(.wf 1 1 0, 0)] })]) ++
      resOrQuiet [17, 18, 0, 2, 3, 4, 15, 16, 17, 0, 2, 3, 4, 15, 16, 17, 18, 0, 2, 3, 4, 15, 17,
                  0, 2, 3, 4, 15] ∧
    -- the state in which that block runs: process 16 is the `allocate_tasks` of observation 0 before
    -- its first block, observation 0 is in the queue, its plan is empty
    ((resOrRun resOrSchedL2a.dropLast resOrWL2.start).queue = [1, 0] ∧
     ((resOrRun resOrSchedL2a.dropLast resOrWL2.start).proc? 16).map (fun p => (p.k.tag, p.pc, p.alive))
       = some ("allocTasks", 0, true) ∧
     planTasks (resOrRun resOrSchedL2a.dropLast resOrWL2.start) 0 = [] ∧
     planTasks (resOrRun resOrSchedL2a.dropLast resOrWL2.start) 1 = [.wf 1 1 0]) ∧
    ReachOk resOrWL2 resOrSL2 ∧ resOrSL2.isFinished = true ∧ resOrSL2.crashed = none ∧
    resOrSL2.tasks.map (fun r => (r.id, r.status)) =
      [(.ingest 0 0, .finished), (.ingest 1 0, .finished), (.wf 1 1 0, .finished)] ∧
    resOrSL2.cl.idle = [(0, [0])] ∧ resOrSL2.cl.available = [1] := by
  refine ⟨resOrWL2_wf, resOrWL2_buf, rfl, ?_, rfl, resOrSL2_pre_ok, resOrSL2_reach,
    resOrSL2_final.1, resOrSL2_final.2.1, resOrSL2_final.2.2.2.2.2.2, resOrSL2_final.2.2.1,
    resOrSL2_final.2.2.2.1⟩
  have : ∀ (a b : List (Nat × Oracle)) (s : Sys), resOrRun (a ++ b) s = resOrRun b (resOrRun a s) := by
    intro a
    induction a with
    | nil => intro b s; rfl
    | cons x r ih => intro b s; obtain ⟨pid, orc⟩ := x; exact ih b _
  rw [this]; rfl

theorem C04_no_reservation_at_finish_oracle_statement_false :
    ¬ C04_no_reservation_at_finish_oracle_statement := by
  intro hall
  have h := hall resOrWL1 resOrSL1 resOrWL1_wf resOrWL1_buf rfl resOrSL1_reach resOrSL1_final.1
    resOrSL1_final.2.1
  rw [resOrSL1_final.2.2.1] at h
  exact absurd h (by simp)

/-! ### the hypotheses are satisfiable, and not only by runs without reservations -/

/-- `resOrWN`: two machines, one observation whose workflow is one task, a user algorithm.  In the
first block of `allocate_tasks` (t = 1) the algorithm reserves one machine under the observation's
name and proposes the task on it: in the middle of the run (`resOrSNmid`) machine 1 is reserved
(`idle = [(0, [1])]`), the observation is in the queue, nothing is finished.  The run continues
(the task takes machine 1 out of the reservation, runs, gives it back into the reservation) to
`is_finished()` (`resOrSN`): the whole run keeps to `ResOrOk`, hence to `ResOrAdv`, so the theorems apply — no
reservation, both machines available; the workflow task was started and is FINISHED. -/
example :
    ∃ smid s : Sys, WFConfig resOrWN ∧ resOrWN.alg = .oracle ∧
      ReachResv resOrWN smid ∧ smid.crashed = none ∧ smid.isFinished = false ∧
      smid.cl.idle = [(0, [1])] ∧ smid.cl.available = [0] ∧ smid.queue = [0] ∧
      ReachResv resOrWN s ∧ s = resOrRun resOrSchedN2 smid ∧ s.isFinished = true ∧ s.crashed = none ∧
      s.cl.idle = [] ∧ s.cl.available.Perm [0, 1] ∧
      s.tasks.map (fun r => (r.id, r.status)) = [(.ingest 0 0, .finished), (.wf 0 1 0, .finished)] ∧
      s.starts = [.ingest 0 0, .wf 0 1 0] :=
  ⟨resOrSNmid, resOrSN, resOrWN_wf, rfl, resOrSNmid_reach, resOrSNmid_final.1, resOrSNmid_final.2.1,
    resOrSNmid_final.2.2.2.1, resOrSNmid_final.2.2.2.2, resOrSNmid_final.2.2.1,
    resOrSN_reach, rfl, resOrSN_final.1, resOrSN_final.2.1,
    C04_no_reservation_at_finish_oracle resOrWN resOrSN resOrWN_wf resOrWN_buf rfl resOrSN_reach.toAdv resOrSN_final.1,
    C04_finished_machines_back_oracle resOrWN resOrSN resOrWN_wf resOrWN_buf rfl resOrSN_reach.toAdv resOrSN_final.1,
    resOrSN_final.2.2.2.2.1, resOrSN_final.2.2.2.2.2⟩

/-- the same run also keeps to the narrower `ResOrOwn` wording: its only reservation call is under
the name of the observation of the block that makes it -/
example :
    resOrSchedN1 ++ resOrSchedN2 =
      (resOrQuiet [0, 1, 2, 3, 4, 5, 6, 7, 8, 9, 9, 0, 1, 2, 3, 4, 5, 6, 8] ++
       [(10, { pre := [.provBatch 1 0], proposals := [(.wf 0 1 0, 1)] })]) ++
      resOrQuiet [11, 12, 12, 0, 1, 2, 3, 4, 10, 11, 0, 2, 3, 4, 10] ∧
    ((resOrRun resOrSchedN1.dropLast resOrWN.start).proc? 10).map (fun p => (p.k.tag, p.pc, p.alive))
      = some ("allocTasks", 0, true) ∧
    (resOrRun resOrSchedN1.dropLast resOrWN.start).queue = [0] :=
  ⟨rfl, by decide +kernel⟩

/-- adversarial proposals: `resOrWN` again; after the reservation and the start of the task
(`resOrSNmid`), at t = 2, the algorithm proposes the RUNNING task once more on the occupied machine
(run `resOrSchedA`).  The run keeps to `ResOrAdv` and not to `ResOrOk`; at t = 3
`_process_current_schedule` raises RuntimeError, `allocate_tasks` is dead, the observation stays in the
queue and the run never reaches `is_finished()`; the reservation is still there, under the name of
an observation in the queue (`C04_oracle_reservations_in_queue`). -/
example :
    ReachResvAdv resOrWN resOrSA ∧ resOrSA = resOrRun resOrSchedA resOrSNmid ∧
    resOrCheck resOrSchedA resOrSNmid = false ∧
    resOrSA.crashed = some .runtime ∧ resOrSA.isFinished = false ∧
    resOrSA.cl.idle = [(0, [1])] ∧ resOrSA.queue = [0] ∧
    (∀ o ∈ dictKeys resOrSA.cl.idle, o ∈ resOrSA.queue) :=
  ⟨resOrSA_reach, rfl, resOrSchedA_not_ok, resOrSA_final.1, resOrSA_final.2.1, resOrSA_final.2.2.2.1,
    resOrSA_final.2.2.1,
    C04_oracle_reservations_in_queue resOrWN resOrSA resOrWN_wf resOrWN_buf rfl resOrSA_reach⟩

/-! ### simulator runs (L3) -/

/-- Along the runs of the deterministic simulator.  `SimEnv` (delay table / delay script / static
plans) has no field for the inputs of a user algorithm: the simulator's oracle always has
`pre = []` and `proposals = []`, so the side condition cannot be violated there — and cannot be
exercised either: with `alg = .oracle` the simulator models a user algorithm that never reserves
and never proposes.  The corollary is stated for completeness; the block-level theorems above are
the ones that quantify over the algorithm's behaviour. -/
theorem C04_machines_back_oracle_simpy (env : SimEnv) (s0 : Sys) (hw : WFConfig s0)
    (hb0 : s0.buf.hot.stored = [] ∧ s0.buf.hot.scheduled = [] ∧ s0.buf.hot.finished = [] ∧
      s0.buf.cold.stored = [])
    (k : SimState) (h : SimRun env s0 k) (hf : k.st.isFinished = true) :
    k.st.cl.idle = [] ∧ k.st.cl.available.Perm (s0.machines.map (·.id)) :=
  resOr_l3_transfer env s0 hw
    (fun s => s.isFinished = true → s.cl.idle = [] ∧ s.cl.available.Perm (s0.machines.map (·.id)))
    (fun s hs hf => C04_no_reservation_at_finish_any s0 s hw hb0 hs.toAdv hf) (by intro _ h; exact h) k h hf

theorem C04_no_reservation_at_finish_oracle_simpy (env : SimEnv) (s0 : Sys) (hw : WFConfig s0)
    (hb0 : s0.buf.hot.stored = [] ∧ s0.buf.hot.scheduled = [] ∧ s0.buf.hot.finished = [] ∧
      s0.buf.cold.stored = [])
    (_ha : s0.alg = .oracle) (k : SimState) (h : SimRun env s0 k) (hf : k.st.isFinished = true) :
    k.st.cl.idle = [] :=
  (C04_machines_back_oracle_simpy env s0 hw hb0 k h hf).1

theorem C04_finished_machines_back_oracle_simpy (env : SimEnv) (s0 : Sys) (hw : WFConfig s0)
    (hb0 : s0.buf.hot.stored = [] ∧ s0.buf.hot.scheduled = [] ∧ s0.buf.hot.finished = [] ∧
      s0.buf.cold.stored = [])
    (_ha : s0.alg = .oracle) (k : SimState) (h : SimRun env s0 k) (hf : k.st.isFinished = true) :
    k.st.cl.available.Perm (s0.machines.map (·.id)) :=
  (C04_machines_back_oracle_simpy env s0 hw hb0 k h hf).2

end Sys
end Topsim
