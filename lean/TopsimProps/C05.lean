/-
  C05 — every feasible configuration terminates (no deadlock, no starvation).

  The FULL statement is kept below.  It is FALSE of the code (known finding
  K1: tiering above the 0.6 threshold; K2: two admissions in one step, is
  repaired by F14 — `C05_old_double_admission` keeps the old test,
  `C05_double_admission_refused` states the repair) — the
  negation is proved with concrete witnesses, also replayed on the
  implementation.  What is proved (`…_partial`) removes, one by one, the
  blocking mechanisms the property names: the ingest reservation is exact and
  returned, an enabled admission happens, ingest / tasks / tier moves end after
  their stated number of steps, the shipped algorithms make progress whenever a
  ready task and an eligible machine exist, and a finished workflow releases
  everything in one block.  The composition of these into the numeric bound for
  arbitrary DAGs is not proved (it is evaluated on every generated feasible
  configuration by the L3 simulator and the real code).
-/
import TopsimProofs.C05Lemmas

namespace Topsim
namespace Sys

/-- FULL STATEMENT: a feasible, well-formed configuration runs to completion
without raising, within the serial bound (SimPy order, any delay table that
only lengthens). -/
def C05_terminates_statement : Prop :=
  ∀ (s0 : Sys) (env : SimEnv), WFConfig s0 → Feasible s0 →
    ∃ steps fuel, steps ≤ serialBound s0 ∧
      (SimState.runToCompletion env fuel (steps + 1) 0 (SimState.start s0)).1.st.isFinished = true ∧
      (SimState.runToCompletion env fuel (steps + 1) 0 (SimState.start s0)).1.st.crashed = none

/-- K1a: a hot buffer filled beyond its tiering threshold while nothing is
*stored* makes the buffer loop index an empty list (IndexError). -/
theorem C05_neg_tiering_crash :
    let b : Buffer := { (Buffer.init 100 10 100 5) with hot := { (Buffer.init 100 10 100 5).hot with cur := 30 } }
    b.loopDecide 7 = .error .index := by
  intro b
  rfl

/-- K1b: an observation tiered to the cold buffer is fetched back only if
`(free + in-flight) / total < 0.6`; with an empty hot buffer that is false, so it
stays in cold for ever and the buffer never reports empty. -/
theorem C05_neg_cold_never_returns (b : Buffer) (now : Nat) (d : Buffer.LoopDecision)
    (hfull : b.hot.cur = b.hot.total) (htot : 0 < b.hot.total) (hd : 0 ≤ b.dltt)
    (h : b.loopDecide now = .ok d) : d.startCold2Hot = false :=
  cold_never_returns b now d hfull htot hd h

/-- K2, the OLD admission test (F14: renamed from `C05_neg_double_admission`; `checkIngestCapacity`
with the default `reserved = 0` is the test as it was before the repair): two observations admitted
in the same telescope block were both checked against the same list of available machines; the
second provisioning raises. -/
theorem C05_old_double_admission :
    let c := Cluster.init [0, 1, 2]
    c.checkIngestCapacity 2 4 = true ∧
    (c.provisionIngest 2 0).2.1 = none ∧
    ((c.provisionIngest 2 0).1.provisionIngest 2 1).2.1 = some Err.runtime := by
  intro c
  decide

/-- F14, the repaired test on the same witness: after the first admission the reservation counter
is 2 while the ingest pool is still empty, so two of the three machines are promised — a second
observation asking for 2 is refused, one asking for 1 is still accepted. -/
theorem C05_double_admission_refused_witness :
    let c := Cluster.init [0, 1, 2]
    c.checkIngestCapacity 2 4 2 = false ∧ c.checkIngestCapacity 1 4 2 = true := by
  intro c
  decide

/-- F14: K2 is closed at the admission test.  After an admission of demand `d₁` that raised the
reservation counter from `prov` to `prov + d₁` (the counter covering the ingest pool: `hp`), a second
check in the same pass (same cluster, `reserved = prov + d₁`) fails whenever the machines available
do not cover both demands. -/
theorem C05_double_admission_refused (c : Cluster) (mx d₁ d₂ : Nat) (prov : Int)
    (hp : (c.ingest.length : Int) ≤ prov) (hd : c.available.length < d₁ + d₂) :
    c.checkIngestCapacity d₂ mx (prov + d₁) = false :=
  double_admission_refused c mx d₁ d₂ prov hp hd

/-- F14, the same at the scheduler's test (`Scheduler.check_ingest_capacity`): after `o₁` is
accepted, the test of `o₂` in the state it returned refuses `o₂` and changes nothing. -/
theorem C05_double_admission_refused_sched (s s1 : Sys) (o1 o2 : Obs)
    (h1 : s.checkIngestCapacity o1 = .ok (s1, true))
    (hp : (s.cl.ingest.length : Int) ≤ s.provIngest)
    (hd : s.cl.available.length < o1.ingestDemand + o2.ingestDemand) :
    s1.cl.checkIngestCapacity o2.ingestDemand s1.maxIngest s1.provIngest = false ∧
    ∀ s2 b, s1.checkIngestCapacity o2 = .ok (s2, b) → b = false ∧ s2 = s1 :=
  double_admission_refused_sys s s1 o1 o2 h1 hp hd

/-- the negation of the full statement (witness: one observation of 8 × 10 on a
hot buffer of 100 — feasible, crashes at t = 7 with IndexError) -/
theorem C05_terminates_neg : ¬ C05_terminates_statement :=
  terminates_neg

/-! ### what does hold -/

/-- the ingest reservation is taken only for an observation that is really
admitted (F4 repair) … -/
theorem C05_reservation_exact_partial (s s' : Sys) (o : Obs) (ok : Bool)
    (h : s.checkIngestCapacity o = .ok (s', ok)) :
    s'.provIngest = s.provIngest + (if ok then (o.ingestDemand : Int) else 0) ∧
    (ok = true → s.provIngest + o.ingestDemand ≤ s.maxIngest) :=
  reservation_exact s s' o ok h

/-- … and returned when the ingest process ends -/
theorem C05_reservation_returned_partial (s : Sys) (now : Time) (oid : Oid) (o : Obs) (tl : Int)
    (ho : s.obs? oid = some o) (hfin : o.status = .finished ∨ (o.status = .running ∧ tl ≤ 0)) :
    (s.allocIngestIter now oid tl).2.2 = .done ∧
    (s.allocIngestIter now oid tl).1.provIngest = s.provIngest - o.ingestDemand :=
  reservation_returned s now oid o tl ho hfin

/-- the ingest counts down one step per block -/
theorem C05_ingest_counts_down_partial (s : Sys) (now : Time) (oid : Oid) (o : Obs) (tl : Int)
    (ho : s.obs? oid = some o) (hr : o.status = .running) (hpos : 0 < tl) :
    s.allocIngestIter now oid tl = (s, .allocIngest oid (tl - 1), .timeout 1) :=
  ingest_counts_down s now oid o tl ho hr hpos

/-- progress of the free-for-all algorithm: with an empty leftover schedule, a
free machine and a ready unscheduled task in the pool, something is proposed -/
theorem C05_queue_progress_partial (cl : Cluster) (plan : Plan) (view : Tid → TaskView)
    (pool : List Tid) (out : AlgOut) (t : Tid)
    (ht : t ∈ plan.tasks) (hp : t ∈ pool) (hu : (view t).status = .unscheduled)
    (hready : Alg.predsFinished cl plan t = true) (hav : cl.available ≠ [])
    (h : Alg.queueRun cl plan view [] pool = .ok out) : out.schedule ≠ [] :=
  queue_progress cl plan view pool out t ht hp hu hready hav h

/-- a workflow whose tasks have all finished releases everything in that block:
buffer space, reservation, queue entry -/
theorem C05_release_on_finish_partial (s : Sys) (now : Time) (orc : Oracle) (oid : Oid)
    (plan : Plan) (pairs : List (Tid × Mid)) (pool : List Tid)
    (hp : s.plan? oid = some plan) (hempty : plan.tasks = [])
    (halg : s.alg = .queue)
    (hsch : oid ∈ s.buf.hot.scheduled) (hq : oid ∈ s.queue) :
    let r := s.allocTasksIter now orc oid [] pairs pool
    r.2.2 = .timeout 1 ∧ r.1.queue = s.queue.erase oid ∧
    r.1.buf.hot.cur = s.buf.hot.cur + s.buf.sizeOf oid ∧
    r.1.cl = (s.cl.releaseBatch oid).releaseBatch oid :=
  release_on_finish s now orc oid plan pairs pool hp hempty halg hsch hq

/-- non-vacuity / evaluation (a TEST, not the unbounded claim): a concrete
feasible two-observation configuration runs to completion in the L3 simulator
within its serial bound -/
theorem C05_example_terminates :
    let wf : Workflow := { nodes := [(0, 20, 0), (1, 10, 0)], edges := [(0, 1, 4)], topo := [0, 1] }
    let s0 : Sys :=
      { machines := [⟨0, 10, 2⟩, ⟨1, 5, 4⟩], totalArrays := 4, maxIngest := 1, alg := .queue,
        cl := Cluster.init [0, 1], buf := Buffer.init 100 10 100 5,
        obs := [{ id := 0, est := 0, duration := 2, demand := 2, rate := 3, ingestDemand := 1, wf := wf },
                { id := 1, est := 1, duration := 2, demand := 2, rate := 2, ingestDemand := 1, wf := wf }] }
    let r := SimState.runToCompletion {} 100000 (serialBound s0 + 1) 0 (SimState.start s0)
    r.1.st.isFinished = true ∧ r.1.st.crashed = none ∧ r.2 ≤ serialBound s0 :=
  example_terminates

end Sys
end Topsim
