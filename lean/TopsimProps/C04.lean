/-
  C04 — the terminal state: a completed run is quiescent and everything ran
  exactly once.
-/
import TopsimProofs.FinishStr4

namespace Topsim
namespace Sys

/-- (1) what `Simulation.is_finished()` says, spelled out -/
theorem C04_finished_quiescent (s : Sys) (hf : s.isFinished = true) :
    (∀ o ∈ s.obs, o.status = .finished) ∧ s.telUse = 0 ∧ s.telStatus = false ∧ s.queue = [] ∧
    s.cl.running = [] ∧ s.cl.occupied = [] ∧ s.cl.ingest = [] ∧
    s.buf.hot.cur = s.buf.hot.total ∧ s.buf.cold.cur = s.buf.cold.total := by
  obtain ⟨hb, hc, hq, ht⟩ := (sim_isFinished_iff s).mp hf
  obtain ⟨h1, h2⟩ := (buffer_isEmpty_iff s.buf).mp hb
  obtain ⟨h3, h4, h5⟩ := (cluster_isIdle_iff s.cl).mp hc
  obtain ⟨h6, h7, h8⟩ := (telescope_isIdle_iff s).mp ht
  exact ⟨h6, h8, h7, hq, h3, h4, h5, h1, h2⟩

/-- (2) at the end no task body is alive and no allocation process is polling
or waiting for its first block -/
theorem C04_finished_no_body (s0 s : Sys) (hw : WFConfig s0) (h : ReachOk s0 s)
    (hf : s.isFinished = true) : s.active = [] ∧ s.cl.runOn = [] ∧ s.cl.pending = [] := by
  have hs := reach_inv s0 s hw h
  obtain ⟨U, hU⟩ := hs.ci
  obtain ⟨_, _, _, _, hr, _, hg, _, _⟩ := C04_finished_quiescent s hf
  have hro : s.cl.runOn = [] := by
    have := hU.inv.runOnTasks
    rw [hr] at this
    exact List.map_eq_nil_iff.mp this
  refine ⟨?_, hro, ?_⟩
  · cases hact : s.active with
    | nil => rfl
    | cons mt rest =>
      obtain ⟨e, he, _⟩ := hs.active_runOn mt (by rw [hact]; simp)
      rw [hro] at he; exact absurd he (by simp)
  · have : s.cl.pending.map (·.mach) = [] := by
      apply list_eq_nil_of_count
      intro m
      have := hU.inv.ingm m
      rw [hg] at this
      simp only [List.count_nil] at this
      omega
    exact List.map_eq_nil_iff.mp this

/-- (3) with no reservation outstanding every machine is back in the available pool -/
theorem C04_finished_machines_back (s0 s : Sys) (hw : WFConfig s0) (h : ReachOk s0 s)
    (hf : s.isFinished = true) (hidle : s.cl.idle = []) :
    s.cl.available.Perm (s0.machines.map (·.id)) := by
  obtain ⟨U, hU⟩ := (reach_inv s0 s hw h).ci
  obtain ⟨_, _, _, _, _, ho, hg, _, _⟩ := C04_finished_quiescent s hf
  have hp := hU.inv.perm
  rw [reach_machines hw h.toReach, ho, hg] at hp
  simpa [Cluster.idleAll, hidle] using hp

/-- (4) in a finished run that did not crash, every ingest task of every observation was
started (exactly once, by `C04_starts_once`) -/
theorem C04_all_ingest_tasks_ran (s0 s : Sys) (hw : WFConfig s0) (h : ReachOk s0 s)
    (hf : s.isFinished = true) (hc : s.crashed = none) :
    ∀ o ∈ s.obs, ∀ i, i < o.ingestDemand → Tid.ingest o.id i ∈ s.starts :=
  finished_ingest_started s0 s hw h hf hc

/-! ### (5) every workflow task ran — statement, and the part that is proved -/

/-- (5), full strength (proved below, `C04_all_workflow_tasks_ran`): in a finished run without
crash, with positive ingest rates, every observation has a plan that has been emptied and every
workflow task record of that observation is FINISHED and was started.  Tier moves included. -/
-- CORRECTED: `hb0` and `hsz0` added (the initial buffer holds no observation and no data, and
-- neither tier starts over-full).  `WFConfig` says nothing about `s0.buf`: an observation stored
-- twice is planned twice (see (6)); and with a tier that starts over-full (`cur > total`) or with
-- recorded sizes, `is_finished()` (free = capacity in both tiers) no longer implies that the data
-- of every observation has been removed: e.g. `cold.cur = cold.total + 5` initially lets an
-- observation of volume 5 sit in the cold tier with `cold.cur = cold.total` at the end.
def C04_all_workflow_tasks_ran_statement : Prop :=
  ∀ (s0 s : Sys), WFConfig s0 →
    (s0.buf.hot.stored = [] ∧ s0.buf.hot.scheduled = [] ∧ s0.buf.hot.finished = [] ∧ s0.buf.cold.stored = []) →
    (s0.buf.size = [] ∧ s0.buf.hot.cur ≤ s0.buf.hot.total ∧ s0.buf.cold.cur ≤ s0.buf.cold.total) →
    ReachOk s0 s → s.isFinished = true → s.crashed = none →
    (∀ o ∈ s0.obs, 0 < o.rate) →
    ∀ o ∈ s.obs, ∃ p, s.plan? o.id = some p ∧ p.tasks = [] ∧
      ∀ r ∈ s.tasks, (∃ c n, r.id = .wf o.id c n) → r.status = .finished ∧ r.id ∈ s.starts

/-- (5) proved, tier moves included.  The two tiers together conserve space along every run that
has not crashed (a tier-move step that does not raise takes from one tier what it gives to the
other); `is_finished()` says both tiers are back at full free capacity, so no observation that
has deposited data is still unremoved; the stream of a FINISHED observation has deposited data;
hence every observation has been removed from the hot buffer, which `allocate_tasks` does only
with an emptied plan.  (A run in which an observation stays in the cold tier for ever — known
finding K1b — never reaches `is_finished()`; the statement says nothing about it.) -/
theorem C04_all_workflow_tasks_ran : C04_all_workflow_tasks_ran_statement := by
  intro s0 s hw hb0 hsz0 h hf hc hrate o ho
  have hbuf : bufList s0.buf = [] := by
    obtain ⟨h1, h2, h3, h4⟩ := hb0
    simp [bufList, h1, h2, h3, h4]
  exact removed_tasks_ran s0 s hw hbuf h hc o.id
    (finished_all_removed2 s0 s hw hbuf hsz0 hrate h hf hc o ho)

/-- (5), earlier partial (superseded by `C04_all_workflow_tasks_ran`; it does not need the bound on the
initial cold tier): the statement above for runs in which no tier-move process (`move_hot_to_cold`,
`move_cold_to_hot`) was ever created (`NoTier s`: the process table, which keeps ended processes,
holds none).  In a finished run without crash, with positive ingest rates, every observation has a
plan that has been emptied and every workflow task record of that observation is FINISHED and was
started (with `C04_starts_once`, exactly once). -/
theorem C04_all_workflow_tasks_ran_partial (s0 s : Sys) (hw : WFConfig s0)
    (hb0 : s0.buf.hot.stored = [] ∧ s0.buf.hot.scheduled = [] ∧ s0.buf.hot.finished = [] ∧
      s0.buf.cold.stored = [])
    (hsz0 : s0.buf.size = [] ∧ s0.buf.hot.cur ≤ s0.buf.hot.total)
    (h : ReachOk s0 s) (hf : s.isFinished = true) (hc : s.crashed = none)
    (hrate : ∀ o ∈ s0.obs, 0 < o.rate) (hnt : NoTier s) :
    ∀ o ∈ s.obs, ∃ p, s.plan? o.id = some p ∧ p.tasks = [] ∧
      ∀ r ∈ s.tasks, (∃ c n, r.id = .wf o.id c n) → r.status = .finished ∧ r.id ∈ s.starts := by
  have hbuf : bufList s0.buf = [] := by
    obtain ⟨h1, h2, h3, h4⟩ := hb0
    simp [bufList, h1, h2, h3, h4]
  intro o ho
  exact removed_tasks_ran s0 s hw hbuf h hc o.id
    (finished_all_removed s0 s hw hbuf hsz0 hrate h hf hc hnt o ho)

/-- (5), partial: along every run that has not crashed (finished or not), whatever the cluster
reports as finished (`Cluster.is_task_finished`, the test the algorithms use on predecessors) has
been started; with `C04_starts_once`, exactly once. -/
theorem C04_finished_tasks_ran_partial (s0 s : Sys) (hw : WFConfig s0) (h : ReachOk s0 s)
    (hc : s.crashed = none) : ∀ t, s.cl.isTaskFinished t = true → t ∈ s.starts := by
  intro t ht
  apply (reach_finv s0 s hw h hc).finRan t
  unfold Cluster.isTaskFinished at ht
  split at ht
  · exact absurd ht (by simp)
  · rename_i b hb; rw [hb, ht]

/-- (5), partial: along every run that has not crashed (finished or not, whatever the oracle
inputs under `preOk`), every observation whose data has been removed from the hot buffer
(`HotBuffer.remove`, the last act of `allocate_tasks`) has a plan that has been emptied, and every
workflow task record of that observation is FINISHED and was started (with `C04_starts_once`,
exactly once). -/
-- CORRECTED: `hb0`, the initial buffer holds no observation, is needed as for (6): an observation
-- stored twice is planned twice, and the second plan replaces the first while records of the first
-- are still unfinished.
theorem C04_removed_workflow_tasks_ran_partial (s0 s : Sys) (hw : WFConfig s0)
    (hb0 : s0.buf.hot.stored = [] ∧ s0.buf.hot.scheduled = [] ∧ s0.buf.hot.finished = [] ∧
      s0.buf.cold.stored = [])
    (h : ReachOk s0 s) (hc : s.crashed = none) :
    ∀ o ∈ s.buf.hot.finished, ∃ p, s.plan? o = some p ∧ p.tasks = [] ∧
      ∀ r ∈ s.tasks, (∃ c n, r.id = .wf o c n) → r.status = .finished ∧ r.id ∈ s.starts := by
  have hbuf : bufList s0.buf = [] := by
    obtain ⟨h1, h2, h3, h4⟩ := hb0
    simp [bufList, h1, h2, h3, h4]
  exact fun o ho => removed_tasks_ran s0 s hw hbuf h hc o ho

/-! ### (6) no reservation left at the end -/

/-- (6), stronger for the queue / dynamic / greedy algorithms: no reservation exists at any
point of any run (finished or not, whatever the oracle inputs, whatever the initial buffer). -/
theorem C04_no_reservation_partial (s0 s : Sys) (hw : WFConfig s0) (h : Reach s0 s)
    (ha : s0.alg = .queue ∨ s0.alg = .dynamic ∨ s0.alg = .greedy) : s.cl.idle = [] :=
  reach_idle_nil hw h ha

/-- (3)+(6): with these algorithms every machine is back in the available pool at the end. -/
theorem C04_finished_machines_back_nobatch (s0 s : Sys) (hw : WFConfig s0) (h : Reach s0 s)
    (ha : s0.alg = .queue ∨ s0.alg = .dynamic ∨ s0.alg = .greedy) (hf : s.isFinished = true) :
    s.cl.available.Perm (s0.machines.map (·.id)) := by
  have hno : s0.alg ≠ .oracle := by
    rcases ha with ha | ha | ha <;> rw [ha] <;> simp
  exact C04_finished_machines_back s0 s hw (h.toOk hno) hf (reach_idle_nil hw h ha)

/-- (6) with a shipped algorithm a finished simulation holds no batch reservation. -/
-- CORRECTED: added `hb0`, the initial buffer holds no observation.  `WFConfig` says nothing about
-- `s0.buf`; the proof needs every observation to be handed to the scheduler at most once
-- (`BufI`: an observation occurs at most once among `hot.stored`, `hot.scheduled`, `hot.finished`,
-- `cold.stored` and the tier moves in flight).  With `s0.buf.hot.stored = [o, o]` the scheduler
-- loop plans `o` twice: the second plan replaces the first while tasks of the first still hold
-- reserved machines; with static plans the second plan may be empty, `allocate_tasks` then
-- releases a reservation whose idle list is empty, `release_batch_resources` keeps the key
-- (`if l ≠ []`), and the key survives `is_finished()`.
theorem C04_no_reservation_at_finish (s0 s : Sys) (hw : WFConfig s0)
    (hb0 : s0.buf.hot.stored = [] ∧ s0.buf.hot.scheduled = [] ∧ s0.buf.hot.finished = [] ∧
      s0.buf.cold.stored = [])
    (ha : s0.alg ≠ .oracle) (h : Reach s0 s) (hf : s.isFinished = true) : s.cl.idle = [] := by
  have hbuf : bufList s0.buf = [] := by
    obtain ⟨h1, h2, h3, h4⟩ := hb0
    simp [bufList, h1, h2, h3, h4]
  cases halg : s0.alg with
  | batch parts minPer split => exact finished_no_reservation_batch s0 s hw hbuf halg h hf
  | queue => exact reach_idle_nil hw h (Or.inl halg)
  | dynamic => exact reach_idle_nil hw h (Or.inr (Or.inl halg))
  | greedy => exact reach_idle_nil hw h (Or.inr (Or.inr halg))
  | oracle => exact absurd halg ha

/-- (3)+(6): with a shipped algorithm every machine is back in the available pool at the end. -/
theorem C04_finished_machines_back_shipped (s0 s : Sys) (hw : WFConfig s0)
    (hb0 : s0.buf.hot.stored = [] ∧ s0.buf.hot.scheduled = [] ∧ s0.buf.hot.finished = [] ∧
      s0.buf.cold.stored = [])
    (ha : s0.alg ≠ .oracle) (h : Reach s0 s) (hf : s.isFinished = true) :
    s.cl.available.Perm (s0.machines.map (·.id)) :=
  C04_finished_machines_back s0 s hw (h.toOk ha) hf (C04_no_reservation_at_finish s0 s hw hb0 ha h hf)

end Sys
end Topsim
