/-
  C15, trajectory clauses — "… a task to which a delay was added is flagged as delayed, and once it
  has completed the scheduler reports its schedule as delayed", over every state a simulation can
  reach.

  Vocabulary.  `s.task? t` is the record of task `t` (the one every block reads); `r.delayFlag`,
  `r.delayOffset` are `Task.delay_flag`, `Task.delay_offset`; `r.eft` the planned finish, `r.aft` the
  recorded finish; `r.allocObj = true` says `Task.update_allocation` has been called on the record
  (`allocated_machine_id` holds a Machine object).  `s.schedDelayed` is
  `scheduler.schedule_status == DELAYED`, `s.delayOffset` is `scheduler.delay_offset` (both are
  written to every row of the monitor's table).  `.doWork t m cross 3 total` in the process table is the
  body of `t` on machine `m` after its last block, `total` what `_calc_task_delay()` returned.
  `planTasks s o` / `pl.tasks` is the pruned task list of the plan of observation `o`.
  `nomOf r mm` is the nominal duration of the body of `r` on machine `mm`: the runtime
  `max (flops / cpu) (data / bandwidth)` of a record with work, the planned duration otherwise.

  Who writes the flag of a task (all three only ever SET it):
    1. the last block of the body, when `total > duration` (`delay_offset += total - duration`);
    2. the last block of the body, when the recorded finish exceeds the planned finish (`aft > eft`);
    3. `Task.update_allocation`, called by `_process_current_schedule` on every task of the local
       schedule whose machine differs from `allocated_machine_id`, when the runtime on the new
       machine exceeds the duration recorded so far (`delay_offset = runtime - duration`).
  Who writes the scheduler's report: `_update_current_plan` (a FINISHED flagged task is removed from
  the plan: DELAYED, `delay_offset += task.delay_offset`) and `_generate_current_schedule` (the
  algorithm returned the plan status DELAYED; only the two plan-following algorithms do).

  What is FALSE as first written: "ingest tasks are never flagged" — an ingest task is created with
  planned finish 0, so clause 2 flags it when it finishes (`C15_ingest_never_flagged_statement_false`);
  and with BatchPlanning every task is created with planned finish 0 and planned duration 0, so EVERY
  finished task is flagged and the schedule is reported DELAYED as soon as the first task leaves its
  plan, whatever the delay model (`C15_batch_planning_all_flagged_traj`, witness `c04S1`: no delay
  at all, every record flagged, `delay_offset = 3`).
-/
import TopsimProofs.DelayTraj10
import TopsimProps.C15
import TopsimProps.C04Table
import TopsimProps.C17Traj
import TopsimProofs.OnTime1

namespace Topsim
namespace Sys

/-! ### (A1) the flag of a task -/

/-- **The delay fields of every record, every reachable state** (any block order, any oracle, crashed
or not).  The offset is never negative; the record is flagged iff an offset has been recorded or its
recorded finish lies after its planned finish; a record that has not finished and on which
`update_allocation` has not been called carries no offset (so is not flagged); so does an unfinished
record without work. -/
theorem C15_flag_record_traj (s0 s : Sys) (hw : WFConfig s0) (h : ReachOk s0 s) :
    ∀ t r, s.task? t = some r →
      0 ≤ r.delayOffset ∧
      (r.delayFlag = true ↔ (0 < r.delayOffset ∨ ∃ f, r.aft = some f ∧ (r.eft : Time) < f)) ∧
      (r.allocObj = false → r.aft = none → r.delayOffset = 0 ∧ r.delayFlag = false) ∧
      (r.flops = 0 → r.data = 0 → r.aft = none → r.delayOffset = 0 ∧ r.delayFlag = false) := by
  intro t r hr
  have hd := (reachD_delInv s0 s hw h.toD).recs t r hr
  have hnf : r.aft = none → r.delayOffset = 0 → r.delayFlag = false := by
    intro ha h0
    cases hb : r.delayFlag with
    | false => rfl
    | true =>
      rcases hd.flag.mp hb with h1 | ⟨f, h1, _⟩
      · rw [h0] at h1; exact absurd h1 (by decide)
      · rw [ha] at h1; cases h1
  exact ⟨hd.nonneg, hd.flag,
    fun ho ha => ⟨hd.untouched ho ha, hnf ha (hd.untouched ho ha)⟩,
    fun h0 h0' ha => ⟨hd.workless h0 h0' ha, hnf ha (hd.workless h0 h0' ha)⟩⟩

/-- **(A1) Flagged iff lengthened, late, or re-timed.**  In every reachable state (any block order;
the oracles obey `R`), for every record with a recorded finish `f`: the body ran on some machine `mm`
with the total `total` (as in `C06_recorded_span_traj`), and the record is flagged iff

* the total exceeded the nominal duration (`nomOf r mm < total`: the delay model lengthened the task), or
* the recorded finish exceeds the planned finish (`eft < f`), or
* `update_allocation` was called on the record and an offset is recorded (the allocation put the task
  on a machine on which it runs longer than the duration recorded until then).

For a record `update_allocation` was never called on (`allocObj = false`: a static plan that is
followed, `C17_on_planned_machine`) the third case is impossible
(`C15_flag_iff_lengthened_planned_traj`). -/
-- Hypotheses.  `hw` only.  As in C06 the statement is about `s.task? t`, the first record with id `t`.
theorem C15_flag_iff_lengthened_traj (R : Tid → Nat → Nat → Prop) (s0 s : Sys) (hw : WFConfig s0)
    (h : ReachD R s0 s) :
    ∀ t r f, s.task? t = some r → r.aft = some f →
      ∃ a total m mm, r.ast = some a ∧ f = a + ((max 1 total : Nat) : Time) ∧
        (∃ d ∈ s.procs, ∃ cross, d.k = .doWork t m cross 3 total) ∧ s.machine? m = some mm ∧
        ((0 < r.flops ∨ 0 < r.data) →
          0 < mm.cpu ∧ 0 < mm.bw ∧ R t (max (r.flops / mm.cpu) (r.data / mm.bw)) total) ∧
        (r.flops = 0 → r.data = 0 → R t r.duration total) ∧
        (r.delayFlag = true ↔
          nomOf r mm < total ∨ (r.eft : Time) < f ∨ (r.allocObj = true ∧ 0 < r.delayOffset)) := by
  intro t r f hr hf
  obtain ⟨a, total, m, mm, g1, g2, ⟨d, hd, cross, hdk⟩, g4, g5, g6⟩ :=
    C06_recorded_span_traj R s0 s hw h t r f hr hf
  have hdel := reachD_delInv s0 s hw h
  have hrec := hdel.recs t r hr
  obtain ⟨k1, k2⟩ := hdel.done d hd t m cross total hdk r mm hr g4
  refine ⟨a, total, m, mm, g1, g2, ⟨d, hd, cross, hdk⟩, g4, g5, g6, ?_, ?_⟩
  · intro hfl
    rcases hrec.flag.mp hfl with hpos | ⟨f', hf', hlt⟩
    · cases hobj : r.allocObj with
      | true => exact Or.inr (Or.inr ⟨rfl, hpos⟩)
      | false => exact Or.inl (k2 hobj hpos)
    · rw [hf] at hf'
      injection hf' with hf'
      rw [← hf'] at hlt
      exact Or.inr (Or.inl hlt)
  · rintro (h1 | h1 | ⟨_, h1⟩)
    · exact k1 h1
    · exact hrec.flag.mpr (Or.inr ⟨f, hf, h1⟩)
    · exact hrec.flag.mpr (Or.inl h1)

/-- … for a record `update_allocation` was never called on: flagged iff the total exceeded the nominal
duration or the recorded finish exceeds the planned finish. -/
theorem C15_flag_iff_lengthened_planned_traj (R : Tid → Nat → Nat → Prop) (s0 s : Sys) (hw : WFConfig s0)
    (h : ReachD R s0 s) :
    ∀ t r f, s.task? t = some r → r.aft = some f → r.allocObj = false →
      ∃ total m mm, (∃ d ∈ s.procs, ∃ cross, d.k = .doWork t m cross 3 total) ∧ s.machine? m = some mm ∧
        (r.delayFlag = true ↔ nomOf r mm < total ∨ (r.eft : Time) < f) := by
  intro t r f hr hf hobj
  obtain ⟨a, total, m, mm, _, _, g3, g4, _, _, g7⟩ := C15_flag_iff_lengthened_traj R s0 s hw h t r f hr hf
  refine ⟨total, m, mm, g3, g4, g7.trans ⟨?_, ?_⟩⟩
  · rintro (h1 | h1 | ⟨h1, _⟩)
    · exact Or.inl h1
    · exact Or.inr h1
    · rw [hobj] at h1; cases h1
  · rintro (h1 | h1)
    · exact Or.inl h1
    · exact Or.inr (Or.inl h1)

/-- the recorded finish of a task is positive -/
theorem C15_recorded_finish_pos (s0 s : Sys) (hw : WFConfig s0) (h : ReachOk s0 s) (t : Tid) (r : TaskRec) (f : Time)
    (hr : s.task? t = some r) (hf : r.aft = some f) : (0 : Time) < f := by
  obtain ⟨a, total, g1, _, g3⟩ := C06_recorded_span_any_oracle s0 s hw h t r f hr hf
  have h0 := ((reachD_delInv s0 s hw h.toD).recs t r hr).astNonneg a g1
  have h0' : (0 : Rat) ≤ a := h0
  have g3' : a + 1 ≤ f := g3
  show (0 : Rat) < f
  grind

/-- **An ingest task is flagged exactly when it has finished** (it is created with planned finish 0, and
`do_work` ends with `if self.aft > self.eft: self.delay_flag = True`), whatever the delay model. -/
theorem C15_ingest_flagged_iff_finished_traj (s0 s : Sys) (hw : WFConfig s0) (h : ReachOk s0 s) :
    ∀ o i r, s.task? (.ingest o i) = some r → (r.delayFlag = true ↔ ∃ f, r.aft = some f) := by
  intro o i r hr
  have hd := (reachD_delInv s0 s hw h.toD).recs _ r hr
  have hid : r.id = .ingest o i := task?_id hr
  obtain ⟨h0, h0', he⟩ := hd.ingest (by rw [hid]; rfl)
  constructor
  · intro hfl
    cases ha : r.aft with
    | some f => exact ⟨f, rfl⟩
    | none =>
      rcases hd.flag.mp hfl with h1 | ⟨f, h1, _⟩
      · rw [hd.workless h0 h0' ha] at h1; exact absurd h1 (by decide)
      · rw [ha] at h1; cases h1
  · rintro ⟨f, hf⟩
    refine hd.flag.mpr (Or.inr ⟨f, hf, ?_⟩)
    rw [he]
    exact C15_recorded_finish_pos s0 s hw h _ r f hr hf

/-- "Ingest tasks are never flagged (they carry no delay model)" — FALSE of the code. -/
def C15_ingest_never_flagged_statement : Prop :=
  ∀ (s0 s : Sys), WFConfig s0 → ReachOk s0 s → s.crashed = none →
    ∀ o i r, s.task? (.ingest o i) = some r → r.delayFlag = false

/-- **With BatchPlanning every task that has finished is flagged**, whatever the delay model: the
planner creates every task with planned finish 0. -/
theorem C15_batch_planning_all_flagged_traj (s0 s : Sys) (hw : WFConfig s0) (hstat : s0.staticPlan = false)
    (h : ReachOk s0 s) : ∀ t r f, s.task? t = some r → r.aft = some f → r.delayFlag = true ∧ r.eft = 0 := by
  intro t r f hr hf
  have hd := (reachD_delInv s0 s hw h.toD).recs t r hr
  have he : r.eft = 0 := hd.batch (by rw [reach_stat h.toReach]; exact hstat)
  refine ⟨hd.flag.mpr (Or.inr ⟨f, hf, ?_⟩), he⟩
  rw [he]
  exact C15_recorded_finish_pos s0 s hw h t r f hr hf

/-! ### (A2) the scheduler reports it -/

/-- **(A2) A flagged task that has completed and left its plan has been reported.**  With a shipped
algorithm, in every state of a run that has not raised: if the record of a workflow task is FINISHED
and flagged and the task is no longer in the task list of its observation's plan (`_update_current_plan`
has seen it FINISHED), the scheduler's status is DELAYED. -/
-- Hypotheses.  `hb0`: the initial buffer holds no observation (each observation is planned once; a
-- second plan would replace the first while its tasks are unseen).  `ha`: a user algorithm may
-- propose a task that has already FINISHED, on a slower machine: `update_allocation` then flags it
-- after it has left the plan.  `hc`: the workflow invariant behind the proof is about runs that
-- have not raised.  There is no window in which the report is lost: the plan is pruned and the report
-- written in the same block, before the algorithm is asked whether the workflow is FINISHED.
theorem C15_scheduler_reports_delay_traj (s0 s : Sys) (hw : WFConfig s0)
    (hb0 : s0.buf.hot.stored = [] ∧ s0.buf.hot.scheduled = [] ∧ s0.buf.hot.finished = [] ∧
      s0.buf.cold.stored = [])
    (ha : s0.alg ≠ .oracle) (h : ReachOk s0 s) (hc : s.crashed = none) :
    ∀ o c n r pl, s.task? (.wf o c n) = some r → r.status = .finished → r.delayFlag = true →
      s.plan? o = some pl → Tid.wf o c n ∉ pl.tasks → s.schedDelayed = true := by
  have hbuf : bufList s0.buf = [] := by
    obtain ⟨h1, h2, h3, h4⟩ := hb0
    simp [bufList, h1, h2, h3, h4]
  intro o c n r pl hr hf hfl hpl hnot
  exact reachOk_di s0 s hw hbuf ha h hc o c n r hr hf hfl (by unfold planTasks; rw [hpl]; exact hnot)

/-- **Once DELAYED always DELAYED**: one block of any process, with any oracle, never resets the
report. -/
theorem C15_schedule_status_sticky_step (s : Sys) (pid : Nat) (orc : Oracle) (h : s.schedDelayed = true) :
    (s.resume pid orc).1.schedDelayed = true :=
  sched_sticky s pid orc h

/-- … hence along every run: a state reached later from a state reporting DELAYED reports DELAYED. -/
theorem C15_schedule_status_sticky_traj (s0 s s' : Sys) (h : LaterOk s0 s s') (hd : s.schedDelayed = true) :
    s'.schedDelayed = true := by
  induction h with
  | refl _ => exact hd
  | step s' pid orc _ _ _ ih => exact sched_sticky s' pid orc ih

/-- **What `_update_current_plan` writes**, exactly: the report becomes (or stays) DELAYED iff it was
DELAYED or one of the FINISHED tasks it removes from the plan of `oid` is flagged, and `delay_offset`
grows by the sum of the `delay_offset`s of the flagged ones among them. -/
theorem C15_update_current_plan_report (s : Sys) (oid : Oid) :
    ((s.updateCurrentPlan oid).schedDelayed = true ↔
      s.schedDelayed = true ∨ ∃ t ∈ ucpFin s oid, ∃ r, s.task? t = some r ∧ r.delayFlag = true) ∧
    (s.updateCurrentPlan oid).delayOffset = s.delayOffset + ucpSum s (ucpFin s oid) ∧
    (∀ t, t ∈ ucpFin s oid ↔ ∃ pl, s.plan? oid = some pl ∧ t ∈ pl.tasks ∧ (s.taskView t).status = .finished) ∧
    (∀ pl, s.plan? oid = some pl → ∀ t ∈ pl.tasks, (s.taskView t).status = .finished →
      t ∉ planTasks (s.updateCurrentPlan oid) oid) := by
  refine ⟨updateCurrentPlan_report s oid, updateCurrentPlan_offset s oid, fun t => ?_, ?_⟩
  · unfold ucpFin
    cases hp : s.plan? oid with
    | none => simp
    | some pl => simp
  · intro pl hpl t _ hfin hin
    have hpls := updateCurrentPlan_plans s oid
    rw [hpl] at hpls
    simp only at hpls
    unfold planTasks at hin
    rw [plan?_map s _ oid (fun p => { p with tasks := p.tasks.filter (fun t => (s.taskView t).status ≠ .finished) })
      (fun _ => rfl) hpls oid, hpl] at hin
    simp only [Option.map_some, (plan?_mem hpl).2, if_true] at hin
    have := (List.mem_filter.mp hin).2
    simp [hfin] at this

/-- **The scheduler's offset**: never negative, and zero as long as nothing is reported (initial
`delay_offset = 0`), along every run. -/
theorem C15_delay_offset_traj (s0 s : Sys) (hw : WFConfig s0) (hoff0 : s0.delayOffset = 0) (h : ReachOk s0 s) :
    0 ≤ s.delayOffset ∧ (s.schedDelayed = false → s.delayOffset = 0) :=
  reachOk_dk s0 s hw hoff0 h

/-! ### (A3) no report without a source -/

/-- **(A3) A report has a source.**  In every state of a run that has not raised (any algorithm), started
with the status ONTIME: if the scheduler reports DELAYED then some workflow task record is FINISHED and
flagged, or the algorithm is one of the two plan-following ones (DynamicSchedulingFromPlan,
GreedySchedulingFromPlan: they return the plan status DELAYED when the allocation of a workflow starts
after the plan's `est`, and `_generate_current_schedule` copies that into the scheduler's status).  With
any other algorithm no plan ever has the status DELAYED. -/
theorem C15_no_false_report_traj (s0 s : Sys) (hw : WFConfig s0)
    (hb0 : s0.buf.hot.stored = [] ∧ s0.buf.hot.scheduled = [] ∧ s0.buf.hot.finished = [] ∧
      s0.buf.cold.stored = [])
    (hsd0 : s0.schedDelayed = false) (h : ReachOk s0 s) (hc : s.crashed = none) :
    (s.schedDelayed = true →
      (∃ t r, s.task? t = some r ∧ IsWf t ∧ r.status = .finished ∧ r.delayFlag = true) ∨
      s0.alg = .dynamic ∨ s0.alg = .greedy) ∧
    (s0.alg ≠ .dynamic → s0.alg ≠ .greedy → ∀ pl ∈ s.plans, pl.status ≠ .delayed) := by
  have hbuf : bufList s0.buf = [] := by
    obtain ⟨h1, h2, h3, h4⟩ := hb0
    simp [bufList, h1, h2, h3, h4]
  have hdj := reachOk_dj s0 s hw hbuf hsd0 h hc
  have halg := reach_alg h.toReach
  refine ⟨fun hd => ?_, fun h1 h2 => hdj.plans (by rw [halg]; exact h1) (by rw [halg]; exact h2)⟩
  have := hdj.src hd
  rw [halg] at this
  exact this

/-- the only way an algorithm's returned status is DELAYED: the plan was DELAYED already, or the
algorithm is one of the two plan-following ones -/
theorem C15_algorithm_delayed_status (s : Sys) (orc : Oracle) (plan : Plan) (sched : List (Tid × Mid))
    (pool : List Tid) (out : AlgOut) (h : s.runAlgorithm orc plan sched pool = .ok out)
    (hd : out.status = .delayed) : plan.status = .delayed ∨ s.alg = .dynamic ∨ s.alg = .greedy :=
  runAlgorithm_delayed s orc plan sched pool out h hd

/-! ### (A4) at the end of a run -/

/-- **(A4) At `is_finished()` of a run that has not raised** (hypotheses of `C04_all_workflow_tasks_ran`,
shipped algorithm, initial status ONTIME): if some workflow task record is flagged the scheduler reports
DELAYED; and with BatchProcessing or QueueProcessing the converse holds too — the report is DELAYED iff
some workflow task record is flagged.  (With a plan-following algorithm the converse is false:
`C15_report_iff_flagged_statement_false`.) -/
theorem C15_report_at_finish_traj (s0 s : Sys) (hw : WFConfig s0)
    (hb0 : s0.buf.hot.stored = [] ∧ s0.buf.hot.scheduled = [] ∧ s0.buf.hot.finished = [] ∧
      s0.buf.cold.stored = [])
    (hsz0 : s0.buf.size = [] ∧ s0.buf.hot.cur ≤ s0.buf.hot.total ∧ s0.buf.cold.cur ≤ s0.buf.cold.total)
    (hrate : ∀ o ∈ s0.obs, 0 < o.rate) (ha : s0.alg ≠ .oracle) (hsd0 : s0.schedDelayed = false)
    (h : ReachOk s0 s) (hf : s.isFinished = true) (hc : s.crashed = none) :
    ((∃ t r, s.task? t = some r ∧ IsWf t ∧ r.delayFlag = true) → s.schedDelayed = true) ∧
    (s0.alg ≠ .dynamic → s0.alg ≠ .greedy →
      (s.schedDelayed = true ↔ ∃ t r, s.task? t = some r ∧ IsWf t ∧ r.delayFlag = true)) := by
  have hbuf : bufList s0.buf = [] := by
    obtain ⟨h1, h2, h3, h4⟩ := hb0
    simp [bufList, h1, h2, h3, h4]
  have hfwd : (∃ t r, s.task? t = some r ∧ IsWf t ∧ r.delayFlag = true) → s.schedDelayed = true := by
    rintro ⟨t, r, hr, ⟨o, c, n, rfl⟩, hfl⟩
    obtain ⟨hfin, hnil⟩ := finished_wf_done s0 s hw hbuf hsz0 hrate h hf hc hr
    exact reachOk_di s0 s hw hbuf ha h hc o c n r hr hfin hfl (by rw [hnil]; simp)
  refine ⟨hfwd, fun h1 h2 => ⟨fun hd => ?_, hfwd⟩⟩
  rcases (C15_no_false_report_traj s0 s hw hb0 hsd0 h hc).1 hd with ⟨t, r, hr, hw', _, hfl⟩ | h3 | h3
  · exact ⟨t, r, hr, hw', hfl⟩
  · exact absurd h3 h1
  · exact absurd h3 h2

/-- (A4) as an equivalence for every shipped algorithm — FALSE for the plan-following ones. -/
def C15_report_iff_flagged_statement : Prop :=
  ∀ (s0 s : Sys), WFConfig s0 →
    (s0.buf.hot.stored = [] ∧ s0.buf.hot.scheduled = [] ∧ s0.buf.hot.finished = [] ∧ s0.buf.cold.stored = []) →
    (s0.buf.size = [] ∧ s0.buf.hot.cur ≤ s0.buf.hot.total ∧ s0.buf.cold.cur ≤ s0.buf.cold.total) →
    (∀ o ∈ s0.obs, 0 < o.rate) → s0.alg ≠ .oracle → s0.schedDelayed = false →
    ReachOk s0 s → s.isFinished = true → s.crashed = none →
    (s.schedDelayed = true ↔ ∃ t r, s.task? t = some r ∧ IsWf t ∧ r.delayFlag = true)

/-! ### the simulator (SimPy's order) -/

/-- (A1) along the simulator's runs, with `total = env.bodyTotal t k dur` for some `k` (`env.Rel`). -/
theorem C15_flag_iff_lengthened_simpy (env : SimEnv) (s0 : Sys) (hw : WFConfig s0) (k : SimState)
    (h : SimRun env s0 k) :
    ∀ t r f, k.st.task? t = some r → r.aft = some f →
      ∃ a total m mm, r.ast = some a ∧ f = a + ((max 1 total : Nat) : Time) ∧
        (∃ d ∈ k.st.procs, ∃ cross, d.k = .doWork t m cross 3 total) ∧ k.st.machine? m = some mm ∧
        ((0 < r.flops ∨ 0 < r.data) →
          0 < mm.cpu ∧ 0 < mm.bw ∧ env.Rel t (max (r.flops / mm.cpu) (r.data / mm.bw)) total) ∧
        (r.flops = 0 → r.data = 0 → env.Rel t r.duration total) ∧
        (r.delayFlag = true ↔
          nomOf r mm < total ∨ (r.eft : Time) < f ∨ (r.allocObj = true ∧ 0 < r.delayOffset)) := by
  obtain ⟨s, hr, hks | ⟨hks, _⟩⟩ := C06_L3_refines_ReachD env s0 hw k h
  · rw [hks]; exact C15_flag_iff_lengthened_traj env.Rel s0 s hw hr
  · rw [hks]; exact C15_flag_iff_lengthened_traj env.Rel s0 s hw hr

/-- a delay model that only lengthens: for a record `update_allocation` was not called on, that
finished no later than planned, flagged iff the delay model added something -/
theorem C15_flag_iff_delay_added_simpy (env : SimEnv) (s0 : Sys) (hw : WFConfig s0)
    (hl : ∀ kv ∈ env.delayTable, kv.1 ≤ kv.2) (k : SimState) (h : SimRun env s0 k) :
    ∀ t r f, k.st.task? t = some r → r.aft = some f → r.allocObj = false → f ≤ (r.eft : Time) →
      ∃ total mm, nomOf r mm ≤ total ∧ (r.delayFlag = true ↔ nomOf r mm < total) := by
  intro t r f hr hf hobj hle
  obtain ⟨a, total, m, mm, _, _, _, _, g5, g6, g7⟩ := C15_flag_iff_lengthened_simpy env s0 hw k h t r f hr hf
  refine ⟨total, mm, ?_, g7.trans ⟨?_, fun h1 => Or.inl h1⟩⟩
  · unfold nomOf
    split
    · rename_i hwk; exact env_rel_lengthens hl (g5 hwk).2.2
    · rename_i hwk
      exact env_rel_lengthens hl (g6 (by omega) (by omega))
  · rintro (h1 | h1 | ⟨h1, _⟩)
    · exact h1
    · exact absurd h1 (Rat.not_lt.mpr hle)
    · rw [hobj] at h1; cases h1

theorem C15_scheduler_reports_delay_simpy (env : SimEnv) (s0 : Sys) (hw : WFConfig s0)
    (hb0 : s0.buf.hot.stored = [] ∧ s0.buf.hot.scheduled = [] ∧ s0.buf.hot.finished = [] ∧
      s0.buf.cold.stored = [])
    (ha : s0.alg ≠ .oracle) (k : SimState) (h : SimRun env s0 k) (hc : k.st.crashed = none) :
    ∀ o c n r pl, k.st.task? (.wf o c n) = some r → r.status = .finished → r.delayFlag = true →
      k.st.plan? o = some pl → Tid.wf o c n ∉ pl.tasks → k.st.schedDelayed = true :=
  L3_transfer env s0 hw
    (fun s => s.crashed = none → ∀ o c n r pl, s.task? (.wf o c n) = some r → r.status = .finished →
      r.delayFlag = true → s.plan? o = some pl → Tid.wf o c n ∉ pl.tasks → s.schedDelayed = true)
    (fun s hs hc => C15_scheduler_reports_delay_traj s0 s hw hb0 ha hs hc) (by intro _ h; exact h) k h hc

/-- once DELAYED always DELAYED along a run of the simulator (kernel steps and pause hand-overs) -/
theorem C15_schedule_status_sticky_simpy (env : SimEnv) (s0 : Sys) (hw : WFConfig s0) (k k' : SimState)
    (h : SimReach env s0 k) (hp : SimPath env k k') (hd : k.st.schedDelayed = true) :
    k'.st.schedDelayed = true := by
  induction hp with
  | refl => exact hd
  | step k1 k2 hp1 hs ih =>
    obtain ⟨e, _, hcase⟩ := ot_step_cases hw (h.path hp1) hs
    rcases hcase with ⟨hc, _⟩ | ⟨p, _, _, _, _, hc⟩
    · rw [hc]; exact ih
    · rw [hc]; exact sched_sticky _ _ _ ih
  | collate k1 _ ih => exact ih

theorem C15_no_false_report_simpy (env : SimEnv) (s0 : Sys) (hw : WFConfig s0)
    (hb0 : s0.buf.hot.stored = [] ∧ s0.buf.hot.scheduled = [] ∧ s0.buf.hot.finished = [] ∧
      s0.buf.cold.stored = [])
    (hsd0 : s0.schedDelayed = false) (k : SimState) (h : SimRun env s0 k) (hc : k.st.crashed = none)
    (hd : k.st.schedDelayed = true) :
    (∃ t r, k.st.task? t = some r ∧ IsWf t ∧ r.status = .finished ∧ r.delayFlag = true) ∨
    s0.alg = .dynamic ∨ s0.alg = .greedy :=
  L3_transfer env s0 hw
    (fun s => s.crashed = none → s.schedDelayed = true →
      (∃ t r, s.task? t = some r ∧ IsWf t ∧ r.status = .finished ∧ r.delayFlag = true) ∨
      s0.alg = .dynamic ∨ s0.alg = .greedy)
    (fun s hs hc hd => (C15_no_false_report_traj s0 s hw hb0 hsd0 hs hc).1 hd) (by intro _ h; exact h) k h hc hd

theorem C15_report_at_finish_simpy (env : SimEnv) (s0 : Sys) (hw : WFConfig s0)
    (hb0 : s0.buf.hot.stored = [] ∧ s0.buf.hot.scheduled = [] ∧ s0.buf.hot.finished = [] ∧
      s0.buf.cold.stored = [])
    (hsz0 : s0.buf.size = [] ∧ s0.buf.hot.cur ≤ s0.buf.hot.total ∧ s0.buf.cold.cur ≤ s0.buf.cold.total)
    (hrate : ∀ o ∈ s0.obs, 0 < o.rate) (ha : s0.alg ≠ .oracle) (hsd0 : s0.schedDelayed = false)
    (k : SimState) (h : SimRun env s0 k) (hf : k.st.isFinished = true) (hc : k.st.crashed = none) :
    ((∃ t r, k.st.task? t = some r ∧ IsWf t ∧ r.delayFlag = true) → k.st.schedDelayed = true) ∧
    (s0.alg ≠ .dynamic → s0.alg ≠ .greedy →
      (k.st.schedDelayed = true ↔ ∃ t r, k.st.task? t = some r ∧ IsWf t ∧ r.delayFlag = true)) :=
  L3_transfer env s0 hw
    (fun s => s.isFinished = true → s.crashed = none →
      ((∃ t r, s.task? t = some r ∧ IsWf t ∧ r.delayFlag = true) → s.schedDelayed = true) ∧
      (s0.alg ≠ .dynamic → s0.alg ≠ .greedy →
        (s.schedDelayed = true ↔ ∃ t r, s.task? t = some r ∧ IsWf t ∧ r.delayFlag = true)))
    (fun s hs hf hc => C15_report_at_finish_traj s0 s hw hb0 hsz0 hrate ha hsd0 hs hf hc)
    (by intro _ h; exact h) k h hf hc

/-! ### the statements that are false, with their witnesses -/

/-- the witness: configuration `c04W1` (one machine of speed 1, one observation, workflow chain `0 → 1`,
queue algorithm, BatchPlanning, NO delay model), the simulator run to `is_finished()` (`c04S1`): the
ingest task's record is flagged; so are both workflow records; the report is DELAYED with offset 3. -/
theorem C15_ingest_never_flagged_witness :
    WFConfig c04W1 ∧ ReachOk c04W1 c04S1 ∧ c04S1.crashed = none ∧
    ∃ r, c04S1.task? (.ingest 0 0) = some r ∧ r.delayFlag = true ∧ r.eft = 0 ∧ r.aft = some 1 := by
  obtain ⟨_, hc, _, hv, _, _, _⟩ := c15Chk_spec c15_c04S1_chk
  obtain ⟨⟨r, hr, he⟩, _, _⟩ := delayView_task? hv (by decide) (by decide) (by decide)
  simp only [Prod.mk.injEq] at he
  exact ⟨c04W1_wf, c04S1_reach, hc, r, hr, he.1.2.2, he.2.2.1, he.2.2.2.2⟩

theorem C15_ingest_never_flagged_statement_false : ¬ C15_ingest_never_flagged_statement := by
  intro hst
  obtain ⟨hw, hr, hc, r, hrec, hfl, _⟩ := C15_ingest_never_flagged_witness
  have := hst c04W1 c04S1 hw hr hc 0 0 r hrec
  rw [hfl] at this; cases this

/-- the witness: configuration `c15Wd` (two machines of speed 1; one observation, planned start 3,
duration 1; workflow chain `0 → 1`; DynamicSchedulingFromPlan), static plan `c15EnvBig` (both tasks on
machine 1, planned finishes 100 and 200), no delay model, the simulator run to `is_finished()`
(`c15KLate`): the allocation of the workflow starts at 3 > `plan.est` = 1, the algorithm returns the
plan status DELAYED and the scheduler reports DELAYED, while no workflow task record is flagged. -/
theorem C15_report_iff_flagged_witness :
    WFConfig c15Wd ∧ ReachOk c15Wd c15KLate.st ∧ c15KLate.st.isFinished = true ∧ c15KLate.st.crashed = none ∧
    c15Wd.alg = .dynamic ∧ c15KLate.st.schedDelayed = true ∧
    ∀ t r, c15KLate.st.task? t = some r → IsWf t → r.delayFlag = false := by
  obtain ⟨hf, hc, hh, hv, _, hsd, _⟩ := c15Chk_spec c15KLate_chk
  refine ⟨c15Wd_wf, simRun_reachOk c15Wd_wf c15KLate_run hh, hf, hc, rfl, hsd, ?_⟩
  intro t r hr hw
  obtain ⟨hm, hid⟩ := mem_of_task? hr
  have : ((r.id, r.status, r.delayFlag), (r.delayOffset, r.eft, r.allocObj, r.aft)) ∈ delayView c15KLate.st :=
    List.mem_map_of_mem (f := fun r : TaskRec => ((r.id, r.status, r.delayFlag), (r.delayOffset, r.eft, r.allocObj, r.aft))) hm
  rw [hv] at this
  simp only [List.mem_cons, List.not_mem_nil, or_false, Prod.mk.injEq] at this
  rcases this with h1 | h1 | h1
  · obtain ⟨o, c, n, e⟩ := hw
    rw [← hid, h1.1.1] at e; cases e
  · exact h1.1.2.2
  · exact h1.1.2.2

theorem C15_report_iff_flagged_statement_false : ¬ C15_report_iff_flagged_statement := by
  intro hst
  obtain ⟨hw, hr, hf, hc, _, hsd, hno⟩ := C15_report_iff_flagged_witness
  obtain ⟨t, r, hrec, hwf, hfl⟩ := (hst c15Wd c15KLate.st hw ⟨rfl, rfl, rfl, rfl⟩ ⟨rfl, by decide, by decide⟩
    c15Wd_rate (by simp [c15Wd]) rfl hr hf hc).mp hsd
  rw [hno t r hrec hwf] at hfl; cases hfl

/-! ### non-vacuity -/

/-- (A1), the three reasons and none.  Simulator runs to `is_finished()`:
* `c15KBigD` (static plan with generous planned finishes, every workflow task delayed by 3): the record of
  the first workflow task was never re-timed, finished at 6 ≤ 100, is flagged with offset 3 — its body's
  total 5 exceeded the nominal duration 2;
* `c15KTight` (planned finishes 2 and 3, no delay): flagged with offset 0 — recorded finish 3 > planned
  finish 2;
* `c04S1` (BatchPlanning, no delay): flagged, `update_allocation` recorded the offset 2 (runtime 2 against
  the planned duration 0);
* `c15KBig` (generous plan, no delay): finished, not flagged. -/
example :
    (∃ k r, SimRun c15EnvBigD c15Ws k ∧ k.st.task? (.wf 0 1 0) = some r ∧ r.aft = some 6 ∧ r.eft = 100 ∧
      r.allocObj = false ∧ r.delayFlag = true ∧ r.delayOffset = 3 ∧
      ∃ total mm, (r.delayFlag = true ↔ nomOf r mm < total ∨ (r.eft : Time) < 6)) ∧
    (∃ k r, SimRun c15EnvTight c15Ws k ∧ k.st.task? (.wf 0 1 0) = some r ∧ r.aft = some 3 ∧ r.eft = 2 ∧
      r.allocObj = false ∧ r.delayFlag = true ∧ r.delayOffset = 0) ∧
    (∃ r, ReachOk c04W1 c04S1 ∧ c04S1.task? (.wf 0 1 0) = some r ∧ r.aft = some 4 ∧ r.allocObj = true ∧
      r.delayFlag = true ∧ r.delayOffset = 2) ∧
    (∃ k r, SimRun c15EnvBig c15Ws k ∧ k.st.task? (.wf 0 1 0) = some r ∧ r.aft = some 3 ∧ r.eft = 100 ∧
      r.delayFlag = false) := by
  refine ⟨?_, ?_, ?_, ?_⟩
  · obtain ⟨_, _, hh, hv, _, _, _⟩ := c15Chk_spec c15KBigD_chk
    obtain ⟨_, ⟨r, hr, he⟩, _⟩ := delayView_task? hv (by decide) (by decide) (by decide)
    simp only [Prod.mk.injEq] at he
    obtain ⟨total, m, mm, _, _, hiff⟩ := C15_flag_iff_lengthened_planned_traj _ c15Ws c15KBigD.st c15Ws_wf
      (simRun_reachOk c15Ws_wf c15KBigD_run hh).toD _ r 6 hr he.2.2.2.2 he.2.2.2.1
    exact ⟨c15KBigD, r, c15KBigD_run, hr, he.2.2.2.2, he.2.2.1, he.2.2.2.1, he.1.2.2, he.2.1, total, mm, hiff⟩
  · obtain ⟨_, _, _, hv, _, _, _⟩ := c15Chk_spec c15KTight_chk
    obtain ⟨_, ⟨r, hr, he⟩, _⟩ := delayView_task? hv (by decide) (by decide) (by decide)
    simp only [Prod.mk.injEq] at he
    exact ⟨c15KTight, r, c15KTight_run, hr, he.2.2.2.2, he.2.2.1, he.2.2.2.1, he.1.2.2, he.2.1⟩
  · obtain ⟨_, _, _, hv, _, _, _⟩ := c15Chk_spec c15_c04S1_chk
    obtain ⟨_, ⟨r, hr, he⟩, _⟩ := delayView_task? hv (by decide) (by decide) (by decide)
    simp only [Prod.mk.injEq] at he
    exact ⟨r, c04S1_reach, hr, he.2.2.2.2, he.2.2.2.1, he.1.2.2, he.2.1⟩
  · obtain ⟨_, _, _, hv, _, _, _⟩ := c15Chk_spec c15KBig_chk
    obtain ⟨_, ⟨r, hr, he⟩, _⟩ := delayView_task? hv (by decide) (by decide) (by decide)
    simp only [Prod.mk.injEq] at he
    exact ⟨c15KBig, r, c15KBig_run, hr, he.2.2.2.2, he.2.2.1, he.1.2.2⟩

/-- (A2), (A4): `c04S1` satisfies every hypothesis of `C15_report_at_finish_traj` (queue algorithm); some
workflow record is flagged and the scheduler reports DELAYED, with `delay_offset = 3`. -/
example : ∃ s, ReachOk c04W1 s ∧ s.isFinished = true ∧ s.crashed = none ∧
    (∃ t r, s.task? t = some r ∧ IsWf t ∧ r.delayFlag = true) ∧ s.schedDelayed = true ∧ s.delayOffset = 3 := by
  obtain ⟨hf, hc, _, hv, _, _, hoff⟩ := c15Chk_spec c15_c04S1_chk
  obtain ⟨_, ⟨r, hr, he⟩, _⟩ := delayView_task? hv (by decide) (by decide) (by decide)
  simp only [Prod.mk.injEq] at he
  have hex : ∃ t r, c04S1.task? t = some r ∧ IsWf t ∧ r.delayFlag = true := ⟨_, r, hr, ⟨0, 1, 0, rfl⟩, he.1.2.2⟩
  exact ⟨c04S1, c04S1_reach, hf, hc, hex,
    (C15_report_at_finish_traj c04W1 c04S1 c04W1_wf c04W1_buf c04W1_size c04W1_rate (by simp [c04W1]) rfl
      c04S1_reach hf hc).1 hex, hoff⟩

/-- … and a finished run in which nothing is reported: `c15KBig` (no workflow record flagged). -/
example : ∃ k, SimRun c15EnvBig c15Ws k ∧ k.st.isFinished = true ∧ k.st.crashed = none ∧
    k.st.schedDelayed = false ∧ k.st.delayOffset = 0 := by
  obtain ⟨hf, hc, _, _, _, hsd, hoff⟩ := c15Chk_spec c15KBig_chk
  exact ⟨c15KBig, c15KBig_run, hf, hc, hsd, hoff⟩

end Sys
end Topsim
