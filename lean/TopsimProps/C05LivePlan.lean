/-
  C05, liveness — on the deterministic simulator (L3, SimPy's own (time, priority, insertion id)
  order), for the two plan-following algorithms (DynamicSchedulingFromPlan, GreedySchedulingFromPlan)
  with static plans.  The counterpart of TopsimProps/C05Live.lean (QueueProcessing, BatchPlanning);
  the algorithm-independent part of that development is restated for the configuration structures
  `LivePCfg` / `NcPCfg` in TopsimProofs/LiveP6 … LiveP20 (same proofs), the algorithm-specific part
  is new (LiveP1 – LiveP5, LiveP7g, and the `allocate_tasks` cases of LiveP7d, LiveP15c, LiveP17c–f).

  Vocabulary: as in C05Live.  `PlanAlg a`: `a = .dynamic ∨ a = .greedy`.  `env.rowsOf o`: the rows
  `(node, machine, est, eft)` of the static plan of observation `o` in `env.staticPlans` (the rows the
  scheduler loop hands to `StaticPlanning` when it plans `o`; no entry = no rows).

  Hypotheses, beyond those of `C05_terminates_queue_simpy` (WFConfig, Feasible, hb0, hfull,
  cold.transfer = none, halted = false, H1 `NoTierCfg`, H2 `OneAdmission`, H4 `IsTopo`):
  * `s0.staticPlan = true`: without a static plan no record carries a planned machine and the first
    `allocate_tasks` block of either algorithm raises KeyError (`get_machine_from_id(None)`).
  * `PlanOk env s0`, three clauses, for every observation `o` of the configuration:
    - `cover`: every node of `o.wf.topo` has a row.  NEEDED: a task whose predecessor has no row waits
      for ever for a task that has no record — a silent hang (`C05_plan_cover_needed_witness`:
      configuration `plW`, plan `plEnvMissing`, still queued at t = 40 with nothing running and
      nothing raised, under either algorithm).
    - `mach`: every row names a machine of the cluster.  NEEDED: `WFConfig` and `rowsOk` say nothing
      of the machine ids of the rows; with an id the cluster does not have
      `cluster.get_machine_from_id` raises KeyError in the first `allocate_tasks` block
      (`C05_plan_mach_needed_witness`, either algorithm).
    - `nodes`: every row names a node of `o.wf.topo`.  Used to index the monotone predicates of the
      stabilisation argument by the nodes of the workflow; a row for a node the workflow does not have
      would make an isolated task that runs like any other, so this clause is a convenience, not a
      protection against a defect.
  * `env.rowsOk` (each plan names a node at most once) is NOT needed and is not assumed.
  * H2 was needed only for "no block raises" (F14: no longer — the `…_noH2` theorems; the
    statements with H2 are kept verbatim), H4 only for "no silent hang", as for QueueProcessing.

  What is proved.
  (2) `C05_no_silent_hang_plan_simpy`: after some number of kernel steps the run has raised, or it is
      at `is_finished()` with nothing raised.  No deadlock between workflows competing for one planned
      machine, no starvation by the fixed visiting order of the scheduler, no task that is never in
      the ready pool: in a quiescent state every machine is available, and the block of the
      `allocate_tasks` process of any observation still queued starts a task
      (`C05_plan_allocTasks_progress_partial`).
  (3) `C05_no_raise_plan_simpy_noH2`: under H1 and `PlanOk` no block ever raises.  In particular
      * two workflows never propose the same available machine in one instant so that the second
        `allocate_task_to_cluster` raises RuntimeError: an allocation process runs its first block
        (URGENT) before any other `allocate_tasks` block of that instant, and finds its machine in the
        available pool (`C05_plan_allocTask_finds_machine_simpy`) — with the same or with different
        plan rows per observation.  (The double proposal of C17Traj's report needs an order of the
        blocks inside an instant that SimPy does not produce.)
      * greedy's fallback "first free machine" is a machine of the available pool at that moment,
        different from every other proposal of the block (`nc_planRun_machines_P`), so
        `_process_current_schedule` never skips a proposal (`pcs_clean_P`), the leftover schedule of
        every `allocate_tasks` process is always empty (`C05_plan_no_leftover_simpy`), and
        `update_allocation` (which replaces the machine id by a Machine object, after which
        `get_machine_from_id` would raise KeyError) is only applied to a record that leaves
        UNSCHEDULED in the same block (`C05_plan_machine_lookup_simpy`).
  (3') `C05_terminates_dynamic_simpy`, `C05_terminates_greedy_simpy` — THE TARGETS.
  (4) `C05_plan_every_task_finishes_simpy`: at some index every observation has been removed from the
      hot buffer and every node of every workflow has a FINISHED record — no task is starved.
      `C05_dynamic_ready_task_started_simpy`: under dynamic a ready task whose planned machine is in
      the available pool is started in that block of `allocate_tasks` (it, or a task of the same plan
      planned on that machine and earlier in the planned-start order); a task whose planned machine is
      busy is skipped, not waited for (C17Traj `C17_busy_machine_waits`), and the loop goes on.
      Algorithm-level progress lemmas: `C05_dynamic_ready_task_started`, `C05_dynamic_run_progress`,
      `C05_greedy_run_progress`, `C05_plan_run_machines`.

  Not proved: a bound on the time.
-/
import TopsimProofs.LiveP22
import TopsimProofs.LiveP5

namespace Topsim

open KState Sys

/-! ### (2) no silent hang -/

/-- **No silent hang** (either plan-following algorithm, static plans fitting the configuration).
After some number `n` of kernel steps the run has raised an exception, or it is at `is_finished()`
with no exception raised (and the run up to there is one uninterrupted `env.run`). -/
theorem C05_no_silent_hang_plan_simpy (env : SimEnv) (s0 : Sys) (hw : Sys.WFConfig s0)
    (hfe : Sys.Feasible s0)
    (hb0 : s0.buf.hot.stored = [] ∧ s0.buf.hot.scheduled = [] ∧ s0.buf.hot.finished = [] ∧
      s0.buf.cold.stored = [])
    (hfull : s0.buf.size = [] ∧ s0.buf.hot.cur = s0.buf.hot.total ∧ s0.buf.cold.cur = s0.buf.cold.total)
    (hct : s0.buf.cold.transfer = none) (hh0 : s0.halted = false)
    (hH1 : Sys.NoTierCfg s0) (halg : s0.alg = .dynamic ∨ s0.alg = .greedy) (hstat : s0.staticPlan = true)
    (htopo : ∀ o ∈ s0.obs, IsTopo o.wf) (hplan : PlanOk env s0) :
    ∃ n, (ilSimSteps env n (SimState.start s0)).st.crashed ≠ none ∨
      ((ilSimSteps env n (SimState.start s0)).st.isFinished = true ∧
        (ilSimSteps env n (SimState.start s0)).st.crashed = none ∧
        SimRun env s0 (ilSimSteps env n (SimState.start s0))) :=
  live_no_silent_hang_P env s0 hw hfe hb0 hfull hct hh0 hH1 halg hstat htopo hplan

/-! ### (3) no block raises, termination -/

/-- F14 — H2 (`OneAdmission`) dropped, the repaired admission test makes it unnecessary.  **No block raises** (either plan-following algorithm; H1, `PlanOk`). -/
theorem C05_no_raise_plan_simpy_noH2 (env : SimEnv) (s0 : Sys) (hw : Sys.WFConfig s0)
    (hfe : Sys.Feasible s0)
    (hb0 : s0.buf.hot.stored = [] ∧ s0.buf.hot.scheduled = [] ∧ s0.buf.hot.finished = [] ∧
      s0.buf.cold.stored = [])
    (hfull : s0.buf.size = [] ∧ s0.buf.hot.cur = s0.buf.hot.total ∧ s0.buf.cold.cur = s0.buf.cold.total)
    (hct : s0.buf.cold.transfer = none) (hh0 : s0.halted = false)
    (hH1 : Sys.NoTierCfg s0) (halg : s0.alg = .dynamic ∨ s0.alg = .greedy)
    (hstat : s0.staticPlan = true) (htopo : ∀ o ∈ s0.obs, IsTopo o.wf) (hplan : PlanOk env s0) (n : Nat) :
    (ilSimSteps env n (SimState.start s0)).st.crashed = none := by
  have := live_noRaise_P (env := env) ⟨hw, hfe, hb0, hfull, hct, hH1, halg, hstat, htopo, hplan, hh0⟩ n
  rw [simAt_eq_ilSimSteps] at this
  exact this

-- F14: H2 is no longer needed (`…_noH2` above); statement kept verbatim
/-- **No block raises** (either plan-following algorithm; H1, H2, `PlanOk`). -/
theorem C05_no_raise_plan_simpy (env : SimEnv) (s0 : Sys) (hw : Sys.WFConfig s0)
    (hfe : Sys.Feasible s0)
    (hb0 : s0.buf.hot.stored = [] ∧ s0.buf.hot.scheduled = [] ∧ s0.buf.hot.finished = [] ∧
      s0.buf.cold.stored = [])
    (hfull : s0.buf.size = [] ∧ s0.buf.hot.cur = s0.buf.hot.total ∧ s0.buf.cold.cur = s0.buf.cold.total)
    (hct : s0.buf.cold.transfer = none) (hh0 : s0.halted = false)
    (hH1 : Sys.NoTierCfg s0) (hH2 : Sys.OneAdmission s0) (halg : s0.alg = .dynamic ∨ s0.alg = .greedy)
    (hstat : s0.staticPlan = true) (htopo : ∀ o ∈ s0.obs, IsTopo o.wf) (hplan : PlanOk env s0) (n : Nat) :
    (ilSimSteps env n (SimState.start s0)).st.crashed = none := by
  have _ := hH2
  exact C05_no_raise_plan_simpy_noH2 env s0 hw hfe hb0 hfull hct hh0 hH1 halg hstat htopo hplan n

/-- F14 — H2 (`OneAdmission`) dropped, the repaired admission test makes it unnecessary.  **`C05_terminates_dynamic_simpy`** — THE TARGET for DynamicSchedulingFromPlan.  `WFConfig`,
`Feasible`, initial buffers empty / full-free, `cold.transfer = none`, `halted = false`, H1, H4,
static planning with plans that fit the configuration (`PlanOk`), any delay table / script in `env`:
there is `n` such that the state after `n` kernel steps has `isFinished = true ∧ crashed = none`
(and the run up to there is one uninterrupted `env.run`). -/
theorem C05_terminates_dynamic_simpy_noH2 (env : SimEnv) (s0 : Sys) (hw : Sys.WFConfig s0)
    (hfe : Sys.Feasible s0)
    (hb0 : s0.buf.hot.stored = [] ∧ s0.buf.hot.scheduled = [] ∧ s0.buf.hot.finished = [] ∧
      s0.buf.cold.stored = [])
    (hfull : s0.buf.size = [] ∧ s0.buf.hot.cur = s0.buf.hot.total ∧ s0.buf.cold.cur = s0.buf.cold.total)
    (hct : s0.buf.cold.transfer = none) (hh0 : s0.halted = false)
    (hH1 : Sys.NoTierCfg s0) (halg : s0.alg = .dynamic)
    (hstat : s0.staticPlan = true) (htopo : ∀ o ∈ s0.obs, IsTopo o.wf) (hplan : PlanOk env s0) :
    ∃ n, (ilSimSteps env n (SimState.start s0)).st.isFinished = true ∧
      (ilSimSteps env n (SimState.start s0)).st.crashed = none ∧
      SimRun env s0 (ilSimSteps env n (SimState.start s0)) :=
  live_terminates_cfg_P ⟨hw, hfe, hb0, hfull, hct, hH1, Or.inl halg, hstat, htopo, hplan, hh0⟩

-- F14: H2 is no longer needed (`…_noH2` above); statement kept verbatim
/-- **`C05_terminates_dynamic_simpy`** — THE TARGET for DynamicSchedulingFromPlan.  `WFConfig`,
`Feasible`, initial buffers empty / full-free, `cold.transfer = none`, `halted = false`, H1, H2, H4,
static planning with plans that fit the configuration (`PlanOk`), any delay table / script in `env`:
there is `n` such that the state after `n` kernel steps has `isFinished = true ∧ crashed = none`
(and the run up to there is one uninterrupted `env.run`). -/
theorem C05_terminates_dynamic_simpy (env : SimEnv) (s0 : Sys) (hw : Sys.WFConfig s0)
    (hfe : Sys.Feasible s0)
    (hb0 : s0.buf.hot.stored = [] ∧ s0.buf.hot.scheduled = [] ∧ s0.buf.hot.finished = [] ∧
      s0.buf.cold.stored = [])
    (hfull : s0.buf.size = [] ∧ s0.buf.hot.cur = s0.buf.hot.total ∧ s0.buf.cold.cur = s0.buf.cold.total)
    (hct : s0.buf.cold.transfer = none) (hh0 : s0.halted = false)
    (hH1 : Sys.NoTierCfg s0) (hH2 : Sys.OneAdmission s0) (halg : s0.alg = .dynamic)
    (hstat : s0.staticPlan = true) (htopo : ∀ o ∈ s0.obs, IsTopo o.wf) (hplan : PlanOk env s0) :
    ∃ n, (ilSimSteps env n (SimState.start s0)).st.isFinished = true ∧
      (ilSimSteps env n (SimState.start s0)).st.crashed = none ∧
      SimRun env s0 (ilSimSteps env n (SimState.start s0)) := by
  have _ := hH2
  exact C05_terminates_dynamic_simpy_noH2 env s0 hw hfe hb0 hfull hct hh0 hH1 halg hstat htopo hplan

/-- F14 — H2 (`OneAdmission`) dropped, the repaired admission test makes it unnecessary.  **`C05_terminates_greedy_simpy`** — THE TARGET for GreedySchedulingFromPlan (after the F10
repair), same hypotheses. -/
theorem C05_terminates_greedy_simpy_noH2 (env : SimEnv) (s0 : Sys) (hw : Sys.WFConfig s0)
    (hfe : Sys.Feasible s0)
    (hb0 : s0.buf.hot.stored = [] ∧ s0.buf.hot.scheduled = [] ∧ s0.buf.hot.finished = [] ∧
      s0.buf.cold.stored = [])
    (hfull : s0.buf.size = [] ∧ s0.buf.hot.cur = s0.buf.hot.total ∧ s0.buf.cold.cur = s0.buf.cold.total)
    (hct : s0.buf.cold.transfer = none) (hh0 : s0.halted = false)
    (hH1 : Sys.NoTierCfg s0) (halg : s0.alg = .greedy)
    (hstat : s0.staticPlan = true) (htopo : ∀ o ∈ s0.obs, IsTopo o.wf) (hplan : PlanOk env s0) :
    ∃ n, (ilSimSteps env n (SimState.start s0)).st.isFinished = true ∧
      (ilSimSteps env n (SimState.start s0)).st.crashed = none ∧
      SimRun env s0 (ilSimSteps env n (SimState.start s0)) :=
  live_terminates_cfg_P ⟨hw, hfe, hb0, hfull, hct, hH1, Or.inr halg, hstat, htopo, hplan, hh0⟩

-- F14: H2 is no longer needed (`…_noH2` above); statement kept verbatim
/-- **`C05_terminates_greedy_simpy`** — THE TARGET for GreedySchedulingFromPlan (after the F10
repair), same hypotheses. -/
theorem C05_terminates_greedy_simpy (env : SimEnv) (s0 : Sys) (hw : Sys.WFConfig s0)
    (hfe : Sys.Feasible s0)
    (hb0 : s0.buf.hot.stored = [] ∧ s0.buf.hot.scheduled = [] ∧ s0.buf.hot.finished = [] ∧
      s0.buf.cold.stored = [])
    (hfull : s0.buf.size = [] ∧ s0.buf.hot.cur = s0.buf.hot.total ∧ s0.buf.cold.cur = s0.buf.cold.total)
    (hct : s0.buf.cold.transfer = none) (hh0 : s0.halted = false)
    (hH1 : Sys.NoTierCfg s0) (hH2 : Sys.OneAdmission s0) (halg : s0.alg = .greedy)
    (hstat : s0.staticPlan = true) (htopo : ∀ o ∈ s0.obs, IsTopo o.wf) (hplan : PlanOk env s0) :
    ∃ n, (ilSimSteps env n (SimState.start s0)).st.isFinished = true ∧
      (ilSimSteps env n (SimState.start s0)).st.crashed = none ∧
      SimRun env s0 (ilSimSteps env n (SimState.start s0)) := by
  have _ := hH2
  exact C05_terminates_greedy_simpy_noH2 env s0 hw hfe hb0 hfull hct hh0 hH1 halg hstat htopo hplan

/-! ### the raise sites that depend on the order inside an instant, and on the plan -/

/-- **An allocation process finds its machine available** (`NcPCfg` = the hypotheses of (3)): when the
kernel runs the first block of a scheduler-side `allocate_task_to_cluster` process, in a run that
has not raised, its machine is in the available pool — no other workflow, and no ingest, has taken it
between the proposal and this block. -/
theorem C05_plan_allocTask_finds_machine_simpy {env : SimEnv} {s0 : Sys} (N : NcPCfg env s0) (n : Nat)
    (hc : (simAt env s0 n).st.crashed = none) {e : HEntry} {p : Proc}
    (hpk : (simAt env s0 n).peek = some e) (hpp : (simAt env s0 n).st.proc? e.pid = some p)
    (ha : p.alive = true) {t : Tid} {m : Mid} {preds : List Tid} {obs : Option Oid} {ret : Nat}
    (hk : p.k = .allocTask t m preds obs false ret) (hpc : p.pc = 0) :
    m ∈ (simAt env s0 n).st.cl.available :=
  nc_allocTask_avail_P N n hc hpk hpp ha hk hpc

/-- **No proposal is ever left over**: the local schedule of every `allocate_tasks` process (alive or
ended) is empty between its blocks — every proposal of a block is handed to an allocation process in
that block. -/
theorem C05_plan_no_leftover_simpy {env : SimEnv} {s0 : Sys} (N : NcPCfg env s0) (n : Nat)
    (hc : (simAt env s0 n).st.crashed = none) :
    ∀ q ∈ (simAt env s0 n).st.procs, ∀ o sc pa po fn, q.k = .allocTasks o sc pa po fn → sc = [] :=
  (nc_ncm_P N n hc).scNil

/-- **The machine lookup never fails**: for every UNSCHEDULED task of every plan, the record names a
machine of the cluster by id (`allocated_machine_id` has not been replaced by a Machine object), so
`cluster.get_machine_from_id(task.allocated_machine_id)` succeeds. -/
theorem C05_plan_machine_lookup_simpy {env : SimEnv} {s0 : Sys} (N : NcPCfg env s0) (n : Nat)
    (hc : (simAt env s0 n).st.crashed = none) :
    ∀ pl ∈ (simAt env s0 n).st.plans, ∀ t ∈ pl.tasks, Sys.tstat (simAt env s0 n).st t = .unscheduled →
      ∃ m, ((simAt env s0 n).st.taskView t).machine = .ok m := by
  intro pl hpl t ht hu
  obtain ⟨m, hon, hmm⟩ := (nc_ncm_P N n hc).mo pl hpl t ht hu
  exact ⟨m, Sys.taskView_machine_of_onPlan_P hon hmm⟩

/-! ### (4) the stages (trajectory level; `LivePCfg` = the hypotheses of (2) and `NoRaise`) -/

/-- every worker process — ingest supervisor, provisioning, ingest stream, allocation process, task
body — ends -/
theorem C05_plan_worker_ends_partial {env : SimEnv} {s0 : Sys} (C : LivePCfg env s0) (hh0 : s0.halted = false)
    {n pid : Nat} {p : Proc} (hp : (simAt env s0 n).st.proc? pid = some p) (ha : p.alive = true)
    (hk : p.k.tag = "allocIngest" ∨ p.k.tag = "provIngest" ∨ p.k.tag = "ingestStream" ∨
      p.k.tag = "allocTask" ∨ p.k.tag = "doWork") :
    ∃ n', n ≤ n' ∧ ∃ p', (simAt env s0 n').st.proc? pid = some p' ∧ p'.alive = false :=
  live_worker_ends_P C (liveKernel_P C hh0) hp ha hk

/-- an admitted observation becomes FINISHED -/
theorem C05_plan_admitted_finishes_partial {env : SimEnv} {s0 : Sys} (C : LivePCfg env s0)
    (hh0 : s0.halted = false) {n : Nat} {o : Oid} {ob : Obs} {a : Nat}
    (hob : (simAt env s0 n).st.obs? o = some ob) (hast : ob.ast = some a) :
    ∃ n', n ≤ n' ∧ ∃ ob', (simAt env s0 n').st.obs? o = some ob' ∧ ob'.status = .finished :=
  live_obs_finishes_P C (liveKernel_P C hh0) hob hast

/-- from some index on no worker process is alive -/
theorem C05_plan_quiescent_partial {env : SimEnv} {s0 : Sys} (C : LivePCfg env s0) (hh0 : s0.halted = false) :
    ∃ N, ∀ n, N ≤ n → (simAt env s0 n).st.NoWorker :=
  let ⟨N, _, h⟩ := live_quiescent_P C (liveKernel_P C hh0) (liveParts_P C (liveKernel_P C hh0)); ⟨N, h⟩

/-- **Progress of `allocate_tasks`.**  A block of the `allocate_tasks` process of an observation not
yet removed, in a state with no allocation process or task body alive, no machine occupied or
ingesting (every machine is then in the available pool), removes the observation (its pruned plan is
empty) or starts one more task of its workflow (the record of a node goes from UNSCHEDULED to
SCHEDULED) — whichever observation it is: the order in which the scheduler visits the workflows
cannot starve one of them. -/
theorem C05_plan_allocTasks_progress_partial {env : SimEnv} {s0 : Sys} (C : LivePCfg env s0)
    (hh0 : s0.halted = false) (n : Nat) {e : HEntry} {p : Proc}
    (hpk : (simAt env s0 n).peek = some e) (hpp : (simAt env s0 n).st.proc? e.pid = some p)
    (ha : p.alive = true) {o : Oid} {sc pa : List (Tid × Mid)} {po : List Tid}
    (hk : p.k = .allocTasks o sc pa po false) (hrm : o ∉ (simAt env s0 n).st.buf.hot.finished)
    (hav : (simAt env s0 n).st.cl.available ≠ [])
    (hocc : (simAt env s0 n).st.cl.occupied = [] ∧ (simAt env s0 n).st.cl.ingest = [])
    (hq : ∀ q ∈ (simAt env s0 n).st.procs, q.alive = true → q.k.tag ≠ "allocTask" ∧ q.k.tag ≠ "doWork") :
    o ∈ (simAt env s0 (n + 1)).st.buf.hot.finished ∨
    ∃ ob ∈ s0.obs, ob.id = o ∧ ∃ node ∈ ob.wf.topo,
      ¬ Sys.PSch o node (simAt env s0 n).st ∧ Sys.PSch o node (simAt env s0 (n + 1)).st :=
  live_allocTasks_progress_P C (liveKernel_P C hh0) n hpk hpp ha hk hrm hav hocc hq

/-- every plan in the state is the plan of a configured observation; its tasks are nodes of the
workflow, and every node of the workflow has a record -/
theorem C05_plan_covers_workflow_partial {env : SimEnv} {s0 : Sys} (C : LivePCfg env s0) (hh0 : s0.halted = false)
    (n : Nat) : ∀ pl ∈ (simAt env s0 n).st.plans, ∃ o ∈ s0.obs, ∃ c, pl.obs = o.id ∧
      pl.edges = o.wf.edges.map (fun e => (Tid.wf o.id c e.1, Tid.wf o.id c e.2.1)) ∧
      (∀ t ∈ pl.tasks, ∃ node ∈ o.wf.topo, t = Tid.wf o.id c node) ∧
      (∀ node ∈ o.wf.topo, ∃ r ∈ (simAt env s0 n).st.tasks, r.id = Tid.wf o.id c node) :=
  live_planI_P C (liveKernel_P C hh0) n

/-! ### (4) what one `run()` of the algorithms does -/

/-- **DynamicSchedulingFromPlan: a ready task whose planned machine is available is started in that
`run()`** — or a task of the same plan planned on the same machine that comes before it in the
planned-start order is.  `T` a task of the plan and of the ready pool, UNSCHEDULED, every predecessor
reported finished, planned on `m`, `m` in the available pool, no leftover schedule, the run does not
raise: some proposal of the run is on `m`, for a task planned on `m`. -/
theorem C05_dynamic_ready_task_started (cl : Cluster) (plan : Plan) (view : Tid → TaskView)
    (po : List Tid) (out : AlgOut) (T : Tid) (m : Mid) (hT : T ∈ plan.tasks) (hp : T ∈ Alg.seedPool plan po)
    (hu : (view T).status = .unscheduled) (hready : Alg.predsFinished cl plan T = true)
    (hmach : (view T).machine = .ok m) (hav : m ∈ cl.available)
    (h : Alg.dynamicRun cl plan view [] po = .ok out) :
    ∃ x ∈ out.schedule, x.2 = m ∧ (view x.1).machine = .ok m :=
  l7_dynamic_machine_used_P cl plan view po out T m hT hp hu hready hmach hav h

/-- DynamicSchedulingFromPlan proposes something as soon as one ready UNSCHEDULED task of the pool
has its planned machine in the available pool: the loop does not stop at a task that is not ready,
or whose planned machine is busy (it skips it) -/
theorem C05_dynamic_run_progress (cl : Cluster) (plan : Plan) (view : Tid → TaskView) (sc : List (Tid × Mid))
    (po : List Tid) (out : AlgOut) (T : Tid) (hT : T ∈ plan.tasks) (hp : T ∈ Alg.seedPool plan po)
    (hu : (view T).status = .unscheduled) (hready : Alg.predsFinished cl plan T = true)
    (hmach : ∀ m, (view T).machine = .ok m → m ∈ cl.available) (hav : cl.available ≠ [])
    (h : Alg.dynamicRun cl plan view sc po = .ok out) : out.schedule ≠ [] :=
  l7_dynamic_progress_P cl plan view sc po out T hT hp hu hready hmach hav h

/-- GreedySchedulingFromPlan proposes something as soon as one UNSCHEDULED task of the plan has all
its predecessors in the finished-task map and a machine is available (its planned machine, or the
first free one) -/
theorem C05_greedy_run_progress (cl : Cluster) (plan : Plan) (view : Tid → TaskView) (sc : List (Tid × Mid))
    (po : List Tid) (out : AlgOut) (T : Tid) (hT : T ∈ plan.tasks)
    (hu : (view T).status = .unscheduled)
    (hready : (view T).predIds.all (fun p => dictHas cl.finished p) = true) (hav : cl.available ≠ [])
    (h : Alg.greedyRun cl plan view sc po = .ok out) : out.schedule ≠ [] :=
  l7_greedy_progress_P cl plan view sc po out T hT hu hready hav h

/-- the machines one `run()` of either algorithm proposes (no leftover schedule) are pairwise
different machines of the available pool — greedy's fallback included -/
theorem C05_plan_run_machines (s1 : Sys) (orc : Oracle) (plan : Plan) (pool : List Tid)
    (out : AlgOut) (halg : s1.alg = .dynamic ∨ s1.alg = .greedy) (hnd : s1.cl.available.Nodup)
    (h : s1.runAlgorithm orc plan [] pool = .ok out) :
    (out.schedule.map (·.2)).Nodup ∧ ∀ x ∈ out.schedule, x.2 ∈ s1.cl.available :=
  nc_planRun_machines_P s1 orc plan pool out halg hnd h


/-! ### no task is starved; a ready task whose planned machine is free is started at once -/

/-- F14 — H2 (`OneAdmission`) dropped, the repaired admission test makes it unnecessary.  **Every task of every workflow runs to the end** (either plan-following algorithm, the hypotheses
of the targets).  There is an index `N` at which no worker process is alive, the scheduler's queue is
empty, every observation of the configuration has been removed from the hot buffer, and every node
of its workflow has a FINISHED record.  In particular a task whose planned machine is busy — held by
an ingest, by a task of its own workflow or by a task of another workflow planned on the same
machine — waits only finitely long: no visiting order of the scheduler starves it. -/
theorem C05_plan_every_task_finishes_simpy_noH2 (env : SimEnv) (s0 : Sys) (hw : Sys.WFConfig s0)
    (hfe : Sys.Feasible s0)
    (hb0 : s0.buf.hot.stored = [] ∧ s0.buf.hot.scheduled = [] ∧ s0.buf.hot.finished = [] ∧
      s0.buf.cold.stored = [])
    (hfull : s0.buf.size = [] ∧ s0.buf.hot.cur = s0.buf.hot.total ∧ s0.buf.cold.cur = s0.buf.cold.total)
    (hct : s0.buf.cold.transfer = none) (hh0 : s0.halted = false)
    (hH1 : Sys.NoTierCfg s0) (halg : s0.alg = .dynamic ∨ s0.alg = .greedy)
    (hstat : s0.staticPlan = true) (htopo : ∀ o ∈ s0.obs, IsTopo o.wf) (hplan : PlanOk env s0) :
    ∃ N, (ilSimSteps env N (SimState.start s0)).st.NoWorker ∧
      (ilSimSteps env N (SimState.start s0)).st.queue = [] ∧
      (ilSimSteps env N (SimState.start s0)).st.crashed = none ∧
      ∀ ob ∈ s0.obs, ob.id ∈ (ilSimSteps env N (SimState.start s0)).st.buf.hot.finished ∧
        ∀ node ∈ ob.wf.topo, ∃ c r,
          (ilSimSteps env N (SimState.start s0)).st.task? (Tid.wf ob.id c node) = some r ∧
          r.status = .finished := by
  have N : NcPCfg env s0 := ⟨hw, hfe, hb0, hfull, hct, hH1, halg, hstat, htopo, hplan, hh0⟩
  have C := N.toLive (live_noRaise_P N)
  obtain ⟨n, h1, h2, h3⟩ := live_every_task_finished_P C hh0
  refine ⟨n, ?_⟩
  rw [← simAt_eq_ilSimSteps]
  exact ⟨h1, h2, C.nr n, h3⟩

-- F14: H2 is no longer needed (`…_noH2` above); statement kept verbatim
/-- **Every task of every workflow runs to the end** (either plan-following algorithm, the hypotheses
of the targets).  There is an index `N` at which no worker process is alive, the scheduler's queue is
empty, every observation of the configuration has been removed from the hot buffer, and every node
of its workflow has a FINISHED record.  In particular a task whose planned machine is busy — held by
an ingest, by a task of its own workflow or by a task of another workflow planned on the same
machine — waits only finitely long: no visiting order of the scheduler starves it. -/
theorem C05_plan_every_task_finishes_simpy (env : SimEnv) (s0 : Sys) (hw : Sys.WFConfig s0)
    (hfe : Sys.Feasible s0)
    (hb0 : s0.buf.hot.stored = [] ∧ s0.buf.hot.scheduled = [] ∧ s0.buf.hot.finished = [] ∧
      s0.buf.cold.stored = [])
    (hfull : s0.buf.size = [] ∧ s0.buf.hot.cur = s0.buf.hot.total ∧ s0.buf.cold.cur = s0.buf.cold.total)
    (hct : s0.buf.cold.transfer = none) (hh0 : s0.halted = false)
    (hH1 : Sys.NoTierCfg s0) (hH2 : Sys.OneAdmission s0) (halg : s0.alg = .dynamic ∨ s0.alg = .greedy)
    (hstat : s0.staticPlan = true) (htopo : ∀ o ∈ s0.obs, IsTopo o.wf) (hplan : PlanOk env s0) :
    ∃ N, (ilSimSteps env N (SimState.start s0)).st.NoWorker ∧
      (ilSimSteps env N (SimState.start s0)).st.queue = [] ∧
      (ilSimSteps env N (SimState.start s0)).st.crashed = none ∧
      ∀ ob ∈ s0.obs, ob.id ∈ (ilSimSteps env N (SimState.start s0)).st.buf.hot.finished ∧
        ∀ node ∈ ob.wf.topo, ∃ c r,
          (ilSimSteps env N (SimState.start s0)).st.task? (Tid.wf ob.id c node) = some r ∧
          r.status = .finished := by
  have _ := hH2
  exact C05_plan_every_task_finishes_simpy_noH2 env s0 hw hfe hb0 hfull hct hh0 hH1 halg hstat htopo hplan

/-- **DynamicSchedulingFromPlan, along the run: a ready task whose planned machine is available is
started in that block of `allocate_tasks`** — it, or a task of the same plan planned on the same
machine that comes before it in the planned-start order.  `N` = the hypotheses of the targets, the
algorithm is `.dynamic`; the kernel resumes the `allocate_tasks` process of observation `o`; `T` is a
task of the plan of `o`, UNSCHEDULED, every predecessor FINISHED and reported finished by the
cluster, its record names machine `m` (an id of the cluster) and `m` is in the available pool.
Then the state after the block has an allocation process on `m` for a task `t'` of `o` that was
UNSCHEDULED (so the process is new) and planned on `m` before the block. -/
theorem C05_dynamic_ready_task_started_simpy {env : SimEnv} {s0 : Sys} (N : NcPCfg env s0)
    (hd : s0.alg = .dynamic) (n : Nat) {e : HEntry} {p : Proc}
    (hpk : (simAt env s0 n).peek = some e) (hpp : (simAt env s0 n).st.proc? e.pid = some p)
    {o : Oid} {sc pa : List (Tid × Mid)} {po : List Tid} (hk : p.k = .allocTasks o sc pa po false)
    {T : Tid} (hT : T ∈ Sys.planTasks (simAt env s0 n).st o)
    (hu : Sys.tstat (simAt env s0 n).st T = .unscheduled)
    (hpreds : ∀ pl, (simAt env s0 n).st.plan? o = some pl → ∀ u ∈ pl.preds T,
      Sys.tstat (simAt env s0 n).st u = .finished ∧ Sys.FinT (simAt env s0 n).st u)
    {m : Mid} (hon : Sys.OnPlan (simAt env s0 n).st T m)
    (hmm : ((simAt env s0 n).st.machine? m).isSome = true) (hav : m ∈ (simAt env s0 n).st.cl.available) :
    ∃ q ∈ (simAt env s0 (n + 1)).st.procs, ∃ t' cross, q.k = .allocTask t' m cross (some o) false 0 ∧
      Sys.tstat (simAt env s0 n).st t' = .unscheduled ∧ Sys.OnPlan (simAt env s0 n).st t' m := by
  have C := N.toLive (live_noRaise_P N)
  have K := liveKernel_P C N.hh0
  have L := l7_lib_P C K n
  have hdn : (simAt env s0 n).st.alg = .dynamic := (reach_alg L.ok.toReach).trans hd
  exact Sys.l7_dynamic_started_P L hdn (Sys.live_l7pool_P C K hd n) (nc_ncm_P N n (C.nr n))
    (l7_step_at_P C K n hpk hpp) hk hT hu hpreds hon hmm hav

/-! ### the hypotheses are satisfiable, and `PlanOk` is needed -/

/-- the hypotheses of the two targets hold of configuration `plW alg` with the plan `plEnvOk` (two
machines, one observation with the chain workflow `0 → 1`, both tasks planned on machine 1), whose
run is at `is_finished()` with nothing raised before t = 12, under either algorithm -/
theorem C05_plan_hypotheses_satisfiable :
    (Sys.WFConfig (plW .dynamic) ∧ Sys.Feasible (plW .dynamic) ∧ Sys.NoTierCfg (plW .dynamic) ∧
      Sys.OneAdmission (plW .dynamic) ∧ (plW .dynamic).staticPlan = true ∧
      (∀ o ∈ (plW .dynamic).obs, IsTopo o.wf) ∧ PlanOk plEnvOk (plW .dynamic) ∧
      SimRun plEnvOk (plW .dynamic) plKOkD ∧ plKOkD.st.isFinished = true ∧ plKOkD.st.crashed = none) ∧
    (Sys.WFConfig (plW .greedy) ∧ Sys.Feasible (plW .greedy) ∧ Sys.NoTierCfg (plW .greedy) ∧
      Sys.OneAdmission (plW .greedy) ∧ (plW .greedy).staticPlan = true ∧
      (∀ o ∈ (plW .greedy).obs, IsTopo o.wf) ∧ PlanOk plEnvOk (plW .greedy) ∧
      SimRun plEnvOk (plW .greedy) plKOkG ∧ plKOkG.st.isFinished = true ∧ plKOkG.st.crashed = none) :=
  ⟨⟨plW_wf _, plW_feasible_dynamic, plW_h1 _, plW_h2 _, rfl, plW_topo _, plW_planOk _, plKOkD_run,
      plKOkD_spec.2.1, plKOkD_spec.1⟩,
   ⟨plW_wf _, plW_feasible_greedy, plW_h1 _, plW_h2 _, rfl, plW_topo _, plW_planOk _, plKOkG_run,
      plKOkG_spec.2.1, plKOkG_spec.1⟩⟩

/-- **`PlanOk.mach` is needed.**  Configuration `plW` (well formed, feasible, H1, H2, H4) with the plan
`plEnvBadMach`, which puts task 0 on machine 7 — an id the cluster does not have: the run raises
KeyError with both tasks UNSCHEDULED, under either algorithm. -/
theorem C05_plan_mach_needed_witness :
    (Sys.WFConfig (plW .dynamic) ∧ Sys.Feasible (plW .dynamic) ∧ Sys.NoTierCfg (plW .dynamic) ∧
      Sys.OneAdmission (plW .dynamic) ∧ (∀ o ∈ (plW .dynamic).obs, IsTopo o.wf) ∧
      ¬ PlanOk plEnvBadMach (plW .dynamic) ∧ SimRun plEnvBadMach (plW .dynamic) plKBadD ∧
      plKBadD.st.crashed = some Err.key ∧
      plRecs plKBadD.st = [(.wf 0 1 0, some 7, .unscheduled), (.wf 0 1 1, some 1, .unscheduled)]) ∧
    (¬ PlanOk plEnvBadMach (plW .greedy) ∧ SimRun plEnvBadMach (plW .greedy) plKBadG ∧
      plKBadG.st.crashed = some Err.key ∧
      plRecs plKBadG.st = [(.wf 0 1 0, some 7, .unscheduled), (.wf 0 1 1, some 1, .unscheduled)]) :=
  ⟨⟨plW_wf _, plW_feasible_dynamic, plW_h1 _, plW_h2 _, plW_topo _, plW_not_planOk_badMach _, plKBadD_run,
      plKBadD_spec.1, plKBadD_spec.2.2.2.1⟩,
   ⟨plW_not_planOk_badMach _, plKBadG_run, plKBadG_spec.1, plKBadG_spec.2.2.2.1⟩⟩

/-- **`PlanOk.cover` is needed.**  Configuration `plW` with the plan `plEnvMissing`, which has a row for
task 1 only (task 0, its predecessor, has none): after every event before t = 40 the observation is
still in the scheduler's queue, task 1 is UNSCHEDULED, no task body is alive, nothing has raised and
the simulation is not finished, under either algorithm. -/
theorem C05_plan_cover_needed_witness :
    (¬ PlanOk plEnvMissing (plW .dynamic) ∧ SimRun plEnvMissing (plW .dynamic) plKMissD ∧
      plKMissD.st.crashed = none ∧ plKMissD.st.isFinished = false ∧ plKMissD.st.queue = [0] ∧
      plRecs plKMissD.st = [(.wf 0 1 1, some 1, .unscheduled)] ∧ plKMissD.st.active = []) ∧
    (¬ PlanOk plEnvMissing (plW .greedy) ∧ SimRun plEnvMissing (plW .greedy) plKMissG ∧
      plKMissG.st.crashed = none ∧ plKMissG.st.isFinished = false ∧ plKMissG.st.queue = [0] ∧
      plRecs plKMissG.st = [(.wf 0 1 1, some 1, .unscheduled)] ∧ plKMissG.st.active = []) :=
  ⟨⟨plW_not_planOk_missing _, plKMissD_run, plKMissD_spec⟩,
   ⟨plW_not_planOk_missing _, plKMissG_run, plKMissG_spec⟩⟩

end Topsim
