/-
  C09 — batch reservations are exclusive, bounded and released.
  (Algorithm-level statements; exclusivity of the pools themselves is C02.)
-/
import TopsimProofs.AlgLemmas

namespace Topsim

/-- BatchProcessing proposes only machines reserved (idle) for its own observation … -/
theorem C09_only_reserved (cl : Cluster) (plan : Plan) (view : Tid → TaskView)
    (parts minPer : Nat) (split : Option (List (Oid × Nat × Nat)))
    (sched : List (Tid × Mid)) (pool : List Tid) (out : AlgOut)
    (h : Alg.batchRun cl plan view parts minPer split sched pool = .ok out) :
    ∀ p ∈ out.schedule, p ∉ sched →
      ∃ cl1, Alg.provisionResources cl parts minPer split plan.obs = .ok (cl1, true) ∧
             p.2 ∈ cl1.idleOf (some plan.obs) :=
  batch_only_reserved cl plan view parts minPer split sched pool out h

/-- … and it is provisioned at most once per observation, only while fewer than
`partitions` reservations exist, with a size within the configured bounds -/
theorem C09_provision_bounds (cl cl1 : Cluster) (parts minPer : Nat) (o : Oid)
    (hnot : cl.isProvisioned o = false)
    (h : Alg.provisionResources cl parts minPer none o = .ok (cl1, true)) :
    cl.numProv < (parts : Int) ∧
    ∃ size, minPer ≤ size ∧ size ≤ cl.machines.length / parts ∧ size ≤ cl.available.length ∧
            cl.provisionBatch size o = (cl1, none) :=
  provision_bounds cl cl1 parts minPer o hnot h

theorem C09_provision_bounds_split (cl cl1 : Cluster) (parts minPer : Nat)
    (sp : List (Oid × Nat × Nat)) (o : Oid) (lo hi : Nat) (hsp : dictGet sp o = some (lo, hi))
    (hnot : cl.isProvisioned o = false)
    (h : Alg.provisionResources cl parts minPer (some sp) o = .ok (cl1, true)) :
    cl.numProv < (parts : Int) ∧
    ∃ size, minPer ≤ size ∧ size ≤ hi ∧ size ≤ cl.available.length ∧
            (size = 0 ∨ lo ≤ cl.available.length) ∧ cl.provisionBatch size o = (cl1, none) :=
  provision_bounds_split cl cl1 parts minPer sp o lo hi hsp hnot h

/-- an already provisioned observation is never provisioned again -/
theorem C09_provision_once (cl : Cluster) (parts minPer : Nat)
    (split : Option (List (Oid × Nat × Nat))) (o : Oid) (h : cl.isProvisioned o = true) :
    Alg.provisionResources cl parts minPer split o = .ok (cl, true) := by
  simp [Alg.provisionResources, h]

/-- a reservation of `size ≥ 1` takes exactly the first `size` available machines -/
theorem C09_provision_takes (c c' : Cluster) (size : Nat) (o : Oid)
    (hk : dictHas c.idle o = false) (hnd : c.available.Nodup)
    (hs : 1 ≤ size) (hsz : size ≤ c.available.length)
    (h : c.provisionBatch size o = (c', none)) :
    c'.idleOf (some o) = c.available.take size ∧ c'.available = c.available.drop size ∧
    c'.numProv = c.numProv + 1 :=
  provisionBatch_takes c c' size o hk hnd hs hsz h

/-- the whole reservation returns to the free pool when the workflow's last
task has finished (the plan is empty) -/
theorem C09_release (c : Cluster) (o : Oid) (l : List Mid) (h : dictGet c.idle o = some l) (hl : l ≠ [])
    (hk : (dictKeys c.idle).Nodup) :
    (c.releaseBatch o).available = c.available ++ l ∧
    dictHas (c.releaseBatch o).idle o = false ∧ (c.releaseBatch o).numProv = c.numProv - 1 :=
  releaseBatch_returns c o l h hl hk

theorem C09_release_at_end (cl : Cluster) (plan : Plan) (view : Tid → TaskView)
    (parts minPer : Nat) (split : Option (List (Oid × Nat × Nat)))
    (sched : List (Tid × Mid)) (pool : List Tid) (out : AlgOut) (hempty : plan.tasks = [])
    (h : Alg.batchRun cl plan view parts minPer split sched pool = .ok out) :
    ∃ cl1 b, Alg.provisionResources cl parts minPer split plan.obs = .ok (cl1, b) ∧
      out.cl = cl1.releaseBatch plan.obs ∧ out.status = .finished :=
  batch_release_at_end cl plan view parts minPer split sched pool out hempty h

end Topsim
