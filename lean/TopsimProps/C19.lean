/-
  C19 — idle / empty / finished queries tell the truth.
-/
import TopsimProofs.QueryLemmas

namespace Topsim

/-- the cluster reports idle exactly when no task is running and no machine is
busy with ingest or workflow work (after the F1 repair) -/
theorem C19_cluster (c : Cluster) :
    c.isIdle = true ↔ c.running = [] ∧ c.occupied = [] ∧ c.ingest = [] :=
  cluster_isIdle_iff c

/-- before the repair it answered True with a task running (witness of F1) -/
def isIdleBeforeF1 (c : Cluster) : Bool :=
  (c.running.length == 0 || true) && (c.occupied.length == 0 || c.ingest.length == 0)
theorem C19_old_wrong :
    isIdleBeforeF1 { (Cluster.init [0, 1]) with running := [.raw 0], ingest := [0], available := [1] } = true := by
  decide

/-- on reachable cluster states "nothing running / occupied / on ingest" is the
same as "no allocation process alive": no live task body anywhere -/
theorem C19_cluster_truth (ms : List Mid) (hms : ms.Nodup) (ops : List ClOp)
    (hf : Cluster.FreshHist ops) :
    let c := (Cluster.init ms).run ops
    c.isIdle = true → c.runOn = [] ∧ c.pending = [] :=
  cluster_idle_truth ms hms ops hf

theorem C19_buffer (b : Buffer) :
    b.isEmpty = true ↔ b.hot.cur = b.hot.total ∧ b.cold.cur = b.cold.total :=
  buffer_isEmpty_iff b

theorem C19_scheduler (s : Sys) : s.queue.isEmpty = true ↔ s.queue = [] := by
  simp

theorem C19_telescope (s : Sys) :
    s.telIsIdle = true ↔ (∀ o ∈ s.obs, o.status = .finished) ∧ s.telStatus = false ∧ s.telUse = 0 :=
  telescope_isIdle_iff s

theorem C19_simulation (s : Sys) :
    s.isFinished = true ↔
      s.buf.isEmpty = true ∧ s.cl.isIdle = true ∧ s.queue = [] ∧ s.telIsIdle = true :=
  sim_isFinished_iff s

end Topsim
