/-
  C18 / C16 — the "real time" cold tier.

  In the code a cold-buffer `max_data_rate` of −1 means "real time: the cold tier is an extension of
  the hot one": a tier move then takes ONE step whatever the size.  `Config.parse_buffer_config`
  multiplies every rate by the timestep unit, so the marker reaches the buffer as −unit;
  `transfer_observation` tests `transfer_rate < 0`; `receive_observation` tests `data_rate > 0` and
  takes the real-time branch otherwise; both sides of a move are called with the lock-step rate
  `min(hot.max_ingest_data_rate, cold.max_data_rate)` (`Buffer.moveRate`).

  (1) `C18_realtime_*`   — a move at a negative lock-step rate: amounts, one step, conservation, end
                           state; on `hot2coldRun` / `cold2hotRun`, on `BufOp` histories (L1), on the
                           blocks of the move processes (L2), and on the functions translated from
                           buffer.py (`Gen.*`).
  (2) `C16_realtime_*`   — the marker survives scaling as a NEGATIVE number (not as −1); a move with a
                           real-time cold tier does not depend on the unit.
  (3) admission / lock-step — `has_capacity_for`, `check_buffer_capacity`, the decisions of
                           `Buffer.run` never read a rate; with a real-time cold tier the lock-step rate
                           is negative whatever the hot rate, and the lock-step check never raises.
      FINDING (rate ZERO, not negative): at lock-step rate 0 the receiver takes the real-time
      branch and the sender the metered one; the lock-step check raises for every observation of
      non-zero size (`C18_rate_zero_lockstep_raises`, witness `C18_rate_zero_witness`).
-/
import TopsimProofs.Coro3
import TopsimProofs.Coro4
import TopsimProofs.Bridge.TierArith
import TopsimProps.C18
import TopsimProps.C16

namespace Topsim
namespace Buffer

/-! ## (1) one step moves everything -/

/-- the per-step amounts at a negative rate: receiver and sender both take the whole size and
return the same residual — the lock-step check `check != data_left_to_transfer` cannot fire -/
theorem C18_realtime_amount (rate left size : Int) (hr : rate < 0) :
    recvAmount rate left size = (size, left - size) ∧ sendAmount rate left size = (size, left - size) ∧
    (recvAmount rate left size).2 = (sendAmount rate left size).2 :=
  ⟨coro_recv_neg rate left size hr, coro_send_neg rate left size hr, by
    rw [coro_recv_neg rate left size hr, coro_send_neg rate left size hr]⟩

/-- **One step of a move at a negative lock-step rate moves the whole observation**, both directions:
the residual of a move is the size, the step returns residual 0, both tiers change by exactly the
size, `hot.cur + cold.cur` is unchanged, the observation is appended to the destination's stored
list, both transfer slots are empty. -/
theorem C18_realtime_step (b : Buffer) (o : Oid) (hr : b.moveRate < 0) :
    (∃ b', b.hot2coldStep o (b.sizeOf o) = (b', .ok 0) ∧
      b'.hot.cur = b.hot.cur + b.sizeOf o ∧ b'.cold.cur = b.cold.cur - b.sizeOf o ∧
      b'.hot.cur + b'.cold.cur = b.hot.cur + b.cold.cur ∧
      b'.cold.stored = b.cold.stored ++ [o] ∧ b'.hot.stored = b.hot.stored ∧
      b'.hot.transfer = none ∧ b'.cold.transfer = none ∧ b'.dltt = 0 ∧ b'.size = b.size) ∧
    (∃ b', b.cold2hotStep o (b.sizeOf o) = (b', .ok 0) ∧
      b'.cold.cur = b.cold.cur + b.sizeOf o ∧ b'.hot.cur = b.hot.cur - b.sizeOf o ∧
      b'.hot.cur + b'.cold.cur = b.hot.cur + b.cold.cur ∧
      b'.hot.stored = b.hot.stored ++ [o] ∧ b'.cold.stored = b.cold.stored ∧
      b'.hot.transfer = none ∧ b'.cold.transfer = none ∧ b'.size = b.size) := by
  refine ⟨⟨_, coro_h2c_step_neg_whole b o hr, rfl, rfl, ?_, rfl, rfl, rfl, rfl, rfl, rfl⟩,
    ⟨_, coro_c2h_step_neg_whole b o hr, rfl, rfl, ?_, rfl, rfl, rfl, rfl, rfl⟩⟩
  · show b.hot.cur + b.sizeOf o + (b.cold.cur - b.sizeOf o) = _
    omega
  · show b.hot.cur - b.sizeOf o + (b.cold.cur + b.sizeOf o) = _
    omega

/-- … with any residual (the `BufOp` alphabet lets a step carry any): the amount is the size, not
the residual; the step never raises; conservation holds. -/
theorem C18_realtime_step_any_residual (b : Buffer) (o : Oid) (left : Int) (hr : b.moveRate < 0) :
    (∃ b', b.hot2coldStep o left = (b', .ok (left - b.sizeOf o)) ∧
      b'.hot.cur = b.hot.cur + b.sizeOf o ∧ b'.cold.cur = b.cold.cur - b.sizeOf o ∧
      b'.hot.cur + b'.cold.cur = b.hot.cur + b.cold.cur) ∧
    (∃ b', b.cold2hotStep o left = (b', .ok (left - b.sizeOf o)) ∧
      b'.cold.cur = b.cold.cur + b.sizeOf o ∧ b'.hot.cur = b.hot.cur - b.sizeOf o ∧
      b'.hot.cur + b'.cold.cur = b.hot.cur + b.cold.cur) := by
  refine ⟨⟨_, coro_h2c_step_neg b o left hr, rfl, rfl, ?_⟩, ⟨_, coro_c2h_step_neg b o left hr, rfl, rfl, ?_⟩⟩
  · show b.hot.cur + b.sizeOf o + (b.cold.cur - b.sizeOf o) = _
    omega
  · show b.hot.cur - b.sizeOf o + (b.cold.cur + b.sizeOf o) = _
    omega

/-- the negative-rate analogue of `C18_h2c_completes`: a started move completes after exactly ONE
step, with both free spaces adjusted by exactly the size, the observation stored in the destination
only, and no transfer slot left occupied -/
theorem C18_realtime_h2c_completes (b : Buffer) (o : Oid) (size : Int) (fuel : Nat)
    (hr : b.moveRate < 0) (hs : 0 < size) (hsz : b.sizeOf o = size) (hfuel : 1 < fuel) :
    ∃ b', hot2coldRun fuel b o size 0 = (b', .ok 1) ∧
      b'.hot.cur = b.hot.cur + size ∧ b'.cold.cur = b.cold.cur - size ∧
      b'.cold.stored = b.cold.stored ++ [o] ∧ b'.hot.stored = b.hot.stored ∧
      b'.hot.transfer = none ∧ b'.cold.transfer = none := by
  subst hsz
  refine ⟨_, coro_h2c_run_neg b o fuel hr hs hfuel, ?_⟩
  rw [coro_h2c_step_neg_whole b o hr]
  exact ⟨rfl, rfl, rfl, rfl, rfl, rfl⟩

theorem C18_realtime_c2h_completes (b : Buffer) (o : Oid) (size : Int) (fuel : Nat)
    (hr : b.moveRate < 0) (hs : 0 < size) (hsz : b.sizeOf o = size) (hfuel : 1 < fuel) :
    ∃ b', cold2hotRun fuel b o size 0 = (b', .ok 1) ∧
      b'.cold.cur = b.cold.cur + size ∧ b'.hot.cur = b.hot.cur - size ∧
      b'.hot.stored = b.hot.stored ++ [o] ∧ b'.cold.stored = b.cold.stored ∧
      b'.hot.transfer = none ∧ b'.cold.transfer = none := by
  subst hsz
  refine ⟨_, coro_c2h_run_neg b o fuel hr hs hfuel, ?_⟩
  rw [coro_c2h_step_neg_whole b o hr]
  exact ⟨rfl, rfl, rfl, rfl, rfl, rfl⟩

/-- **On `BufOp` histories (L1).**  From a buffer whose begin part starts a move of `o`
(`hot2coldBegin` / `cold2hotBegin` returns the residual), lock-step rate negative: the history
`[begin, step o size]` is well formed (the step does not raise), it is the whole move — the step
returns residual 0, so the move process takes no further step — and in the end state the
observation has left the source's stored list (its last element) and sits at the end of the
destination's, both free spaces have changed by exactly the size, no transfer slot is occupied. -/
theorem C18_realtime_completes_in_one_step (b : Buffer) (hr : b.moveRate < 0) :
    (∀ b1 o left, b.hot2coldBegin = (b1, .ok (some (o, left))) →
      left = b.sizeOf o ∧ WFHistDef b [.h2cBegin, .h2cStep o left] ∧
      (b1.hot2coldStep o left).2 = .ok 0 ∧
      b.hot.stored.getLast? = some o ∧
      (b.run [.h2cBegin, .h2cStep o left]).hot.stored = b.hot.stored.dropLast ∧
      (b.run [.h2cBegin, .h2cStep o left]).cold.stored = b.cold.stored ++ [o] ∧
      (b.run [.h2cBegin, .h2cStep o left]).hot.cur = b.hot.cur + b.sizeOf o ∧
      (b.run [.h2cBegin, .h2cStep o left]).cold.cur = b.cold.cur - b.sizeOf o ∧
      (b.run [.h2cBegin, .h2cStep o left]).hot.transfer = none ∧
      (b.run [.h2cBegin, .h2cStep o left]).cold.transfer = none) ∧
    (∀ b1 o left, b.cold2hotBegin = (b1, .ok (some (o, left))) →
      left = b.sizeOf o ∧ WFHistDef b [.c2hBegin, .c2hStep o left] ∧
      (b1.cold2hotStep o left).2 = .ok 0 ∧
      b.cold.stored.getLast? = some o ∧
      (b.run [.c2hBegin, .c2hStep o left]).cold.stored = b.cold.stored.dropLast ∧
      (b.run [.c2hBegin, .c2hStep o left]).hot.stored = b.hot.stored ++ [o] ∧
      (b.run [.c2hBegin, .c2hStep o left]).cold.cur = b.cold.cur + b.sizeOf o ∧
      (b.run [.c2hBegin, .c2hStep o left]).hot.cur = b.hot.cur - b.sizeOf o ∧
      (b.run [.c2hBegin, .c2hStep o left]).hot.transfer = none ∧
      (b.run [.c2hBegin, .c2hStep o left]).cold.transfer = none) := by
  constructor
  · intro b1 o left hbeg
    obtain ⟨hlast, hleft, hb1⟩ := coro_h2cBegin_started b b1 o left hbeg
    have hr1 : b1.moveRate < 0 := by rw [hb1]; exact hr
    have hsz : b1.sizeOf o = b.sizeOf o := by rw [hb1]; rfl
    have hstep := (by rw [hleft, ← hsz] : b1.hot2coldStep o left = b1.hot2coldStep o (b1.sizeOf o)).trans
      (coro_h2c_step_neg_whole b1 o hr1)
    have hrun : b.run [.h2cBegin, .h2cStep o left] = (b1.hot2coldStep o left).1 := by
      show ((b.hot2coldBegin).1.hot2coldStep o left).1 = _
      rw [hbeg]
    refine ⟨hleft, ⟨rfl, ?_, trivial⟩, by rw [hstep], hlast, ?_⟩
    · show (match ((b.hot2coldBegin).1.hot2coldStep o left).2 with | .ok _ => true | .error _ => false) = true
      rw [hbeg, hstep]
    · rw [hrun, hstep, hb1]
      exact ⟨rfl, rfl, rfl, rfl, rfl, rfl⟩
  · intro b1 o left hbeg
    obtain ⟨hlast, hleft, hb1⟩ := coro_c2hBegin_started b b1 o left hbeg
    have hr1 : b1.moveRate < 0 := by rw [hb1]; exact hr
    have hsz : b1.sizeOf o = b.sizeOf o := by rw [hb1]; rfl
    have hstep := (by rw [hleft, ← hsz] : b1.cold2hotStep o left = b1.cold2hotStep o (b1.sizeOf o)).trans
      (coro_c2h_step_neg_whole b1 o hr1)
    have hrun : b.run [.c2hBegin, .c2hStep o left] = (b1.cold2hotStep o left).1 := by
      show ((b.cold2hotBegin).1.cold2hotStep o left).1 = _
      rw [hbeg]
    refine ⟨hleft, ⟨rfl, ?_, trivial⟩, by rw [hstep], hlast, ?_⟩
    · show (match ((b.cold2hotBegin).1.cold2hotStep o left).2 with | .ok _ => true | .error _ => false) = true
      rw [hbeg, hstep]
    · rw [hrun, hstep, hb1]
      exact ⟨rfl, rfl, rfl, rfl, rfl, rfl⟩

end Buffer

/-! ### the blocks of the move processes (L2) -/

namespace Sys

/-- `move_hot_to_cold` with a negative lock-step rate, as the block system runs it: the first block
(begin + first loop iteration, at `now`) moves the whole observation and yields `timeout(1)` with
residual 0; the second block logs "transfer stopped" and ends: the move takes one timestep. -/
theorem C18_realtime_block_h2c (s : Sys) (now now' : Time) (b1 : Buffer) (o : Oid) (left : Int)
    (hbeg : s.buf.hot2coldBegin = (b1, .ok (some (o, left)))) (hr : s.buf.moveRate < 0)
    (hs : 0 < s.buf.sizeOf o) :
    ∃ s', s.hot2coldBlock now none = (s', .hot2cold (some (o, 0)), .timeout 1) ∧
      s'.buf.hot.cur = s.buf.hot.cur + s.buf.sizeOf o ∧ s'.buf.cold.cur = s.buf.cold.cur - s.buf.sizeOf o ∧
      s'.buf.hot.stored = s.buf.hot.stored.dropLast ∧ s'.buf.cold.stored = s.buf.cold.stored ++ [o] ∧
      s'.buf.hot.transfer = none ∧ s'.buf.cold.transfer = none ∧
      s'.hot2coldBlock now' (some (o, 0)) =
        (s'.addBuf ⟨natNow now', o, .transferStopped⟩, .hot2cold (some (o, 0)), .done) :=
  ⟨_, coro_h2cBlock_realtime s now b1 o left hbeg hr hs, rfl, rfl, rfl, rfl, rfl, rfl,
    coro_h2cBlock_done _ now' o⟩

theorem C18_realtime_block_c2h (s : Sys) (now now' : Time) (b1 : Buffer) (o : Oid) (left : Int)
    (hbeg : s.buf.cold2hotBegin = (b1, .ok (some (o, left)))) (hr : s.buf.moveRate < 0)
    (hs : 0 < s.buf.sizeOf o) :
    ∃ s', s.cold2hotBlock now none = (s', .cold2hot (some (o, 0)), .timeout 1) ∧
      s'.buf.cold.cur = s.buf.cold.cur + s.buf.sizeOf o ∧ s'.buf.hot.cur = s.buf.hot.cur - s.buf.sizeOf o ∧
      s'.buf.cold.stored = s.buf.cold.stored.dropLast ∧ s'.buf.hot.stored = s.buf.hot.stored ++ [o] ∧
      s'.buf.hot.transfer = none ∧ s'.buf.cold.transfer = none ∧
      s'.cold2hotBlock now' (some (o, 0)) =
        (s'.addBuf ⟨natNow now', o, .transferStopped⟩, .cold2hot (some (o, 0)), .done) :=
  ⟨_, coro_c2hBlock_realtime s now b1 o left hbeg hr hs, rfl, rfl, rfl, rfl, rfl, rfl,
    coro_c2hBlock_done _ now' o⟩

end Sys

/-! ### the functions translated from buffer.py -/

/-- the four translated methods at a negative rate: (residual, free space, transfer slot[, stored]) -/
theorem C18_realtime_translated (cur : Int) (stored : List Oid) (slot : Option Oid) (maxRate : Int)
    (o : Oid) (size left rate : Int) (hr : rate < 0) :
    Gen.coldReceive cur stored maxRate o size left rate false =
      (left - size, cur - size, if left - size = 0 then none else some o,
        if left - size = 0 then stored ++ [o] else stored) ∧
    Gen.hotReceive cur stored o size left rate =
      (left - size, cur - size, if left - size = 0 then none else some o,
        if left - size = 0 then stored ++ [o] else stored) ∧
    Gen.hotTransfer cur slot o size rate left =
      (left - size, cur + size, if left - size = 0 then none else (if slot.isNone then some o else slot)) ∧
    Gen.coldTransfer cur slot o size rate left =
      (left - size, cur + size, if left - size = 0 then none else (if slot.isNone then some o else slot)) := by
  refine ⟨?_, ?_, ?_, ?_⟩
  · rw [Bridge.coldReceive_eq, Buffer.coro_recv_neg rate left size hr]
  · rw [Bridge.hotReceive_eq, Buffer.coro_recv_neg rate left size hr]
  · rw [Bridge.hotTransfer_eq, Buffer.coro_send_neg rate left size hr]
  · rw [Bridge.coldTransfer_eq, Buffer.coro_send_neg rate left size hr]

/-! ## (2) the marker under the timestep unit -/

/-- **The marker survives scaling as a negative number**: for every unit with a positive multiplier the
scaled cold rate is negative iff the configured one is — for the model's `scale`, for the translated
`parse_buffer_config` expression with its own ladder, and for whole-number rates. -/
theorem C16_realtime_marker_unit_independent (u : TimeUnit) (hm : 0 < multiplier u)
    (start duration rate hot cold flops bw sysbw : Rat) :
    ((scale u start duration rate hot cold flops bw sysbw).coldRate < 0 ↔ cold < 0) ∧
    (Gen.scaleColdRate cold (Gen.multiplierBuffer u) < 0 ↔ cold < 0) ∧
    (∀ r : Int, r * multiplier u < 0 ↔ r < 0) := by
  have hmr : (0 : Rat) < (multiplier u : Rat) := by exact_mod_cast hm
  refine ⟨coro_scaled_neg_iff cold _ hmr, ?_, fun r => coro_int_scaled_neg_iff r _ hm⟩
  rw [Bridge.multiplierBuffer_eq]
  exact coro_scaled_neg_iff cold _ hmr

/-- the value of the scaled marker: −1 becomes −m … -/
theorem C16_realtime_marker_scaled (u : TimeUnit) (start duration rate hot flops bw sysbw : Rat) :
    (scale u start duration rate hot (-1) flops bw sysbw).coldRate = ((-(multiplier u) : Int) : Rat) ∧
    Gen.scaleColdRate (-1) (Gen.multiplierBuffer u) = ((-(multiplier u) : Int) : Rat) := by
  rw [Bridge.multiplierBuffer_eq]
  have : ((-1 : Rat)) * (multiplier u : Rat) = ((-(multiplier u) : Int) : Rat) := by
    rw [Rat.neg_mul, Rat.one_mul]; simp
  exact ⟨this, this⟩

/-- … **which is not −1 unless the unit is one second**: a test `rate == -1` on the scaled value misses
the real-time tier under every other unit, while `rate < 0` recognises it under every positive unit. -/
theorem C16_realtime_marker_not_minus_one (u : TimeUnit) (hm : 0 < multiplier u) (h1 : multiplier u ≠ 1)
    (start duration rate hot flops bw sysbw : Rat) :
    (scale u start duration rate hot (-1) flops bw sysbw).coldRate ≠ -1 ∧
    (scale u start duration rate hot (-1) flops bw sysbw).coldRate < 0 ∧
    (-1 : Int) * multiplier u ≠ -1 ∧ (-1 : Int) * multiplier u < 0 := by
  have hv := (C16_realtime_marker_scaled u start duration rate hot flops bw sysbw).1
  have hneg := (C16_realtime_marker_unit_independent u hm start duration rate hot (-1) flops bw sysbw).1
  refine ⟨?_, hneg.mpr (by decide), by omega, by omega⟩
  rw [hv]
  intro h
  have h' : ((-(multiplier u) : Int) : Rat) = ((-1 : Int) : Rat) := by rw [h]; simp
  have := Rat.intCast_inj.mp h'
  omega

namespace Buffer

/-- **A tier move with a real-time cold tier does not depend on the unit.**  `b`: a buffer whose cold
rate is the marker −1 (unit: seconds), any hot rate; under the unit multiplier `m > 0` the parser
builds the same buffer with rates `hot · m` and `−m` (`coroWithRates`).  Every part of a move — the
begin parts (admission of the move) and each step, with any residual — gives the same result under
both, up to the two rate fields themselves; the rate-free admission tests agree too. -/
theorem C16_realtime_move_unit_independent (b : Buffer) (m : Int) (hm : 0 < m) (hc : b.cold.maxRate = -1)
    (o : Oid) (left : Int) :
    let bm := coroWithRates b (b.hot.maxRate * m) (-1 * m)
    bm.hot2coldStep o left = (coroWithRates (b.hot2coldStep o left).1 (b.hot.maxRate * m) (-1 * m),
      (b.hot2coldStep o left).2) ∧
    bm.cold2hotStep o left = (coroWithRates (b.cold2hotStep o left).1 (b.hot.maxRate * m) (-1 * m),
      (b.cold2hotStep o left).2) ∧
    bm.hot2coldBegin = (coroWithRates b.hot2coldBegin.1 (b.hot.maxRate * m) (-1 * m), b.hot2coldBegin.2) ∧
    bm.cold2hotBegin = (coroWithRates b.cold2hotBegin.1 (b.hot.maxRate * m) (-1 * m), b.cold2hotBegin.2) ∧
    (∀ sz, bm.coldHasCapacityFor sz = b.coldHasCapacityFor sz) ∧
    (∀ sz, bm.hotHasCapacityFor sz = b.hotHasCapacityFor sz) := by
  intro bm
  have hb : b.moveRate < 0 := coro_moveRate_neg_of_cold b (by omega)
  have hn : min (b.hot.maxRate * m) (-1 * m) < 0 := by omega
  exact ⟨coroWithRates_h2cStep b _ _ o left hb hn, coroWithRates_c2hStep b _ _ o left hb hn,
    coroWithRates_h2cBegin b _ _, coroWithRates_c2hBegin b _ _, fun _ => rfl, fun _ => rfl⟩

/-- the general form: any two pairs of rates whose lock-step rate is negative -/
theorem C16_realtime_move_rate_independent (b : Buffer) (h c : Int) (hb : b.moveRate < 0) (hn : min h c < 0)
    (o : Oid) (left : Int) :
    (coroWithRates b h c).hot2coldStep o left =
      (coroWithRates (b.hot2coldStep o left).1 h c, (b.hot2coldStep o left).2) ∧
    (coroWithRates b h c).cold2hotStep o left =
      (coroWithRates (b.cold2hotStep o left).1 h c, (b.cold2hotStep o left).2) :=
  ⟨coroWithRates_h2cStep b h c o left hb hn, coroWithRates_c2hStep b h c o left hb hn⟩

/-- the step functions applied with rate −1 and with rate −m: the same amounts -/
theorem C16_realtime_amount_unit_independent (m left size : Int) (hm : 0 < m) :
    recvAmount (-1) left size = recvAmount (-1 * m) left size ∧
    sendAmount (-1) left size = sendAmount (-1 * m) left size := by
  rw [coro_recv_neg (-1) left size (by decide), coro_recv_neg (-1 * m) left size (by omega),
    coro_send_neg (-1) left size (by decide), coro_send_neg (-1 * m) left size (by omega)]
  exact ⟨rfl, rfl⟩

/-! ## (3) admission and the lock-step rate -/

/-- the admission tests and the decisions of `Buffer.run` never read a rate -/
theorem C18_admission_rate_free (b : Buffer) (h c : Int) :
    (∀ sz, (coroWithRates b h c).coldHasCapacityFor sz = b.coldHasCapacityFor sz) ∧
    (∀ sz, (coroWithRates b h c).hotHasCapacityFor sz = b.hotHasCapacityFor sz) ∧
    (∀ rate duration, (coroWithRates b h c).checkCapacity rate duration = b.checkCapacity rate duration) ∧
    (∀ now, (coroWithRates b h c).loopDecide now = b.loopDecide now) ∧
    (coroWithRates b h c).hot2coldBegin = (coroWithRates b.hot2coldBegin.1 h c, b.hot2coldBegin.2) ∧
    (coroWithRates b h c).cold2hotBegin = (coroWithRates b.cold2hotBegin.1 h c, b.cold2hotBegin.2) :=
  ⟨fun _ => rfl, fun _ => rfl, fun _ _ => rfl, fun _ => rfl, coroWithRates_h2cBegin b h c,
    coroWithRates_c2hBegin b h c⟩

/-- with a real-time cold tier the lock-step rate `min(hot, cold)` is negative whatever the hot
rate — it IS the cold marker when the hot rate is not below it — so both directions are real-time,
and the lock-step check never raises -/
theorem C18_realtime_lockstep (b : Buffer) (hc : b.cold.maxRate < 0) :
    b.moveRate < 0 ∧ (b.cold.maxRate ≤ b.hot.maxRate → b.moveRate = b.cold.maxRate) ∧
    (∀ o left, (b.hot2coldStep o left).2 = .ok (left - b.sizeOf o)) ∧
    (∀ o left, (b.cold2hotStep o left).2 = .ok (left - b.sizeOf o)) := by
  have hr := coro_moveRate_neg_of_cold b hc
  exact ⟨hr, coro_moveRate_eq_cold b, fun o left => by rw [coro_h2c_step_neg b o left hr],
    fun o left => by rw [coro_c2h_step_neg b o left hr]⟩

/-- **FINDING — lock-step rate ZERO** (a cold `max_data_rate` of 0, or a hot `max_ingest_data_rate` of 0,
the other one not negative; 0 · unit = 0 under every unit).  `receive_observation` tests
`data_rate > 0`, so at 0 it takes the real-time branch (the whole size); `transfer_observation`
tests `transfer_rate < 0`, so at 0 it takes the metered branch (gives 0, residual unchanged).  The two
residuals differ by the size: for every observation of non-zero size, every residual ≥ 0, the
lock-step check raises RuntimeError, in both directions — after the receiver's free space has been
debited by the whole size and the sender's credited by nothing. -/
theorem C18_rate_zero_lockstep_raises (b : Buffer) (o : Oid) (left : Int) (hr : b.moveRate = 0)
    (hl : 0 ≤ left) (hs : b.sizeOf o ≠ 0) :
    (b.hot2coldStep o left).2 = .error .runtime ∧ (b.cold2hotStep o left).2 = .error .runtime ∧
    recvAmount 0 left (b.sizeOf o) = (b.sizeOf o, left - b.sizeOf o) ∧ sendAmount 0 left (b.sizeOf o) = (0, left) :=
  ⟨coro_rate_zero_raises_h2c b o left hr hl hs, coro_rate_zero_raises_c2h b o left hr hl hs,
    (coro_rate_zero_amounts left (b.sizeOf o) hl).1, (coro_rate_zero_amounts left (b.sizeOf o) hl).2⟩

/-! ## non-vacuity: units 1, 60 and 7 -/

/-- the buffer the parser builds under unit multiplier `m` from: hot capacity 100, hot rate 5, cold
capacity 100, cold rate −1 (real time); one observation (id 7, 10 units) stored in the hot tier -/
def coroRtBuf (m : Int) : Buffer :=
  { (init 100 (5 * m) 100 (-1 * m)) with
    hot := { (init 100 (5 * m) 100 (-1 * m)).hot with cur := 90, stored := [7] }, size := [(7, 10)] }

/-- the move ended without an exception after exactly one step -/
def coroIsOk1 : Except Err Nat → Bool
  | .ok 1 => true
  | _ => false

theorem coroIsOk1_spec {x : Except Err Nat} (h : coroIsOk1 x = true) : x = .ok 1 := by
  unfold coroIsOk1 at h
  split at h
  · rfl
  · cases h

/-- a RuntimeError was raised -/
def coroIsRuntime {α : Type} : Except Err α → Bool
  | .error .runtime => true
  | _ => false

theorem coroIsRuntime_spec {α : Type} {x : Except Err α} (h : coroIsRuntime x = true) : x = .error .runtime := by
  unfold coroIsRuntime at h
  split at h
  · rfl
  · cases h

/-- what is checked for each unit: the lock-step rate is −m; the hot→cold move starts, takes exactly
one step and ends with hot free 100, cold free 90, observation 7 stored in the cold tier only; the
way back starts, takes exactly one step and restores hot free 90, cold free 100, observation 7 in
the hot tier only -/
def coroRtChk (m : Int) : Bool :=
  let b0 := coroRtBuf m
  decide (b0.moveRate = -m) &&
  (match b0.hot2coldBegin with
    | (b1, .ok (some (o, left))) =>
      let r := hot2coldRun 50 b1 o left 0
      coroIsOk1 r.2 && decide (r.1.hot.cur = 100) && decide (r.1.cold.cur = 90) &&
      decide (r.1.hot.stored = []) && decide (r.1.cold.stored = [7]) &&
      decide (r.1.hot.transfer = none) && decide (r.1.cold.transfer = none) &&
      (match r.1.cold2hotBegin with
        | (b2, .ok (some (o2, left2))) =>
          let r2 := cold2hotRun 50 b2 o2 left2 0
          coroIsOk1 r2.2 && decide (r2.1.hot.cur = 90) && decide (r2.1.cold.cur = 100) &&
          decide (r2.1.hot.stored = [7]) && decide (r2.1.cold.stored = []) &&
          decide (r2.1.hot.transfer = none) && decide (r2.1.cold.transfer = none)
        | _ => false)
    | _ => false)

/-- units 1 (seconds), 60 (minutes), 7 (an integer timestep) -/
theorem C18_realtime_witness : coroRtChk 1 = true ∧ coroRtChk 60 = true ∧ coroRtChk 7 = true := by
  decide

/-- the end state of the hot→cold move under unit `m` is the end state under unit 1 with the two rate
fields replaced -/
def coroRtSame (m : Int) : Bool :=
  match (coroRtBuf 1).hot2coldBegin, (coroRtBuf m).hot2coldBegin with
  | (b1, .ok (some (o, left))), (bm, .ok (some (o', left'))) =>
    decide (o = o') && decide (left = left') &&
    decide ((hot2coldRun 50 bm o' left' 0).1 = coroWithRates (hot2coldRun 50 b1 o left 0).1 (5 * m) (-1 * m))
  | _, _ => false

/-- … and the three end states agree up to the two rate fields (unit independence, evaluated) -/
theorem C16_realtime_witness : coroRtSame 60 = true ∧ coroRtSame 7 = true := by
  decide

end Buffer

/-- the marker under the three units: −1, −60, −7; only the first equals −1, all are negative -/
theorem C16_realtime_marker_witness :
    (scale (.str "seconds") 0 0 0 5 (-1) 0 0 0).coldRate = -1 ∧
    (scale (.str "minutes") 0 0 0 5 (-1) 0 0 0).coldRate = -60 ∧
    (scale (.int 7) 0 0 0 5 (-1) 0 0 0).coldRate = -7 ∧
    (scale (.str "minutes") 0 0 0 5 (-1) 0 0 0).coldRate ≠ -1 ∧
    (scale (.int 7) 0 0 0 5 (-1) 0 0 0).coldRate ≠ -1 ∧
    (scale (.str "minutes") 0 0 0 5 (-1) 0 0 0).coldRate < 0 ∧
    (scale (.int 7) 0 0 0 5 (-1) 0 0 0).coldRate < 0 := by
  decide +kernel

namespace Buffer

/-- witness of the rate-zero finding: hot capacity 100 (rate 5), cold capacity 100, cold rate 0, one
observation of 10 units stored in the hot tier: the move is accepted (`hot2coldBegin` returns the
residual 10), its first step raises RuntimeError, and in the state the exception leaves behind the
cold tier has been debited by 10 while the hot tier has been credited by nothing (90 + 90 ≠ 90 + 100) -/
def coroZeroBuf : Buffer :=
  { (init 100 5 100 0) with
    hot := { (init 100 5 100 0).hot with cur := 90, stored := [7] }, size := [(7, 10)] }

def coroZeroChk : Bool :=
  decide (coroZeroBuf.moveRate = 0) &&
  (match coroZeroBuf.hot2coldBegin with
    | (b1, .ok (some (o, left))) =>
      decide (o = 7) && decide (left = 10) && coroIsRuntime (b1.hot2coldStep o left).2 &&
      decide ((b1.hot2coldStep o left).1.cold.cur = 90) && decide ((b1.hot2coldStep o left).1.hot.cur = 90) &&
      coroIsRuntime (hot2coldRun 50 b1 o left 0).2
    | _ => false)

theorem C18_rate_zero_witness : coroZeroChk = true := by decide

/-- the same, spelled out -/
theorem C18_rate_zero_witness_spec :
    coroZeroBuf.moveRate = 0 ∧
    ∃ b1, coroZeroBuf.hot2coldBegin = (b1, .ok (some (7, 10))) ∧
      (b1.hot2coldStep 7 10).2 = .error .runtime ∧
      (b1.hot2coldStep 7 10).1.cold.cur = 90 ∧ (b1.hot2coldStep 7 10).1.hot.cur = 90 ∧
      b1.hot.cur + b1.cold.cur = 190 := by
  refine ⟨by decide, _, rfl, ?_, by decide, by decide, by decide⟩
  exact coro_rate_zero_raises_h2c _ 7 10 (by decide) (by decide) (by decide)

end Buffer
end Topsim
