/-
  C01 on the task table — "At every instant each machine is executing at most one task", read off
  the recorded intervals: the half-open intervals `[ast, aft)` of two different tasks that ran on
  the same machine are disjoint.

  Vocabulary.  `s.task? t` is the record of task `t` (the one every block reads); `r.ast` / `r.aft`
  the recorded start / finish.  The process table keeps ended processes: `.doWork t m …` is the
  body of `t` on machine `m`; a task has at most one body, so this is "the machine `t` ran on".

  Why it holds (after the F13 repair: the allocation process gives the machine back only when
  `env.now ≥ task.aft`).  A body starts while its own allocation process holds the machine in the
  cluster; the cluster never has two polling entries on one machine; so every other task that has
  started on that machine has been given back, which happens at a time ≥ its recorded finish, and
  the clock never goes back.  The argument uses no order of the blocks inside an instant: the
  statement holds for every block order and every oracle (`ReachOk`), crashed or not, hence along
  SimPy's order.  Before the repair it was false (a body of ≥ 3 steps released its machine at
  `aft - 1`, replayed on the code as F13).
-/
import TopsimProofs.Interval3
import TopsimProofs.DelayTraj10
import TopsimProps.C04Table

namespace Topsim
namespace Sys

/-- **The recorded intervals of one machine are disjoint**, every reachable state of the block system
(any block order, any oracle, crashed or not): for two different tasks with bodies on the same machine
`m` and records with recorded starts `a1`, `a2` and recorded finishes `f1`, `f2`: `f1 ≤ a2 ∨ f2 ≤ a1`. -/
-- Hypotheses.  `hw` only.  Ingest tasks included.  (Each interval is non-empty: `a + 1 ≤ f`,
-- `C06_recorded_span_any_oracle`.)
theorem C01_recorded_intervals_disjoint_traj (s0 s : Sys) (hw : WFConfig s0) (h : ReachOk s0 s) :
    ∀ t1 t2 m r1 r2 a1 f1 a2 f2, t1 ≠ t2 →
      (∃ d ∈ s.procs, ∃ c ph tot, d.k = .doWork t1 m c ph tot) →
      (∃ d ∈ s.procs, ∃ c ph tot, d.k = .doWork t2 m c ph tot) →
      s.task? t1 = some r1 → s.task? t2 = some r2 →
      r1.ast = some a1 → r1.aft = some f1 → r2.ast = some a2 → r2.aft = some f2 →
      f1 ≤ a2 ∨ f2 ≤ a1 := by
  intro t1 t2 m r1 r2 a1 f1 a2 f2 hne ⟨d1, hd1, c1, ph1, tot1, hk1⟩ ⟨d2, hd2, c2, ph2, tot2, hk2⟩
    hr1 hr2 ha1 hf1 ha2 hf2
  rcases (reachOk_ivInv s0 s hw h).pair d1 hd1 d2 hd2 t1 t2 m c1 c2 ph1 ph2 tot1 tot2 hk1 hk2 hne r1 r2 a1 a2
    hr1 hr2 ha1 ha2 with ⟨f, hf, hle⟩ | ⟨f, hf, hle⟩
  · rw [hf1] at hf; injection hf with hf; subst hf; exact Or.inl hle
  · rw [hf2] at hf; injection hf with hf; subst hf; exact Or.inr hle

/-- … for two different records of the table, when the ids of the table are distinct
(`C04_record_ids_unique_traj`) -/
theorem C01_recorded_intervals_disjoint_mem_traj (s0 s : Sys) (hw : WFConfig s0) (h : ReachOk s0 s)
    (hnd : (s.tasks.map (·.id)).Nodup) :
    ∀ r1 ∈ s.tasks, ∀ r2 ∈ s.tasks, r1 ≠ r2 → ∀ m a1 f1 a2 f2,
      (∃ d ∈ s.procs, ∃ c ph tot, d.k = .doWork r1.id m c ph tot) →
      (∃ d ∈ s.procs, ∃ c ph tot, d.k = .doWork r2.id m c ph tot) →
      r1.ast = some a1 → r1.aft = some f1 → r2.ast = some a2 → r2.aft = some f2 →
      f1 ≤ a2 ∨ f2 ≤ a1 := by
  intro r1 hr1 r2 hr2 hne m a1 f1 a2 f2 hb1 hb2 ha1 hf1 ha2 hf2
  have hid : r1.id ≠ r2.id := fun e => hne (eq_of_map_nodup hnd hr1 hr2 e)
  exact C01_recorded_intervals_disjoint_traj s0 s hw h r1.id r2.id m r1 r2 a1 f1 a2 f2 hid hb1 hb2
    (task?_of_mem_nodup hnd hr1) (task?_of_mem_nodup hnd hr2) ha1 hf1 ha2 hf2

/-- **Along the simulator's runs** (SimPy's order; every state of every run, pauses and states after
an exception included). -/
theorem C01_recorded_intervals_disjoint_simpy (env : SimEnv) (s0 : Sys) (hw : WFConfig s0) (k : SimState)
    (h : SimReach env s0 k) :
    ∀ t1 t2 m r1 r2 a1 f1 a2 f2, t1 ≠ t2 →
      (∃ d ∈ k.st.procs, ∃ c ph tot, d.k = .doWork t1 m c ph tot) →
      (∃ d ∈ k.st.procs, ∃ c ph tot, d.k = .doWork t2 m c ph tot) →
      k.st.task? t1 = some r1 → k.st.task? t2 = some r2 →
      r1.ast = some a1 → r1.aft = some f1 → r2.ast = some a2 → r2.aft = some f2 →
      f1 ≤ a2 ∨ f2 ≤ a1 := by
  intro t1 t2 m r1 r2 a1 f1 a2 f2 hne ⟨d1, hd1, c1, ph1, tot1, hk1⟩ ⟨d2, hd2, c2, ph2, tot2, hk2⟩
    hr1 hr2 ha1 hf1 ha2 hf2
  rcases (sim_ivInv env s0 hw k h).pair d1 hd1 d2 hd2 t1 t2 m c1 c2 ph1 ph2 tot1 tot2 hk1 hk2 hne r1 r2 a1 a2
    hr1 hr2 ha1 ha2 with ⟨f, hf, hle⟩ | ⟨f, hf, hle⟩
  · rw [hf1] at hf; injection hf with hf; subst hf; exact Or.inl hle
  · rw [hf2] at hf; injection hf with hf; subst hf; exact Or.inr hle

/-- … for two different records of the task table of an uninterrupted run, under the hypotheses of
`C04_record_ids_unique_simpy` (no two records share an id) -/
theorem C01_recorded_intervals_disjoint_table_simpy (env : SimEnv) (henv : env.rowsOk) (s0 : Sys)
    (hw : WFConfig s0)
    (hb0 : s0.buf.hot.stored = [] ∧ s0.buf.hot.scheduled = [] ∧ s0.buf.hot.finished = [] ∧
      s0.buf.cold.stored = [])
    (htopo : ∀ o ∈ s0.obs, o.wf.topo.Nodup) (k : SimState) (h : SimRun env s0 k) :
    ∀ r1 ∈ k.st.tasks, ∀ r2 ∈ k.st.tasks, r1 ≠ r2 → ∀ m a1 f1 a2 f2,
      (∃ d ∈ k.st.procs, ∃ c ph tot, d.k = .doWork r1.id m c ph tot) →
      (∃ d ∈ k.st.procs, ∃ c ph tot, d.k = .doWork r2.id m c ph tot) →
      r1.ast = some a1 → r1.aft = some f1 → r2.ast = some a2 → r2.aft = some f2 →
      f1 ≤ a2 ∨ f2 ≤ a1 := by
  intro r1 hr1 r2 hr2 hne m a1 f1 a2 f2 hb1 hb2 ha1 hf1 ha2 hf2
  have hnd := C04_record_ids_unique_simpy env henv s0 hw hb0 htopo k h
  have hid : r1.id ≠ r2.id := fun e => hne (eq_of_map_nodup hnd hr1 hr2 e)
  exact C01_recorded_intervals_disjoint_simpy env s0 hw k h.toReach r1.id r2.id m r1 r2 a1 f1 a2 f2 hid hb1 hb2
    (task?_of_mem_nodup hnd hr1) (task?_of_mem_nodup hnd hr2) ha1 hf1 ha2 hf2

/-- **The machine is given back no earlier than the recorded finish**: a task with a recorded finish
`f` that the cluster no longer runs has `f ≤` the due time of every live process (the clock). -/
theorem C01_released_after_finish_traj (s0 s : Sys) (hw : WFConfig s0) (h : ReachOk s0 s) :
    ∀ t r f, s.task? t = some r → r.aft = some f → t ∉ s.cl.running →
      ∀ q ∈ s.procs, q.alive = true → f ≤ q.wake :=
  (reachOk_ivInv s0 s hw h).rel

/-! ### non-vacuity -/

theorem mem_bodyView {s : Sys} {x : Tid × Mid × Nat × Nat} (h : x ∈ bodyView s) :
    ∃ d ∈ s.procs, ∃ c, d.k = .doWork x.1 x.2.1 c x.2.2.1 x.2.2.2 := by
  unfold bodyView at h
  obtain ⟨d, hd, he⟩ := List.mem_filterMap.mp h
  cases hk : d.k <;> rw [hk] at he <;> simp at he
  subst he
  exact ⟨d, hd, _, hk⟩

/-- `c04W1` run to `is_finished()` (`c04S1`): the ingest task and the two workflow tasks all ran on
machine 0; their records carry both stamps (finishes 1, 4, 6), so the theorem applies to each pair. -/
example : ∃ s r1 r2 a1 a2, ReachOk c04W1 s ∧
    (∃ d ∈ s.procs, ∃ c ph tot, d.k = .doWork (.wf 0 1 0) 0 c ph tot) ∧
    (∃ d ∈ s.procs, ∃ c ph tot, d.k = .doWork (.wf 0 1 1) 0 c ph tot) ∧
    s.task? (.wf 0 1 0) = some r1 ∧ s.task? (.wf 0 1 1) = some r2 ∧
    r1.ast = some a1 ∧ r1.aft = some 4 ∧ r2.ast = some a2 ∧ r2.aft = some 6 ∧ (4 ≤ a2 ∨ 6 ≤ a1) := by
  obtain ⟨_, _, _, hv, hbv, _, _⟩ := c15Chk_spec c15_c04S1_chk
  obtain ⟨_, ⟨r1, hr1, he1⟩, ⟨r2, hr2, he2⟩⟩ := delayView_task? hv (by decide) (by decide) (by decide)
  simp only [Prod.mk.injEq] at he1 he2
  have hb1 : ∃ d ∈ c04S1.procs, ∃ c ph tot, d.k = .doWork (.wf 0 1 0) 0 c ph tot := by
    obtain ⟨d, hd, c, hk⟩ := mem_bodyView (s := c04S1) (x := (.wf 0 1 0, 0, 3, 2)) (by rw [hbv]; simp)
    exact ⟨d, hd, c, _, _, hk⟩
  have hb2 : ∃ d ∈ c04S1.procs, ∃ c ph tot, d.k = .doWork (.wf 0 1 1) 0 c ph tot := by
    obtain ⟨d, hd, c, hk⟩ := mem_bodyView (s := c04S1) (x := (.wf 0 1 1, 0, 3, 1)) (by rw [hbv]; simp)
    exact ⟨d, hd, c, _, _, hk⟩
  obtain ⟨a1, _, g1, _⟩ := C06_recorded_span_any_oracle c04W1 c04S1 c04W1_wf c04S1_reach _ r1 4 hr1 he1.2.2.2.2
  obtain ⟨a2, _, g2, _⟩ := C06_recorded_span_any_oracle c04W1 c04S1 c04W1_wf c04S1_reach _ r2 6 hr2 he2.2.2.2.2
  exact ⟨c04S1, r1, r2, a1, a2, c04S1_reach, hb1, hb2, hr1, hr2, g1, he1.2.2.2.2, g2, he2.2.2.2.2,
    C01_recorded_intervals_disjoint_traj c04W1 c04S1 c04W1_wf c04S1_reach _ _ 0 r1 r2 a1 4 a2 6 (by decide)
      hb1 hb2 hr1 hr2 g1 he1.2.2.2.2 g2 he2.2.2.2.2⟩

end Sys
end Topsim
